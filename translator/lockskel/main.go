// lockskel: translates the lock discipline of pion/turn's Go source into a Coq term (C18).
//
// Run with the working directory at the root of the repository to analyse:
//
//	lockskel -guards guards.txt -out LockSkelGen.v -table table.json
//
// For every function and function literal of the analysed packages it emits a term of Turn.LockSkel.cmd
// (see coq/Model/LockSkel.v for the language and its semantics). Only the standard library is used
// (go/parser, go/ast, go/types with the "source" importer).
//
// What is recognised
//   - X.Lock(), X.Unlock(), X.RLock(), X.RUnlock() on sync.Mutex / sync.RWMutex, also through embedding,
//     and the same calls under defer;
//   - reads and writes of the struct fields named in the guards file;
//   - synchronous calls of functions and methods whose body is in the analysed packages;
//   - if / for / range / switch / type switch / select / break / continue / return.
//
// Anything the translator does not understand (labels, goto, fallthrough, a deferred call of a
// lock-relevant function, a lock operation on an expression it cannot name) makes it FAIL, it is never
// silently dropped.
package main

import (
	"encoding/json"
	"flag"
	"fmt"
	"go/ast"
	"go/importer"
	"go/parser"
	"go/token"
	"go/types"
	"os"
	"path/filepath"
	"sort"
	"strings"
)

var modPath = "github.com/pion/turn/v5"

// packages analysed, relative to the repository root
var withOrders = true

var pkgDirs = []string{".", "internal/allocation", "internal/client", "internal/server", "internal/proto", "internal/ipnet", "internal/auth", "internal/offload"}

type cmd struct {
	op   string // Skip Acq Rel DeferRel Acc Need Ret Seq Alt Loop Sw Brk Cont Call
	n    int
	a, b *cmd
	pos  token.Pos
}

var skip = &cmd{op: "Skip"}

func seq(cs ...*cmd) *cmd {
	var out *cmd
	for i := len(cs) - 1; i >= 0; i-- {
		c := cs[i]
		if c == nil || c.op == "Skip" {
			continue
		}
		if out == nil {
			out = c
		} else {
			out = &cmd{op: "Seq", a: c, b: out}
		}
	}
	if out == nil {
		return skip
	}
	return out
}

func alt(a, b *cmd) *cmd {
	if a.op == "Skip" && b.op == "Skip" {
		return skip
	}
	return &cmd{op: "Alt", a: a, b: b}
}

func alts(cs []*cmd) *cmd {
	if len(cs) == 0 {
		return skip
	}
	out := cs[len(cs)-1]
	for i := len(cs) - 2; i >= 0; i-- {
		out = alt(cs[i], out)
	}
	return out
}

func loop(body *cmd) *cmd {
	if body.op == "Skip" {
		return skip
	}
	return &cmd{op: "Loop", a: body}
}

func sw(body *cmd) *cmd {
	if body.op == "Skip" {
		return skip
	}
	return &cmd{op: "Sw", a: body}
}

func (c *cmd) coq() string {
	switch c.op {
	case "Skip", "Ret", "Brk", "Cont":
		return c.op
	case "Acq", "Rel", "DeferRel", "Acc", "Need", "Call":
		return fmt.Sprintf("(%s %d)", c.op, c.n)
	case "Seq", "Alt":
		return fmt.Sprintf("(%s %s %s)", c.op, c.a.coq(), c.b.coq())
	case "Loop", "Sw":
		return fmt.Sprintf("(%s %s)", c.op, c.a.coq())
	}
	panic("bad cmd " + c.op)
}

// relevant: does the command contain anything but control flow
func (c *cmd) relevant() bool {
	switch c.op {
	case "Acq", "Rel", "DeferRel", "Acc", "Need":
		return true
	case "Seq", "Alt":
		return c.a.relevant() || c.b.relevant()
	case "Loop", "Sw":
		return c.a.relevant()
	}
	return false
}

func (c *cmd) calls(f func(*cmd)) {
	switch c.op {
	case "Call":
		f(c)
	case "Seq", "Alt":
		c.a.calls(f)
		c.b.calls(f)
	case "Loop", "Sw":
		c.a.calls(f)
	}
}

type fn struct {
	idx      int
	name     string // short printable name
	key      string // types.Func full name, or parent key + "$k" for literals
	pos      token.Position
	body     *ast.BlockStmt
	pkg      *pkgInfo
	cmd      *cmd
	pre      []int // lock ids held on entry
	needs    []int // Need ids prepended
	exempt   bool  // accesses to guarded fields are not emitted (constructors: the object is not shared yet)
	goEntry  bool
	rel      bool
	inline   bool     // function literal invoked synchronously by its parent (emitted as Call at the literal)
	asValue  bool     // referenced other than as the callee of a direct call (method value, callback): its callers are unknown
	declared bool     // its entry requirement comes from the guards file
	inferred []string // locks the translator found its callers must hold (checked at every call site by the Coq checker)
	bodyCmd  *cmd
}

type pkgInfo struct {
	path  string
	dir   string
	files []*ast.File
	info  *types.Info
	pkg   *types.Package
}

type translator struct {
	fset          *token.FileSet
	pkgs          map[string]*pkgInfo
	std           types.Importer
	fieldKey      map[*types.Var]string
	locks         []string       // index -> key
	lockIdx       map[string]int // key -> index
	gfields       []string       // guarded field keys
	gfieldIx      map[string]int
	gguard        map[string]string // field key -> lock key
	needs         map[string][]string
	exempt        map[string]bool
	syncLit       map[string]bool // function literal keys invoked synchronously
	fns           []*fn
	fnByKey       map[string]*fn
	litOf         map[*ast.FuncLit]*fn
	errs          []string
	deferredLits  []*fn
	deferredFns   []deferredCall
	deferredAfter []deferredCall // desugared deferred calls followed by a deferred unlock in the same body
}

func (t *translator) errorf(pos token.Pos, format string, args ...any) {
	t.errs = append(t.errs, fmt.Sprintf("%s: %s", t.fset.Position(pos), fmt.Sprintf(format, args...)))
}

// ---------- loading ----------

func (t *translator) Import(path string) (*types.Package, error) {
	if path == modPath || strings.HasPrefix(path, modPath+"/") {
		p, err := t.load(path)
		if err != nil {
			return nil, err
		}
		return p.pkg, nil
	}
	return t.std.Import(path)
}

func (t *translator) load(path string) (*pkgInfo, error) {
	if p, ok := t.pkgs[path]; ok {
		if p.pkg == nil {
			return nil, fmt.Errorf("import cycle through %s", path)
		}
		return p, nil
	}
	rel := strings.TrimPrefix(strings.TrimPrefix(path, modPath), "/")
	if rel == "" {
		rel = "."
	}
	p := &pkgInfo{path: path, dir: rel}
	t.pkgs[path] = p
	ents, err := os.ReadDir(rel)
	if err != nil {
		return nil, err
	}
	for _, e := range ents {
		n := e.Name()
		if e.IsDir() || !strings.HasSuffix(n, ".go") || strings.HasSuffix(n, "_test.go") {
			continue
		}
		full := filepath.Join(rel, n)
		f, err := parser.ParseFile(t.fset, full, nil, parser.ParseComments)
		if err != nil {
			return nil, err
		}
		if !buildOK(f) {
			continue
		}
		p.files = append(p.files, f)
	}
	p.info = &types.Info{
		Types: map[ast.Expr]types.TypeAndValue{}, Defs: map[*ast.Ident]types.Object{},
		Uses: map[*ast.Ident]types.Object{}, Selections: map[*ast.SelectorExpr]*types.Selection{},
	}
	conf := types.Config{Importer: t, Error: func(err error) {}}
	pkg, err := conf.Check(path, t.fset, p.files, p.info)
	if pkg == nil {
		return nil, err
	}
	p.pkg = pkg
	return p, nil
}

// buildOK: honour the //go:build line for the default linux/amd64 build without extra tags
func buildOK(f *ast.File) bool {
	for _, cg := range f.Comments {
		if cg.Pos() > f.Package {
			break
		}
		for _, c := range cg.List {
			if strings.HasPrefix(c.Text, "//go:build ") {
				expr := strings.TrimSpace(strings.TrimPrefix(c.Text, "//go:build "))
				return evalBuild(expr)
			}
		}
	}
	return true
}

func evalBuild(expr string) bool {
	// only the forms used in the repository: "!x", "x", "a && b", "a || b" over simple tags
	on := map[string]bool{"linux": true, "amd64": true, "unix": true, "cgo": false, "verif": false}
	expr = strings.TrimSpace(expr)
	if i := strings.Index(expr, "||"); i >= 0 {
		return evalBuild(expr[:i]) || evalBuild(expr[i+2:])
	}
	if i := strings.Index(expr, "&&"); i >= 0 {
		return evalBuild(expr[:i]) && evalBuild(expr[i+2:])
	}
	expr = strings.Trim(expr, "() ")
	if strings.HasPrefix(expr, "!") {
		return !evalBuild(expr[1:])
	}
	return on[expr]
}

// ---------- naming ----------

func (t *translator) indexFields() {
	for _, p := range t.pkgs {
		if p.pkg == nil {
			continue
		}
		short := p.pkg.Name()
		for _, f := range p.files {
			ast.Inspect(f, func(n ast.Node) bool {
				ts, ok := n.(*ast.TypeSpec)
				if !ok {
					return true
				}
				obj, _ := p.info.Defs[ts.Name].(*types.TypeName)
				if obj == nil {
					return true
				}
				st, ok := obj.Type().Underlying().(*types.Struct)
				if !ok {
					return true
				}
				for i := 0; i < st.NumFields(); i++ {
					t.fieldKey[st.Field(i)] = short + "." + obj.Name() + "." + st.Field(i).Name()
				}
				return true
			})
		}
	}
}

func (t *translator) lockID(key string) int {
	if i, ok := t.lockIdx[key]; ok {
		return i
	}
	t.lockIdx[key] = len(t.locks)
	t.locks = append(t.locks, key)
	return len(t.locks) - 1
}

func idW(i int) int   { return 3*i + 1 }
func idR(i int) int   { return 3*i + 2 }
func idAny(i int) int { return 3*i + 3 }

func isMutexType(ty types.Type) bool {
	if p, ok := ty.(*types.Pointer); ok {
		ty = p.Elem()
	}
	n, ok := ty.(*types.Named)
	if !ok || n.Obj().Pkg() == nil {
		return false
	}
	return n.Obj().Pkg().Path() == "sync" && (n.Obj().Name() == "Mutex" || n.Obj().Name() == "RWMutex")
}

// ---------- per-function translation ----------

type fctx struct {
	t    *translator
	p    *pkgInfo
	f    *fn
	nlit int
	out  []*cmd // events of the expression being walked
}

func (c *fctx) emit(x *cmd) { c.out = append(c.out, x) }

// lockKeyOf names the mutex denoted by expression e (the receiver of Lock/Unlock)
func (c *fctx) lockKeyOf(e ast.Expr, sel *types.Selection) (string, bool) {
	// promoted through embedding: the last embedded field on the path is the mutex
	if sel != nil && len(sel.Index()) > 1 {
		ty := sel.Recv()
		var fv *types.Var
		for _, ix := range sel.Index()[:len(sel.Index())-1] {
			if p, ok := ty.(*types.Pointer); ok {
				ty = p.Elem()
			}
			st, ok := ty.Underlying().(*types.Struct)
			if !ok {
				return "", false
			}
			fv = st.Field(ix)
			ty = fv.Type()
		}
		if k, ok := c.t.fieldKey[fv]; ok {
			return k, true
		}
		return "", false
	}
	e = ast.Unparen(e)
	if u, ok := e.(*ast.UnaryExpr); ok && u.Op == token.AND {
		e = ast.Unparen(u.X)
	}
	switch x := e.(type) {
	case *ast.SelectorExpr:
		if s, ok := c.p.info.Selections[x]; ok {
			if v, ok := s.Obj().(*types.Var); ok {
				if k, ok := c.t.fieldKey[v]; ok {
					return k, true
				}
			}
		}
	case *ast.Ident:
		if v, ok := c.p.info.Uses[x].(*types.Var); ok {
			if v.Parent() == c.p.pkg.Scope() {
				return c.p.pkg.Name() + "." + v.Name(), true
			}
			return "local:" + c.f.name + "." + v.Name(), true
		}
	}
	return "", false
}

// syncMethod returns the sync.(RW)Mutex method name called by call, or ""
func (c *fctx) syncMethod(call *ast.CallExpr) (string, ast.Expr, *types.Selection) {
	se, ok := ast.Unparen(call.Fun).(*ast.SelectorExpr)
	if !ok {
		return "", nil, nil
	}
	s, ok := c.p.info.Selections[se]
	if !ok || s.Kind() != types.MethodVal {
		return "", nil, nil
	}
	f, ok := s.Obj().(*types.Func)
	if !ok || f.Pkg() == nil || f.Pkg().Path() != "sync" {
		return "", nil, nil
	}
	sig := f.Type().(*types.Signature)
	if sig.Recv() == nil || !isMutexType(sig.Recv().Type()) {
		return "", nil, nil
	}
	switch f.Name() {
	case "Lock", "Unlock", "RLock", "RUnlock":
		return f.Name(), se.X, s
	case "TryLock", "TryRLock", "RLocker":
		c.t.errorf(call.Pos(), "unsupported sync method %s", f.Name())
	}
	return "", nil, nil
}

// isLockCall: is this a Lock/Unlock/RLock/RUnlock call on a sync mutex
func (c *fctx) isLockCall(call *ast.CallExpr) bool {
	m, _, _ := c.syncMethod(call)

	return m != ""
}

func (c *fctx) lockOp(call *ast.CallExpr, deferred bool) (*cmd, bool) {
	m, recv, s := c.syncMethod(call)
	if m == "" {
		return nil, false
	}
	key, ok := c.lockKeyOf(recv, s)
	if !ok {
		c.t.errorf(call.Pos(), "cannot name the mutex of this %s call", m)
		return skip, true
	}
	i := c.t.lockID(key)
	mk := func(op string, n int) *cmd { return &cmd{op: op, n: n, pos: call.Pos()} }
	switch m {
	case "Lock":
		if deferred {
			c.t.errorf(call.Pos(), "deferred Lock is not supported")
		}
		return seq(mk("Acq", idW(i)), mk("Acq", idAny(i))), true
	case "RLock":
		if deferred {
			c.t.errorf(call.Pos(), "deferred RLock is not supported")
		}
		return seq(mk("Acq", idR(i)), mk("Acq", idAny(i))), true
	case "Unlock":
		if deferred {
			return seq(mk("DeferRel", idW(i)), mk("DeferRel", idAny(i))), true
		}
		return seq(mk("Rel", idAny(i)), mk("Rel", idW(i))), true
	case "RUnlock":
		if deferred {
			return seq(mk("DeferRel", idR(i)), mk("DeferRel", idAny(i))), true
		}
		return seq(mk("Rel", idAny(i)), mk("Rel", idR(i))), true
	}
	return nil, false
}

// calleeKey resolves a call to a function with a body in the analysed packages
func (c *fctx) calleeKey(call *ast.CallExpr) (string, bool) {
	var obj types.Object
	switch f := ast.Unparen(call.Fun).(type) {
	case *ast.Ident:
		obj = c.p.info.Uses[f]
	case *ast.SelectorExpr:
		if s, ok := c.p.info.Selections[f]; ok {
			if s.Kind() != types.MethodVal {
				return "", false // field of function type: a callback
			}
			obj = s.Obj()
		} else {
			obj = c.p.info.Uses[f.Sel]
		}
	case *ast.IndexExpr: // generic instantiation f[T](...)
		if id, ok := ast.Unparen(f.X).(*ast.Ident); ok {
			obj = c.p.info.Uses[id]
		}
	}
	fo, ok := obj.(*types.Func)
	if !ok {
		return "", false
	}
	if o := fo.Origin(); o != nil {
		fo = o
	}
	return fo.FullName(), true
}

func (c *fctx) guardedField(se *ast.SelectorExpr) (int, bool) {
	s, ok := c.p.info.Selections[se]
	if !ok || s.Kind() != types.FieldVal {
		return 0, false
	}
	v, ok := s.Obj().(*types.Var)
	if !ok {
		return 0, false
	}
	k, ok := c.t.fieldKey[v]
	if !ok {
		return 0, false
	}
	j, ok := c.t.gfieldIx[k]
	return j, ok
}

func fieldRead(j int) int  { return 2*j + 1 }
func fieldWrite(j int) int { return 2*j + 2 }

// walk collects, in source order, the events of an expression (or simple statement part)
func (c *fctx) walk(n ast.Node) {
	if n == nil {
		return
	}
	ast.Inspect(n, func(x ast.Node) bool {
		switch e := x.(type) {
		case *ast.FuncLit:
			c.literal(e)
			return false
		case *ast.CallExpr:
			if lc, ok := c.lockOp(e, false); ok {
				c.emit(lc)
				return false
			}
			// receiver / function expression first, then arguments, then the call
			if se, ok := ast.Unparen(e.Fun).(*ast.SelectorExpr); ok {
				c.walk(se.X)
			} else if _, ok := ast.Unparen(e.Fun).(*ast.Ident); !ok {
				c.walk(e.Fun)
			}
			// delete(m, k) writes m
			if id, ok := ast.Unparen(e.Fun).(*ast.Ident); ok && id.Name == "delete" && len(e.Args) == 2 {
				if _, isB := c.p.info.Uses[id].(*types.Builtin); isB {
					c.walkLHS(e.Args[0])
					c.walk(e.Args[1])
					return false
				}
			}
			for _, a := range e.Args {
				c.walk(a)
			}
			if lit, ok := ast.Unparen(e.Fun).(*ast.FuncLit); ok { // func(){...}() called on the spot
				f := c.t.litOf[lit]
				f.inline = true
				c.emit(&cmd{op: "Call", n: f.idx, pos: e.Pos()})
				return false
			}
			if k, ok := c.calleeKey(e); ok {
				if f, ok := c.t.fnByKey[k]; ok {
					c.emit(&cmd{op: "Call", n: f.idx, pos: e.Pos()})
				}
			}
			return false
		case *ast.SelectorExpr:
			c.walk(e.X)
			if j, ok := c.guardedField(e); ok && !c.f.exempt {
				c.emit(&cmd{op: "Acc", n: fieldRead(j), pos: e.Pos()})
			}
			c.noteValueUse(e.Sel)
			return false
		case *ast.Ident:
			c.noteValueUse(e)
			return true
		case *ast.KeyValueExpr:
			// composite literal field keys are not accesses of a shared object
			c.walk(e.Value)
			return false
		}
		return true
	})
}

// noteValueUse: a function of the module named outside call position (method value, function passed as a callback):
// whoever ends up calling it is not visible here
func (c *fctx) noteValueUse(id *ast.Ident) {
	fo, ok := c.p.info.Uses[id].(*types.Func)
	if !ok {
		return
	}
	if o := fo.Origin(); o != nil {
		fo = o
	}
	if f, ok := c.t.fnByKey[fo.FullName()]; ok {
		f.asValue = true
	}
}

// walkLHS: the expression is assigned to (or its map/slice element is)
func (c *fctx) walkLHS(e ast.Expr) {
	base := ast.Unparen(e)
	var idx []ast.Expr
	for {
		switch x := base.(type) {
		case *ast.IndexExpr:
			idx = append(idx, x.Index)
			base = ast.Unparen(x.X)
			continue
		case *ast.SliceExpr:
			base = ast.Unparen(x.X)
			continue
		case *ast.StarExpr:
			base = ast.Unparen(x.X)
			continue
		}
		break
	}
	for _, i := range idx {
		c.walk(i)
	}
	if se, ok := base.(*ast.SelectorExpr); ok {
		c.walk(se.X)
		if j, ok := c.guardedField(se); ok && !c.f.exempt {
			c.emit(&cmd{op: "Acc", n: fieldWrite(j), pos: se.Pos()})
		}
		return
	}
	c.walk(base)
}

func (c *fctx) literal(l *ast.FuncLit) *fn {
	if f, ok := c.t.litOf[l]; ok {
		return f
	}
	panic("unregistered function literal at " + c.t.fset.Position(l.Pos()).String())
}

func (c *fctx) take() *cmd {
	out := seq(c.out...)
	c.out = nil
	return out
}

func (c *fctx) expr(n ast.Node) *cmd {
	c.walk(n)
	return c.take()
}

func (c *fctx) stmts(l []ast.Stmt) *cmd {
	var cs []*cmd
	for _, s := range l {
		cs = append(cs, c.stmt(s))
	}
	return seq(cs...)
}

// bodyStmts translates the statement list of a function (or function literal) body. A top-level
// `defer g(...)` of a function of the module is desugared: g is called at every return of the rest of the body and
// where the body falls off its end (calls of functions that turn out not to be lock-relevant are pruned later).
// This is the exact order of Go's LIFO deferred calls as long as no unlock is deferred AFTER it in the same body
// (a later deferred unlock would run before g): that case is rejected.
func (c *fctx) bodyStmts(l []ast.Stmt) *cmd {
	for i, s := range l {
		d, ok := s.(*ast.DeferStmt)
		if !ok {
			continue
		}
		if _, isLit := ast.Unparen(d.Call.Fun).(*ast.FuncLit); isLit {
			continue
		}
		if c.isLockCall(d.Call) {
			continue
		}
		k, ok := c.calleeKey(d.Call)
		if !ok {
			continue
		}
		f, ok := c.t.fnByKey[k]
		if !ok {
			continue
		}
		before := c.stmts(l[:i])
		if se, ok := ast.Unparen(d.Call.Fun).(*ast.SelectorExpr); ok {
			c.walk(se.X)
		}
		for _, a := range d.Call.Args {
			c.walk(a)
		}
		pre := c.take()
		rest := c.bodyStmts(l[i+1:])
		call := &cmd{op: "Call", n: f.idx, pos: d.Pos()}
		if rest.has("DeferRel") {
			c.t.deferredAfter = append(c.t.deferredAfter, deferredCall{f, d.Pos()})
		}

		return seq(before, pre, rest.atExit(call), call)
	}

	return c.stmts(l)
}

// has: does the command contain an operation of this kind
func (c *cmd) has(op string) bool {
	if c == nil {
		return false
	}
	if c.op == op {
		return true
	}
	switch c.op {
	case "Seq", "Alt":
		return c.a.has(op) || c.b.has(op)
	case "Loop", "Sw":
		return c.a.has(op)
	}

	return false
}

// atExit puts the call in front of every return
func (c *cmd) atExit(call *cmd) *cmd {
	switch c.op {
	case "Ret":
		return &cmd{op: "Seq", a: call, b: c}
	case "Seq":
		return &cmd{op: "Seq", a: c.a.atExit(call), b: c.b.atExit(call)}
	case "Alt":
		return &cmd{op: "Alt", a: c.a.atExit(call), b: c.b.atExit(call)}
	case "Loop":
		return &cmd{op: "Loop", a: c.a.atExit(call)}
	case "Sw":
		return &cmd{op: "Sw", a: c.a.atExit(call)}
	}

	return c
}

func (c *fctx) stmt(s ast.Stmt) *cmd { //nolint
	switch x := s.(type) {
	case nil:
		return skip
	case *ast.BlockStmt:
		return c.stmts(x.List)
	case *ast.ExprStmt:
		return c.expr(x.X)
	case *ast.AssignStmt:
		for _, r := range x.Rhs {
			c.walk(r)
		}
		for _, l := range x.Lhs {
			if x.Tok == token.DEFINE {
				continue
			}
			if x.Tok != token.ASSIGN { // op-assignment reads as well
				c.walk(l)
			}
			c.walkLHS(l)
		}
		return c.take()
	case *ast.IncDecStmt:
		c.walk(x.X)
		c.walkLHS(x.X)
		return c.take()
	case *ast.DeclStmt:
		return c.expr(x.Decl)
	case *ast.SendStmt:
		c.walk(x.Chan)
		c.walk(x.Value)
		return c.take()
	case *ast.GoStmt:
		// the new goroutine starts with no locks; its body is a function of its own
		if se, ok := ast.Unparen(x.Call.Fun).(*ast.SelectorExpr); ok {
			c.walk(se.X)
		}
		for _, a := range x.Call.Args {
			c.walk(a)
		}
		if lit, ok := ast.Unparen(x.Call.Fun).(*ast.FuncLit); ok {
			c.literal(lit).goEntry = true
		} else if k, ok := c.calleeKey(x.Call); ok {
			if f, ok := c.t.fnByKey[k]; ok {
				f.goEntry = true
			}
		}
		return c.take()
	case *ast.DeferStmt:
		if lc, ok := c.lockOp(x.Call, true); ok {
			return lc
		}
		if se, ok := ast.Unparen(x.Call.Fun).(*ast.SelectorExpr); ok {
			c.walk(se.X)
		}
		for _, a := range x.Call.Args {
			c.walk(a)
		}
		pre := c.take()
		if lit, ok := ast.Unparen(x.Call.Fun).(*ast.FuncLit); ok {
			c.t.deferredLits = append(c.t.deferredLits, c.literal(lit))
		} else if k, ok := c.calleeKey(x.Call); ok {
			if f, ok := c.t.fnByKey[k]; ok {
				c.t.deferredFns = append(c.t.deferredFns, deferredCall{f, x.Pos()})
			}
		}
		return pre
	case *ast.ReturnStmt:
		for _, r := range x.Results {
			c.walk(r)
		}
		return seq(c.take(), &cmd{op: "Ret", pos: x.Pos()})
	case *ast.IfStmt:
		init := c.stmt(x.Init)
		cond := c.expr(x.Cond)
		th := c.stmt(x.Body)
		el := skip
		if x.Else != nil {
			el = c.stmt(x.Else)
		}
		return seq(init, cond, alt(th, el))
	case *ast.ForStmt:
		init := c.stmt(x.Init)
		cond := c.expr(x.Cond)
		body := c.stmt(x.Body)
		post := c.stmt(x.Post)
		// the condition is evaluated once more when the loop ends
		return seq(init, loop(seq(cond, body, post)), cond)
	case *ast.RangeStmt:
		head := c.expr(x.X)
		return seq(head, loop(c.stmt(x.Body)))
	case *ast.SwitchStmt:
		init := c.stmt(x.Init)
		tag := c.expr(x.Tag)
		return seq(init, tag, c.clauses(x.Body))
	case *ast.TypeSwitchStmt:
		init := c.stmt(x.Init)
		as := c.stmt(x.Assign)
		return seq(init, as, c.clauses(x.Body))
	case *ast.SelectStmt:
		var cs []*cmd
		for _, cl := range x.Body.List {
			cc := cl.(*ast.CommClause)
			cs = append(cs, seq(c.stmt(cc.Comm), c.stmts(cc.Body)))
		}
		return sw(alts(cs))
	case *ast.BranchStmt:
		if x.Label != nil {
			c.t.errorf(x.Pos(), "labelled %s is not supported", x.Tok)
			return skip
		}
		switch x.Tok {
		case token.BREAK:
			return &cmd{op: "Brk", pos: x.Pos()}
		case token.CONTINUE:
			return &cmd{op: "Cont", pos: x.Pos()}
		}
		c.t.errorf(x.Pos(), "%s is not supported", x.Tok)
		return skip
	case *ast.LabeledStmt:
		c.t.errorf(x.Pos(), "labelled statement is not supported")
		return c.stmt(x.Stmt)
	case *ast.EmptyStmt:
		return skip
	}
	c.t.errorf(s.Pos(), "unsupported statement %T", s)
	return skip
}

func (c *fctx) clauses(b *ast.BlockStmt) *cmd {
	var cs []*cmd
	hasDefault := false
	var heads []*cmd
	for _, cl := range b.List {
		cc := cl.(*ast.CaseClause)
		if cc.List == nil {
			hasDefault = true
		}
		for _, e := range cc.List {
			heads = append(heads, c.expr(e))
		}
		cs = append(cs, c.stmts(cc.Body))
	}
	if !hasDefault {
		cs = append(cs, skip)
	}
	// all case expressions may be evaluated before a body runs
	return seq(seq(heads...), sw(alts(cs)))
}

type deferredCall struct {
	f   *fn
	pos token.Pos
}

// ---------- driver ----------

func shortName(p *pkgInfo, d *ast.FuncDecl) string {
	n := d.Name.Name
	if d.Recv != nil && len(d.Recv.List) == 1 {
		ty := d.Recv.List[0].Type
		if s, ok := ty.(*ast.StarExpr); ok {
			ty = s.X
		}
		if ix, ok := ty.(*ast.IndexExpr); ok {
			ty = ix.X
		}
		if id, ok := ty.(*ast.Ident); ok {
			n = id.Name + "." + n
		}
	}
	return p.pkg.Name() + "." + n
}

func main() {
	guards := flag.String("guards", "", "guards file")
	out := flag.String("out", "LockSkelGen.v", "Coq output")
	table := flag.String("table", "", "JSON table output")
	fuel := flag.Int("fuel", 12, "call depth bound given to the checker")
	explain := flag.String("explain", "", "write counterexample paths found by the untrusted re-check here (JSON)")
	module := flag.String("module", modPath, "module path of the tree in the working directory")
	pkgs := flag.String("pkgs", "", "comma-separated package directories (default: the pion/turn set)")
	noOrders := flag.Bool("noorders", false, "do not extract the Teardown step orders")
	consts := flag.String("consts", "", "write the package-level integer constants of the module as Coq definitions here and stop")
	ordersOnly := flag.String("ordersonly", "", "write only the Teardown step orders (Coq definitions) here, print them as JSON, and stop")
	flag.Parse()
	modPath = *module
	if *pkgs != "" {
		pkgDirs = strings.Split(*pkgs, ",")
	}
	withOrders = !*noOrders

	t := &translator{
		fset: token.NewFileSet(), pkgs: map[string]*pkgInfo{}, fieldKey: map[*types.Var]string{},
		lockIdx: map[string]int{}, gfieldIx: map[string]int{}, gguard: map[string]string{},
		needs: map[string][]string{}, exempt: map[string]bool{}, syncLit: map[string]bool{},
		fnByKey: map[string]*fn{}, litOf: map[*ast.FuncLit]*fn{},
	}
	t.std = importer.ForCompiler(t.fset, "source", nil)
	for _, d := range pkgDirs {
		if _, err := os.Stat(d); err != nil {
			continue
		}
		path := modPath
		if d != "." {
			path += "/" + d
		}
		if _, err := t.load(path); err != nil {
			fmt.Fprintf(os.Stderr, "lockskel: loading %s: %v\n", path, err)
			os.Exit(2)
		}
	}
	if *consts != "" {
		if err := t.writeConsts(*consts); err != nil {
			fmt.Fprintln(os.Stderr, "lockskel:", err)
			os.Exit(2)
		}
		return
	}
	t.indexFields()
	t.readGuards(*guards)

	// register every function and function literal
	var paths []string
	for k := range t.pkgs {
		paths = append(paths, k)
	}
	sort.Strings(paths)
	for _, path := range paths {
		p := t.pkgs[path]
		for _, f := range p.files {
			for _, d := range f.Decls {
				fd, ok := d.(*ast.FuncDecl)
				if !ok || fd.Body == nil {
					continue
				}
				obj, _ := p.info.Defs[fd.Name].(*types.Func)
				if obj == nil {
					continue
				}
				fx := &fn{idx: len(t.fns), name: shortName(p, fd), key: obj.FullName(), pos: t.fset.Position(fd.Pos()), body: fd.Body, pkg: p}
				t.fns = append(t.fns, fx)
				t.fnByKey[fx.key] = fx
				k := 0
				ast.Inspect(fd.Body, func(n ast.Node) bool {
					if l, ok := n.(*ast.FuncLit); ok {
						k++
						lf := &fn{idx: len(t.fns), name: fmt.Sprintf("%s$%d", fx.name, k), key: fmt.Sprintf("%s$%d", fx.key, k),
							pos: t.fset.Position(l.Pos()), body: l.Body, pkg: p}
						t.fns = append(t.fns, lf)
						t.fnByKey[lf.key] = lf
						t.litOf[l] = lf
					}
					return true
				})
			}
		}
	}
	for _, f := range t.fns {
		if t.exempt[f.name] {
			f.exempt = true
		}
		if strings.Contains(f.name, "$") && t.exempt[f.name[:strings.Index(f.name, "$")]] {
			f.exempt = true
		}
	}
	for name, ls := range t.needs {
		found := false
		for _, f := range t.fns {
			if f.name != name {
				continue
			}
			found = true
			for _, l := range ls {
				mode := "W"
				if i := strings.LastIndex(l, "/"); i >= 0 {
					mode, l = l[i+1:], l[:i]
				}
				i := t.lockID(l)
				switch mode {
				case "W":
					f.pre = append([]int{idAny(i), idW(i)}, f.pre...)
					f.needs = append(f.needs, idW(i)) // the caller must hold it for writing
				case "R":
					f.pre = append([]int{idAny(i), idR(i)}, f.pre...)
				default:
					fmt.Fprintf(os.Stderr, "lockskel: bad mode %q in guards file\n", mode)
					os.Exit(2)
				}
				f.needs = append(f.needs, idAny(i))
				f.declared = true
			}
		}
		if !found {
			t.errs = append(t.errs, fmt.Sprintf("guards file names function %s, which does not exist", name))
		}
	}
	if *ordersOnly != "" {
		otext, ords, oerr := t.orders()
		if oerr != nil {
			fmt.Fprintln(os.Stderr, "lockskel: step orders:", oerr)
			os.Exit(3)
		}
		if err := os.WriteFile(*ordersOnly, []byte(otext), 0o644); err != nil {
			fmt.Fprintln(os.Stderr, "lockskel:", err)
			os.Exit(2)
		}
		js, _ := json.Marshal(ords)
		fmt.Println(string(js))
		return
	}
	for _, f := range t.fns {
		c := &fctx{t: t, p: f.pkg, f: f}
		f.bodyCmd = c.bodyStmts(f.body.List)
	}
	t.inferNeeds()
	for _, f := range t.fns {
		var pre []*cmd
		for _, n := range f.needs {
			pre = append(pre, &cmd{op: "Need", n: n})
		}
		f.cmd = seq(append(pre, f.bodyCmd)...)
	}
	// guarded fields must exist
	for _, k := range t.gfields {
		found := false
		for _, fk := range t.fieldKey {
			if fk == k {
				found = true
			}
		}
		if !found {
			t.errs = append(t.errs, fmt.Sprintf("guards file names field %s, which does not exist", k))
		}
		lk := t.gguard[k]
		found = false
		for _, fk := range t.fieldKey {
			if fk == lk {
				found = true
			}
		}
		if !found {
			t.errs = append(t.errs, fmt.Sprintf("guards file names lock %s, which does not exist", lk))
		}
	}

	// lock relevance, closed under calls
	for _, f := range t.fns {
		f.rel = f.cmd.relevant()
	}
	for changed := true; changed; {
		changed = false
		for _, f := range t.fns {
			if f.rel {
				continue
			}
			f.cmd.calls(func(c *cmd) {
				if t.fns[c.n].rel && !f.rel {
					f.rel = true
					changed = true
				}
			})
		}
	}
	// calls of irrelevant functions are no-ops; direct recursion is rejected
	var prune func(c *cmd) *cmd
	prune = func(c *cmd) *cmd {
		switch c.op {
		case "Call":
			if !t.fns[c.n].rel {
				return skip
			}
			return c
		case "Seq":
			return seq(prune(c.a), prune(c.b))
		case "Alt":
			return alt(prune(c.a), prune(c.b))
		case "Loop":
			return loop(prune(c.a))
		case "Sw":
			return sw(prune(c.a))
		}
		return c
	}
	for _, f := range t.fns {
		f.cmd = prune(f.cmd)
	}
	for _, d := range t.deferredFns {
		if d.f.rel {
			t.errorf(d.pos, "deferred call of lock-relevant function %s is not supported", d.f.name)
		}
	}
	for _, d := range t.deferredAfter {
		if d.f.rel {
			t.errorf(d.pos, "deferred call of lock-relevant function %s before a deferred unlock in the same body is not supported", d.f.name)
		}
	}
	for _, f := range t.deferredLits {
		if f.rel {
			t.errs = append(t.errs, fmt.Sprintf("%s: deferred function literal with lock operations is not supported", f.pos))
		}
	}
	if len(t.errs) > 0 {
		sort.Strings(t.errs)
		for _, e := range t.errs {
			fmt.Fprintln(os.Stderr, "lockskel: "+e)
		}
		os.Exit(3)
	}
	t.write(*out, *table, *fuel)
	if *explain != "" {
		fs := t.explainAll(*fuel)
		if fs == nil {
			fs = []failure{}
		}
		js, _ := json.MarshalIndent(fs, "", " ")
		_ = os.WriteFile(*explain, js, 0o644)
	}
}

func (t *translator) readGuards(path string) {
	if path == "" {
		return
	}
	b, err := os.ReadFile(path)
	if err != nil {
		fmt.Fprintln(os.Stderr, "lockskel:", err)
		os.Exit(2)
	}
	for ln, line := range strings.Split(string(b), "\n") {
		if i := strings.Index(line, "#"); i >= 0 {
			line = line[:i]
		}
		fs := strings.Fields(line)
		if len(fs) == 0 {
			continue
		}
		switch {
		case fs[0] == "field" && len(fs) == 3:
			if _, dup := t.gfieldIx[fs[1]]; dup {
				continue
			}
			t.gfieldIx[fs[1]] = len(t.gfields)
			t.gfields = append(t.gfields, fs[1])
			t.gguard[fs[1]] = fs[2]
			t.lockID(fs[2])
		case fs[0] == "needs" && len(fs) >= 3:
			t.needs[fs[1]] = append(t.needs[fs[1]], fs[2:]...)
		case fs[0] == "exempt" && len(fs) == 2:
			t.exempt[fs[1]] = true
		default:
			fmt.Fprintf(os.Stderr, "lockskel: %s:%d: cannot parse %q\n", path, ln+1, line)
			os.Exit(2)
		}
	}
}

func (t *translator) write(out, table string, fuel int) {
	var b strings.Builder
	b.WriteString("(* GENERATED by /verif/translator/lockskel from the working tree of /repo - do not edit *)\n")
	b.WriteString("From Turn Require Import LockSkel Teardown.\nOpen Scope N_scope.\n\n")
	b.WriteString("(* locks: id = 3*i+1 (/W), 3*i+2 (/R), 3*i+3 (/any)\n")
	for i, k := range t.locks {
		fmt.Fprintf(&b, "   %d %s\n", i, k)
	}
	b.WriteString("   guarded fields: id = 2*j+1 (read), 2*j+2 (write)\n")
	for j, k := range t.gfields {
		fmt.Fprintf(&b, "   %d %s  guarded by %s\n", j, k, t.gguard[k])
	}
	b.WriteString("*)\n\nDefinition guard (f : N) : N :=\n  match f with\n")
	for j, k := range t.gfields {
		li := t.lockIdx[t.gguard[k]]
		fmt.Fprintf(&b, "  | %d => %d | %d => %d\n", fieldRead(j), idAny(li), fieldWrite(j), idW(li))
	}
	b.WriteString("  | _ => 0\n  end.\n\n")
	var rel []*fn
	for _, f := range t.fns {
		if f.rel {
			rel = append(rel, f)
		}
	}
	for _, f := range rel {
		fmt.Fprintf(&b, "(* %s  %s:%d *)\nDefinition f_%d : cmd :=\n  %s.\n\n", f.name, f.pos.Filename, f.pos.Line, f.idx, f.cmd.coq())
	}
	b.WriteString("Definition prog (n : N) : option cmd :=\n  match n with\n")
	for _, f := range rel {
		fmt.Fprintf(&b, "  | %d => Some f_%d\n", f.idx, f.idx)
	}
	b.WriteString("  | _ => None\n  end.\n\n")
	b.WriteString("(* every lock-relevant function, with the locks its documentation says the caller holds *)\nDefinition funcs : list (N * list N) := [\n")
	for i, f := range rel {
		var pre []string
		for _, p := range f.pre {
			pre = append(pre, fmt.Sprint(p))
		}
		sep := ";"
		if i == len(rel)-1 {
			sep = ""
		}
		fmt.Fprintf(&b, "  (%d, [%s])%s\n", f.idx, strings.Join(pre, "; "), sep)
	}
	b.WriteString("].\n\n")
	fmt.Fprintf(&b, "Definition fuel : nat := %d.\n\n", fuel)
	var otext string
	var ords map[string][]string
	var oerr error
	if withOrders {
		otext, ords, oerr = t.orders()
	}
	if oerr != nil {
		fmt.Fprintln(os.Stderr, "lockskel: step orders:", oerr)
		os.Exit(3)
	}
	b.WriteString(otext)
	if err := os.WriteFile(out, []byte(b.String()), 0o644); err != nil {
		fmt.Fprintln(os.Stderr, "lockskel:", err)
		os.Exit(2)
	}
	if table != "" {
		type fj struct {
			Idx     int    `json:"idx"`
			Name    string `json:"name"`
			Pos     string `json:"pos"`
			Pre     []int  `json:"pre"`
			GoEntry bool   `json:"go_entry"`
			Exempt  bool   `json:"exempt"`
		}
		var fjs []fj
		for _, f := range rel {
			fjs = append(fjs, fj{f.idx, f.name, fmt.Sprintf("%s:%d", f.pos.Filename, f.pos.Line), f.pre, f.goEntry, f.exempt})
		}
		inferred := map[string][]string{}
		for _, f := range t.fns {
			if len(f.inferred) > 0 {
				inferred[f.name] = f.inferred
			}
		}
		js, _ := json.MarshalIndent(map[string]any{
			"locks": t.locks, "fields": t.gfields, "guard": t.gguard, "functions": fjs, "inferred_needs": inferred,
			"functions_total": len(t.fns), "functions_lock_relevant": len(rel), "orders": ords,
		}, "", " ")
		_ = os.WriteFile(table, js, 0o644)
	}
}
