// Package sel is the translator's self-test corpus: every function named Good* must be accepted by the
// Coq checker and every function named Bad* rejected.
package sel

import "sync"

type box struct {
	mu    sync.RWMutex
	val   int            // guarded by mu
	table map[string]int // guarded by mu
	other sync.Mutex
	cb    func()
}

type emb struct {
	sync.Mutex
	n int // guarded by the embedded mutex
}

func (b *box) GoodDefer() int {
	b.mu.Lock()
	defer b.mu.Unlock()
	b.val++

	return b.val
}

func (b *box) BadEarlyReturn(x int) int {
	b.mu.Lock()
	if x > 0 {
		return x // lock still held
	}
	b.mu.Unlock()

	return 0
}

func (b *box) GoodBothBranches(x int) int {
	b.mu.Lock()
	if x > 0 {
		b.mu.Unlock()

		return x
	}
	b.val = x
	b.mu.Unlock()

	return 0
}

func (b *box) BadMissingBranch(x int) {
	b.mu.Lock()
	if x > 0 {
		b.mu.Unlock()
	}
}

func (b *box) GoodLoop(xs []int) {
	for _, x := range xs {
		b.mu.Lock()
		b.val += x
		b.mu.Unlock()
	}
}

func (b *box) BadLoopBreak(xs []int) {
	for _, x := range xs {
		b.mu.Lock()
		if x == 0 {
			break // leaves the loop with the lock held
		}
		b.mu.Unlock()
	}
}

func (b *box) BadContinueInSwitch(xs []int) {
	for _, x := range xs {
		b.mu.Lock()
		switch x {
		case 1:
			continue // next iteration locks again
		default:
		}
		b.mu.Unlock()
	}
}

func (b *box) GoodBreakInSwitch(xs []int) {
	for _, x := range xs {
		b.mu.Lock()
		switch x {
		case 1:
			break // ends the switch only
		default:
			b.val = x
		}
		b.mu.Unlock()
	}
}

func (b *box) GoodRead() int {
	b.mu.RLock()
	defer b.mu.RUnlock()

	return b.val + len(b.table)
}

func (b *box) BadWriteUnderRLock() {
	b.mu.RLock()
	defer b.mu.RUnlock()
	b.table["x"] = 1
}

func (b *box) BadDeleteUnderRLock() {
	b.mu.RLock()
	defer b.mu.RUnlock()
	delete(b.table, "x")
}

func (b *box) BadMismatchedUnlock() {
	b.mu.RLock()
	b.mu.Unlock()
}

func (b *box) BadNoLock() int {
	return b.val
}

func (b *box) BadWrongLock() int {
	b.other.Lock()
	defer b.other.Unlock()

	return b.val
}

func (b *box) BadUnlockTwice() {
	b.mu.Lock()
	b.mu.Unlock()
	b.mu.Unlock()
}

// bumpLocked must be called with mu held for writing.
func (b *box) bumpLocked() { b.val++ }

func (b *box) GoodCallsLocked() {
	b.mu.Lock()
	b.bumpLocked()
	b.mu.Unlock()
}

func (b *box) BadCallsLockedWithout() {
	b.bumpLocked()
}

func (b *box) BadLeaks() {
	b.mu.Lock()
}

func (b *box) BadCalleeLeaks() {
	b.BadLeaks()
}

func (b *box) GoodCallsGoodCallee() int {
	return b.GoodDefer() + b.GoodRead()
}

func (b *box) GoodGoroutine() {
	go func() {
		b.mu.Lock()
		b.val = 1
		b.mu.Unlock()
	}()
}

func (b *box) BadGoroutineUsesCallersLock() {
	b.mu.Lock()
	defer b.mu.Unlock()
	go func() {
		b.val = 1 // the new goroutine does not hold the lock
	}()
}

func (b *box) GoodSelect(ch chan int, done chan struct{}) {
	for {
		select {
		case x := <-ch:
			b.mu.Lock()
			b.val = x
			b.mu.Unlock()
		case <-done:
			return
		}
	}
}

func (b *box) BadSelect(ch chan int, done chan struct{}) {
	for {
		b.mu.Lock()
		select {
		case x := <-ch:
			b.val = x
		case <-done:
			return
		}
		b.mu.Unlock()
	}
}

func (e *emb) GoodEmbedded() {
	e.Lock()
	defer e.Unlock()
	e.n++
}

func (e *emb) BadEmbedded() {
	e.n++
}

func GoodLocal() int {
	var mu sync.Mutex
	x := 0
	mu.Lock()
	x++
	mu.Unlock()

	return x
}

func BadLocal() {
	var mu sync.Mutex
	mu.Lock()
}

func (b *box) GoodCallbackUnderLock() {
	b.mu.Lock()
	defer b.mu.Unlock()
	if b.cb != nil {
		b.cb()
	}
}

func (b *box) GoodTypeSwitch(v any) {
	switch x := v.(type) {
	case int:
		b.mu.Lock()
		b.val = x
		b.mu.Unlock()
	case string:
		b.mu.RLock()
		_ = b.table[x]
		b.mu.RUnlock()
	}
}

func (b *box) BadForCondition() {
	for i := 0; i < b.val; i++ { // reads val without the lock
	}
}

func (b *box) GoodRelock() {
	b.mu.Lock()
	b.val = 1
	b.mu.Unlock()
	b.mu.RLock()
	_ = b.val
	b.mu.RUnlock()
}

// deferred calls of functions that lock: run at every return, after the body

func (b *box) bump() {
	b.mu.Lock()
	b.val++
	b.mu.Unlock()
}

func (b *box) GoodDeferCall(x int) int {
	defer b.bump()
	if x > 0 {
		return x
	}
	b.other.Lock()
	b.other.Unlock()

	return 0
}

func (b *box) BadDeferCallUnderLock(x int) int {
	defer b.bump()
	b.mu.Lock()
	if x > 0 {
		return x // bump runs with mu held: self-deadlock
	}
	b.mu.Unlock()

	return 0
}

func (b *box) GoodDeferCallAfterDeferredUnlock() {
	b.other.Lock()
	defer b.other.Unlock()
	defer b.bump() // runs first, with other held; then other is released
	_ = b.cb
}

// entry requirements are inferred for unexported helpers all of whose callers are visible

func (b *box) peekLocked() int { return b.val } // read access: any mode will do

func (b *box) GoodReadHelperUnderRLock() int {
	b.mu.RLock()
	defer b.mu.RUnlock()

	return b.peekLocked()
}

func (b *box) GoodHelperChain() {
	b.mu.Lock()
	b.outerLocked()
	b.mu.Unlock()
}

func (b *box) outerLocked() { b.bumpLocked() } // needs mu for writing because its callee does

func (b *box) BadWriteHelperUnderRLock() {
	b.mu.RLock()
	b.bumpLocked() // writes under a read lock
	b.mu.RUnlock()
}

func (b *box) BadHelperChainWithout() {
	b.outerLocked()
}
