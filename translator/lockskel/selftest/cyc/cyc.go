// Package cyc: every function is balanced, but the acquisition order has a cycle (a -> b in one function,
// b -> a through a call in another), so the program-level check must fail.
package cyc

import "sync"

type pair struct {
	a, b sync.Mutex
}

func (p *pair) AB() {
	p.a.Lock()
	p.b.Lock()
	p.b.Unlock()
	p.a.Unlock()
}

func (p *pair) lockA() {
	p.a.Lock()
	p.a.Unlock()
}

func (p *pair) BA() {
	p.b.Lock()
	defer p.b.Unlock()
	p.lockA()
}
