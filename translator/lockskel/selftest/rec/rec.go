// Package rec: re-acquiring a read lock that is already held (deadlocks when a writer is waiting).
package rec

import "sync"

type r struct {
	mu sync.RWMutex
	v  int
}

func (x *r) get() int {
	x.mu.RLock()
	defer x.mu.RUnlock()

	return x.v
}

func (x *r) Twice() int {
	x.mu.RLock()
	defer x.mu.RUnlock()

	return x.get()
}
