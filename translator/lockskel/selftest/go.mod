module selftest

go 1.24
