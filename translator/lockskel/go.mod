module lockskel

go 1.24
