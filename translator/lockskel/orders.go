package main

// orders.go: extracts, from the source of Allocation.AddPermission / AddChannelBind / Close, the ORDER of the
// steps the Teardown model (coq/Model/Teardown.v) is parameterised by: publish into the table, fire the
// lifecycle callback, arm the lifetime timer, take/release channelBindingsLock.

import (
	"fmt"
	"go/ast"
	"go/token"
	"go/types"
	"strings"
)

type orderSpec struct {
	publishField string            // guarded field whose write is the publication
	armMethods   map[string]string // callee short name -> tag
	callbacks    map[string]string // EventHandler field name -> tag
	calls        map[string]string // other callee short names -> tag
	lockKey      string            // mutex whose Lock/Unlock are steps ("" = none)
	lockTag      string
	unlockTag    string
	publishTag   string
}

// eventsIn lists the tagged events of node n in source order
func (t *translator) eventsIn(f *fn, n ast.Node, spec orderSpec) []string {
	return t.eventsInNodes(f, []ast.Node{n}, spec)
}

// eventsInNodes: the tagged events of the nodes taken in order; deferred ones come last
func (t *translator) eventsInNodes(f *fn, nodes []ast.Node, spec orderSpec) []string {
	c := &fctx{t: t, p: f.pkg, f: f}
	var out []string
	var deferred []string
	var visit func(n ast.Node)
	handleCall := func(call *ast.CallExpr, isDefer bool) bool {
		if m, recv, s := c.syncMethod(call); m != "" {
			key, _ := c.lockKeyOf(recv, s)
			if key == spec.lockKey && spec.lockKey != "" {
				switch m {
				case "Lock":
					out = append(out, spec.lockTag)
				case "Unlock":
					if isDefer {
						deferred = append(deferred, spec.unlockTag)
					} else {
						out = append(out, spec.unlockTag)
					}
				}
			}
			return true
		}
		if se, ok := ast.Unparen(call.Fun).(*ast.SelectorExpr); ok {
			if s, ok := c.p.info.Selections[se]; ok && s.Kind() == types.FieldVal {
				if tag, ok := spec.callbacks[se.Sel.Name]; ok {
					for _, a := range call.Args {
						visit(a)
					}
					out = append(out, tag)
					return true
				}
			}
		}
		if k, ok := c.calleeKey(call); ok {
			if callee, ok := t.fnByKey[k]; ok {
				if tag, ok := spec.armMethods[callee.name]; ok {
					out = append(out, tag)
					return true
				}
				if tag, ok := spec.calls[callee.name]; ok {
					for _, a := range call.Args {
						visit(a)
					}
					out = append(out, tag)
					return true
				}
			}
		}
		return false
	}
	visit = func(n ast.Node) {
		if n == nil {
			return
		}
		ast.Inspect(n, func(x ast.Node) bool {
			switch e := x.(type) {
			case *ast.FuncLit:
				return false
			case *ast.DeferStmt:
				handleCall(e.Call, true)
				return false
			case *ast.CallExpr:
				if handleCall(e, false) {
					return false
				}
				return true
			case *ast.AssignStmt:
				for _, r := range e.Rhs {
					visit(r)
				}
				for _, l := range e.Lhs {
					base := ast.Unparen(l)
					for {
						if ix, ok := base.(*ast.IndexExpr); ok {
							base = ast.Unparen(ix.X)
							continue
						}
						break
					}
					if se, ok := base.(*ast.SelectorExpr); ok {
						if j, ok := c.guardedField(se); ok && t.gfields[j] == spec.publishField && e.Tok == token.ASSIGN {
							out = append(out, spec.publishTag)
						}
					}
				}
				return false
			}
			return true
		})
	}
	for _, n := range nodes {
		visit(n)
	}
	return append(out, deferred...)
}

// publishPath lists the statements executed on the way through list that performs the publication: an if whose body
// (or else part) publishes is entered, an if that does not is skipped (it is a guard that returns early or the other
// case), every other statement is taken. Both shapes of the same logic - `if new { create } else { refresh }` and
// `if !new { refresh; return }; create` - give the same path.
func (t *translator) publishPath(f *fn, list []ast.Stmt, spec orderSpec) []ast.Node {
	has := func(n ast.Node) bool {
		if n == nil {
			return false
		}
		for _, e := range t.eventsIn(f, n, spec) {
			if e == spec.publishTag {
				return true
			}
		}
		return false
	}
	var out []ast.Node
	for _, st := range list {
		is, ok := st.(*ast.IfStmt)
		if !ok {
			out = append(out, st)
			continue
		}
		switch {
		case has(is.Body):
			out = append(out, t.publishPath(f, is.Body.List, spec)...)
		case has(is.Else):
			if blk, ok := is.Else.(*ast.BlockStmt); ok {
				out = append(out, t.publishPath(f, blk.List, spec)...)
			} else {
				out = append(out, t.publishPath(f, []ast.Stmt{is.Else}, spec)...)
			}
		case is.Else == nil && !endsInReturn(is.Body):
			// a conditional step on the path (e.g. "if the handler is set, call it")
			out = append(out, is)
		}
	}
	return out
}

func endsInReturn(b *ast.BlockStmt) bool {
	if b == nil || len(b.List) == 0 {
		return false
	}
	_, ok := b.List[len(b.List)-1].(*ast.ReturnStmt)
	return ok
}

func (t *translator) fnNamed(name string) *fn {
	for _, f := range t.fns {
		if f.name == name {
			return f
		}
	}
	return nil
}

// armsTimer: does the method assign the lifetimeTimer field (so that calling it "arms" the timer)
func (t *translator) armsTimer(name string) bool {
	f := t.fnNamed(name)
	if f == nil {
		return false
	}
	found := false
	ast.Inspect(f.body, func(n ast.Node) bool {
		if as, ok := n.(*ast.AssignStmt); ok {
			for _, l := range as.Lhs {
				if se, ok := l.(*ast.SelectorExpr); ok && se.Sel.Name == "lifetimeTimer" {
					found = true
				}
			}
		}
		return true
	})
	return found
}

func once(evs []string, tags ...string) error {
	for _, tg := range tags {
		n := 0
		for _, e := range evs {
			if e == tg {
				n++
			}
		}
		if n != 1 {
			return fmt.Errorf("expected exactly one %s step, found %d in %v", tg, n, evs)
		}
	}
	return nil
}

// orders returns the Coq definitions of addperm_ord, addchan_ord and close_ord
func (t *translator) orders() (string, map[string][]string, error) {
	res := map[string][]string{}
	ap := t.fnNamed("allocation.Allocation.AddPermission")
	ac := t.fnNamed("allocation.Allocation.AddChannelBind")
	cl := t.fnNamed("allocation.Allocation.Close")
	if ap == nil || ac == nil || cl == nil {
		return "", nil, fmt.Errorf("AddPermission / AddChannelBind / Close not found")
	}
	if !t.armsTimer("allocation.Permission.start") || !t.armsTimer("allocation.ChannelBind.start") {
		return "", nil, fmt.Errorf("Permission.start / ChannelBind.start no longer assign lifetimeTimer")
	}
	pspec := orderSpec{
		publishField: "allocation.Allocation.permissions", publishTag: "PPublish",
		armMethods: map[string]string{"allocation.Permission.start": "PArm"},
		callbacks:  map[string]string{"OnPermissionCreated": "PCallback"},
	}
	pe := t.eventsIn(ap, ap.body, pspec)
	if err := once(pe, "PPublish", "PArm", "PCallback"); err != nil {
		return "", nil, fmt.Errorf("AddPermission: %w", err)
	}
	res["addperm_ord"] = pe

	// AddChannelBind: the branch that appends to channelBindings
	cspec := orderSpec{
		publishField: "allocation.Allocation.channelBindings", publishTag: "CPublish",
		armMethods: map[string]string{"allocation.ChannelBind.start": "CArm"},
		callbacks:  map[string]string{"OnChannelCreated": "CCallback"},
		calls:      map[string]string{"allocation.Allocation.AddPermission": "CAddPerm"},
		lockKey:    "allocation.Allocation.channelBindingsLock", lockTag: "CLock", unlockTag: "CUnlock",
	}
	if n := len(t.eventsIn(ac, ac.body, orderSpec{publishField: cspec.publishField, publishTag: cspec.publishTag})); n != 1 {
		return "", nil, fmt.Errorf("AddChannelBind: expected exactly one statement that publishes the channel, found %d", n)
	}
	ce := t.eventsInNodes(ac, t.publishPath(ac, ac.body.List, cspec), cspec)
	if err := once(ce, "CPublish", "CArm", "CCallback", "CAddPerm"); err != nil {
		return "", nil, fmt.Errorf("AddChannelBind: %w", err)
	}
	res["addchan_ord"] = ce

	// Close: closed test, then ListPermissions / RemovePermission / Stop, then the same for channels
	var ke []string
	ast.Inspect(cl.body, func(n ast.Node) bool {
		switch e := n.(type) {
		case *ast.FuncLit:
			return false
		case *ast.CallExpr:
			if id, ok := ast.Unparen(e.Fun).(*ast.Ident); ok && id.Name == "close" {
				ke = append(ke, "KClosed")
				return true
			}
			c := &fctx{t: t, p: cl.pkg, f: cl}
			if k, ok := c.calleeKey(e); ok {
				if callee, ok := t.fnByKey[k]; ok {
					switch callee.name {
					case "allocation.Allocation.ListPermissions":
						ke = append(ke, "KListP")
					case "allocation.Allocation.RemovePermission":
						ke = append(ke, "KRemoveP")
					case "allocation.Allocation.ListChannelBindings":
						ke = append(ke, "KListC")
					case "allocation.Allocation.RemoveChannelBind":
						ke = append(ke, "KRemoveC")
					}
				}
			}
			if se, ok := ast.Unparen(e.Fun).(*ast.SelectorExpr); ok && se.Sel.Name == "Stop" {
				if inner, ok := ast.Unparen(se.X).(*ast.SelectorExpr); ok && inner.Sel.Name == "lifetimeTimer" {
					if id, ok := ast.Unparen(inner.X).(*ast.Ident); ok {
						switch tv := cl.pkg.info.Types[id].Type.String(); {
						case strings.HasSuffix(tv, ".Permission"):
							ke = append(ke, "KStopP")
						case strings.HasSuffix(tv, ".ChannelBind"):
							ke = append(ke, "KStopC")
						case strings.HasSuffix(tv, ".Allocation"):
							ke = append(ke, "KStopA")
						}
					}
				}
			}
		}
		return true
	})
	res["close_ord"] = ke

	var b strings.Builder
	b.WriteString("(* step orders extracted from Allocation.AddPermission / AddChannelBind / Close *)\n")
	fmt.Fprintf(&b, "Definition addperm_ord : list Teardown.step := [%s].\n", strings.Join(pe, "; "))
	fmt.Fprintf(&b, "Definition addchan_ord : list Teardown.step := [%s].\n", strings.Join(ce, "; "))
	fmt.Fprintf(&b, "Definition close_ord : list Teardown.kstep := [%s].\n", strings.Join(ke, "; "))
	return b.String(), res, nil
}
