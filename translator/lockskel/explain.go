package main

// explain.go: an UNTRUSTED re-implementation of the Coq checker that carries source positions, used only
// to turn a failed proof obligation into a readable counterexample path (the "search for a failing
// input" step). Nothing it says is believed unless the Coq obligation failed first.

import (
	"fmt"
	"go/ast"
	"go/types"
	"sort"
	"strings"
)

type xs struct {
	held, defers []int
	trace        []string
}

type outcome struct {
	kind int // 0 normal, 1 return, 2 break, 3 continue
	s    xs
}

type failure struct {
	Func  string   `json:"function"`
	Pos   string   `json:"pos"`
	What  string   `json:"what"`
	Trace []string `json:"path"`
}

func (t *translator) lockName(id int) string {
	if id <= 0 {
		return fmt.Sprintf("lock#%d", id)
	}
	i, m := (id-1)/3, (id-1)%3
	if i >= len(t.locks) {
		return fmt.Sprintf("lock#%d", id)
	}
	return t.locks[i] + []string{"/W", "/R", "/any"}[m]
}

func (t *translator) fieldName(id int) string {
	j, w := (id-1)/2, (id-1)%2
	if id <= 0 || j >= len(t.gfields) {
		return fmt.Sprintf("field#%d", id)
	}
	return t.gfields[j] + []string{" (read)", " (write)"}[w]
}

func (t *translator) guardOf(id int) int {
	j, w := (id-1)/2, (id-1)%2
	if id <= 0 || j >= len(t.gfields) {
		return 0
	}
	li := t.lockIdx[t.gguard[t.gfields[j]]]
	if w == 1 {
		return idW(li)
	}
	return idAny(li)
}

func has(l []int, x int) bool {
	for _, y := range l {
		if y == x {
			return true
		}
	}
	return false
}

func remove1(l []int, x int) ([]int, bool) {
	for i, y := range l {
		if y == x {
			out := append([]int{}, l[:i]...)
			return append(out, l[i+1:]...), true
		}
	}
	return nil, false
}

func key(s xs) string { return fmt.Sprint(s.held, s.defers) }

func (t *translator) names(l []int) string {
	var out []string
	for _, x := range l {
		if (x-1)%3 != 2 { // show the mode ids, not the /any twins
			out = append(out, t.lockName(x))
		}
	}
	return "[" + strings.Join(out, ", ") + "]"
}

type edgeInfo struct {
	h, l int
	pos  string
	fn   string
}

type explainer struct {
	t     *translator
	edges map[[2]int]edgeInfo
	cur   *fn
}

func (e *explainer) at(c *cmd) string {
	if c.pos.IsValid() {
		p := e.t.fset.Position(c.pos)
		return fmt.Sprintf("%s:%d", p.Filename, p.Line)
	}
	return "?"
}

func with(s xs, ev string) xs {
	tr := append(append([]string{}, s.trace...), ev)
	return xs{held: s.held, defers: s.defers, trace: tr}
}

func dedupOut(os []outcome) []outcome {
	seen := map[string]bool{}
	var out []outcome
	for _, o := range os {
		k := fmt.Sprint(o.kind, key(o.s))
		if !seen[k] {
			seen[k] = true
			out = append(out, o)
		}
	}
	return out
}

func (e *explainer) run(c *cmd, s xs, depth int) ([]outcome, *failure) { //nolint
	t := e.t
	fail := func(what string) ([]outcome, *failure) {
		return nil, &failure{Pos: e.at(c), What: what, Trace: append(append([]string{}, s.trace...), e.at(c)+" "+what)}
	}
	switch c.op {
	case "Skip":
		return []outcome{{0, s}}, nil
	case "Acq":
		for _, h := range s.held {
			k := [2]int{h, c.n}
			if _, ok := e.edges[k]; !ok {
				e.edges[k] = edgeInfo{h, c.n, e.at(c), e.cur.name}
			}
		}
		n := with(s, e.at(c)+" acquire "+t.lockName(c.n))
		n.held = append([]int{c.n}, s.held...)
		return []outcome{{0, n}}, nil
	case "Rel":
		h, ok := remove1(s.held, c.n)
		if !ok {
			return fail("releases " + t.lockName(c.n) + ", which is not held here")
		}
		n := with(s, e.at(c)+" release "+t.lockName(c.n))
		n.held = h
		return []outcome{{0, n}}, nil
	case "DeferRel":
		n := with(s, e.at(c)+" defer release "+t.lockName(c.n))
		n.defers = append([]int{c.n}, s.defers...)
		return []outcome{{0, n}}, nil
	case "Acc":
		if !has(s.held, t.guardOf(c.n)) {
			return fail("accesses " + t.fieldName(c.n) + " without holding " + t.lockName(t.guardOf(c.n)) + " (held: " + t.names(s.held) + ")")
		}
		return []outcome{{0, s}}, nil
	case "Need":
		if !has(s.held, c.n) {
			return fail("is entered without " + t.lockName(c.n) + ", which its callers must hold (held: " + t.names(s.held) + ")")
		}
		return []outcome{{0, s}}, nil
	case "Ret":
		return []outcome{{1, with(s, e.at(c)+" return")}}, nil
	case "Brk":
		return []outcome{{2, s}}, nil
	case "Cont":
		return []outcome{{3, s}}, nil
	case "Seq":
		oa, f := e.run(c.a, s, depth)
		if f != nil {
			return nil, f
		}
		var out []outcome
		for _, o := range oa {
			if o.kind != 0 {
				out = append(out, o)
				continue
			}
			ob, f := e.run(c.b, o.s, depth)
			if f != nil {
				return nil, f
			}
			out = append(out, ob...)
		}
		return dedupOut(out), nil
	case "Alt":
		oa, f := e.run(c.a, s, depth)
		if f != nil {
			return nil, f
		}
		ob, f := e.run(c.b, s, depth)
		if f != nil {
			return nil, f
		}
		return dedupOut(append(oa, ob...)), nil
	case "Loop":
		ob, f := e.run(c.a, s, depth)
		if f != nil {
			return nil, f
		}
		out := []outcome{{0, s}}
		for _, o := range ob {
			switch o.kind {
			case 0, 3:
				if key(o.s) != key(s) {
					return nil, &failure{Pos: e.at(c), What: "a loop iteration changes the held locks from " + t.names(s.held) + " to " + t.names(o.s.held), Trace: o.s.trace}
				}
			case 2:
				out = append(out, outcome{0, o.s})
			case 1:
				out = append(out, o)
			}
		}
		return dedupOut(out), nil
	case "Sw":
		ob, f := e.run(c.a, s, depth)
		if f != nil {
			return nil, f
		}
		var out []outcome
		for _, o := range ob {
			if o.kind == 2 {
				o.kind = 0
			}
			out = append(out, o)
		}
		return dedupOut(out), nil
	case "Call":
		if depth == 0 {
			return fail("call depth bound exceeded")
		}
		callee := t.fns[c.n]
		saved := e.cur
		e.cur = callee
		ob, f := e.run(callee.cmd, xs{held: s.held, trace: append(append([]string{}, s.trace...), e.at(c)+" call "+callee.name)}, depth-1)
		e.cur = saved
		if f != nil {
			if f.Func == "" {
				f.Func = callee.name
			}
			return nil, f
		}
		for _, o := range ob {
			if o.kind >= 2 {
				continue
			}
			h := o.s.held
			ok := true
			for _, d := range o.s.defers {
				if h, ok = remove1(h, d); !ok {
					break
				}
			}
			if !ok || fmt.Sprint(h) != fmt.Sprint(s.held) {
				return nil, &failure{Func: callee.name, Pos: e.at(c), What: "returns to its caller holding " + t.names(h) + " instead of " + t.names(s.held), Trace: o.s.trace}
			}
		}
		return []outcome{{0, s}}, nil
	}
	panic("explain: bad op " + c.op)
}

// explainAll re-runs the check with positions and returns the failures found
func (t *translator) explainAll(fuel int) []failure {
	var out []failure
	e := &explainer{t: t, edges: map[[2]int]edgeInfo{}}
	for _, f := range t.fns {
		if !f.rel {
			continue
		}
		e.cur = f
		os, fl := e.run(f.cmd, xs{held: append([]int{}, f.pre...)}, fuel)
		if fl != nil {
			if fl.Func == "" {
				fl.Func = f.name
			}
			fl.What = fl.Func + " " + fl.What
			fl.Func = f.name
			out = append(out, *fl)
			continue
		}
		for _, o := range os {
			if o.kind >= 2 {
				out = append(out, failure{Func: f.name, Pos: f.pos.String(), What: f.name + ": break/continue escapes the function", Trace: o.s.trace})
				break
			}
			h := o.s.held
			ok := true
			for _, d := range o.s.defers {
				if h, ok = remove1(h, d); !ok {
					break
				}
			}
			if !ok {
				out = append(out, failure{Func: f.name, Pos: f.pos.String(), What: f.name + ": a deferred unlock releases a lock that is no longer held", Trace: o.s.trace})
				break
			}
			if fmt.Sprint(h) != fmt.Sprint(f.pre) {
				out = append(out, failure{Func: f.name, Pos: f.pos.String(), What: f.name + " can return with " + t.names(h) + " held (on entry: " + t.names(f.pre) + ")", Trace: o.s.trace})
				break
			}
		}
	}
	// acquisition order: look for a cycle among the edges
	adj := map[int][]int{}
	for k := range e.edges {
		adj[k[0]] = append(adj[k[0]], k[1])
	}
	for k := range adj {
		sort.Ints(adj[k])
	}
	color := map[int]int{}
	var stack []int
	var cyc []int
	var dfs func(int) bool
	dfs = func(u int) bool {
		color[u] = 1
		stack = append(stack, u)
		for _, v := range adj[u] {
			if color[v] == 1 {
				for i, x := range stack {
					if x == v {
						cyc = append(append([]int{}, stack[i:]...), v)
					}
				}
				return true
			}
			if color[v] == 0 && dfs(v) {
				return true
			}
		}
		stack = stack[:len(stack)-1]
		color[u] = 2
		return false
	}
	var nodes []int
	for k := range adj {
		nodes = append(nodes, k)
	}
	sort.Ints(nodes)
	for _, n := range nodes {
		if color[n] == 0 && dfs(n) {
			var tr []string
			for i := 0; i+1 < len(cyc); i++ {
				ei := e.edges[[2]int{cyc[i], cyc[i+1]}]
				tr = append(tr, fmt.Sprintf("%s in %s: acquires %s while holding %s", ei.pos, ei.fn, t.lockName(cyc[i+1]), t.lockName(cyc[i])))
			}
			out = append(out, failure{Func: "(program)", Pos: tr[0], What: "lock acquisition order has a cycle (possible deadlock)", Trace: tr})
			break
		}
	}
	return out
}

// ---------- entry requirements of unexported helpers ----------
//
// A helper that touches a guarded field without locking is correct when every caller holds the lock. Which helpers
// those are used to be declared in the guards file by name; the translator now finds them itself, so that extracting
// or renaming such a helper does not turn into an alarm. Only functions all of whose callers are visible qualify:
// unexported, not a function literal, never started with go, never referenced as a value, not a method whose name
// occurs in an interface of the module. What is inferred is an OBLIGATION, not an assumption: the generated program
// carries it as Need commands and the verified checker demands the lock at every call site.

type inferState struct {
	held, defers []int
}

// missingIn walks the body of f with the semantics of the checker, except that an access (or a callee's entry
// requirement) whose lock is not held is recorded instead of failing; calls are not entered
func (t *translator) missingIn(f *fn) map[int]bool {
	miss := map[int]bool{}
	var run func(c *cmd, held []int) [][]int
	dedup := func(hs [][]int) [][]int {
		seen := map[string]bool{}
		var out [][]int
		for _, h := range hs {
			k := fmt.Sprint(h)
			if !seen[k] {
				seen[k] = true
				out = append(out, h)
			}
		}
		return out
	}
	need := func(held []int, id int) []int {
		if has(held, id) {
			return held
		}
		miss[id] = true
		// go on as if it were held, so that one missing lock is reported once
		out := append([]int{id}, held...)
		if (id-1)%3 == 0 { // W implies any
			out = append([]int{id + 2}, out...)
		}
		return out
	}
	run = func(c *cmd, held []int) [][]int {
		switch c.op {
		case "Acq":
			return [][]int{append([]int{c.n}, held...)}
		case "Rel":
			if h, ok := remove1(held, c.n); ok {
				return [][]int{h}
			}
			return [][]int{held}
		case "Acc":
			return [][]int{need(held, t.guardOf(c.n))}
		case "Need":
			return [][]int{need(held, c.n)}
		case "Seq":
			var out [][]int
			for _, h := range run(c.a, held) {
				out = append(out, run(c.b, h)...)
			}
			return dedup(out)
		case "Alt":
			return dedup(append(run(c.a, held), run(c.b, held)...))
		case "Loop", "Sw":
			return dedup(append([][]int{held}, run(c.a, held)...))
		case "Call":
			callee := t.fns[c.n]
			h := held
			for _, p := range callee.needs {
				h = need(h, p)
			}
			return [][]int{h}
		}
		return [][]int{held}
	}
	run(f.bodyCmd, append([]int{}, f.pre...))
	return miss
}

func (t *translator) inferNeeds() {
	// names of interface methods declared in the module: such methods can be called through the interface
	ifaceMethods := map[string]bool{}
	for _, p := range t.pkgs {
		for _, name := range p.pkg.Scope().Names() {
			tn, ok := p.pkg.Scope().Lookup(name).(*types.TypeName)
			if !ok {
				continue
			}
			if it, ok := tn.Type().Underlying().(*types.Interface); ok {
				for i := 0; i < it.NumMethods(); i++ {
					ifaceMethods[it.Method(i).Name()] = true
				}
			}
		}
	}
	called := map[int]bool{}
	for _, f := range t.fns {
		f.bodyCmd.calls(func(c *cmd) { called[c.n] = true })
	}
	eligible := func(f *fn) bool {
		if f.declared || f.exempt || f.goEntry || f.asValue || strings.Contains(f.name, "$") || !called[f.idx] {
			return false
		}
		short := f.name[strings.LastIndex(f.name, ".")+1:]
		if short == "" || ast.IsExported(short) || ifaceMethods[short] || short == "init" || short == "main" {
			return false
		}
		return true
	}
	for round := 0; round < 64; round++ {
		changed := false
		for _, f := range t.fns {
			if !eligible(f) {
				continue
			}
			miss := t.missingIn(f)
			var ids []int
			for id := range miss {
				ids = append(ids, id)
			}
			sort.Ints(ids)
			for _, id := range ids {
				i := (id - 1) / 3
				switch (id - 1) % 3 {
				case 0: // write lock
					if !has(f.pre, idW(i)) {
						// a read requirement found earlier is upgraded
						f.pre, _ = remove1or(f.pre, idR(i))
						if !has(f.pre, idAny(i)) {
							f.pre = append([]int{idAny(i)}, f.pre...)
							f.needs = append(f.needs, idAny(i))
						}
						f.pre = append([]int{idW(i)}, f.pre...)
						f.needs = append(f.needs, idW(i))
						changed = true
					}
				default: // read (or any) mode is enough
					if !has(f.pre, idAny(i)) {
						f.pre = append([]int{idAny(i), idR(i)}, f.pre...)
						f.needs = append(f.needs, idAny(i))
						changed = true
					}
				}
			}
		}
		if !changed {
			break
		}
	}
	for _, f := range t.fns {
		if f.declared || len(f.pre) == 0 {
			continue
		}
		for _, p := range f.pre {
			if (p-1)%3 != 2 {
				f.inferred = append(f.inferred, t.lockName(p))
			}
		}
		sort.Strings(f.inferred)
	}
}

func remove1or(l []int, x int) ([]int, bool) {
	if out, ok := remove1(l, x); ok {
		return out, true
	}
	return l, false
}
