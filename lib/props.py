"""Per-property configuration of the checks."""

PROPS = {
    "C11": {
        "pkgs": [("./internal/proto", "TestVerif_C11")],
        "trusted_base": [
            "pion/stun Message.Add/Get (TLV framing) and XORMappedAddress.AddToAs/GetFromAs are modelled "
            "(Model/Attrs.v), tied by the correspondence run, not verified",
        ],
        "assumptions": ["LIFETIME values are whole seconds 0..2^32-1 (float rounding of Duration.Seconds() not modelled)"],
    },
}
