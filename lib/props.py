"""Per-property configuration of the checks."""

PROPS = {
    "C11": {
        "pkgs": [("./internal/proto", "TestVerif_C11")],
        "trusted_base": [
            "pion/stun Message.Add/Get (TLV framing) and XORMappedAddress.AddToAs/GetFromAs are modelled "
            "(Model/Attrs.v), tied by the correspondence run, not verified",
        ],
        "assumptions": ["LIFETIME values are whole seconds 0..2^32-1 (float rounding of Duration.Seconds() not modelled)"],
    },
    "C10": {
        "pkgs": [("./internal/proto", "TestVerif_C10"), ("./internal/client", "TestVerif_C10")],
        "trusted_base": [
            "net.Conn.Read semantics (returns 1..len(p) bytes or an error) are an input of the model (the list of reads)",
            "the caller's buffer is assumed large enough for a frame (the server drops frames >= InboundMTU after ReadFrom)",
        ],
        "assumptions": [],
    },
}

_RELAY_TB = [
    "the abstraction from wire messages to model events is done by the harness, which records what it built "
    "(credential descriptor, attribute presence/size, environment choice of relay port)",
    "pion/stun message building/decoding, MESSAGE-INTEGRITY computation and the Go runtime's timers are not modelled",
    "testing/synctest virtual clock: events are issued off the timer grid so that no event coincides with a deadline",
]
for _p in ("C01", "C02", "C03", "C04", "C05", "C06", "C07", "C08", "C15", "C19"):
    PROPS[_p] = {"pkgs": [(".", "TestVerif_" + _p)], "trusted_base": _RELAY_TB, "assumptions": []}
# C04 also covers the RFC 6062 part: the multi-allocation TCP-relay histories judged by the isolation predicate
PROPS["C04"]["pkgs"] = [(".", "TestVerif_C04"), (".", "TestVerif_C04TCP")]
# C03 also covers the RFC 6062 part: ConnectionBind authorisation on the same TCP-relay histories (Check/C03TcpCheck.v)
PROPS["C03"]["pkgs"] = [(".", "TestVerif_C03"), (".", "TestVerif_C03TCP")]
PROPS["C03"]["trusted_base"] = _RELAY_TB + [
    "TCP relay part: peer and data connections are in-memory streams; dial outcomes and the server's random connection ids are "
    "inputs of Model/TcpRelay.v (as for C16)"]
# C15 also judges the forced teardown schedules (threads parked inside lifecycle callbacks) of the allocation package
PROPS["C15"]["pkgs"] = [(".", "TestVerif_C15"), ("./internal/allocation", "TestVerif_C15TD")]
PROPS["C15"]["pre"] = "c15td:pre"
PROPS["C15"]["trusted_base"] = _RELAY_TB + [
    "slow-callback teardown: translator/lockskel -ordersonly extracts the step orders of AddPermission / AddChannelBind / Close from the "
    "source on every run (lib/c15td.py evaluates orders_ok, callbacks_last and close_shape_ok on them); the forced schedules of "
    "harness/allocation (threads parked in the Created callbacks, timers fired by the virtual clock) are replayed on Model/Teardown.v "
    "under those orders and judged by Check/C15TdCheck.v; what remains published is a theorem over every macro trace of the model "
    "(C15_slow_callback_maps_on_every_model_trace), the pairing of Created and Deleted callbacks in these schedules is checked on the "
    "real code only (partial); the model's atomic steps (one mutex-protected section = one step) are an abstraction of the Go code"]
PROPS["C04"]["trusted_base"] = _RELAY_TB + [
    "TCP relay part: peer and data connections are in-memory streams; dial outcomes and the server's random connection ids are "
    "inputs of Model/TcpRelay.v (as for C16)"]

PROPS["C20"] = {"pkgs": [(".", "TestVerif_C20")],
                "trusted_base": ["the socket layer (transport.Net) and the random source are scripted by the harness; the model takes "
                                 "'bind refuses a bound port' as the environment's behaviour, which the harness also tries on real loopback TCP sockets"],
                "assumptions": ["1 <= MinPort <= MaxPort <= 65535 as the property states"]}

PROPS["C17"] = {"pkgs": [(".", "TestVerif_C17")],
                "trusted_base": ["HMAC-SHA1, base64 and MD5 are symbolic in the model; the harness recomputes the expected password/key "
                                 "with crypto/hmac and reports equality", "time.Now is testing/synctest's clock (starts 2000-01-01)"],
                "assumptions": ["unix(now+duration) fits int64 (instants after 1970)", "forgery theorem: HMAC/base64/MD5 key derivation injective"]}

PROPS["C12"] = {"pkgs": [(".", "TestVerif_C12"), (".", "TestVerif_C12Slow")],
                "trusted_base": ["the client's socket is scripted (write outcomes are the model's environment input); responses are injected "
                                 "through Client.HandleInbound; time.AfterFunc under testing/synctest",
                                 "the serialisation of timer callbacks and responses by Client.mutexTrMap is modelled as atomic events (C18 covers locks); the "
                                 "forced schedules with a slow PacketConn.WriteTo (TestVerif_C12Slow, real time) exercise the places where that "
                                 "atomicity could be lost - Close, a response or another transaction arriving while a (re)transmission is inside the "
                                 "socket write - and are judged on 'every call returned, table empty, no panic' (Check/C18Check.v CL cases), no theorem"],
                "assumptions": ["transaction ids are fresh (96 random bits in the implementation)"]}

PROPS["C09"] = {"pkgs": [("./internal/server", "TestVerif_C09"), (".", "TestVerif_C09"), ("./internal/proto", "TestVerif_C09"), (".", "TestVerif_C09TCP")],
                "trusted_base": ["pion/stun Message.Decode is modelled byte by byte (Model/StunMsg.v) and compared with the library on every case",
                                 "code below the dispatch that is not modelled line by line (attribute getters inside handlers, logging, runtime) "
                                 "is exercised by the correspondence runs only",
                                 "a real-time watchdog turns a busy loop into a reported failure"],
                "assumptions": []}

PROPS["C16"] = {"pkgs": [(".", "TestVerif_C16")],
                "trusted_base": ["TCP is simulated by in-memory streams (dial outcomes are the model's environment input; connection ids are the "
                                 "server's random choices, observed and fed to the model)",
                                 "io.Copy is taken to be the identity relay; the byte-content claim rests on the correspondence runs"],
                "assumptions": []}

PROPS["C13"] = {"pkgs": [("./internal/client", "TestVerif_C13")],
                "trusted_base": ["the TURN client underneath the relayed socket is scripted (server reactions are the model's environment input)",
                                 "the demultiplexing done by client.go for Data indications / ChannelData is replicated by the harness "
                                 "(FindAddrByChannelNumber + HandleInbound); C09 covers client.go's own dispatch",
                                 "goroutine-level interleavings of maybeBind's background goroutine are abstracted to 'the reaction arrives at a later event'"],
                "assumptions": ["at most two 438 answers in a row to one ChannelBind (the third makes the client give up; not modelled)"]}

PROPS["C14"] = {"pkgs": [(".", "TestVerif_C14")],
                "trusted_base": ["the theorem is about the abstract timed system of Model/KeepAlive.v; that the goroutine-based drivers of the client "
                                 "obey its cycle bound (next refresh processed within P + 2H of the previous one) is CHECKED on the timelines of a real "
                                 "client against a real server over virtual hours, not proved",
                                 "loss schedules drop up to five transmissions of a request and up to two responses, never all"],
                "assumptions": ["interval + 2 x 23.4 s < timeout for each (driver, server timer) pair: the meaning given to 'compatible configuration'"]}

PROPS["C18"] = {"pkgs": [("./internal/allocation", "TestVerif_C18TD"), (".", "TestVerif_C18Client"), (".", "TestVerif_C18Stress", ["-race"])],
                # thorough: everything under the race detector, and the concurrent campaigns of other properties as well
                "go_flags": {"thorough": ["-race"]},
                "extra_pkgs": {"thorough": [(".", "TestVerif_C16"), (".", "TestVerif_C12"), (".", "TestVerif_C14"),
                                            ("./internal/client", "TestVerif_C13"), (".", "TestVerif_C01")]},
                "pre": "c18:pre",
                "trusted_base": ["translator/lockskel (Go, go/parser + go/types): recognition of Lock/Unlock/RLock/RUnlock calls (also deferred and "
                                 "through embedding), of reads and writes of the fields named in translator/lockskel/guards.txt, of calls between "
                                 "functions of the module, and the shaping of if/for/range/switch/select/break/continue/return into LockSkel.cmd; "
                                 "it fails closed on constructs it does not know, and its self-test corpus (Good*/Bad* functions, two cyclic "
                                 "programs) is run through the Coq checker on every run",
                                 "translator/lockskel/guards.txt: which mutex guards which field, which functions document 'caller holds the lock', "
                                 "which constructors are exempt - taken from comments in the source, not verified",
                                 "locks and fields are identified per type (Manager.lock, Allocation.permissionsLock ...), not per object; "
                                 "callbacks through function values and interface calls are opaque; channel operations, WaitGroups and atomics "
                                 "are not modelled (a deadlock through a channel is outside the theorem; the forced-schedule harness and its "
                                 "real-time watchdog look for those)",
                                 "Go's memory model itself: 'every access to a guarded field happens with its mutex held' is the Eraser-style "
                                 "sufficient condition, proved for the declared fields only; the thorough tier additionally runs the schedules "
                                 "under the race detector",
                                 "Model/Teardown.v is hand-written; its step orders are extracted from the source by the translator on every run "
                                 "and its behaviour is compared with the real Manager/Allocation on forced schedules (threads parked inside the "
                                 "lifecycle callbacks, timers fired by the virtual clock)"],
                "assumptions": ["application callbacks do not re-enter the library while it holds a lock "
                                "(OnPermissionDeleted runs under permissionsLock, OnChannelCreated/OnChannelDeleted and the nested "
                                "OnPermissionCreated under channelBindingsLock, all Deleted callbacks of a closing allocation under Manager.lock)",
                                "one closer at a time in the forced schedules (Manager.lock serialises DeleteAllocation / Manager.Close)"]}
