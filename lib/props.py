"""Per-property configuration of the checks."""

PROPS = {
    "C11": {
        "pkgs": [("./internal/proto", "TestVerif_C11")],
        "trusted_base": [
            "pion/stun Message.Add/Get (TLV framing) and XORMappedAddress.AddToAs/GetFromAs are modelled "
            "(Model/Attrs.v), tied by the correspondence run, not verified",
        ],
        "assumptions": ["LIFETIME values are whole seconds 0..2^32-1 (float rounding of Duration.Seconds() not modelled)"],
    },
    "C10": {
        "pkgs": [("./internal/proto", "TestVerif_C10"), ("./internal/client", "TestVerif_C10")],
        "trusted_base": [
            "net.Conn.Read semantics (returns 1..len(p) bytes or an error) are an input of the model (the list of reads)",
            "the caller's buffer is assumed large enough for a frame (the server drops frames >= InboundMTU after ReadFrom)",
        ],
        "assumptions": [],
    },
}
