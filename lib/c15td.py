"""C15, teardown during a slow lifecycle callback: the hypotheses of the theorems of Properties/C15.v about Model/Teardown.v
(orders_ok, callbacks_last, close_shape_ok) are obligations on the step orders of the code. On every run translator/lockskel
(mode -ordersonly) extracts those orders from the type-checked source of /repo; they are evaluated here, and handed to the
forced-schedule harness (environment variable VERIF_TD_ORDERS) so that every recorded case carries them and the
correspondence runner (Check/C15TdCheck.run) replays the schedule on the model under exactly these orders."""
import json, os, re, shutil, subprocess, tempfile

VERIF = "/verif"
REPO = "/repo"
COQ = os.path.join(VERIF, "coq")
TR = os.path.join(VERIF, "translator", "lockskel")
GO = "go1.26.8"

EVAL = """From Turn Require Import Bytes Teardown.
%s
Definition V := Eval vm_compute in (orders_ok addperm_ord addchan_ord, callbacks_last addperm_ord addchan_ord, close_shape_ok close_ord).
Print V.
Theorem C15_orders_checked : orders_ok addperm_ord addchan_ord = true.
Proof. vm_compute. reflexivity. Qed.
Theorem C15_callbacks_last_checked : callbacks_last addperm_ord addchan_ord = true.
Proof. vm_compute. reflexivity. Qed.
Theorem C15_close_shape_checked : close_shape_ok close_ord = true.
Proof. vm_compute. reflexivity. Qed.
"""


def _run(cmd, cwd=None, env=None, timeout=900):
    p = subprocess.run(cmd, cwd=cwd, env=env, stdout=subprocess.PIPE, stderr=subprocess.STDOUT, text=True, timeout=timeout)
    return p.returncode, p.stdout


def _coq_args():
    args = []
    for d in ("Lib", "Model"):
        args += ["-Q", os.path.join(COQ, d), "Turn"]
    return args


def pre(pid, tier, seed):
    info = {"obligations": 4, "discharged": 0, "broken": None, "violations": [], "notes": [], "env": {},
            "theorems": ["translation of the step orders", "C15_orders_checked", "C15_callbacks_last_checked", "C15_close_shape_checked"]}
    work = tempfile.mkdtemp(prefix="verif-c15td-", dir="/var/tmp")
    try:
        env = dict(os.environ)
        env.update({"GOTOOLCHAIN": "local", "GOPROXY": "off", "GOSUMDB": "off", "GOFLAGS": "-mod=mod"})
        binp = os.path.join(work, "lockskel")
        rc, out = _run([GO, "build", "-o", binp, "."], cwd=TR, env=env)
        if rc != 0:
            info["broken"] = "translator/lockskel does not build: " + out[-400:]
            return info
        of = os.path.join(work, "Orders.v")
        rc, out = _run([binp, "-guards", os.path.join(TR, "guards.txt"), "-ordersonly", of], cwd=REPO, env=env)
        if rc != 0:
            info["broken"] = ("translator/lockskel cannot extract the step orders of AddPermission / AddChannelBind / Close from the tree "
                              "(the hypotheses of C15_quiet_close_leaves_nothing can no longer be evaluated on the code): " + " ".join(out.split())[-400:])
            return info
        info["discharged"] += 1
        try:
            info["orders"] = json.loads(out.strip().splitlines()[-1])
        except Exception:  # noqa: BLE001
            info["orders"] = None
        defs = "\n".join(l for l in open(of).read().splitlines() if l.startswith("Definition "))
        # the harness writes these definitions into the preamble of its case files
        info["env"]["VERIF_TD_ORDERS"] = " ".join(l for l in defs.splitlines() if "close_ord" not in l)
        ev = os.path.join(work, "C15Orders.v")
        open(ev, "w").write(EVAL % defs)
        rc, out = _run(["coqc"] + _coq_args() + [ev], cwd=work)
        flat = " ".join(out.split())
        m = re.search(r"V = \((true|false), (true|false), (true|false)\)", flat)
        if not m:
            info["broken"] = "C15 orders obligations cannot be evaluated: " + flat[-400:]
            return info
        oks = [m.group(i) == "true" for i in (1, 2, 3)]
        info["discharged"] += sum(oks)
        names = ["C15_orders_checked (orders_ok: no interleaving crashes)",
                 "C15_callbacks_last_checked (callbacks_last: a call inside a lifecycle callback has nothing left to publish)",
                 "C15_close_shape_checked (Allocation.Close has the shape the model's closer thread assumes)"]
        bad = [n for n, ok in zip(names, oks) if not ok]
        if bad:
            info["broken"] = ("the step orders extracted from the source %s no longer satisfy %s - the slow-callback theorems of "
                              "Properties/C15.v no longer apply to the code" % (json.dumps(info["orders"]), "; ".join(bad)))
        return info
    finally:
        shutil.rmtree(work, ignore_errors=True)


if __name__ == "__main__":
    print(json.dumps(pre("C15", "quick", 1), indent=1))
