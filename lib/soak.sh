#!/bin/sh
# multi-seed soak of every quick check on the clean tree (run from a snapshot: vp run -- sh lib/soak.sh 2 8)
lo=${1:-2}; hi=${2:-6}
for seed in $(seq $lo $hi); do
  for p in C01 C02 C03 C04 C05 C06 C07 C08 C09 C10 C11 C12 C13 C14 C15 C16 C17 C18 C19 C20; do
    VERIF_SEED=$seed bin/check $p quick 2>&1 | grep -E "^VIOLATION|^$p quick" | cut -c1-220 | sed "s/^/seed=$seed /"
  done
done
