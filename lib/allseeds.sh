#!/bin/sh
# runs every seeded change against the check of its property (quick tier); /repo is restored after each
cd /verif
for d in seeded/*; do
  n=$(basename $d); p=$(echo $n | cut -d- -f2)
  echo "== $n $p"
  python3 lib/seedtest.py $d $n --skip-confirm $p 2>&1 | grep -v "^confirm" | cut -c1-260
done
git -C /repo status --short
