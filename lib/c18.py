"""C18: translator-based obligations.  Called by vcheck.main before the correspondence round.

1. build translator/lockskel (Go, standard library only) and run its self-test corpus through the Coq checker;
2. run it on /repo's working tree -> coq/Gen/LockSkelGen.v (lock skeletons of every function, guard table,
   step orders of AddPermission / AddChannelBind / Close);
3. compile Gen/LockSkelGen.v and Properties/C18Gen.v (vm_compute of the verified checker on the fresh term);
4. on failure: the translator's untrusted re-check (explain.go) names the control-flow path, and the model
   search in C18Gen.v names a crashing schedule.
"""
import json
import os
import re
import shutil
import subprocess
import tempfile

VERIF = os.path.dirname(os.path.dirname(os.path.abspath(__file__)))
REPO = os.environ.get("VERIF_REPO", "/repo")
COQ = os.path.join(VERIF, "coq")
GO = os.environ.get("VERIF_GO", "go1.26.8")
TR = os.path.join(VERIF, "translator", "lockskel")


def _run(cmd, cwd=None, env=None, timeout=900):
    try:
        p = subprocess.run(cmd, cwd=cwd, env=env, timeout=timeout, stdout=subprocess.PIPE, stderr=subprocess.STDOUT, text=True)
        return p.returncode, p.stdout or ""
    except subprocess.TimeoutExpired as e:
        return 124, (e.stdout or "") + "\n[timeout]"


def _coq_args(extra=()):
    args = []
    for d in ("Lib", "Model", "Proofs", "Check"):
        args += ["-Q", os.path.join(COQ, d), "Turn"]
    for d in extra:
        args += ["-Q", d, "Turn"]
    return args


SELF_EVAL = """From Turn Require Import LockSkel.
Require Import {mod}.
Open Scope N_scope.
Definition verdict (p : N * list N) : N * N :=
  match prog (fst p) with
  | None => (fst p, 9)
  | Some b => match balanced guard prog fuel (snd p) b with Some _ => (fst p, 0) | None => (fst p, 1) end
  end.
Definition V := Eval vm_compute in (program_ok guard prog fuel funcs, filter (fun v => negb (snd v =? 0)) (map verdict funcs)).
Print V.
"""


def _parse_pairs(s):
    return [(int(a), int(b)) for a, b in re.findall(r"\(\s*(\d+),\s*(\d+)\s*\)", s)]


def selftest(binpath, work):
    """Translator + checker on the self-test corpus: Good* accepted, Bad* rejected, cyc/rec fail the ranking."""
    env = dict(os.environ)
    problems, n = [], 0
    st = os.path.join(TR, "selftest")
    for pkg, guards in (("sel", os.path.join(st, "guards.txt")), ("cyc", ""), ("rec", "")):
        d = os.path.join(work, "self_" + pkg)
        os.makedirs(d, exist_ok=True)
        gen = os.path.join(d, "Self.v")
        table = os.path.join(d, "table.json")
        cmd = [binpath, "-module", "selftest", "-pkgs", pkg, "-noorders", "-out", gen, "-table", table]
        if guards:
            cmd += ["-guards", guards]
        rc, out = _run(cmd, cwd=st, env=env)
        if rc != 0:
            problems.append(f"selftest {pkg}: translator failed: {out[-400:]}")
            continue
        rc, out = _run(["coqc"] + _coq_args() + ["-Q", d, "", gen], cwd=d)
        if rc != 0:
            problems.append(f"selftest {pkg}: generated file does not compile: {out[-400:]}")
            continue
        ev = os.path.join(d, "Eval.v")
        open(ev, "w").write(SELF_EVAL.format(mod="Self"))
        rc, out = _run(["coqc"] + _coq_args() + ["-Q", d, "", ev], cwd=d)
        flat = " ".join(out.split())
        m = re.search(r"V = \((true|false), (\[.*?\])\) :", flat)
        if rc != 0 or not m:
            problems.append(f"selftest {pkg}: evaluation failed: {out[-400:]}")
            continue
        ok_prog = m.group(1) == "true"
        bad = {i for i, _ in _parse_pairs(m.group(2))}
        tab = json.load(open(table))
        for f in tab["functions"]:
            short = f["name"].split(".")[-1].split("$")[0]
            n += 1
            if pkg == "sel":
                if short.startswith("Bad") and "$" not in f["name"] and f["idx"] not in bad:
                    # a Bad function may be rejected through its closure instead
                    closures = [g["idx"] for g in tab["functions"] if g["name"].startswith(f["name"] + "$")]
                    if not any(c in bad for c in closures):
                        problems.append(f"selftest: {f['name']} should be rejected and is accepted")
                if short.startswith("Good") and f["idx"] in bad:
                    problems.append(f"selftest: {f['name']} should be accepted and is rejected")
            else:
                if f["idx"] in bad:
                    problems.append(f"selftest {pkg}: {f['name']} should be balanced")
        if pkg in ("cyc", "rec") and ok_prog:
            problems.append(f"selftest {pkg}: the acquisition-order cycle was not detected")
        if pkg == "sel" and ok_prog:
            problems.append("selftest sel: program accepted although it has Bad functions")
    return problems, n


def pre(pid, tier, seed):
    info = {"obligations": 0, "discharged": 0, "broken": None, "violations": [], "notes": []}
    work = tempfile.mkdtemp(prefix="verif-c18gen-", dir="/var/tmp")
    try:
        env = dict(os.environ)
        env.update({"GOTOOLCHAIN": "local", "GOPROXY": "off", "GOSUMDB": "off", "GOFLAGS": "-mod=mod"})
        binpath = os.path.join(work, "lockskel")
        rc, out = _run([GO, "build", "-o", binpath, "."], cwd=TR, env=env)
        if rc != 0:
            info["broken"] = "translator/lockskel does not build: " + out[-500:]
            return info
        # self-test of translator + checker
        problems, nself = selftest(binpath, work)
        info["selftest_functions"] = nself
        info["obligations"] += 1
        if problems:
            info["broken"] = "translator self-test: " + "; ".join(problems[:5])
            return info
        info["discharged"] += 1
        # the tree itself
        gen_dir = os.path.join(COQ, "Gen")
        os.makedirs(gen_dir, exist_ok=True)
        gen = os.path.join(gen_dir, "LockSkelGen.v")
        table = os.path.join(work, "table.json")
        explain = os.path.join(work, "explain.json")
        for f in os.listdir(gen_dir):
            if f.startswith("LockSkelGen.") or f.startswith(".LockSkelGen."):
                os.remove(os.path.join(gen_dir, f))
        rc, out = _run([binpath, "-guards", os.path.join(TR, "guards.txt"), "-out", gen, "-table", table, "-explain", explain],
                       cwd=REPO, env=env)
        info["obligations"] += 5   # translation, locks_checked, lock_discipline, close_shape, orders_checked(+teardown)
        if rc != 0:
            info["broken"] = "translator/lockskel cannot translate the tree: " + out[-800:]
            return info
        info["discharged"] += 1
        tab = json.load(open(table))
        info["functions_total"] = tab["functions_total"]
        info["functions_lock_relevant"] = tab["functions_lock_relevant"]
        info["locks"] = tab["locks"]
        info["guarded_fields"] = tab["fields"]
        info["orders"] = tab.get("orders")
        info["inferred_needs"] = tab.get("inferred_needs")
        rc, out = _run(["coqc"] + _coq_args([gen_dir]) + [gen], cwd=gen_dir)
        if rc != 0:
            info["broken"] = "Gen/LockSkelGen.v does not compile: " + out[-500:]
            return info
        cg = os.path.join(work, "C18Gen.v")
        shutil.copy(os.path.join(COQ, "Properties", "C18Gen.v"), cg)
        rc, out = _run(["coqc"] + _coq_args([gen_dir]) + [cg], cwd=work, timeout=1800)
        flat = " ".join(out.split())
        closed = len(re.findall(r"Closed under the global context", out))
        info["print_assumptions_closed"] = closed
        info["axioms"] = sorted(set(re.findall(r"Axioms:\s*(.+?)(?=Closed|Axioms:|$)", flat)))
        m = re.search(r"V = \((true|false), (true|false), (true|false), (\[.*?\])\) :", flat)
        if not m:
            info["broken"] = "Properties/C18Gen.v: cannot evaluate the checker: " + out[-600:]
            return info
        locks_ok, orders_ok, shape_ok = (m.group(i) == "true" for i in (1, 2, 3))
        info["discharged"] += (2 if locks_ok else 0) + (1 if shape_ok else 0) + (1 if orders_ok else 0)
        names = {f["idx"]: f for f in tab["functions"]}
        if not locks_ok:
            fails = json.load(open(explain)) if os.path.exists(explain) else []
            badf = [names.get(i, {"name": f"#{i}"})["name"] for i, _ in _parse_pairs(m.group(4))]
            if fails:
                for f in fails:
                    info["violations"].append({"tag": "lock:" + f["function"], "what": f["what"], "pos": f["pos"], "path": f["path"],
                                               "theorem": "C18_locks_checked"})
            else:
                info["broken"] = "C18_locks_checked fails for " + ", ".join(badf[:6]) + " and the re-check found no path"
        if not orders_ok:
            w = re.search(r"W = (Some \(.*?\)|None) :", flat)
            info["violations"].append({"tag": "teardown-order", "what": "the step order extracted from AddPermission/AddChannelBind lets "
                                       "an entry be published before its timer is armed: " + json.dumps(tab.get("orders")),
                                       "model_witness_schedule": w.group(1) if w else None, "theorem": "C18_orders_checked"})
        if not shape_ok:
            info["broken"] = "C18_close_shape: Allocation.Close no longer has the shape the Teardown model assumes: %s" % (tab.get("orders") or {}).get("close_ord")
        if rc != 0 and not info["violations"] and not info["broken"]:
            info["broken"] = "Properties/C18Gen.v does not check: " + out[-600:]
        return info
    finally:
        shutil.rmtree(work, ignore_errors=True)
