import sys, json
sys.path.insert(0,'/verif/lib')
import vcheck
from props import PROPS
pid=sys.argv[1]; tier=sys.argv[2] if len(sys.argv)>2 else 'quick'
seed=int(sys.argv[3]) if len(sys.argv)>3 else 1
r=vcheck.one_round(pid,PROPS[pid],seed,tier)
print("harness ok",r['harness_ok'], [(p,t,rc,round(dt,1)) for p,t,rc,o,dt in r['harness_out']])
for p,t,rc,o,dt in r['harness_out']:
    if rc!=0: print(o[-4000:])
for e in r['coq_errs'][:2]: print(e)
print("cases",len(r['cases']),"bad",len(r['bad']))
seen={}
for idx,a,h in r['bad']:
    c=r['cases'][idx]
    k=(c['kind'],c['tag'],a,h)
    seen.setdefault(k,[]).append(c['term'])
for k,v in seen.items():
    print(k,len(v)); 
    for t in v[:int(sys.argv[4]) if len(sys.argv)>4 else 2]: print("   ",t[:400])
