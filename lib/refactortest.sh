#!/bin/sh
# applies each behaviour-preserving refactoring of /verif/refactor/* to /repo, runs the pinned suite and every quick check, reverts
cd /verif
for d in refactor/R*; do
  n=$(basename $d)
  echo "== $n"
  git -C /repo apply /verif/$d/patch.diff || { echo "patch does not apply"; continue; }
  python3 lib/baseline.py /repo 2>&1 | head -1
  for p in C01 C02 C03 C04 C05 C06 C07 C08 C09 C10 C11 C12 C13 C14 C15 C16 C17 C18 C19 C20; do
    bin/check $p quick 2>&1 | grep -E "^VIOLATION|^KNOWN|^$p quick" | cut -c1-230 | sed "s/^/$n /"
  done
  git -C /repo checkout -- .
  git -C /repo status --short
done
