#!/usr/bin/env python3
"""Run pion/turn's own suite (guard off, default go) and compare with /root/.vp/BASELINE.json stable_pass."""
import json, subprocess, sys, os
repo = sys.argv[1] if len(sys.argv) > 1 else "/repo"
base = json.load(open("/root/.vp/BASELINE.json"))
want = set(base["stable_pass"])
env = dict(os.environ, GOFLAGS="-mod=mod", GOPROXY="off")
p = subprocess.run(["go", "test", "-json", "-vet=off", "-count=1", "-timeout", "25m", "./..."], cwd=repo, env=env,
                   stdout=subprocess.PIPE, stderr=subprocess.STDOUT, text=True)
passed, failed = set(), set()
for line in p.stdout.splitlines():
    try:
        e = json.loads(line)
    except Exception:
        continue
    if e.get("Test") and e.get("Action") in ("pass", "fail"):
        k = e["Package"] + "::" + e["Test"]
        (passed if e["Action"] == "pass" else failed).add(k)
missing = sorted(want - passed)
print(f"baseline: {len(want & passed)}/{len(want)} stable tests pass; failed={sorted(failed)}")
if missing:
    print("MISSING:", missing)
    sys.exit(1)
