#!/usr/bin/env python3
"""Driver for the pion/turn Coq-proof checks.  bin/check Cxx quick|thorough [--replay file]

Per run: (1) build the Coq development and re-check Properties/Cxx.v (theorems +
Print Assumptions); (2) build the Go harness against /repo's working tree through
`go test -overlay` (nothing is written under /repo) and run it; (3) evaluate the Coq
model on the cases the harness wrote (coqc + vm_compute); (4) decide PASS /
KNOWN-FINDING / VIOLATION; (5) write evidence/Cxx.json.
"""
import glob
import hashlib
import json
import os
import re
import shutil
import subprocess
import sys
import tempfile
import time
from concurrent.futures import ThreadPoolExecutor

VERIF = os.path.dirname(os.path.dirname(os.path.abspath(__file__)))
REPO = os.environ.get("VERIF_REPO", "/repo")
COQ = os.path.join(VERIF, "coq")
GO = os.environ.get("VERIF_GO", "go1.26.8")

sys.path.insert(0, os.path.join(VERIF, "lib"))
from props import PROPS  # noqa: E402

HARNESS_DIRS = {
    "verifsim": "internal/verifsim",
    "proto": "internal/proto",
    "server": "internal/server",
    "allocation": "internal/allocation",
    "client": "internal/client",
    "root": ".",
}


def log(*a):
    print(*a, flush=True)


def run(cmd, cwd=None, env=None, timeout=None, capture=True):
    t0 = time.time()
    try:
        p = subprocess.run(cmd, cwd=cwd, env=env, timeout=timeout, stdout=subprocess.PIPE if capture else None,
                           stderr=subprocess.STDOUT if capture else None, text=True)
        return p.returncode, p.stdout or "", time.time() - t0
    except subprocess.TimeoutExpired as e:
        out = e.stdout if isinstance(e.stdout, str) else (e.stdout or b"").decode(errors="replace")
        return 124, out + "\n[timeout]", time.time() - t0


def coq_args():
    args = []
    for d in ("Lib", "Model", "Proofs", "Properties", "Check", "Gen"):
        if os.path.isdir(os.path.join(COQ, d)):
            args += ["-Q", os.path.join(COQ, d), "Turn"]
    return args


def build_coq():
    """Full .vo build (never -vos)."""
    mk = os.path.join(COQ, "Makefile")
    cp = os.path.join(COQ, "_CoqProject")
    if not os.path.exists(mk) or os.path.getmtime(mk) < os.path.getmtime(cp):
        rc, out, _ = run(["coq_makefile", "-f", "_CoqProject", "-o", "Makefile"], cwd=COQ, timeout=120)
        if rc != 0:
            return False, out
    rc, out, dt = run(["make", "-j16"], cwd=COQ, timeout=3000)
    return rc == 0, out


def check_properties_file(pid):
    """Re-compile Properties/<pid>.v unconditionally; return (ok, theorems, assumptions, output)."""
    vf = os.path.join(COQ, "Properties", pid + ".v")
    src = open(vf).read()
    theorems = re.findall(r"^(?:Theorem|Corollary)\s+([A-Za-z0-9_']+)", src, re.M)
    work = tempfile.mkdtemp(prefix="verif-prop-", dir="/var/tmp")
    try:
        tmpv = os.path.join(work, pid + "_recheck.v")
        shutil.copy(vf, tmpv)
        rc, out, dt = run(["coqc"] + coq_args() + [tmpv], cwd=work, timeout=1200)
    finally:
        shutil.rmtree(work, ignore_errors=True)
    closed = len(re.findall(r"Closed under the global context", out))
    axioms = []
    for m in re.finditer(r"Axioms:\s*\n((?:.+\n)+?)(?=\n|\Z|Closed|Axioms:)", out):
        axioms.append(" ".join(m.group(1).split()))
    return rc == 0, theorems, {"closed": closed, "axioms": sorted(set(axioms))}, out


def make_overlay(work):
    repl = {}
    hdir = os.path.join(VERIF, "harness")
    for sub, pkg in HARNESS_DIRS.items():
        d = os.path.join(hdir, sub)
        if not os.path.isdir(d):
            continue
        for f in sorted(os.listdir(d)):
            if not f.endswith(".go"):
                continue
            dst = os.path.normpath(os.path.join(REPO, pkg, "zz_verif_" + f))
            repl[dst] = os.path.join(d, f)
    ov = os.path.join(work, "overlay.json")
    with open(ov, "w") as fh:
        json.dump({"Replace": repl}, fh, indent=1)
    return ov


def go_env(work, seed, tier, extra=None):
    env = dict(os.environ)
    env.update({"GOTOOLCHAIN": "local", "GOPROXY": "off", "GOSUMDB": "off", "GOFLAGS": "-mod=readonly",
                "VERIF_OUT": work, "VERIF_SEED": str(seed), "VERIF_TIER": tier})
    if extra:
        env.update(extra)
    return env


def run_harness(pid, cfg, work, seed, tier, extra_env=None):
    ov = make_overlay(work)
    outs = []
    ok = True
    pkgs = list(cfg["pkgs"]) + list(cfg.get("extra_pkgs", {}).get(tier, []))
    for ent in pkgs:
        pkg, test = ent[0], ent[1]
        flags = list(cfg.get("go_flags", {}).get(tier, []))
        for f in (ent[2] if len(ent) > 2 else []):   # per-test flags, e.g. the race detector for one campaign in every tier
            if f not in flags:
                flags.append(f)
        to = cfg.get("go_timeout", {}).get(tier, 600 if tier == "quick" else 3000)
        cmd = [GO, "test"] + flags + ["-tags", "verif", "-overlay", ov, "-count=1", "-vet=off",
               "-timeout", f"{to}s", "-run", f"^{test}$", pkg]
        rc, out, dt = run(cmd, cwd=REPO, env=go_env(work, seed, tier, extra_env), timeout=to + 60)
        outs.append((pkg, test, rc, out, dt))
        if rc != 0:
            ok = False
    return ok, outs


R_ENTRY = re.compile(r"\(\s*(\d+),\s*(true|false),\s*(true|false)\s*\)")


def eval_shard(path, work):
    rc, out, dt = run(["coqc"] + coq_args() + [path], cwd=work, timeout=3000)
    if rc != 0:
        return None, out
    flat = " ".join(out.split())
    m = re.search(r"R = (.*?) : list", flat)
    if not m:
        return None, out
    body = m.group(1)
    bad = [(int(a), b == "true", c == "true") for a, b, c in R_ENTRY.findall(body)]
    return bad, out


def eval_cases(pid, work):
    """Evaluate every collector of this property (cases_<pid>[suffix].jsonl + shards)."""
    cases, bad, errs, stats = [], [], [], {}
    subs = sorted(os.path.basename(f)[len("cases_"):-len(".jsonl")] for f in glob.glob(os.path.join(work, f"cases_{pid}*.jsonl")))
    jobs = []
    for sub in subs:
        with open(os.path.join(work, f"cases_{sub}.jsonl")) as fh:
            sub_cases = [json.loads(l) for l in fh if l.strip()]
        off = len(cases)
        cases += sub_cases
        for sh in sorted(glob.glob(os.path.join(work, f"cases_{sub}_[0-9]*.v"))):
            jobs.append((sh, off))
        sf = os.path.join(work, f"stats_{sub}.json")
        if os.path.exists(sf):
            st = json.load(open(sf))
            for k in ("kinds", "tags"):
                d = stats.setdefault(k, {})
                for kk, vv in st.get(k, {}).items():
                    d[kk] = d.get(kk, 0) + vv
            stats.setdefault("extra", {}).update(st.get("extra", {}))
    with ThreadPoolExecutor(max_workers=8) as ex:
        for (sh, off), (res, out) in zip(jobs, ex.map(lambda j: eval_shard(j[0], work), jobs)):
            if res is None:
                errs.append((sh, out[-3000:]))
            else:
                bad += [(i + off, a, h) for i, a, h in res]
    return cases, sorted(bad), errs, stats


def load_known(pid):
    known, fixed = {}, []
    p = os.path.join(VERIF, "known_findings.txt")
    if os.path.exists(p):
        for line in open(p):
            line = line.strip()
            if line.startswith("finding:"):
                kv = dict(re.findall(r"(\w+)=(\S+)", line))
                if kv.get("property") == pid and "tag" in kv:
                    known[kv["tag"]] = line.split(None, 3)[-1] if len(line.split(None, 3)) > 3 else line
            elif line.startswith("fixed:"):
                fixed.append(line)
    return known, fixed


def write_replay(pid, tier, seed, kind, payload):
    d = os.path.join(VERIF, "replays")
    os.makedirs(d, exist_ok=True)
    h = hashlib.sha1(json.dumps(payload, sort_keys=True, default=str).encode()).hexdigest()[:10]
    path = os.path.join(d, f"{pid}-{kind}-{h}.json")
    with open(path, "w") as fh:
        json.dump({"property": pid, "tier": tier, "seed": seed, "kind": kind, **payload}, fh, indent=1, default=str)
    return path


def one_round(pid, cfg, seed, tier, extra_env=None):
    """Run harness + model evaluation once. Returns dict."""
    work = tempfile.mkdtemp(prefix=f"verif-{pid}-", dir="/var/tmp")
    try:
        hok, houts = run_harness(pid, cfg, work, seed, tier, extra_env)
        cases, bad, errs, stats = eval_cases(pid, work)
        extra_files = {}
        for f in glob.glob(os.path.join(work, "extra_*.json")):
            try:
                extra_files[os.path.basename(f)] = json.load(open(f))
            except Exception:
                pass
        return {"harness_ok": hok, "harness_out": houts, "cases": cases, "bad": bad, "coq_errs": errs,
                "stats": stats, "extra_files": extra_files}
    finally:
        shutil.rmtree(work, ignore_errors=True)


def classify(pid, res, known):
    """Split bad cases into property failures (holds=false) and pure mismatches."""
    cases = res["cases"]
    viol, known_hits, mismatches = [], {}, []
    for idx, agree, holds in res["bad"]:
        c = cases[idx] if idx < len(cases) else {"term": "?", "tag": "?", "kind": "?"}
        if not holds:
            if c["tag"] in known:
                known_hits.setdefault(c["tag"], c)
            else:
                viol.append((idx, c))
        elif not agree:
            mismatches.append((idx, c))
    return viol, known_hits, mismatches


def warm():
    work = tempfile.mkdtemp(prefix="verif-warm-", dir="/var/tmp")
    try:
        ov = make_overlay(work)
        pkgs = sorted({e[0] for cfg in PROPS.values() for e in cfg["pkgs"]})
        rc, out, dt = run([GO, "test", "-tags", "verif", "-overlay", ov, "-count=1", "-vet=off", "-run", "^$"] + pkgs,
                          cwd=REPO, env=go_env(work, 1, "quick"), timeout=1200)
        log(out[-2000:])
        return rc
    finally:
        shutil.rmtree(work, ignore_errors=True)


def main(argv):
    if len(argv) > 1 and argv[1] == "warm":
        return warm()
    if argv and len(argv) > 1 and argv[1] == "check":
        argv = argv[1:]
    if len(argv) < 2:
        log("usage: check Cxx quick|thorough [--replay file]")
        return 2
    pid = argv[1]
    tier = argv[2] if len(argv) > 2 and not argv[2].startswith("--") else os.environ.get("VERIF_TIER", "quick")
    replay = None
    if "--replay" in argv:
        replay = json.load(open(argv[argv.index("--replay") + 1]))
        tier = replay.get("tier", tier)
    seed = int(replay["seed"]) if replay else int(os.environ.get("VERIF_SEED", "1") or 1)
    if pid not in PROPS:
        log(f"unknown property {pid}")
        return 2
    cfg = PROPS[pid]
    t0 = time.time()
    known, fixed = load_known(pid)
    exit_code = 0
    violations = 0
    lines = []

    # 1. proofs
    bok, bout = build_coq()
    broken_theorem = None
    pok, theorems, assum, pout = (False, [], {"closed": 0, "axioms": []}, "")
    if "pre" in cfg and isinstance(cfg["pre"], str):
        import importlib
        mod, fn = cfg["pre"].split(":")
        cfg = dict(cfg)
        cfg["pre"] = getattr(importlib.import_module(mod), fn)
    if not bok:
        m = re.search(r'File "([^"]+)", line (\d+)', bout)
        broken_theorem = f"coq build failed at {m.group(1)}:{m.group(2)}" if m else "coq build failed"
        log(bout[-2000:])
    else:
        pok, theorems, assum, pout = check_properties_file(pid)
        if not pok:
            broken_theorem = "Properties/%s.v does not check" % pid
            log(pout[-2000:])

    # the numeric parameters of the source, translated on every run, against the model's (Properties/<pid>Consts.v)
    cinfo = {"obligations": 0, "discharged": 0, "theorems": [], "broken": None}
    if bok:
        import consts
        cinfo = consts.check(pid)
        if cinfo.get("broken") and not broken_theorem:
            broken_theorem = cinfo["broken"]
            log(cinfo["broken"])

    # hook for properties with extra generated obligations (C18 translator)
    gen_info = None
    if bok and "pre" in cfg:
        gen_info = cfg["pre"](pid, tier, seed)
        if gen_info and gen_info.get("broken"):
            broken_theorem = gen_info["broken"]

    # 2-4. correspondence
    pre_env = (gen_info or {}).get("env") or None
    res = one_round(pid, cfg, seed, tier, pre_env) if bok else {"harness_ok": False, "harness_out": [], "cases": [], "bad": [],
                                                       "coq_errs": [], "stats": {}, "extra_files": {}}
    harness_fail = None
    if bok and not res["harness_ok"]:
        for pkg, test, rc, out, dt in res["harness_out"]:
            if rc != 0:
                harness_fail = (pkg, test, rc, out[-6000:])
                break
    viol, known_hits, mismatches = classify(pid, res, known)
    # violations found by generated obligations (C18: a control-flow path / a schedule of the model)
    gen_viol = []
    if gen_info:
        for v in gen_info.get("violations", []):
            if v["tag"] in known:
                known_hits.setdefault(v["tag"], v)
            else:
                gen_viol.append(v)

    for tag, c in sorted(known_hits.items()):
        log(f"KNOWN-FINDING: property={pid} {known[tag]}")
    if viol or gen_viol:
        payload = {}
        if viol:
            idx, c = viol[0]
            payload.update({"what": "the property predicate fails on the implementation's observed behaviour for this case",
                            "case_index": idx, "case": c, "other_failing": [x[1]["tag"] for x in viol[1:20]]})
        if gen_viol:
            payload.update({"generated_obligation_failures": gen_viol[:10]})
            payload.setdefault("what", gen_viol[0]["what"])
        if harness_fail:
            payload["harness_output_tail"] = harness_fail[3][-3000:]
        path = write_replay(pid, tier, seed, "property-fails", payload)
        log(f"VIOLATION property={pid} replay={path}")
        violations = len(viol) + len(gen_viol)
        exit_code = 1
    elif harness_fail:
        # the harness itself failed (panic, hang, build failure of the mutated tree ...)
        pkg, test, rc, out = harness_fail
        m = re.search(r"VERIF-VIOLATION (\S+)(.*)", out)
        scheds = re.findall(r"VERIF-SCHEDULE (\S+) (.*)", out)
        crashed = re.search(r"^(panic: .*|fatal error: .*)$", out, re.M)
        if not m and scheds and crashed:
            m = crashed   # the process died while running the last announced schedule: that schedule is the replay
        race = re.search(r"WARNING: DATA RACE[\s\S]*?={10,}", out)
        if not m and race:
            m = race      # the race detector's report (both accesses with their stacks) is the failing execution
        path = write_replay(pid, tier, seed, "harness-failure", {
            "what": "the correspondence harness failed against the implementation", "pkg": pkg, "test": test,
            "exit": rc, "failing_schedule": scheds[-1][1] if scheds else None,
            "crash": crashed.group(1) if crashed else None, "data_race": race.group(0)[:4000] if race else None, "output_tail": out})
        suffix = "" if m else " no-failing-input-found"
        log(f"VIOLATION property={pid} replay={path}{suffix}")
        violations = 1
        exit_code = 1
    elif broken_theorem or mismatches or res["coq_errs"]:
        # property no longer shown: search for a failing input with other seeds
        found = None
        if bok:
            for s2 in (seed + 1000, seed + 2000, seed + 3000):
                r2 = one_round(pid, cfg, s2, tier, pre_env)
                v2, k2, m2 = classify(pid, r2, known)
                if v2:
                    found = (s2, v2[0])
                    break
        if found:
            s2, (idx, c) = found
            path = write_replay(pid, tier, s2, "property-fails", {"case_index": idx, "case": c,
                                "what": "found while searching after a broken proof/correspondence"})
            log(f"VIOLATION property={pid} replay={path}")
        else:
            payload = {"broken_theorem": broken_theorem,
                       "correspondence": f"corr_{pid}" if mismatches else None,
                       "first_mismatch": mismatches[0][1] if mismatches else None,
                       "n_mismatches": len(mismatches),
                       "coq_errors": res["coq_errs"][:2]}
            path = write_replay(pid, tier, seed, "not-shown", payload)
            log(f"VIOLATION property={pid} replay={path} no-failing-input-found")
        violations = max(1, len(mismatches))
        exit_code = 1

    # 5. evidence
    cases = res["cases"]
    distinct = {}
    for c in cases:
        h = hashlib.sha1(c["term"].encode()).hexdigest()
        distinct[h] = distinct.get(h, False) or bool(c.get("nontrivial"))
    dn = sum(1 for v in distinct.values() if v)
    samples = []
    seen_kinds = set()
    for c in cases:
        if c["kind"] not in seen_kinds and len(samples) < 12:
            seen_kinds.add(c["kind"])
            samples.append({"kind": c["kind"], "term": c["term"][:600]})
    tb = [
        "Coq 8.16.1 kernel (coqc; vm_compute used for evaluating the model on cases, native_compute not used)",
        "Print Assumptions under every theorem of Properties/%s.v: %d closed under the global context, axioms: %s"
        % (pid, assum["closed"], assum["axioms"] or "none"),
        "Go correspondence harness /verif/harness (generators, observers, canonicalisation) built against /repo with "
        "go1.26.8 test -overlay; testing/synctest fake clock where time is involved",
    ] + cfg.get("trusted_base", [])
    if cinfo["obligations"]:
        tb.append("translator/lockskel -consts: the package-level integer constants of /repo are read off the type-checked source on "
                  "every run (Gen/ConstsGen.v) and Properties/%sConsts.v proves, one theorem per parameter, that the model uses them "
                  "(%d theorems); constants written as literals inside functions are not covered" % (pid, cinfo["obligations"]))
    ev = {
        "property_id": pid, "tier": tier, "seed": seed, "level": "proof",
        "coverage": {
            "obligations": len(theorems) + cinfo["obligations"] + (gen_info.get("obligations", 0) if gen_info else 0),
            "discharged": (len(theorems) if pok else 0) + cinfo["discharged"] + (gen_info.get("discharged", 0) if gen_info else 0),
            "checker_cmd": "make -C coq (full .vo) && coqc Properties/%s.v ; go1.26.8 test -tags verif -overlay ... -run %s ; coqc cases_%s_*.v"
                           % (pid, ",".join(e[1] for e in cfg["pkgs"]), pid),
            "trusted_base": tb,
            "theorems": theorems + cinfo["theorems"],
            "evaluations": len(cases),
            "distinct_nontrivial": dn,
            "rule": cfg.get("rule", "cases generated by the Go harness from VERIF_SEED; distinct by SHA-1 of the case term; "
                                    "non-trivial when the implementation took a non-error branch of the mechanism under test"),
            "samples": samples or [{"note": "no cases"}],
            "traces_validated_against_impl": len(cases),
            "model_vs_impl_mismatches": len(mismatches),
            "property_failures_on_impl": len(viol),
            "known_findings_hit": sorted(known_hits.keys()),
            "input_distribution": res["stats"].get("kinds", {}),
            "tags": res["stats"].get("tags", {}),
            "extra": res["stats"].get("extra", {}),
            "generated": gen_info or {},
            "harness_runs": [{"pkg": p, "test": t, "exit": rc, "wall_s": round(dt, 2)} for p, t, rc, o, dt in res["harness_out"]],
        },
        "assumptions": cfg.get("assumptions", []),
        "wall_s": round(time.time() - t0, 2),
        "violations": violations,
    }
    os.makedirs(os.path.join(VERIF, "evidence"), exist_ok=True)
    with open(os.path.join(VERIF, "evidence", pid + ".json"), "w") as fh:
        json.dump(ev, fh, indent=1)
    log(f"{pid} {tier}: theorems={len(theorems)} checked={pok} cases={len(cases)} nontrivial_distinct={dn} "
        f"mismatch={len(mismatches)} prop_fail={len(viol)} known={len(known_hits)} wall={ev['wall_s']}s exit={exit_code}")
    return exit_code


if __name__ == "__main__":
    sys.exit(main(sys.argv))
