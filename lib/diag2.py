"""lib/diag2.py Cxx seed [n] -- generic: print `diagnose` of the first n bad cases (check module must define diagnose)."""
import sys, os, shutil, tempfile
sys.path.insert(0,'/verif/lib')
import vcheck
from props import PROPS
pid=sys.argv[1]; seed=int(sys.argv[2]) if len(sys.argv)>2 else 1; n=int(sys.argv[3]) if len(sys.argv)>3 else 3
work=tempfile.mkdtemp(prefix='verif-diag-',dir='/var/tmp')
try:
    ok,outs=vcheck.run_harness(pid,PROPS[pid],work,seed,os.environ.get('VERIF_TIER','quick'))
    cases,bad,errs,stats=vcheck.eval_cases(pid,work)
    print('cases',len(cases),'bad',len(bad),'errs',[e[1][-400:] for e in errs][:2])
    for idx,a,h in bad[:n]:
        v=os.path.join(work,'diag.v')
        open(v,'w').write("From Turn Require Import %sCheck.\nOpen Scope N_scope.\nDefinition c : case := %s.\nEval vm_compute in diagnose c.\n"%(pid,cases[idx]['term']))
        rc,out,dt=vcheck.run(['coqc']+vcheck.coq_args()+[v],cwd=work)
        print('=== case',idx,'agree',a,'holds',h); print(out[-2500:])
finally:
    shutil.rmtree(work,ignore_errors=True)
