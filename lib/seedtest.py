#!/usr/bin/env python3
"""lib/seedtest.py <seed-src-dir> <name> <prop> [<prop> ...]
Confirms a seeded change (demo passes clean / fails seeded, suite passes seeded) in a scratch worktree,
stores it under /verif/seeded/<name>/, then runs the given checks against /repo with the patch applied
(and reverts it straight afterwards)."""
import json, os, shutil, subprocess, sys, tempfile
src, name, props = sys.argv[1], sys.argv[2], sys.argv[3:]
VERIF = "/verif"
dst = os.path.join(VERIF, "seeded", name)
os.makedirs(dst, exist_ok=True)
for f in ("patch.diff", "demo_test.go", "meta.json"):
    if os.path.exists(os.path.join(src, f)) and os.path.abspath(src) != os.path.abspath(dst):
        shutil.copy(os.path.join(src, f), os.path.join(dst, f))
meta = json.load(open(os.path.join(dst, "meta.json")))
def sh(cmd, cwd=None, timeout=1800):
    p = subprocess.run(cmd, shell=True, cwd=cwd, stdout=subprocess.PIPE, stderr=subprocess.STDOUT, text=True, timeout=timeout)
    return p.returncode, p.stdout
res = {}
if "--skip-confirm" not in props:
    wt = tempfile.mkdtemp(prefix="seedwt-", dir="/var/tmp")
    os.rmdir(wt)
    sh(f"git -C /repo worktree add -q {wt} HEAD")
    try:
        demo_dir = meta.get("demo_dir", ".")
        demo_dst = os.path.join(wt, demo_dir, "zz_demo_seed_test.go")
        shutil.copy(os.path.join(dst, "demo_test.go"), demo_dst)
        run = f"GOFLAGS=-mod=mod GOPROXY=off go test -vet=off -count=1 -run 'ZZDemo|zzDemo|Demo' ./{demo_dir}"
        rc0, out0 = sh(run, cwd=wt)
        rc, outp = sh(f"git apply {os.path.join(dst, 'patch.diff')}", cwd=wt)
        res["patch_applies"] = rc == 0
        rc1, out1 = sh(run, cwd=wt)
        os.remove(demo_dst)
        rcb, outb = sh(f"python3 {VERIF}/lib/baseline.py {wt}")
        res.update({"demo_passes_clean": rc0 == 0, "demo_fails_seeded": rc1 != 0, "suite_passes_seeded": rcb == 0,
                    "suite_line": outb.strip().splitlines()[0] if outb.strip() else ""})
        if rc0 != 0:
            res["demo_clean_output"] = out0[-1500:]
    finally:
        sh(f"git -C /repo worktree remove --force {wt}")
else:
    props = [p for p in props if p != "--skip-confirm"]
    res = meta.get("confirmed", {})
print("confirm:", res)
det = {}
rc, out = sh(f"git -C /repo apply {os.path.join(dst, 'patch.diff')}")
if rc != 0:
    print("patch does not apply to /repo:", out)
else:
    try:
        for p in props:
            rc, out = sh(f"bin/check {p} quick", cwd=VERIF)
            lines = [l for l in out.splitlines() if l.startswith("VIOLATION") or l.startswith("KNOWN-FINDING") or l.startswith(p + " ")]
            det[p] = {"exit": rc, "lines": lines}
            print(p, rc, lines)
    finally:
        sh("git -C /repo checkout -- .")
        rc, out = sh("git -C /repo status --short")
        if out.strip():
            print("WARNING repo not clean:", out)
meta["confirmed"] = res
meta.setdefault("checks", {}).update(det)
json.dump(meta, open(os.path.join(dst, "meta.json"), "w"), indent=1)
