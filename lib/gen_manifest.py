#!/usr/bin/env python3
"""Regenerates MANIFEST.json from lib/manifest_data.py (kept valid at all times)."""
import json, os, sys
sys.path.insert(0, os.path.dirname(os.path.abspath(__file__)))
from manifest_data import CHECKS, NOT_APPLICABLE, NOTES
VERIF = os.path.dirname(os.path.dirname(os.path.abspath(__file__)))
m = {
    "version": 1,
    "setup_cmd": "cd /verif && sh bin/setup",
    "hooks": {
        "guard": "verif",
        "enable": "no file is added to /repo: harness files under /verif/harness (all `//go:build verif`) are injected with "
                  "`go1.26.8 test -tags verif -overlay <overlay.json>` as zz_verif_*_test.go of the target packages plus the "
                  "package internal/verifsim",
        "baseline_off_cmd": "cd /repo && GOFLAGS=-mod=mod go test -vet=off -count=1 -timeout 25m ./...",
        "source_commits": [],
        "add_only": True,
    },
    "engines": [{"name": "coq-proof", "path": "/verif/coq", "serves_properties": [c["property_id"] for c in CHECKS],
                 "kind_free_text": "Coq 8.16.1 models + theorems; Go correspondence harness via go test -overlay; vm_compute case evaluation"}],
    "checks": [],
    "notes": NOTES,
    "not_applicable": NOT_APPLICABLE,
}
for c in CHECKS:
    pid = c["property_id"]
    m["checks"].append({
        "property_id": pid,
        "quick_cmd": f"bin/check {pid} quick",
        "thorough_cmd": f"bin/check {pid} thorough",
        "evidence_file": f"/verif/evidence/{pid}.json",
        "replay_cmd_template": f"bin/check {pid} --replay {{path}}",
        "engine": "coq-proof",
        "level_claimed": {"category": "proof", "text": c["text"], "design_ref": c.get("design_ref", "DESIGN.md section 6, " + pid)},
        "level_note": c["note"],
        "technique": c["technique"],
    })
json.dump(m, open(os.path.join(VERIF, "MANIFEST.json"), "w"), indent=1)
print("MANIFEST.json written:", len(m["checks"]), "checks,", len(m["not_applicable"]), "not applicable")
