"""Numeric parameters of the code, tied to the models by translation.

On every run translator/lockskel (mode -consts) reads the package-level integer constants off the type-checked source
tree of /repo and writes them as Coq definitions (coq/Gen/ConstsGen.v, never committed); coq/Properties/<pid>Consts.v
states, one theorem per parameter, that the model of that property uses those values. A constant changed in the source
breaks its theorem: the check then reports the property as no longer shown (and the correspondence run looks for the
concrete failing input)."""
import os, re, subprocess, shutil, tempfile

VERIF = "/verif"
REPO = "/repo"
COQ = os.path.join(VERIF, "coq")
TR = os.path.join(VERIF, "translator", "lockskel")
GO = "go1.26.8"


def _run(cmd, cwd=None, env=None, timeout=900):
    p = subprocess.run(cmd, cwd=cwd, env=env, stdout=subprocess.PIPE, stderr=subprocess.STDOUT, text=True, timeout=timeout)
    return p.returncode, p.stdout


def _coq_args():
    args = []
    for d in ("Lib", "Model", "Proofs", "Properties", "Check", "Gen"):
        if os.path.isdir(os.path.join(COQ, d)):
            args += ["-Q", os.path.join(COQ, d), "Turn"]
    return args


def check(pid):
    """returns dict(obligations, discharged, theorems, broken) for Properties/<pid>Consts.v (zeros if the property has none)"""
    info = {"obligations": 0, "discharged": 0, "theorems": [], "broken": None}
    vf = os.path.join(COQ, "Properties", pid + "Consts.v")
    if not os.path.exists(vf):
        return info
    src = open(vf).read()
    names = re.findall(r"^Theorem\s+([A-Za-z0-9_']+)", src, re.M)
    info["obligations"] = len(names)
    info["theorems"] = names
    work = tempfile.mkdtemp(prefix="verif-consts-", dir="/var/tmp")
    try:
        env = dict(os.environ)
        env.update({"GOTOOLCHAIN": "local", "GOPROXY": "off", "GOSUMDB": "off", "GOFLAGS": "-mod=mod"})
        binp = os.path.join(work, "lockskel")
        rc, out = _run([GO, "build", "-o", binp, "."], cwd=TR, env=env)
        if rc != 0:
            info["broken"] = "translator/lockskel does not build: " + out[-300:]
            return info
        gdir = os.path.join(COQ, "Gen")
        os.makedirs(gdir, exist_ok=True)
        gen = os.path.join(work, "ConstsGen.v")
        rc, out = _run([binp, "-consts", gen], cwd=REPO, env=env)
        if rc != 0:
            info["broken"] = "translator/lockskel -consts cannot read the constants of the tree: " + out[-300:]
            return info
        # compile in the scratch directory under the logical name Turn.ConstsGen
        rc, out = _run(["coqc", "-Q", work, "Turn", gen], cwd=work)
        if rc != 0:
            info["broken"] = "generated ConstsGen.v does not compile: " + out[-300:]
            return info
        tmpv = os.path.join(work, pid + "Consts.v")
        shutil.copy(vf, tmpv)
        args = [a for a in _coq_args()]
        rc, out = _run(["coqc"] + args + ["-Q", work, "Turn", tmpv], cwd=work)
        if rc == 0:
            info["discharged"] = len(names)
            return info
        m = re.search(r'line (\d+)', out)
        bad = None
        if m:
            ln = int(m.group(1))
            upto = "\n".join(src.splitlines()[:ln])
            found = re.findall(r"^Theorem\s+([A-Za-z0-9_']+)", upto, re.M)
            bad = found[-1] if found else None
        info["discharged"] = names.index(bad) if bad in names else 0
        info["broken"] = "Properties/%sConsts.v: %s no longer checks - a numeric parameter of the source differs from the model's (%s)" % (
            pid, bad or "a theorem", " ".join(out.split())[-220:])
        return info
    finally:
        shutil.rmtree(work, ignore_errors=True)


if __name__ == "__main__":
    import sys, json
    print(json.dumps(check(sys.argv[1]), indent=1))
