NOTES = ("Machine-checked proof in Coq 8.16.1 of executable models of pion/turn, tied to /repo on every run by a "
         "correspondence harness (hand-written model + differential run of model and implementation on the same cases).")

_PENDING = ["C01", "C02", "C03", "C04", "C05", "C06", "C07", "C08", "C09", "C10", "C12", "C13", "C14", "C15", "C16",
            "C17", "C18", "C19", "C20"]

RELAY_NOTE = "Trusted: Coq kernel; the Go harness (event abstraction: the harness records the credential descriptor, attribute presence/size and relay port it used), pion/stun encoding and MESSAGE-INTEGRITY, Go timers under testing/synctest. One listener/one allocation manager is modelled; TCP relay connections are C16's model."

CHECKS = [
    {"property_id": "C18",
     "text": "Translator + verified checker: on every run translator/lockskel turns every function and function literal of the module "
             "(317, 126 of them lock-relevant) into a lock skeleton (Model/LockSkel.v: Lock/Unlock/RLock/RUnlock incl. deferred, reads and "
             "writes of the declared guarded fields, 'caller holds the lock' points, calls, if/for/switch/select/break/continue/return) and "
             "Coq evaluates the checker whose soundness is proved once: on EVERY control-flow path of every function (any number of loop "
             "iterations, early returns, through calls) no lock is released unheld, every guarded field is touched only under its mutex "
             "(writes under the write lock), every function returns holding exactly what it held on entry, and all acquisitions respect one "
             "strict ranking of the locks, which excludes wait-for cycles. Which unexported helpers must be entered with a lock held is inferred by the translator and imposed as an obligation on every call site (only the exported Allocation.Close is declared in guards.txt). Teardown: Model/Teardown.v interleaves any number of AddPermission / "
             "AddChannelBind / Close calls and timer expiries at atomic-step granularity; for every step order accepted by orders_ok and EVERY "
             "schedule nothing stops or resets a nil timer and every published entry has its timer, no reachable state is a lock-up (some unfinished call is always unblocked) and every step of a runnable call decreases a measure, so all calls return (C18_no_lockup, C18_every_step_makes_progress, C18_all_calls_return); the step orders are extracted from the "
             "source each run and the model is compared with the real Manager/Allocation on forced schedules (threads parked inside the "
             "lifecycle callbacks, closers blocked on the lock, timers fired by the virtual clock). A concurrent stress campaign (UDP clients, "
             "control connections on a stream listener that come and go, slow callbacks, Server.Close in the middle) runs under the Go race "
             "detector in both tiers.",
     "note": "Partial by nature: data-race freedom is proved as the lockset condition for the fields declared in translator/lockskel/guards.txt "
             "only; locks are identified per type, not per object; channel/WaitGroup/atomic synchronisation, callbacks through function values "
             "and the Go memory model are outside the theorems (the forced-schedule and race-detector runs look there). Trusted: Coq kernel, "
             "the translator (fails closed; self-test corpus run through the checker each run), guards.txt, the Go harness.",
     "technique": "Coq proof (soundness of a lock-skeleton checker by induction over commands and call depth; inductive invariant over all "
                  "interleavings of the teardown step machine) + translator from Go source regenerated each run + forced-schedule "
                  "correspondence against internal/allocation under testing/synctest"},
    {"property_id": "C14",
     "text": "Coq theorem over an abstract timed system (Model/KeepAlive.v): for every number of refresh cycles, every handler duration up to "
             "three transactions that do not lose all their transmissions, and every instant at which the server processes the refresh, the "
             "server-side timeout is always re-armed before it expires, provided interval + 2 x 23.4 s < timeout; the defaults satisfy it for "
             "allocation, permissions and channel bindings; stale-nonce recovery and Close => Refresh 0 => allocation removed. A real client runs "
             "against a real server for 3 (thorough: 6) virtual hours under loss schedules, busy and idle, 1-3 peers plus a peer first written to "
             "just after the first nonce went stale; the server-side timelines are checked against the cycle bound and the deadlines, probes "
             "both ways every minute, AllocationCount after Close.",
     "note": "Partial: the theorem is about the abstract cycle system; that the goroutine-based PeriodicTimer drivers obey its cycle bound is "
             "checked on the observed timelines, not proved. 'Compatible configuration' is given the precise meaning interval + 2H < timeout.",
     "technique": "Coq proof (induction on refresh cycles with a slack invariant) + timeline correspondence of a real client/server pair under testing/synctest"},
    {"property_id": "C13",
     "text": "Coq theorems on Model/ClientConn.v: per WriteTo, data goes out only with a permission (old, or from this call's successful "
             "CreatePermission), with the exact payload, never after Close, ChannelData only on a usable binding of exactly that peer; over "
             "every history ChannelData toward p is preceded by a ChannelBind success for p; numbers in 0x4000-0x7FFF, distinct for up to "
             "16384 peers; ReadFrom FIFO with the right peer, unknown channel is an error, deadlines and Close, inbound never blocks and the "
             "queue is bounded. The model is run against the real UDPConn over a scripted TURN client: call sequences x server reactions "
             "(success, 400, 403, 438, transaction failure), inbound bursts, unknown channels, binding check timer, many peers, and the "
             "ConnectionAttempt queue of the TCP allocation. History level: the whole predicate evaluated on the observed traces (C13Check) is proved to hold on every trace of the model in which at most 16384 peers are written to (C13_holds_on_every_model_trace; Proofs/ClientConnTrace.v).",
     "note": "Trusted: Coq kernel, Go harness (scripted Client; client.go's two inbound call sites replicated; C09 covers client.go dispatch). "
             "maybeBind's background goroutine is abstracted to a later event. A third 438 in a row to one ChannelBind is not modelled.",
     "technique": "Coq proof (step characterisation + history invariants) + differential correspondence against internal/client/udp_conn.go under virtual time"},
    {"property_id": "C16",
     "text": "Coq theorems on Model/TcpRelay.v: a Connect success / ConnectionAttempt announces an id no connection has, for a really dialled / "
             "accepted peer connection (inbound only with a permission); ConnectionBind succeeds only for an existing unbound connection of the "
             "authenticated user's allocation and binds it once; unbound connections are dropped (peer side closed) exactly at the 30 s deadline; "
             "bytes cross only bound pairs unmodified; duplicate Connect is 446 with no change and the manager is never left locked over any history. "
             "The model is run against the real server on an in-memory stream listener (control and data connections, peer connections, "
             "segmented byte streams both ways, closes, ticks around 30 s) with a wedge probe after each step. "
             "History level: the whole predicate evaluated on the observed traces (C16Check: dup_from and holds_from) is proved to hold "
             "on every trace of the model whose connection ids are fresh (C16_holds_on_every_model_trace; Proofs/TcpTrace.v).",
     "note": "Trusted: Coq kernel, Go harness, simulated TCP. io.Copy taken as identity; data content checked by the correspondence runs. "
             "Allocation/permission rules are C01-C07's.",
     "technique": "Coq proof (step characterisation, invariant over histories) + differential correspondence against the real server's RFC 6062 path under virtual time"},
    {"property_id": "C09",
     "text": "Coq theorems for EVERY byte string: the byte-level STUN decoder, the server's dispatch and the client's dispatch never reach the "
             "Panic outcome (every index/slice is a checked operation in the model), the client's (handled, error) table, handlers only for "
             "the documented class/method pairs, stream read loop progress and termination. Model/StunMsg.v is compared with pion/stun's "
             "decoder and with HandleRequest / Client.HandleInbound on thousands of mutated, extreme and random inputs per run; live UDP and "
             "stream listeners are fed the same inputs (arbitrarily segmented) followed by liveness probes from the same and another party, "
             "with a real-time watchdog for spins. Well-formed requests that put the server into unusual states: the multi-allocation "
             "RFC 6062 histories (duplicate Connect, foreign / unknown binds, id collisions, dial failures, expiries) are judged by "
             "Check/C09TcpCheck.v - no request is left unanswered by a wedged manager - which is proved on every trace of Model/TcpRelay.v "
             "(C09_tcp_requests_never_wedge_on_every_model_trace).",
     "note": "Partial by nature: code not modelled line by line (attribute getters inside handlers, logging, pion/stun internals beyond "
             "Decode, the Go runtime) is covered by the correspondence/liveness runs only, not by a theorem.",
     "technique": "Coq proof (checked-slice model, Panic unreachable) + differential correspondence against pion/stun Decode, server.HandleRequest and Client.HandleInbound, plus liveness probing"},
    {"property_id": "C12",
     "text": "Coq theorems on Model/ClientTx.v: the exact retransmission schedule (7 transmissions at t0 + rto, doubled, capped at 1.6 s; error "
             "after the seventh interval) for every rto > 0, never an eighth transmission and at most one result whatever the socket does, "
             "termination within rto + 7 x 1.6 s for every write pattern, matching by id with duplicates/late/foreign responses ignored, table "
             "clean after completion, Close and failed first write. The model is run against the real Client (PerformTransaction / "
             "HandleInbound / Close) on a scripted socket under virtual time: response after each transmission on either side of each "
             "timer, write error at each transmission, Close at each point, concurrent transactions with interleaved responses. "
             "History level: the whole predicate evaluated on the observed traces (C12Check.holds) is proved to hold on every trace of the "
             "model, for every RTO, write-outcome pattern and history with fresh transaction ids (C12_holds_on_every_model_trace). The forced "
             "slow-write schedules (Close / a response / another transaction while a (re)transmission is inside the socket write, real time) "
             "are judged on 'every call returned, table empty, no panic' (TestVerif_C12Slow; no theorem).",
     "note": "Trusted: Coq kernel, Go harness, testing/synctest timers. Timer-callback vs response serialisation by Client.mutexTrMap is "
             "modelled as atomic events (lock discipline is C18). Transaction ids assumed fresh.",
     "technique": "Coq proof (induction on the retransmission counter, closed-form schedule) + differential correspondence against client.go / internal/client/transaction.go"},
    {"property_id": "C17",
     "text": "Coq theorems for all secrets, users, realms, durations (zero/negative included) and validation instants: both handlers accept a "
             "generated username iff unix(now') <= expiry second and return the long-term key of (username, realm, generated password); decimal "
             "format/atoi round trip over all int64; non-numeric/empty/expired rejected; forgery gives another key under injectivity of the "
             "symbolic crypto. Model/LtCred.v is run against lt_cred.go under a virtual clock at sub-second steps around expiry, on every "
             "single-character mutation of usernames, and end to end through a real server.",
     "note": "Trusted: Coq kernel, Go harness. HMAC-SHA1/base64/MD5 are symbolic (any interpretation); the forgery theorem assumes they are "
             "injective. unix() is modelled for instants after 1970.",
     "technique": "Coq proof (decimal round trip via Coq's DecimalN, case analysis) + differential correspondence against lt_cred.go under testing/synctest"},
    {"property_id": "C20",
     "text": "Coq theorems for all 1 <= MinPort <= MaxPort <= 65535 and all random-source outputs (uint16 count = Max-Min+1 >= 1, picked port "
             "in range), retry loop sound / fails clean / bounded by MaxRetries, advertised port is a bound port, requested port passed "
             "through, and no sharing over all allocate/close histories given an OS that refuses bound ports; Model/PortRange.v run against "
             "the three real generators with a scripted Rand and transport.Net over fill-and-drain histories, plus a real loopback probe.",
     "note": "Trusted: Coq kernel, Go harness, scripted socket layer. The no-sharing theorem assumes bind refuses a bound port; for TCP "
             "listeners SO_REUSEPORT makes that false on Linux - recorded as known finding (tag tcp-reuseport-share), shown on real sockets each run.",
     "technique": "Coq proof (uint16 arithmetic, induction over the retry loop and over histories) + differential correspondence against the real generators"},
    {"property_id": "C01",
     "text": "Coq theorems on Model/Relay.v: send/ChannelData gates (state unchanged; nothing or exactly one datagram from the sender's own relay to the named peer with the same bytes, only with a permission/binding present), no other event emits toward a peer, inductive invariant over all histories and policies that no vetoed or wrong-family peer is ever installed, and that what is installed is unexpired; chk_C01 evaluated on the traces of the real server."
             + " History level: chk_C01 (gate and 'present = unexpired by the reported lifetimes', i.e. with chk_C06 and chk_C07) is proved to hold on every trace of the model for all configurations and histories.",
     "note": RELAY_NOTE,
     "technique": "Coq proof (inductive invariants / step characterisation over all histories) + differential correspondence of Model/Relay.v against the real turn.Server under virtual time, property predicate evaluated on the observed traces"},
    {"property_id": "C02",
     "text": 'Coq theorems: a datagram at a relayed address changes no state and yields nothing, or exactly one frame to the owner only, via the binding of the exact source else the permission of its IP; only such datagrams ever deliver data; chk_C02 on real traces.'
             + ' History level: chk_C02 (gate with chk_C06 and chk_C07) is proved to hold on every trace of the model.',
     "note": RELAY_NOTE,
     "technique": "Coq proof (inductive invariants / step characterisation over all histories) + differential correspondence of Model/Relay.v against the real turn.Server under virtual time, property predicate evaluated on the observed traces"},
    {"property_id": "C03",
     "text": "Coq theorems: a non-authenticating request is a no-op answered by exactly one error (401/438 challenges), what acceptance implies (handler's key for username/realm, intact integrity, own nonce aged <= 60 minute ticks), non-owner no-op, nonce window lemmas; chk_C03 (credential descriptor vs. observed effect) on real traces with every kind of credential defect."
             + " History level: chk_C03 is proved to hold on every trace of the model (owners as told by the lifecycle callbacks = the allocations' users across every step; every error answer leaves the state untouched). RFC 6062 part: on the multi-allocation TCP-relay histories a ConnectionBind succeeds only for the owner's user, only for an announced id, once, within 30 s, and a refused ConnectionBind changes nothing (Check/C03TcpCheck.v, TestVerif_C03TCP) - proved on every trace of Model/TcpRelay.v with fresh connection ids (C03_tcp_bind_authorisation_on_every_model_trace).",
     "note": RELAY_NOTE,
     "technique": "Coq proof (inductive invariants / step characterisation over all histories) + differential correspondence of Model/Relay.v against the real turn.Server under virtual time, property predicate evaluated on the observed traces"},
    {"property_id": "C04",
     "text": "Coq theorems: at most one allocation per 5-tuple in every reachable state; a request leaves every other 5-tuple's allocation the same record and answers only its source; data/peer events change nothing and use only the sender's / owner's allocation; chk_C04 on real traces."
             + ' History level: chk_C04 is proved to hold on every trace of the model (control-connection close, Server.Close and traffic after Close included).'
             + ' RFC 6062 part: multi-allocation TCP-relay histories (Connect, inbound peer connections, ConnectionBind) are run against Model/TcpRelay.v and judged by the isolation predicate of Check/C04TcpCheck.v (Connect answers to the sender only, ConnectionAttempt to the owner of the relayed address, teardown closes own peer connections only, 446 only for this allocation\'s own connection, ConnectionBind only by the user of the allocation the connection was announced to), which is proved to hold on every trace of that model (C04_tcp_isolation_on_every_model_trace).',
     "note": RELAY_NOTE,
     "technique": "Coq proof (inductive invariants / step characterisation over all histories) + differential correspondence of Model/Relay.v against the real turn.Server under virtual time, property predicate evaluated on the observed traces"},
    {"property_id": "C05",
     "text": 'Coq theorems: exactly-once and byte-identical forwarding in both directions and both encapsulations, oversize peer datagrams yield nothing, encapsulations lossless at byte level (C11 codecs); chk_C05 on real traces incl. payloads around 4-byte and 1600-byte boundaries.'
             + " History level: chk_C05, including 'relaying authorised by what exists before the event => forwarded exactly once', is proved to hold on every trace of the model; the campaign also runs over a stream listener with requests arriving in segments.",
     "note": RELAY_NOTE,
     "technique": "Coq proof (inductive invariants / step characterisation over all histories) + differential correspondence of Model/Relay.v against the real turn.Server under virtual time, property predicate evaluated on the observed traces"},
    {"property_id": "C06",
     "text": 'Coq theorems: grant rule for all requested values, Allocate/Refresh arm exactly what they report, Refresh 0 deletes, expiry exact (tick keeps iff t < deadline), gone means gone, new allocation starts empty, unexpired invariant; chk_C06 recomputes expiry from the reported LIFETIMEs alone and compares with what exists at instants around every deadline on the real server (virtual time).'
             + " History level (refinement): chk_C06 is proved to hold on every trace of the model - the expiry table reconstructed from the success responses is after every step a permutation of the allocations' deadlines.",
     "note": RELAY_NOTE,
     "technique": "Coq proof (inductive invariants / step characterisation over all histories) + differential correspondence of Model/Relay.v against the real turn.Server under virtual time, property predicate evaluated on the observed traces"},
    {"property_id": "C07",
     "text": 'Coq theorems: successful CreatePermission/ChannelBind restart the full timeout (permission timeout also on ChannelBind), failed requests change nothing, expiry exact, rebind after expiry; chk_C07 recomputes permission/channel expiry from successes alone.'
             + " History level (refinement): chk_C07 is proved to hold on every trace of the model - the reconstructed permission and channel tables agree key by key with the model's deadlines across every step; and the checked predicate's second half, 'until then the entry always authorises relaying' (a present permission / binding forwards the datagram, exactly once), is proved on every model trace as well (C07_present_entries_authorise_relaying).",
     "note": RELAY_NOTE,
     "technique": "Coq proof (inductive invariants / step characterisation over all histories) + differential correspondence of Model/Relay.v against the real turn.Server under virtual time, property predicate evaluated on the observed traces"},
    {"property_id": "C08",
     "text": 'Coq theorems: bijection and range as an invariant of every reachable state, emitted numbers in range, conflicts rejected with no change, same binding refreshes, out-of-range rejected for all numbers; chk_C08 on real traces.'
             + ' History level: chk_C08 - including "repeating an existing binding refreshes it": a binding exists exactly until one channel timeout after the last successful ChannelBind for it (the channel half of chk_C07), and emission: a ChannelData toward the client carries a number bound, when the datagram arrived, to exactly the peer it came from (chk_C08_emit) - is proved to hold on every trace of the model with positive timeouts.',
     "note": RELAY_NOTE,
     "technique": "Coq proof (inductive invariants / step characterisation over all histories) + differential correspondence of Model/Relay.v against the real turn.Server under virtual time, property predicate evaluated on the observed traces"},
    {"property_id": "C15",
     "text": 'Coq theorems: every step changes allocations/permissions/channels by exactly the net Created-Deleted callbacks, hence over every history callbacks balance against what exists and pair up when all has ended; chk_C15 on real traces for every teardown cause: expiry, Refresh 0, relay socket error, control connection closed (stream listeners), Server.Close, and traffic sent after Close. The observed listing accounts for every open socket/listener of the simulated network (open iff the server\'s own or the relay of a live allocation); timers and goroutines are observed only through their effects and the synctest bubble draining (partial).'
             + ' History level: chk_C15 (balance after every step; a closed control connection\'s client has no allocation; after Server.Close the listing is empty and nothing happens any more) is proved to hold on every trace of the model; C15_control_connection_close, C15_server_close_leaves_nothing, C15_nothing_after_close. Teardown during a slow lifecycle callback: on Model/Teardown.v, for every interleaving, if every AddPermission/AddChannelBind call has nothing left to publish while the allocation is open, then once all calls have returned and the allocation is closed both tables are empty (C15_quiet_close_leaves_nothing), lifted to every forced macro schedule (C15_slow_callback_maps_on_every_model_trace); the hypotheses orders_ok / callbacks_last / close_shape_ok are evaluated on the step orders the translator extracts from the source on every run, and the forced schedules of the allocation package (threads parked inside the Created callbacks) are replayed on the model under those orders and judged by Check/C15TdCheck.v; the pairing of Created and Deleted callbacks in those schedules is checked on the real code only (partial).',
     "note": RELAY_NOTE,
     "technique": "Coq proof (inductive invariants / step characterisation over all histories) + differential correspondence of Model/Relay.v against the real turn.Server under virtual time, property predicate evaluated on the observed traces"},
    {"property_id": "C19",
     "text": "Coq theorems: every response goes to the request's source with its transaction id and method, Binding/Allocate report truthful addresses and the armed lifetime, retransmission returns the cached success and a different id 437 with no change, 420 path; chk_C19 on real traces."
             + " History level: chk_C19 (incl. relayed-address uniqueness and 'a retransmission gets exactly the original success') is proved to hold on every model trace in which the generator never hands out a port in use; EVEN-PORT / RESERVATION-TOKEN / reservations are modelled; an Allocate on a 5-tuple that holds an allocation is refused with 437 or with what authentication / an unknown attribute alone decide.",
     "note": RELAY_NOTE,
     "technique": "Coq proof (inductive invariants / step characterisation over all histories) + differential correspondence of Model/Relay.v against the real turn.Server under virtual time, property predicate evaluated on the observed traces"},
    {"property_id": "C10",
     "text": "Coq theorems over every sequence of well-formed frames and every segmentation (read_all = frames), plus the stronger "
             "statement that for arbitrary bytes the read loop's output is a function of the stream alone, progress (>= 4 bytes per "
             "success), termination, garbage => error, and segmentation independence of the ConnectionBind reply parsing; the model "
             "(Model/Framer.v) is run against consumeSingleTURNFrame, STUNConn.ReadFrom over a scripted net.Conn and "
             "TCPAllocation.BindConnection on thousands of frame sequences x segmentations each run; bulk streams (hundreds of frames, "
             "maximum-size frames followed by coalesced ones, whole-stream / 64 KiB / 1600-byte reads) are too large to evaluate in Coq and "
             "are compared with the frames written, which is what the theorem says the model returns for every segmentation.",
     "note": "Trusted: Coq kernel, Go harness, net.Conn.Read contract (segment list is the model's input), caller buffer large enough "
             "for a frame. Recursion depth of ReadFrom and memory are not modelled.",
     "technique": "Coq proof (induction over reads, monotonicity of the frame decision) + differential correspondence check against "
                  "internal/proto/stun_conn.go and internal/client/tcp_alloc.go"},
    {"property_id": "C11",
     "text": "Coq theorems over all channel numbers, payloads up to 65535 bytes, raw buffers and raw attribute values of every "
             "length (round trips, decode-iff, wrong-size rejection) about Model/ChanData.v and Model/Attrs.v; the models are "
             "run against internal/proto on thousands of generated and boundary cases each run.",
     "note": "Trusted: Coq kernel, the Go harness, pion/stun TLV framing and XOR address coding (modelled, correspondence-tested). "
             "LIFETIME restricted to whole seconds.",
     "technique": "Coq proof (induction/arithmetic) + differential correspondence check of the model against internal/proto"},
]

NOT_APPLICABLE = [{"property_id": p, "reason": "check under construction in this round (model and proof planned in DESIGN.md section 6); not claimed yet"}
                  for p in _PENDING if p not in {c["property_id"] for c in CHECKS}]
