NOTES = ("Machine-checked proof in Coq 8.16.1 of executable models of pion/turn, tied to /repo on every run by a "
         "correspondence harness (hand-written model + differential run of model and implementation on the same cases).")

_PENDING = ["C01", "C02", "C03", "C04", "C05", "C06", "C07", "C08", "C09", "C10", "C12", "C13", "C14", "C15", "C16",
            "C17", "C18", "C19", "C20"]

CHECKS = [
    {"property_id": "C10",
     "text": "Coq theorems over every sequence of well-formed frames and every segmentation (read_all = frames), plus the stronger "
             "statement that for arbitrary bytes the read loop's output is a function of the stream alone, progress (>= 4 bytes per "
             "success), termination, garbage => error, and segmentation independence of the ConnectionBind reply parsing; the model "
             "(Model/Framer.v) is run against consumeSingleTURNFrame, STUNConn.ReadFrom over a scripted net.Conn and "
             "TCPAllocation.BindConnection on thousands of frame sequences x segmentations each run.",
     "note": "Trusted: Coq kernel, Go harness, net.Conn.Read contract (segment list is the model's input), caller buffer large enough "
             "for a frame. Recursion depth of ReadFrom and memory are not modelled.",
     "technique": "Coq proof (induction over reads, monotonicity of the frame decision) + differential correspondence check against "
                  "internal/proto/stun_conn.go and internal/client/tcp_alloc.go"},
    {"property_id": "C11",
     "text": "Coq theorems over all channel numbers, payloads up to 65535 bytes, raw buffers and raw attribute values of every "
             "length (round trips, decode-iff, wrong-size rejection) about Model/ChanData.v and Model/Attrs.v; the models are "
             "run against internal/proto on thousands of generated and boundary cases each run.",
     "note": "Trusted: Coq kernel, the Go harness, pion/stun TLV framing and XOR address coding (modelled, correspondence-tested). "
             "LIFETIME restricted to whole seconds.",
     "technique": "Coq proof (induction/arithmetic) + differential correspondence check of the model against internal/proto"},
]

NOT_APPLICABLE = [{"property_id": p, "reason": "check under construction in this round (model and proof planned in DESIGN.md section 6); not claimed yet"}
                  for p in _PENDING if p not in {c["property_id"] for c in CHECKS}]
