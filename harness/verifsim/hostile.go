//go:build verif

package verifsim

import (
	"github.com/pion/stun/v3"
)

// Hostile builds byte strings around valid STUN/TURN messages: every method x class, mutated by bit
// flips, truncation, length-field edits, attribute-length overruns, duplicated/reordered/unknown
// attributes, extreme lengths, plus ChannelData-looking and purely random strings.
func Hostile(r *RNG, n int) [][]byte {
	var out [][]byte
	methods := []stun.Method{stun.MethodBinding, stun.MethodAllocate, stun.MethodRefresh, stun.MethodSend, stun.MethodData,
		stun.MethodCreatePermission, stun.MethodChannelBind, stun.MethodConnect, stun.MethodConnectionBind, stun.MethodConnectionAttempt, stun.Method(0x7FF), stun.Method(0x123)}
	classes := []stun.MessageClass{stun.ClassRequest, stun.ClassIndication, stun.ClassSuccessResponse, stun.ClassErrorResponse}
	attrTypes := []stun.AttrType{stun.AttrUsername, stun.AttrRealm, stun.AttrNonce, stun.AttrMessageIntegrity, stun.AttrLifetime, stun.AttrXORPeerAddress,
		stun.AttrData, stun.AttrChannelNumber, stun.AttrRequestedTransport, stun.AttrEvenPort, stun.AttrReservationToken, stun.AttrDontFragment,
		stun.AttrRequestedAddressFamily, stun.AttrConnectionID, stun.AttrFingerprint, stun.AttrSoftware, stun.AttrErrorCode, stun.AttrXORMappedAddress,
		stun.AttrType(0x7F01), stun.AttrType(0x0003), stun.AttrType(0x8020), stun.AttrType(0xFFFF), stun.AttrType(0x0000)}
	valid := func() []byte {
		m := new(stun.Message)
		m.Type = stun.MessageType{Method: Pick(r, methods), Class: Pick(r, classes)}
		copy(m.TransactionID[:], r.Bytes(12))
		m.WriteHeader()
		for range r.Intn(5) {
			m.Add(Pick(r, attrTypes), r.Bytes(Pick(r, []int{0, 1, 3, 4, 5, 8, 12, 20, r.Intn(40)})))
		}
		return append([]byte{}, m.Raw...)
	}
	for len(out) < n {
		b := valid()
		switch r.Intn(15) {
		case 0: // as is
		case 1: // bit flips
			for range 1 + r.Intn(4) {
				b[r.Intn(len(b))] ^= byte(1 << r.Intn(8))
			}
		case 2: // truncation
			b = b[:r.Intn(len(b)+1)]
		case 3: // message length field edits
			l := Pick(r, []int{0, 1, 3, 4, len(b) - 20 - 1, len(b) - 20 + 1, len(b) - 20 + 4, 0xFFEC, 0xFFED, 0xFFF0, 0xFFFC, 0xFFFF, r.Intn(65536)})
			if l < 0 {
				l = 0
			}
			b[2], b[3] = byte(l>>8), byte(l)
		case 4: // attribute length overrun
			if len(b) >= 24 {
				l := Pick(r, []int{len(b), 0xFFFF, 0xFFFC, len(b) - 24 + 1, len(b) - 24 + 5})
				b[22], b[23] = byte(l>>8), byte(l)
			}
		case 5: // trailing garbage
			b = append(b, r.Bytes(1+r.Intn(9))...)
		case 6: // cookie damaged
			b[4+r.Intn(4)] ^= 0xFF
		case 7: // ChannelData-looking
			n := Pick(r, []int{0x4000, 0x7FFF, 0x3FFF, 0x8000, 0x4000 + r.Intn(0x4000)})
			l := Pick(r, []int{0, 1, 4, 5, 0xFFFC, 0xFFFF, r.Intn(64)})
			b = append([]byte{byte(n >> 8), byte(n), byte(l >> 8), byte(l)}, r.Bytes(Pick(r, []int{0, l % 70, (l % 70) + 3, r.Intn(40)}))...)
		case 8: // pure random
			b = r.Bytes(r.Intn(64))
		case 9: // top bits of the type
			b[0] |= byte(r.Intn(4) << 6)
		case 10: // empty / tiny
			b = r.Bytes(r.Intn(4))
		case 13, 14: // a request that carries MESSAGE-INTEGRITY and a NONCE of unusual shape (lengths, alphabets)
			m := new(stun.Message)
			m.Type = stun.MessageType{Method: Pick(r, []stun.Method{stun.MethodAllocate, stun.MethodRefresh, stun.MethodCreatePermission, stun.MethodChannelBind, stun.MethodConnect, stun.MethodConnectionBind}), Class: stun.ClassRequest}
			copy(m.TransactionID[:], r.Bytes(12))
			m.WriteHeader()
			alnum := "0123456789ABCDEFGHIJKLMNOPQRSTUVWXYZabcdefghijklmnopqrstuvwxyz"
			nl := Pick(r, []int{0, 1, 2, 15, 16, 23, 24, 25, 26, 32, 40, 64, 80, 128, 763})
			nonce := make([]byte, nl)
			for i := range nonce {
				switch r.Intn(10) {
				case 0:
					nonce[i] = byte(r.Intn(256))
				default:
					nonce[i] = alnum[r.Intn(len(alnum))]
				}
			}
			if r.Chance(60) {
				for i := range nonce {
					nonce[i] = alnum[r.Intn(len(alnum))]
				}
			}
			if r.Chance(15) {
				for i := range nonce {
					nonce[i] = 'Z'
				}
			}
			m.Add(stun.AttrUsername, []byte("user1"))
			m.Add(stun.AttrRealm, []byte("realm1"))
			m.Add(stun.AttrNonce, nonce)
			if !r.Chance(10) {
				m.Add(stun.AttrMessageIntegrity, r.Bytes(Pick(r, []int{20, 20, 20, 19, 21, 0})))
			}
			b = append([]byte{}, m.Raw...)
		case 12: // well-formed ChannelData whose payload begins with the STUN magic cookie
			n := 0x4000 + r.Intn(0x4000)
			p := append([]byte{0x21, 0x12, 0xA4, 0x42}, r.Bytes(Pick(r, []int{0, 4, 12, 16, 20, 40}))...)
			b = append([]byte{byte(n >> 8), byte(n), byte(len(p) >> 8), byte(len(p))}, p...)
			for len(b)%4 != 0 {
				b = append(b, 0)
			}
		case 11: // ChannelData whose payload looks like STUN
			p := valid()
			n := 0x4000 + r.Intn(4)
			b = append([]byte{byte(n >> 8), byte(n), byte(len(p) >> 8), byte(len(p))}, p...)
			for len(b)%4 != 0 {
				b = append(b, 0)
			}
		}
		out = append(out, b)
	}
	return out
}
