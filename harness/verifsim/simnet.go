//go:build verif

package verifsim

import (
	"errors"
	"io"
	"net"
	"os"
	"sort"
	"sync"
	"time"
)

// SimNet is an in-memory datagram/stream network owned by the harness: every socket the
// server opens is a Sim* object, everything written is recorded in order, and datagrams
// are delivered only when the harness injects them.
type SimNet struct {
	mu      sync.Mutex
	Out     []Outgoing            // everything written by any sim socket, in order
	Conns   map[string]*SimPacketConn // open packet conns by local address
	Lsns    map[string]*SimListener
	Opened  int
	Closed  int
	WriteErr map[string]error // local address -> error returned by WriteTo
	// OnWrite, when set, sees every datagram written; returning true means it took care of it (not recorded in Out)
	OnWrite func(o Outgoing) bool
}

type Outgoing struct {
	From net.Addr
	To   net.Addr
	Data []byte
}

type simDatagram struct {
	from net.Addr
	data []byte
	err  error
}

func NewSimNet() *SimNet {
	return &SimNet{Conns: map[string]*SimPacketConn{}, Lsns: map[string]*SimListener{}, WriteErr: map[string]error{}}
}

// Drain returns and clears what has been written since the last call.
func (n *SimNet) Drain() []Outgoing {
	n.mu.Lock()
	defer n.mu.Unlock()
	o := n.Out
	n.Out = nil
	return o
}

func (n *SimNet) OpenCount() (open int) {
	n.mu.Lock()
	defer n.mu.Unlock()
	return len(n.Conns) + len(n.Lsns)
}

// OpenAddrs lists the local addresses of the sockets and listeners that are open now.
func (n *SimNet) OpenAddrs() []string {
	n.mu.Lock()
	defer n.mu.Unlock()
	var out []string
	for k := range n.Conns {
		out = append(out, k)
	}
	for k := range n.Lsns {
		out = append(out, k)
	}
	sort.Strings(out)
	return out
}

func (n *SimNet) Lookup(addr string) *SimPacketConn {
	n.mu.Lock()
	defer n.mu.Unlock()
	return n.Conns[addr]
}

func (n *SimNet) LookupListener(addr string) *SimListener {
	n.mu.Lock()
	defer n.mu.Unlock()
	return n.Lsns[addr]
}

// SimPacketConn is a net.PacketConn. ReadFrom has UDP semantics: a datagram longer than the
// buffer is cut and the rest discarded.
type SimPacketConn struct {
	net    *SimNet
	local  net.Addr
	inbox  chan simDatagram
	closed chan struct{}
	once   sync.Once
}

func (n *SimNet) NewPacketConn(local net.Addr) (*SimPacketConn, error) {
	n.mu.Lock()
	defer n.mu.Unlock()
	if _, ok := n.Conns[local.String()]; ok {
		return nil, errors.New("sim: address already in use")
	}
	c := &SimPacketConn{net: n, local: local, inbox: make(chan simDatagram, 8192), closed: make(chan struct{})}
	n.Conns[local.String()] = c
	n.Opened++
	return c, nil
}

// Inject delivers a datagram to the socket; false if it is closed or its queue is full.
func (c *SimPacketConn) Inject(from net.Addr, data []byte) bool {
	select {
	case <-c.closed:
		return false
	default:
	}
	select {
	case c.inbox <- simDatagram{from: from, data: append([]byte{}, data...)}:
		return true
	default:
		return false
	}
}

// InjectErr makes the next ReadFrom fail.
func (c *SimPacketConn) InjectErr(err error) bool {
	select {
	case <-c.closed:
		return false
	default:
	}
	c.inbox <- simDatagram{err: err}
	return true
}

func (c *SimPacketConn) ReadFrom(p []byte) (int, net.Addr, error) {
	select {
	case <-c.closed:
		return 0, nil, net.ErrClosed
	default:
	}
	select {
	case d := <-c.inbox:
		if d.err != nil {
			return 0, nil, d.err
		}
		return copy(p, d.data), d.from, nil
	case <-c.closed:
		return 0, nil, net.ErrClosed
	}
}

func (c *SimPacketConn) WriteTo(p []byte, addr net.Addr) (int, error) {
	select {
	case <-c.closed:
		return 0, net.ErrClosed
	default:
	}
	c.net.mu.Lock()
	if err := c.net.WriteErr[c.local.String()]; err != nil {
		c.net.mu.Unlock()
		return 0, err
	}
	o := Outgoing{From: c.local, To: addr, Data: append([]byte{}, p...)}
	hook := c.net.OnWrite
	if hook == nil {
		c.net.Out = append(c.net.Out, o)
	}
	c.net.mu.Unlock()
	if hook != nil && !hook(o) {
		c.net.mu.Lock()
		c.net.Out = append(c.net.Out, o)
		c.net.mu.Unlock()
	}
	return len(p), nil
}

func (c *SimPacketConn) Close() error {
	already := true
	c.once.Do(func() {
		already = false
		close(c.closed)
		c.net.mu.Lock()
		if c.net.Conns[c.local.String()] == c {
			delete(c.net.Conns, c.local.String())
		}
		c.net.Closed++
		c.net.mu.Unlock()
	})
	if already {
		return net.ErrClosed
	}
	return nil
}
func (c *SimPacketConn) IsClosed() bool {
	select {
	case <-c.closed:
		return true
	default:
		return false
	}
}
func (c *SimPacketConn) LocalAddr() net.Addr              { return copyAddr(c.local) }
func (c *SimPacketConn) SetDeadline(time.Time) error      { return nil }
func (c *SimPacketConn) SetReadDeadline(time.Time) error  { return nil }
func (c *SimPacketConn) SetWriteDeadline(time.Time) error { return nil }

// SimListener is a net.Listener whose connections are injected by the harness.
type SimListener struct {
	net    *SimNet
	local  net.Addr
	conns  chan net.Conn
	closed chan struct{}
	once   sync.Once
}

func (n *SimNet) NewListener(local net.Addr) (*SimListener, error) {
	n.mu.Lock()
	defer n.mu.Unlock()
	if _, ok := n.Lsns[local.String()]; ok {
		return nil, errors.New("sim: address already in use")
	}
	l := &SimListener{net: n, local: local, conns: make(chan net.Conn, 64), closed: make(chan struct{})}
	n.Lsns[local.String()] = l
	n.Opened++
	return l, nil
}
func (l *SimListener) Inject(c net.Conn) bool {
	select {
	case <-l.closed:
		return false
	default:
	}
	l.conns <- c
	return true
}
func (l *SimListener) Accept() (net.Conn, error) {
	select {
	case <-l.closed:
		return nil, net.ErrClosed
	default:
	}
	select {
	case c := <-l.conns:
		if c == nil {
			return nil, errors.New("sim: injected accept error")
		}
		return c, nil
	case <-l.closed:
		return nil, net.ErrClosed
	}
}
func (l *SimListener) Close() error {
	already := true
	l.once.Do(func() {
		already = false
		close(l.closed)
		l.net.mu.Lock()
		if l.net.Lsns[l.local.String()] == l {
			delete(l.net.Lsns, l.local.String())
		}
		l.net.Closed++
		l.net.mu.Unlock()
	})
	if already {
		return net.ErrClosed
	}
	return nil
}
func (l *SimListener) Addr() net.Addr { return copyAddr(l.local) }
func (l *SimListener) IsClosed() bool {
	select {
	case <-l.closed:
		return true
	default:
		return false
	}
}

// SimStream is one end of an in-memory byte stream (net.Conn) with deadlines ignored.
type SimStream struct {
	local, remote net.Addr
	rd            chan []byte
	peer          *SimStream
	pending       []byte
	closed        chan struct{}
	once          sync.Once
	Written       []byte // everything written on this end (for the harness)
	mu            sync.Mutex
	rsem          chan struct{} // readers are serialised (a channel, so that a waiting reader counts as blocked for synctest)
}

// NewStreamPair returns two connected ends a (local la) and b (local lb).
func NewStreamPair(la, lb net.Addr) (*SimStream, *SimStream) {
	a := &SimStream{local: la, remote: lb, rd: make(chan []byte, 4096), closed: make(chan struct{}), rsem: make(chan struct{}, 1)}
	b := &SimStream{local: lb, remote: la, rd: make(chan []byte, 4096), closed: make(chan struct{}), rsem: make(chan struct{}, 1)}
	a.peer, b.peer = b, a
	return a, b
}
func (s *SimStream) Read(p []byte) (int, error) {
	s.rsem <- struct{}{}
	defer func() { <-s.rsem }()
	if len(s.pending) == 0 {
		select {
		case seg := <-s.rd:
			s.pending = seg
		case <-s.closed:
			return 0, net.ErrClosed
		case <-s.peer.closed:
			// the peer has closed: EOF once everything it had written has been read
			select {
			case seg := <-s.rd:
				s.pending = seg
			default:
				return 0, io.EOF
			}
		}
	}
	n := copy(p, s.pending)
	s.pending = s.pending[n:]
	return n, nil
}
func (s *SimStream) Write(p []byte) (int, error) {
	select {
	case <-s.closed:
		return 0, net.ErrClosed
	case <-s.peer.closed:
		return 0, io.ErrClosedPipe
	default:
	}
	s.mu.Lock()
	s.Written = append(s.Written, p...)
	s.mu.Unlock()
	if len(p) == 0 {
		return 0, nil
	}
	select {
	case s.peer.rd <- append([]byte{}, p...):
		return len(p), nil
	case <-s.peer.closed:
		return 0, io.ErrClosedPipe
	case <-s.closed:
		return 0, net.ErrClosed
	}
}
// WrittenCopy returns a copy of everything written on this end so far.
func (s *SimStream) WrittenCopy() []byte {
	s.mu.Lock()
	defer s.mu.Unlock()
	return append([]byte{}, s.Written...)
}

func (s *SimStream) Close() error {
	already := true
	s.once.Do(func() {
		already = false
		close(s.closed) // the peer sees EOF after draining (Read); rd itself is never closed, so that Close may race with Write as on a real connection
	})
	if already {
		return net.ErrClosed
	}
	return nil
}
func (s *SimStream) IsClosed() bool {
	select {
	case <-s.closed:
		return true
	default:
		return false
	}
}
func (s *SimStream) LocalAddr() net.Addr              { return s.local }
func (s *SimStream) RemoteAddr() net.Addr             { return s.remote }
func (s *SimStream) SetDeadline(time.Time) error      { return nil }
func (s *SimStream) SetReadDeadline(time.Time) error  { return nil }
func (s *SimStream) SetWriteDeadline(time.Time) error { return nil }

var ErrSimInjected = os.ErrDeadlineExceeded

// copyAddr mimics the real sockets, whose LocalAddr returns a fresh address object each time.
func copyAddr(a net.Addr) net.Addr {
	switch x := a.(type) {
	case *net.UDPAddr:
		return &net.UDPAddr{IP: append(net.IP{}, x.IP...), Port: x.Port, Zone: x.Zone}
	case *net.TCPAddr:
		return &net.TCPAddr{IP: append(net.IP{}, x.IP...), Port: x.Port, Zone: x.Zone}
	}
	return a
}
