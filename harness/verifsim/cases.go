//go:build verif

// Package verifsim is overlaid into the module as internal/verifsim by /verif/bin/check.
// It holds what the correspondence harnesses share: a PRNG, the payload pattern
// generator mirrored in coq/Lib/Bytes.v, and the writer of Coq case files.
package verifsim

import (
	"bytes"
	"encoding/json"
	"fmt"
	"os"
	"path/filepath"
	"sort"
	"strconv"
	"strings"
)

// RNG is splitmix64; every random choice of a harness derives from one seed.
type RNG struct{ s uint64 }

func NewRNG(seed uint64) *RNG { return &RNG{s: seed*0x9E3779B97F4A7C15 + 0x1234567} }

func (r *RNG) U64() uint64 {
	r.s += 0x9E3779B97F4A7C15
	z := r.s
	z = (z ^ (z >> 30)) * 0xBF58476D1CE4E5B9
	z = (z ^ (z >> 27)) * 0x94D049BB133111EB
	return z ^ (z >> 31)
}
func (r *RNG) Intn(n int) int {
	if n <= 0 {
		return 0
	}
	return int(r.U64() % uint64(n))
}
func (r *RNG) Bool() bool       { return r.U64()&1 == 1 }
func (r *RNG) Chance(p int) bool { return r.Intn(100) < p }
func (r *RNG) Bytes(n int) []byte {
	b := make([]byte, n)
	for i := range b {
		b[i] = byte(r.U64())
	}
	return b
}
func Pick[T any](r *RNG, xs []T) T { return xs[r.Intn(len(xs))] }

// Pat mirrors coq/Lib/Bytes.v [pat len seed]: byte i = (seed + 31*i + i/256) mod 256.
func Pat(n int, seed int) []byte {
	b := make([]byte, n)
	for i := range b {
		b[i] = byte((seed + 31*i + i/256) % 256)
	}
	return b
}

// CoqBytes renders a byte string as a Gallina list literal.
func CoqBytes(b []byte) string {
	var sb strings.Builder
	sb.WriteString("[")
	for i, x := range b {
		if i > 0 {
			sb.WriteString(";")
		}
		sb.WriteString(strconv.Itoa(int(x)))
	}
	sb.WriteString("]")
	return sb.String()
}

// Desc renders b as a [bdesc] term: if the pattern payload (n, seed) occurs in b it is
// written as BPat, the rest literally; buffers longer than 4096 bytes that do not contain
// the pattern are cut and marked BTrunc (which never equals a model output).
func Desc(b []byte, n int, seed int) string {
	if n >= 16 {
		p := Pat(n, seed)
		if i := bytes.Index(b, p); i >= 0 {
			return fmt.Sprintf("(BCat (BRaw %s) (BCat (BPat %d %d) (BRaw %s)))", CoqBytes(b[:i]), n, seed, CoqBytes(b[i+n:]))
		}
	}
	if len(b) > 4096 {
		return fmt.Sprintf("(BTrunc %d %s)", len(b), CoqBytes(b[:64]))
	}
	return fmt.Sprintf("(BRaw %s)", CoqBytes(b))
}

func CoqBool(b bool) string {
	if b {
		return "true"
	}
	return "false"
}

// Case is one correspondence case: a Gallina term of the property's case type.
type Case struct {
	Term       string `json:"term"`
	Kind       string `json:"kind"`
	Tag        string `json:"tag"`
	Nontrivial bool   `json:"nontrivial"`
	Note       string `json:"note,omitempty"`
}

// Collector accumulates cases and writes cases_NNN.v shards plus cases.jsonl and stats.json
// into $VERIF_OUT.
type Collector struct {
	Prop    string
	Module  string // Coq module with [case] type and [bad_cases]
	Cases   []Case
	Extra   map[string]any
	PerFile int
	// Preamble is extra Coq text placed after the module import (e.g. a further Require Import)
	Preamble string
}

func NewCollector(prop, module string) *Collector {
	return &Collector{Prop: prop, Module: module, Extra: map[string]any{}, PerFile: 400}
}

func (c *Collector) Add(kind, tag string, nontrivial bool, term string) {
	c.Cases = append(c.Cases, Case{Term: term, Kind: kind, Tag: tag, Nontrivial: nontrivial})
}

func OutDir() string {
	d := os.Getenv("VERIF_OUT")
	if d == "" {
		d = os.TempDir()
	}
	return d
}

func Seed() uint64 {
	s, err := strconv.ParseUint(os.Getenv("VERIF_SEED"), 10, 64)
	if err != nil {
		return 1
	}
	return s
}

func Thorough() bool { return os.Getenv("VERIF_TIER") == "thorough" }

// Flush writes the shards. Each shard defines R := Eval vm_compute in bad_cases base cases.
func (c *Collector) Flush() error {
	dir := OutDir()
	per := c.PerFile
	nshard := 0
	for start := 0; start < len(c.Cases) || (start == 0 && len(c.Cases) == 0); start += per {
		end := start + per
		if end > len(c.Cases) {
			end = len(c.Cases)
		}
		var sb strings.Builder
		fmt.Fprintf(&sb, "From Turn Require Import %s.\n%s\nOpen Scope N_scope.\n", c.Module, c.Preamble)
		fmt.Fprintf(&sb, "Definition cases : list %s.case := [\n", c.Module)
		for i := start; i < end; i++ {
			if i > start {
				sb.WriteString(";\n")
			}
			sb.WriteString(c.Cases[i].Term)
		}
		sb.WriteString("\n].\n")
		fmt.Fprintf(&sb, "Definition R := Eval vm_compute in %s.bad_cases %d cases.\nPrint R.\n", c.Module, start)
		name := fmt.Sprintf("cases_%s_%03d.v", c.Prop, nshard)
		if err := os.WriteFile(filepath.Join(dir, name), []byte(sb.String()), 0o644); err != nil {
			return err
		}
		nshard++
		if len(c.Cases) == 0 {
			break
		}
	}
	f, err := os.Create(filepath.Join(dir, fmt.Sprintf("cases_%s.jsonl", c.Prop)))
	if err != nil {
		return err
	}
	defer f.Close()
	enc := json.NewEncoder(f)
	kinds := map[string]int{}
	tags := map[string]int{}
	for i := range c.Cases {
		if err := enc.Encode(&c.Cases[i]); err != nil {
			return err
		}
		kinds[c.Cases[i].Kind]++
		tags[c.Cases[i].Tag]++
	}
	stats := map[string]any{"prop": c.Prop, "cases": len(c.Cases), "shards": nshard, "kinds": kinds, "tags": tags, "extra": c.Extra}
	sb, _ := json.MarshalIndent(stats, "", " ")
	return os.WriteFile(filepath.Join(dir, fmt.Sprintf("stats_%s.json", c.Prop)), sb, 0o644)
}

// SortedKeys is a helper for deterministic output.
func SortedKeys[V any](m map[string]V) []string {
	ks := make([]string, 0, len(m))
	for k := range m {
		ks = append(ks, k)
	}
	sort.Strings(ks)
	return ks
}
