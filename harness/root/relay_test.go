//go:build verif

package turn

import (
	"encoding/binary"
	"fmt"
	"math/big"
	"net"
	"os"
	"sort"
	"strings"
	"sync"
	"testing"
	"testing/synctest"
	"time"

	"github.com/pion/logging"
	"github.com/pion/stun/v3"
	"github.com/pion/turn/v5/internal/allocation"
	"github.com/pion/turn/v5/internal/proto"
	"github.com/pion/turn/v5/internal/server"
	"github.com/pion/turn/v5/internal/verifsim"
)

// ---------------------------------------------------------------------------
// Coq term helpers

func coqIP(ip net.IP) string {
	return new(big.Int).SetBytes(ip.To16()).String()
}
func coqAddr(ip net.IP, port int) string { return fmt.Sprintf("(A %s %d)", coqIP(ip), port) }
func coqNetAddr(a net.Addr) string {
	switch x := a.(type) {
	case *net.UDPAddr:
		return coqAddr(x.IP, x.Port)
	case *net.TCPAddr:
		return coqAddr(x.IP, x.Port)
	}
	return "(A 0 0)"
}

// coqData renders payload bytes; big pattern payloads as (pat n seed).
func coqData(b []byte, plen, seed int) string {
	if plen >= 32 && len(b) == plen && string(b) == string(verifsim.Pat(plen, seed)) {
		return fmt.Sprintf("(pat %d %d)", plen, seed)
	}
	if plen >= 32 && len(b) < plen && len(b) >= 32 && string(b) == string(verifsim.Pat(plen, seed)[:len(b)]) {
		return fmt.Sprintf("(firstn %d (pat %d %d))", len(b), plen, seed)
	}
	return verifsim.CoqBytes(b)
}

// ---------------------------------------------------------------------------
// world

type relayCfg struct {
	allocLifetime, permTimeout, chanTimeout time.Duration // as given to ServerConfig (0 = default)
	mtu                                     int
	strict                                  bool
	policy, quota                           int
	hasAuth                                 bool
	listenerV6                              bool
	authOverride                            AuthHandler
	stream                                  bool // the clients reach the server over a stream listener (TCP/TLS framing)
}

type relayWorld struct {
	t       *testing.T
	rng     *verifsim.RNG
	cfg     relayCfg
	net     *verifsim.SimNet
	srv     *Server
	srvConn *verifsim.SimPacketConn
	srvLn   *verifsim.SimListener
	srvAddr net.Addr
	streams map[string]*relayStream
	closedStreams []*relayStream
	srvClosed     bool
	dead          bool // after Server.Close: every further event is recorded as EDeadMsg
	nextPort int // 0 = generator fails
	lifeMu   sync.Mutex
	tokenIDs map[string]int
	tokens   []string       // id-1 -> token string
	tokenPort map[int]int   // token id -> even port it was minted for
	life    []string
	clients []*net.UDPAddr
	peers   []*net.UDPAddr
	start   time.Time
	steps   []string
	nonce   string
	nonceMin int64
	foreignNonce string
	lastPlen, lastSeed int
	nontrivial bool
	// shadow deadlines for tick targeting (ns since start)
	deadlines []time.Duration
	tidNext int
	lastTid map[string]int
	stats   map[string]int
}

var (
	relayIP4  = net.IPv4(10, 9, 0, 1).To4()
	relayIP6  = net.ParseIP("fd00:9::1")
	serverIP4 = net.IPv4(10, 0, 0, 1).To4()
	serverIP6 = net.ParseIP("fd00::1")
)

type relayUser struct {
	name, realm, pass, uid string
	nameID, realmID, keyID, uidID int
}

var relayUsers = []relayUser{
	{"user1", "realm1", "pw1", "uid1", 1, 1, 11, 1},
	{"user2", "realm1", "pw2", "uid2", 2, 1, 21, 2},
	{"user3", "realm1", "pw3", "uid1", 3, 1, 31, 1}, // another username of user id 1
}

const relayCoqAuth = "(fun u r => if (r =? 1)%N then (if (u =? 1)%N then Some (1, 11)%N else if (u =? 2)%N then Some (2, 21)%N else if (u =? 3)%N then Some (1, 31)%N else None) else None)"

func (w *relayWorld) policyGo() PermissionHandler {
	switch w.cfg.policy {
	case 1:
		return func(_ net.Addr, ip net.IP) bool { return !ip.Equal(w.peers[1].IP) }
	case 2:
		return func(c net.Addr, ip net.IP) bool {
			var cip net.IP
			cport := 0
			switch u := c.(type) {
			case *net.UDPAddr:
				cip, cport = u.IP, u.Port
			case *net.TCPAddr:
				cip, cport = u.IP, u.Port
			}
			return !(cip != nil && cip.Equal(w.clients[0].IP) && cport == w.clients[0].Port && ip.Equal(w.peers[0].IP))
		}
	case 3: // a deny-list entry for an IPv6 host
		return func(_ net.Addr, ip net.IP) bool { return !ip.Equal(w.peers[3].IP) }
	}
	return nil
}
func (w *relayWorld) policyCoq() string {
	switch w.cfg.policy {
	case 1:
		return fmt.Sprintf("(fun c i => negb (i =? %s)%%N)", coqIP(w.peers[1].IP))
	case 2:
		return fmt.Sprintf("(fun c i => negb (addr_eqb c %s && (i =? %s)%%N))", coqNetAddr(w.clients[0]), coqIP(w.peers[0].IP))
	case 3:
		return fmt.Sprintf("(fun c i => negb (i =? %s)%%N)", coqIP(w.peers[3].IP))
	}
	return "(fun c i => true)"
}

type relayGen struct{ w *relayWorld }

func (g *relayGen) Validate() error { return nil }
func (g *relayGen) relayIP(network string) net.IP {
	if strings.HasSuffix(network, "6") {
		return relayIP6
	}
	return relayIP4
}
func (g *relayGen) AllocatePacketConn(conf AllocateListenerConfig) (net.PacketConn, net.Addr, error) {
	port := conf.RequestedPort
	if port == 0 {
		port = g.w.nextPort
	}
	if port == 0 {
		return nil, nil, fmt.Errorf("sim: no port")
	}
	addr := &net.UDPAddr{IP: g.relayIP(conf.Network), Port: port}
	// one relayed-address space, as in the model: a port held by a TCP allocation's listener is in use for UDP as well
	if g.w.net.LookupListener(addr.String()) != nil {
		return nil, nil, fmt.Errorf("sim: address already in use")
	}
	c, err := g.w.net.NewPacketConn(addr)
	if err != nil {
		return nil, nil, err
	}
	return c, &net.UDPAddr{IP: addr.IP, Port: addr.Port}, nil
}
func (g *relayGen) AllocateListener(conf AllocateListenerConfig) (net.Listener, net.Addr, error) {
	port := conf.RequestedPort
	if port == 0 {
		port = g.w.nextPort
	}
	if port == 0 {
		return nil, nil, fmt.Errorf("sim: no port")
	}
	addr := &net.TCPAddr{IP: g.relayIP(conf.Network), Port: port}
	if g.w.net.Lookup(addr.String()) != nil {
		return nil, nil, fmt.Errorf("sim: address already in use")
	}
	l, err := g.w.net.NewListener(addr)
	if err != nil {
		return nil, nil, err
	}
	return l, &net.TCPAddr{IP: addr.IP, Port: addr.Port}, nil
}
func (g *relayGen) AllocateConn(AllocateConnConfig) (net.Conn, error) {
	return nil, fmt.Errorf("sim: dial not supported here")
}

func newRelayWorld(t *testing.T, rng *verifsim.RNG, cfg relayCfg) *relayWorld {
	w := &relayWorld{t: t, rng: rng, cfg: cfg, net: verifsim.NewSimNet(), start: time.Now(), lastTid: map[string]int{}, stats: map[string]int{}, tidNext: 100}
	w.clients = []*net.UDPAddr{
		{IP: net.IPv4(10, 0, 0, 2).To4(), Port: 5000},
		{IP: net.IPv4(10, 0, 0, 2).To4(), Port: 5001},
		{IP: net.IPv4(10, 0, 0, 3).To4(), Port: 5000},
		{IP: net.ParseIP("fd00::2"), Port: 5000},
	}
	w.peers = []*net.UDPAddr{
		{IP: net.IPv4(10, 1, 0, 1).To4(), Port: 7000},
		{IP: net.IPv4(10, 1, 0, 2).To4(), Port: 7000},
		{IP: net.IPv4(10, 1, 0, 1).To4(), Port: 7001},
		{IP: net.ParseIP("fd00:1::1"), Port: 7000},
		{IP: net.IPv4(10, 1, 0, 3).To4(), Port: 7000},
		{IP: net.ParseIP("fd00:1::2"), Port: 7000}, // a second IPv6 host
		{IP: net.ParseIP("fd00:1::1"), Port: 7001}, // the first one's other port
	}
	sip := serverIP4
	if cfg.listenerV6 {
		sip = serverIP6
	}
	var err error
	w.srvConn, err = w.net.NewPacketConn(&net.UDPAddr{IP: sip, Port: 3478})
	if err != nil {
		t.Fatal(err)
	}
	w.srvAddr = w.srvConn.LocalAddr()
	w.streams = map[string]*relayStream{}
	if cfg.stream {
		w.srvAddr = &net.TCPAddr{IP: sip, Port: 3478}
		w.srvLn, err = w.net.NewListener(w.srvAddr)
		if err != nil {
			t.Fatal(err)
		}
	}
	client := func(a net.Addr) string { return coqNetAddr(a) }
	eh := EventHandler{
		OnAllocationCreated: func(src, _ net.Addr, _, user, _ string, relay net.Addr, _ int) {
			w.addLife(fmt.Sprintf("Life (LAllocCreated %s %s %s)", client(src), strings.TrimPrefix(user, "uid"), coqNetAddr(relay)))
		},
		OnAllocationDeleted: func(src, _ net.Addr, _, user, _ string) {
			w.addLife(fmt.Sprintf("Life (LAllocDeleted %s %s)", client(src), strings.TrimPrefix(user, "uid")))
		},
		OnPermissionCreated: func(src, _ net.Addr, _, _, _ string, _ net.Addr, peer net.IP) {
			w.addLife(fmt.Sprintf("Life (LPermCreated %s %s)", client(src), coqIP(peer)))
		},
		OnPermissionDeleted: func(src, _ net.Addr, _, _, _ string, _ net.Addr, peer net.IP) {
			w.addLife(fmt.Sprintf("Life (LPermDeleted %s %s)", client(src), coqIP(peer)))
		},
		OnChannelCreated: func(src, _ net.Addr, _, _, _ string, _, peer net.Addr, n uint16) {
			w.addLife(fmt.Sprintf("Life (LChanCreated %s %s %d)", client(src), coqNetAddr(peer), n))
		},
		OnChannelDeleted: func(src, _ net.Addr, _, _, _ string, _, peer net.Addr, n uint16) {
			w.addLife(fmt.Sprintf("Life (LChanDeleted %s %s %d)", client(src), coqNetAddr(peer), n))
		},
	}
	var auth AuthHandler
	if cfg.hasAuth {
		auth = func(ra *RequestAttributes) (string, []byte, bool) {
			for _, u := range relayUsers {
				if u.name == ra.Username && u.realm == ra.Realm {
					return u.uid, GenerateAuthKey(u.name, u.realm, u.pass), true
				}
			}
			return "", nil, false
		}
	}
	if cfg.authOverride != nil {
		auth = cfg.authOverride
	}
	var quota QuotaHandler
	if cfg.quota == 1 {
		quota = func(user, _ string, _ net.Addr) bool { return user != "uid2" }
	}
	lf := logging.NewDefaultLoggerFactory()
	lf.DefaultLogLevel = logging.LogLevelDisabled
	pcs := []PacketConnConfig{{PacketConn: w.srvConn, RelayAddressGenerator: &relayGen{w}, PermissionHandler: w.policyGo()}}
	var lcs []ListenerConfig
	if cfg.stream {
		pcs = nil
		lcs = []ListenerConfig{{Listener: w.srvLn, RelayAddressGenerator: &relayGen{w}, PermissionHandler: w.policyGo()}}
	}
	w.srv, err = NewServer(ServerConfig{
		PacketConnConfigs:   pcs,
		ListenerConfigs:     lcs,
		Realm:               "realm1",
		AuthHandler:         auth,
		QuotaHandler:        quota,
		EventHandler:        eh,
		ChannelBindTimeout:  cfg.chanTimeout,
		PermissionTimeout:   cfg.permTimeout,
		AllocationLifetime:  cfg.allocLifetime,
		StrictAddressFamily: cfg.strict,
		InboundMTU:          cfg.mtu,
		LoggerFactory:       lf,
	})
	if err != nil {
		t.Fatal(err)
	}
	nh, _ := server.NewShortNonceHash(0)
	w.foreignNonce, _ = nh.Generate()
	return w
}

func newRelayWorldAuth(t *testing.T, rng *verifsim.RNG, cfg relayCfg, h AuthHandler) *relayWorld {
	cfg.authOverride = h
	return newRelayWorld(t, rng, cfg)
}

func (w *relayWorld) coqConfig() string {
	def := func(d, dflt time.Duration) int64 {
		if d == 0 {
			d = dflt
		}
		return int64(d)
	}
	mtu := w.cfg.mtu
	if mtu == 0 {
		mtu = 1600
	}
	lk := "LV4"
	if w.cfg.listenerV6 {
		lk = "LV6"
	}
	quota := "(fun u r c => true)"
	if w.cfg.quota == 1 {
		quota = "(fun u r c => negb (u =? 2)%N)"
	}
	return fmt.Sprintf("(Build_config 1 %d %d %d %d %s %s %s %s %s %s %s %s)",
		def(w.cfg.allocLifetime, 10*time.Minute), def(w.cfg.permTimeout, 5*time.Minute), def(w.cfg.chanTimeout, 10*time.Minute),
		mtu, verifsim.CoqBool(w.cfg.strict), lk, coqIP(relayIP4), coqIP(relayIP6), verifsim.CoqBool(w.cfg.hasAuth),
		relayCoqAuth, w.policyCoq(), quota)
}

func (w *relayWorld) nowNs() time.Duration { return time.Since(w.start) }
func (w *relayWorld) curMinute() int64     { return time.Now().Unix() / 60 }

// ---------------------------------------------------------------------------
// observation

func tidBytes(n int) (b [stun.TransactionIDSize]byte) {
	binary.BigEndian.PutUint64(b[4:], uint64(n))
	return
}
func tidNum(b [stun.TransactionIDSize]byte) string {
	if b[0]|b[1]|b[2]|b[3] != 0 {
		return "999999999" // server-chosen random id (indications)
	}
	return fmt.Sprintf("%d", binary.BigEndian.Uint64(b[4:]))
}

func coqMethod(m stun.Method) string {
	switch m {
	case stun.MethodAllocate:
		return "MAllocate"
	case stun.MethodRefresh:
		return "MRefresh"
	case stun.MethodCreatePermission:
		return "MCreatePerm"
	case stun.MethodChannelBind:
		return "MChannelBind"
	case stun.MethodBinding:
		return "MBinding"
	case stun.MethodConnect:
		return "MConnect"
	case stun.MethodConnectionBind:
		return "MConnBind"
	case stun.MethodSend:
		return "MSend"
	}
	return "MData"
}

// decodeToClient turns a datagram written by the server socket into a Coq action.
func (w *relayWorld) decodeToClient(o verifsim.Outgoing) string {
	dst := coqNetAddr(o.To)
	if proto.IsChannelData(o.Data) {
		cd := proto.ChannelData{Raw: o.Data}
		if err := cd.Decode(); err != nil {
			return fmt.Sprintf("ChanDataOut %s 70001 []", dst)
		}
		re := proto.ChannelData{Number: cd.Number, Data: cd.Data}
		re.Encode()
		if string(re.Raw) != string(o.Data) {
			return fmt.Sprintf("ChanDataOut %s 70002 %s", dst, verifsim.CoqBytes(o.Data))
		}
		return fmt.Sprintf("ChanDataOut %s %d %s", dst, uint16(cd.Number), coqData(cd.Data, w.lastPlen, w.lastSeed))
	}
	m := &stun.Message{Raw: append([]byte{}, o.Data...)}
	if err := m.Decode(); err != nil {
		return fmt.Sprintf("Error %s MData 0 0 false", dst)
	}
	switch m.Type.Class {
	case stun.ClassIndication:
		var pa proto.PeerAddress
		var d proto.Data
		if m.Type.Method != stun.MethodData || pa.GetFrom(m) != nil || d.GetFrom(m) != nil {
			return fmt.Sprintf("Error %s MData 0 1 false", dst)
		}
		return fmt.Sprintf("DataInd %s %s %s", dst, coqAddr(pa.IP, pa.Port), coqData(d, w.lastPlen, w.lastSeed))
	case stun.ClassErrorResponse:
		var ec stun.ErrorCodeAttribute
		code := 0
		if ec.GetFrom(m) == nil {
			code = int(ec.Code)
		}
		var nonce stun.Nonce
		var realm stun.Realm
		challenge := nonce.GetFrom(m) == nil && realm.GetFrom(m) == nil && realm.String() == "realm1" && len(nonce) > 0
		if challenge && w.rng.Chance(50) {
			w.nonce, w.nonceMin = nonce.String(), w.curMinute()
		}
		return fmt.Sprintf("Error %s %s %s %d %s", dst, coqMethod(m.Type.Method), tidNum(m.TransactionID), code, verifsim.CoqBool(challenge))
	case stun.ClassSuccessResponse:
		var attrs []string
		for _, a := range m.Attributes {
			switch a.Type {
			case stun.AttrXORRelayedAddress:
				var ra proto.RelayedAddress
				if ra.GetFrom(m) == nil {
					attrs = append(attrs, "SRelayed "+coqAddr(ra.IP, ra.Port))
				}
			case stun.AttrLifetime:
				var lt proto.Lifetime
				if lt.GetFrom(m) == nil {
					attrs = append(attrs, fmt.Sprintf("SLifetime %d", int64(lt.Duration/time.Second)))
				}
			case stun.AttrXORMappedAddress:
				var xa stun.XORMappedAddress
				if xa.GetFrom(m) == nil {
					attrs = append(attrs, "SMapped "+coqAddr(xa.IP, xa.Port))
				}
			case stun.AttrReservationToken:
				attrs = append(attrs, fmt.Sprintf("SToken %d", w.tokenID(string(a.Value))))
			}
		}
		return fmt.Sprintf("Success %s %s %s [%s]", dst, coqMethod(m.Type.Method), tidNum(m.TransactionID), strings.Join(attrs, "; "))
	}
	return fmt.Sprintf("Error %s MData 0 2 false", dst)
}

func (w *relayWorld) listing() string {
	var allocs []string
	if len(w.srv.allocationManagers) == 0 {
		return "[]"
	}
	am := w.srv.allocationManagers[0]
	n := 0
	var relays []net.Addr
	for _, c := range w.clients {
		a := am.GetAllocation(w.ft(c))
		if a == nil {
			continue
		}
		n++
		var perms, chans []string
		for _, p := range a.ListPermissions() {
			if u, ok := p.Addr.(*net.UDPAddr); ok {
				perms = append(perms, coqIP(u.IP))
			}
		}
		sort.Strings(perms)
		for _, cb := range a.ListChannelBindings() {
			chans = append(chans, fmt.Sprintf("(%d, %s)", uint16(cb.Number), coqNetAddr(cb.Peer)))
		}
		sort.Strings(chans)
		allocs = append(allocs, fmt.Sprintf("OA %s %s [%s] [%s]", coqNetAddr(c), coqNetAddr(a.RelayAddr), strings.Join(perms, "; "), strings.Join(chans, "; ")))
		relays = append(relays, a.RelayAddr)
	}
	if am.AllocationCount() != n {
		allocs = append(allocs, fmt.Sprintf("OA (A 0 %d) (A 0 0) [] []", am.AllocationCount())) // count disagrees with what is reachable
	}
	// resources: the sockets and listeners open now are the server's own and the relays of the live allocations, and
	// every live allocation's relay is open. A socket nobody accounts for is listed as an allocation of client (A 0 0),
	// a live allocation whose relay socket is closed as one of client (A 0 1): the model's listing never has those.
	allowed := map[string]bool{w.srvConn.LocalAddr().String(): true}
	if w.srvLn != nil {
		allowed[w.srvLn.Addr().String()] = true
	}
	open := map[string]bool{}
	for _, k := range w.net.OpenAddrs() {
		open[k] = true
	}
	for _, r := range relays {
		allowed[r.String()] = true
		if !open[r.String()] {
			allocs = append(allocs, fmt.Sprintf("OA (A 0 1) %s [] []", coqNetAddr(r)))
		}
	}
	for _, k := range w.net.OpenAddrs() {
		if !allowed[k] {
			if u, err := net.ResolveUDPAddr("udp", k); err == nil {
				allocs = append(allocs, fmt.Sprintf("OA (A 0 0) %s [] []", coqNetAddr(u)))
			}
		}
	}
	return "[" + strings.Join(allocs, "; ") + "]"
}

// settle lets the server finish, then records the step.
func (w *relayWorld) addLife(s string) {
	w.lifeMu.Lock()
	w.life = append(w.life, s)
	w.lifeMu.Unlock()
}

func (w *relayWorld) takeLife() []string {
	w.lifeMu.Lock()
	defer w.lifeMu.Unlock()
	l := w.life
	w.life = nil
	return l
}

// tokenID numbers the reservation tokens the server mints in order of first appearance
func (w *relayWorld) tokenID(tok string) int {
	if id, ok := w.tokenIDs[tok]; ok {
		return id
	}
	if w.tokenIDs == nil {
		w.tokenIDs = map[string]int{}
	}
	id := len(w.tokenIDs) + 1
	w.tokenIDs[tok] = id
	w.tokens = append(w.tokens, tok)
	return id
}

func (w *relayWorld) settle(evTerm string) []string {
	return w.settleWith(func([]string) string { return evTerm })
}

// settleWith lets the event term depend on what came back (the token the server minted is an input of the model)
func (w *relayWorld) settleWith(evTermOf func(acts []string) string) []string {
	synctest.Wait()
	var acts []string
	acts = append(acts, w.takeLife()...)
	var toClient, toPeer []string
	for _, o := range append(w.streamReplies(), w.net.Drain()...) {
		if o.From.String() == w.srvAddr.String() {
			toClient = append(toClient, w.decodeToClient(o))
		} else {
			toPeer = append(toPeer, fmt.Sprintf("ToPeer %s %s %s", coqNetAddr(o.From), coqNetAddr(o.To), coqData(o.Data, w.lastPlen, w.lastSeed)))
		}
	}
	acts = append(acts, toClient...)
	acts = append(acts, toPeer...)
	if len(toClient)+len(toPeer) > 0 {
		w.nontrivial = true
	}
	term := evTermOf(acts)
	if w.dead {
		term = "EDeadMsg" // whatever is sent to a closed server: the model says nothing happens
	}
	w.steps = append(w.steps, fmt.Sprintf("OS (%s) [%s] %s", term, strings.Join(acts, "; "), w.listing()))
	return acts
}

func (w *relayWorld) term() string {
	return fmt.Sprintf("RC %s %d [\n  %s\n]", w.coqConfig(), w.start.Unix()/60, strings.Join(w.steps, ";\n  "))
}

// ---------------------------------------------------------------------------
// events

type credSpec struct {
	mi      int // 0 none, else key id (user key, or 99 wrong password)
	intact  bool
	nonce   int // 0 absent, 1 current valid-format nonce held by the harness, 2 foreign
	user    int // 0 absent, else username id (9 = unknown user)
	realm   int // 0 absent, 1 realm1, 2 other realm
}

func (w *relayWorld) credCoq(c credSpec) string {
	mi := "None"
	if c.mi != 0 {
		mi = fmt.Sprintf("(Some %d)", c.mi)
	}
	nonce := "NonceAbsent"
	switch c.nonce {
	case 1:
		nonce = fmt.Sprintf("(NonceMinted %d)", w.nonceMin)
	case 2:
		nonce = "NonceForeign"
	}
	opt := func(v int) string {
		if v == 0 {
			return "None"
		}
		return fmt.Sprintf("(Some %d)", v)
	}
	return fmt.Sprintf("(Build_cred %s %s %s %s %s)", mi, verifsim.CoqBool(c.intact), nonce, opt(c.user), opt(c.realm))
}

func (w *relayWorld) freshNonce() {
	n, err := w.srv.nonceHash.Generate()
	if err != nil {
		w.t.Fatal(err)
	}
	w.nonce, w.nonceMin = n, w.curMinute()
}

// credSetters appends the credential attributes; returns a post-processing func for tampering.
func (w *relayWorld) credSetters(c credSpec) []stun.Setter {
	var s []stun.Setter
	uname := ""
	switch {
	case c.user >= 1 && c.user <= 3:
		uname = relayUsers[c.user-1].name
	case c.user == 9:
		uname = "nobody"
	}
	if c.user != 0 {
		s = append(s, stun.NewUsername(uname))
	}
	realm := ""
	switch c.realm {
	case 1:
		realm = "realm1"
	case 2:
		realm = "other"
	}
	if c.realm != 0 {
		s = append(s, stun.NewRealm(realm))
	}
	switch c.nonce {
	case 1:
		s = append(s, stun.NewNonce(w.nonce))
	case 2:
		s = append(s, stun.NewNonce(w.foreignNonce))
	}
	if c.mi != 0 {
		// key id = 10*username + 1 for the user's password; 99 = a wrong password
		var key []byte
		switch c.mi {
		case 11, 21, 31:
			u := relayUsers[c.mi/10-1]
			key = GenerateAuthKey(u.name, u.realm, u.pass)
		default:
			key = GenerateAuthKey("user1", "realm1", "wrong-password")
		}
		s = append(s, stun.MessageIntegrity(key))
	}
	return s
}

// relayStream is one client's control connection in stream mode
type relayStream struct {
	mine, theirs *verifsim.SimStream
	seen         int // bytes of theirs.Written already turned into replies
}

func (w *relayWorld) streamOf(from *net.UDPAddr) *relayStream {
	k := from.String()
	if st, ok := w.streams[k]; ok {
		return st
	}
	mine, theirs := verifsim.NewStreamPair(&net.TCPAddr{IP: from.IP, Port: from.Port}, w.srvAddr)
	st := &relayStream{mine: mine, theirs: theirs}
	w.streams[k] = st
	w.srvLn.Inject(theirs)
	go func() { // the client reads and forgets; the harness looks at what the server wrote
		buf := make([]byte, 4096)
		for {
			if _, err := mine.Read(buf); err != nil {
				return
			}
		}
	}()
	synctest.Wait()
	return st
}

func (w *relayWorld) sendToServer(from *net.UDPAddr, raw []byte) {
	if !w.cfg.stream {
		w.srvConn.Inject(&net.UDPAddr{IP: from.IP, Port: from.Port}, raw)
		return
	}
	// over a stream: the frame (ChannelData padded to four bytes) reaches the server in one to three segments
	st := w.streamOf(from)
	frame := append([]byte{}, raw...)
	if proto.IsChannelData(frame) {
		for len(frame)%4 != 0 {
			frame = append(frame, 0)
		}
	}
	cuts := []int{}
	if len(frame) > 1 && w.rng.Chance(60) {
		cuts = append(cuts, 1+w.rng.Intn(len(frame)-1))
		if w.rng.Chance(40) {
			c2 := 1 + w.rng.Intn(len(frame)-1)
			if c2 > cuts[0] {
				cuts = append(cuts, c2)
			}
		}
	}
	prev := 0
	for _, c := range append(cuts, len(frame)) {
		_, _ = st.mine.Write(frame[prev:c])
		prev = c
		synctest.Wait()
	}
	w.stats["stream-segments"] += len(cuts) + 1
}

// streamReplies turns what the server wrote on the control connections since the last call into datagrams
func (w *relayWorld) streamReplies() []verifsim.Outgoing {
	var out []verifsim.Outgoing
	for _, c := range w.clients {
		st, ok := w.streams[c.String()]
		if !ok {
			continue
		}
		all := st.theirs.WrittenCopy()
		for st.seen+4 <= len(all) {
			b := all[st.seen:]
			n := 20 + int(b[2])<<8 + int(b[3])
			if proto.IsChannelData(b) {
				n = 4 + int(b[2])<<8 + int(b[3])
				pad := (4 - n%4) % 4
				if st.seen+n+pad > len(all) {
					break
				}
				out = append(out, verifsim.Outgoing{From: w.srvAddr, To: c, Data: append([]byte{}, b[:n+pad]...)})
				st.seen += n + pad
				continue
			}
			if st.seen+n > len(all) {
				break
			}
			out = append(out, verifsim.Outgoing{From: w.srvAddr, To: c, Data: append([]byte{}, b[:n]...)})
			st.seen += n
		}
	}
	return out
}

// ft is the 5-tuple under which the server knows client c
func (w *relayWorld) ft(c *net.UDPAddr) *allocation.FiveTuple {
	if w.cfg.stream {
		// the server files every control connection under "UDP", whatever the listener
		return &allocation.FiveTuple{SrcAddr: &net.TCPAddr{IP: c.IP, Port: c.Port}, DstAddr: w.srvAddr, Protocol: allocation.UDP}
	}
	ft := allocation.FiveTuple{SrcAddr: c, DstAddr: w.srvConn.LocalAddr()}
	ft.Protocol = allocation.UDP
	return &ft
}

func (w *relayWorld) buildAndSend(from *net.UDPAddr, c credSpec, setters []stun.Setter) {
	setters = append(setters, w.credSetters(c)...)
	m, err := stun.Build(setters...)
	if err != nil {
		w.t.Fatalf("build: %v", err)
	}
	raw := append([]byte{}, m.Raw...)
	if c.mi != 0 && !c.intact {
		// flip one bit inside the MESSAGE-INTEGRITY value (last attribute: 20 bytes at the end)
		raw[len(raw)-1-w.rng.Intn(20)] ^= byte(1 << w.rng.Intn(8))
	}
	w.sendToServer(from, raw)
}

type attrSpec struct {
	kind int // 0 absent, 1 bad size, 2 present
	val  int
}

func (a attrSpec) coq() string {
	switch a.kind {
	case 1:
		return "ABadSize"
	case 2:
		return fmt.Sprintf("(APresent %d)", a.val)
	}
	return "AAbsent"
}

type rawAttrSetter struct {
	t stun.AttrType
	v []byte
}

func (r rawAttrSetter) AddTo(m *stun.Message) error { m.Add(r.t, r.v); return nil }

func rawAttr(t stun.AttrType, v []byte) stun.Setter { return rawAttrSetter{t, v} }

func (w *relayWorld) u32Attr(t stun.AttrType, a attrSpec, first bool) []stun.Setter {
	switch a.kind {
	case 1:
		return []stun.Setter{rawAttr(t, []byte{1, 2, 3})}
	case 2:
		v := make([]byte, 4)
		if first { // value in the first byte (REQUESTED-TRANSPORT, REQUESTED-ADDRESS-FAMILY)
			v[0] = byte(a.val)
		} else {
			binary.BigEndian.PutUint32(v, uint32(a.val))
		}
		return []stun.Setter{rawAttr(t, v)}
	}
	return nil
}

type peerSpec struct {
	bad  bool
	addr *net.UDPAddr
}

func (p peerSpec) coq() string {
	if p.bad {
		return "PeerBad"
	}
	return "(PeerOk " + coqNetAddr(p.addr) + ")"
}
func (p peerSpec) setter() stun.Setter {
	if p.bad {
		return rawAttr(stun.AttrXORPeerAddress, []byte{0, 1, 0x11, 0x22, 0xAA})
	}
	return proto.PeerAddress{IP: p.addr.IP, Port: p.addr.Port}
}

// allocExtra: EVEN-PORT and RESERVATION-TOKEN of an Allocate request
type allocExtra struct {
	evenPort int      // 0 absent, 1 present (one byte), 2 present with a wrong size
	rtoken   attrSpec // kind 0 absent, 1 wrong size, 2 present with token id val (unknown ids are made-up tokens)
}

func (w *relayWorld) evAllocate(ci int, tid int, c credSpec, transport, lifetime, family attrSpec, dontfrag bool, port int, unknown bool) {
	w.evAllocateX(ci, tid, c, transport, lifetime, family, dontfrag, port, unknown, allocExtra{})
}

func (w *relayWorld) evAllocateX(ci int, tid int, c credSpec, transport, lifetime, family attrSpec, dontfrag bool, port int, unknown bool, x allocExtra) {
	if _, known := w.tokenPort[x.rtoken.val]; known && x.rtoken.kind == 2 && transport.kind == 2 && transport.val == 6 {
		// a reserved port is a UDP port; a TCP allocation on it would share the model's (protocol-less) relay address
		// with a UDP allocation on the same number - the generator keeps the two number spaces apart
		transport = attrSpec{2, 17}
	}
	w.nextPort = port
	setters := []stun.Setter{&stun.Message{TransactionID: tidBytes(tid)}, stun.NewType(stun.MethodAllocate, stun.ClassRequest)}
	setters = append(setters, w.u32Attr(stun.AttrRequestedTransport, transport, true)...)
	setters = append(setters, w.u32Attr(stun.AttrLifetime, lifetime, false)...)
	setters = append(setters, w.u32Attr(stun.AttrRequestedAddressFamily, family, true)...)
	if dontfrag {
		setters = append(setters, proto.DontFragment{})
	}
	switch x.evenPort {
	case 1:
		setters = append(setters, proto.EvenPort{ReservePort: w.rng.Bool()})
	case 2:
		setters = append(setters, rawAttr(stun.AttrEvenPort, []byte{0x80, 0}))
	}
	rt := "AAbsent"
	switch x.rtoken.kind {
	case 1:
		setters = append(setters, rawAttr(stun.AttrReservationToken, []byte{1, 2, 3, 4}))
		rt = "ABadSize"
	case 2:
		tok := "ZZZZZZZZ"
		if x.rtoken.val >= 1 && x.rtoken.val <= len(w.tokens) {
			tok = w.tokens[x.rtoken.val-1]
		}
		setters = append(setters, proto.ReservationToken([]byte(tok)))
		rt = fmt.Sprintf("(APresent %d)", x.rtoken.val)
		// the generator is asked for the reserved port and hands it out if it is free
		if q, ok := w.tokenPort[x.rtoken.val]; ok {
			rip := relayIP4
			if w.cfg.listenerV6 && !w.cfg.strict {
				rip = relayIP6 // the family attribute cannot accompany a token: the default family applies
			}
			k := (&net.UDPAddr{IP: rip, Port: q + 1}).String()
			if w.net.Lookup(k) == nil && w.net.LookupListener(k) == nil {
				port = q + 1
			} else {
				port = 0
			}
		}
	}
	if unknown {
		setters = append(setters, rawAttr(stun.AttrType(0x7F01), []byte{1, 2, 3, 4}))
	}
	w.buildAndSend(w.clients[ci], c, setters)
	rp := "None"
	if port != 0 {
		rp = fmt.Sprintf("(Some %d)", port)
	}
	credTerm := w.credCoq(c) // before the reply is decoded: a challenge in the reply replaces the harness's nonce
	acts := w.settleWith(func(acts []string) string {
		minted := 0
		for _, a := range acts {
			if i := strings.Index(a, "SToken "); i >= 0 && strings.HasPrefix(a, "Success") {
				fmt.Sscanf(a[i+len("SToken "):], "%d", &minted)
			}
		}
		if minted != 0 && x.evenPort == 1 {
			if w.tokenPort == nil {
				w.tokenPort = map[int]int{}
			}
			if _, seen := w.tokenPort[minted]; !seen {
				w.tokenPort[minted] = port
			}
		}
		return fmt.Sprintf("EReq %s %d %s (RqAllocate %s %s %s %s %s %s %s %d) %s", coqNetAddr(w.clients[ci]), tid, credTerm,
			transport.coq(), lifetime.coq(), family.coq(), verifsim.CoqBool(dontfrag), rp, verifsim.CoqBool(x.evenPort == 1), rt, minted,
			verifsim.CoqBool(unknown))
	})
	w.nextPort = 0
	w.noteSuccess(acts, lifetime)
	w.stats["allocate"]++
	if x.evenPort == 1 {
		w.stats["allocate-evenport"]++
	}
	if x.rtoken.kind != 0 {
		w.stats["allocate-rtoken"]++
	}
}

func (w *relayWorld) noteSuccess(acts []string, _ attrSpec) {
	for _, a := range acts {
		if strings.HasPrefix(a, "Success") {
			w.stats["success"]++
			now := w.nowNs()
			at, pt, ct := w.cfg.allocLifetime, w.cfg.permTimeout, w.cfg.chanTimeout
			if at == 0 {
				at = 10 * time.Minute
			}
			if pt == 0 {
				pt = 5 * time.Minute
			}
			if ct == 0 {
				ct = 10 * time.Minute
			}
			if i := strings.Index(a, "SLifetime "); i >= 0 {
				var secs int64
				fmt.Sscanf(a[i+len("SLifetime "):], "%d", &secs)
				w.deadlines = append(w.deadlines, now+time.Duration(secs)*time.Second)
			}
			w.deadlines = append(w.deadlines, now+at, now+pt, now+ct)
			if len(w.deadlines) > 24 {
				w.deadlines = w.deadlines[len(w.deadlines)-24:]
			}
		}
	}
}

func (w *relayWorld) evRefresh(ci int, tid int, c credSpec, lifetime, family attrSpec) {
	setters := []stun.Setter{&stun.Message{TransactionID: tidBytes(tid)}, stun.NewType(stun.MethodRefresh, stun.ClassRequest)}
	setters = append(setters, w.u32Attr(stun.AttrLifetime, lifetime, false)...)
	setters = append(setters, w.u32Attr(stun.AttrRequestedAddressFamily, family, true)...)
	w.buildAndSend(w.clients[ci], c, setters)
	ev := fmt.Sprintf("EReq %s %d %s (RqRefresh %s %s) false", coqNetAddr(w.clients[ci]), tid, w.credCoq(c), lifetime.coq(), family.coq())
	w.noteSuccess(w.settle(ev), lifetime)
	w.stats["refresh"]++
}

func (w *relayWorld) evCreatePerm(ci int, tid int, c credSpec, peers []peerSpec) {
	setters := []stun.Setter{&stun.Message{TransactionID: tidBytes(tid)}, stun.NewType(stun.MethodCreatePermission, stun.ClassRequest)}
	var ps []string
	for _, p := range peers {
		setters = append(setters, p.setter())
		ps = append(ps, p.coq())
	}
	w.buildAndSend(w.clients[ci], c, setters)
	ev := fmt.Sprintf("EReq %s %d %s (RqCreatePerm [%s]) false", coqNetAddr(w.clients[ci]), tid, w.credCoq(c), strings.Join(ps, "; "))
	w.noteSuccess(w.settle(ev), attrSpec{})
	w.stats["createperm"]++
}

func (w *relayWorld) evChannelBind(ci int, tid int, c credSpec, num attrSpec, peer *peerSpec) {
	setters := []stun.Setter{&stun.Message{TransactionID: tidBytes(tid)}, stun.NewType(stun.MethodChannelBind, stun.ClassRequest)}
	switch num.kind {
	case 1:
		setters = append(setters, rawAttr(stun.AttrChannelNumber, []byte{0x40, 0}))
	case 2:
		setters = append(setters, proto.ChannelNumber(num.val))
	}
	pc := "None"
	if peer != nil {
		setters = append(setters, peer.setter())
		pc = "(Some " + peer.coq() + ")"
	}
	w.buildAndSend(w.clients[ci], c, setters)
	ev := fmt.Sprintf("EReq %s %d %s (RqChannelBind %s %s) false", coqNetAddr(w.clients[ci]), tid, w.credCoq(c), num.coq(), pc)
	w.noteSuccess(w.settle(ev), attrSpec{})
	w.stats["channelbind"]++
}

func (w *relayWorld) evBinding(ci int, tid int) {
	m, err := stun.Build(&stun.Message{TransactionID: tidBytes(tid)}, stun.BindingRequest)
	if err != nil {
		w.t.Fatal(err)
	}
	w.sendToServer(w.clients[ci], m.Raw)
	w.settle(fmt.Sprintf("EReq %s %d (Build_cred None true NonceAbsent None None) RqBinding false", coqNetAddr(w.clients[ci]), tid))
	w.stats["binding"]++
}

func (w *relayWorld) payload() ([]byte, string) {
	var plen int
	switch w.rng.Intn(10) {
	case 0, 1, 2, 3, 4:
		plen = w.rng.Intn(12)
	case 5:
		plen = 32 + w.rng.Intn(200)
	case 7, 6:
		plen = verifsim.Pick(w.rng, []int{1500, 1543, 1544, 1545, 1560, 1564, 1568, 1572, 1590, 1596, 1599, 1600, 1601, 1604, 2000})
	case 8:
		plen = verifsim.Pick(w.rng, []int{3, 4, 5, 7, 8, 9, 15, 16, 17})
	default:
		plen = w.rng.Intn(64)
	}
	seed := w.rng.Intn(256)
	d := verifsim.Pat(plen, seed)
	// content that looks like protocol headers
	if plen >= 8 && w.rng.Chance(25) {
		copy(d, verifsim.Pick(w.rng, [][]byte{{0x21, 0x12, 0xA4, 0x42}, {0x00, 0x01, 0x00, 0x00, 0x21, 0x12, 0xA4, 0x42}, {0x40, 0x00, 0x00, 0x04}}))
		w.lastPlen, w.lastSeed = 0, 0
		return d, verifsim.CoqBytes(d)
	}
	w.lastPlen, w.lastSeed = plen, seed
	return d, coqData(d, plen, seed)
}

func (w *relayWorld) evSend(ci int, peer *peerSpec, withData bool) {
	setters := []stun.Setter{stun.TransactionID, stun.NewType(stun.MethodSend, stun.ClassIndication)}
	pc, dc := "None", "None"
	if peer != nil {
		setters = append(setters, peer.setter())
		pc = "(Some " + peer.coq() + ")"
	}
	if withData {
		d, term := w.payload()
		setters = append(setters, proto.Data(d))
		dc = "(Some " + term + ")"
	}
	m, err := stun.Build(setters...)
	if err != nil {
		w.t.Fatal(err)
	}
	w.sendToServer(w.clients[ci], m.Raw)
	w.settle(fmt.Sprintf("ESend %s %s %s", coqNetAddr(w.clients[ci]), pc, dc))
	w.stats["send"]++
}

func (w *relayWorld) evChanData(ci int, num int) {
	d, term := w.payload()
	cd := proto.ChannelData{Number: proto.ChannelNumber(num), Data: d}
	cd.Encode()
	w.sendToServer(w.clients[ci], cd.Raw)
	w.settle(fmt.Sprintf("EChanData %s %d %s", coqNetAddr(w.clients[ci]), num, term))
	w.stats["chandata"]++
}

func (w *relayWorld) evPeer(relayPort int, v6 bool, from *net.UDPAddr) {
	rip := relayIP4
	if v6 {
		rip = relayIP6
	}
	relay := &net.UDPAddr{IP: rip, Port: relayPort}
	d, term := w.payload()
	if c := w.net.Lookup(relay.String()); c != nil {
		c.Inject(&net.UDPAddr{IP: from.IP, Port: from.Port}, d)
	}
	w.settle(fmt.Sprintf("EPeer %s %s %s", coqNetAddr(relay), coqNetAddr(from), term))
	w.stats["peer"]++
}

func (w *relayWorld) evRelayErr(relayPort int, v6 bool) {
	rip := relayIP4
	if v6 {
		rip = relayIP6
	}
	relay := &net.UDPAddr{IP: rip, Port: relayPort}
	if c := w.net.Lookup(relay.String()); c != nil {
		c.InjectErr(fmt.Errorf("sim: injected relay read error"))
	} else if l := w.net.LookupListener(relay.String()); l != nil {
		l.Inject(nil)
	}
	w.settle(fmt.Sprintf("ERelayErr %s", coqNetAddr(relay)))
	w.stats["relayerr"]++
}

// evCtlClose: the client's control connection (stream listeners) ends; the server deletes the allocation of its 5-tuple.
// A later message from this client opens a new connection from the same address.
func (w *relayWorld) evCtlClose(ci int) bool {
	k := w.clients[ci].String()
	st, ok := w.streams[k]
	if !ok {
		return false
	}
	_ = st.mine.Close()
	delete(w.streams, k)
	w.closedStreams = append(w.closedStreams, st)
	w.settle(fmt.Sprintf("ECtlClose %s", coqNetAddr(w.clients[ci])))
	w.stats["ctlclose"]++
	return true
}

// evSrvClose: Server.Close. Every allocation ends; nothing may remain. The history ends here.
func (w *relayWorld) evSrvClose() {
	_ = w.srv.Close()
	w.srvClosed = true
	w.settle("ESrvClose")
	w.dead = true
	w.stats["srvclose"]++
}

// afterClose sends a few more messages of every kind to the closed server (over the control connections that were
// open when it was closed, from new clients, and from peers to the old relayed addresses): nothing may happen.
func (w *relayWorld) afterClose(b relayBias, ports []int) {
	for i, n := 0, 2+w.rng.Intn(4); i < n; i++ {
		ci := w.rng.Intn(len(w.clients))
		switch w.rng.Intn(6) {
		case 0:
			w.evBinding(ci, w.newTid())
		case 1:
			w.evAllocateX(ci, w.newTid(), w.genCred(b, ci), attrSpec{2, 17}, attrSpec{}, attrSpec{}, false, verifsim.Pick(w.rng, ports), false, allocExtra{})
		case 2:
			w.evRefresh(ci, w.newTid(), w.genCred(b, ci), attrSpec{}, attrSpec{})
		case 3:
			p := w.genPeer()
			w.evSend(ci, &p, true)
		case 4:
			w.evPeer(verifsim.Pick(w.rng, ports), false, verifsim.Pick(w.rng, w.peers))
		case 5:
			w.evTick(w.genTick())
		}
		w.stats["after-close"]++
	}
}

func (w *relayWorld) evTick(d time.Duration) {
	time.Sleep(d)
	w.settle(fmt.Sprintf("ETick %d", int64(d)))
	w.stats["tick"]++
}

// ---------------------------------------------------------------------------
// history generation

type relayBias struct {
	credDefect   int // percent of requests with a credential defect
	extremeChan  int // percent of ChannelBind with boundary numbers
	weights      map[string]int
	longTicks    bool
	bigPayloads  bool
}

func relayBiasFor(prop string) relayBias {
	b := relayBias{credDefect: 8, extremeChan: 15, weights: map[string]int{
		"allocate": 10, "refresh": 8, "createperm": 14, "channelbind": 14, "send": 12, "chandata": 12, "peer": 16, "tick": 14, "binding": 2, "relayerr": 1, "ctlclose": 2}}
	switch prop {
	case "C03":
		b.credDefect = 55
		b.longTicks = true
	case "C06":
		b.weights["refresh"] = 22
		b.weights["allocate"] = 16
		b.weights["tick"] = 22
	case "C07":
		b.weights["tick"] = 26
	case "C08":
		b.extremeChan = 45
		b.weights["channelbind"] = 30
	case "C19":
		b.weights["allocate"] = 22
		b.weights["binding"] = 8
	case "C15":
		b.weights["relayerr"] = 5
		b.weights["refresh"] = 12
		b.weights["ctlclose"] = 6
	case "C04":
		b.weights["ctlclose"] = 5
	case "C05":
		b.bigPayloads = true
		b.weights["send"] = 18
		b.weights["chandata"] = 18
		b.weights["peer"] = 24
	}
	return b
}

func pickWeighted(rng *verifsim.RNG, w map[string]int) string {
	keys := verifsim.SortedKeys(w)
	total := 0
	for _, k := range keys {
		total += w[k]
	}
	x := rng.Intn(total)
	for _, k := range keys {
		if x < w[k] {
			return k
		}
		x -= w[k]
	}
	return keys[0]
}

func (w *relayWorld) genCred(b relayBias, ci int) credSpec {
	// each client normally uses one user: clients 0,1 -> user1, client 2 -> user2, client 3 -> user1
	u := []int{1, 1, 2, 1}[ci]
	if w.rng.Chance(10) {
		u = 1 + w.rng.Intn(3)
	}
	c := credSpec{mi: u*10 + 1, intact: true, nonce: 1, user: u, realm: 1}
	if w.rng.Chance(b.credDefect) {
		switch w.rng.Intn(11) {
		case 0:
			c.mi = 0
		case 1:
			c.mi = 99
		case 2:
			c.intact = false
		case 3:
			c.user = 9
		case 4: // another user's valid credentials
			o := 1 + w.rng.Intn(3)
			c.user, c.mi = o, o*10+1
		case 5:
			c.user = 0
		case 6:
			c.realm = 0
		case 7:
			c.nonce = 0
		case 8:
			c.nonce = 2
		case 9:
			c.realm = 2
		case 10: // key of another user with this username
			c.mi = (1+w.rng.Intn(3))*10 + 1
		}
		w.stats["cred-defect"]++
	}
	return c
}

func (w *relayWorld) genPeer() peerSpec {
	if w.rng.Chance(4) {
		return peerSpec{bad: true}
	}
	return peerSpec{addr: verifsim.Pick(w.rng, w.peers)}
}

func (w *relayWorld) genChanNum(b relayBias) int {
	if w.rng.Chance(b.extremeChan) {
		return verifsim.Pick(w.rng, []int{0, 1, 0x3FFF, 0x4000, 0x4001, 0x7FFE, 0x7FFF, 0x8000, 0xFFFF})
	}
	return 0x4000 + w.rng.Intn(4)
}

func (w *relayWorld) portFree(p int) bool {
	for _, ip := range []net.IP{relayIP4, relayIP6} {
		k := (&net.UDPAddr{IP: ip, Port: p}).String()
		if w.net.Lookup(k) != nil || w.net.LookupListener(k) != nil {
			return false
		}
	}
	return true
}

func (w *relayWorld) bindingsOf(ci int) []*allocation.ChannelBind {
	am := w.srv.allocationManagers[0]
	a := am.GetAllocation(w.ft(w.clients[ci]))
	if a == nil {
		return nil
	}
	return a.ListChannelBindings()
}

// probeBurst exercises every authorisation of one client in both directions: the peers it has (or had)
// permissions and bindings for, the same IPs on another port, and every channel number in the pool.
func (w *relayWorld) probeBurst(ci int) {
	am := w.srv.allocationManagers[0]
	a := am.GetAllocation(w.ft(w.clients[ci]))
	if a == nil {
		return
	}
	relay, _ := a.RelayAddr.(*net.UDPAddr)
	k := 0
	for _, p := range w.peers {
		if w.rng.Chance(55) {
			continue
		}
		k++
		pp := peerSpec{addr: p}
		w.evSend(ci, &pp, true)
		if relay != nil {
			w.evPeer(relay.Port, relay.IP.To4() == nil, p)
		}
	}
	for n := 0x4000; n < 0x4004; n++ {
		if w.rng.Chance(50) {
			w.evChanData(ci, n)
		}
	}
}

func (w *relayWorld) timeouts() (at, pt, ct time.Duration) {
	at, pt, ct = w.cfg.allocLifetime, w.cfg.permTimeout, w.cfg.chanTimeout
	if at == 0 {
		at = 10 * time.Minute
	}
	if pt == 0 {
		pt = 5 * time.Minute
	}
	if ct == 0 {
		ct = 10 * time.Minute
	}
	return
}

// template plays one of the named scenarios of DESIGN.md Appendix C before the random part of a history.
func (w *relayWorld) template(k int, ports []int) {
	rng := w.rng
	ok := func(ci int) credSpec { u := []int{1, 1, 2, 1}[ci]; return credSpec{mi: u*10 + 1, intact: true, nonce: 1, user: u, realm: 1} }
	eps := func() time.Duration { return time.Duration(1001+2*rng.Intn(300000)) * time.Nanosecond }
	at, pt, ct := w.timeouts()
	ci := rng.Intn(3)
	p := peerSpec{addr: w.peers[rng.Intn(3)]}
	num := 0x4000 + rng.Intn(4)
	alloc := func(c int, lt attrSpec, port int) {
		w.evAllocate(c, w.newTid(), ok(c), attrSpec{2, 17}, lt, attrSpec{}, false, port, false)
	}
	w.stats[fmt.Sprintf("template-%d", k)]++
	switch k {
	case 0: // ChannelBind refresh: which timeout does the permission get?
		alloc(ci, attrSpec{}, ports[0])
		w.evChannelBind(ci, w.newTid(), ok(ci), attrSpec{2, num}, &p)
		w.evTick(time.Duration(1+rng.Intn(900)) * time.Millisecond)
		w.evChannelBind(ci, w.newTid(), ok(ci), attrSpec{2, num}, &p)
		lo, hi := pt, ct
		if hi < lo {
			lo, hi = hi, lo
		}
		if lo+eps() < at {
			w.evTick(lo + eps())
			w.probeBurst(ci)
		}
	case 9: // a permission made by CreatePermission, then the FIRST ChannelBind to that peer: the bind restarts the permission's timeout
		alloc(ci, attrSpec{}, ports[0])
		w.evCreatePerm(ci, w.newTid(), ok(ci), []peerSpec{p})
		d := pt/3 + time.Duration(rng.Intn(int(pt/3)))
		w.evTick(d)
		w.evChannelBind(ci, w.newTid(), ok(ci), attrSpec{2, num}, &p)
		// between "one timeout after the CreatePermission" and "one timeout after the ChannelBind"
		if pt+eps() < ct+d && pt < at {
			w.evTick(pt - d + eps())
			pp := p
			w.evSend(ci, &pp, true)
			w.probeBurst(ci)
			if d > 3*eps() {
				w.evTick(d - 3*eps())
				w.evSend(ci, &pp, true)
				w.probeBurst(ci)
			}
			w.evTick(4 * eps())
			w.evSend(ci, &pp, true)
		}
	case 1: // CreatePermission refresh restarts the full timeout
		alloc(ci, attrSpec{}, ports[0])
		w.evCreatePerm(ci, w.newTid(), ok(ci), []peerSpec{p})
		w.evTick(pt / 2)
		w.evCreatePerm(ci, w.newTid(), ok(ci), []peerSpec{p})
		w.evTick(pt/2 + eps())
		w.probeBurst(ci)
		w.evTick(pt/2 - 2*eps())
		w.probeBurst(ci)
		w.evTick(3 * eps())
		w.probeBurst(ci)
	case 2: // Allocate with an explicit LIFETIME: timer armed == reported
		l := verifsim.Pick(rng, []int{1, 2, 3, 5, 7, 30, 599, 3599})
		alloc(ci, attrSpec{2, l}, ports[1])
		w.evCreatePerm(ci, w.newTid(), ok(ci), []peerSpec{p})
		w.evTick(time.Duration(l)*time.Second - eps())
		w.probeBurst(ci)
		w.evTick(2 * eps())
		w.probeBurst(ci)
		w.evRefresh(ci, w.newTid(), ok(ci), attrSpec{}, attrSpec{})
	case 3: // Refresh re-arms to the reported value
		alloc(ci, attrSpec{}, ports[2])
		w.evTick(time.Duration(1+rng.Intn(2000)) * time.Millisecond)
		l := verifsim.Pick(rng, []int{1, 2, 3, 5, 7, 30, 3599, 3600})
		w.evRefresh(ci, w.newTid(), ok(ci), attrSpec{2, l}, attrSpec{})
		d := time.Duration(l) * time.Second
		if l >= 3600 {
			d = at
		}
		w.evTick(d - eps())
		w.evBinding(ci, w.newTid())
		w.evSend(ci, &p, true)
		w.evTick(2 * eps())
		w.evSend(ci, &p, true)
		w.evRefresh(ci, w.newTid(), ok(ci), attrSpec{2, 5}, attrSpec{})
	case 4: // two clients reusing each other's numbers, peers and ids
		c2 := (ci + 1) % 3
		alloc(ci, attrSpec{}, ports[0])
		alloc(c2, attrSpec{}, ports[1])
		q := peerSpec{addr: w.peers[(rng.Intn(3)+1)%3]}
		w.evChannelBind(ci, w.newTid(), ok(ci), attrSpec{2, num}, &p)
		w.evChannelBind(c2, w.newTid(), ok(c2), attrSpec{2, num}, &q)
		w.evCreatePerm(c2, w.newTid(), ok(c2), []peerSpec{p})
		w.probeBurst(ci)
		w.probeBurst(c2)
		w.evRefresh(ci, w.newTid(), ok(c2), attrSpec{2, 0}, attrSpec{}) // other user's credentials on this 5-tuple
		w.evRefresh(ci, w.newTid(), ok(ci), attrSpec{2, 0}, attrSpec{})
		w.probeBurst(c2)
	case 5: // payload sizes around the relay buffer and the padding boundaries, both directions
		alloc(ci, attrSpec{}, ports[3])
		w.evChannelBind(ci, w.newTid(), ok(ci), attrSpec{2, num}, &p)
		q := peerSpec{addr: w.peers[4]}
		w.evCreatePerm(ci, w.newTid(), ok(ci), []peerSpec{q})
		for range 6 {
			w.evPeer(ports[3], false, verifsim.Pick(rng, []*net.UDPAddr{p.addr, q.addr}))
			w.evChanData(ci, num)
			w.evSend(ci, &q, true)
		}
	case 7: // an allocation owning several channels and permissions ends, by each cause
		alloc(ci, attrSpec{}, ports[2])
		nb := 3 + rng.Intn(2)
		for j := 0; j < nb; j++ {
			pj := peerSpec{addr: w.peers[(j*2)%len(w.peers)]}
			if j == 1 {
				pj = peerSpec{addr: w.peers[1]}
			}
			w.evChannelBind(ci, w.newTid(), ok(ci), attrSpec{2, 0x4000 + j}, &pj)
		}
		w.evCreatePerm(ci, w.newTid(), ok(ci), []peerSpec{{addr: w.peers[4]}, {addr: w.peers[2]}})
		switch rng.Intn(4) {
		case 0:
			w.evRefresh(ci, w.newTid(), ok(ci), attrSpec{2, 0}, attrSpec{})
		case 1:
			w.evTick(at + eps())
		case 2:
			v6 := w.cfg.listenerV6 && !w.cfg.strict
			w.evRelayErr(ports[2], v6)
		default:
			w.evTick(verifsim.Pick(rng, []time.Duration{pt + eps(), ct + eps()}))
			w.evRefresh(ci, w.newTid(), ok(ci), attrSpec{2, 0}, attrSpec{})
		}
		w.evTick(ct + pt)
	case 8: // EVEN-PORT, its reservation token, retransmission of the success, use and expiry of the token
		tid := w.newTid()
		c2, c3 := (ci+1)%3, (ci+2)%3
		ev := allocExtra{evenPort: 1}
		w.evAllocateX(ci, tid, ok(ci), attrSpec{2, 17}, attrSpec{}, attrSpec{}, false, ports[0], false, ev)
		w.evAllocateX(ci, tid, ok(ci), attrSpec{2, 17}, attrSpec{}, attrSpec{}, false, ports[2], false, ev) // retransmission
		w.evAllocateX(ci, w.newTid(), ok(ci), attrSpec{2, 17}, attrSpec{}, attrSpec{}, false, ports[2], false, ev)
		tok := attrSpec{2, len(w.tokens)}
		if len(w.tokens) == 0 {
			tok = attrSpec{2, 9999}
		}
		switch rng.Intn(5) {
		case 0: // token together with EVEN-PORT, and with a requested family
			w.evAllocateX(c2, w.newTid(), ok(c2), attrSpec{2, 17}, attrSpec{}, attrSpec{}, false, ports[2], false, allocExtra{evenPort: 1, rtoken: tok})
			w.evAllocateX(c2, w.newTid(), ok(c2), attrSpec{2, 17}, attrSpec{}, attrSpec{2, 1}, false, ports[2], false, allocExtra{rtoken: tok})
		case 1: // the token has expired
			w.evTick(30*time.Second + eps())
			w.evAllocateX(c2, w.newTid(), ok(c2), attrSpec{2, 17}, attrSpec{}, attrSpec{}, false, ports[2], false, allocExtra{rtoken: tok})
		case 2: // just before it expires
			w.evTick(30*time.Second - eps())
		case 3: // an unknown token, a wrong-sized one
			w.evAllocateX(c2, w.newTid(), ok(c2), attrSpec{2, 17}, attrSpec{}, attrSpec{}, false, ports[2], false, allocExtra{rtoken: attrSpec{2, 9999}})
			w.evAllocateX(c2, w.newTid(), ok(c2), attrSpec{2, 17}, attrSpec{}, attrSpec{}, false, ports[2], false, allocExtra{rtoken: attrSpec{1, 0}})
			w.evRefresh(c2, w.newTid(), ok(c2), attrSpec{2, 0}, attrSpec{})
		}
		w.evAllocateX(c2, w.newTid(), ok(c2), attrSpec{2, 17}, attrSpec{}, attrSpec{}, false, ports[3], false, allocExtra{rtoken: tok})
		w.evAllocateX(c3, w.newTid(), ok(c3), attrSpec{2, 17}, attrSpec{}, attrSpec{}, false, ports[3], false, allocExtra{rtoken: tok}) // reserved port taken
		w.probeBurst(c2)
		w.evAllocateX(c3, w.newTid(), ok(c3), attrSpec{2, 17}, attrSpec{}, attrSpec{}, false, ports[3], false, allocExtra{evenPort: 1}) // odd port offered
	case 10: // a channel expires while its peer keeps sending and the permission stays; the number then goes to another peer
		alloc(ci, attrSpec{}, ports[1])
		pi := rng.Intn(3)
		p1 := peerSpec{addr: w.peers[pi]}
		q := peerSpec{addr: w.peers[(pi+1)%3]}
		w.evChannelBind(ci, w.newTid(), ok(ci), attrSpec{2, num}, &p1)
		w.evPeer(ports[1], false, p1.addr)
		// across the channel's expiry, keeping the allocation and the permission alive
		for left := ct + eps(); left > 0; {
			d := pt / 2
			if at/2 < d {
				d = at / 2
			}
			if left < d {
				d = left
			}
			w.evTick(d)
			left -= d
			w.evRefresh(ci, w.newTid(), ok(ci), attrSpec{}, attrSpec{})
			w.evCreatePerm(ci, w.newTid(), ok(ci), []peerSpec{p1})
			if rng.Intn(3) == 0 {
				w.evPeer(ports[1], false, p1.addr)
			}
		}
		w.evPeer(ports[1], false, p1.addr)
		if rng.Bool() {
			w.evChannelBind(ci, w.newTid(), ok(ci), attrSpec{2, num}, &q)
			w.evPeer(ports[1], false, p1.addr)
			w.evPeer(ports[1], false, q.addr)
			w.evChanData(ci, num)
		}
	case 11: // a ChannelBind that is rejected (number taken / peer already bound) must authorise nothing and refresh nothing
		alloc(ci, attrSpec{}, ports[0])
		p1 := peerSpec{addr: w.peers[verifsim.Pick(rng, []int{0, 2})]}
		q := peerSpec{addr: w.peers[verifsim.Pick(rng, []int{1, 4})]} // another IP, never given a permission
		w.evChannelBind(ci, w.newTid(), ok(ci), attrSpec{2, num}, &p1)
		d := pt/4 + time.Duration(rng.Intn(int(pt/4)))
		w.evTick(d)
		w.evChannelBind(ci, w.newTid(), ok(ci), attrSpec{2, num}, &q) // 400: the number belongs to p1
		w.evSend(ci, &q, true)
		w.evPeer(ports[0], false, q.addr)
		w.evChannelBind(ci, w.newTid(), ok(ci), attrSpec{2, num + 1}, &p1) // 400: p1 is on another number
		// p1's permission dates from the first ChannelBind, not from the rejected one
		if pt+eps() < ct && pt+eps() < at {
			w.evTick(pt - d - eps())
			w.evSend(ci, &p1, true)
			w.evPeer(ports[0], false, p1.addr)
			w.evTick(2 * eps())
			w.evSend(ci, &p1, true)
			w.evPeer(ports[0], false, p1.addr)
			w.evChanData(ci, num)
		}
	case 12: // an IPv6 allocation: permissions and bindings are per IPv6 host (and the policy is asked about the real address)
		w.evAllocate(ci, w.newTid(), ok(ci), attrSpec{2, 17}, attrSpec{}, attrSpec{2, 2}, false, ports[3], false)
		a6 := peerSpec{addr: w.peers[3]}
		b6 := peerSpec{addr: w.peers[5]}
		a6b := peerSpec{addr: w.peers[6]}
		first, other := a6, b6
		if rng.Bool() {
			first, other = b6, a6
		}
		if rng.Bool() {
			w.evCreatePerm(ci, w.newTid(), ok(ci), []peerSpec{first})
		} else {
			w.evChannelBind(ci, w.newTid(), ok(ci), attrSpec{2, num}, &first)
		}
		for _, q := range []peerSpec{first, other, a6b} {
			qq := q
			w.evSend(ci, &qq, true)
			w.evPeer(ports[3], true, q.addr)
		}
		w.evChanData(ci, num)
		if rng.Bool() {
			w.evCreatePerm(ci, w.newTid(), ok(ci), []peerSpec{other})
			w.evPeer(ports[3], true, other.addr)
			oo := other
			w.evSend(ci, &oo, true)
		}
		w.evPeer(ports[3], true, w.peers[0]) // an IPv4 host at an IPv6 relayed address
	case 6: // retransmitted and conflicting Allocate, expiry, re-allocation on the same relay port
		l := verifsim.Pick(rng, []int{2, 3, 5})
		tid := w.newTid()
		w.evAllocate(ci, tid, ok(ci), attrSpec{2, 17}, attrSpec{2, l}, attrSpec{}, false, ports[0], false)
		w.evChannelBind(ci, w.newTid(), ok(ci), attrSpec{2, num}, &p)
		w.evAllocate(ci, tid, ok(ci), attrSpec{2, 17}, attrSpec{2, l}, attrSpec{}, false, ports[1], false)
		w.evAllocate(ci, w.newTid(), ok(ci), attrSpec{2, 17}, attrSpec{2, l}, attrSpec{}, false, ports[1], false)
		w.evTick(time.Duration(l)*time.Second + eps())
		c2 := (ci + 1) % 3
		alloc(c2, attrSpec{}, ports[0]) // same relay port, other client: must start empty
		w.probeBurst(c2)
		w.evPeer(ports[0], false, p.addr)
	}
}

func (w *relayWorld) isLive(ci int) bool {
	am := w.srv.allocationManagers[0]
	return am.GetAllocation(w.ft(w.clients[ci])) != nil
}

func (w *relayWorld) liveClients() (out []int) {
	for i := range w.clients {
		if w.isLive(i) {
			out = append(out, i)
		}
	}
	return
}

func (w *relayWorld) liveRelays() (out []*net.UDPAddr) {
	am := w.srv.allocationManagers[0]
	for _, c := range w.clients {
		if a := am.GetAllocation(w.ft(c)); a != nil {
			if u, ok := a.RelayAddr.(*net.UDPAddr); ok {
				out = append(out, u)
			}
		}
	}
	return
}

func (w *relayWorld) newTid() int { w.tidNext++; return w.tidNext }

func (w *relayWorld) genTick() time.Duration {
	now := w.nowNs()
	if len(w.deadlines) > 0 && w.rng.Chance(55) {
		d := verifsim.Pick(w.rng, w.deadlines)
		off := time.Duration(1001+2*w.rng.Intn(400000)) * time.Nanosecond
		var target time.Duration
		if w.rng.Bool() {
			target = d - off
		} else {
			target = d + off
		}
		if target > now {
			return target - now
		}
	}
	return verifsim.Pick(w.rng, []time.Duration{time.Millisecond, 500 * time.Millisecond, time.Second, 2 * time.Second, 3 * time.Second,
		time.Minute, 4 * time.Minute, 6 * time.Minute, 11 * time.Minute})
}

func runRelayHistory(t *testing.T, rng *verifsim.RNG, prop string, nEvents int) (term string, nontrivial bool, stats map[string]int) {
	b := relayBiasFor(prop)
	cfg := relayCfg{hasAuth: true}
	switch rng.Intn(5) {
	case 1:
		cfg.allocLifetime, cfg.permTimeout, cfg.chanTimeout = 5*time.Second, 2*time.Second, 3*time.Second
	case 2:
		cfg.allocLifetime, cfg.permTimeout, cfg.chanTimeout = 4*time.Second, 3*time.Second, 2*time.Second
	case 3:
		cfg.allocLifetime = 2 * time.Hour
	}
	cfg.policy = rng.Intn(4)
	if prop == "C01" && rng.Chance(25) {
		cfg.policy = 3 // the deny-list entry for the IPv6 host
	}
	if rng.Chance(15) {
		cfg.quota = 1
	}
	if rng.Chance(12) {
		cfg.strict = true
	}
	if rng.Chance(10) {
		cfg.listenerV6 = true
	}
	if prop == "C03" && rng.Chance(10) {
		cfg.hasAuth = false
	}
	if prop == "C05" || rng.Chance(15) {
		cfg.mtu = verifsim.Pick(rng, []int{0, 512, 1600, 4096, 70000})
	}
	streamPct := 8
	switch prop {
	case "C05":
		streamPct = 35
	case "C15", "C04":
		streamPct = 30 // control connections that close are one of the teardown causes
	}
	if rng.Chance(streamPct) {
		cfg.stream = true // TCP/TLS framing between client and server, requests arriving in segments
	}
	synctest.Test(t, func(t *testing.T) {
		w := newRelayWorld(t, rng, cfg)
		// get off the deadline grid: events happen at odd-nanosecond offsets
		w.evTick(time.Duration(1001+2*rng.Intn(1000)) * time.Nanosecond)
		w.freshNonce()
		ports := []int{49152, 49153, 49154, 49155}
		if prop == "C15" && rng.Chance(20) {
			w.template(7, ports) // an allocation owning several channels and permissions ends, by each cause
		} else if prop == "C08" && rng.Chance(15) {
			w.template(10, ports) // a channel number changes hands while the old peer keeps sending
		} else if (prop == "C01" || prop == "C02" || prop == "C05") && rng.Chance(12) {
			w.template(12, ports) // IPv6 allocation with IPv6 peers
		} else if rng.Chance(40) {
			w.template(rng.Intn(13), ports)
		}
		for i := 0; i < nEvents; i++ {
			ci := rng.Intn(len(w.clients))
			if rng.Chance(60) {
				ci = rng.Intn(2 + rng.Intn(2)) // concentrate on a few clients
			}
			live := w.liveClients()
			kind := pickWeighted(rng, b.weights)
			if i < 1+rng.Intn(3) {
				kind = "allocate" // start by allocating
			}
			if len(live) > 0 && rng.Chance(85) && kind != "allocate" {
				ci = verifsim.Pick(rng, live)
			}
			if kind == "allocate" && rng.Chance(60) {
				for try := 0; try < 4 && w.isLive(ci); try++ {
					ci = rng.Intn(len(w.clients))
				}
			}
			if w.curMinute()-w.nonceMin > 50 && !(b.longTicks && rng.Chance(40)) {
				w.freshNonce()
			}
			switch kind {
			case "allocate":
				tid := w.newTid()
				if last, ok := w.lastTid[w.clients[ci].String()]; ok && rng.Chance(35) {
					tid = last // retransmission
				}
				w.lastTid[w.clients[ci].String()] = tid
				tr := attrSpec{2, 17}
				switch rng.Intn(40) {
				case 0:
					tr = attrSpec{0, 0}
				case 1:
					tr = attrSpec{1, 0}
				case 2:
					tr = attrSpec{2, verifsim.Pick(rng, []int{0, 1, 16, 18, 255})}
				case 3:
					tr = attrSpec{2, 6}
				}
				lt := attrSpec{}
				if rng.Chance(40) {
					lt = attrSpec{2, verifsim.Pick(rng, []int{0, 1, 2, 3, 5, 7, 30, 599, 600, 3599, 3600, 3601, 1 << 31, 1<<32 - 1, rng.Intn(4000)})}
				} else if rng.Chance(6) {
					lt = attrSpec{1, 0}
				}
				fam := attrSpec{}
				if rng.Chance(25) {
					fam = attrSpec{2, verifsim.Pick(rng, []int{1, 1, 2, 2, 0, 3})}
				} else if rng.Chance(4) {
					fam = attrSpec{1, 0}
				}
				port := verifsim.Pick(rng, ports)
				if !w.portFree(port) {
					port = 0 // in use: the generator refuses
					for _, p := range ports {
						if w.portFree(p) {
							port = p
						}
					}
				}
				if rng.Chance(4) {
					port = 0
				}
				var x allocExtra
				if rng.Chance(14) {
					x.evenPort = 1
					if rng.Chance(8) {
						x.evenPort = 2
					}
					if port != 0 && port%2 == 1 && rng.Chance(80) && w.portFree(port-1) {
						port-- // mostly give the generator an even port to hand out
					}
				}
				if rng.Chance(12) {
					switch {
					case len(w.tokens) > 0 && rng.Chance(75):
						x.rtoken = attrSpec{2, 1 + rng.Intn(len(w.tokens))}
					case rng.Chance(70):
						x.rtoken = attrSpec{2, 9999}
					default:
						x.rtoken = attrSpec{1, 0}
					}
				}
				w.evAllocateX(ci, tid, w.genCred(b, ci), tr, lt, fam, rng.Chance(3), port, rng.Chance(3), x)
			case "refresh":
				lt := attrSpec{}
				if rng.Chance(70) {
					lt = attrSpec{2, verifsim.Pick(rng, []int{0, 0, 1, 2, 3, 5, 7, 600, 3599, 3600, 3601, 1<<32 - 1})}
				}
				fam := attrSpec{}
				if rng.Chance(15) {
					fam = attrSpec{2, verifsim.Pick(rng, []int{1, 2, 3})}
				} else if rng.Chance(3) {
					fam = attrSpec{1, 0}
				}
				w.evRefresh(ci, w.newTid(), w.genCred(b, ci), lt, fam)
			case "createperm":
				n := 1 + rng.Intn(3)
				if rng.Chance(4) {
					n = 0
				}
				var ps []peerSpec
				for range n {
					ps = append(ps, w.genPeer())
				}
				w.evCreatePerm(ci, w.newTid(), w.genCred(b, ci), ps)
			case "channelbind":
				num := attrSpec{2, w.genChanNum(b)}
				if rng.Chance(3) {
					num = attrSpec{rng.Intn(2), 0}
				}
				var peer *peerSpec
				if !rng.Chance(3) {
					p := w.genPeer()
					peer = &p
				}
				// often repeat (refresh) an existing binding of this client, or collide with one
				if cbs := w.bindingsOf(ci); len(cbs) > 0 && rng.Chance(45) {
					cb := verifsim.Pick(rng, cbs)
					u, _ := cb.Peer.(*net.UDPAddr)
					switch rng.Intn(5) {
					case 0: // same number, other peer
						num = attrSpec{2, int(cb.Number)}
					case 1: // same peer, other number
						peer = &peerSpec{addr: u}
					default:
						num, peer = attrSpec{2, int(cb.Number)}, &peerSpec{addr: u}
					}
				}
				w.evChannelBind(ci, w.newTid(), w.genCred(b, ci), num, peer)
			case "send":
				var peer *peerSpec
				if !rng.Chance(3) {
					p := w.genPeer()
					peer = &p
				}
				w.evSend(ci, peer, !rng.Chance(3))
			case "chandata":
				w.evChanData(ci, 0x4000+rng.Intn(4))
			case "peer":
				port, v6 := verifsim.Pick(rng, ports), rng.Chance(12)
				if rs := w.liveRelays(); len(rs) > 0 && rng.Chance(85) {
					r := verifsim.Pick(rng, rs)
					port, v6 = r.Port, r.IP.To4() == nil
				}
				w.evPeer(port, v6, verifsim.Pick(rng, w.peers))
			case "tick":
				w.evTick(w.genTick())
				if live := w.liveClients(); len(live) > 0 && rng.Chance(60) {
					w.probeBurst(verifsim.Pick(rng, live))
					i += 3
				}
			case "binding":
				w.evBinding(ci, w.newTid())
			case "relayerr":
				w.evRelayErr(verifsim.Pick(rng, ports), rng.Chance(12))
			case "ctlclose":
				if w.cfg.stream {
					w.evCtlClose(ci)
				}
			}
		}
		// closing the server is one more way for every allocation to end
		if (prop == "C15" && rng.Chance(70)) || (prop != "C15" && rng.Chance(20)) {
			w.evSrvClose()
			w.afterClose(b, ports)
		}
		term, nontrivial, stats = w.term(), w.nontrivial, w.stats
		for _, st := range w.streams {
			_ = st.mine.Close()
			_ = st.theirs.Close()
		}
		for _, st := range w.closedStreams {
			_ = st.theirs.Close()
		}
		_ = w.srv.Close()
		synctest.Wait()
	})
	return
}

func relayCampaign(t *testing.T, prop string) {
	rng := verifsim.NewRNG(verifsim.Seed()*31 + uint64(len(prop)) + uint64(prop[1])*7 + uint64(prop[2]))
	col := verifsim.NewCollector(prop, prop+"Check")
	col.PerFile = 25
	nh, ne := 300, 30
	if verifsim.Thorough() {
		nh, ne = 2500, 40
	}
	if v := os.Getenv("VERIF_HISTORIES"); v != "" {
		fmt.Sscanf(v, "%d", &nh)
	}
	total := map[string]int{}
	for i := 0; i < nh; i++ {
		term, nontrivial, stats := runRelayHistory(t, rng, prop, ne/2+rng.Intn(ne))
		col.Add("history", "history", nontrivial, term)
		for k, v := range stats {
			total[k] += v
		}
	}
	col.Extra["events"] = total
	if err := col.Flush(); err != nil {
		t.Fatal(err)
	}
}

func TestVerif_C01(t *testing.T) { relayCampaign(t, "C01") }
func TestVerif_C02(t *testing.T) { relayCampaign(t, "C02") }
func TestVerif_C03(t *testing.T) { relayCampaign(t, "C03") }
func TestVerif_C04(t *testing.T) { relayCampaign(t, "C04") }
func TestVerif_C05(t *testing.T) { relayCampaign(t, "C05") }
func TestVerif_C06(t *testing.T) { relayCampaign(t, "C06") }
func TestVerif_C07(t *testing.T) { relayCampaign(t, "C07") }
func TestVerif_C08(t *testing.T) { relayCampaign(t, "C08") }
func TestVerif_C15(t *testing.T) { relayCampaign(t, "C15") }
func TestVerif_C19(t *testing.T) { relayCampaign(t, "C19") }
