//go:build verif

package turn

import (
	"context"
	"fmt"
	"net"
	"strconv"
	"strings"
	"testing"

	"github.com/pion/transport/v4"
	"github.com/pion/turn/v5/internal/verifsim"
)

// c20Net is a scripted transport.Net: binding a (protocol, address, port) that is bound fails,
// port 0 gets the ephemeral port chosen by the harness.
type c20Net struct {
	transport.Net
	sim *verifsim.SimNet
	eph int
}

func (n *c20Net) hostPort(address string) (net.IP, int, error) {
	h, p, err := net.SplitHostPort(address)
	if err != nil {
		return nil, 0, err
	}
	port, err := strconv.Atoi(p)
	if err != nil {
		return nil, 0, err
	}
	if port == 0 {
		port = n.eph
	}
	return net.ParseIP(h), port, nil
}
func (n *c20Net) ListenPacket(_ string, address string) (net.PacketConn, error) {
	ip, port, err := n.hostPort(address)
	if err != nil {
		return nil, err
	}
	return n.sim.NewPacketConn(&net.UDPAddr{IP: ip, Port: port})
}
func (n *c20Net) ResolveTCPAddr(network, address string) (*net.TCPAddr, error) {
	return net.ResolveTCPAddr(network, address)
}

type c20ListenConfig struct{ n *c20Net }

func (l c20ListenConfig) Listen(_ context.Context, _ string, address string) (net.Listener, error) {
	ip, port, err := l.n.hostPort(address)
	if err != nil {
		return nil, err
	}
	return l.n.sim.NewListener(&net.TCPAddr{IP: ip, Port: port})
}
func (l c20ListenConfig) ListenPacket(_ context.Context, network, address string) (net.PacketConn, error) {
	return l.n.ListenPacket(network, address)
}
func (n *c20Net) CreateListenConfig(*net.ListenConfig) transport.ListenConfig { return c20ListenConfig{n} }

// c20Rand is a scripted randutil.MathRandomGenerator.
type c20Rand struct {
	rng    *verifsim.RNG
	counts []int
	xs     []int
}

func (r *c20Rand) Intn(n int) int {
	r.counts = append(r.counts, n)
	x := 0
	if n > 0 {
		switch r.rng.Intn(4) {
		case 0:
			x = 0
		case 1:
			x = n - 1
		default:
			x = r.rng.Intn(n)
		}
	}
	r.xs = append(r.xs, x)
	return x
}
func (r *c20Rand) Uint32() uint32                     { return uint32(r.rng.U64()) }
func (r *c20Rand) Uint64() uint64                     { return r.rng.U64() }
func (r *c20Rand) GenerateString(int, string) string { return "x" }

func c20List(xs []int) string {
	var s []string
	for _, x := range xs {
		s = append(s, strconv.Itoa(x))
	}
	return "[" + strings.Join(s, "; ") + "]"
}

func TestVerif_C20(t *testing.T) { //nolint:cyclop
	rng := verifsim.NewRNG(verifsim.Seed() + 2020)
	col := verifsim.NewCollector("C20", "C20Check")
	col.PerFile = 40
	thorough := verifsim.Thorough()
	type rangeCfg struct{ min, max int }
	ranges := []rangeCfg{{1, 1}, {1, 65535}, {65535, 65535}, {65534, 65535}, {1, 2}, {5000, 5000}, {5000, 5001}, {5000, 5003}, {49152, 65535}, {32768, 32768}}
	for range 10 {
		a, b := 1+rng.Intn(65535), 1+rng.Intn(65535)
		if a > b {
			a, b = b, a
		}
		if rng.Bool() {
			b = a + rng.Intn(4)
			if b > 65535 {
				b = 65535
			}
		}
		ranges = append(ranges, rangeCfg{a, b})
	}
	nhist := 3
	if thorough {
		nhist = 25
	}
	relayIP := net.IPv4(203, 0, 113, 7).To4()
	runHistory := func(kind string, rc rangeCfg, v6 bool, retries int) {
		sim := verifsim.NewSimNet()
		sockAddr := "10.9.0.1"
		if v6 {
			sockAddr = "fd00:9::1"
		}
		tn := &c20Net{sim: sim}
		rnd := &c20Rand{rng: rng}
		var gen RelayAddressGenerator
		coqKind := ""
		switch kind {
		case "range":
			gen = &RelayAddressGeneratorPortRange{RelayAddress: relayIP, MinPort: uint16(rc.min), MaxPort: uint16(rc.max), MaxRetries: retries, Rand: rnd, Address: sockAddr, Net: tn}
			r := retries
			if r == 0 {
				r = 10
			}
			coqKind = fmt.Sprintf("(GRange %d %d %d)", rc.min, rc.max, r)
		case "static":
			gen = &RelayAddressGeneratorStatic{RelayAddress: relayIP, Address: sockAddr, Net: tn}
			coqKind = "GStatic"
		default:
			gen = &RelayAddressGeneratorNone{Address: sockAddr, Net: tn}
			coqKind = "GNone"
		}
		if err := gen.Validate(); err != nil {
			t.Fatalf("validate: %v", err)
		}
		type live struct {
			tcp  bool
			port int
			c    interface{ Close() error }
		}
		var lives []live
		var steps []string
		nontrivial := false
		nev := 6 + rng.Intn(14)
		ephNext := 40000 + rng.Intn(1000)
		for i := 0; i < nev; i++ {
			if len(lives) > 0 && rng.Chance(30) {
				k := rng.Intn(len(lives))
				l := lives[k]
				_ = l.c.Close()
				lives = append(lives[:k], lives[k+1:]...)
				steps = append(steps, fmt.Sprintf("GS (GClose (%s, %s, %d)) [] GErr", verifsim.CoqBool(l.tcp), verifsim.CoqBool(v6), l.port))
				continue
			}
			tcp := rng.Chance(35)
			requested := 0
			if rng.Chance(25) {
				requested = verifsim.Pick(rng, []int{rc.min, rc.max, 1 + rng.Intn(65535)})
				if len(lives) > 0 && rng.Chance(40) {
					requested = lives[rng.Intn(len(lives))].port // collide on purpose
				}
			}
			ephNext++
			tn.eph = ephNext
			rnd.counts, rnd.xs = nil, nil
			network := "udp4"
			if tcp {
				network = "tcp4"
			}
			if v6 {
				network = network[:3] + "6"
			}
			conf := AllocateListenerConfig{Network: network, RequestedPort: requested}
			var adv net.Addr
			var sock net.Addr
			var err error
			var closer interface{ Close() error }
			if tcp {
				var ln net.Listener
				ln, adv, err = gen.AllocateListener(conf)
				if err == nil {
					closer = ln
					sock = ln.(*verifsim.SimListener).Addr()
				}
			} else {
				var pc net.PacketConn
				pc, adv, err = gen.AllocatePacketConn(conf)
				if err == nil {
					closer, sock = pc, pc.LocalAddr()
				}
			}
			obs := "GErr"
			if err == nil {
				ai, ap := addrIPPort(adv)
				// the generators rewrite the IP of the address object the socket returned: read the key it is registered under
				sp := 0
				if tcp {
					for k, l := range sim.Lsns {
						if l == closer {
							_, p, _ := net.SplitHostPort(k)
							sp, _ = strconv.Atoi(p)
						}
					}
				} else {
					for k, c := range sim.Conns {
						if c == closer {
							_, p, _ := net.SplitHostPort(k)
							sp, _ = strconv.Atoi(p)
						}
					}
				}
				_ = sock
				obs = fmt.Sprintf("(GOk %s %d %d)", coqIP(ai), ap, sp)
				lives = append(lives, live{tcp, ap, closer})
				nontrivial = true
			}
			steps = append(steps, fmt.Sprintf("GS (GAlloc %s %s %d %s %d) %s %s", verifsim.CoqBool(tcp), verifsim.CoqBool(v6), requested,
				c20List(rnd.xs), ephNext, c20List(rnd.counts), obs))
		}
		for _, l := range lives {
			_ = l.c.Close()
		}
		term := fmt.Sprintf("GC %s %s %s [\n  %s\n]", coqKind, coqIP(relayIP), coqIP(net.ParseIP(sockAddr)), strings.Join(steps, ";\n  "))
		col.Add("history-"+kind, "sim", nontrivial, term)
	}
	for _, rc := range ranges {
		for range nhist {
			runHistory("range", rc, rng.Chance(20), verifsim.Pick(rng, []int{0, 1, 2, 3, 10, 30}))
		}
	}
	for range 4 * nhist {
		runHistory("static", rangeCfg{5000, 5000}, rng.Chance(20), 0)
		runHistory("none", rangeCfg{5000, 5000}, rng.Chance(20), 0)
	}

	// real sockets on loopback: a second TCP listener on a bound port must be refused
	{
		gen := &RelayAddressGeneratorStatic{RelayAddress: net.IPv4(127, 0, 0, 1), Address: "127.0.0.1"}
		if err := gen.Validate(); err == nil {
			l1, a1, err1 := gen.AllocateListener(AllocateListenerConfig{Network: "tcp4", RequestedPort: 0})
			if err1 == nil {
				_, p1 := addrIPPort(a1)
				l2, a2, err2 := gen.AllocateListener(AllocateListenerConfig{Network: "tcp4", RequestedPort: p1})
				obs2 := "GErr"
				if err2 == nil {
					ai, ap := addrIPPort(a2)
					obs2 = fmt.Sprintf("(GOk %s %d %d)", coqIP(ai), ap, l2.Addr().(*net.TCPAddr).Port)
					_ = l2.Close()
				}
				term := fmt.Sprintf("GC GStatic %s %s [\n  GS (GAlloc true false 0 [] %d) [] (GOk %s %d %d);\n  GS (GAlloc true false %d [] 0) [] %s\n]",
					coqIP(net.IPv4(127, 0, 0, 1)), coqIP(net.IPv4(127, 0, 0, 1)), p1, coqIP(net.IPv4(127, 0, 0, 1)), p1, p1, p1, obs2)
				col.Add("real-tcp-same-port", "tcp-reuseport-share", true, term)
				_ = l1.Close()
			}
		}
	}
	// real UDP sockets on loopback: with a one-port range, a second allocation must fail (never share)
	for _, requested := range []bool{false, true} {
		probe, err := net.ListenPacket("udp4", "127.0.0.1:0")
		if err != nil {
			break
		}
		port := probe.LocalAddr().(*net.UDPAddr).Port
		_ = probe.Close()
		gen := &RelayAddressGeneratorPortRange{RelayAddress: net.IPv4(127, 0, 0, 1), MinPort: uint16(port), MaxPort: uint16(port), MaxRetries: 3, Address: "127.0.0.1",
			Rand: &c20Rand{rng: rng}}
		if gen.Validate() != nil {
			break
		}
		c1, a1, err1 := gen.AllocatePacketConn(AllocateListenerConfig{Network: "udp4"})
		if err1 != nil {
			continue
		}
		_, p1 := addrIPPort(a1)
		rq := 0
		if requested {
			rq = p1
		}
		c2, a2, err2 := gen.AllocatePacketConn(AllocateListenerConfig{Network: "udp4", RequestedPort: rq})
		obs2 := "GErr"
		if err2 == nil {
			ai, ap := addrIPPort(a2)
			obs2 = fmt.Sprintf("(GOk %s %d %d)", coqIP(ai), ap, c2.LocalAddr().(*net.UDPAddr).Port)
			_ = c2.Close()
		}
		lo := coqIP(net.IPv4(127, 0, 0, 1))
		term := fmt.Sprintf("GC (GRange %d %d 3) %s %s [\n  GS (GAlloc false false 0 [0] 0) [1] (GOk %s %d %d);\n  GS (GAlloc false false %d %s 0) %s %s\n]",
			port, port, lo, lo, lo, p1, p1, rq, map[bool]string{true: "[]", false: "[0; 0; 0]"}[requested],
			map[bool]string{true: "[]", false: "[1; 1; 1]"}[requested], obs2)
		col.Add("real-udp-same-port", "udp-real-share", true, term)
		_ = c1.Close()
	}
	if err := col.Flush(); err != nil {
		t.Fatal(err)
	}
}

func addrIPPort(a net.Addr) (net.IP, int) {
	switch x := a.(type) {
	case *net.UDPAddr:
		return x.IP, x.Port
	case *net.TCPAddr:
		return x.IP, x.Port
	}
	return nil, 0
}
