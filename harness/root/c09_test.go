//go:build verif

package turn

import (
	"fmt"
	"net"
	"os"
	"testing"
	"testing/synctest"
	"time"

	"github.com/pion/logging"
	"github.com/pion/stun/v3"
	"github.com/pion/turn/v5/internal/client"
	"github.com/pion/turn/v5/internal/verifsim"
)

func c09Binding(tid int) []byte {
	m, _ := stun.Build(&stun.Message{TransactionID: tidBytes(tid)}, stun.BindingRequest)
	return m.Raw
}

// c09Last describes the input the live campaigns are feeding right now (for the real-time watchdog's report)
var c09Last = "(decoder / dispatcher campaigns)"

func TestVerif_C09(t *testing.T) { //nolint:cyclop
	rng := verifsim.NewRNG(verifsim.Seed() + 99)
	col := verifsim.NewCollector("C09r", "C09Check")
	col.PerFile = 250
	thorough := verifsim.Thorough()
	// a busy loop cannot be seen from inside a synctest bubble: a real-time watchdog reports it
	watchdog := time.AfterFunc(120*time.Second, func() {
		fmt.Printf("VERIF-VIOLATION C09 an endpoint is spinning or wedged: the harness made no progress for 120 s of real time; the input being handled: %s\n", c09Last)
		os.Exit(3)
	})
	defer watchdog.Stop()
	lf := logging.NewDefaultLoggerFactory()
	lf.DefaultLogLevel = logging.LogLevelDisabled

	// ---- Client.HandleInbound on arbitrary datagrams ----
	ncli := 1200
	if thorough {
		ncli = 30000
	}
	stunSrv := &net.UDPAddr{IP: net.IPv4(10, 0, 0, 9), Port: 3478}
	other := &net.UDPAddr{IP: net.IPv4(10, 0, 0, 8), Port: 1234}
	for i, buf := range verifsim.Hostile(rng, ncli) {
		conn := &c12Conn{start: time.Now(), count: map[int]int{}, closed: make(chan struct{})}
		cl := &Client{conn: conn, trMap: client.NewTransactionMap(), rto: time.Second, log: lf.NewLogger("verif"), stunServerAddr: stunSrv}
		from := net.Addr(other)
		fromStun := i%4 == 0
		if fromStun {
			from = stunSrv
		}
		handled, panicked := false, false
		var err error
		done := make(chan struct{})
		go func() {
			defer close(done)
			defer func() {
				if r := recover(); r != nil {
					panicked = true
				}
			}()
			handled, err = cl.HandleInbound(append([]byte{}, buf...), from)
		}()
		select {
		case <-done:
		case <-time.After(5 * time.Second):
			fmt.Printf("VERIF-VIOLATION C09 Client.HandleInbound did not return within 5 s on %x\n", buf)
			t.Fatalf("HandleInbound wedged on %x", buf)
		}
		col.Add("client-inbound", "cli", handled, fmt.Sprintf("KCli %s %s %s %s %s", verifsim.CoqBool(fromStun), verifsim.CoqBytes(buf),
			verifsim.CoqBool(handled), verifsim.CoqBool(err != nil), verifsim.CoqBool(panicked)))
	}

	// ---- a live server on a UDP listener: hostile datagram, then liveness probes and state comparison ----
	nlive := 400
	if thorough {
		nlive = 6000
	}
	synctest.Test(t, func(t *testing.T) {
		w := newRelayWorld(t, rng, relayCfg{hasAuth: true})
		w.evTick(1001)
		w.freshNonce()
		okc := credSpec{mi: 11, intact: true, nonce: 1, user: 1, realm: 1}
		w.evAllocate(0, w.newTid(), okc, attrSpec{2, 17}, attrSpec{}, attrSpec{}, false, 49152, false)
		p := peerSpec{addr: w.peers[0]}
		w.evChannelBind(0, w.newTid(), okc, attrSpec{2, 0x4000}, &p)
		for i, buf := range verifsim.Hostile(rng, nlive) {
			ci := 0 // the party that holds an allocation
			if i%2 == 1 {
				ci = 2 // a party without
			}
			before := w.listing()
			w.sendToServer(w.clients[ci], buf)
			synctest.Wait()
			w.net.Drain()
			_ = w.takeLife()
			alive := func(c int) bool {
				tid := w.newTid()
				w.sendToServer(w.clients[c], c09Binding(tid))
				synctest.Wait()
				ok := false
				for _, o := range w.net.Drain() {
					m := &stun.Message{Raw: o.Data}
					if m.Decode() == nil && m.Type == stun.BindingSuccess && m.TransactionID == tidBytes(tid) {
						ok = true
					}
				}
				return ok
			}
			a1, a2 := alive(ci), alive(3)
			// hostile input from an unauthenticated source must not change any state; from the allocation's
			// own 5-tuple it could at most be a (valid) Send/ChannelData, which changes none either
			unchanged := w.listing() == before
			col.Add("live-udp", "live", a1 && a2, fmt.Sprintf("KLive 1 %s false false %s %s %s", verifsim.CoqBytes(buf),
				verifsim.CoqBool(a1), verifsim.CoqBool(a2), verifsim.CoqBool(unchanged)))
		}
		_ = w.srv.Close()
		synctest.Wait()
	})

	// ---- a live server on a stream listener: hostile prefix on one connection, probe on it and on a fresh one ----
	nstream := 150
	if thorough {
		nstream = 2500
	}
	synctest.Test(t, func(t *testing.T) {
		sim := verifsim.NewSimNet()
		ln, _ := sim.NewListener(&net.TCPAddr{IP: net.IPv4(10, 0, 0, 1), Port: 3478})
		w := &relayWorld{t: t, rng: rng, net: sim}
		srv, err := NewServer(ServerConfig{
			ListenerConfigs: []ListenerConfig{{Listener: ln, RelayAddressGenerator: &relayGen{w}}},
			Realm:           "realm1", LoggerFactory: lf,
			AuthHandler: func(*RequestAttributes) (string, []byte, bool) { return "", nil, false },
		})
		if err != nil {
			t.Fatal(err)
		}
		probe := func(c *verifsim.SimStream, peerEnd *verifsim.SimStream, tid int) bool {
			_ = peerEnd
			if _, err := c.Write(c09Binding(tid)); err != nil {
				return false
			}
			synctest.Wait()
			// read whatever the server wrote on this connection
			got := false
			buf := make([]byte, 4096)
			for {
				type rr struct {
					n   int
					err error
				}
				ch := make(chan rr, 1)
				go func() { n, e := c.Read(buf); ch <- rr{n, e} }()
				synctest.Wait()
				select {
				case r := <-ch:
					if r.err != nil {
						return got
					}
					m := &stun.Message{Raw: append([]byte{}, buf[:r.n]...)}
					if m.Decode() == nil && m.Type == stun.BindingSuccess && m.TransactionID == tidBytes(tid) {
						got = true
					}
				default:
					return got // blocked: nothing more to read (the goroutine is left to the connection's Close)
				}
			}
		}
		tid := 5000
		inputs := verifsim.Hostile(rng, nstream)
		// complete, well-framed frames around and beyond the read buffer (InboundMTU, 1600 by default): the server drops
		// what does not fit and goes on serving that very connection
		complete := map[int]bool{}
		for _, l := range []int{1500, 1592, 1595, 1596, 1597, 1600, 1604, 2000, 4096, 20000, 65000, 65535} {
			cd := append([]byte{0x40, 0x01, byte(l >> 8), byte(l)}, rng.Bytes(l)...)
			for len(cd)%4 != 0 {
				cd = append(cd, 0)
			}
			complete[len(inputs)] = true
			inputs = append(inputs, cd)
			if l%4 == 0 && l <= 65000 {
				m := new(stun.Message)
				m.Type = stun.MessageType{Method: stun.MethodSend, Class: stun.ClassIndication}
				copy(m.TransactionID[:], rng.Bytes(12))
				m.WriteHeader()
				m.Add(stun.AttrData, rng.Bytes(l-4))
				complete[len(inputs)] = true
				inputs = append(inputs, append([]byte{}, m.Raw...))
			}
		}
		for idx, buf := range inputs {
			c09Last = fmt.Sprintf("stream listener, one connection, %d bytes starting % x", len(buf), buf[:min(len(buf), 24)])
			cEnd, sEnd := verifsim.NewStreamPair(&net.TCPAddr{IP: net.IPv4(10, 0, 0, 2), Port: 40000 + tid%20000}, &net.TCPAddr{IP: net.IPv4(10, 0, 0, 1), Port: 3478})
			ln.Inject(sEnd)
			// arbitrary segmentation
			p := 0
			for p < len(buf) {
				q := p + 1 + rng.Intn(1+rng.Intn(16))
				if q > len(buf) {
					q = len(buf)
				}
				if _, err := cEnd.Write(buf[p:q]); err != nil {
					break
				}
				p = q
			}
			synctest.Wait()
			tid++
			sameAlive := probe(cEnd, sEnd, tid)
			sameOK := sameAlive || sEnd.IsClosed() // an invalid frame ends that connection only - or it keeps serving
			if !sameOK && !complete[idx] {
				// an incomplete frame is pending: the probe bytes were taken as its continuation; that is neither a crash nor a wedge
				sameOK = true
			}
			c2, s2 := verifsim.NewStreamPair(&net.TCPAddr{IP: net.IPv4(10, 0, 0, 3), Port: 40000 + tid%20000}, &net.TCPAddr{IP: net.IPv4(10, 0, 0, 1), Port: 3478})
			ln.Inject(s2)
			tid++
			otherAlive := probe(c2, s2, tid)
			shown := buf
			if len(shown) > 600 {
				shown = shown[:64] // an oversized frame: its header and the first bytes identify it (length field at offset 2)
			}
			col.Add("live-stream", "live", otherAlive, fmt.Sprintf("KLive 2 %s false false %s %s true", verifsim.CoqBytes(shown),
				verifsim.CoqBool(sameOK), verifsim.CoqBool(otherAlive)))
			_ = cEnd.Close()
			_ = c2.Close()
			synctest.Wait()
		}
		_ = srv.Close()
		synctest.Wait()
	})
	if err := col.Flush(); err != nil {
		t.Fatal(err)
	}
}
