//go:build verif

package turn

import (
	"bytes"
	"crypto/hmac"
	"crypto/md5" //nolint:gosec
	"crypto/sha1" //nolint:gosec
	"encoding/base64"
	"fmt"
	"net"
	"testing"
	"testing/synctest"
	"time"

	"github.com/pion/logging"
	"github.com/pion/stun/v3"
	"github.com/pion/turn/v5/internal/proto"
	"github.com/pion/turn/v5/internal/verifsim"
)

// independent computation of the expected password
// the long-term key of RFC 5389 15.4, computed here and not by the code under test: MD5(username ":" realm ":" password)
func c17Key(username, realm, password string) []byte {
	h := md5.Sum([]byte(username + ":" + realm + ":" + password)) //nolint:gosec
	return h[:]
}

func c17Password(secret, username string) string {
	m := hmac.New(sha1.New, []byte(secret))
	_, _ = m.Write([]byte(username))
	return base64.StdEncoding.EncodeToString(m.Sum(nil))
}

func c17Opt(uid string, keyOK bool, ok bool) string {
	if !ok {
		return "None"
	}
	return fmt.Sprintf("(Some (%s, %s))", verifsim.CoqBytes([]byte(uid)), verifsim.CoqBool(keyOK))
}

func TestVerif_C17(t *testing.T) { //nolint:cyclop
	rng := verifsim.NewRNG(verifsim.Seed() + 1717)
	col := verifsim.NewCollector("C17", "C17Check")
	col.PerFile = 400
	thorough := verifsim.Thorough()
	log := logging.NewDefaultLoggerFactory()
	log.DefaultLogLevel = logging.LogLevelDisabled
	logger := log.NewLogger("verif")
	nrounds := 12
	if thorough {
		nrounds = 150
	}
	synctest.Test(t, func(t *testing.T) {
		// off the whole-second grid
		time.Sleep(time.Duration(1+rng.Intn(999)) * time.Millisecond)
		for round := 0; round < nrounds; round++ {
			secret := string(verifsim.Pick(rng, [][]byte{[]byte("s3cret"), []byte(""), rng.Bytes(1 + rng.Intn(20)), []byte("sec:ret")}))
			realm := verifsim.Pick(rng, []string{"realm1", "", "pion.ly", "r:x", "100%turn", "%s"})
			user := verifsim.Pick(rng, []string{"alice", "", "bob:extra", "a:b:c", "1234", "ünï", "alice%40example.com", "%d%%", "a\\b\n"})
			rest := rng.Bool()
			dur := verifsim.Pick(rng, []time.Duration{0, -time.Second, -3 * time.Second, time.Second, 2 * time.Second, 1500 * time.Millisecond,
				time.Hour, 999 * time.Millisecond, time.Duration(rng.Intn(5000)) * time.Millisecond})
			var username, password string
			var err error
			now := time.Now()
			if rest {
				username, password, err = GenerateLongTermTURNRESTCredentials(secret, user, dur)
			} else {
				username, password, err = GenerateLongTermCredentials(secret, dur)
			}
			if err != nil {
				t.Fatalf("generate: %v", err)
			}
			pwOK := password == c17Password(secret, username)
			col.Add("generate", "gen", true, fmt.Sprintf("KGen %s %d (%d) %s %s %s", verifsim.CoqBool(rest), now.UnixNano(), int64(dur),
				verifsim.CoqBytes([]byte(user)), verifsim.CoqBytes([]byte(username)), verifsim.CoqBool(pwOK)))
			handler := NewLongTermAuthHandler(secret, logger)
			if rest {
				handler = LongTermTURNRESTAuthHandler(secret, logger)
			}
			check := func(uname string, tag string) {
				n := time.Now()
				uid, key, ok := handler(&RequestAttributes{Username: uname, Realm: realm, SrcAddr: &net.UDPAddr{IP: net.IPv4(10, 0, 0, 2), Port: 5000}})
				keyOK := ok && bytes.Equal(key, c17Key(uname, realm, c17Password(secret, uname)))
				col.Add("handler", tag, ok, fmt.Sprintf("KHandle %s %d %s %s", verifsim.CoqBool(rest), n.UnixNano(),
					verifsim.CoqBytes([]byte(uname)), c17Opt(uid, keyOK, ok)))
			}
			// every second in a window around expiry (and sub-second offsets)
			expiry := now.Add(dur)
			start := expiry.Add(-3 * time.Second)
			if start.After(time.Now()) {
				time.Sleep(time.Until(start))
			}
			for k := 0; k < 14; k++ {
				check(username, "window")
				time.Sleep(verifsim.Pick(rng, []time.Duration{500 * time.Millisecond, 250 * time.Millisecond, time.Second, 999 * time.Millisecond, time.Millisecond}))
			}
			// mutated usernames: every single-character mutation (position x a few replacement characters)
			g2u, g2p := username, password
			if rest {
				g2u, g2p, _ = GenerateLongTermTURNRESTCredentials(secret, user, time.Hour)
			} else {
				g2u, g2p, _ = GenerateLongTermCredentials(secret, time.Hour)
			}
			_ = g2p
			for i := 0; i < len(g2u); i++ {
				for _, c := range []byte{'0', '9', 'x', ':', '-', '+', ' ', '_', 0} {
					if g2u[i] == c {
						continue
					}
					m := []byte(g2u)
					m[i] = c
					check(string(m), "mutated")
				}
			}
			for _, u := range []string{"", ":", "::", "abc", "-5", "+5", "12a", "99999999999999999999", "9223372036854775807", "9223372036854775808",
				"-9223372036854775808", "-9223372036854775809", "0", "00946684900", g2u + ":", ":" + g2u, " " + g2u, g2u + " ", "1_000"} {
				check(u, "odd")
			}
		}

		// end to end: Allocate through a real server whose AuthHandler is the time-windowed handler
		for _, rest := range []bool{false, true} {
			secret := "e2e-secret"
			handler := NewLongTermAuthHandler(secret, logger)
			if rest {
				handler = LongTermTURNRESTAuthHandler(secret, logger)
			}
			w := newRelayWorldAuth(t, rng, relayCfg{hasAuth: true}, handler)
			ne2e := 10
			if thorough {
				ne2e = 60
			}
			for k := 0; k < ne2e; k++ {
				var username, password string
				dur := verifsim.Pick(rng, []time.Duration{2 * time.Second, time.Second, 0, -time.Second, time.Minute})
				if rest {
					username, password, _ = GenerateLongTermTURNRESTCredentials(secret, verifsim.Pick(rng, []string{"carol", "carol%40example.com", "c%d"}), dur)
				} else {
					username, password, _ = GenerateLongTermCredentials(secret, dur)
				}
				time.Sleep(verifsim.Pick(rng, []time.Duration{time.Millisecond, 900 * time.Millisecond, 1100 * time.Millisecond, 2100 * time.Millisecond}))
				pwCorrect := true
				usePw := password
				switch rng.Intn(4) {
				case 0: // single-character mutation of the password
					b := []byte(password)
					i := rng.Intn(len(b))
					if b[i] == 'A' {
						b[i] = 'B'
					} else {
						b[i] = 'A'
					}
					usePw, pwCorrect = string(b), false
				case 1: // password derived from another secret
					usePw, pwCorrect = c17Password("other-secret", username), false
				}
				w.freshNonce()
				ci := k % len(w.clients)
				tid := w.newTid()
				m, err := stun.Build(&stun.Message{TransactionID: tidBytes(tid)}, stun.NewType(stun.MethodAllocate, stun.ClassRequest),
					proto.RequestedTransport{Protocol: proto.ProtoUDP}, stun.NewUsername(username), stun.NewRealm("realm1"), stun.NewNonce(w.nonce),
					stun.MessageIntegrity(c17Key(username, "realm1", usePw)))
				if err != nil {
					t.Fatal(err)
				}
				w.nextPort = 49152 + k%4
				n := time.Now()
				w.sendToServer(w.clients[ci], m.Raw)
				synctest.Wait()
				success := false
				for _, o := range w.net.Drain() {
					r := &stun.Message{Raw: o.Data}
					if r.Decode() == nil && r.Type.Class == stun.ClassSuccessResponse && r.Type.Method == stun.MethodAllocate {
						success = true
					}
				}
				_ = w.takeLife()
				col.Add("e2e", "e2e", success, fmt.Sprintf("KE2E %s %d %s %s %s", verifsim.CoqBool(rest), n.UnixNano(),
					verifsim.CoqBytes([]byte(username)), verifsim.CoqBool(pwCorrect), verifsim.CoqBool(success)))
				// release it again so that the 5-tuple is free for the next round
				if success {
					rm, _ := stun.Build(stun.TransactionID, stun.NewType(stun.MethodRefresh, stun.ClassRequest), proto.Lifetime{},
						stun.NewUsername(username), stun.NewRealm("realm1"), stun.NewNonce(w.nonce),
						stun.MessageIntegrity(c17Key(username, "realm1", usePw)))
					w.sendToServer(w.clients[ci], rm.Raw)
					synctest.Wait()
					w.net.Drain()
					if w.isLive(ci) { // expired meanwhile: wait for the default lifetime
						time.Sleep(11 * time.Minute)
					}
				}
			}
			_ = w.srv.Close()
			synctest.Wait()
		}
	})
	if err := col.Flush(); err != nil {
		t.Fatal(err)
	}
}
