//go:build verif

package turn

// C18, stress part: several raw clients and peers hammer one real server in real time - Allocate with lifetimes of
// one or two seconds, CreatePermission, ChannelBind, Send, ChannelData, Refresh, Refresh 0, peer datagrams - while
// every callback the server invokes (auth, permission, quota and the lifecycle events) is slow at random, timers
// expire under the traffic (permission 300 ms, channel 500 ms) and Server.Close lands in the middle of it.
// Run under the race detector in the thorough tier. Verdict: no panic, no race report, Close and a liveness probe
// return. (Which responses come back is the business of the other properties.)

import (
	"fmt"
	"net"
	"os"
	"sync"
	"sync/atomic"
	"testing"
	"time"

	"github.com/pion/logging"
	"github.com/pion/stun/v3"
	"github.com/pion/turn/v5/internal/proto"
	"github.com/pion/turn/v5/internal/verifsim"
)

type stressClient struct {
	addr  *net.UDPAddr
	conn  *verifsim.SimPacketConn
	mu    sync.Mutex
	nonce string
	key   []byte
	user  string
	tid   uint64
	rng   *verifsim.RNG
}

func (c *stressClient) send(srv *verifsim.SimPacketConn, setters ...stun.Setter) {
	c.mu.Lock()
	nonce := c.nonce
	c.tid++
	tid := c.tid
	c.mu.Unlock()
	var id [stun.TransactionIDSize]byte
	id[0] = byte(c.addr.Port)
	for i := 0; i < 8; i++ {
		id[4+i] = byte(tid >> (8 * (7 - i)))
	}
	all := []stun.Setter{&stun.Message{TransactionID: id}}
	all = append(all, setters...)
	if nonce != "" {
		all = append(all, stun.NewUsername(c.user), stun.NewRealm("realm1"), stun.NewNonce(nonce), stun.MessageIntegrity(c.key))
	}
	m, err := stun.Build(all...)
	if err != nil {
		return
	}
	srv.Inject(c.addr, m.Raw)
}

func TestVerif_C18Stress(t *testing.T) { //nolint:cyclop
	rng := verifsim.NewRNG(verifsim.Seed() + 1820)
	dur := 2500 * time.Millisecond
	if verifsim.Thorough() {
		dur = 20 * time.Second
	}
	lf := logging.NewDefaultLoggerFactory()
	lf.DefaultLogLevel = logging.LogLevelDisabled
	sim := verifsim.NewSimNet()
	srvConn, _ := sim.NewPacketConn(&net.UDPAddr{IP: net.IPv4(10, 0, 0, 1), Port: 3478})
	var slowMu sync.Mutex
	slowRng := verifsim.NewRNG(verifsim.Seed() + 77)
	slow := func() {
		slowMu.Lock()
		n := slowRng.Intn(100)
		slowMu.Unlock()
		switch {
		case n < 10:
			time.Sleep(time.Duration(1+n) * time.Millisecond)
		case n < 40:
			time.Sleep(time.Duration(n) * 10 * time.Microsecond)
		}
	}
	var events atomic.Int64
	ev := func() { events.Add(1); slow() }
	rw := &relayWorld{net: sim}
	var portMu sync.Mutex
	nextPort := 20000
	gen := &stressGen{relayGen: relayGen{rw}, next: func() int { portMu.Lock(); defer portMu.Unlock(); nextPort++; return nextPort }}
	srvLnAddr := &net.TCPAddr{IP: net.IPv4(10, 0, 0, 1), Port: 3478}
	srvLn, _ := sim.NewListener(srvLnAddr)
	srv, err := NewServer(ServerConfig{
		PacketConnConfigs: []PacketConnConfig{{PacketConn: srvConn, RelayAddressGenerator: gen,
			PermissionHandler: func(net.Addr, net.IP) bool { slow(); return true }}},
		ListenerConfigs: []ListenerConfig{{Listener: srvLn, RelayAddressGenerator: gen,
			PermissionHandler: func(net.Addr, net.IP) bool { slow(); return true }}},
		Realm: "realm1", LoggerFactory: lf, PermissionTimeout: 300 * time.Millisecond, ChannelBindTimeout: 500 * time.Millisecond,
		AuthHandler: func(ra *RequestAttributes) (string, []byte, bool) {
			slow()
			return ra.Username, GenerateAuthKey(ra.Username, "realm1", "pw"), true
		},
		QuotaHandler: func(string, string, net.Addr) bool { slow(); return true },
		EventHandler: EventHandler{
			OnAuth:              func(net.Addr, net.Addr, string, string, string, string, bool) { ev() },
			OnAllocationCreated: func(net.Addr, net.Addr, string, string, string, net.Addr, int) { ev() },
			OnAllocationDeleted: func(net.Addr, net.Addr, string, string, string) { ev() },
			OnAllocationError:   func(net.Addr, net.Addr, string, string) { ev() },
			OnPermissionCreated: func(net.Addr, net.Addr, string, string, string, net.Addr, net.IP) { ev() },
			OnPermissionDeleted: func(net.Addr, net.Addr, string, string, string, net.Addr, net.IP) { ev() },
			OnChannelCreated:    func(net.Addr, net.Addr, string, string, string, net.Addr, net.Addr, uint16) { ev() },
			OnChannelDeleted:    func(net.Addr, net.Addr, string, string, string, net.Addr, net.Addr, uint16) { ev() },
		},
	})
	if err != nil {
		t.Fatal(err)
	}
	peers := []*net.UDPAddr{{IP: net.IPv4(10, 1, 0, 1), Port: 7000}, {IP: net.IPv4(10, 1, 0, 2), Port: 7000}, {IP: net.IPv4(10, 1, 0, 2), Port: 7001}}
	var clients []*stressClient
	for i := 0; i < 4; i++ {
		addr := &net.UDPAddr{IP: net.IPv4(10, 0, 0, 2), Port: 5000 + i}
		conn, _ := sim.NewPacketConn(addr)
		user := fmt.Sprintf("user%d", i%2+1)
		clients = append(clients, &stressClient{addr: addr, conn: conn, user: user, key: GenerateAuthKey(user, "realm1", "pw"), rng: verifsim.NewRNG(rng.U64())})
	}
	// the network: replies go to the clients' sockets; what the relays send to a peer is echoed back now and then
	var relays sync.Map // relay address string -> true
	var toPeers, toClients atomic.Int64
	echoRng := verifsim.NewRNG(rng.U64())
	var echoMu sync.Mutex
	sim.OnWrite = func(o verifsim.Outgoing) bool {
		if c := sim.Lookup(o.To.String()); c != nil && o.To.String() != srvConn.LocalAddr().String() {
			if c.Inject(o.From, o.Data) {
				toClients.Add(1)
			}
			return true
		}
		toPeers.Add(1)
		relays.Store(o.From.String(), true)
		echoMu.Lock()
		echo := echoRng.Chance(50)
		echoMu.Unlock()
		if echo {
			if rc := sim.Lookup(o.From.String()); rc != nil {
				rc.Inject(o.To, o.Data)
			}
		}
		return true
	}
	stop := make(chan struct{})
	var wg sync.WaitGroup
	var sent atomic.Int64
	for _, c := range clients {
		c := c
		// reader: picks the nonce out of challenges
		wg.Add(1)
		go func() {
			defer wg.Done()
			buf := make([]byte, 2048)
			for {
				n, _, err := c.conn.ReadFrom(buf)
				if err != nil {
					return
				}
				if proto.IsChannelData(buf[:n]) {
					continue
				}
				m := &stun.Message{Raw: append([]byte{}, buf[:n]...)}
				if m.Decode() != nil {
					continue
				}
				var nonce stun.Nonce
				if m.Type.Class == stun.ClassErrorResponse && nonce.GetFrom(m) == nil {
					c.mu.Lock()
					c.nonce = nonce.String()
					c.mu.Unlock()
				}
			}
		}()
		wg.Add(1)
		go func() {
			defer wg.Done()
			for {
				select {
				case <-stop:
					return
				default:
				}
				p := verifsim.Pick(c.rng, peers)
				switch c.rng.Intn(12) {
				case 0, 1:
					c.send(srvConn, stun.NewType(stun.MethodAllocate, stun.ClassRequest), proto.RequestedTransport{Protocol: proto.ProtoUDP},
						proto.Lifetime{Duration: time.Duration(1+c.rng.Intn(2)) * time.Second})
				case 2, 3:
					c.send(srvConn, stun.NewType(stun.MethodCreatePermission, stun.ClassRequest), proto.PeerAddress{IP: p.IP, Port: p.Port})
				case 4, 5:
					c.send(srvConn, stun.NewType(stun.MethodChannelBind, stun.ClassRequest), proto.ChannelNumber(0x4000+c.rng.Intn(3)),
						proto.PeerAddress{IP: p.IP, Port: p.Port})
				case 6:
					lt := time.Duration(c.rng.Intn(3)) * time.Second
					c.send(srvConn, stun.NewType(stun.MethodRefresh, stun.ClassRequest), proto.Lifetime{Duration: lt})
				case 7, 8:
					m, err := stun.Build(stun.TransactionID, stun.NewType(stun.MethodSend, stun.ClassIndication),
						proto.PeerAddress{IP: p.IP, Port: p.Port}, proto.Data([]byte("stress-data")))
					if err == nil {
						srvConn.Inject(c.addr, m.Raw)
					}
				case 9, 10:
					cd := &proto.ChannelData{Number: proto.ChannelNumber(0x4000 + c.rng.Intn(3)), Data: []byte("stress-chandata")}
					cd.Encode()
					srvConn.Inject(c.addr, cd.Raw)
				default:
					// a peer talks to some relay on its own
					relays.Range(func(k, _ any) bool {
						if rc := sim.Lookup(k.(string)); rc != nil {
							rc.Inject(p, []byte("unsolicited"))
						}
						return c.rng.Chance(50)
					})
				}
				sent.Add(1)
				time.Sleep(time.Duration(50+c.rng.Intn(400)) * time.Microsecond)
			}
		}()
	}
	// liveness probes while the traffic runs
	probeDone := make(chan struct{})
	go func() {
		defer close(probeDone)
		for {
			select {
			case <-stop:
				return
			default:
			}
			_ = srv.AllocationCount()
			time.Sleep(20 * time.Millisecond)
		}
	}()
	// control connections on the stream listener: they come and go while the server runs (the server tracks the accepted
	// connections) and several are still open when it is closed
	var streamWG sync.WaitGroup
	streamRng := verifsim.NewRNG(rng.U64())
	var streamMu sync.Mutex
	for i := 0; i < 6; i++ {
		streamWG.Add(1)
		go func(i int) {
			defer streamWG.Done()
			for round := 0; ; round++ {
				select {
				case <-stop:
					return
				default:
				}
				mine, theirs := verifsim.NewStreamPair(&net.TCPAddr{IP: net.IPv4(10, 0, 0, 3), Port: 6000 + i*100 + round%100}, srvLnAddr)
				if !srvLn.Inject(theirs) {
					_ = mine.Close()
					return
				}
				go func() {
					buf := make([]byte, 2048)
					for {
						if _, err := mine.Read(buf); err != nil {
							return
						}
					}
				}()
				streamMu.Lock()
				n := 1 + streamRng.Intn(6)
				stay := i < 3 && round > 0 // the first three keep their second connection open until the server closes it
				streamMu.Unlock()
				for k := 0; k < n; k++ {
					m, _ := stun.Build(stun.TransactionID, stun.BindingRequest)
					if _, err := mine.Write(m.Raw); err != nil {
						break
					}
					sent.Add(1)
					time.Sleep(time.Duration(1+k) * time.Millisecond)
				}
				if stay {
					<-stop
					_ = mine.Close()
					return
				}
				_ = mine.Close()
			}
		}(i)
	}
	time.Sleep(dur * 2 / 3)
	// Close racing with traffic
	closed := make(chan error, 1)
	go func() { closed <- srv.Close() }()
	time.Sleep(dur / 3)
	close(stop)
	watchdog := func(what string, ch <-chan struct{}) {
		select {
		case <-ch:
		case <-time.After(20 * time.Second):
			fmt.Printf("VERIF-VIOLATION C18 lock-up in the stress run: %s did not return within 20 s (seed %d)\n", what, verifsim.Seed())
			os.Exit(3)
		}
	}
	cd := make(chan struct{})
	go func() { <-closed; close(cd) }()
	watchdog("Server.Close", cd)
	watchdog("Server.AllocationCount probe", probeDone)
	for _, c := range clients {
		_ = c.conn.Close()
	}
	wd := make(chan struct{})
	go func() { wg.Wait(); streamWG.Wait(); close(wd) }()
	watchdog("client goroutines", wd)
	col := verifsim.NewCollector("C18stress", "C18Check")
	col.Extra["stress_requests_sent"] = sent.Load()
	col.Extra["stress_lifecycle_events"] = events.Load()
	col.Extra["stress_datagrams_to_peers"] = toPeers.Load()
	col.Extra["stress_datagrams_to_clients"] = toClients.Load()
	col.Extra["stress_duration_ms"] = dur.Milliseconds()
	col.Add("stress", "stress", sent.Load() > 100 && events.Load() > 10, fmt.Sprintf("CL %d true true", sent.Load()))
	if err := col.Flush(); err != nil {
		t.Fatal(err)
	}
}

// stressGen hands out consecutive ports
type stressGen struct {
	relayGen
	next func() int
}

func (g *stressGen) AllocatePacketConn(conf AllocateListenerConfig) (net.PacketConn, net.Addr, error) {
	if conf.RequestedPort == 0 {
		conf.RequestedPort = g.next()
	}
	return g.relayGen.AllocatePacketConn(conf)
}
