//go:build verif

package turn

import (
	"encoding/binary"
	"fmt"
	"net"
	"os"
	"strings"
	"sync"
	"testing"
	"testing/synctest"
	"time"

	"github.com/pion/logging"
	"github.com/pion/stun/v3"
	"github.com/pion/turn/v5/internal/proto"
	"github.com/pion/turn/v5/internal/verifsim"
)

// c16Pipe is the harness side of a sim stream with a background reader collecting what arrives.
type c16Pipe struct {
	mine, theirs *verifsim.SimStream // mine: the end the harness writes/reads; theirs: the end handed to the server
	mu           sync.Mutex
	got          []byte
	eof          bool
}

var c16All []*c16Pipe
var c16Last string

func newC16Pipe(mineAddr, theirAddr net.Addr) *c16Pipe {
	a, b := verifsim.NewStreamPair(mineAddr, theirAddr)
	p := &c16Pipe{mine: a, theirs: b}
	c16All = append(c16All, p)
	go func() {
		buf := make([]byte, 70000)
		for {
			n, err := a.Read(buf)
			if err != nil {
				p.mu.Lock()
				p.eof = true
				p.mu.Unlock()
				return
			}
			p.mu.Lock()
			p.got = append(p.got, buf[:n]...)
			p.mu.Unlock()
		}
	}()
	return p
}
func (p *c16Pipe) take() []byte {
	p.mu.Lock()
	defer p.mu.Unlock()
	g := p.got
	p.got = nil
	return g
}

// frames splits collected bytes into STUN messages (the server only writes STUN on control connections)
func c16Frames(b []byte) (msgs []*stun.Message, rest []byte) {
	for len(b) >= 20 {
		l := int(binary.BigEndian.Uint16(b[2:4])) + 20
		if len(b) < l {
			break
		}
		m := &stun.Message{Raw: append([]byte{}, b[:l]...)}
		if m.Decode() != nil {
			break
		}
		msgs = append(msgs, m)
		b = b[l:]
	}
	return msgs, b
}

type c16Gen struct {
	w *c16World
}

func (g *c16Gen) Validate() error { return nil }
func (g *c16Gen) AllocatePacketConn(AllocateListenerConfig) (net.PacketConn, net.Addr, error) {
	g.w.nextPort++
	c, err := g.w.sim.NewPacketConn(&net.UDPAddr{IP: relayIP4, Port: g.w.nextPort})
	if err != nil {
		return nil, nil, err
	}
	return c, c.LocalAddr(), nil
}
func (g *c16Gen) AllocateListener(AllocateListenerConfig) (net.Listener, net.Addr, error) {
	g.w.nextPort++
	l, err := g.w.sim.NewListener(&net.TCPAddr{IP: relayIP4, Port: g.w.nextPort})
	if err != nil {
		return nil, nil, err
	}
	return l, l.Addr(), nil
}
func (g *c16Gen) AllocateConn(conf AllocateConnConfig) (net.Conn, error) {
	if !g.w.dialOK {
		return nil, fmt.Errorf("sim: connection refused")
	}
	p := newC16Pipe(conf.RemoteAddr, conf.LocalAddr) // harness plays the peer
	g.w.dialed = p
	return p.theirs, nil
}

type c16Conn struct {
	cid   uint32
	peer  *net.TCPAddr
	pipe  *c16Pipe // peer side
	data  *c16Pipe // client data connection once bound
	dataN int
	alloc int
}

type c16World struct {
	t        *testing.T
	rng      *verifsim.RNG
	sim      *verifsim.SimNet
	srv      *Server
	ln       *verifsim.SimListener
	nextPort int
	dialOK   bool
	dialed   *c16Pipe
	ctl      map[int]*c16Pipe // control connection per client index
	relay    map[int]*net.TCPAddr
	conns    []*c16Conn
	steps    []string
	nonce    string
	tid      int
	dataSeq  int
	nontriv  bool
}

var c16Users = []struct{ name, pass, uid string }{{"user1", "pw1", "1"}, {"user2", "pw2", "2"}}

func (w *c16World) clientAddr(ci int) *net.TCPAddr { return &net.TCPAddr{IP: net.IPv4(10, 0, 0, 2), Port: 5000 + ci} }
func (w *c16World) serverAddr() *net.TCPAddr       { return &net.TCPAddr{IP: net.IPv4(10, 0, 0, 1), Port: 3478} }

func (w *c16World) cred(user int) []stun.Setter {
	if user == 0 {
		return nil
	}
	u := c16Users[user-1]
	return []stun.Setter{stun.NewUsername(u.name), stun.NewRealm("realm1"), stun.NewNonce(w.nonce),
		stun.MessageIntegrity(GenerateAuthKey(u.name, "realm1", u.pass))}
}

func (w *c16World) exchange(p *c16Pipe, setters []stun.Setter) []*stun.Message {
	m, err := stun.Build(setters...)
	if err != nil {
		w.t.Fatal(err)
	}
	if _, err := p.mine.Write(m.Raw); err != nil {
		return nil
	}
	synctest.Wait()
	msgs, _ := c16Frames(p.take())
	return msgs
}

func (w *c16World) newTid() int { w.tid++; return w.tid }

// wedged reports whether the allocation manager still answers
func (w *c16World) wedged() bool {
	done := make(chan struct{})
	go func() { _ = w.srv.AllocationCount(); close(done) }()
	synctest.Wait()
	select {
	case <-done:
		return false
	default:
		return true
	}
}

func (w *c16World) step(ev string, acts []string) {
	if w.wedged() {
		acts = append(acts, "TBlocked")
	}
	if len(acts) > 0 {
		w.nontriv = true
	}
	w.steps = append(w.steps, fmt.Sprintf("TS (%s) [%s]", ev, strings.Join(acts, "; ")))
	c16Last = strings.Join(w.steps, "; ")
}

func c16Opt(v int) string {
	if v == 0 {
		return "None"
	}
	return fmt.Sprintf("(Some %d)", v)
}

// closedSince reports peer/data connections the server has closed, once each
func (w *c16World) sweepClosed(seen map[*verifsim.SimStream]bool) []string {
	var acts []string
	for _, c := range w.conns {
		if c.pipe != nil && c.pipe.theirs.IsClosed() && !seen[c.pipe.theirs] {
			seen[c.pipe.theirs] = true
			acts = append(acts, fmt.Sprintf("TPeerClosed %s %s", coqNetAddr(w.relay[c.alloc]), coqNetAddr(c.peer)))
		}
		if c.data != nil && c.data.theirs.IsClosed() && !seen[c.data.theirs] {
			seen[c.data.theirs] = true
			acts = append(acts, fmt.Sprintf("TDataClosed %d", c.dataN))
		}
	}
	return acts
}

func runC16History(t *testing.T, rng *verifsim.RNG, nEvents int) (term string, nontrivial bool) {
	synctest.Test(t, func(t *testing.T) {
		lf := logging.NewDefaultLoggerFactory()
		lf.DefaultLogLevel = logging.LogLevelDisabled
		w := &c16World{t: t, rng: rng, sim: verifsim.NewSimNet(), ctl: map[int]*c16Pipe{}, relay: map[int]*net.TCPAddr{}, nextPort: 49200, tid: 100}
		w.ln, _ = w.sim.NewListener(w.serverAddr())
		policy := rng.Intn(2) // 1: the operator refuses peer 10.1.0.3
		var err error
		w.srv, err = NewServer(ServerConfig{
			ListenerConfigs: []ListenerConfig{{Listener: w.ln, RelayAddressGenerator: &c16Gen{w}, PermissionHandler: func(_ net.Addr, ip net.IP) bool {
				return !(policy == 1 && ip.Equal(net.IPv4(10, 1, 0, 3)))
			}}},
			Realm: "realm1", LoggerFactory: lf,
			AuthHandler: func(ra *RequestAttributes) (string, []byte, bool) {
				for _, u := range c16Users {
					if u.name == ra.Username && ra.Realm == "realm1" {
						return u.uid, GenerateAuthKey(u.name, "realm1", u.pass), true
					}
				}
				return "", nil, false
			},
		})
		if err != nil {
			t.Fatal(err)
		}
		time.Sleep(time.Duration(1001+2*rng.Intn(1000)) * time.Nanosecond)
		w.nonce, _ = w.srv.nonceHash.Generate()
		seen := map[*verifsim.SimStream]bool{}
		peers := []*net.TCPAddr{{IP: net.IPv4(10, 1, 0, 1), Port: 7000}, {IP: net.IPv4(10, 1, 0, 1), Port: 7001}, {IP: net.IPv4(10, 1, 0, 2), Port: 7000}, {IP: net.IPv4(10, 1, 0, 3), Port: 7000}}
		owner := map[int]int{} // client index -> user
		allocate := func(ci, user int) {
			p := newC16Pipe(w.clientAddr(ci), w.serverAddr())
			w.ln.Inject(p.theirs)
			w.ctl[ci] = p
			msgs := w.exchange(p, append([]stun.Setter{&stun.Message{TransactionID: tidBytes(w.newTid())}, stun.NewType(stun.MethodAllocate, stun.ClassRequest),
				proto.RequestedTransport{Protocol: proto.ProtoTCP}}, w.cred(user)...))
			for _, m := range msgs {
				var ra proto.RelayedAddress
				if m.Type.Class == stun.ClassSuccessResponse && ra.GetFrom(m) == nil {
					w.relay[ci] = &net.TCPAddr{IP: ra.IP, Port: ra.Port}
					owner[ci] = user
					w.step(fmt.Sprintf("TAlloc %s %d %s", coqNetAddr(w.clientAddr(ci)), user, coqNetAddr(w.relay[ci])), nil)
					return
				}
			}
			t.Fatalf("TCP allocate failed for client %d: %v", ci, msgs)
		}
		liveAllocs := func() []int {
			var out []int
			for ci := range w.relay {
				out = append(out, ci)
			}
			return out
		}
		allocate(0, 1)
		if rng.Chance(60) {
			allocate(1, verifsim.Pick(rng, []int{1, 2}))
		}
		for i := 0; i < nEvents; i++ {
			la := liveAllocs()
			if len(la) == 0 {
				break
			}
			ci := verifsim.Pick(rng, la)
			switch rng.Intn(12) {
			case 0, 1: // permission
				p := verifsim.Pick(rng, peers)
				msgs := w.exchange(w.ctl[ci], append([]stun.Setter{&stun.Message{TransactionID: tidBytes(w.newTid())}, stun.NewType(stun.MethodCreatePermission, stun.ClassRequest),
					proto.PeerAddress{IP: p.IP, Port: p.Port}}, w.cred(owner[ci])...))
				if len(msgs) == 1 && msgs[0].Type.Class == stun.ClassSuccessResponse {
					w.step(fmt.Sprintf("TPerm %s %s", coqNetAddr(w.clientAddr(ci)), coqIP(p.IP)), nil)
				}
			case 2, 3, 4: // Connect
				user := owner[ci]
				switch rng.Intn(8) {
				case 0:
					user = 0
				case 1:
					user = 3 - owner[ci]
				}
				var peer *net.TCPAddr
				if !rng.Chance(5) {
					peer = verifsim.Pick(rng, peers)
					if rng.Chance(4) {
						peer = &net.TCPAddr{IP: peer.IP, Port: 0}
					}
				}
				w.dialOK = !rng.Chance(15)
				w.dialed = nil
				tid := w.newTid()
				setters := []stun.Setter{&stun.Message{TransactionID: tidBytes(tid)}, stun.NewType(stun.MethodConnect, stun.ClassRequest)}
				if peer != nil {
					setters = append(setters, proto.PeerAddress{IP: peer.IP, Port: peer.Port})
				}
				msgs := w.exchange(w.ctl[ci], append(setters, w.cred(user)...))
				var acts []string
				cid := uint32(0)
				for _, m := range msgs {
					if m.Type.Method != stun.MethodConnect {
						continue
					}
					if m.Type.Class == stun.ClassSuccessResponse {
						var c proto.ConnectionID
						_ = c.GetFrom(m)
						cid = uint32(c)
						acts = append(acts, fmt.Sprintf("TSuccess %s MConnect %s (Some %d)", coqNetAddr(w.clientAddr(ci)), tidNum(m.TransactionID), cid))
						w.conns = append(w.conns, &c16Conn{cid: cid, peer: peer, pipe: w.dialed, alloc: ci})
					} else {
						var ec stun.ErrorCodeAttribute
						_ = ec.GetFrom(m)
						acts = append(acts, fmt.Sprintf("TError %s MConnect %s %d", coqNetAddr(w.clientAddr(ci)), tidNum(m.TransactionID), int(ec.Code)))
					}
				}
				if cid == 0 && w.dialed != nil { // dialled but not registered: must have been closed again
					if w.dialed.theirs.IsClosed() {
						acts = append(acts, fmt.Sprintf("TPeerClosed %s %s", coqNetAddr(w.relay[ci]), coqNetAddr(peer)))
					}
				}
				pc := "None"
				if peer != nil {
					pc = "(Some " + coqNetAddr(peer) + ")"
				}
				vetoed := peer != nil && policy == 1 && peer.IP.Equal(net.IPv4(10, 1, 0, 3))
				w.step(fmt.Sprintf("TConnect %s %d %s %s %s %s %d", coqNetAddr(w.clientAddr(ci)), tid, c16Opt(user), pc, verifsim.CoqBool(vetoed),
					verifsim.CoqBool(w.dialOK), cid), acts)
			case 5, 6: // inbound peer connection
				peer := verifsim.Pick(rng, peers)
				relay := w.relay[ci]
				l := w.sim.LookupListener(relay.String())
				if l == nil {
					continue
				}
				p := newC16Pipe(peer, relay)
				l.Inject(p.theirs)
				synctest.Wait()
				msgs, _ := c16Frames(w.ctl[ci].take())
				var acts []string
				cid := uint32(0)
				for _, m := range msgs {
					if m.Type.Method == stun.MethodConnectionAttempt && m.Type.Class == stun.ClassIndication {
						var c proto.ConnectionID
						var pa proto.PeerAddress
						_ = c.GetFrom(m)
						_ = pa.GetFrom(m)
						cid = uint32(c)
						acts = append(acts, fmt.Sprintf("TAttempt %s %s %d", coqNetAddr(w.clientAddr(ci)), coqAddr(pa.IP, pa.Port), cid))
						w.conns = append(w.conns, &c16Conn{cid: cid, peer: peer, pipe: p, alloc: ci})
					}
				}
				if cid == 0 && p.theirs.IsClosed() {
					acts = append(acts, fmt.Sprintf("TPeerClosed %s %s", coqNetAddr(relay), coqNetAddr(peer)))
				}
				w.step(fmt.Sprintf("TPeerConn %s %s %d", coqNetAddr(relay), coqNetAddr(peer), cid), acts)
			case 7, 8: // ConnectionBind
				if len(w.conns) == 0 {
					continue
				}
				c := verifsim.Pick(rng, w.conns)
				user := owner[c.alloc]
				switch rng.Intn(8) {
				case 0:
					user = 0
				case 1:
					user = 3 - user
				}
				cidArg := int(c.cid)
				cidCoq := fmt.Sprintf("(Some %d)", c.cid)
				switch rng.Intn(10) {
				case 0:
					cidArg, cidCoq = -1, "None"
				case 1:
					cidArg = int(c.cid) ^ 0x55
					cidCoq = fmt.Sprintf("(Some %d)", cidArg)
				}
				w.dataSeq++
				dn := w.dataSeq
				dp := newC16Pipe(&net.TCPAddr{IP: net.IPv4(10, 0, 0, 2), Port: 6000 + dn}, w.serverAddr())
				w.ln.Inject(dp.theirs)
				tid := w.newTid()
				setters := []stun.Setter{&stun.Message{TransactionID: tidBytes(tid)}, stun.NewType(stun.MethodConnectionBind, stun.ClassRequest)}
				if cidArg >= 0 {
					setters = append(setters, proto.ConnectionID(cidArg))
				}
				msgs := w.exchange(dp, append(setters, w.cred(user)...))
				var acts []string
				for _, m := range msgs {
					if m.Type.Method != stun.MethodConnectionBind {
						continue
					}
					if m.Type.Class == stun.ClassSuccessResponse {
						var k proto.ConnectionID
						_ = k.GetFrom(m)
						acts = append(acts, fmt.Sprintf("TBindSuccess %d %s %d", dn, tidNum(m.TransactionID), uint32(k)))
						if uint32(k) == c.cid && cidArg == int(c.cid) {
							c.data, c.dataN = dp, dn
						}
					} else {
						var ec stun.ErrorCodeAttribute
						_ = ec.GetFrom(m)
						acts = append(acts, fmt.Sprintf("TBindError %d %s %d", dn, tidNum(m.TransactionID), int(ec.Code)))
					}
				}
				w.step(fmt.Sprintf("TConnBind %d %d %s %s", dn, tid, c16Opt(user), cidCoq), acts)
			case 9: // data through a (supposedly) bound pair, both directions, arbitrary segmentation
				if len(w.conns) == 0 {
					continue
				}
				c := verifsim.Pick(rng, w.conns)
				if c.pipe == nil {
					continue
				}
				fromClient := rng.Bool()
				d := rng.Bytes(1 + rng.Intn(300))
				if rng.Chance(30) { // bytes that look like TURN framing must pass untouched too
					copy(d, []byte{0x40, 0x00, 0x00, 0x04, 0x21, 0x12, 0xA4, 0x42})
				}
				src, dst := c.pipe, c.data
				if fromClient {
					src, dst = c.data, c.pipe
				}
				var acts []string
				if src != nil {
					p := 0
					for p < len(d) {
						q := p + 1 + rng.Intn(1+rng.Intn(64))
						if q > len(d) {
							q = len(d)
						}
						if _, err := src.mine.Write(d[p:q]); err != nil {
							break
						}
						p = q
					}
					synctest.Wait()
					if dst != nil {
						if got := dst.take(); len(got) > 0 {
							acts = append(acts, fmt.Sprintf("TDeliver %d %s %s", c.cid, verifsim.CoqBool(!fromClient), verifsim.CoqBytes(got)))
						}
					}
				}
				if src == nil { // nothing can be written on a side that does not exist
					continue
				}
				w.step(fmt.Sprintf("TData %d %s %s", c.cid, verifsim.CoqBool(fromClient), verifsim.CoqBytes(d)), append(acts, w.sweepClosed(seen)...))
			case 10: // one side closes
				if len(w.conns) == 0 {
					continue
				}
				c := verifsim.Pick(rng, w.conns)
				clientSide := rng.Bool()
				if c.data == nil || c.pipe == nil { // only bound pairs are closed from outside (an unbound peer connection is not read by the server)
					continue
				}
				if clientSide {
					_ = c.data.mine.Close()
					seen[c.data.theirs] = true
				} else {
					_ = c.pipe.mine.Close()
					seen[c.pipe.theirs] = true
				}
				synctest.Wait()
				w.step(fmt.Sprintf("TCloseSide %d %s", c.cid, verifsim.CoqBool(clientSide)), w.sweepClosed(seen))
			default: // time: around the 30 s bind deadline
				d := verifsim.Pick(rng, []time.Duration{time.Second, 10 * time.Second, 29 * time.Second, 30*time.Second - 777*time.Microsecond,
					30*time.Second + 777*time.Microsecond, 31 * time.Second, time.Millisecond})
				time.Sleep(d)
				synctest.Wait()
				w.step(fmt.Sprintf("TTick %d", int64(d)), w.sweepClosed(seen))
			}
		}
		// the allocations end: everything they owned must be closed
		for _, ci := range liveAllocs() {
			msgs := w.exchange(w.ctl[ci], append([]stun.Setter{&stun.Message{TransactionID: tidBytes(w.newTid())}, stun.NewType(stun.MethodRefresh, stun.ClassRequest),
				proto.Lifetime{}}, w.cred(owner[ci])...))
			_ = msgs
			for _, c := range w.conns {
				if c.alloc == ci && c.data != nil && c.data.mine.IsClosed() {
					seen[c.data.theirs] = true
				}
			}
			w.step(fmt.Sprintf("TEnd %s", coqNetAddr(w.clientAddr(ci))), w.sweepClosed(seen))
			delete(w.relay, ci)
		}
		term = fmt.Sprintf("TC [\n  %s\n]", strings.Join(w.steps, ";\n  "))
		nontrivial = w.nontriv
		_ = w.srv.Close()
		for _, p := range c16All {
			_ = p.mine.Close()
			_ = p.theirs.Close()
		}
		c16All = nil
		synctest.Wait()
	})
	return
}

func TestVerif_C16(t *testing.T) { c16Campaign(t, "C16", "C16", "C16Check", 1616) }

// the same multi-allocation TCP-relay histories, judged by C04's isolation predicate (Check/C04TcpCheck.v)
func TestVerif_C04TCP(t *testing.T) { c16Campaign(t, "C04", "C04tcp", "C04TcpCheck", 404) }

// ... and by C03's "ConnectionBind only for the owner's user; a refused ConnectionBind changes nothing" (Check/C03TcpCheck.v)
func TestVerif_C03TCP(t *testing.T) { c16Campaign(t, "C03", "C03tcp", "C03TcpCheck", 303) }

// ... and by C09's "no well-formed request sequence wedges the server" (Check/C09TcpCheck.v)
func TestVerif_C09TCP(t *testing.T) { c16Campaign(t, "C09", "C09tcp", "C09TcpCheck", 909) }

func c16Campaign(t *testing.T, prop, colName, module string, seedOff uint64) {
	// a goroutine stuck on a mutex keeps a synctest bubble from ever becoming idle: report it in real time
	watchdog := time.AfterFunc(90*time.Second, func() {
		fmt.Printf("VERIF-VIOLATION %s the server stopped making progress (a lock is never released / a goroutine spins): no progress for 90 s of real time; history so far: %s\n", prop, c16Last)
		os.Exit(3)
	})
	defer watchdog.Stop()
	rng := verifsim.NewRNG(verifsim.Seed() + seedOff)
	col := verifsim.NewCollector(colName, module)
	col.PerFile = 40
	n := 120
	if verifsim.Thorough() {
		n = 2500
	}
	for i := 0; i < n; i++ {
		term, nontrivial := runC16History(t, rng, 10+rng.Intn(25))
		col.Add("history", "history", nontrivial, term)
	}
	if err := col.Flush(); err != nil {
		t.Fatal(err)
	}
}
