//go:build verif

package turn

// C18, client part: forced schedules on the real Client's transaction machinery. The application-supplied
// PacketConn is one of the "callbacks the library invokes": its WriteTo is made slow (parked) at a chosen
// transmission, and while it is parked a response arrives, the client is closed, or another transaction
// starts; then the write returns (with or without an error). Afterwards everything must come to an end:
// every PerformTransaction returns, HandleInbound and Close return, the transaction table is empty, and
// nothing panics.

import (
	"encoding/binary"
	"errors"
	"fmt"
	"net"
	"os"
	"strings"
	"sync"
	"syscall"
	"testing"
	"time"

	"github.com/pion/logging"
	"github.com/pion/stun/v3"
	"github.com/pion/turn/v5/internal/client"
	"github.com/pion/turn/v5/internal/verifsim"
)

func c18RealSleep(d time.Duration) {
	ts := syscall.NsecToTimespec(int64(d))
	_ = syscall.Nanosleep(&ts, nil)
}

type c18Conn struct {
	mu      sync.Mutex
	count   map[int]int
	slow    map[[2]int]bool // (tid, k-th transmission) parks
	parked  chan [2]int
	release chan error
	closed  chan struct{}
	nparked int
}

func (c *c18Conn) WriteTo(p []byte, _ net.Addr) (int, error) {
	m := &stun.Message{Raw: append([]byte{}, p...)}
	if err := m.Decode(); err != nil {
		return 0, err
	}
	id := int(binary.BigEndian.Uint64(m.TransactionID[4:]))
	c.mu.Lock()
	k := c.count[id]
	c.count[id] = k + 1
	slow := c.slow[[2]int{id, k}]
	c.mu.Unlock()
	if slow {
		c.parked <- [2]int{id, k}
		if err := <-c.release; err != nil {
			return 0, err
		}
	}
	return len(p), nil
}
func (c *c18Conn) ReadFrom([]byte) (int, net.Addr, error) { <-c.closed; return 0, nil, net.ErrClosed }
func (c *c18Conn) Close() error                           { return nil }
func (c *c18Conn) LocalAddr() net.Addr                    { return &net.UDPAddr{IP: net.IPv4(10, 0, 0, 2), Port: 5000} }
func (c *c18Conn) SetDeadline(time.Time) error            { return nil }
func (c *c18Conn) SetReadDeadline(time.Time) error        { return nil }
func (c *c18Conn) SetWriteDeadline(time.Time) error       { return nil }

type c18Task struct {
	name string
	done chan struct{}
	st   string // running done
}

type c18World struct {
	conn    *c18Conn
	cl      *Client
	srv     net.Addr
	tasks   []*c18Task
	parkedW bool // a write is parked
	log     []string
}

func newC18World(rto time.Duration, slow map[[2]int]bool) *c18World {
	lf := logging.NewDefaultLoggerFactory()
	lf.DefaultLogLevel = logging.LogLevelDisabled
	conn := &c18Conn{count: map[int]int{}, slow: slow, parked: make(chan [2]int, 8), release: make(chan error), closed: make(chan struct{})}
	cl := &Client{conn: conn, trMap: client.NewTransactionMap(), rto: rto, log: lf.NewLogger("verif")}
	return &c18World{conn: conn, cl: cl, srv: &net.UDPAddr{IP: net.IPv4(10, 0, 0, 1), Port: 3478}}
}

func (w *c18World) spawn(name string, f func()) *c18Task {
	t := &c18Task{name: name, done: make(chan struct{}), st: "running"}
	w.tasks = append(w.tasks, t)
	go func() {
		defer close(t.done)
		f()
	}()
	return t
}

// settle: wait (in real time) until nothing moves any more: every task is done, or parked in the slow write,
// or blocked (on a mutex or a channel)
func (w *c18World) settle() {
	quiet := 0
	for i := 0; i < 4000 && quiet < 25; i++ {
		moved := false
		select {
		case <-w.conn.parked:
			w.parkedW = true
			moved = true
		default:
		}
		for _, t := range w.tasks {
			if t.st == "running" {
				select {
				case <-t.done:
					t.st = "done"
					moved = true
				default:
				}
			}
		}
		if moved {
			quiet = 0
		} else {
			quiet++
		}
		c18RealSleep(100 * time.Microsecond)
	}
}

func (w *c18World) running() []string {
	var l []string
	for _, t := range w.tasks {
		if t.st == "running" {
			l = append(l, t.name)
		}
	}
	return l
}

func (w *c18World) perform(id int, ignore bool) {
	msg, _ := stun.Build(&stun.Message{TransactionID: tidBytes(id)}, stun.BindingRequest)
	w.spawn(fmt.Sprintf("PerformTransaction(%d)", id), func() {
		_, _ = w.cl.PerformTransaction(msg, w.srv, ignore)
	})
	w.settle()
}

func (w *c18World) resp(id int) {
	m, _ := stun.Build(&stun.Message{TransactionID: tidBytes(id)}, stun.BindingSuccess)
	w.spawn(fmt.Sprintf("HandleInbound(resp %d)", id), func() {
		_, _ = w.cl.HandleInbound(m.Raw, w.srv)
	})
	w.settle()
}

func (w *c18World) closeClient() {
	w.spawn("Close", func() { w.cl.Close() })
	w.settle()
}

// tick lets (real) time pass. This harness runs in real time: a goroutine waiting for a sync.Mutex is not a
// durable block for testing/synctest, so a virtual clock would stall exactly in the schedules of interest. No
// verdict depends on timing: the order of events is forced by the parked write, and a lock-up is only declared
// after seconds without progress.
func (w *c18World) tick(d time.Duration) {
	deadline := time.Now().Add(d)
	for time.Now().Before(deadline) && !w.parkedW {
		select {
		case <-w.conn.parked:
			w.parkedW = true
		default:
			time.Sleep(200 * time.Microsecond)
		}
	}
	w.settle()
}

// awaitPark waits until the scripted slow write has been reached (or gives up: the schedule then simply goes on)
func (w *c18World) awaitPark() {
	deadline := time.Now().Add(400 * time.Millisecond)
	for time.Now().Before(deadline) && !w.parkedW {
		select {
		case <-w.conn.parked:
			w.parkedW = true
		default:
			time.Sleep(200 * time.Microsecond)
		}
	}
	w.settle()
}

func (w *c18World) releaseWrite(err error) {
	if !w.parkedW {
		return
	}
	w.parkedW = false
	w.conn.release <- err
	w.settle()
}

type c18Op struct {
	kind string // perform performIgnore resp close tick release releaseErr
	id   int
	d    time.Duration
}

func (o c18Op) String() string {
	switch o.kind {
	case "tick":
		return fmt.Sprintf("tick(%s)", o.d)
	case "perform", "performIgnore", "resp":
		return fmt.Sprintf("%s(%d)", o.kind, o.id)
	}
	return o.kind
}

func runC18ClientSchedule(t *testing.T, col *verifsim.Collector, kind string, rto time.Duration, slow map[[2]int]bool, ops []c18Op) {
	var od []string
	for _, o := range ops {
		od = append(od, o.String())
	}
	var sl []string
	for k := range slow {
		sl = append(sl, fmt.Sprintf("tid%d#%d", k[0], k[1]))
	}
	desc := fmt.Sprintf("client rto=%s slow-writes=[%s] ops=[%s]", rto, strings.Join(sl, " "), strings.Join(od, " "))
	fmt.Printf("VERIF-SCHEDULE C18 %s\n", desc)
	allDone, tableEmpty := true, true
	{
		w := newC18World(rto, slow)
		for _, o := range ops {
			switch o.kind {
			case "perform":
				w.perform(o.id, false)
			case "performIgnore":
				w.perform(o.id, true)
			case "resp":
				w.resp(o.id)
			case "close":
				w.closeClient()
			case "release":
				w.releaseWrite(nil)
			case "releaseErr":
				w.releaseWrite(errors.New("sim: write error"))
			case "tick":
				w.tick(o.d)
			case "await":
				w.awaitPark()
			}
		}
		// drain: let every parked write return, close, let writes parked meanwhile return
		for i := 0; i < 3; i++ {
			w.releaseWrite(nil)
		}
		w.closeClient()
		deadline := time.Now().Add(4 * time.Second)
		for len(w.running()) > 0 && time.Now().Before(deadline) {
			w.releaseWrite(nil)
			w.settle()
		}
		if r := w.running(); len(r) > 0 {
			allDone = false
			// goroutines are stuck for good. Report and leave.
			col.Add(kind, "client-lockup", true, fmt.Sprintf("CL %d false %s", len(ops), verifsim.CoqBool(w.cl.trMap.Size() == 0)))
			_ = col.Flush()
			fmt.Printf("VERIF-VIOLATION C18 lock-up: %s never returned; schedule: %s\n", strings.Join(r, ", "), desc)
			os.Exit(3)
		}
		tableEmpty = w.cl.trMap.Size() == 0
		close(w.conn.closed)
	}
	col.Add(kind, kind, true, fmt.Sprintf("CL %d %s %s", len(ops), verifsim.CoqBool(allDone), verifsim.CoqBool(tableEmpty)))
}

func TestVerif_C18Client(t *testing.T) { c18ClientCampaign(t, "C18client") }

// the same forced schedules (a slow PacketConn.WriteTo at the k-th transmission; meanwhile a response, Close, another
// transaction; then the write returns with or without an error) for C12: every transaction completes exactly once - a second
// completion blocks or panics on the result channel -, every call returns and Close leaves the table empty
func TestVerif_C12Slow(t *testing.T) { c18ClientCampaign(t, "C12slow") }

func c18ClientCampaign(t *testing.T, colName string) { //nolint:cyclop
	rng := verifsim.NewRNG(verifsim.Seed() + 1819)
	col := verifsim.NewCollector(colName, "C18Check")
	col.PerFile = 400
	rto := 25 * time.Millisecond
	P := func(id int) c18Op { return c18Op{kind: "perform", id: id} }
	PI := func(id int) c18Op { return c18Op{kind: "performIgnore", id: id} }
	R := func(id int) c18Op { return c18Op{kind: "resp", id: id} }
	T := func(d time.Duration) c18Op { return c18Op{kind: "tick", d: d} }
	X := c18Op{kind: "close"}
	OK, ERR := c18Op{kind: "release"}, c18Op{kind: "releaseErr"}
	eps := 2 * time.Millisecond
	// the k-th transmission (k = 0 the initial write, 1.. retransmissions) is slow; meanwhile: response / close / nothing
	for k := 0; k <= 2; k++ {
		var pre []c18Op
		pre = append(pre, P(1))
		elapsed := time.Duration(0)
		iv := rto
		for j := 0; j < k; j++ {
			elapsed += iv
			iv *= 2
		}
		_ = elapsed
		pre = append(pre, c18Op{kind: "await"})
		for _, during := range [][]c18Op{{}, {R(1)}, {X}, {R(1), X}, {X, R(1)}, {P(2), R(2)}, {R(7)}} {
			for _, rel := range []c18Op{OK, ERR} {
				ops := append(append(append([]c18Op{}, pre...), during...), rel, T(5*time.Millisecond), R(1))
				runC18ClientSchedule(t, col, fmt.Sprintf("slow-write-%d", k), rto, map[[2]int]bool{{1, k}: true}, ops)
			}
		}
	}
	// fire-and-forget transactions and Close
	runC18ClientSchedule(t, col, "ignore-result", rto, map[[2]int]bool{{1, 1}: true}, []c18Op{PI(1), {kind: "await"}, X, ERR})
	runC18ClientSchedule(t, col, "ignore-result", rto, map[[2]int]bool{{1, 1}: true}, []c18Op{PI(1), {kind: "await"}, R(1), OK, X})
	n := 30
	if verifsim.Thorough() {
		n = 600
	}
	for i := 0; i < n; i++ {
		slow := map[[2]int]bool{{1 + rng.Intn(2), rng.Intn(3)}: true}
		if rng.Chance(30) {
			slow[[2]int{1 + rng.Intn(2), 1 + rng.Intn(3)}] = true
		}
		var ops []c18Op
		started := map[int]bool{}
		for j := 0; j < 4+rng.Intn(8); j++ {
			switch rng.Intn(9) {
			case 0, 1:
				id := 1 + rng.Intn(2)
				if !started[id] {
					started[id] = true
					if rng.Chance(15) {
						ops = append(ops, PI(id))
					} else {
						ops = append(ops, P(id))
					}
				}
			case 2, 3:
				ops = append(ops, R(1+rng.Intn(3)))
			case 4:
				if rng.Chance(30) {
					ops = append(ops, X)
				}
			case 5:
				ops = append(ops, OK)
			case 6:
				ops = append(ops, ERR)
			default:
				if rng.Chance(50) {
					ops = append(ops, c18Op{kind: "await"})
				} else {
					ops = append(ops, T(verifsim.Pick(rng, []time.Duration{eps, rto + eps, 2*rto + eps})))
				}
			}
		}
		runC18ClientSchedule(t, col, "random", rto, slow, ops)
	}
	if err := col.Flush(); err != nil {
		t.Fatal(err)
	}
}
