//go:build verif

package turn

import (
	"encoding/binary"
	"errors"
	"fmt"
	"net"
	"sort"
	"strings"
	"sync"
	"testing"
	"testing/synctest"
	"time"

	"github.com/pion/logging"
	"github.com/pion/stun/v3"
	"github.com/pion/turn/v5/internal/client"
	"github.com/pion/turn/v5/internal/verifsim"
)

// c12Conn is the client's socket: it records every transmission and fails the scripted ones.
type c12Conn struct {
	mu     sync.Mutex
	start  time.Time
	fail   map[[2]int]bool // (tid, k-th transmission) -> write error
	count  map[int]int
	acts   []string
	closed chan struct{}
}

func (c *c12Conn) WriteTo(p []byte, _ net.Addr) (int, error) {
	c.mu.Lock()
	defer c.mu.Unlock()
	m := &stun.Message{Raw: append([]byte{}, p...)}
	if err := m.Decode(); err != nil {
		return 0, err
	}
	id := int(binary.BigEndian.Uint64(m.TransactionID[4:]))
	k := c.count[id]
	c.count[id] = k + 1
	if c.fail[[2]int{id, k}] {
		return 0, errors.New("sim: write error")
	}
	c.acts = append(c.acts, fmt.Sprintf("Sent %d %d %d", id, k, int64(time.Since(c.start))))
	return len(p), nil
}
func (c *c12Conn) ReadFrom([]byte) (int, net.Addr, error) { <-c.closed; return 0, nil, net.ErrClosed }
func (c *c12Conn) Close() error                            { return nil }
func (c *c12Conn) LocalAddr() net.Addr                     { return &net.UDPAddr{IP: net.IPv4(10, 0, 0, 2), Port: 5000} }
func (c *c12Conn) SetDeadline(time.Time) error             { return nil }
func (c *c12Conn) SetReadDeadline(time.Time) error         { return nil }
func (c *c12Conn) SetWriteDeadline(time.Time) error        { return nil }

type c12World struct {
	t     *testing.T
	conn  *c12Conn
	cl    *Client
	steps []string
	wg    sync.WaitGroup
	srv   net.Addr
}

func newC12World(t *testing.T, rto time.Duration, fail map[[2]int]bool) *c12World {
	lf := logging.NewDefaultLoggerFactory()
	lf.DefaultLogLevel = logging.LogLevelDisabled
	conn := &c12Conn{start: time.Now(), fail: fail, count: map[int]int{}, closed: make(chan struct{})}
	cl := &Client{conn: conn, trMap: client.NewTransactionMap(), rto: rto, log: lf.NewLogger("verif")}
	return &c12World{t: t, conn: conn, cl: cl, srv: &net.UDPAddr{IP: net.IPv4(10, 0, 0, 1), Port: 3478}}
}

func (w *c12World) settle(ev string) {
	synctest.Wait()
	w.conn.mu.Lock()
	acts := w.conn.acts
	w.conn.acts = nil
	w.conn.mu.Unlock()
	sort.Strings(acts)
	w.steps = append(w.steps, fmt.Sprintf("OS (%s) [%s] %d", ev, strings.Join(acts, "; "), w.cl.trMap.Size()))
}

func (w *c12World) record(s string) {
	w.conn.mu.Lock()
	w.conn.acts = append(w.conn.acts, s)
	w.conn.mu.Unlock()
}

func (w *c12World) start(id int, ignore bool) {
	msg, err := stun.Build(&stun.Message{TransactionID: tidBytes(id)}, stun.BindingRequest)
	if err != nil {
		w.t.Fatal(err)
	}
	w.wg.Add(1)
	go func() {
		defer w.wg.Done()
		res, err := w.cl.PerformTransaction(msg, w.srv, ignore)
		at := int64(time.Since(w.conn.start))
		switch {
		case err == nil && ignore:
			// returns at once without a result
		case err == nil:
			if res.Msg != nil && res.Msg.TransactionID == msg.TransactionID {
				w.record(fmt.Sprintf("Result %d ROk %d", id, at))
			} else {
				w.record(fmt.Sprintf("Result %d ROk %d", id+1000000, at)) // somebody else's response
			}
		case errors.Is(err, errAllRetransmissionsFailed):
			w.record(fmt.Sprintf("Result %d RErrAllFailed %d", id, at))
		case errors.Is(err, errFailedToRetransmitTransaction) || strings.Contains(err.Error(), "sim: write error"):
			if !ignore || strings.Contains(err.Error(), "sim: write error") {
				w.record(fmt.Sprintf("Result %d RErrWrite %d", id, at))
			}
		default:
			w.record(fmt.Sprintf("Result %d RErrClosed %d", id, at))
		}
	}()
	w.settle(fmt.Sprintf("EStart %d %s", id, verifsim.CoqBool(ignore)))
}

func (w *c12World) resp(id int) {
	m, err := stun.Build(&stun.Message{TransactionID: tidBytes(id)}, stun.BindingSuccess)
	if err != nil {
		w.t.Fatal(err)
	}
	done := make(chan struct{})
	var inErr error
	go func() {
		_, inErr = w.cl.HandleInbound(m.Raw, w.srv)
		close(done)
	}()
	synctest.Wait()
	select {
	case <-done:
		if inErr != nil {
			// "responses with other IDs, duplicates and late arrivals are ignored": an error return is not ignoring - it ends
			// the read loop of a client started with Listen
			fmt.Printf("VERIF-VIOLATION C12 Client.HandleInbound returned an error (%v) for a well-formed response with transaction id %d instead of ignoring it (steps so far: %s)\n", inErr, id, strings.Join(w.steps, "; "))
			w.record(fmt.Sprintf("Result %d ROk %d", 8000000+id, 0)) // shows up as a bogus action
		}
	default:
		fmt.Printf("VERIF-VIOLATION C12 Client.HandleInbound blocked forever on a response with transaction id %d (steps so far: %s)\n", id, strings.Join(w.steps, "; "))
		w.record(fmt.Sprintf("Result %d ROk %d", 9000000+id, 0)) // HandleInbound is stuck: shows up as a bogus action
	}
	w.settle(fmt.Sprintf("EResp %d", id))
}

func (w *c12World) tick(d time.Duration) {
	time.Sleep(d)
	w.settle(fmt.Sprintf("ETick %d", int64(d)))
}

func (w *c12World) closeClient() {
	w.cl.Close()
	w.settle("EClose")
}

func (w *c12World) term(rto time.Duration, fail map[[2]int]bool) string {
	var fs []string
	for k := range fail {
		fs = append(fs, fmt.Sprintf("(%d%%N, %d%%nat)", k[0], k[1]))
	}
	sort.Strings(fs)
	return fmt.Sprintf("TC %d [%s] [\n  %s\n]", int64(rto), strings.Join(fs, "; "), strings.Join(w.steps, ";\n  "))
}

// intervals of the retransmission schedule, for placing responses on either side of each timer
func c12Intervals(rto time.Duration) []time.Duration {
	out := []time.Duration{rto}
	for i := 1; i < 7; i++ {
		n := out[i-1] * 2
		if n > 1600*time.Millisecond {
			n = 1600 * time.Millisecond
		}
		out = append(out, n)
	}
	return out
}

func TestVerif_C12(t *testing.T) { //nolint:cyclop
	rng := verifsim.NewRNG(verifsim.Seed() + 1212)
	col := verifsim.NewCollector("C12", "C12Check")
	col.PerFile = 60
	thorough := verifsim.Thorough()
	rtos := []time.Duration{time.Millisecond, 200 * time.Millisecond, 1600 * time.Millisecond, 100 * time.Millisecond, 700 * time.Millisecond}
	history := func(kind string, rto time.Duration, fail map[[2]int]bool, f func(w *c12World)) {
		var term string
		synctest.Test(t, func(t *testing.T) {
			w := newC12World(t, rto, fail)
			f(w)
			// everything must come to an end: wait out the longest possible transaction, then close
			w.tick(13 * time.Second)
			w.closeClient()
			w.wg.Wait()
			close(w.conn.closed)
			term = w.term(rto, fail)
		})
		col.Add(kind, kind, true, term)
	}
	eps := func() time.Duration { return time.Duration(1001+2*rng.Intn(40000)) * time.Nanosecond }
	for _, rto := range rtos {
		iv := c12Intervals(rto)
		// (1) a response after transmission k, on either side of the next timer; with duplicates and a foreign id
		for k := 0; k <= 7; k++ {
			for _, side := range []int{-1, +1} {
				history("response-after-k", rto, nil, func(w *c12World) {
					w.start(1, false)
					var elapsed time.Duration
					for j := 0; j < k && j < 7; j++ {
						elapsed += iv[j]
					}
					target := elapsed + time.Duration(side)*eps()
					if target > 0 {
						w.tick(target)
					}
					w.resp(7) // other id
					w.resp(1)
					w.resp(1) // duplicate
					w.tick(verifsim.Pick(rng, []time.Duration{time.Millisecond, rto, 2 * time.Second}))
					w.resp(1) // late
				})
			}
		}
		// (2) write error at transmission k
		for k := 0; k < 7; k++ {
			history("write-error-at-k", rto, map[[2]int]bool{{1, k}: true}, func(w *c12World) {
				w.start(1, rng.Chance(20))
				w.tick(500 * time.Millisecond)
				w.tick(3 * time.Second)
			})
		}
		// (3) Close at each point
		for k := 0; k <= 7; k++ {
			history("close-at-k", rto, nil, func(w *c12World) {
				w.start(1, false)
				w.start(2, true)
				var elapsed time.Duration
				for j := 0; j < k && j < 7; j++ {
					elapsed += iv[j]
				}
				w.tick(elapsed + eps())
				w.closeClient()
				w.resp(1)
				w.tick(2 * time.Second)
			})
		}
		// (4) no response at all: the full schedule
		history("no-response", rto, nil, func(w *c12World) {
			w.start(1, false)
			for range 10 {
				w.tick(verifsim.Pick(rng, []time.Duration{rto, rto / 2, 1600 * time.Millisecond, time.Millisecond}))
			}
		})
	}
	// (5) concurrent transactions with interleaved responses, random
	nrand := 60
	if thorough {
		nrand = 1500
	}
	for i := 0; i < nrand; i++ {
		rto := verifsim.Pick(rng, rtos)
		fail := map[[2]int]bool{}
		if rng.Chance(30) {
			fail[[2]int{1 + rng.Intn(3), rng.Intn(7)}] = true
		}
		history("concurrent", rto, fail, func(w *c12World) {
			started := 0
			for range 6 + rng.Intn(10) {
				switch rng.Intn(10) {
				case 0, 1, 2:
					if started < 4 {
						started++
						w.start(started, rng.Chance(15))
					}
				case 3, 4, 5:
					w.resp(1 + rng.Intn(5))
				case 6:
					if rng.Chance(15) {
						w.closeClient()
					}
				default:
					w.tick(verifsim.Pick(rng, []time.Duration{eps(), rto - eps(), rto + eps(), 2*rto + eps(), 1600 * time.Millisecond, 3 * time.Second}))
				}
			}
		})
	}
	if err := col.Flush(); err != nil {
		t.Fatal(err)
	}
}
