//go:build verif

package turn

import (
	"fmt"
	"net"
	"os"
	"sort"
	"strings"
	"sync"
	"testing"
	"testing/synctest"
	"time"

	"github.com/pion/logging"
	"github.com/pion/stun/v3"
	"github.com/pion/transport/v4"
	"github.com/pion/turn/v5/internal/proto"
	"github.com/pion/turn/v5/internal/verifsim"
)

type c14Net struct{ transport.Net }

func (c14Net) ResolveUDPAddr(network, address string) (*net.UDPAddr, error) {
	return net.ResolveUDPAddr(network, address)
}

type c14Req struct {
	method stun.Method
	at     time.Duration
	peers  []string // XOR-PEER-ADDRESS ips (CreatePermission) / the bound peer (ChannelBind)
	chanNo int
	ok     bool
}

type c14World struct {
	mu       sync.Mutex
	rng      *verifsim.RNG
	sim      *verifsim.SimNet
	start    time.Time
	srvConn  *verifsim.SimPacketConn
	cliConn  *verifsim.SimPacketConn
	reqs     map[[12]byte]*c14Req // by transaction id, delivered to the server
	order    [][12]byte
	dropReq  map[[12]byte]int // transmissions of this transaction still to be lost
	dropResp map[[12]byte]int
	peerGot  map[string][]string // peer addr -> payloads
	lossy    bool
	refresh0 bool
}

func (w *c14World) hook(o verifsim.Outgoing) bool {
	w.mu.Lock()
	defer w.mu.Unlock()
	from, to := o.From.String(), o.To.String()
	switch {
	case from == w.cliConn.LocalAddr().String() && to == w.srvConn.LocalAddr().String():
		if !proto.IsChannelData(o.Data) {
			m := &stun.Message{Raw: append([]byte{}, o.Data...)}
			if m.Decode() == nil && m.Type.Class == stun.ClassRequest {
				tid := m.TransactionID
				if _, seen := w.dropReq[tid]; !seen {
					k := 0
					if w.lossy {
						k = verifsim.Pick(w.rng, []int{0, 0, 0, 1, 2, 3, 5})
					}
					w.dropReq[tid] = k
					w.dropResp[tid] = 0
					if w.lossy && w.rng.Chance(20) && k <= 2 {
						w.dropResp[tid] = 1 + w.rng.Intn(2)
					}
				}
				if w.dropReq[tid] > 0 {
					w.dropReq[tid]--
					return true // lost
				}
				if _, ok := w.reqs[tid]; !ok {
					r := &c14Req{method: m.Type.Method, at: time.Since(w.start)}
					_ = m.ForEach(stun.AttrXORPeerAddress, func(mm *stun.Message) error {
						var pa proto.PeerAddress
						if pa.GetFrom(mm) == nil {
							r.peers = append(r.peers, (&net.UDPAddr{IP: pa.IP, Port: pa.Port}).String())
						}
						return nil
					})
					var cn proto.ChannelNumber
					if cn.GetFrom(m) == nil {
						r.chanNo = int(cn)
					}
					var lt proto.Lifetime
					if m.Type.Method == stun.MethodRefresh && lt.GetFrom(m) == nil && lt.Duration == 0 {
						w.refresh0 = true
					}
					w.reqs[tid] = r
					w.order = append(w.order, tid)
				} else {
					w.reqs[tid].at = time.Since(w.start) // a retransmission processed again: the state is re-armed again
				}
			}
		}
		w.srvConn.Inject(o.From, o.Data)
		return true
	case from == w.srvConn.LocalAddr().String() && to == w.cliConn.LocalAddr().String():
		if !proto.IsChannelData(o.Data) {
			m := &stun.Message{Raw: append([]byte{}, o.Data...)}
			if m.Decode() == nil && (m.Type.Class == stun.ClassSuccessResponse || m.Type.Class == stun.ClassErrorResponse) {
				tid := m.TransactionID
				if r, ok := w.reqs[tid]; ok && m.Type.Class == stun.ClassSuccessResponse {
					r.ok = true
				}
				if w.dropResp[tid] > 0 {
					w.dropResp[tid]--
					return true
				}
			}
		}
		w.cliConn.Inject(o.From, o.Data)
		return true
	default: // relay socket -> peer
		w.peerGot[to] = append(w.peerGot[to], string(o.Data))
		return true
	}
}

func runC14(t *testing.T, rng *verifsim.RNG, col *verifsim.Collector, variant int, hours int) {
	synctest.Test(t, func(t *testing.T) {
		lf := logging.NewDefaultLoggerFactory()
		lf.DefaultLogLevel = logging.LogLevelDisabled
		w := &c14World{rng: verifsim.NewRNG(rng.U64()), sim: verifsim.NewSimNet(), start: time.Now(), reqs: map[[12]byte]*c14Req{}, dropReq: map[[12]byte]int{},
			dropResp: map[[12]byte]int{}, peerGot: map[string][]string{}, lossy: variant%2 == 1}
		w.srvConn, _ = w.sim.NewPacketConn(&net.UDPAddr{IP: net.IPv4(10, 0, 0, 1), Port: 3478})
		w.cliConn, _ = w.sim.NewPacketConn(&net.UDPAddr{IP: net.IPv4(10, 0, 0, 2), Port: 5000})
		w.sim.OnWrite = w.hook
		rw := &relayWorld{net: w.sim, nextPort: 49152}
		allocLife, permT, chanT := time.Duration(0), time.Duration(0), time.Duration(0) // server defaults: 10 min / 5 min / 10 min
		if variant >= 2 {
			allocLife, permT, chanT = 20*time.Minute, 4*time.Minute, 7*time.Minute
		}
		srv, err := NewServer(ServerConfig{
			PacketConnConfigs: []PacketConnConfig{{PacketConn: w.srvConn, RelayAddressGenerator: &relayGen{rw}}},
			Realm:             "realm1", LoggerFactory: lf, AllocationLifetime: allocLife, PermissionTimeout: permT, ChannelBindTimeout: chanT,
			AuthHandler: func(ra *RequestAttributes) (string, []byte, bool) {
				return "uid1", GenerateAuthKey("user1", "realm1", "pw1"), ra.Username == "user1"
			},
		})
		if err != nil {
			t.Fatal(err)
		}
		cl, err := NewClient(&ClientConfig{Conn: w.cliConn, TURNServerAddr: "10.0.0.1:3478", STUNServerAddr: "10.0.0.1:3478",
			Username: "user1", Password: "pw1", Realm: "realm1", Net: c14Net{}, LoggerFactory: lf})
		if err != nil {
			t.Fatal(err)
		}
		if err := cl.Listen(); err != nil {
			t.Fatal(err)
		}
		relay, err := cl.Allocate()
		if err != nil {
			t.Fatalf("allocate: %v", err)
		}
		relayAddr := relay.LocalAddr().(*net.UDPAddr)
		peers := []*net.UDPAddr{{IP: net.IPv4(10, 1, 0, 1), Port: 7000}, {IP: net.IPv4(10, 1, 0, 2), Port: 7000}, {IP: net.IPv4(10, 1, 0, 2), Port: 7001}}
		npeers := 1 + variant%3
		if variant >= 8 {
			npeers = 0 // no peer at all: the allocation refresher is the only periodic transaction (and the only one to meet a stale nonce)
		}
		// reader
		var rmu sync.Mutex
		got := map[string]bool{}
		go func() {
			buf := make([]byte, 2048)
			for {
				n, from, err := relay.ReadFrom(buf)
				if err != nil {
					return
				}
				rmu.Lock()
				got[from.String()+"|"+string(buf[:n])] = true
				rmu.Unlock()
			}
		}()
		// establish permissions / bindings
		for i := 0; i < npeers; i++ {
			if _, err := relay.WriteTo([]byte("hello"), peers[i]); err != nil {
				t.Fatalf("first write: %v", err)
			}
		}
		idle := variant%4 >= 2 // long periods without application traffic toward the peers
		minutes := hours * 60
		for m := 1; m <= minutes; m++ {
			time.Sleep(time.Minute - time.Duration(rng.Intn(1000))*time.Microsecond)
			probe := !idle || m%17 == 0 || m > minutes-3
			c2p, p2c := true, true
			// well after the first nonce has gone stale, the application writes once to a new peer and then only listens to it
			if m == 61 && npeers < len(peers) && variant < 8 {
				time.Sleep(2 * time.Second) // just past the instant the first nonce goes stale, before any periodic refresh notices
				if _, err := relay.WriteTo([]byte("late-hello"), peers[npeers]); err != nil {
					c2p = false
				}
				synctest.Wait()
			}
			if m > 61 && npeers < len(peers) && variant < 8 {
				pl3 := fmt.Sprintf("late-p2c-%d", m)
				if rc := w.sim.Lookup(relayAddr.String()); rc != nil {
					rc.Inject(peers[npeers], []byte(pl3))
				}
				synctest.Wait()
				rmu.Lock()
				p2c = p2c && got[peers[npeers].String()+"|"+pl3]
				rmu.Unlock()
			}
			for i := 0; i < npeers; i++ {
				pl := fmt.Sprintf("c2p-%d-%d", m, i)
				if probe {
					if _, err := relay.WriteTo([]byte(pl), peers[i]); err != nil {
						c2p = false
					}
				}
				pl2 := fmt.Sprintf("p2c-%d-%d", m, i)
				if rc := w.sim.Lookup(relayAddr.String()); rc != nil {
					rc.Inject(peers[i], []byte(pl2))
				}
				synctest.Wait()
				if probe {
					w.mu.Lock()
					found := false
					for _, x := range w.peerGot[peers[i].String()] {
						if x == pl {
							found = true
						}
					}
					w.mu.Unlock()
					c2p = c2p && found
				}
				rmu.Lock()
				p2c = p2c && got[peers[i].String()+"|"+pl2]
				rmu.Unlock()
			}
			if m%5 == 0 || !c2p || !p2c {
				col.Add("flow", "flow", true, fmt.Sprintf("KFlow %d %s %s", m, verifsim.CoqBool(c2p), verifsim.CoqBool(p2c)))
			}
		}
		until := time.Since(w.start)
		// timelines
		w.mu.Lock()
		var allocArms []int64
		permArms := map[string][]int64{}
		chanArms := map[string][]int64{}
		for _, tid := range w.order {
			r := w.reqs[tid]
			if !r.ok {
				continue
			}
			switch r.method {
			case stun.MethodAllocate, stun.MethodRefresh:
				allocArms = append(allocArms, int64(r.at))
			case stun.MethodCreatePermission:
				for _, p := range r.peers {
					ip := p[:strings.LastIndex(p, ":")]
					permArms[ip] = append(permArms[ip], int64(r.at))
				}
			case stun.MethodChannelBind:
				for _, p := range r.peers {
					ip := p[:strings.LastIndex(p, ":")]
					permArms[ip] = append(permArms[ip], int64(r.at))
					chanArms[fmt.Sprintf("%s#%d", p, r.chanNo)] = append(chanArms[fmt.Sprintf("%s#%d", p, r.chanNo)], int64(r.at))
				}
			}
		}
		w.mu.Unlock()
		zs := func(xs []int64) string {
			sort.Slice(xs, func(i, j int) bool { return xs[i] < xs[j] })
			var ss []string
			for _, x := range xs {
				ss = append(ss, fmt.Sprintf("%d", x))
			}
			return "([" + strings.Join(ss, "; ") + "]%Z)"
		}
		sec := int64(time.Second)
		aT, pT, cT := int64(10*time.Minute), int64(5*time.Minute), int64(10*time.Minute)
		if variant >= 2 {
			aT, pT, cT = int64(allocLife), int64(permT), int64(chanT)
		}
		H := int64(23400 * time.Millisecond)
		col.Add("timeline-alloc", "timeline", true, fmt.Sprintf("KTimeline 1 %d %d %d %s %d", aT/2, H, aT, zs(allocArms), int64(until)))
		for _, k := range verifsim.SortedKeys(permArms) {
			col.Add("timeline-perm", "timeline", true, fmt.Sprintf("KTimeline 2 %d %d %d %s %d", 120*sec, H, pT, zs(permArms[k]), int64(until)))
		}
		for _, k := range verifsim.SortedKeys(chanArms) {
			col.Add("timeline-chan", "timeline", true, fmt.Sprintf("KTimeline 3 %d %d %d %s %d", 330*sec, H, cT, zs(chanArms[k]), int64(until)))
		}
		// Close releases the allocation at the server at once
		_ = relay.Close()
		time.Sleep(10 * time.Second) // the Refresh(0) may need retransmissions on a lossy path
		synctest.Wait()
		w.mu.Lock()
		r0 := w.refresh0
		w.mu.Unlock()
		col.Add("close", "close", true, fmt.Sprintf("KClose %d %s", srv.AllocationCount(), verifsim.CoqBool(r0)))
		cl.Close()
		_ = srv.Close()
		_ = w.cliConn.Close()
		synctest.Wait()
	})
}

func TestVerif_C14(t *testing.T) {
	watchdog := time.AfterFunc(400*time.Second, func() {
		fmt.Println("VERIF-VIOLATION C14 no progress for 400 s of real time (a goroutine is stuck on a lock or spins)")
		os.Exit(3)
	})
	defer watchdog.Stop()
	rng := verifsim.NewRNG(verifsim.Seed() + 1414)
	col := verifsim.NewCollector("C14", "C14Check")
	col.PerFile = 400
	hours := 3
	variants := []int{0, 1, 2, 3, 8}
	if verifsim.Thorough() {
		hours = 6
		variants = []int{0, 1, 2, 3, 4, 5, 1, 3, 5, 7, 8, 9}
	}
	for _, v := range variants {
		runC14(t, rng, col, v, hours)
	}
	if err := col.Flush(); err != nil {
		t.Fatal(err)
	}
}
