//go:build verif

package proto

import (
	"bytes"
	"errors"
	"fmt"
	"io"
	"net"
	"strings"
	"testing"
	"time"

	"github.com/pion/turn/v5/internal/verifsim"
)

// scriptedConn returns exactly the scripted segments from Read, then io.EOF.
type scriptedConn struct {
	segs  [][]byte
	reads int
}

func (c *scriptedConn) Read(p []byte) (int, error) {
	if len(c.segs) == 0 {
		return 0, io.EOF
	}
	c.reads++
	s := c.segs[0]
	n := copy(p, s)
	if n < len(s) {
		c.segs[0] = s[n:]
	} else {
		c.segs = c.segs[1:]
	}
	return n, nil
}
func (c *scriptedConn) Write(p []byte) (int, error)      { return len(p), nil }
func (c *scriptedConn) Close() error                     { return nil }
func (c *scriptedConn) LocalAddr() net.Addr              { return &net.TCPAddr{IP: net.IPv4(10, 0, 0, 1), Port: 3478} }
func (c *scriptedConn) RemoteAddr() net.Addr             { return &net.TCPAddr{IP: net.IPv4(10, 0, 0, 2), Port: 5000} }
func (c *scriptedConn) SetDeadline(time.Time) error      { return nil }
func (c *scriptedConn) SetReadDeadline(time.Time) error  { return nil }
func (c *scriptedConn) SetWriteDeadline(time.Time) error { return nil }

type c10Frame struct {
	raw  []byte
	plen int // pattern payload (for Desc)
	seed int
}

func c10ChanFrame(rng *verifsim.RNG, plen int, content string) c10Frame {
	n := verifsim.Pick(rng, []int{0x4000, 0x4001, 0x7FFF, 0x4000 + rng.Intn(0x4000)})
	seed := rng.Intn(256)
	data := verifsim.Pat(plen, seed)
	switch content {
	case "cookie":
		copy(data, []byte{0x21, 0x12, 0xA4, 0x42})
		seed = -1
	case "stunlike":
		copy(data, []byte{0x00, 0x01, 0x00, 0x08, 0x21, 0x12, 0xA4, 0x42})
		seed = -1
	case "chanlike":
		copy(data, []byte{0x40, 0x00, 0x00, 0x04})
		seed = -1
	case "random":
		copy(data, rng.Bytes(plen))
		seed = -1
	}
	cd := ChannelData{Number: ChannelNumber(n), Data: data}
	cd.Encode()
	return c10Frame{raw: append([]byte{}, cd.Raw...), plen: plen, seed: seed}
}

func c10StunFrame(rng *verifsim.RNG, blen int) c10Frame {
	typ := rng.Intn(0x4000)
	raw := []byte{byte(typ >> 8), byte(typ), byte(blen >> 8), byte(blen), 0x21, 0x12, 0xA4, 0x42}
	raw = append(raw, rng.Bytes(12)...)
	seed := rng.Intn(256)
	raw = append(raw, verifsim.Pat(blen, seed)...)
	return c10Frame{raw: raw, plen: blen, seed: seed}
}

func c10Desc(f c10Frame, b []byte) string {
	if f.seed >= 0 {
		return verifsim.Desc(b, f.plen, f.seed)
	}
	return verifsim.Desc(b, 0, 0)
}

func c10DescList(xs []string) string { return "[" + strings.Join(xs, "; ") + "]" }

// cut splits stream at the given sorted cut points.
func c10Cut(stream []byte, cuts []int) [][]byte {
	var out [][]byte
	prev := 0
	for _, c := range cuts {
		if c <= prev || c >= len(stream) {
			continue
		}
		out = append(out, stream[prev:c])
		prev = c
	}
	if prev < len(stream) {
		out = append(out, stream[prev:])
	}
	return out
}

// runStream feeds the segments through a STUNConn and observes every ReadFrom.
func c10RunStream(t *testing.T, segs [][]byte) (frames [][]byte, readsAt []int, end string) {
	t.Helper()
	total := 0
	for _, s := range segs {
		total += len(s)
	}
	conn := &scriptedConn{segs: append([][]byte{}, segs...)}
	sc := NewSTUNConn(conn)
	buf := make([]byte, 70000)
	limit := total + len(segs) + 16
	for i := 0; ; i++ {
		if i > limit {
			return frames, readsAt, "OEndSpin"
		}
		var n int
		var err error
		func() {
			defer func() {
				if r := recover(); r != nil {
					err = fmt.Errorf("panic: %v", r)
					end = "OEndOther"
					t.Errorf("PANIC in ReadFrom: %v", r)
				}
			}()
			n, _, err = sc.ReadFrom(buf)
		}()
		if err != nil {
			switch {
			case errors.Is(err, errInvalidTURNFrame):
				return frames, readsAt, "OEndInvalid"
			case errors.Is(err, io.EOF):
				return frames, readsAt, "OEndEOF"
			}
			return frames, readsAt, "OEndOther"
		}
		if n > len(buf) {
			n = len(buf)
		}
		frames = append(frames, append([]byte{}, buf[:n]...))
		readsAt = append(readsAt, conn.reads)
	}
}

func TestVerif_C10(t *testing.T) { //nolint:cyclop,maintidx
	rng := verifsim.NewRNG(verifsim.Seed())
	col := verifsim.NewCollector("C10", "C10Check")
	col.PerFile = 150
	thorough := verifsim.Thorough()

	// ---- consumeSingleTURNFrame on single buffers ----
	consumeCase := func(buf []byte, tag string, desc string) {
		var n int
		var err error
		func() {
			defer func() {
				if r := recover(); r != nil {
					err = fmt.Errorf("panic %v", r)
					t.Errorf("PANIC in consumeSingleTURNFrame: %v", r)
				}
			}()
			n, err = consumeSingleTURNFrame(buf)
		}()
		obs := "OFrOther"
		switch {
		case err == nil:
			obs = fmt.Sprintf("(OFrOk %d)", n)
		case errors.Is(err, errIncompleteTURNFrame):
			obs = "OFrIncomplete"
		case errors.Is(err, errInvalidTURNFrame):
			obs = "OFrInvalid"
		}
		if desc == "" {
			desc = verifsim.Desc(buf, 0, 0)
		}
		col.Add("consume", tag, err == nil, fmt.Sprintf("KConsume %s %s", desc, obs))
	}
	// every prefix of small well-formed frames, and the frame followed by extra bytes
	for _, plen := range []int{0, 1, 2, 3, 4, 5, 8, 13} {
		for _, content := range []string{"pat", "cookie", "stunlike"} {
			f := c10ChanFrame(rng, plen, content)
			for k := 0; k <= len(f.raw); k++ {
				consumeCase(f.raw[:k], "chan-prefix", "")
			}
			consumeCase(append(append([]byte{}, f.raw...), rng.Bytes(1+rng.Intn(30))...), "chan-plus", "")
		}
	}
	for _, blen := range []int{0, 2, 4, 8, 12, 20} {
		f := c10StunFrame(rng, blen)
		for k := 0; k <= len(f.raw); k++ {
			consumeCase(f.raw[:k], "stun-prefix", "")
		}
		consumeCase(append(append([]byte{}, f.raw...), rng.Bytes(1+rng.Intn(30))...), "stun-plus", "")
	}
	// extreme length fields with a little and with all the data
	for _, l := range []int{0xFFEB, 0xFFEC, 0xFFED, 0xFFF0, 0xFFF8, 0xFFFB, 0xFFFC, 0xFFFD, 0xFFFE, 0xFFFF} {
		hdrC := []byte{0x40, 0x00, byte(l >> 8), byte(l)}
		consumeCase(append(append([]byte{}, hdrC...), rng.Bytes(20)...), "chan-extreme-short", "")
		seed := rng.Intn(256)
		full := append(append([]byte{}, hdrC...), verifsim.Pat(l, seed)...)
		for len(full)%4 != 0 {
			full = append(full, 0)
		}
		consumeCase(full, "chan-extreme-full", verifsim.Desc(full, l, seed))
		hdrS := []byte{0x00, 0x01, byte(l >> 8), byte(l), 0x21, 0x12, 0xA4, 0x42}
		hdrS = append(hdrS, rng.Bytes(12)...)
		consumeCase(append(append([]byte{}, hdrS...), rng.Bytes(8)...), "stun-extreme-short", "")
		fullS := append(append([]byte{}, hdrS...), verifsim.Pat(l, seed)...)
		consumeCase(fullS, "stun-extreme-full", verifsim.Desc(fullS, l, seed))
	}
	// garbage
	ngarb := 200
	if thorough {
		ngarb = 5000
	}
	for range ngarb {
		b := rng.Bytes(rng.Intn(48))
		if len(b) > 0 && rng.Chance(50) {
			b[0] = byte(rng.Intn(256))
		}
		if len(b) >= 8 && rng.Chance(30) {
			copy(b[4:], []byte{0x21, 0x12, 0xA4, 0x42})
		}
		consumeCase(b, "garbage", "")
	}

	// ---- streams of well-formed frames under many segmentations ----
	streamCase := func(frames []c10Frame, segs [][]byte, tag string) {
		got, readsAt, end := c10RunStream(t, segs)
		var fds, rds, gds []string
		for _, f := range frames {
			fds = append(fds, c10Desc(f, f.raw))
		}
		for _, s := range segs {
			// a segment lying inside one big pattern payload is written as raw only when small
			d := verifsim.Desc(s, 0, 0)
			for _, f := range frames {
				if f.seed >= 0 && f.plen >= 16 && len(s) >= f.plen {
					d = verifsim.Desc(s, f.plen, f.seed)
				}
			}
			rds = append(rds, d)
		}
		for i, g := range got {
			d := verifsim.Desc(g, 0, 0)
			if i < len(frames) {
				d = c10Desc(frames[i], g)
			}
			gds = append(gds, fmt.Sprintf("(%s, %d)", d, readsAt[i]))
		}
		col.Add("stream", tag, len(got) > 0, fmt.Sprintf("KStream %s %s %s %s %s",
			verifsim.CoqBool(len(frames) > 0), c10DescList(fds), c10DescList(rds), c10DescList(gds), end))
	}
	genFrames := func(k int, small bool) []c10Frame {
		var fs []c10Frame
		for range k {
			if rng.Chance(60) {
				plen := verifsim.Pick(rng, []int{0, 1, 2, 3, 4, 5, 7, 8, 9, 16, 31, 64})
				if !small && rng.Chance(20) {
					plen = 100 + rng.Intn(1400)
				}
				fs = append(fs, c10ChanFrame(rng, plen, verifsim.Pick(rng, []string{"pat", "pat", "cookie", "stunlike", "chanlike", "random"})))
			} else {
				blen := verifsim.Pick(rng, []int{0, 4, 8, 12, 24, 28, 2, 6})
				if !small && rng.Chance(20) {
					blen = 4 * rng.Intn(300)
				}
				fs = append(fs, c10StunFrame(rng, blen))
			}
		}
		return fs
	}
	concat := func(fs []c10Frame) []byte {
		var s []byte
		for _, f := range fs {
			s = append(s, f.raw...)
		}
		return s
	}
	nseq := 40
	if thorough {
		nseq = 600
	}
	for i := 0; i < nseq; i++ {
		fs := genFrames(1+rng.Intn(4), true)
		s := concat(fs)
		// coalesced
		streamCase(fs, [][]byte{s}, "wf-coalesced")
		// byte at a time
		var bytewise [][]byte
		for j := range s {
			bytewise = append(bytewise, s[j:j+1])
		}
		streamCase(fs, bytewise, "wf-bytewise")
		// every single cut point (short streams) / a sample
		step := 1
		if len(s) > 64 && !thorough {
			step = 1 + len(s)/48
		}
		for c := 1; c < len(s); c += step {
			streamCase(fs, c10Cut(s, []int{c}), "wf-1cut")
		}
		// pairs of cut points: exhaustive for streams <= 64 bytes in thorough, sampled otherwise
		if thorough && len(s) <= 64 {
			for a := 1; a < len(s); a++ {
				for b := a + 1; b < len(s); b++ {
					streamCase(fs, c10Cut(s, []int{a, b}), "wf-2cut")
				}
			}
		} else {
			for range 12 {
				a := 1 + rng.Intn(len(s))
				b := a + 1 + rng.Intn(len(s))
				streamCase(fs, c10Cut(s, []int{a, b}), "wf-2cut")
			}
		}
		// random cuts
		for range 4 {
			var cuts []int
			p := 0
			for p < len(s) {
				p += 1 + rng.Intn(1+rng.Intn(24))
				cuts = append(cuts, p)
			}
			streamCase(fs, c10Cut(s, cuts), "wf-random")
		}
	}
	// larger frames, a few segmentations each
	nbig := 6
	if thorough {
		nbig = 60
	}
	for range nbig {
		fs := genFrames(1+rng.Intn(3), false)
		s := concat(fs)
		streamCase(fs, [][]byte{s}, "wf-big-coalesced")
		var cuts []int
		p := 0
		for p < len(s) {
			p += 1 + rng.Intn(700)
			cuts = append(cuts, p)
		}
		streamCase(fs, c10Cut(s, cuts), "wf-big-random")
	}
	// bulk: long streams (hundreds of frames, maximum-size frames followed by coalesced small ones) in large reads - the
	// whole stream at once, 64 KiB reads (the client's read buffer), the server's 1600-byte reads, random large reads.
	// Expected: exactly the frames that were written (C10_frames: for every segmentation), then EOF.
	bulkCase := func(fs []c10Frame, segs [][]byte, tag string) {
		got, _, end := c10RunStream(t, segs)
		equal := len(got) == len(fs)
		for i := 0; equal && i < len(fs); i++ {
			equal = bytes.Equal(got[i], fs[i].raw)
		}
		total, maxread := 0, 0
		for _, sg := range segs {
			total += len(sg)
			if len(sg) > maxread {
				maxread = len(sg)
			}
		}
		col.Add("bulk", tag, true, fmt.Sprintf("KBulk %d %d %d %s %s", len(fs), total, maxread, verifsim.CoqBool(equal), end))
	}
	chunks := func(b []byte, size func() int) [][]byte {
		var out [][]byte
		for len(b) > 0 {
			n := size()
			if n > len(b) {
				n = len(b)
			}
			out = append(out, b[:n])
			b = b[n:]
		}
		return out
	}
	nbulk := 3
	if thorough {
		nbulk = 25
	}
	for range nbulk {
		var fs []c10Frame
		nf := 150 + rng.Intn(300)
		for range nf {
			if rng.Chance(70) {
				fs = append(fs, c10ChanFrame(rng, verifsim.Pick(rng, []int{1200, 1199, 1201, 160, 1, 0, 1400 + rng.Intn(100)}), "pat"))
			} else {
				fs = append(fs, c10StunFrame(rng, 4*rng.Intn(60)))
			}
		}
		s := concat(fs)
		bulkCase(fs, [][]byte{s}, "bulk-one-read")
		bulkCase(fs, chunks(s, func() int { return 65535 }), "bulk-64k-reads")
		bulkCase(fs, chunks(s, func() int { return 1600 }), "bulk-1600-reads")
		bulkCase(fs, chunks(s, func() int { return 1 + rng.Intn(70000) }), "bulk-random-reads")
		// a maximum-size frame whose tail arrives together with the frames after it
		var big c10Frame
		if rng.Bool() {
			big = c10ChanFrame(rng, verifsim.Pick(rng, []int{65535, 65532, 65000}), "pat")
		} else {
			big = c10StunFrame(rng, verifsim.Pick(rng, []int{65512, 65000, 0xFFFC}))
		}
		gs := append([]c10Frame{big}, fs[:40]...)
		s2 := concat(gs)
		bulkCase(gs, [][]byte{s2}, "max-then-coalesced")
		bulkCase(gs, chunks(s2, func() int { return 1600 }), "max-then-coalesced-1600")
		cut := 1 + rng.Intn(len(big.raw)-1)
		bulkCase(gs, [][]byte{s2[:cut], s2[cut:]}, "max-then-coalesced-1cut")
		bulkCase(gs, chunks(s2, func() int { return 65535 }), "max-then-coalesced-64k")
	}
	// the uint16 extremes: 65535-byte ChannelData payload and a 65512-byte STUN body
	{
		f1 := c10ChanFrame(rng, 65535, "pat")
		f2 := c10ChanFrame(rng, 3, "pat")
		fs := []c10Frame{f1, f2}
		s := concat(fs)
		streamCase(fs, [][]byte{s}, "wf-max-chan")
		streamCase(fs, c10Cut(s, []int{4, len(f1.raw) - 1, len(f1.raw) + 2}), "wf-max-chan")
		g1 := c10StunFrame(rng, 65512)
		gs := []c10Frame{g1, f2}
		s2 := concat(gs)
		streamCase(gs, c10Cut(s2, []int{19, 20, len(g1.raw)}), "wf-max-stun")
	}

	// ---- hostile streams ----
	nh := 150
	if thorough {
		nh = 3000
	}
	for range nh {
		var s []byte
		switch rng.Intn(5) {
		case 0: // valid frames then garbage
			s = append(concat(genFrames(1+rng.Intn(2), true)), rng.Bytes(1+rng.Intn(40))...)
		case 1: // mutated valid stream
			s = concat(genFrames(1+rng.Intn(3), true))
			for range 1 + rng.Intn(3) {
				s[rng.Intn(len(s))] ^= byte(1 << rng.Intn(8))
			}
		case 2: // truncated
			s = concat(genFrames(1+rng.Intn(3), true))
			s = s[:rng.Intn(len(s)+1)]
		case 3: // extreme length headers
			l := 0xFFEC + rng.Intn(20)
			if rng.Bool() {
				s = []byte{0x40, byte(rng.Intn(256)), byte(l >> 8), byte(l)}
			} else {
				s = []byte{0x00, 0x01, byte(l >> 8), byte(l), 0x21, 0x12, 0xA4, 0x42}
			}
			s = append(s, rng.Bytes(8+rng.Intn(40))...)
		default:
			s = rng.Bytes(1 + rng.Intn(80))
		}
		if len(s) == 0 {
			continue
		}
		var cuts []int
		p := 0
		for p < len(s) {
			p += 1 + rng.Intn(1+rng.Intn(30))
			cuts = append(cuts, p)
		}
		streamCase(nil, c10Cut(s, cuts), "hostile")
	}

	if err := col.Flush(); err != nil {
		t.Fatal(err)
	}
}
