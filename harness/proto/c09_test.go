//go:build verif

package proto

import (
	"fmt"
	"testing"

	"github.com/pion/turn/v5/internal/verifsim"
)

// The stream-listener half of C09: hostile byte streams, arbitrarily segmented, through STUNConn.
// Cases are evaluated by the C10 runner (progress, only frame-like data, nothing invented, no spin).
func TestVerif_C09(t *testing.T) {
	rng := verifsim.NewRNG(verifsim.Seed() + 9090)
	col := verifsim.NewCollector("C09p", "C10Check")
	col.PerFile = 150
	n := 400
	if verifsim.Thorough() {
		n = 8000
	}
	msgs := verifsim.Hostile(rng, n)
	for i := 0; i < len(msgs); i++ {
		s := append([]byte{}, msgs[i]...)
		if rng.Chance(40) && i+1 < len(msgs) {
			s = append(s, msgs[i+1]...)
		}
		if len(s) == 0 {
			continue
		}
		var cuts []int
		p := 0
		for p < len(s) {
			p += 1 + rng.Intn(1+rng.Intn(24))
			cuts = append(cuts, p)
		}
		segs := c10Cut(s, cuts)
		got, readsAt, end := c10RunStream(t, segs)
		var rds, gds []string
		for _, sg := range segs {
			rds = append(rds, verifsim.Desc(sg, 0, 0))
		}
		for j, g := range got {
			gds = append(gds, fmt.Sprintf("(%s, %d)", verifsim.Desc(g, 0, 0), readsAt[j]))
		}
		col.Add("hostile-stream", "hostile", len(got) > 0, fmt.Sprintf("KStream false [] %s %s %s", c10DescList(rds), c10DescList(gds), end))
	}
	if err := col.Flush(); err != nil {
		t.Fatal(err)
	}
}
