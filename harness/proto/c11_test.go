//go:build verif

package proto

import (
	"errors"
	"fmt"
	"io"
	"net"
	"strings"
	"testing"
	"time"

	"github.com/pion/stun/v3"
	"github.com/pion/turn/v5/internal/verifsim"
)

func c11CdErr(err error) string {
	switch {
	case errors.Is(err, io.ErrUnexpectedEOF):
		return "(ObsErr CdEOF)"
	case errors.Is(err, ErrInvalidChannelNumber):
		return "(ObsErr CdBadNumber)"
	case errors.Is(err, ErrBadChannelDataLength):
		return "(ObsErr CdBadLength)"
	}
	return "ObsOther"
}

func c11AErr(err error) string {
	switch {
	case stun.IsAttrSizeInvalid(err):
		return "(OErr ESizeInvalid)"
	case stun.IsAttrSizeOverflow(err):
		return "(OErr ESizeOverflow)"
	case errors.Is(err, io.ErrUnexpectedEOF):
		return "(OErr EEOF)"
	case errors.Is(err, errInvalidRequestedFamilyValue):
		return "(OErr EBadValue)"
	case errors.Is(err, stun.ErrBadIPLength):
		return "(OErr EBadIPLen)"
	case strings.Contains(err.Error(), "family"):
		return "(OErr EBadFamily)"
	}
	return "OErrOther"
}

// safely runs f and reports a panic as an error string
func c11NoPanic(t *testing.T, what string, f func()) {
	t.Helper()
	defer func() {
		if r := recover(); r != nil {
			t.Errorf("PANIC in %s: %v", what, r)
		}
	}()
	f()
}

type c11Attr struct {
	kind string
	typ  stun.AttrType
	// decode raw into a fresh value, return Coq aval
	dec func(m *stun.Message) (string, error)
}

func c11Attrs() []c11Attr {
	return []c11Attr{
		{"AChanNum", stun.AttrChannelNumber, func(m *stun.Message) (string, error) {
			var v ChannelNumber
			err := v.GetFrom(m)
			return fmt.Sprintf("(VN %d)", uint16(v)), err
		}},
		{"ALifetime", stun.AttrLifetime, func(m *stun.Message) (string, error) {
			var v Lifetime
			err := v.GetFrom(m)
			return fmt.Sprintf("(VN %d)", int64(v.Duration/1e9)), err
		}},
		{"AConnID", stun.AttrConnectionID, func(m *stun.Message) (string, error) {
			var v ConnectionID
			err := v.GetFrom(m)
			return fmt.Sprintf("(VN %d)", uint32(v)), err
		}},
		{"AReqTrans", stun.AttrRequestedTransport, func(m *stun.Message) (string, error) {
			var v RequestedTransport
			err := v.GetFrom(m)
			return fmt.Sprintf("(VN %d)", byte(v.Protocol)), err
		}},
		{"AReqFamily", stun.AttrRequestedAddressFamily, func(m *stun.Message) (string, error) {
			var v RequestedAddressFamily
			err := v.GetFrom(m)
			return fmt.Sprintf("(VN %d)", byte(v)), err
		}},
		{"AEvenPort", stun.AttrEvenPort, func(m *stun.Message) (string, error) {
			var v EvenPort
			err := v.GetFrom(m)
			return fmt.Sprintf("(VB %s)", verifsim.CoqBool(v.ReservePort)), err
		}},
		{"AToken", stun.AttrReservationToken, func(m *stun.Message) (string, error) {
			var v ReservationToken
			err := v.GetFrom(m)
			return fmt.Sprintf("(VBytes %s)", verifsim.CoqBytes(v)), err
		}},
		{"ADontFrag", stun.AttrDontFragment, func(m *stun.Message) (string, error) {
			var v DontFragment
			err := v.GetFrom(m)
			return "VUnit", err
		}},
		{"AData", stun.AttrData, func(m *stun.Message) (string, error) {
			var v Data
			err := v.GetFrom(m)
			return fmt.Sprintf("(VBytes %s)", verifsim.CoqBytes(v)), err
		}},
		{"AXorPeer", stun.AttrXORPeerAddress, func(m *stun.Message) (string, error) {
			var v PeerAddress
			err := v.GetFrom(m)
			return fmt.Sprintf("(VAddr %s %d)", verifsim.CoqBytes(v.IP), v.Port), err
		}},
		{"AXorRelayed", stun.AttrXORRelayedAddress, func(m *stun.Message) (string, error) {
			var v RelayedAddress
			err := v.GetFrom(m)
			return fmt.Sprintf("(VAddr %s %d)", verifsim.CoqBytes(v.IP), v.Port), err
		}},
	}
}

func c11FixedSize(kind string) int {
	switch kind {
	case "AChanNum", "ALifetime", "AConnID", "AReqTrans", "AReqFamily":
		return 4
	case "AEvenPort":
		return 1
	case "AToken":
		return 8
	case "ADontFrag":
		return 0
	}
	return -1
}

func TestVerif_C11(t *testing.T) { //nolint:cyclop,maintidx
	rng := verifsim.NewRNG(verifsim.Seed())
	col := verifsim.NewCollector("C11", "C11Check")
	col.PerFile = 300
	thorough := verifsim.Thorough()

	// ---- ChannelData encode ----
	numbers := []int{0, 1, 0x3FFF, 0x4000, 0x4001, 0x5A5A, 0x7FFE, 0x7FFF, 0x8000, 0xFFFF}
	for range 10 {
		numbers = append(numbers, rng.Intn(65536))
	}
	lengths := []int{0, 1, 2, 3, 4, 5, 6, 7, 8, 9, 1023, 1024, 1025}
	bigLengths := []int{65531, 65532, 65533, 65534, 65535}
	if thorough {
		lengths = nil
		for l := 0; l <= 2048; l++ {
			lengths = append(lengths, l)
		}
		for n := 0; n < 65536; n += 257 {
			numbers = append(numbers, n)
		}
	}
	encode := func(n, l, seed int) {
		data := verifsim.Pat(l, seed)
		cd := ChannelData{Number: ChannelNumber(n), Data: data}
		c11NoPanic(t, "Encode", cd.Encode)
		tag := "enc"
		col.Add("cd-encode", tag, ChannelNumber(n).Valid(), fmt.Sprintf("KEnc %d %d %d %s", n, l, seed, verifsim.Desc(cd.Raw, l, seed)))
		// decode what was encoded, into a fresh struct
		dec := ChannelData{Raw: append([]byte{}, cd.Raw...)}
		var err error
		c11NoPanic(t, "Decode", func() { err = dec.Decode() })
		obs := c11CdErr(err)
		if err == nil {
			obs = fmt.Sprintf("(ObsOk %d %s)", uint16(dec.Number), verifsim.Desc(dec.Data, l, seed))
		}
		col.Add("cd-decode-encoded", "dec", err == nil, fmt.Sprintf("KDec %s %s", verifsim.Desc(cd.Raw, l, seed), obs))
	}
	for i, n := range numbers {
		ls := lengths
		if thorough && i >= 20 {
			ls = []int{0, 1, 3, 4, 5, 1025}
		}
		for _, l := range ls {
			encode(n, l, rng.Intn(256))
		}
	}
	for _, n := range []int{0x4000, 0x7FFF, 0x3FFF, 0x8000, numbers[10], numbers[11]} {
		for _, l := range bigLengths {
			encode(n, l, rng.Intn(256))
		}
	}

	// ---- Encode into a ChannelData value that is being reused (Raw holds stale bytes) ----
	for _, n := range []int{0x4000, 0x7FFF, 0x5A5A} {
		for l := 0; l <= 9; l++ {
			seed := rng.Intn(256)
			// (a) a longer message was encoded before, then Reset
			cd := ChannelData{Number: ChannelNumber(n), Data: rng.Bytes(8 + rng.Intn(40))}
			for i := range cd.Data {
				cd.Data[i] |= 0x81 // never zero
			}
			c11NoPanic(t, "Encode", cd.Encode)
			cd.Reset()
			cd.Data = verifsim.Pat(l, seed)
			c11NoPanic(t, "Encode", cd.Encode)
			col.Add("cd-encode-reused", "enc-reuse", true, fmt.Sprintf("KEnc %d %d %d %s", n, l, seed, verifsim.Desc(cd.Raw, l, seed)))
			// (b) a buffer with non-zero trailing bytes was decoded, then the value is re-encoded
			raw := append([]byte{0x40, 0x01, 0, byte(l)}, verifsim.Pat(l, seed)...)
			for len(raw)%4 != 0 || len(raw) < 8 {
				raw = append(raw, 0xAA)
			}
			cd2 := ChannelData{Raw: raw}
			var derr error
			c11NoPanic(t, "Decode", func() { derr = cd2.Decode() })
			if derr == nil {
				cd2.Number = ChannelNumber(n)
				c11NoPanic(t, "Encode", cd2.Encode)
				col.Add("cd-encode-after-decode", "enc-reuse", true, fmt.Sprintf("KEnc %d %d %d %s", n, l, seed, verifsim.Desc(cd2.Raw, l, seed)))
			}
		}
	}

	// ---- ChannelData decode / IsChannelData on raw buffers: header value x declared/actual relation ----
	rawCase := func(buf []byte, tag string) {
		dec := ChannelData{Raw: append([]byte{}, buf...)}
		var err error
		c11NoPanic(t, "Decode", func() { err = dec.Decode() })
		obs := c11CdErr(err)
		if err == nil {
			obs = fmt.Sprintf("(ObsOk %d (BRaw %s))", uint16(dec.Number), verifsim.CoqBytes(dec.Data))
		}
		col.Add("cd-decode-raw", tag, err == nil, fmt.Sprintf("KDec (BRaw %s) %s", verifsim.CoqBytes(buf), obs))
		var is bool
		c11NoPanic(t, "IsChannelData", func() { is = IsChannelData(buf) })
		col.Add("is-channel-data", tag, is, fmt.Sprintf("KIsCD (BRaw %s) %s", verifsim.CoqBytes(buf), verifsim.CoqBool(is)))
	}
	hdrNums := []int{0, 1, 0x3FFF, 0x4000, 0x4001, 0x7FFF, 0x8000, 0xFFFF, rng.Intn(65536), 0x4000 + rng.Intn(0x4000)}
	declared := []int{0, 1, 3, 4, 5, 8, 100, 0xFFFC, 0xFFFF}
	if thorough {
		for n := 0; n < 65536; n += 97 {
			hdrNums = append(hdrNums, n)
		}
	}
	for _, n := range hdrNums {
		for _, d := range declared {
			for _, actual := range []int{0, d - 1, d, d + 1, d + 3, 12} {
				if actual < 0 || actual > 300 {
					continue
				}
				buf := []byte{byte(n >> 8), byte(n), byte(d >> 8), byte(d)}
				buf = append(buf, rng.Bytes(actual)...)
				rawCase(buf, "raw")
			}
		}
	}
	for l := 0; l < 4; l++ {
		rawCase(rng.Bytes(l), "short")
	}
	nrand := 150
	if thorough {
		nrand = 5000
	}
	for range nrand {
		buf := rng.Bytes(rng.Intn(40))
		if len(buf) >= 4 && rng.Chance(70) {
			n := 0x4000 + rng.Intn(0x4000)
			buf[0], buf[1] = byte(n>>8), byte(n)
			buf[2], buf[3] = 0, byte(rng.Intn(len(buf)+3))
		}
		rawCase(buf, "random")
	}

	// ---- attributes ----
	attrs := c11Attrs()
	newMsg := func() (*stun.Message, []byte) {
		m := new(stun.Message)
		tid := rng.Bytes(12)
		copy(m.TransactionID[:], tid)
		m.WriteHeader()
		return m, tid
	}
	// decode: every raw length 0..64 with random and extreme contents
	for _, a := range attrs {
		for l := 0; l <= 64; l++ {
			variants := [][]byte{rng.Bytes(l), make([]byte, l)}
			ff := make([]byte, l)
			for i := range ff {
				ff[i] = 0xFF
			}
			variants = append(variants, ff)
			if strings.HasPrefix(a.kind, "AXor") && l >= 2 {
				for _, fam := range []byte{1, 2} {
					v := rng.Bytes(l)
					v[0], v[1] = 0, fam
					variants = append(variants, v)
				}
			}
			if a.kind == "AReqFamily" && l == 4 {
				for f := 0; f < 256; f++ {
					variants = append(variants, []byte{byte(f), byte(rng.Intn(256)), 0, 0})
				}
			}
			if a.kind == "AEvenPort" && l == 1 {
				for f := 0; f < 256; f++ {
					variants = append(variants, []byte{byte(f)})
				}
			}
			extra := 0
			if thorough {
				extra = 8
			}
			for range extra {
				variants = append(variants, rng.Bytes(l))
			}
			for _, raw := range variants {
				m, tid := newMsg()
				m.Add(a.typ, raw)
				var val string
				var err error
				c11NoPanic(t, "GetFrom "+a.kind, func() { val, err = a.dec(m) })
				obs := "(OVal " + val + ")"
				if err != nil {
					obs = c11AErr(err)
				}
				tag := "attr-dec"
				if strings.HasPrefix(a.kind, "AXor") && err == nil && ((raw[1] == 1 && l != 8) || (raw[1] == 2 && l != 20)) {
					tag = "xoraddr-short-accepted"
				}
				col.Add("attr-decode-"+a.kind, tag, err == nil,
					fmt.Sprintf("KADec %s %s %s %s", a.kind, verifsim.CoqBytes(tid), verifsim.CoqBytes(raw), obs))
			}
		}
	}
	// encode on domain values
	addCase := func(kind string, typ stun.AttrType, coqVal string, s stun.Setter) {
		m, tid := newMsg()
		var err error
		c11NoPanic(t, "AddTo "+kind, func() { err = s.AddTo(m) })
		obs := c11AErrOrRaw(m, typ, err)
		col.Add("attr-encode-"+kind, "attr-enc", err == nil,
			fmt.Sprintf("KAEnc %s %s %s %s", kind, verifsim.CoqBytes(tid), coqVal, obs))
		if err == nil {
			// and decode what was encoded with the implementation
			for _, a := range attrs {
				if a.kind != kind {
					continue
				}
				raw, _ := m.Get(typ)
				var val string
				var derr error
				c11NoPanic(t, "GetFrom "+kind, func() { val, derr = a.dec(m) })
				o := "(OVal " + val + ")"
				if derr != nil {
					o = c11AErr(derr)
				}
				col.Add("attr-roundtrip-"+kind, "attr-rt", derr == nil,
					fmt.Sprintf("KADec %s %s %s %s", kind, verifsim.CoqBytes(tid), verifsim.CoqBytes(raw), o))
			}
		}
	}
	u16s := []int{0, 1, 0x3FFF, 0x4000, 0x7FFF, 0x8000, 0xFFFF, rng.Intn(65536), rng.Intn(65536)}
	for _, n := range u16s {
		addCase("AChanNum", stun.AttrChannelNumber, fmt.Sprintf("(VN %d)", n), ChannelNumber(n))
	}
	u32s := []uint32{0, 1, 599, 600, 3599, 3600, 3601, 1 << 31, 1<<32 - 1, uint32(rng.U64()), uint32(rng.U64())}
	for _, n := range u32s {
		addCase("ALifetime", stun.AttrLifetime, fmt.Sprintf("(VN %d)", n), Lifetime{Duration: time.Duration(n) * time.Second})
		addCase("AConnID", stun.AttrConnectionID, fmt.Sprintf("(VN %d)", n), ConnectionID(n))
	}
	for p := 0; p < 256; p++ {
		addCase("AReqTrans", stun.AttrRequestedTransport, fmt.Sprintf("(VN %d)", p), RequestedTransport{Protocol: Protocol(p)})
		if p == 1 || p == 2 { // the attribute's domain
			addCase("AReqFamily", stun.AttrRequestedAddressFamily, fmt.Sprintf("(VN %d)", p), RequestedAddressFamily(p))
		}
	}
	addCase("AEvenPort", stun.AttrEvenPort, "(VB true)", EvenPort{ReservePort: true})
	addCase("AEvenPort", stun.AttrEvenPort, "(VB false)", EvenPort{ReservePort: false})
	for _, l := range []int{0, 1, 7, 8, 9, 16} {
		tok := rng.Bytes(l)
		addCase("AToken", stun.AttrReservationToken, fmt.Sprintf("(VBytes %s)", verifsim.CoqBytes(tok)), ReservationToken(tok))
	}
	addCase("ADontFrag", stun.AttrDontFragment, "VUnit", DontFragment{})
	for _, l := range []int{0, 1, 3, 4, 5, 100, 1500} {
		d := rng.Bytes(l)
		addCase("AData", stun.AttrData, fmt.Sprintf("(VBytes %s)", verifsim.CoqBytes(d)), Data(d))
	}
	ips := []net.IP{
		net.IPv4(0, 0, 0, 0).To4(), net.IPv4(255, 255, 255, 255).To4(), net.IPv4(10, 1, 2, 3).To4(),
		net.IPv4(10, 1, 2, 3), // 16-byte v4-mapped
		net.ParseIP("::1"), net.ParseIP("2001:db8::ff00:42:8329"), net.ParseIP("ffff:ffff:ffff:ffff:ffff:ffff:ffff:ffff"),
		net.IP(rng.Bytes(4)), net.IP(rng.Bytes(16)), net.IP(rng.Bytes(16)),
		net.IP(rng.Bytes(3)), net.IP(rng.Bytes(5)), net.IP{}, net.IP(rng.Bytes(17)),
	}
	nip := 6
	if thorough {
		nip = 200
	}
	for range nip {
		if rng.Bool() {
			ips = append(ips, net.IP(rng.Bytes(4)))
		} else {
			ips = append(ips, net.IP(rng.Bytes(16)))
		}
	}
	for _, ip := range ips {
		for _, port := range []int{0, 1, 0x2112, 3478, 65535, rng.Intn(65536)} {
			v := fmt.Sprintf("(VAddr %s %d)", verifsim.CoqBytes(ip), port)
			addCase("AXorPeer", stun.AttrXORPeerAddress, v, PeerAddress{IP: ip, Port: port})
			addCase("AXorRelayed", stun.AttrXORRelayedAddress, v, RelayedAddress{IP: ip, Port: port})
		}
	}

	col.Extra["numbers"] = len(numbers)
	col.Extra["lengths"] = len(lengths) + len(bigLengths)
	if err := col.Flush(); err != nil {
		t.Fatal(err)
	}
}

func c11AErrOrRaw(m *stun.Message, typ stun.AttrType, err error) string {
	if err != nil {
		return c11AErr(err)
	}
	raw, gerr := m.Get(typ)
	if gerr != nil {
		return "OErrOther"
	}
	return fmt.Sprintf("(ORaw %s)", verifsim.CoqBytes(raw))
}
