//go:build verif

package allocation

// C18, teardown part: forced schedules of AddPermission / AddChannelBind / DeleteAllocation / Manager.Close and
// timer expiries on the real Manager and Allocation, observed at every point where all threads are parked
// inside a lifecycle callback, blocked on a mutex, or done. The same schedule is run by Model/Teardown.v
// (coq/Check/C18Check.v) with the step orders the translator extracted from the source.

import (
	"fmt"
	"net"
	"os"
	"runtime"
	"sort"
	"strconv"
	"strings"
	"sync"
	"syscall"
	"testing"
	"testing/synctest"
	"time"

	"github.com/pion/logging"
	"github.com/pion/turn/v5/internal/proto"
	"github.com/pion/turn/v5/internal/verifsim"
)

const (
	tdPermLifetime = 5 * time.Minute
	tdChanLifetime = time.Hour
)

func realSleep(d time.Duration) {
	ts := syscall.NsecToTimespec(int64(d))
	_ = syscall.Nanosleep(&ts, nil)
}

func goid() int {
	var buf [64]byte
	n := runtime.Stack(buf[:], false)
	f := strings.Fields(string(buf[:n]))
	id, _ := strconv.Atoi(f[1])
	return id
}

type tdThread struct {
	kind    string // perm chan close mclose
	a       int
	started bool
	gid     int
	done    chan struct{}
	parked  chan struct{}
	resume  chan struct{}
	inCb    bool
	status  string
}

type tdWorld struct {
	t       *testing.T
	m       *Manager
	a       *Allocation
	ft      *FiveTuple
	mu      sync.Mutex
	events  []string
	threads []*tdThread
}

func tdPeer(a int) *net.UDPAddr { return &net.UDPAddr{IP: net.IPv4(10, 9, 0, byte(a)), Port: 1000 + a} }

func (w *tdWorld) ev(kind string, a int) {
	w.mu.Lock()
	w.events = append(w.events, fmt.Sprintf("%s %d", kind, a))
	w.mu.Unlock()
}

// park blocks the calling thread inside a Created callback until the schedule resumes it
func (w *tdWorld) park() {
	g := goid()
	w.mu.Lock()
	var th *tdThread
	for _, t := range w.threads {
		if t.started && t.gid == g {
			th = t
		}
	}
	w.mu.Unlock()
	if th == nil {
		return // not one of the scheduled threads (cannot happen)
	}
	th.parked <- struct{}{}
	<-th.resume
}

func newTDWorld(t *testing.T, threads []*tdThread) *tdWorld {
	w := &tdWorld{t: t, threads: threads}
	lf := logging.NewDefaultLoggerFactory()
	lf.DefaultLogLevel = logging.LogLevelDisabled
	sim := verifsim.NewSimNet()
	port := 40000
	m, err := NewManager(ManagerConfig{
		LeveledLogger: lf.NewLogger("verif"),
		AllocatePacketConn: func(AllocateListenerConfig) (net.PacketConn, net.Addr, error) {
			port++
			addr := &net.UDPAddr{IP: net.IPv4(10, 0, 0, 1), Port: port}
			c, err := sim.NewPacketConn(addr)
			return c, addr, err
		},
		AllocateListener: func(AllocateListenerConfig) (net.Listener, net.Addr, error) { return nil, nil, os.ErrInvalid },
		AllocateConn:     func(AllocateConnConfig) (net.Conn, error) { return nil, os.ErrInvalid },
		EventHandler: EventHandler{
			OnPermissionCreated: func(_, _ net.Addr, _, _, _ string, _ net.Addr, peer net.IP) {
				w.ev("EvPermCreated", int(peer.To4()[3]))
				w.park()
			},
			OnPermissionDeleted: func(_, _ net.Addr, _, _, _ string, _ net.Addr, peer net.IP) {
				w.ev("EvPermDeleted", int(peer.To4()[3]))
			},
			OnChannelCreated: func(_, _ net.Addr, _, _, _ string, _, peer net.Addr, _ uint16) {
				w.ev("EvChanCreated", int(peer.(*net.UDPAddr).IP.To4()[3]))
				w.park()
			},
			OnChannelDeleted: func(_, _ net.Addr, _, _, _ string, _, peer net.Addr, _ uint16) {
				w.ev("EvChanDeleted", int(peer.(*net.UDPAddr).IP.To4()[3]))
			},
		},
	})
	if err != nil {
		t.Fatal(err)
	}
	w.m = m
	turnSocket, _ := sim.NewPacketConn(&net.UDPAddr{IP: net.IPv4(10, 0, 0, 1), Port: 3478})
	w.ft = &FiveTuple{Protocol: UDP, SrcAddr: &net.UDPAddr{IP: net.IPv4(10, 1, 0, 1), Port: 5000}, DstAddr: turnSocket.LocalAddr()}
	a, err := m.CreateAllocation(w.ft, turnSocket, proto.ProtoUDP, 0, 1000*time.Hour, "u", "r", proto.RequestedFamilyIPv4)
	if err != nil {
		t.Fatal(err)
	}
	w.a = a
	return w
}

func (w *tdWorld) start(th *tdThread) {
	th.started = true
	th.done = make(chan struct{})
	th.parked = make(chan struct{}, 1)
	th.resume = make(chan struct{})
	ready := make(chan struct{})
	go func() {
		w.mu.Lock()
		th.gid = goid()
		w.mu.Unlock()
		close(ready)
		defer close(th.done)
		switch th.kind {
		case "perm":
			w.a.AddPermission(NewPermission(tdPeer(th.a), w.a.log, tdPermLifetime))
		case "chan":
			_ = w.a.AddChannelBind(NewChannelBind(proto.ChannelNumber(0x4000+th.a), tdPeer(th.a), w.a.log), tdChanLifetime, tdPermLifetime)
		case "close":
			w.m.DeleteAllocation(w.ft)
		case "mclose":
			_ = w.m.Close()
		}
	}()
	<-ready
}

// settle waits until the thread is done, parked in a callback, or has made no progress for a while (blocked)
func (w *tdWorld) settle(th *tdThread) {
	for i := 0; i < 400; i++ {
		select {
		case <-th.done:
			th.status, th.inCb = "SDone", false
			return
		case <-th.parked:
			th.status, th.inCb = "SParked", true
			return
		default:
		}
		realSleep(100 * time.Microsecond)
	}
	th.status = "SBlocked"
}

func (w *tdWorld) runThread(i int) {
	th := w.threads[i]
	switch {
	case !th.started:
		w.start(th)
	case th.inCb:
		th.inCb = false
		th.resume <- struct{}{}
	case th.status == "SDone":
		return
	}
	w.settle(th)
}

func (w *tdWorld) anyBlocked() bool {
	for _, th := range w.threads {
		if th.status == "SBlocked" {
			return true
		}
	}
	return false
}

func (w *tdWorld) chlockFree() bool {
	if w.a.channelBindingsLock.TryRLock() {
		w.a.channelBindingsLock.RUnlock()
		return true
	}
	return false
}

// observe renders the OB term for the state right now
func (w *tdWorld) observe() (string, bool) {
	ok := true
	var perms []string
	if !w.a.permissionsLock.TryRLock() {
		return "", false
	}
	type kv struct {
		a     int
		armed bool
	}
	var ps []kv
	for _, p := range w.a.permissions {
		ps = append(ps, kv{int(p.Addr.(*net.UDPAddr).IP.To4()[3]), p.lifetimeTimer != nil})
	}
	w.a.permissionsLock.RUnlock()
	sort.Slice(ps, func(i, j int) bool { return ps[i].a < ps[j].a })
	for _, p := range ps {
		perms = append(perms, fmt.Sprintf("(%d, %s)", p.a, verifsim.CoqBool(p.armed)))
		ok = ok && p.armed
	}
	chans := "None"
	if w.a.channelBindingsLock.TryRLock() {
		var cs []kv
		for _, c := range w.a.channelBindings {
			cs = append(cs, kv{int(c.Number) - 0x4000, c.lifetimeTimer != nil})
		}
		w.a.channelBindingsLock.RUnlock()
		sort.SliceStable(cs, func(i, j int) bool { return cs[i].a < cs[j].a })
		var l []string
		for _, c := range cs {
			l = append(l, fmt.Sprintf("(%d, %s)", c.a, verifsim.CoqBool(c.armed)))
			ok = ok && c.armed
		}
		chans = "(Some [" + strings.Join(l, "; ") + "])"
	}
	closed := false
	select {
	case <-w.a.closed:
		closed = true
	default:
	}
	w.mu.Lock()
	evs := w.events
	w.events = nil
	w.mu.Unlock()
	type ek struct {
		key int
		s   string
	}
	var es []ek
	for _, e := range evs {
		f := strings.Fields(e)
		a, _ := strconv.Atoi(f[1])
		k := map[string]int{"EvPermCreated": 0, "EvPermDeleted": 1, "EvChanCreated": 2, "EvChanDeleted": 3}[f[0]]
		es = append(es, ek{a*4 + k, e})
	}
	sort.SliceStable(es, func(i, j int) bool { return es[i].key < es[j].key })
	var el []string
	for _, e := range es {
		el = append(el, e.s)
	}
	var st []string
	for _, th := range w.threads {
		st = append(st, th.status)
	}
	return fmt.Sprintf("OB [%s] %s %s [%s] [%s]", strings.Join(perms, "; "), chans, verifsim.CoqBool(closed),
		strings.Join(el, "; "), strings.Join(st, "; ")), ok
}

func tdThreadTerm(th *tdThread) string {
	switch th.kind {
	case "perm":
		return fmt.Sprintf("TAddPerm %d", th.a)
	case "chan":
		return fmt.Sprintf("TAddChan %d", th.a)
	}
	return "TClose0"
}

type tdOp struct {
	kind string // run sleepP sleepC
	i    int
}

// runSchedule executes ops (skipping those the harness cannot force) and then drains every thread
func runTDSchedule(t *testing.T, col *verifsim.Collector, kind string, specs []tdThread, ops []tdOp) {
	var desc []string
	for _, s := range specs {
		desc = append(desc, fmt.Sprintf("%s(%d)", s.kind, s.a))
	}
	var od []string
	for _, o := range ops {
		od = append(od, fmt.Sprintf("%s%d", o.kind, o.i))
	}
	fmt.Printf("VERIF-SCHEDULE C18 teardown threads=[%s] ops=[%s]\n", strings.Join(desc, " "), strings.Join(od, " "))
	var steps []string
	allOK := true
	synctest.Test(t, func(t *testing.T) {
		var threads []*tdThread
		for i := range specs {
			s := specs[i]
			s.status = "SNew"
			threads = append(threads, &s)
		}
		w := newTDWorld(t, threads)
		record := func(op string) {
			ob, ok := w.observe()
			allOK = allOK && ok
			steps = append(steps, fmt.Sprintf("(%s, %s)", op, ob))
		}
		doRun := func(i int) {
			// Manager.lock serialises DeleteAllocation / Manager.Close; the model has one closer at a time
			if th := w.threads[i]; !th.started && (th.kind == "close" || th.kind == "mclose") {
				for _, o := range w.threads {
					if o != th && (o.kind == "close" || o.kind == "mclose") && o.started && o.status != "SDone" {
						return
					}
				}
			}
			// which of several waiters gets a released lock is up to the Go scheduler: to keep the comparison with the
			// model deterministic there is at most one blocked thread at a time - while one is blocked only threads
			// parked in a callback (among them the lock holder) are resumed
			if w.anyBlocked() && w.threads[i].status != "SParked" {
				return
			}
			w.runThread(i)
			// threads that were blocked may have been released by this step and run on by themselves
			var js []string
			for j, th := range w.threads {
				if j != i && th.status == "SBlocked" {
					w.settle(th)
					js = append(js, fmt.Sprintf("%d%%nat", j))
				}
			}
			if len(js) == 0 {
				record(fmt.Sprintf("MRun %d", i))
			} else {
				record(fmt.Sprintf("MRunB %d [%s]", i, strings.Join(js, "; ")))
			}
		}
		for _, o := range ops {
			switch o.kind {
			case "run":
				if o.i < len(w.threads) {
					doRun(o.i)
				}
			case "sleepP":
				if !w.anyBlocked() {
					time.Sleep(tdPermLifetime + time.Minute)
					synctest.Wait()
					record("MSleepP")
				}
			case "sleepC":
				if !w.anyBlocked() && w.chlockFree() {
					time.Sleep(tdChanLifetime + time.Minute)
					synctest.Wait()
					record("MSleepC")
				}
			}
		}
		// drain: resume everything until all threads are done
		for round := 0; round < 8; round++ {
			progress := false
			for i, th := range w.threads {
				if th.started && th.status != "SDone" {
					doRun(i)
					progress = true
				}
			}
			if !progress {
				break
			}
		}
		// tear the world down so that the bubble can end
		for _, th := range w.threads {
			if th.started && th.status != "SDone" {
				// still parked or blocked after the drain: a lock-up; release what can be released
				if th.inCb {
					th.inCb = false
					th.resume <- struct{}{}
				}
			}
		}
		_ = w.m.Close()
		for _, th := range w.threads {
			if th.started {
				select {
				case <-th.done:
				default:
				}
			}
		}
	})
	var tl []string
	for i := range specs {
		tl = append(tl, tdThreadTerm(&specs[i]))
	}
	term := fmt.Sprintf("%s [%s] [\n  %s\n]", tdTermHead, strings.Join(tl, "; "), strings.Join(steps, ";\n  "))
	tag := kind
	col.Add(kind, tag, true, term)
	if err := col.Flush(); err != nil {
		t.Fatal(err)
	}
	if !allOK {
		fmt.Printf("VERIF-NOTE C18 a published entry without a timer was observed in schedule [%s]\n", strings.Join(od, " "))
	}
}

func TestVerif_C18TD(t *testing.T) {
	tdTermHead = "TD addperm_ord addchan_ord"
	tdCampaign(t, "C18", "C18Check", "From Turn Require Import LockSkelGen.")
}

// the same forced schedules, judged by C15's "nothing remains after a teardown during a slow callback" (Check/C15TdCheck.v)
//
// The step orders are the ones translator/lockskel extracted from this source tree for this run (lib/c15td.py hands their
// Coq definitions over in VERIF_TD_ORDERS); every case carries them, so that the schedule is replayed on Model/Teardown.v
// under exactly these orders and the hypotheses of the theorems of Properties/C15.v are evaluated on them.
func TestVerif_C15TD(t *testing.T) {
	defs := os.Getenv("VERIF_TD_ORDERS")
	if defs == "" {
		t.Fatal("VERIF_TD_ORDERS is not set: the step orders of the source have not been extracted")
	}
	tdTermHead = "TDO addperm_ord addchan_ord"
	tdCampaign(t, "C15td", "C15TdCheck", defs)
}

// tdTermHead: constructor (and, for C18, the step orders extracted from the source) of the recorded case
var tdTermHead = "TD addperm_ord addchan_ord"

func tdCampaign(t *testing.T, colName, module, preamble string) { //nolint:cyclop
	rng := verifsim.NewRNG(verifsim.Seed() + 1818)
	col := verifsim.NewCollector(colName, module)
	col.Preamble = preamble
	col.PerFile = 100
	P := func(a int) tdThread { return tdThread{kind: "perm", a: a} }
	C := func(a int) tdThread { return tdThread{kind: "chan", a: a} }
	X := tdThread{kind: "close"}
	MX := tdThread{kind: "mclose"}
	run := func(i int) tdOp { return tdOp{"run", i} }
	sleepP, sleepC := tdOp{"sleepP", 0}, tdOp{"sleepC", 0}

	// (1) no contention: the plain life cycles
	runTDSchedule(t, col, "plain", []tdThread{P(1)}, []tdOp{run(0), run(0), sleepP})
	runTDSchedule(t, col, "plain", []tdThread{C(1)}, []tdOp{run(0), run(0), run(0), sleepP, sleepC})
	runTDSchedule(t, col, "plain", []tdThread{P(1), P(1), C(2), C(2), X}, []tdOp{run(0), run(0), run(1), run(2), run(2), run(2), run(3), run(3), sleepP, run(4)})
	// (2) refresh while the first AddPermission is still inside its callback
	runTDSchedule(t, col, "refresh-during-callback", []tdThread{P(1), P(1)}, []tdOp{run(0), run(1), run(0)})
	runTDSchedule(t, col, "refresh-during-callback", []tdThread{C(1), P(1)}, []tdOp{run(0), run(1), run(0), run(0)})
	// (3) timers expiring while a callback is running
	runTDSchedule(t, col, "expiry-during-callback", []tdThread{P(1), P(2)}, []tdOp{run(0), sleepP, run(1), sleepP, run(0), run(1)})
	runTDSchedule(t, col, "expiry-during-callback", []tdThread{C(1)}, []tdOp{run(0), sleepP, run(0), sleepP, run(0), sleepC})
	// (4) the allocation is deleted / the manager closed while a callback is running
	for _, closer := range []tdThread{X, MX} {
		runTDSchedule(t, col, "close-during-perm-callback", []tdThread{P(1), closer}, []tdOp{run(0), run(1), run(0)})
		runTDSchedule(t, col, "close-during-chan-callback", []tdThread{C(1), closer}, []tdOp{run(0), run(1), run(0), run(0)})
		runTDSchedule(t, col, "close-during-chan-callback", []tdThread{C(1), closer}, []tdOp{run(0), run(0), run(1), run(0)})
		runTDSchedule(t, col, "close-then-add", []tdThread{closer, P(1), C(2)}, []tdOp{run(0), run(1), run(1), run(2), run(2), run(2), sleepC})
	}
	runTDSchedule(t, col, "two-closers", []tdThread{P(1), C(2), X, MX}, []tdOp{run(0), run(0), run(1), run(2), run(3), run(1), run(1)})
	// (5) random schedules
	n := 40
	if verifsim.Thorough() {
		n = 1200
	}
	for k := 0; k < n; k++ {
		var specs []tdThread
		nt := 2 + rng.Intn(3)
		for i := 0; i < nt; i++ {
			switch rng.Intn(6) {
			case 0, 1:
				specs = append(specs, P(1+rng.Intn(2)))
			case 2, 3:
				specs = append(specs, C(1+rng.Intn(2)))
			case 4:
				specs = append(specs, X)
			default:
				specs = append(specs, MX)
			}
		}
		var ops []tdOp
		for i := 0; i < 3+rng.Intn(8); i++ {
			switch rng.Intn(8) {
			case 0:
				ops = append(ops, sleepP)
			case 1:
				ops = append(ops, sleepC)
			default:
				ops = append(ops, run(rng.Intn(nt)))
			}
		}
		runTDSchedule(t, col, "random", specs, ops)
	}
	if err := col.Flush(); err != nil {
		t.Fatal(err)
	}
}
