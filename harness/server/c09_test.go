//go:build verif

package server

import (
	"encoding/binary"
	"errors"
	"fmt"
	"net"
	"strings"
	"testing"
	"time"

	"github.com/pion/logging"
	"github.com/pion/stun/v3"
	"github.com/pion/turn/v5/internal/allocation"
	"github.com/pion/turn/v5/internal/auth"
	"github.com/pion/turn/v5/internal/proto"
	"github.com/pion/turn/v5/internal/verifsim"
)

func c09Attrs(m *stun.Message) string {
	var xs []string
	for _, a := range m.Attributes {
		xs = append(xs, fmt.Sprintf("(%d, %s)", uint16(a.Type), verifsim.CoqBytes(a.Value)))
	}
	return "[" + strings.Join(xs, "; ") + "]"
}

func TestVerif_C09(t *testing.T) { //nolint:cyclop
	rng := verifsim.NewRNG(verifsim.Seed() + 909)
	col := verifsim.NewCollector("C09", "C09Check")
	col.PerFile = 250
	n := 1500
	if verifsim.Thorough() {
		n = 40000
	}
	lf := logging.NewDefaultLoggerFactory()
	lf.DefaultLogLevel = logging.LogLevelDisabled
	log := lf.NewLogger("verif")
	sim := verifsim.NewSimNet()
	srvConn, _ := sim.NewPacketConn(&net.UDPAddr{IP: net.IPv4(10, 0, 0, 1), Port: 3478})
	port := 50000
	am, err := allocation.NewManager(allocation.ManagerConfig{
		LeveledLogger: log,
		AllocatePacketConn: func(allocation.AllocateListenerConfig) (net.PacketConn, net.Addr, error) {
			port++
			c, e := sim.NewPacketConn(&net.UDPAddr{IP: net.IPv4(10, 9, 0, 1), Port: port})
			if e != nil {
				return nil, nil, e
			}
			return c, c.LocalAddr(), nil
		},
		AllocateListener: func(allocation.AllocateListenerConfig) (net.Listener, net.Addr, error) {
			return nil, nil, errors.New("none")
		},
		AllocateConn: func(allocation.AllocateConnConfig) (net.Conn, error) { return nil, errors.New("none") },
	})
	if err != nil {
		t.Fatal(err)
	}
	nonce, _ := NewShortNonceHash(0)
	src := &net.UDPAddr{IP: net.IPv4(10, 0, 0, 2), Port: 5000}
	// one existing allocation with a permission and a binding, so that some inputs get deeper
	ft := &allocation.FiveTuple{SrcAddr: src, DstAddr: srvConn.LocalAddr(), Protocol: allocation.UDP}
	a, err := am.CreateAllocation(ft, srvConn, proto.ProtoUDP, 0, time.Hour, "uid1", "realm1", proto.RequestedFamilyIPv4)
	if err != nil {
		t.Fatal(err)
	}
	peer := &net.UDPAddr{IP: net.IPv4(10, 1, 0, 1), Port: 7000}
	if err := a.AddChannelBind(allocation.NewChannelBind(0x4000, peer, log), time.Hour, time.Hour); err != nil {
		t.Fatal(err)
	}
	req := func(buf []byte, from *net.UDPAddr) Request {
		return Request{Conn: srvConn, SrcAddr: from, Buff: buf, AllocationManager: am, NonceHash: nonce, Log: log, Realm: "realm1",
			AuthHandler: func(ra *auth.RequestAttributes) (string, []byte, bool) {
				return "uid1", []byte("0123456789abcdef"), ra.Username == "user1"
			},
			ChannelBindTimeout: time.Hour, PermissionTimeout: time.Hour, AllocationLifetime: time.Hour}
	}
	for i, buf := range verifsim.Hostile(rng, n) {
		// (a) the STUN decoder itself
		m := &stun.Message{Raw: append([]byte{}, buf...)}
		var derr error
		func() {
			defer func() {
				if r := recover(); r != nil {
					derr = fmt.Errorf("panic")
					t.Errorf("PANIC in stun Decode: %v on %x", r, buf)
				}
			}()
			derr = m.Decode()
		}()
		dobs := "DErr"
		if derr == nil {
			dobs = fmt.Sprintf("(DOk %d %s %s)", binary.BigEndian.Uint16(buf[0:2]), verifsim.CoqBytes(m.TransactionID[:]), c09Attrs(m))
		}
		col.Add("stun-decode", "decode", derr == nil, fmt.Sprintf("KStunDecode %s %s", verifsim.CoqBytes(buf), dobs))

		// (b) the server's dispatch
		from := src
		if i%3 == 0 {
			from = &net.UDPAddr{IP: net.IPv4(10, 0, 0, 3), Port: 5000} // a party without allocation
		}
		sim.Drain()
		var herr error
		panicked := false
		func() {
			defer func() {
				if r := recover(); r != nil {
					panicked = true
					t.Errorf("PANIC in HandleRequest: %v on %x", r, buf)
				}
			}()
			herr = HandleRequest(req(append([]byte{}, buf...), from))
		}()
		var resp *stun.Message
		for _, o := range sim.Drain() {
			if o.From.String() == srvConn.LocalAddr().String() {
				r := &stun.Message{Raw: o.Data}
				if r.Decode() == nil {
					resp = r
				}
			}
		}
		obs := "OOther"
		switch {
		case errors.Is(herr, errUnableToHandleChannelData), errors.Is(herr, errFailedToCreateChannelData):
			obs = "OChanData"
		case errors.Is(herr, errFailedToCreateSTUNPacket):
			obs = "ODecodeFail"
		case errors.Is(herr, errUnhandledSTUNPacket):
			obs = "OUnhandled"
		case resp != nil:
			var ec stun.ErrorCodeAttribute
			var ua stun.UnknownAttributes
			dfOnly := ua.GetFrom(resp) == nil && len(ua) == 1 && ua[0] == stun.AttrDontFragment // Allocate's own DONT-FRAGMENT answer
			if herr == nil && resp.Type.Class == stun.ClassErrorResponse && ec.GetFrom(resp) == nil && ec.Code == stun.CodeUnknownAttribute && resp.Contains(stun.AttrUnknownAttributes) && !dfOnly {
				obs = fmt.Sprintf("(OUnknownAttrs %d %s)", uint16(resp.Type.Method), verifsim.CoqBytes(resp.TransactionID[:]))
			} else {
				obs = fmt.Sprintf("(OHandler true %d %s)", uint16(resp.Type.Method), verifsim.CoqBytes(resp.TransactionID[:]))
			}
		case errors.Is(herr, errFailedToHandle):
			obs = fmt.Sprintf("(OHandler false 0 %s)", verifsim.CoqBytes(nil))
		case herr == nil && proto.IsChannelData(buf):
			obs = "OChanData" // relayed through the existing binding
		case herr == nil:
			obs = fmt.Sprintf("(OHandler false 0 %s)", verifsim.CoqBytes(nil)) // e.g. a Send indication that was relayed
		}
		col.Add("server-dispatch", "srv", resp != nil, fmt.Sprintf("KSrv %s %s %s", verifsim.CoqBytes(buf), obs, verifsim.CoqBool(panicked)))
	}
	if err := col.Flush(); err != nil {
		t.Fatal(err)
	}
	_ = am.Close()
}
