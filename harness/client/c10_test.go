//go:build verif

package client

import (
	"errors"
	"fmt"
	"io"
	"strings"
	"testing"

	"github.com/pion/logging"
	"github.com/pion/stun/v3"
	"github.com/pion/transport/v4"
	"github.com/pion/turn/v5/internal/proto"
	"github.com/pion/turn/v5/internal/verifsim"
)

// segConn is a transport.TCPConn whose Read returns the scripted segments, then io.EOF.
type segConn struct {
	transport.TCPConn
	segs [][]byte
}

func (c *segConn) Write(b []byte) (int, error) { return len(b), nil }
func (c *segConn) Read(p []byte) (int, error) {
	for len(c.segs) > 0 && len(c.segs[0]) == 0 {
		c.segs = c.segs[1:]
	}
	if len(c.segs) == 0 {
		return 0, io.EOF
	}
	n := copy(p, c.segs[0])
	c.segs[0] = c.segs[0][n:]
	return n, nil
}
func (c *segConn) rest() []byte {
	var r []byte
	for _, s := range c.segs {
		r = append(r, s...)
	}
	return r
}

func c10CoqSegs(segs [][]byte) string {
	var xs []string
	for _, s := range segs {
		xs = append(xs, verifsim.CoqBytes(s))
	}
	return "[" + strings.Join(xs, "; ") + "]"
}

func TestVerif_C10(t *testing.T) {
	rng := verifsim.NewRNG(verifsim.Seed() + 77)
	col := verifsim.NewCollector("C10", "C10Check")
	col.Prop = "C10b"
	thorough := verifsim.Thorough()
	log := logging.NewDefaultLoggerFactory().NewLogger("verif")
	alloc := &TCPAllocation{allocation: allocation{log: log, username: stun.NewUsername("u"), realm: stun.NewRealm("r"),
		_nonce: stun.NewNonce("n"), integrity: stun.NewShortTermIntegrity("pw")}}

	run := func(segs [][]byte, tag string) {
		cp := make([][]byte, len(segs))
		for i := range segs {
			cp[i] = append([]byte{}, segs[i]...)
		}
		conn := &segConn{segs: cp}
		dc := &TCPConn{TCPConn: conn, allocation: alloc}
		var err error
		func() {
			defer func() {
				if r := recover(); r != nil {
					err = fmt.Errorf("panic: %v", r)
					t.Errorf("PANIC in BindConnection: %v", r)
				}
			}()
			err = alloc.BindConnection(dc, proto.ConnectionID(7))
		}()
		obs := "OBindOther"
		switch {
		case err == nil:
			obs = fmt.Sprintf("(OBindOk %s)", verifsim.CoqBytes(conn.rest()))
		case errors.Is(err, errIncompleteTURNFrame), errors.Is(err, io.EOF), errors.Is(err, io.ErrUnexpectedEOF):
			obs = "OBindShort"
		case errors.Is(err, errInvalidTURNFrame):
			obs = "OBindNotStun"
		case strings.Contains(err.Error(), "failed to decode STUN message"):
			obs = "OBindDecodeErr"
		case strings.Contains(err.Error(), "error response") || strings.Contains(err.Error(), "unexpected STUN request message"):
			obs = "OBindErrResp"
		}
		col.Add("bind-reply", tag, err == nil, fmt.Sprintf("KBind %s %s", c10CoqSegs(segs), obs))
	}
	cut := func(s []byte, cuts []int) [][]byte {
		var out [][]byte
		prev := 0
		for _, c := range cuts {
			if c <= prev || c >= len(s) {
				continue
			}
			out = append(out, s[prev:c])
			prev = c
		}
		return append(out, s[prev:])
	}
	mkReply := func(class stun.MessageClass, extra int) []byte {
		setters := []stun.Setter{stun.TransactionID, stun.NewType(stun.MethodConnectionBind, class)}
		if class == stun.ClassErrorResponse {
			setters = append(setters, stun.ErrorCodeAttribute{Code: stun.CodeBadRequest})
		} else {
			setters = append(setters, proto.ConnectionID(7))
		}
		if rng.Bool() {
			setters = append(setters, stun.NewSoftware("verif-software-attribute"))
		}
		m, err := stun.Build(setters...)
		if err != nil {
			t.Fatal(err)
		}
		return append(append([]byte{}, m.Raw...), rng.Bytes(extra)...)
	}
	nrep := 6
	if thorough {
		nrep = 60
	}
	for i := 0; i < nrep; i++ {
		class := stun.ClassSuccessResponse
		if i%3 == 2 {
			class = stun.ClassErrorResponse
		}
		s := mkReply(class, verifsim.Pick(rng, []int{0, 0, 1, 5, 40}))
		run([][]byte{s}, "coalesced")
		var bytewise [][]byte
		for j := range s {
			bytewise = append(bytewise, s[j:j+1])
		}
		run(bytewise, "bytewise")
		for c := 1; c < len(s); c++ {
			run(cut(s, []int{c}), "1cut")
		}
		for range 20 {
			a := 1 + rng.Intn(len(s))
			run(cut(s, []int{a, a + 1 + rng.Intn(len(s))}), "2cut")
		}
		// truncated replies
		for _, k := range []int{0, 1, 19, 20, 21, len(s) - 1} {
			if k >= 0 && k < len(s) {
				run(cut(s[:k], []int{k / 2}), "truncated")
			}
		}
	}
	// not STUN at all
	for range 10 {
		s := rng.Bytes(20 + rng.Intn(30))
		run(cut(s, []int{rng.Intn(len(s))}), "garbage")
	}
	if err := col.Flush(); err != nil {
		t.Fatal(err)
	}
}
