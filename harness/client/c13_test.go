//go:build verif

package client

import (
	"errors"
	"fmt"
	"math/big"
	"net"
	"sort"
	"strings"
	"sync"
	"testing"
	"testing/synctest"
	"time"

	"github.com/pion/logging"
	"github.com/pion/stun/v3"
	"github.com/pion/turn/v5/internal/proto"
	"github.com/pion/turn/v5/internal/verifsim"
)

func c13IP(ip net.IP) string { return new(big.Int).SetBytes(ip.To16()).String() }
func c13Addr(a net.Addr) string {
	switch x := a.(type) {
	case *net.UDPAddr:
		return fmt.Sprintf("(A %s %d)", c13IP(x.IP), x.Port)
	case *net.TCPAddr:
		return fmt.Sprintf("(A %s %d)", c13IP(x.IP), x.Port)
	}
	return "(A 0 0)"
}

// c13Client is the TURN client underneath the relayed socket, scripted by the harness.
type c13Client struct {
	mu         sync.Mutex
	wire       []string
	permReacts []string
	bindCh     map[string]chan string
}

func (c *c13Client) rec(s string) { c.mu.Lock(); c.wire = append(c.wire, s); c.mu.Unlock() }
func (c *c13Client) take() []string {
	c.mu.Lock()
	defer c.mu.Unlock()
	w := c.wire
	c.wire = nil
	sort.Strings(w)
	return w
}
func (c *c13Client) WriteTo(data []byte, _ net.Addr) (int, error) {
	if proto.IsChannelData(data) {
		cd := proto.ChannelData{Raw: data}
		if cd.Decode() == nil {
			c.rec(fmt.Sprintf("WChanData %d %s", uint16(cd.Number), verifsim.CoqBytes(cd.Data)))
			return len(data), nil
		}
	}
	m := &stun.Message{Raw: append([]byte{}, data...)}
	if m.Decode() == nil && m.Type.Method == stun.MethodSend {
		var pa proto.PeerAddress
		var d proto.Data
		_ = pa.GetFrom(m)
		_ = d.GetFrom(m)
		c.rec(fmt.Sprintf("WSend %s %s", c13Addr(&net.UDPAddr{IP: pa.IP, Port: pa.Port}), verifsim.CoqBytes(d)))
	}
	return len(data), nil
}
func (c *c13Client) OnDeallocated(net.Addr) {}

func c13ErrResp(m stun.Method, code stun.ErrorCode) *stun.Message {
	setters := []stun.Setter{stun.NewType(m, stun.ClassErrorResponse), stun.ErrorCodeAttribute{Code: code}}
	if code == stun.CodeStaleNonce {
		setters = append(setters, stun.NewNonce("nonce-renewed"))
	}
	return stun.MustBuild(setters...)
}

func (c *c13Client) PerformTransaction(msg *stun.Message, _ net.Addr, dontWait bool) (TransactionResult, error) {
	switch msg.Type.Method {
	case stun.MethodCreatePermission:
		var ips []string
		_ = msg.ForEach(stun.AttrXORPeerAddress, func(m *stun.Message) error {
			var pa proto.PeerAddress
			if pa.GetFrom(m) == nil {
				ips = append(ips, c13IP(pa.IP))
			}
			return nil
		})
		c.rec(fmt.Sprintf("WCreatePerm [%s]", strings.Join(ips, "; ")))
		c.mu.Lock()
		r := "PFail"
		if len(c.permReacts) > 0 {
			r, c.permReacts = c.permReacts[0], c.permReacts[1:]
		}
		c.mu.Unlock()
		switch {
		case r == "POk":
			return TransactionResult{Msg: stun.MustBuild(stun.NewType(stun.MethodCreatePermission, stun.ClassSuccessResponse))}, nil
		case r == "PStale":
			return TransactionResult{Msg: c13ErrResp(stun.MethodCreatePermission, stun.CodeStaleNonce)}, nil
		case strings.HasPrefix(r, "(PErr"):
			var code int
			fmt.Sscanf(r, "(PErr %d)", &code)
			return TransactionResult{Msg: c13ErrResp(stun.MethodCreatePermission, stun.ErrorCode(code))}, nil
		}
		return TransactionResult{}, errors.New("sim: transaction failed")
	case stun.MethodChannelBind:
		var pa proto.PeerAddress
		var n proto.ChannelNumber
		_ = pa.GetFrom(msg)
		_ = n.GetFrom(msg)
		peer := &net.UDPAddr{IP: pa.IP, Port: pa.Port}
		c.rec(fmt.Sprintf("WChannelBind %d %s", uint16(n), c13Addr(peer)))
		c.mu.Lock()
		ch, ok := c.bindCh[peer.String()]
		if !ok {
			ch = make(chan string, 8)
			c.bindCh[peer.String()] = ch
		}
		c.mu.Unlock()
		r := <-ch
		switch {
		case r == "BOk":
			return TransactionResult{Msg: stun.MustBuild(stun.NewType(stun.MethodChannelBind, stun.ClassSuccessResponse))}, nil
		case r == "BStale":
			return TransactionResult{Msg: c13ErrResp(stun.MethodChannelBind, stun.CodeStaleNonce)}, nil
		case r == "B400":
			return TransactionResult{Msg: c13ErrResp(stun.MethodChannelBind, stun.CodeBadRequest)}, nil
		case strings.HasPrefix(r, "(BErrCode"):
			var code int
			fmt.Sscanf(r, "(BErrCode %d)", &code)
			return TransactionResult{Msg: c13ErrResp(stun.MethodChannelBind, stun.ErrorCode(code))}, nil
		}
		return TransactionResult{}, errors.New("sim: transaction failed")
	case stun.MethodRefresh:
		var lt proto.Lifetime
		if lt.GetFrom(msg) == nil && lt.Duration == 0 {
			c.rec("WRefresh0")
		}
		if dontWait {
			return TransactionResult{}, nil
		}
		return TransactionResult{Msg: stun.MustBuild(stun.NewType(stun.MethodRefresh, stun.ClassSuccessResponse), proto.Lifetime{Duration: time.Hour})}, nil
	}
	return TransactionResult{}, errors.New("sim: unexpected transaction")
}

func c13State(s bindingState) string {
	return []string{"BIdle", "BRequest", "BUnknown", "BReadyUnknown", "BReady", "BRefresh", "BFailed"}[int(s)]
}

type c13World struct {
	t     *testing.T
	cl    *c13Client
	conn  *UDPConn
	start time.Time
	steps []string
	pend  map[string]int // outstanding ChannelBind transactions per peer (as the harness believes)
}

func (w *c13World) step(ev string, ret string) {
	synctest.Wait()
	var perms, binds []string
	w.conn.permMap.mutex.RLock()
	for _, p := range w.conn.permMap.permMap {
		if u, ok := p.addr.(*net.UDPAddr); ok && p.state() == permStatePermitted {
			perms = append(perms, c13IP(u.IP))
		}
	}
	w.conn.permMap.mutex.RUnlock()
	sort.Strings(perms)
	for _, b := range w.conn.bindingMgr.all() {
		binds = append(binds, fmt.Sprintf("(%s, %d, %s)", c13Addr(b.addr), b.number, c13State(b.state())))
	}
	sort.Strings(binds)
	w.steps = append(w.steps, fmt.Sprintf("CO (%s) [%s] %s [%s] [%s]", ev, strings.Join(w.cl.take(), "; "), ret, strings.Join(perms, "; "), strings.Join(binds, "; ")))
}

func runC13History(t *testing.T, rng *verifsim.RNG, nEvents int, manyPeers bool) (term string) {
	synctest.Test(t, func(t *testing.T) {
		lf := logging.NewDefaultLoggerFactory()
		lf.DefaultLogLevel = logging.LogLevelDisabled
		cl := &c13Client{bindCh: map[string]chan string{}}
		conn := NewUDPConn(&AllocationConfig{Client: cl, RelayedAddr: &net.UDPAddr{IP: net.IPv4(10, 9, 0, 1), Port: 49152},
			ServerAddr: &net.UDPAddr{IP: net.IPv4(10, 0, 0, 1), Port: 3478}, Lifetime: 100000 * time.Hour, Log: lf.NewLogger("verif"),
			PermissionRefreshInterval: 100000 * time.Hour, BindingCheckInterval: 100000 * time.Hour})
		w := &c13World{t: t, cl: cl, conn: conn, start: time.Now(), pend: map[string]int{}}
		peers := []*net.UDPAddr{{IP: net.IPv4(10, 1, 0, 1), Port: 7000}, {IP: net.IPv4(10, 1, 0, 1), Port: 7001}, {IP: net.IPv4(10, 1, 0, 2), Port: 7000},
			{IP: net.ParseIP("fd00:1::1"), Port: 7000}}
		if manyPeers {
			for i := 0; i < 40; i++ {
				peers = append(peers, &net.UDPAddr{IP: net.IPv4(10, 2, byte(i/200), byte(i%200+1)), Port: 9000 + i})
			}
		}
		closed := false
		hasDeadline := false
		var deadline time.Time
		queued := 0
		for i := 0; i < nEvents; i++ {
			p := verifsim.Pick(rng, peers)
			switch k := rng.Intn(20); {
			case k < 7: // WriteTo
				d := rng.Bytes(rng.Intn(24))
				var reacts []string
				for range 3 {
					reacts = append(reacts, verifsim.Pick(rng, []string{"POk", "POk", "POk", "POk", "PStale", "PStale", "(PErr 403)", "(PErr 400)", "PFail"}))
				}
				cl.mu.Lock()
				cl.permReacts = append([]string{}, reacts...)
				cl.mu.Unlock()
				n, err := conn.WriteTo(d, p)
				ret := fmt.Sprintf("(RWrote %d)", n)
				if err != nil {
					ret = "RErrPerm"
					var oe *net.OpError
					if errors.As(err, &oe) && errors.Is(oe.Err, errClosed) {
						ret = "RErrClosed"
					}
				}
				w.step(fmt.Sprintf("CWrite %s %s [%s]", c13Addr(p), verifsim.CoqBytes(d), strings.Join(reacts, "; ")), ret)
			case k < 11: // the server's answer to an outstanding ChannelBind
				var cands []*net.UDPAddr
				for _, b := range conn.bindingMgr.all() {
					if st := b.state(); st == bindingStateRequest || st == bindingStateRefresh {
						cands = append(cands, b.addr.(*net.UDPAddr))
					}
				}
				if len(cands) == 0 {
					continue
				}
				sort.Slice(cands, func(i, j int) bool { return cands[i].String() < cands[j].String() })
				q := verifsim.Pick(rng, cands)
				r := verifsim.Pick(rng, []string{"BOk", "BOk", "BOk", "BStale", "B400", "(BErrCode 437)", "BFail", "BFail", "BFail"})
				if r == "BStale" && w.pend[q.String()] >= 2 {
					r = "BOk" // the third 438 in a row makes the client give up; not in the model
				}
				if r == "BStale" {
					w.pend[q.String()]++
				} else {
					w.pend[q.String()] = 0
				}
				cl.mu.Lock()
				ch := cl.bindCh[q.String()]
				cl.mu.Unlock()
				if ch == nil {
					continue
				}
				ch <- r
				w.step(fmt.Sprintf("CBindReact %s %s", c13Addr(q), r), "RNone")
				if r == "B400" && conn.isClosed() {
					closed = true
				}
			case k < 13: // Data indication
				d := rng.Bytes(rng.Intn(16))
				from := &net.UDPAddr{IP: p.IP, Port: verifsim.Pick(rng, []int{p.Port, 1234})}
				conn.HandleInbound(d, from)
				queued++
				w.step(fmt.Sprintf("CInData %s %s", c13Addr(from), verifsim.CoqBytes(d)), "RNone")
			case k < 15: // ChannelData
				n := 0x4000 + rng.Intn(len(peers)+2)
				d := rng.Bytes(rng.Intn(16))
				ret := "RNone"
				if addr, ok := conn.FindAddrByChannelNumber(uint16(n)); ok {
					conn.HandleInbound(d, addr)
					queued++
				} else {
					ret = "RInErr"
				}
				w.step(fmt.Sprintf("CInChan %d %s", n, verifsim.CoqBytes(d)), ret)
			case k < 17: // ReadFrom, when it can return at once
				// ReadFrom selects among data, deadline and close; Go picks at random when several are ready,
				// so it is only called when exactly one of them is
				ready := 0
				if queued > 0 {
					ready++
				}
				if closed {
					ready++
				}
				if hasDeadline && !time.Now().Before(deadline) {
					ready++
				}
				if ready != 1 {
					continue
				}
				type rr struct {
					n    int
					from net.Addr
					err  error
					b    []byte
				}
				ch := make(chan rr, 1)
				go func() {
					buf := make([]byte, 2048)
					n, from, err := conn.ReadFrom(buf)
					ch <- rr{n, from, err, buf[:n]}
				}()
				synctest.Wait()
				select {
				case r := <-ch:
					ret := "RNone"
					var oe *net.OpError
					switch {
					case r.err == nil:
						ret = fmt.Sprintf("(RRead %s %s)", c13Addr(r.from), verifsim.CoqBytes(r.b))
						queued--
					case errors.As(r.err, &oe) && errors.Is(oe.Err, errClosed):
						ret = "RErrClosed"
					case errors.As(r.err, &oe) && oe.Timeout():
						ret = "RTimeout"
						hasDeadline = false // the timer fired once; the model keeps the deadline, so clear both
						_ = conn.SetReadDeadline(time.Time{})
					}
					w.step("CRead", ret)
					if ret == "RTimeout" {
						w.step("CSetDeadline None", "RNone")
					}
				default:
					t.Fatalf("ReadFrom blocked although it had something to return")
				}
			case k == 17: // deadline
				if rng.Bool() {
					d := time.Duration(1+rng.Intn(3000)) * time.Millisecond
					deadline = time.Now().Add(d)
					hasDeadline = true
					_ = conn.SetReadDeadline(deadline)
					w.step(fmt.Sprintf("CSetDeadline (Some %d%%Z)", int64(deadline.Sub(w.start))), "RNone")
				} else {
					hasDeadline = false
					_ = conn.SetReadDeadline(time.Time{})
					w.step("CSetDeadline None", "RNone")
				}
			case k == 18: // time, and the binding check timer
				d := verifsim.Pick(rng, []time.Duration{time.Millisecond, time.Second, time.Minute, 5*time.Minute + time.Second, 6 * time.Minute})
				time.Sleep(d)
				w.step(fmt.Sprintf("CTick %d", int64(d)), "RNone")
				if rng.Chance(50) && !closed {
					for _, b := range conn.bindingMgr.all() {
						conn.maybeBind(b)
					}
					w.step("CCheck", "RNone")
				}
			default:
				if rng.Chance(10) {
					err := conn.Close()
					ret := "RNone"
					if err != nil {
						ret = "RErrClosed"
					}
					closed = true
					w.step("CClose", ret)
				}
			}
		}
		term = fmt.Sprintf("CC [\n  %s\n]", strings.Join(w.steps, ";\n  "))
		// let everything end
		for _, ch := range cl.bindCh {
			for range 4 {
				select {
				case ch <- "BFail":
				default:
				}
			}
		}
		_ = conn.Close()
		synctest.Wait()
		for _, ch := range cl.bindCh {
			select {
			case ch <- "BFail":
			default:
			}
		}
		synctest.Wait()
	})
	return
}

func TestVerif_C13(t *testing.T) {
	rng := verifsim.NewRNG(verifsim.Seed() + 1313)
	col := verifsim.NewCollector("C13", "C13Check")
	col.PerFile = 40
	n := 200
	if verifsim.Thorough() {
		n = 4000
	}
	for i := 0; i < n; i++ {
		col.Add("history", "history", true, runC13History(t, rng, 15+rng.Intn(40), i%5 == 4))
	}
	// ConnectionAttempt indications with nobody accepting: the inbound path must never block
	for _, n := range []int{1, 9, 10, 11, 12, 25} {
		synctest.Test(t, func(t *testing.T) {
			lf := logging.NewDefaultLoggerFactory()
			lf.DefaultLogLevel = logging.LogLevelDisabled
			cl := &c13Client{bindCh: map[string]chan string{}}
			a := NewTCPAllocation(&AllocationConfig{Client: cl, RelayedAddr: &net.TCPAddr{IP: net.IPv4(10, 9, 0, 1), Port: 49152},
				ServerAddr: &net.TCPAddr{IP: net.IPv4(10, 0, 0, 1), Port: 3478}, Lifetime: 100000 * time.Hour, Log: lf.NewLogger("verif"),
				PermissionRefreshInterval: 100000 * time.Hour})
			done := make(chan struct{})
			go func() {
				for i := 0; i < n; i++ {
					a.HandleConnectionAttempt(&net.TCPAddr{IP: net.IPv4(10, 1, 0, 1), Port: 7000 + i}, proto.ConnectionID(i+1))
				}
				close(done)
			}()
			synctest.Wait()
			blocked := false
			select {
			case <-done:
			default:
				blocked = true
			}
			col.Add("conn-attempts", "attempt-queue", true, fmt.Sprintf("KAttempts %d %d %s", n, len(a.connAttemptCh), verifsim.CoqBool(blocked)))
			// drain so that a blocked sender can finish and the bubble can end
			for len(a.connAttemptCh) > 0 || blocked {
				select {
				case <-a.connAttemptCh:
				case <-done:
					blocked = false
				}
			}
			a.refreshAllocTimer.Stop()
			a.refreshPermsTimer.Stop()
		})
	}
	if err := col.Flush(); err != nil {
		t.Fatal(err)
	}
}
