(* Bytes, big-endian words, padding, deterministic payload patterns.
   Definitions only (no proofs) so that models evaluate even when a proof breaks. *)
From Coq Require Export List NArith ZArith Bool Lia.
Export ListNotations.
Open Scope N_scope.

Definition bytes := list N.

Definition byte_ok (b : N) : bool := b <? 256.
Definition bytes_ok (l : bytes) : bool := forallb byte_ok l.

Definition be16 (hi lo : N) : N := hi * 256 + lo.
Definition hi8 (n : N) : N := (n / 256) mod 256.
Definition lo8 (n : N) : N := n mod 256.
Definition u16 (n : N) : N := n mod 65536.
Definition u32 (n : N) : N := n mod 4294967296.

Definition be32 (b0 b1 b2 b3 : N) : N := ((b0 * 256 + b1) * 256 + b2) * 256 + b3.
Definition enc32 (n : N) : bytes :=
  [ (n / 16777216) mod 256; (n / 65536) mod 256; (n / 256) mod 256; n mod 256 ].
Definition enc16 (n : N) : bytes := [ hi8 n; lo8 n ].

Definition lenN {A} (l : list A) : N := N.of_nat (length l).

(* nearestPaddedValueLength *)
Definition pad4 (l : N) : N := let n := 4 * (l / 4) in if n <? l then n + 4 else n.

(* Deterministic payload pattern shared with the Go harness:
   byte i of [pat len seed] is (seed + 31*i + i/256) mod 256. *)
(* computed incrementally (no division): b is the current byte, c counts i mod 256 *)
Definition wrap8 (x : N) : N := if x <? 256 then x else x - 256.
Fixpoint pat_from (len : nat) (b c : N) : bytes :=
  match len with
  | O => []
  | S k =>
      let b1 := wrap8 (b + 31) in
      let c1 := c + 1 in
      b :: (if c1 =? 256 then pat_from k (wrap8 (b1 + 1)) 0 else pat_from k b1 c1)
  end.
Definition pat (len : N) (seed : N) : bytes := pat_from (N.to_nat len) (seed mod 256) 0.

Fixpoint beqb (a b : bytes) : bool :=
  match a, b with
  | [], [] => true
  | x :: a', y :: b' => (x =? y) && beqb a' b'
  | _, _ => false
  end.

(* Go slice helpers: s[lo:hi] panics when out of range; the models use the
   checked forms and expose Panic as an outcome. *)
Definition slice_ok {A} (l : list A) (lo hi : nat) : bool :=
  (Nat.leb lo hi) && (Nat.leb hi (length l)).
Definition slice {A} (l : list A) (lo hi : nat) : list A := firstn (hi - lo) (skipn lo l).

Fixpoint zeros (n : nat) : bytes := match n with O => [] | S k => 0 :: zeros k end.

(* big-endian number of a byte string *)
Fixpoint be_val_acc (acc : N) (l : bytes) : N :=
  match l with [] => acc | b :: r => be_val_acc (acc * 256 + b) r end.
Definition be_val (l : bytes) : N := be_val_acc 0 l.
(* big-endian encoding on exactly n bytes (truncating high bytes) *)
Fixpoint be_enc (n : nat) (v : N) : bytes :=
  match n with
  | O => []
  | S k => be_enc k (v / 256) ++ [v mod 256]
  end.
