(* Model of internal/proto/stun_conn.go: consumeSingleTURNFrame and STUNConn.ReadFrom,
   and of the client's parsing of the ConnectionBind reply (internal/client/tcp_alloc.go).
   This is the framer after the fix: ChannelData is recognised by its number range first,
   sizes are computed without uint16 wrap-around, 4 bytes suffice for a ChannelData header. *)
From Turn Require Export Bytes ChanData Attrs.
Open Scope N_scope.

Inductive fr_res := FrOk (n : nat) | FrIncomplete | FrInvalid.

(* stun.IsMessage: at least 20 bytes and the magic cookie at [4,8) *)
Definition is_stun_msg (b : bytes) : bool :=
  (20 <=? length b)%nat && beqb (firstn 4 (skipn 4 b)) magic.

Definition consume (b : bytes) : fr_res :=
  match b with
  | b0 :: b1 :: b2 :: b3 :: _ =>
      if valid_chan (be16 b0 b1) then
        let size := (4 + N.to_nat (pad4 (be16 b2 b3)))%nat in
        if (length b <? size)%nat then FrIncomplete else FrOk size
      else if (length b <? 20)%nat then FrIncomplete
      else if is_stun_msg b then
        let size := (N.to_nat (be16 b2 b3) + 20)%nat in
        if (length b <? size)%nat then FrIncomplete else FrOk size
      else FrInvalid
  | _ => FrIncomplete
  end.

(* The pinned tree's framer, kept to state what was wrong with it (F3, F4, F5):
   nine bytes required, IsMessage tested first, sizes in uint16. *)
Definition consume_pinned (b : bytes) : fr_res :=
  if (length b <? 9)%nat then FrIncomplete else
  match b with
  | b0 :: b1 :: b2 :: b3 :: _ =>
      let fin (size : N) := if (length b <? N.to_nat size)%nat then FrIncomplete else FrOk (N.to_nat size) in
      if is_stun_msg b then fin (u16 (be16 b2 b3 + 20))
      else if valid_chan (be16 b0 b1) then
        let l := be16 b2 b3 in
        let ov := u16 (l + 4) mod 4 in
        let l' := if ov =? 0 then l else u16 (u16 (l + 4) - ov) in
        fin (u16 (l' + 4))
      else if (length b <? 20)%nat then FrIncomplete
      else FrInvalid
  | _ => FrIncomplete
  end.

(* One STUNConn.ReadFrom call. [reads] are the results of the successive nextConn.Read
   calls still to come (the segmentation); running out of them is the connection's EOF/error. *)
Inductive rf_res := RfFrame (f : bytes) | RfInvalid | RfEOF.

Fixpoint read_from (reads : list bytes) (buf : bytes) : rf_res * bytes * list bytes :=
  match consume buf with
  | FrInvalid => (RfInvalid, buf, reads)
  | FrOk n => (RfFrame (firstn n buf), skipn n buf, reads)
  | FrIncomplete =>
      match reads with
      | [] => (RfEOF, buf, [])
      | r :: rs => read_from rs (buf ++ r)
      end
  end.

(* The server's read loop over one stream connection: call ReadFrom until it fails. *)
Inductive rf_end := EndInvalid | EndEOF (leftover : bytes) | EndFuel.

Fixpoint read_all (fuel : nat) (reads : list bytes) (buf : bytes) : list bytes * rf_end :=
  match fuel with
  | O => ([], EndFuel)
  | S k =>
      match read_from reads buf with
      | (RfFrame f, buf', reads') => let '(fs, e) := read_all k reads' buf' in (f :: fs, e)
      | (RfInvalid, _, _) => ([], EndInvalid)
      | (RfEOF, b, _) => ([], EndEOF b)
      end
  end.

(* Segmentation-free specification: what the byte stream contains. *)
Fixpoint parse (fuel : nat) (s : bytes) : list bytes * rf_end :=
  match fuel with
  | O => ([], EndFuel)
  | S k =>
      match consume s with
      | FrOk n => let '(fs, e) := parse k (skipn n s) in (firstn n s :: fs, e)
      | FrInvalid => ([], EndInvalid)
      | FrIncomplete => ([], EndEOF s)
      end
  end.

(* Well-formed frames *)
Definition stun_frame (t0 t1 l0 l1 : N) (tid body : bytes) : bytes :=
  [t0; t1; l0; l1] ++ magic ++ tid ++ body.

Inductive wf_frame : bytes -> Prop :=
| WfChan n d : valid_chan n = true -> lenN d < 65536 -> wf_frame (cd_encode n d)
| WfStun t0 t1 l0 l1 tid body :
    valid_chan (be16 t0 t1) = false -> length tid = 12%nat -> lenN body = be16 l0 l1 ->
    wf_frame (stun_frame t0 t1 l0 l1 tid body).

(* io.ReadFull over a segmented stream: exactly k bytes or failure *)
Fixpoint read_full (k : nat) (reads : list bytes) : option (bytes * list bytes) :=
  match k with
  | O => Some ([], reads)
  | S _ =>
      match reads with
      | [] => None
      | r :: rs =>
          if (k <=? length r)%nat then Some (firstn k r, skipn k r :: rs)
          else match read_full (k - length r) rs with
               | Some (x, rest) => Some (r ++ x, rest)
               | None => None
               end
      end
  end.

(* TCPAllocation.BindConnection reply parsing (after the fix: io.ReadFull of the 20-byte
   header, cookie check, io.ReadFull of the body). Returns the raw message and what is left
   in the connection for the application. *)
Inductive bind_res := BindMsg (raw : bytes) (rest : list bytes) | BindShort | BindNotStun.

Definition bind_read (reads : list bytes) : bind_res :=
  match read_full 20 reads with
  | None => BindShort
  | Some (hdr, rest) =>
      if negb (is_stun_msg hdr) then BindNotStun
      else match hdr with
           | _ :: _ :: l0 :: l1 :: _ =>
               match read_full (N.to_nat (be16 l0 l1)) rest with
               | None => BindShort
               | Some (body, rest') => BindMsg (hdr ++ body) rest'
               end
           | _ => BindShort
           end
  end.
