(* Model of the bundled relay address generators (relay_address_generator_{range,static,none}.go):
   port arithmetic in uint16, the retry loop, what is advertised. The socket layer is the
   environment: [bind key] says whether the OS lets that (protocol, family, port) be bound. *)
From Turn Require Export Bytes.
Open Scope N_scope.

(* int((r.MaxPort+1)-r.MinPort) with both operations in uint16 *)
Definition count16 (minp maxp : N) : N := u16 (u16 (maxp + 1) + 65536 - minp).
(* r.MinPort + uint16(x) in uint16 *)
Definition pick (minp x : N) : N := u16 (minp + u16 x).

Inductive gkind := GRange (minp maxp : N) (retries : nat) | GStatic | GNone.
Definition key := (bool * bool * N)%type.     (* tcp?, ipv6?, port *)
Definition key_eqb (a b : key) : bool :=
  let '(t, v, p) := a in let '(t', v', p') := b in Bool.eqb t t' && Bool.eqb v v' && (p =? p').

(* the retry loop: [rands] are the successive results of Rand.Intn (each below the count) *)
Fixpoint range_loop (tries : nat) (minp : N) (rands : list N) (bind : N -> bool) : option N :=
  match tries, rands with
  | S k, x :: r => let p := pick minp x in if bind p then Some p else range_loop k minp r bind
  | _, _ => None
  end.

(* one allocation: requested port (0 = none), environment's ephemeral port for "port 0" binds *)
Definition gen_alloc (g : gkind) (requested : N) (rands : list N) (eph : N) (bind : N -> bool) : option N :=
  if negb (requested =? 0) then (if bind requested then Some requested else None)
  else match g with
       | GRange minp maxp retries => range_loop retries minp rands bind
       | GStatic | GNone => if bind eph then Some eph else None
       end.

(* advertised IP: the configured relay address, or the socket's own for the pass-through generator *)
Definition advertised_ip (g : gkind) (relay_ip sock_ip : N) : N :=
  match g with GNone => sock_ip | _ => relay_ip end.

(* histories of allocate / close against an OS that refuses a port already bound *)
Inductive gev := GAlloc (tcp v6 : bool) (requested : N) (rands : list N) (eph : N) | GClose (k : key).
Definition in_use (k : key) (l : list key) : bool := existsb (key_eqb k) l.
Definition gstep (g : gkind) (l : list key) (e : gev) : list key * option N :=
  match e with
  | GAlloc t v rq rands eph =>
      match gen_alloc g rq rands eph (fun p => negb (in_use (t, v, p) l)) with
      | Some p => ((t, v, p) :: l, Some p)
      | None => (l, None)
      end
  | GClose k => (filter (fun x => negb (key_eqb k x)) l, None)
  end.
Fixpoint grun (g : gkind) (l : list key) (h : list gev) : list key :=
  match h with [] => l | e :: r => grun g (fst (gstep g l e)) r end.
