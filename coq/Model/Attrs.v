(* Model of the TURN attribute codecs of internal/proto (value <-> raw attribute value).
   stun.Message.Add/Get (TLV framing) is pion/stun and is not modelled here: the
   harness feeds raw values through m.Add / reads them with m.Get. *)
From Turn Require Export Bytes.
Open Scope N_scope.

Inductive aerr := ESizeInvalid | ESizeOverflow | EEOF | EBadFamily | EBadValue | EBadIPLen.
Inductive ares (A : Type) := AOk (v : A) | AErr (e : aerr).
Arguments AOk {A} v.
Arguments AErr {A} e.

(* CHANNEL-NUMBER: 16 bit number + 16 bit RFFU *)
Definition enc_channum (n : N) : bytes := enc16 (u16 n) ++ [0; 0].
Definition dec_channum (v : bytes) : ares N :=
  match v with
  | [a; b; _; _] => AOk (be16 a b)
  | _ => AErr ESizeInvalid
  end.

(* LIFETIME: whole seconds as uint32 *)
Definition enc_lifetime (secs : N) : bytes := enc32 (u32 secs).
Definition dec_lifetime (v : bytes) : ares N :=
  match v with
  | [a; b; c; d] => AOk (be32 a b c d)
  | _ => AErr ESizeInvalid
  end.

(* CONNECTION-ID: uint32 *)
Definition enc_connid (c : N) : bytes := enc32 (u32 c).
Definition dec_connid (v : bytes) : ares N :=
  match v with
  | [a; b; c; d] => AOk (be32 a b c d)
  | _ => AErr ESizeInvalid
  end.

(* REQUESTED-TRANSPORT: protocol byte + 3 RFFU *)
Definition enc_reqtrans (p : N) : bytes := [p mod 256; 0; 0; 0].
Definition dec_reqtrans (v : bytes) : ares N :=
  match v with
  | [a; _; _; _] => AOk a
  | _ => AErr ESizeInvalid
  end.

(* REQUESTED-ADDRESS-FAMILY: 0x01 / 0x02 + 3 RFFU *)
Definition enc_reqfamily (f : N) : bytes := [f mod 256; 0; 0; 0].
Definition dec_reqfamily (v : bytes) : ares N :=
  match v with
  | [a; _; _; _] => if (a =? 1) || (a =? 2) then AOk a else AErr EBadValue
  | _ => AErr ESizeInvalid
  end.

(* EVEN-PORT: one byte; AddTo writes 0xFF for "reserve", GetFrom reads any
   non-zero byte as "reserve" (firstBitSet = 255 in the source). *)
Definition enc_evenport (r : bool) : bytes := [if r then 255 else 0].
Definition dec_evenport (v : bytes) : ares bool :=
  match v with
  | [a] => AOk (negb (N.land a 255 =? 0))
  | _ => AErr ESizeInvalid
  end.

(* RESERVATION-TOKEN: exactly 8 bytes, both ways *)
Definition enc_token (t : bytes) : ares bytes :=
  if lenN t =? 8 then AOk t else AErr ESizeInvalid.
Definition dec_token (v : bytes) : ares bytes :=
  if lenN v =? 8 then AOk v else AErr ESizeInvalid.

(* DONT-FRAGMENT: empty *)
Definition enc_dontfrag : bytes := [].
Definition dec_dontfrag (v : bytes) : ares unit :=
  match v with [] => AOk tt | _ => AErr ESizeInvalid end.

(* DATA: identity *)
Definition enc_data (d : bytes) : bytes := d.
Definition dec_data (v : bytes) : ares bytes := AOk v.

(* XOR-PEER-ADDRESS / XOR-RELAYED-ADDRESS (stun.XORMappedAddress with another
   attribute type).  magic cookie 0x2112A442; xor pad = cookie ++ transaction id. *)
Definition magic : bytes := [33; 18; 164; 66].
Definition xor_pad (tid : bytes) : bytes := magic ++ tid.      (* 16 bytes when |tid| = 12 *)

Fixpoint xor_bytes (a b : bytes) : bytes :=      (* xor.XorBytes: min length *)
  match a, b with
  | x :: a', y :: b' => N.lxor x y :: xor_bytes a' b'
  | _, _ => []
  end.

Definition v4_mapped_prefix : bytes := [0;0;0;0;0;0;0;0;0;0;255;255].
Definition is_v4_mapped (ip : bytes) : bool :=
  (length ip =? 16)%nat && beqb (firstn 12 ip) v4_mapped_prefix.

(* AddToAs.  ip is the Go net.IP byte slice (4 or 16 bytes; anything else is an error). *)
Definition enc_xoraddr (tid : bytes) (ip : bytes) (port : N) : ares bytes :=
  let xport := enc16 (u16 (N.lxor port 8466)) in          (* 0x2112 *)
  if (length ip =? 16)%nat then
    if is_v4_mapped ip
    then AOk ([0; 1] ++ xport ++ xor_bytes (skipn 12 ip) (xor_pad tid))
    else AOk ([0; 2] ++ xport ++ xor_bytes ip (xor_pad tid))
  else if (length ip =? 4)%nat
    then AOk ([0; 1] ++ xport ++ xor_bytes ip (xor_pad tid))
    else AErr EBadIPLen.

(* zero-fill to n bytes *)
Definition fill_to (n : nat) (l : bytes) : bytes := l ++ zeros (n - length l).

(* GetFromAs into a fresh destination, followed by the size check of the proto
   wrappers (PeerAddress/RelayedAddress.GetFrom): the address field must be exactly
   4 (IPv4) or 16 (IPv6) bytes.  [strict = false] is pion/stun's GetFromAs alone,
   which only rejects an address field that is too long and zero-fills a short one. *)
Definition dec_xoraddr_gen (strict : bool) (tid : bytes) (v : bytes) : ares (bytes * N) :=
  match v with
  | f0 :: f1 :: p0 :: p1 :: (_ :: _) as rest =>
      let family := be16 f0 f1 in
      if negb ((family =? 1) || (family =? 2)) then AErr EBadFamily
      else
        let iplen := if family =? 2 then 16%nat else 4%nat in
        if (iplen <? length rest)%nat then AErr ESizeOverflow
        else if strict && negb (length rest =? iplen)%nat then AErr ESizeInvalid
        else AOk (fill_to iplen (xor_bytes rest (xor_pad tid)), N.lxor (be16 p0 p1) 8466)
  | _ => AErr EEOF
  end.
Definition dec_xoraddr := dec_xoraddr_gen true.
