(* Teardown (C18): Allocation.AddPermission / AddChannelBind racing with Allocation.Close and with the
   permission / channel lifetime timers, as an interleaving of atomic steps.

   The ORDER in which AddPermission publishes the permission, fires OnPermissionCreated and arms the
   timer - and likewise for AddChannelBind - is a parameter (ordp, ordc): the translator extracts it from
   the source on every run (Gen/LockSkelGen.v: addperm_ord, addchan_ord), and the forced-schedule harness
   checks the extracted order against what the running code shows inside its callbacks.

   A "crash" is what the Go code does when it calls Stop/Reset on a nil *time.Timer (a nil dereference
   in a timer goroutine takes the whole process down) or unlocks a mutex it does not hold. *)
From Turn Require Export Bytes.
Open Scope N_scope.

Inductive step :=
| PPublish | PCallback | PArm                     (* AddPermission, new-permission path *)
| CLock | CUnlock | CPublish | CArm | CCallback   (* AddChannelBind, new-channel path *)
| CAddPerm.                                       (* the nested a.AddPermission(...) *)

Inductive ev := EvPermCreated (a : N) | EvPermDeleted (a : N) | EvChanCreated (a : N) | EvChanDeleted (a : N).

(* what one running Add* call has done so far (lk: it holds channelBindingsLock for writing) *)
Record ls := { lk : bool; ppub : bool; parm : bool; cpub : bool; carm : bool }.
Definition ls0 : ls := {| lk := false; ppub := false; parm := false; cpub := false; carm := false |}.

Definition astep (s : step) (l : ls) : ls :=
  match s with
  | PPublish => {| lk := lk l; ppub := true; parm := parm l; cpub := cpub l; carm := carm l |}
  | PArm => {| lk := lk l; ppub := ppub l; parm := true; cpub := cpub l; carm := carm l |}
  | CLock => {| lk := true; ppub := ppub l; parm := parm l; cpub := cpub l; carm := carm l |}
  | CUnlock => {| lk := false; ppub := ppub l; parm := parm l; cpub := cpub l; carm := carm l |}
  | CPublish => {| lk := lk l; ppub := ppub l; parm := parm l; cpub := true; carm := carm l |}
  | CArm => {| lk := lk l; ppub := ppub l; parm := parm l; cpub := cpub l; carm := true |}
  | PCallback | CCallback | CAddPerm => l
  end.

Definition newperm (l : ls) : ls := {| lk := lk l; ppub := false; parm := false; cpub := cpub l; carm := carm l |}.

Inductive thread :=
| TDone
| TAddPerm (a : N)                                (* AddPermission(a), about to look a up *)
| TAddChan (a : N)                                (* AddChannelBind(number a, peer a), about to look it up *)
| TRun (a : N) (pprog cprog : list step) (pp cp : N) (l : ls)
| TClose0                                         (* Allocation.Close: test-and-close the closed channel *)
| TClosePS                                        (* ListPermissions() *)
| TCloseP (todo : list (N * N)) (stop : option N) (* next RemovePermission, or the pending timer Stop *)
| TCloseCS                                        (* ListChannelBindings() *)
| TCloseC (todo : list (N * N)) (stop : option N).

Record state := {
  pmap : list (N * N);       (* peer -> permission object, as published in a.permissions *)
  cmap : list (N * N);       (* number -> channel object, as published in a.channelBindings *)
  parmed : list (N * N);     (* permission objects whose lifetimeTimer is non-nil, with their peer *)
  carmed : list (N * N);
  pstopped : list N; cstopped : list N;   (* timers that will not fire: stopped, or expired already *)
  chlock : bool;             (* channelBindingsLock is held for writing *)
  closed : bool; crashed : bool;
  evs : list ev;             (* most recent first *)
  nextid : N }.

Definition init : state :=
  {| pmap := []; cmap := []; parmed := []; carmed := []; pstopped := []; cstopped := []; chlock := false;
     closed := false; crashed := false; evs := []; nextid := 1 |}.

Fixpoint lookup (a : N) (m : list (N * N)) : option N :=
  match m with [] => None | (k, v) :: r => if k =? a then Some v else lookup a r end.
Definition del (a : N) (m : list (N * N)) : list (N * N) := filter (fun kv => negb (fst kv =? a)) m.
Definition memN (x : N) (l : list N) : bool := existsb (N.eqb x) l.
Definition has_id (x : N) (m : list (N * N)) : bool := existsb (fun kv => fst kv =? x) m.

Definition set_pmap s v := {| pmap := v; cmap := cmap s; parmed := parmed s; carmed := carmed s; pstopped := pstopped s; cstopped := cstopped s; chlock := chlock s; closed := closed s; crashed := crashed s; evs := evs s; nextid := nextid s |}.
Definition set_cmap s v := {| pmap := pmap s; cmap := v; parmed := parmed s; carmed := carmed s; pstopped := pstopped s; cstopped := cstopped s; chlock := chlock s; closed := closed s; crashed := crashed s; evs := evs s; nextid := nextid s |}.
Definition set_parmed s v := {| pmap := pmap s; cmap := cmap s; parmed := v; carmed := carmed s; pstopped := pstopped s; cstopped := cstopped s; chlock := chlock s; closed := closed s; crashed := crashed s; evs := evs s; nextid := nextid s |}.
Definition set_carmed s v := {| pmap := pmap s; cmap := cmap s; parmed := parmed s; carmed := v; pstopped := pstopped s; cstopped := cstopped s; chlock := chlock s; closed := closed s; crashed := crashed s; evs := evs s; nextid := nextid s |}.
Definition set_pstopped s v := {| pmap := pmap s; cmap := cmap s; parmed := parmed s; carmed := carmed s; pstopped := v; cstopped := cstopped s; chlock := chlock s; closed := closed s; crashed := crashed s; evs := evs s; nextid := nextid s |}.
Definition set_cstopped s v := {| pmap := pmap s; cmap := cmap s; parmed := parmed s; carmed := carmed s; pstopped := pstopped s; cstopped := v; chlock := chlock s; closed := closed s; crashed := crashed s; evs := evs s; nextid := nextid s |}.
Definition set_chlock s v := {| pmap := pmap s; cmap := cmap s; parmed := parmed s; carmed := carmed s; pstopped := pstopped s; cstopped := cstopped s; chlock := v; closed := closed s; crashed := crashed s; evs := evs s; nextid := nextid s |}.
Definition set_closed s v := {| pmap := pmap s; cmap := cmap s; parmed := parmed s; carmed := carmed s; pstopped := pstopped s; cstopped := cstopped s; chlock := chlock s; closed := v; crashed := crashed s; evs := evs s; nextid := nextid s |}.
Definition crash s := {| pmap := pmap s; cmap := cmap s; parmed := parmed s; carmed := carmed s; pstopped := pstopped s; cstopped := cstopped s; chlock := chlock s; closed := closed s; crashed := true; evs := evs s; nextid := nextid s |}.
Definition add_ev s e := {| pmap := pmap s; cmap := cmap s; parmed := parmed s; carmed := carmed s; pstopped := pstopped s; cstopped := cstopped s; chlock := chlock s; closed := closed s; crashed := crashed s; evs := e :: evs s; nextid := nextid s |}.
Definition bump s := {| pmap := pmap s; cmap := cmap s; parmed := parmed s; carmed := carmed s; pstopped := pstopped s; cstopped := cstopped s; chlock := chlock s; closed := closed s; crashed := crashed s; evs := evs s; nextid := nextid s + 1 |}.

(* Allocation.RemovePermission(a) / RemoveChannelBind(a): delete if present, with the Deleted event *)
Definition remove_perm (a : N) (s : state) : state :=
  match lookup a (pmap s) with
  | Some _ => add_ev (set_pmap s (del a (pmap s))) (EvPermDeleted a)
  | None => s
  end.
Definition remove_chan (a : N) (s : state) : state :=
  match lookup a (cmap s) with
  | Some _ => set_cmap (add_ev s (EvChanDeleted a)) (del a (cmap s))
  | None => s
  end.

(* timer.Reset on a live, stopped or expired timer re-arms it *)
Definition revive_p (p : N) (s : state) : state := set_pstopped s (filter (fun x => negb (x =? p)) (pstopped s)).
Definition revive_c (c : N) (s : state) : state := set_cstopped s (filter (fun x => negb (x =? c)) (cstopped s)).

Section Steps.
  Variable ordp ordc : list step.

  (* timer.Reset / timer.Stop on object x of the armed table: a nil timer crashes *)
  Definition touch_timer (x : N) (armed : list (N * N)) (s : state) : state :=
    if has_id x armed then s else crash s.

  Definition finish (a : N) (pprog cprog : list step) (pp cp : N) (l : ls) : thread :=
    match pprog, cprog with [], [] => TDone | _, _ => TRun a pprog cprog pp cp l end.

  (* the next step of a running Add* call: the nested AddPermission's steps first *)
  Definition next (pprog cprog : list step) : option (step * list step * list step) :=
    match pprog with
    | x :: r => Some (x, r, cprog)
    | [] => match cprog with x :: r => Some (x, [], r) | [] => None end
    end.

  (* one atomic step x of a running Add* call; [blocked] is the thread unchanged *)
  Definition do_step (s : state) (a : N) (x : step) (pprog' cprog' : list step) (pp cp : N) (l : ls)
             (blocked : thread) : state * thread :=
    match x with
    | PPublish => (set_pmap s ((a, pp) :: del a (pmap s)), finish a pprog' cprog' pp cp (astep PPublish l))
    | PCallback => (add_ev s (EvPermCreated a), finish a pprog' cprog' pp cp l)
    | PArm => (set_parmed s ((pp, a) :: parmed s), finish a pprog' cprog' pp cp (astep PArm l))
    | CLock => if chlock s then (s, blocked)
               else (set_chlock s true, finish a pprog' cprog' pp cp (astep CLock l))
    | CUnlock => if lk l then (set_chlock s false, finish a pprog' cprog' pp cp (astep CUnlock l))
                 else (crash s, TDone)                                    (* unlock of unlocked mutex *)
    | CPublish => (set_cmap s ((a, cp) :: cmap s), finish a pprog' cprog' pp cp (astep CPublish l))
    | CArm => (set_carmed s ((cp, a) :: carmed s), finish a pprog' cprog' pp cp (astep CArm l))
    | CCallback => (add_ev s (EvChanCreated a), finish a pprog' cprog' pp cp l)
    | CAddPerm =>
        match lookup a (pmap s) with
        | Some p => (* existedPermission.refresh *)
            if has_id p (parmed s) then (revive_p p s, finish a pprog' cprog' pp cp l) else (crash s, TDone)
        | None => (bump s, finish a ordp cprog' (nextid s) cp (newperm l))
        end
    end.

  Definition run_step (s : state) (a : N) (pprog cprog : list step) (pp cp : N) (l : ls) : state * thread :=
    match next pprog cprog with
    | None => (s, TDone)
    | Some (x, pprog', cprog') => do_step s a x pprog' cprog' pp cp l (TRun a pprog cprog pp cp l)
    end.

  Definition tstep (s : state) (t : thread) : state * thread :=
    match t with
    | TDone => (s, TDone)
    | TAddPerm a =>
        match lookup a (pmap s) with
        | Some p => (if has_id p (parmed s) then revive_p p s else crash s, TDone)
        | None => (bump s, finish a ordp [] (nextid s) 0 ls0)
        end
    | TAddChan a =>
        if chlock s then (s, t)                     (* GetChannelByNumber needs the read lock *)
        else match lookup a (cmap s) with
             | Some c => if has_id c (carmed s) then (revive_c c s, TAddPerm a) else (crash s, TDone)
             | None => (bump s, finish a [] ordc 0 (nextid s) ls0)
             end
    | TRun a pprog cprog pp cp l => run_step s a pprog cprog pp cp l
    | TClose0 => if closed s then (s, TDone) else (set_closed s true, TClosePS)
    | TClosePS => (s, TCloseP (pmap s) None)
    | TCloseP todo (Some p) => (set_pstopped (touch_timer p (parmed s) s) (p :: pstopped s), TCloseP todo None)
    | TCloseP [] None => (s, TCloseCS)
    | TCloseP ((a, p) :: r) None => (remove_perm a s, TCloseP r (Some p))
    | TCloseCS => if chlock s then (s, t) else (s, TCloseC (cmap s) None)
    | TCloseC todo (Some c) => (set_cstopped (touch_timer c (carmed s) s) (c :: cstopped s), TCloseC todo None)
    | TCloseC [] None => (s, TDone)
    | TCloseC ((a, c) :: r) None => if chlock s then (s, t) else (remove_chan a s, TCloseC r (Some c))
    end.

  (* the scheduler's choices *)
  Inductive op := Run (i : nat) | FireP (p : N) | FireC (c : N).

  Fixpoint upd {A} (i : nat) (x : A) (l : list A) : list A :=
    match l, i with
    | [], _ => []
    | _ :: r, O => x :: r
    | y :: r, S i' => y :: upd i' x r
    end.

  Definition world := (state * list thread)%type.

  Definition wstep (w : world) (o : op) : world :=
    let (s, th) := w in
    if crashed s then w else
    match o with
    | Run i => match nth_error th i with
               | Some t => let (s', t') := tstep s t in (s', upd i t' th)
               | None => w
               end
    | FireP p => (* the permission's timer callback: p.allocation.RemovePermission(p.Addr) *)
        match lookup p (parmed s) with
        | Some a => if memN p (pstopped s) then w else (set_pstopped (remove_perm a s) (p :: pstopped s), th)
        | None => w
        end
    | FireC c => match lookup c (carmed s) with
                 | Some a => if memN c (cstopped s) || chlock s then w else (set_cstopped (remove_chan a s) (c :: cstopped s), th)
                 | None => w
                 end
    end.

  Definition wrun (sched : list op) (w : world) : world := fold_left wstep sched w.
End Steps.

(* threads as the harness and the server start them *)
Definition initial (t : thread) : bool :=
  match t with TDone | TAddPerm _ | TAddChan _ | TClose0 => true | _ => false end.

(* ---------- the condition on the two orders under which no interleaving can crash ---------- *)
(* whenever the lock is not held, what this call has published has its timer armed *)
Definition ok_now (l : ls) : bool := (negb (ppub l) || parm l) && (lk l || negb (cpub l) || carm l).
Definition step_ok (s : step) (l : ls) : bool :=
  match s with CLock => negb (lk l) | CUnlock => lk l | _ => true end.

Fixpoint scanp (prog : list step) (l : ls) (k : ls -> bool) : bool :=
  ok_now l &&
  match prog with
  | [] => k l
  | CAddPerm :: _ => false
  | s :: r => step_ok s l && scanp r (astep s l) k
  end.

Section Scan.
  Variable ordp : list step.
  Fixpoint scanc (prog : list step) (l : ls) : bool :=
    ok_now l &&
    match prog with
    | [] => negb (lk l)
    | CAddPerm :: r => scanc r l && scanp ordp (newperm l) (fun l' => scanc r l')
    | s :: r => step_ok s l && scanc r (astep s l)
    end.
End Scan.

Definition orders_ok (ordp ordc : list step) : bool :=
  scanp ordp ls0 (fun l => negb (lk l)) && scanc ordp ordc ls0.

(* the orders of the repaired code, and of the pinned tree (F8) *)
Definition ordp_fixed : list step := [PArm; PPublish; PCallback].
Definition ordp_pinned : list step := [PPublish; PCallback; PArm].
Definition ordc_code : list step := [CLock; CPublish; CArm; CAddPerm; CCallback; CUnlock].

(* ---------- the condition under which a call that is inside a lifecycle callback has nothing left to publish ---------- *)
Definition pubstep (x : step) : bool := match x with PPublish | CPublish | CAddPerm => true | _ => false end.
Definition no_pub (l : list step) : bool := forallb (fun x => negb (pubstep x)) l.
Definition is_cb (x : step) : bool := match x with PCallback | CCallback => true | _ => false end.
Definition is_cadd (x : step) : bool := match x with CAddPerm => true | _ => false end.
Fixpoint from_first (f : step -> bool) (l : list step) : list step :=
  match l with [] => [] | x :: r => if f x then x :: r else from_first f r end.
Definition after_first (f : step -> bool) (l : list step) : list step := tl (from_first f l).
(* every publishing step of AddPermission precedes OnPermissionCreated; every publishing step of AddChannelBind
   (its own publication and the nested AddPermission) precedes the callbacks it runs (C15: teardown during a slow
   lifecycle callback, Proofs/TeardownQuiet.v) *)
Definition callbacks_last (ordp ordc : list step) : bool :=
  no_pub (from_first is_cb ordp) && no_pub (after_first is_cadd ordc) && no_pub (from_first is_cb ordc).

(* the shape of Allocation.Close the thread TClose0..TCloseC models: test-and-close the closed channel, stop the
   allocation timer, then snapshot / remove / stop for permissions, then for channels *)
Inductive kstep := KClosed | KStopA | KListP | KRemoveP | KStopP | KListC | KRemoveC | KStopC.
Definition kstep_eqb (a b : kstep) : bool :=
  match a, b with
  | KClosed, KClosed | KStopA, KStopA | KListP, KListP | KRemoveP, KRemoveP | KStopP, KStopP
  | KListC, KListC | KRemoveC, KRemoveC | KStopC, KStopC => true
  | _, _ => false
  end.
Fixpoint klist_eqb (a b : list kstep) : bool :=
  match a, b with [], [] => true | x :: a', y :: b' => kstep_eqb x y && klist_eqb a' b' | _, _ => false end.
Definition close_shape_ok (l : list kstep) : bool :=
  klist_eqb l [KClosed; KStopA; KListP; KRemoveP; KStopP; KListC; KRemoveC; KStopC].
