(* Byte-level model of STUN message decoding (pion/stun Message.Decode, an external library the
   server and client hand every non-ChannelData datagram to) and of the dispatch that follows:
   internal/server/server.go HandleRequest/handleTURNPacket/getMessageHandler and client.go
   HandleInbound. Every Go index/slice expression is a checked operation here: [Panic] is an outcome
   of the model and the theorems say it is unreachable. *)
From Turn Require Export Bytes ChanData Attrs Framer.
Open Scope N_scope.

Inductive outcome (A : Type) := Ok (v : A) | Err (e : N) | Panic.
Arguments Ok {A} v. Arguments Err {A} e. Arguments Panic {A}.

(* Go's s[lo:hi] *)
Definition gslice (l : bytes) (lo hi : nat) : outcome bytes :=
  if slice_ok l lo hi then Ok (slice l lo hi) else Panic.

Definition bind {A B} (x : outcome A) (f : A -> outcome B) : outcome B :=
  match x with Ok v => f v | Err e => Err e | Panic => Panic end.
Notation "x <- a ;; b" := (bind a (fun x => b)) (at level 61, a at next level, right associativity).

Definition be16l (l : bytes) : outcome N :=
  match l with [a; b] => Ok (be16 a b) | _ => Panic end.

Record smsg := { m_type : N; m_tid : bytes; m_attrs : list (N * bytes) }.

(* errors: 1 header too short, 2 bad cookie, 3 buffer shorter than declared, 4 attribute header, 5 attribute value *)
Fixpoint dec_attrs (fuel : nat) (b : bytes) (acc : list (N * bytes)) : outcome (list (N * bytes)) :=
  match b with
  | [] => Ok (rev acc)
  | _ =>
      match fuel with
      | O => Panic                                            (* cannot happen: every round consumes >= 4 bytes *)
      | S f =>
          if (length b <? 4)%nat then Err 4 else
          t <- (h <- gslice b 0 2 ;; be16l h) ;;
          al <- (h <- gslice b 2 4 ;; be16l h) ;;
          rest <- gslice b 4 (length b) ;;
          let padded := N.to_nat (pad4 al) in
          if (length rest <? padded)%nat then Err 5 else
          v <- gslice rest 0 (N.to_nat al) ;;
          rest' <- gslice rest padded (length rest) ;;
          dec_attrs f rest' ((if t =? 32800 then 32 else t, v) :: acc)     (* compatAttrType: 0x8020 -> 0x0020 *)
      end
  end.

Definition stun_decode (buf : bytes) : outcome smsg :=
  if (length buf <? 20)%nat then Err 1 else
  ty <- (h <- gslice buf 0 2 ;; be16l h) ;;
  sz <- (h <- gslice buf 2 4 ;; be16l h) ;;
  ck <- gslice buf 4 8 ;;
  if negb (beqb ck magic) then Err 2 else
  let full := (20 + N.to_nat sz)%nat in
  if (length buf <? full)%nat then Err 3 else
  tid <- gslice buf 8 20 ;;
  body <- gslice buf 20 full ;;
  attrs <- dec_attrs (length body) body [] ;;
  Ok {| m_type := ty; m_tid := tid; m_attrs := attrs |}.

(* MessageType.ReadValue *)
Definition msg_class (ty : N) : N := N.land (N.shiftr ty 4) 1 + N.land (N.shiftr ty 7) 2.
Definition msg_method (ty : N) : N :=
  N.land ty 15 + N.land (N.shiftr ty 1) 112 + N.land (N.shiftr ty 2) 3968.

(* the attribute types pion/stun knows (attrNames); comprehension-required ones are <= 0x7FFF *)
Definition known_attr (t : N) : bool :=
  existsb (N.eqb t)
    [1; 6; 8; 9; 10; 20; 21; 32; 36; 37;            (* MAPPED-ADDRESS USERNAME MESSAGE-INTEGRITY ERROR-CODE UNKNOWN-ATTRIBUTES REALM NONCE XOR-MAPPED-ADDRESS PRIORITY USE-CANDIDATE *)
     12; 13; 18; 19; 22; 24; 25; 26; 34; 42; 23;    (* CHANNEL-NUMBER LIFETIME XOR-PEER-ADDRESS DATA XOR-RELAYED-ADDRESS EVEN-PORT REQUESTED-TRANSPORT DONT-FRAGMENT RESERVATION-TOKEN CONNECTION-ID REQUESTED-ADDRESS-FAMILY *)
     28; 29; 30].                                    (* MESSAGE-INTEGRITY-SHA256 PASSWORD-ALGORITHM USERHASH *)
(* (only the comprehension-required range <= 0x7FFF matters for the 420 rule) *)

(* ---------- server dispatch (HandleRequest) ---------- *)
Inductive srv_class :=
| SChanData (n : N) (d : bytes)     (* handed to the ChannelData path *)
| SDecodeFail                       (* not a STUN message: logged, no reply *)
| SUnhandled                        (* class/method without a handler: logged, no reply *)
| SUnknownAttrs (method : N) (tid : bytes)   (* 420 with the request's method and id, handler not run *)
| SHandler (class method : N) (tid : bytes)  (* one of the request/indication handlers runs *)
| SPanic.

Definition has_handler (class method : N) : bool :=
  if class =? 1 then method =? 6                                           (* Send indication *)
  else if class =? 0 then existsb (N.eqb method) [3; 4; 8; 9; 1; 10; 11]     (* Allocate Refresh CreatePermission ChannelBind Binding Connect ConnectionBind *)
  else false.

Definition srv_dispatch (b : bytes) : srv_class :=
  if is_channel_data b then
    match cd_decode b with CdOk n d => SChanData n d | CdErr _ => SDecodeFail end
  else
    match stun_decode b with
    | Panic => SPanic
    | Err _ => SDecodeFail
    | Ok m =>
        let c := msg_class (m_type m) in let me := msg_method (m_type m) in
        if negb (has_handler c me) then SUnhandled
        else if existsb (fun a => (fst a <=? 32767) && negb (known_attr (fst a))) (m_attrs m) then SUnknownAttrs me (m_tid m)
        else SHandler c me (m_tid m)
    end.

(* ---------- client dispatch (Client.HandleInbound), after the fix: ChannelData is tested first ---------- *)
Inductive cli_class :=
| CChanData (n : N) (d : bytes)
| CStunDecodeErr | CStunRequestErr | CStunIndication (method : N) | CStunResponse (tid : bytes)
| CFromStunServerErr | CNotHandled | CPanic.

Definition cli_dispatch (from_stun_server : bool) (b : bytes) : cli_class :=
  if is_channel_data b then
    match cd_decode b with CdOk n d => CChanData n d | CdErr _ => CStunDecodeErr end
  else if is_stun_msg b then
    match stun_decode b with
    | Panic => CPanic
    | Err _ => CStunDecodeErr
    | Ok m =>
        let c := msg_class (m_type m) in
        if c =? 0 then CStunRequestErr else if c =? 1 then CStunIndication (msg_method (m_type m)) else CStunResponse (m_tid m)
    end
  else if from_stun_server then CFromStunServerErr
  else CNotHandled.

(* the documented (handled, error) table *)
Definition cli_handled (c : cli_class) : bool := match c with CNotHandled => false | _ => true end.
