(* Model of the TURN server's soft state and request handling on one listener:
   internal/server/turn.go (Allocate, Refresh, CreatePermission, ChannelBind, Send, ChannelData),
   internal/server/util.go (authenticateRequest, allocationLifeTime), internal/server/stun.go (Binding),
   internal/server/server.go (dispatch), internal/allocation/* (manager, allocation, permission,
   channel bind, relay read loop), server.go (read loop MTU rule).
   Messages are abstract (decoded) here; byte-level codecs are Model/ChanData.v, Attrs.v, Framer.v.
   TCP allocations (Connect/ConnectionBind) are Model/TcpRelay.v. *)
From Turn Require Export Bytes ChanData.
Open Scope Z_scope.

(* ---------- addresses ---------- *)
(* IP in 16-byte form as a number: an IPv4 address a.b.c.d is ::ffff:a.b.c.d, which is what
   net.IP.To16/Equal/String make of it. *)
Record addr := { ip : N; port : N }.
Definition addr_eqb (a b : addr) : bool := (ip a =? ip b)%N && (port a =? port b)%N.
Definition is_v4 (i : N) : bool := (N.shiftr i 32 =? 65535)%N.     (* To4() != nil *)
Definition fam_of (i : N) : N := if is_v4 i then 1%N else 2%N.
Definition ip_matches_family (i : N) (fam : N) : bool :=
  if (fam =? 1)%N then is_v4 i else if (fam =? 2)%N then negb (is_v4 i) else false.

(* ---------- configuration ---------- *)
Inductive listener_kind := LV4 | LV6 | LUnspec.
Record config := {
  cfg_realm : N;
  cfg_alloc_lifetime : Z;        (* ns; 0 in ServerConfig means 10 min, resolved by the harness like NewServer does *)
  cfg_perm_timeout : Z;
  cfg_chan_timeout : Z;
  cfg_mtu : N;                   (* inbound MTU of the listener read loop *)
  cfg_strict_family : bool;
  cfg_listener : listener_kind;
  cfg_relay_ip4 : N;
  cfg_relay_ip6 : N;
  cfg_has_auth : bool;
  cfg_auth : N -> N -> option (N * N);      (* username, realm -> (user id, key) *)
  cfg_policy : addr -> N -> bool;           (* permission handler: client address, peer ip *)
  cfg_quota : N -> N -> addr -> bool;       (* quota handler: user id, realm, client address *)
}.

Definition sec : Z := 1000000000.
Definition max_lifetime : Z := 3600 * sec.
Definition rtp_mtu : N := 1600.

(* ---------- credentials carried by a request ---------- *)
Inductive nonce_d :=
| NonceAbsent
| NonceMinted (minute : Z)     (* minted by this server instance at that unix minute *)
| NonceForeign                 (* garbage, forged, mutated, another instance's *)
.
Record cred := {
  c_mi : option N;             (* key the MESSAGE-INTEGRITY was computed with; None = attribute absent *)
  c_intact : bool;             (* false: HMAC truncated / bit-flipped / message modified after signing *)
  c_nonce : nonce_d;
  c_user : option N;
  c_realm : option N;
}.

(* ---------- messages ---------- *)
Inductive method := MAllocate | MRefresh | MCreatePerm | MChannelBind | MBinding | MConnect | MConnBind | MSend | MData.

(* an attribute that may be absent, present with the right size, or present with a wrong size *)
Inductive attr (A : Type) := AAbsent | ABadSize | APresent (v : A).
Arguments AAbsent {A}. Arguments ABadSize {A}. Arguments APresent {A} v.

Inductive peer_attr := PeerOk (a : addr) | PeerBad.    (* XOR-PEER-ADDRESS decodable or not *)

Inductive request :=
| RqAllocate (transport : attr N) (lifetime : attr N) (family : attr N) (dontfrag : bool)
             (relay_port : option N)            (* environment: what the relay address generator will hand out *)
             (evenport : bool)                  (* EVEN-PORT present (with its one-byte value) *)
             (rtoken : attr N)                  (* RESERVATION-TOKEN: the token's identity *)
             (minted : N)                       (* environment: the token the server mints if it reserves a port *)
| RqRefresh (lifetime : attr N) (family : attr N)
| RqCreatePerm (peers : list peer_attr)
| RqChannelBind (num : attr N) (peer : option peer_attr)
| RqBinding.

Inductive event :=
| EReq (src : addr) (tid : N) (c : cred) (r : request) (unknown_attrs : bool)
| ESend (src : addr) (peer : option peer_attr) (data : option bytes)      (* Send indication *)
| EChanData (src : addr) (num : N) (data : bytes)                       (* ChannelData message, already decoded *)
| EPeer (relay : addr) (from : addr) (data : bytes)                     (* datagram arriving at a relayed address *)
| ETick (dt : Z)
| ERelayErr (relay : addr)                                              (* relay socket read error *)
| ECtlClose (src : addr)                                                (* the client's control connection (stream listeners) ends *)
| ESrvClose                                                             (* Server.Close: every allocation ends *)
| EDeadMsg.                                                             (* any message sent to the server after Server.Close: not processed *)

Inductive sattr := SRelayed (a : addr) | SLifetime (secs : Z) | SMapped (a : addr) | SToken (t : N).

Inductive lifecycle :=
| LAllocCreated (client : addr) (user : N) (relay : addr)
| LAllocDeleted (client : addr) (user : N)
| LPermCreated (client : addr) (peer_ip : N)
| LPermDeleted (client : addr) (peer_ip : N)
| LChanCreated (client : addr) (peer : addr) (num : N)
| LChanDeleted (client : addr) (peer : addr) (num : N).

Inductive action :=
| Success (dst : addr) (m : method) (tid : N) (attrs : list sattr)
| Error (dst : addr) (m : method) (tid : N) (code : N) (challenge : bool)   (* challenge: fresh NONCE + REALM attached *)
| DataInd (dst : addr) (peer : addr) (data : bytes)
| ChanDataOut (dst : addr) (num : N) (data : bytes)
| ToPeer (relay : addr) (dst : addr) (data : bytes)
| Life (e : lifecycle).

(* ---------- state ---------- *)
Record perm := { p_ip : N; p_dl : Z }.
Record chan := { c_num : N; c_peer : addr; c_dl : Z }.
Record alloc := {
  a_client : addr; a_user : N; a_realm : N; a_fam : N; a_proto : N; a_relay : addr; a_dl : Z;
  a_perms : list perm; a_chans : list chan;
  a_tid : N; a_cache : list sattr;
}.
(* a port reservation made for an EVEN-PORT allocation: the next-higher port, for 30 s *)
Record rsv := { r_tok : N; r_port : N; r_dl : Z }.
Record state := { now : Z; epoch_min : Z; allocs : list alloc; rsvs : list rsv }.
(* [now] is ns since the start of the history; [epoch_min] the unix minute at its start
   (the harness starts on a whole minute). *)

Definition init (epoch : Z) : state := {| now := 0; epoch_min := epoch; allocs := []; rsvs := [] |}.
Definition cur_minute (s : state) : Z := epoch_min s + now s / (60 * sec).

Definition set_allocs (s : state) (l : list alloc) : state :=
  {| now := now s; epoch_min := epoch_min s; allocs := l; rsvs := rsvs s |}.
Definition add_rsv (s : state) (r : rsv) : state :=
  {| now := now s; epoch_min := epoch_min s; allocs := allocs s; rsvs := rsvs s ++ [r] |}.
Definition rsv_lifetime : Z := 30 * sec.

Fixpoint find_rsv (t : N) (l : list rsv) : option rsv :=
  match l with
  | [] => None
  | r :: x => if (r_tok r =? t)%N then Some r else find_rsv t x
  end.

Fixpoint find_alloc (c : addr) (l : list alloc) : option alloc :=
  match l with
  | [] => None
  | a :: r => if addr_eqb (a_client a) c then Some a else find_alloc c r
  end.

Fixpoint find_relay (r : addr) (l : list alloc) : option alloc :=
  match l with
  | [] => None
  | a :: t => if addr_eqb (a_relay a) r then Some a else find_relay r t
  end.

Fixpoint replace_alloc (a' : alloc) (l : list alloc) : list alloc :=
  match l with
  | [] => []
  | a :: r => if addr_eqb (a_client a) (a_client a') then a' :: r else a :: replace_alloc a' r
  end.

Fixpoint remove_alloc (c : addr) (l : list alloc) : list alloc :=
  match l with
  | [] => []
  | a :: r => if addr_eqb (a_client a) c then r else a :: remove_alloc c r
  end.

Fixpoint find_perm (i : N) (l : list perm) : option perm :=
  match l with
  | [] => None
  | p :: r => if (p_ip p =? i)%N then Some p else find_perm i r
  end.

Fixpoint find_chan_num (n : N) (l : list chan) : option chan :=
  match l with
  | [] => None
  | c :: r => if (c_num c =? n)%N then Some c else find_chan_num n r
  end.

Fixpoint find_chan_peer (p : addr) (l : list chan) : option chan :=
  match l with
  | [] => None
  | c :: r => if addr_eqb (c_peer c) p then Some c else find_chan_peer p r
  end.

(* Allocation.AddPermission: refresh if present, else install (with the Created event) *)
Fixpoint upsert_perm (i : N) (dl : Z) (l : list perm) : list perm :=
  match l with
  | [] => [{| p_ip := i; p_dl := dl |}]
  | p :: r => if (p_ip p =? i)%N then {| p_ip := i; p_dl := dl |} :: r else p :: upsert_perm i dl r
  end.

Definition add_perm (a : alloc) (i : N) (dl : Z) : alloc * list action :=
  let ev := match find_perm i (a_perms a) with
            | Some _ => []
            | None => [Life (LPermCreated (a_client a) i)]
            end in
  ({| a_client := a_client a; a_user := a_user a; a_realm := a_realm a; a_fam := a_fam a; a_proto := a_proto a;
      a_relay := a_relay a; a_dl := a_dl a; a_perms := upsert_perm i dl (a_perms a); a_chans := a_chans a;
      a_tid := a_tid a; a_cache := a_cache a |}, ev).

Definition set_chans (a : alloc) (cs : list chan) : alloc :=
  {| a_client := a_client a; a_user := a_user a; a_realm := a_realm a; a_fam := a_fam a; a_proto := a_proto a;
     a_relay := a_relay a; a_dl := a_dl a; a_perms := a_perms a; a_chans := cs;
     a_tid := a_tid a; a_cache := a_cache a |}.

Definition set_dl (a : alloc) (dl : Z) : alloc :=
  {| a_client := a_client a; a_user := a_user a; a_realm := a_realm a; a_fam := a_fam a; a_proto := a_proto a;
     a_relay := a_relay a; a_dl := dl; a_perms := a_perms a; a_chans := a_chans a;
     a_tid := a_tid a; a_cache := a_cache a |}.

Definition set_perms (a : alloc) (ps : list perm) : alloc :=
  {| a_client := a_client a; a_user := a_user a; a_realm := a_realm a; a_fam := a_fam a; a_proto := a_proto a;
     a_relay := a_relay a; a_dl := a_dl a; a_perms := ps; a_chans := a_chans a;
     a_tid := a_tid a; a_cache := a_cache a |}.

Fixpoint refresh_chan (n : N) (dl : Z) (l : list chan) : list chan :=
  match l with
  | [] => []
  | c :: r => if (c_num c =? n)%N then {| c_num := n; c_peer := c_peer c; c_dl := dl |} :: r else c :: refresh_chan n dl r
  end.

(* Allocation.Close + OnAllocationDeleted: everything the allocation owned goes, with its events *)
Definition close_events (a : alloc) : list action :=
  map (fun p => Life (LPermDeleted (a_client a) (p_ip p))) (a_perms a) ++
  map (fun c => Life (LChanDeleted (a_client a) (c_peer c) (c_num c))) (a_chans a) ++
  [Life (LAllocDeleted (a_client a) (a_user a))].

(* ---------- authentication (authenticateRequest) ---------- *)
Inductive auth_res := AuthOK (user : N) | AuthReply (code : N) (challenge : bool).

Definition nonce_valid (s : state) (n : nonce_d) : bool :=
  match n with
  | NonceMinted m => (m <=? cur_minute s) && (cur_minute s - m <=? 60)
  | _ => false
  end.

Definition authenticate (cfg : config) (s : state) (c : cred) : auth_res :=
  match c_mi c with
  | None => AuthReply 401 true
  | Some k =>
      if negb (cfg_has_auth cfg) then AuthReply 400 false else
      match c_nonce c with
      | NonceAbsent => AuthReply 400 false
      | n =>
          if negb (nonce_valid s n) then AuthReply 438 true else
          match c_realm c, c_user c with
          | None, _ => AuthReply 400 false
          | _, None => AuthReply 400 false
          | Some r, Some u =>
              match cfg_auth cfg u r with
              | None => AuthReply 400 false
              | Some (uid, key) =>
                  if (k =? key)%N && c_intact c then AuthOK uid else AuthReply 400 false
              end
          end
      end
  end.

(* allocationLifeTime: requested when present, well-sized and below one hour, else the default *)
Definition granted_lifetime (cfg : config) (l : attr N) : Z :=
  match l with
  | APresent secs => if Z.of_N secs * sec <? max_lifetime then Z.of_N secs * sec else cfg_alloc_lifetime cfg
  | _ => cfg_alloc_lifetime cfg
  end.

Definition default_family (cfg : config) (src : addr) : N :=
  if cfg_strict_family cfg then 1%N else
  match cfg_listener cfg with
  | LV4 => 1%N
  | LV6 => 2%N
  | LUnspec => fam_of (ip src)
  end.

(* ---------- handlers ---------- *)
Definition h_allocate (cfg : config) (s : state) (src : addr) (tid : N) (uid : N) (realm : N)
           (transport lifetime family : attr N) (dontfrag : bool) (relay_port : option N)
           (evenport : bool) (rtoken : attr N) (minted : N)
  : state * list action :=
  let err code := (s, [Error src MAllocate tid code false]) in
  match find_alloc src (allocs s) with
  | Some a =>
      if (a_tid a =? tid)%N then (s, [Success src MAllocate tid (a_cache a)])
      else err 437%N
  | None =>
      match transport with
      | AAbsent | ABadSize => err 400%N
      | APresent p =>
          if negb ((p =? 17)%N || (p =? 6)%N) then err 442%N
          else if dontfrag then err 420%N
          else
            (* 5. RESERVATION-TOKEN (a well-sized one): not together with EVEN-PORT; must name a live reservation,
               and then the port asked of the generator is the reserved one, the next-higher port *)
            match (match rtoken with
                   | APresent t => if evenport then inr 400%N
                                   else match find_rsv t (rsvs s) with
                                        | None => inr 508%N
                                        | Some r => inl (Some (r_port r + 1)%N)
                                        end
                   | _ => inl None
                   end) with
            | inr code => err code
            | inl want =>
            (* 6. EVEN-PORT: the generator must come up with an even port *)
            if evenport && negb (match relay_port with Some rp => N.even rp | None => false end) then err 508%N else
            match (match family with
                   | AAbsent => inl (default_family cfg src)
                   | ABadSize => inr 400%N
                   | APresent f => if (f =? 1)%N || (f =? 2)%N then inl f else inr 440%N
                   end) with
            | inr code => err code
            | inl fam =>
                (* RFC 6156: RESERVATION-TOKEN and REQUESTED-ADDRESS-FAMILY exclude each other (any size) *)
                if match rtoken, family with AAbsent, _ => false | _, AAbsent => false | _, _ => true end then err 400%N else
                if negb (cfg_quota cfg uid realm src) then err 486%N else
                let lt := granted_lifetime cfg lifetime in
                if lt =? 0 then err 508%N else
                match relay_port with
                | None => err 508%N
                | Some rp =>
                    if match want with Some q => negb (rp =? q)%N | None => false end then err 508%N else
                    let relay := {| ip := if (fam =? 2)%N then cfg_relay_ip6 cfg else cfg_relay_ip4 cfg; port := rp |} in
                    let attrs := [SRelayed relay; SLifetime (lt / sec); SMapped src] ++ (if evenport then [SToken minted] else []) in
                    let a := {| a_client := src; a_user := uid; a_realm := realm; a_fam := fam; a_proto := p;
                                a_relay := relay; a_dl := now s + lt; a_perms := []; a_chans := [];
                                a_tid := tid; a_cache := attrs |} in
                    let s1 := set_allocs s (allocs s ++ [a]) in
                    ((if evenport then add_rsv s1 {| r_tok := minted; r_port := rp; r_dl := now s + rsv_lifetime |} else s1),
                     [Life (LAllocCreated src uid relay); Success src MAllocate tid attrs])
                end
            end
            end
      end
  end.

Definition owned_alloc (s : state) (src : addr) (uid : N) : option alloc :=
  match find_alloc src (allocs s) with
  | Some a => if (a_user a =? uid)%N then Some a else None
  | None => None
  end.

Definition h_refresh (cfg : config) (s : state) (src : addr) (tid : N) (uid : N)
           (lifetime family : attr N) : state * list action :=
  match owned_alloc s src uid with
  | None => (s, [])
  | Some a =>
      let err code := (s, [Error src MRefresh tid code false]) in
      let go :=
        let lt := granted_lifetime cfg lifetime in
        if lt =? 0 then
          (set_allocs s (remove_alloc src (allocs s)),
           close_events a ++ [Success src MRefresh tid [SLifetime 0]])
        else
          (set_allocs s (replace_alloc (set_dl a (now s + lt)) (allocs s)),
           [Success src MRefresh tid [SLifetime (lt / sec)]]) in
      match family with
      | AAbsent => go
      | ABadSize => err 400%N
      | APresent f =>
          if negb ((f =? 1)%N || (f =? 2)%N) then err 443%N
          else if negb (f =? a_fam a)%N then err 443%N
          else go
      end
  end.

(* first failing peer of a CreatePermission, in order: 400 undecodable, 443 family, 403 vetoed *)
Fixpoint perm_check (cfg : config) (a : alloc) (peers : list peer_attr) : option N :=
  match peers with
  | [] => None
  | PeerBad :: _ => Some 400%N
  | PeerOk p :: r =>
      if negb (ip_matches_family (ip p) (a_fam a)) then Some 443%N
      else if negb (cfg_policy cfg (a_client a) (ip p)) then Some 403%N
      else perm_check cfg a r
  end.

Fixpoint install_perms (a : alloc) (dl : Z) (peers : list peer_attr) : alloc * list action :=
  match peers with
  | [] => (a, [])
  | PeerOk p :: r =>
      let '(a1, e1) := add_perm a (ip p) dl in
      let '(a2, e2) := install_perms a1 dl r in (a2, e1 ++ e2)
  | PeerBad :: r => install_perms a dl r
  end.

Definition h_create_perm (cfg : config) (s : state) (src : addr) (tid : N) (uid : N)
           (peers : list peer_attr) : state * list action :=
  match owned_alloc s src uid with
  | None => (s, [])
  | Some a =>
      match perm_check cfg a peers with
      | Some code => (s, [Error src MCreatePerm tid code false])
      | None =>
          match peers with
          | [] => (s, [Error src MCreatePerm tid 400%N false])
          | _ =>
              let '(a', evs) := install_perms a (now s + cfg_perm_timeout cfg) peers in
              (set_allocs s (replace_alloc a' (allocs s)), evs ++ [Success src MCreatePerm tid []])
          end
      end
  end.

Definition h_channel_bind (cfg : config) (s : state) (src : addr) (tid : N) (uid : N)
           (num : attr N) (peer : option peer_attr) : state * list action :=
  match owned_alloc s src uid with
  | None => (s, [])
  | Some a =>
      let err code := (s, [Error src MChannelBind tid code false]) in
      match num with
      | AAbsent | ABadSize => err 400%N
      | APresent n =>
          match peer with
          | None | Some PeerBad => err 400%N
          | Some (PeerOk p) =>
              if negb (valid_chan n) then err 400%N
              else if negb (ip_matches_family (ip p) (a_fam a)) then err 443%N
              else if negb (cfg_policy cfg src (ip p)) then err 401%N
              else
                let conflict1 :=
                  match find_chan_peer p (a_chans a) with
                  | Some c => if negb (c_num c =? n)%N then Some 400%N else None
                  | None => None
                  end in
                match conflict1 with
                | Some code => err code
                | None =>
                    match find_chan_num n (a_chans a) with
                    | Some c =>
                        if negb (addr_eqb (c_peer c) p) then err 400%N
                        else
                          let a1 := set_chans a (refresh_chan n (now s + cfg_chan_timeout cfg) (a_chans a)) in
                          let '(a2, e2) := add_perm a1 (ip (c_peer c)) (now s + cfg_perm_timeout cfg) in
                          (set_allocs s (replace_alloc a2 (allocs s)), e2 ++ [Success src MChannelBind tid []])
                    | None =>
                        let a1 := set_chans a (a_chans a ++ [{| c_num := n; c_peer := p; c_dl := now s + cfg_chan_timeout cfg |}]) in
                        let '(a2, e2) := add_perm a1 (ip p) (now s + cfg_perm_timeout cfg) in
                        (set_allocs s (replace_alloc a2 (allocs s)),
                         e2 ++ [Life (LChanCreated src p n); Success src MChannelBind tid []])
                    end
                end
          end
      end
  end.

(* wire size of what the client sent, for the read loop's "n >= inboundMTU => drop" rule *)
Definition send_wire_len (p : addr) (d : bytes) : N :=
  (20 + (4 + (if is_v4 (ip p) then 8 else 20)) + (4 + pad4 (lenN d)))%N.
Definition chandata_wire_len (d : bytes) : N := (4 + pad4 (lenN d))%N.

Definition h_send (cfg : config) (s : state) (src : addr) (peer : option peer_attr) (data : option bytes)
  : state * list action :=
  match find_alloc src (allocs s), data, peer with
  | Some a, Some d, Some (PeerOk p) =>
      if (cfg_mtu cfg <=? send_wire_len p d)%N then (s, [])
      else match find_perm (ip p) (a_perms a) with
           | Some _ => if (a_proto a =? 17)%N then (s, [ToPeer (a_relay a) p d]) else (s, [])
           | None => (s, [])
           end
  | _, _, _ => (s, [])
  end.

Definition h_chandata (cfg : config) (s : state) (src : addr) (n : N) (d : bytes) : state * list action :=
  if (cfg_mtu cfg <=? chandata_wire_len d)%N then (s, []) else
  match find_alloc src (allocs s) with
  | Some a =>
      match find_chan_num n (a_chans a) with
      | Some c => if (a_proto a =? 17)%N then (s, [ToPeer (a_relay a) (c_peer c) d]) else (s, [])
      | None => (s, [])
      end
  | None => (s, [])
  end.

(* Allocation.packetConnHandler: channel binding of the exact source first, else permission for its IP *)
Definition h_peer (s : state) (relay from : addr) (d : bytes) : state * list action :=
  match find_relay relay (allocs s) with
  | Some a =>
      if negb (a_proto a =? 17)%N then (s, []) else
      if (rtp_mtu <? lenN d)%N then (s, []) else
      match find_chan_peer from (a_chans a) with
      | Some c => (s, [ChanDataOut (a_client a) (c_num c) d])
      | None =>
          match find_perm (ip from) (a_perms a) with
          | Some _ => (s, [DataInd (a_client a) from d])
          | None => (s, [])
          end
      end
  | None => (s, [])
  end.

(* timers: everything whose deadline has passed fires *)
Definition live_perm (t : Z) (p : perm) : bool := t <? p_dl p.
Definition live_chan (t : Z) (c : chan) : bool := t <? c_dl c.

Definition tick_alloc (t : Z) (a : alloc) : option alloc * list action :=
  if a_dl a <=? t then (None, close_events a)
  else
    let dead_p := filter (fun p => negb (live_perm t p)) (a_perms a) in
    let dead_c := filter (fun c => negb (live_chan t c)) (a_chans a) in
    (Some (set_chans (set_perms a (filter (live_perm t) (a_perms a))) (filter (live_chan t) (a_chans a))),
     map (fun p => Life (LPermDeleted (a_client a) (p_ip p))) dead_p ++
     map (fun c => Life (LChanDeleted (a_client a) (c_peer c) (c_num c))) dead_c).

Fixpoint tick_allocs (t : Z) (l : list alloc) : list alloc * list action :=
  match l with
  | [] => ([], [])
  | a :: r =>
      let '(oa, e1) := tick_alloc t a in
      let '(r', e2) := tick_allocs t r in
      (match oa with Some a' => a' :: r' | None => r' end, e1 ++ e2)
  end.

Definition h_tick (s : state) (dt : Z) : state * list action :=
  let t := now s + Z.max 0 dt in
  let '(l, evs) := tick_allocs t (allocs s) in
  ({| now := t; epoch_min := epoch_min s; allocs := l; rsvs := filter (fun r => t <? r_dl r) (rsvs s) |}, evs).

Definition h_relay_err (s : state) (relay : addr) : state * list action :=
  match find_relay relay (allocs s) with
  | Some a => (set_allocs s (remove_alloc (a_client a) (allocs s)), close_events a)
  | None => (s, [])
  end.

(* server.go readListener: when a control connection's read loop ends, the allocation of its 5-tuple is deleted *)
Definition h_ctl_close (s : state) (src : addr) : state * list action :=
  match find_alloc src (allocs s) with
  | Some a => (set_allocs s (remove_alloc (a_client a) (allocs s)), close_events a)
  | None => (s, [])
  end.

(* Server.Close: the listening sockets close, the read loops end, Manager.Close closes every allocation and
   each relay loop deletes its allocation *)
Definition h_srv_close (s : state) : state * list action :=
  (set_allocs s [], flat_map close_events (allocs s)).

Definition req_method (r : request) : method :=
  match r with
  | RqAllocate _ _ _ _ _ _ _ _ => MAllocate
  | RqRefresh _ _ => MRefresh
  | RqCreatePerm _ => MCreatePerm
  | RqChannelBind _ _ => MChannelBind
  | RqBinding => MBinding
  end.

Definition step (cfg : config) (s : state) (e : event) : state * list action :=
  match e with
  | EReq src tid c r unknown =>
      if unknown then (s, [Error src (req_method r) tid 420%N false]) else
      match r with
      | RqBinding => (s, [Success src MBinding tid [SMapped src]])
      | _ =>
          match authenticate cfg s c with
          | AuthReply code ch => (s, [Error src (req_method r) tid code ch])
          | AuthOK uid =>
              let realm := match c_realm c with Some r => r | None => 0%N end in
              match r with
              | RqAllocate tr lt fam df rp ep rt mt => h_allocate cfg s src tid uid realm tr lt fam df rp ep rt mt
              | RqRefresh lt fam => h_refresh cfg s src tid uid lt fam
              | RqCreatePerm peers => h_create_perm cfg s src tid uid peers
              | RqChannelBind n p => h_channel_bind cfg s src tid uid n p
              | RqBinding => (s, [])
              end
          end
      end
  | ESend src p d => h_send cfg s src p d
  | EChanData src n d => h_chandata cfg s src n d
  | EPeer relay from d => h_peer s relay from d
  | ETick dt => h_tick s dt
  | ERelayErr relay => h_relay_err s relay
  | ECtlClose src => h_ctl_close s src
  | ESrvClose => h_srv_close s
  | EDeadMsg => (s, [])
  end.

Fixpoint run (cfg : config) (s : state) (h : list event) : state * list (list action) :=
  match h with
  | [] => (s, [])
  | e :: r =>
      let '(s1, a) := step cfg s e in
      let '(s2, as_) := run cfg s1 r in
      (s2, a :: as_)
  end.

Definition final (cfg : config) (s : state) (h : list event) : state := fst (run cfg s h).
