(* Model of lt_cred.go: time-windowed shared-secret credentials (both generators, both handlers).
   Strings are byte lists. HMAC-SHA1, base64 and the MD5 long-term key are symbolic (Section variables). *)
From Turn Require Export Bytes.
From Coq Require Import DecimalN Decimal.
Open Scope Z_scope.

(* ---------- strconv.FormatInt(t, 10) / strconv.Atoi ---------- *)
Fixpoint uint_bytes (d : Decimal.uint) : bytes :=
  match d with
  | Nil => []
  | D0 r => 48%N :: uint_bytes r | D1 r => 49%N :: uint_bytes r | D2 r => 50%N :: uint_bytes r
  | D3 r => 51%N :: uint_bytes r | D4 r => 52%N :: uint_bytes r | D5 r => 53%N :: uint_bytes r
  | D6 r => 54%N :: uint_bytes r | D7 r => 55%N :: uint_bytes r | D8 r => 56%N :: uint_bytes r
  | D9 r => 57%N :: uint_bytes r
  end.

Definition format_int (z : Z) : bytes :=
  if z <? 0 then 45%N :: uint_bytes (N.to_uint (Z.to_N (- z))) else uint_bytes (N.to_uint (Z.to_N z)).

Fixpoint bytes_uint (b : bytes) : option Decimal.uint :=
  match b with
  | [] => Some Nil
  | c :: r =>
      match bytes_uint r with
      | None => None
      | Some d =>
          if (c =? 48)%N then Some (D0 d) else if (c =? 49)%N then Some (D1 d) else if (c =? 50)%N then Some (D2 d)
          else if (c =? 51)%N then Some (D3 d) else if (c =? 52)%N then Some (D4 d) else if (c =? 53)%N then Some (D5 d)
          else if (c =? 54)%N then Some (D6 d) else if (c =? 55)%N then Some (D7 d) else if (c =? 56)%N then Some (D8 d)
          else if (c =? 57)%N then Some (D9 d) else None
      end
  end.

Definition int_max : Z := 9223372036854775807.

(* strconv.Atoi: optional sign, at least one digit, only digits, result must fit int64 *)
Definition atoi (b : bytes) : option Z :=
  let '(neg, ds) := match b with
                    | c :: r => if (c =? 45)%N then (true, r) else if (c =? 43)%N then (false, r) else (false, b)
                    | [] => (false, b) end in
  match ds with
  | [] => None
  | _ => match bytes_uint ds with
         | None => None
         | Some d =>
             let v := Z.of_N (N.of_uint d) in
             if neg then (if v <=? int_max + 1 then Some (- v) else None)
             else (if v <=? int_max then Some v else None)
         end
  end.

(* strings.Split(s, ":") : at least one field *)
Fixpoint split_colon (acc : bytes) (b : bytes) : list bytes :=
  match b with
  | [] => [List.rev acc]
  | c :: r => if (c =? 58)%N then List.rev acc :: split_colon [] r else split_colon (c :: acc) r
  end.
Definition fields (b : bytes) : list bytes := split_colon [] b.

Section Cred.
  Variable tag key : Type.
  Variable hmac_sha1 : bytes -> bytes -> tag.          (* secret, message *)
  Variable b64 : tag -> bytes.
  Variable md5key : bytes -> bytes -> bytes -> key.     (* username, realm, password: GenerateAuthKey *)

  Definition sec_ns : Z := 1000000000.
  (* time.Now().Add(d).Unix() for instants after 1970 *)
  Definition unix (ns : Z) : Z := ns / sec_ns.

  Definition password_of (secret username : bytes) : bytes := b64 (hmac_sha1 secret username).

  (* GenerateLongTermCredentials / GenerateLongTermTURNRESTCredentials *)
  Definition gen_plain (now_ns dur_ns : Z) (secret : bytes) : bytes * bytes :=
    let u := format_int (unix (now_ns + dur_ns)) in (u, password_of secret u).
  Definition gen_rest (now_ns dur_ns : Z) (secret user : bytes) : bytes * bytes :=
    let u := format_int (unix (now_ns + dur_ns)) ++ [58%N] ++ user in (u, password_of secret u).

  (* NewLongTermAuthHandler / LongTermTURNRESTAuthHandler: Some (userID, key) or refusal *)
  Definition handler_plain (now_ns : Z) (secret username realm : bytes) : option (bytes * key) :=
    match atoi username with
    | None => None
    | Some t => if t <? unix now_ns then None
                else Some (username, md5key username realm (password_of secret username))
    end.
  Definition handler_rest (now_ns : Z) (secret username realm : bytes) : option (bytes * key) :=
    let fs := fields username in
    let ts := hd [] fs in
    let uid := match fs with _ :: u :: _ => u | _ => username end in
    match atoi ts with
    | None => None
    | Some t => if t <? unix now_ns then None
                else Some (uid, md5key username realm (password_of secret username))
    end.
End Cred.
