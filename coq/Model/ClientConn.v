(* Model of the client's relayed UDP socket: internal/client/udp_conn.go (WriteTo, createPermission,
   maybeBind/bindChannel/bind and its error handling, ReadFrom, HandleInbound, deadlines, Close),
   binding.go (number assignment), permission.go, and the two inbound paths of client.go
   (Data indication, ChannelData).  The TURN server's reactions are the environment. *)
From Turn Require Export Bytes ChanData Relay.
Open Scope Z_scope.

Inductive bstate := BIdle | BRequest | BUnknown | BReadyUnknown | BReady | BRefresh | BFailed.
Definition bstate_ok (s : bstate) : bool := match s with BReady | BRefresh | BReadyUnknown => true | _ => false end.
Definition was_ready (s : bstate) : bool := match s with BReady | BReadyUnknown => true | _ => false end.

Record bind := { b_peer : addr; b_num : N; b_st : bstate; b_start : bstate (* state when the outstanding ChannelBind began *); b_at : Z }.
Record cst := { k_now : Z; k_perms : list N; k_binds : list bind; k_next : N;
                k_q : list (addr * bytes); k_closed : bool; k_rd : option Z }.

Definition queue_cap : nat := 1024.
Definition refresh_interval : Z := 300 * sec.

Inductive preact := POk | PStale | PErr (code : N) | PFail.     (* CreatePermission: success, 438, other error response, transaction failure *)
Inductive breact := BOk | BStale | B400 | BErrCode (code : N) | BFail.   (* ChannelBind likewise *)

Inductive cevent :=
| CWrite (p : addr) (d : bytes) (reacts : list preact)
| CBindReact (p : addr) (r : breact)          (* the server's answer to the outstanding ChannelBind for p *)
| CInData (from : addr) (d : bytes)           (* Data indication relayed by the server *)
| CInChan (n : N) (d : bytes)                 (* ChannelData relayed by the server *)
| CRead                                        (* ReadFrom, called when it can return at once *)
| CSetDeadline (t : option Z)
| CTick (dt : Z)
| CCheck                                       (* the binding check timer fires: maybeBind on every binding *)
| CClose.

Inductive wire :=
| WCreatePerm (ips : list N)
| WChannelBind (n : N) (p : addr)
| WSend (p : addr) (d : bytes)
| WChanData (n : N) (d : bytes)
| WRefresh0.

Inductive cret := RWrote (n : N) | RErrClosed | RErrPerm | RRead (from : addr) (d : bytes) | RTimeout | RInErr | RNone.

Record cout := { o_wire : list wire; o_ret : cret }.

Definition min_ch : N := 16384.
Definition max_ch : N := 32767.

Fixpoint find_bind (p : addr) (l : list bind) : option bind :=
  match l with [] => None | b :: r => if addr_eqb (b_peer b) p then Some b else find_bind p r end.
Fixpoint find_bind_num (n : N) (l : list bind) : option bind :=
  match l with [] => None | b :: r => if (b_num b =? n)%N then Some b else find_bind_num n r end.
Fixpoint set_bind (b' : bind) (l : list bind) : list bind :=
  match l with [] => [] | b :: r => if addr_eqb (b_peer b) (b_peer b') then b' :: r else b :: set_bind b' r end.

(* createPermission with up to three attempts on 438: Some true = permitted, Some false = error, number of requests sent *)
Fixpoint perm_attempts (fuel : nat) (reacts : list preact) : bool * nat :=
  match fuel with
  | O => (false, O)
  | S f =>
      match reacts with
      | [] => (false, 1%nat)                         (* no scripted reaction: treated as a failed transaction *)
      | POk :: _ => (true, 1%nat)
      | PStale :: r => let '(ok, n) := perm_attempts f r in (ok, S n)
      | _ :: _ => (false, 1%nat)
      end
  end.

(* startBinding: does maybeBind start a ChannelBind now? *)
Definition start_binding (now : Z) (b : bind) : option bstate :=
  match b_st b with
  | BIdle | BUnknown => Some BRequest
  | BReadyUnknown => Some BRefresh
  | BReady => if refresh_interval <? now - b_at b then Some BRefresh else None
  | _ => None
  end.

Definition upd (s : cst) (perms : list N) (binds : list bind) (next : N) (q : list (addr * bytes)) : cst :=
  {| k_now := k_now s; k_perms := perms; k_binds := binds; k_next := next; k_q := q; k_closed := k_closed s; k_rd := k_rd s |}.

Definition cstep (s : cst) (e : cevent) : cst * cout :=
  match e with
  | CWrite p d reacts =>
      if k_closed s then (s, {| o_wire := []; o_ret := RErrClosed |}) else
      let '(permitted, nreq) :=
        if existsb (N.eqb (ip p)) (k_perms s) then (true, O) else perm_attempts 3 reacts in
      let w1 := repeat (WCreatePerm [ip p]) nreq in
      if negb permitted then (s, {| o_wire := w1; o_ret := RErrPerm |}) else
      let perms := if existsb (N.eqb (ip p)) (k_perms s) then k_perms s else ip p :: k_perms s in
      let '(b, binds, next) :=
        match find_bind p (k_binds s) with
        | Some b => (b, k_binds s, k_next s)
        | None =>
            let b := {| b_peer := p; b_num := k_next s; b_st := BIdle; b_start := BIdle; b_at := k_now s |} in
            (b, k_binds s ++ [b], if (k_next s =? max_ch)%N then min_ch else (k_next s + 1)%N)
        end in
      if bstate_ok (b_st b) then
        (upd s perms binds next (k_q s), {| o_wire := w1 ++ [WChanData (b_num b) d]; o_ret := RWrote (lenN d) |})
      else
        match start_binding (k_now s) b with
        | Some st' =>
            let b' := {| b_peer := p; b_num := b_num b; b_st := st'; b_start := b_st b; b_at := b_at b |} in
            (upd s perms (set_bind b' binds) next (k_q s),
             {| o_wire := w1 ++ [WChannelBind (b_num b) p; WSend p d]; o_ret := RWrote (lenN d) |})
        | None =>
            (upd s perms binds next (k_q s), {| o_wire := w1 ++ [WSend p d]; o_ret := RWrote (lenN d) |})
        end
  | CBindReact p r =>
      match find_bind p (k_binds s) with
      | Some b =>
          match b_st b with
          | BRequest | BRefresh =>
              let fin st at_ := upd s (k_perms s) (set_bind {| b_peer := p; b_num := b_num b; b_st := st; b_start := b_start b; b_at := at_ |} (k_binds s))
                                     (k_next s) (k_q s) in
              match r with
              | BOk => (fin BReady (k_now s), {| o_wire := []; o_ret := RNone |})
              | BStale => (s, {| o_wire := [WChannelBind (b_num b) p]; o_ret := RNone |})   (* nonce adopted, request repeated *)
              | BFail => (fin (if was_ready (b_start b) then BReadyUnknown else BUnknown) (b_at b), {| o_wire := []; o_ret := RNone |})
              | B400 =>
                  if was_ready (b_start b) then (fin BReady (b_at b), {| o_wire := []; o_ret := RNone |})
                  else
                    (* a fresh binding refused with 400: the allocation is closed *)
                    let s1 := fin BFailed (b_at b) in
                    ({| k_now := k_now s1; k_perms := k_perms s1; k_binds := k_binds s1; k_next := k_next s1; k_q := k_q s1;
                        k_closed := true; k_rd := k_rd s1 |},
                     {| o_wire := if k_closed s then [] else [WRefresh0]; o_ret := RNone |})
              | BErrCode _ => (fin BFailed (b_at b), {| o_wire := []; o_ret := RNone |})
              end
          | _ => (s, {| o_wire := []; o_ret := RNone |})
          end
      | None => (s, {| o_wire := []; o_ret := RNone |})
      end
  | CInData from d =>
      if (length (k_q s) <? queue_cap)%nat
      then (upd s (k_perms s) (k_binds s) (k_next s) (k_q s ++ [(from, d)]), {| o_wire := []; o_ret := RNone |})
      else (s, {| o_wire := []; o_ret := RNone |})                                    (* receive buffer full: dropped, never blocks *)
  | CInChan n d =>
      match find_bind_num n (k_binds s) with
      | Some b =>
          if (length (k_q s) <? queue_cap)%nat
          then (upd s (k_perms s) (k_binds s) (k_next s) (k_q s ++ [(b_peer b, d)]), {| o_wire := []; o_ret := RNone |})
          else (s, {| o_wire := []; o_ret := RNone |})
      | None => (s, {| o_wire := []; o_ret := RInErr |})                              (* unknown channel: error, nothing queued *)
      end
  | CRead =>
      match k_q s with
      | (from, d) :: r => (upd s (k_perms s) (k_binds s) (k_next s) r, {| o_wire := []; o_ret := RRead from d |})
      | [] =>
          if k_closed s then (s, {| o_wire := []; o_ret := RErrClosed |})
          else match k_rd s with
               | Some t => if t <=? k_now s then (s, {| o_wire := []; o_ret := RTimeout |}) else (s, {| o_wire := []; o_ret := RNone |})
               | None => (s, {| o_wire := []; o_ret := RNone |})
               end
      end
  | CSetDeadline t =>
      ({| k_now := k_now s; k_perms := k_perms s; k_binds := k_binds s; k_next := k_next s; k_q := k_q s;
          k_closed := k_closed s; k_rd := t |}, {| o_wire := []; o_ret := RNone |})
  | CTick dt =>
      ({| k_now := k_now s + Z.max 0 dt; k_perms := k_perms s; k_binds := k_binds s; k_next := k_next s; k_q := k_q s;
          k_closed := k_closed s; k_rd := k_rd s |}, {| o_wire := []; o_ret := RNone |})
  | CCheck =>
      let step1 (acc : list bind * list wire) (b : bind) :=
        match start_binding (k_now s) b with
        | Some st' => (fst acc ++ [{| b_peer := b_peer b; b_num := b_num b; b_st := st'; b_start := b_st b; b_at := b_at b |}],
                       snd acc ++ [WChannelBind (b_num b) (b_peer b)])
        | None => (fst acc ++ [b], snd acc)
        end in
      let '(binds, w) := fold_left step1 (k_binds s) ([], []) in
      (upd s (k_perms s) binds (k_next s) (k_q s), {| o_wire := w; o_ret := RNone |})
  | CClose =>
      if k_closed s then (s, {| o_wire := []; o_ret := RErrClosed |})
      else ({| k_now := k_now s; k_perms := k_perms s; k_binds := k_binds s; k_next := k_next s; k_q := k_q s;
               k_closed := true; k_rd := k_rd s |}, {| o_wire := [WRefresh0]; o_ret := RNone |})
  end.

Definition cinit : cst := {| k_now := 0; k_perms := []; k_binds := []; k_next := min_ch; k_q := []; k_closed := false; k_rd := None |}.

Fixpoint crun (s : cst) (h : list cevent) : cst * list cout :=
  match h with
  | [] => (s, [])
  | e :: r => let '(s1, o) := cstep s e in let '(s2, os) := crun s1 r in (s2, o :: os)
  end.
