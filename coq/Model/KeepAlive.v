(* Abstract timed model for C14: one piece of server-side soft state with timeout T, kept alive by a
   client driver that fires a handler every P after the previous handler RETURNED (PeriodicTimer's rule;
   for the binding driver P is the check interval plus the refresh age), the handler taking between
   0 and H (three tries of a transaction that never loses all its retransmissions), its effect reaching the
   server at some instant inside the handler's execution.  All times in ns. *)
From Turn Require Export Bytes.
Open Scope Z_scope.

Record cycle := { c_h : Z; c_off : Z }.    (* handler duration, and when inside it the server processed the refresh *)
Definition cycle_ok (H : Z) (c : cycle) : Prop := 0 <= c_off c <= c_h c /\ c_h c <= H.

(* state: [a] = instant the server last (re)armed the timeout, [next] = when the handler starts next *)
Fixpoint arm_times (P : Z) (a next : Z) (cs : list cycle) : list Z :=
  match cs with
  | [] => [a]
  | c :: r => a :: arm_times P (next + c_off c) (next + c_h c + P) r
  end.

(* the soft state survives iff every re-arming happens before the previous deadline *)
Fixpoint gaps_below (T : Z) (l : list Z) : Prop :=
  match l with
  | a :: ((b :: _) as r) => b < a + T /\ gaps_below T r
  | _ => True
  end.
Fixpoint gaps_belowb (T : Z) (l : list Z) : bool :=
  match l with
  | a :: ((b :: _) as r) => (b <? a + T) && gaps_belowb T r
  | _ => true
  end.

(* the concrete constants of the client and the server defaults *)
Definition s : Z := 1000000000.
Definition rto : Z := 200 * 1000000.
Definition tx_max : Z := 7800 * 1000000.            (* a transaction ends within 7.8 s (C12) *)
Definition handler_max : Z := 3 * tx_max.           (* at most three tries (438 handling) *)
