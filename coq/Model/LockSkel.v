(* Lock skeletons of Go functions (C18): the language the translator (translator/lockskel) emits for every
   function of pion/turn, its path semantics, and the checker evaluated on the generated term.
   A lock is identified by a number (the translator's table maps numbers to source text such as
   "allocation.Manager.lock/W"); a guarded field likewise.

   Encoding of sync.RWMutex used by the translator: every mutex L has three ids, L/W, L/R and L/any.
     L.Lock()    = Acq L/W ; Acq L/any        L.Unlock()  = Rel L/any ; Rel L/W
     L.RLock()   = Acq L/R ; Acq L/any        L.RUnlock() = Rel L/any ; Rel L/R
   A read of a field guarded by L is  Acc f/r  with guard (f/r) = L/any; a write is  Acc f/w  with
   guard (f/w) = L/W. *)
From Turn Require Export Bytes.
Open Scope N_scope.

Inductive cmd :=
| Skip
| Acq (l : N)                 (* X.Lock() / X.RLock() *)
| Rel (l : N)                 (* X.Unlock() / X.RUnlock() *)
| DeferRel (l : N)            (* defer X.Unlock() *)
| Acc (f : N)                 (* an access to guarded field f *)
| Need (l : N)                (* the source documents "caller must hold l" at this point *)
| Ret                         (* return *)
| Seq (a b : cmd)
| Alt (a b : cmd)             (* if/else, switch cases, select cases: either branch *)
| Loop (c : cmd)              (* for / range: zero or more iterations *)
| Sw (c : cmd)                (* switch / select body: a break inside ends the switch, a continue passes through *)
| Brk | Cont
| Call (n : N).               (* a synchronous call of function n of the program *)

(* a state: locks held (most recent first) and pending deferred releases (most recent first) *)
Record st := { held : list N; defers : list N }.

Fixpoint remove1 (l : N) (h : list N) : option (list N) :=
  match h with
  | [] => None
  | x :: r => if x =? l then Some r else match remove1 l r with Some r' => Some (x :: r') | None => None end
  end.

(* run the deferred releases at function exit *)
Fixpoint run_defers (h : list N) (d : list N) : option (list N) :=
  match d with
  | [] => Some h
  | l :: r => match remove1 l h with Some h' => run_defers h' r | None => None end
  end.

(* how a command can end *)
Inductive ending := ENormal | EReturn | EBreak | ECont.

(* an acquisition event: the locks held at the moment, and the lock being acquired *)
Definition acqev := (list N * N)%type.

Fixpoint list_eqbN (a b : list N) : bool :=
  match a, b with [] , [] => true | x :: a', y :: b' => (x =? y) && list_eqbN a' b' | _, _ => false end.
Definition st_eqb (a b : st) : bool := list_eqbN (held a) (held b) && list_eqbN (defers a) (defers b).
Definition edge_eqb (a b : N * N) : bool := (fst a =? fst b) && (snd a =? snd b).

Section Dedup.
  Context {A : Type} (eqb : A -> A -> bool).
  Fixpoint dedup (l : list A) : list A :=
    match l with [] => [] | x :: r => if existsb (eqb x) r then dedup r else x :: dedup r end.
End Dedup.

Record exits := { xn : list st; xr : list st; xb : list st; xc : list st; xe : list (N * N) }.
Definition no_exits : exits := {| xn := []; xr := []; xb := []; xc := []; xe := [] |}.
Definition join (a b : exits) : exits :=
  {| xn := dedup st_eqb (xn a ++ xn b); xr := dedup st_eqb (xr a ++ xr b);
     xb := dedup st_eqb (xb a ++ xb b); xc := dedup st_eqb (xc a ++ xc b);
     xe := dedup edge_eqb (xe a ++ xe b) |}.

Definition exit_leaves (pre : list N) (s : st) : bool :=
  match run_defers (held s) (defers s) with Some h => list_eqbN h pre | None => false end.

(* path semantics; [guard f] is the lock that must be held when field f is touched; [prog n] is the body
   of function n.  exec c s t e s' : starting in s, c can end in way e with state s', having performed
   the acquisitions t.  Releasing a lock that is not held, touching a guarded field or reaching a
   "caller must hold" point without the lock has NO derivation: such paths are "stuck", and the checker
   below rejects programs that can get stuck. *)
Section Sem.
  Variable guard : N -> N.
  Variable prog : N -> option cmd.

  Inductive exec : cmd -> st -> list acqev -> ending -> st -> Prop :=
  | XSkip s : exec Skip s [] ENormal s
  | XAcq l s : exec (Acq l) s [(held s, l)] ENormal {| held := l :: held s; defers := defers s |}
  | XRel l s h' : remove1 l (held s) = Some h' -> exec (Rel l) s [] ENormal {| held := h'; defers := defers s |}
  | XDefer l s : exec (DeferRel l) s [] ENormal {| held := held s; defers := l :: defers s |}
  | XAcc f s : In (guard f) (held s) -> exec (Acc f) s [] ENormal s
  | XNeed l s : In l (held s) -> exec (Need l) s [] ENormal s
  | XRet s : exec Ret s [] EReturn s
  | XBrk s : exec Brk s [] EBreak s
  | XCont s : exec Cont s [] ECont s
  | XSeqN a b s t1 s1 t2 e s2 : exec a s t1 ENormal s1 -> exec b s1 t2 e s2 -> exec (Seq a b) s (t1 ++ t2) e s2
  | XSeqE a b s t e s1 : e <> ENormal -> exec a s t e s1 -> exec (Seq a b) s t e s1
  | XAltL a b s t e s' : exec a s t e s' -> exec (Alt a b) s t e s'
  | XAltR a b s t e s' : exec b s t e s' -> exec (Alt a b) s t e s'
  | XLoop0 c s : exec (Loop c) s [] ENormal s
  | XLoopN c s t1 s1 t2 e s2 : exec c s t1 ENormal s1 -> exec (Loop c) s1 t2 e s2 -> exec (Loop c) s (t1 ++ t2) e s2
  | XLoopC c s t1 s1 t2 e s2 : exec c s t1 ECont s1 -> exec (Loop c) s1 t2 e s2 -> exec (Loop c) s (t1 ++ t2) e s2
  | XLoopB c s t s1 : exec c s t EBreak s1 -> exec (Loop c) s t ENormal s1
  | XLoopR c s t s1 : exec c s t EReturn s1 -> exec (Loop c) s t EReturn s1
  | XSwB c s t s1 : exec c s t EBreak s1 -> exec (Sw c) s t ENormal s1
  | XSwO c s t e s1 : e <> EBreak -> exec c s t e s1 -> exec (Sw c) s t e s1
  (* a call runs the callee's body with the caller's locks and its own (empty) defer stack; when the body
     ends, normally or by return, its deferred releases run *)
  | XCall n body s t k s1 h : prog n = Some body ->
      exec body {| held := held s; defers := [] |} t k s1 -> (k = ENormal \/ k = EReturn) ->
      run_defers (held s1) (defers s1) = Some h ->
      exec (Call n) s t ENormal {| held := h; defers := defers s |}.

  (* what "the function can get stuck" means: some path reaches an operation it may not perform *)
  Inductive stuck : cmd -> st -> Prop :=
  | SRel l s : remove1 l (held s) = None -> stuck (Rel l) s
  | SAcc f s : ~ In (guard f) (held s) -> stuck (Acc f) s
  | SNeed l s : ~ In l (held s) -> stuck (Need l) s
  | SSeqL a b s : stuck a s -> stuck (Seq a b) s
  | SSeqR a b s t s1 : exec a s t ENormal s1 -> stuck b s1 -> stuck (Seq a b) s
  | SAltL a b s : stuck a s -> stuck (Alt a b) s
  | SAltR a b s : stuck b s -> stuck (Alt a b) s
  | SLoop c s : stuck c s -> stuck (Loop c) s
  | SLoopN c s t s1 : exec c s t ENormal s1 -> stuck (Loop c) s1 -> stuck (Loop c) s
  | SLoopC c s t s1 : exec c s t ECont s1 -> stuck (Loop c) s1 -> stuck (Loop c) s
  | SSw c s : stuck c s -> stuck (Sw c) s
  | SCall n body s : prog n = Some body -> stuck body {| held := held s; defers := [] |} -> stuck (Call n) s
  | SCallD n body s t k s1 : prog n = Some body -> exec body {| held := held s; defers := [] |} t k s1 ->
      run_defers (held s1) (defers s1) = None -> stuck (Call n) s
  | SCallU n s : prog n = None -> stuck (Call n) s.

  (* ---------- the checker: abstract execution over the exact state (no widening is needed because
     loop bodies are required to be lock-neutral); calls are answered by an oracle ---------- *)
  Section Check.
    Variable callee : N -> st -> option exits.

    Fixpoint seq_go (f : st -> option exits) (l : list st) (base : exits) : option exits :=
      match l with
      | [] => Some base
      | s1 :: r => match f s1, seq_go f r base with Some e1, Some e2 => Some (join e1 e2) | _, _ => None end
      end.

    Definition just (s : st) : exits := {| xn := [s]; xr := []; xb := []; xc := []; xe := [] |}.

    Fixpoint check (c : cmd) (s : st) : option exits :=
      match c with
      | Skip => Some (just s)
      | Acq l => Some {| xn := [{| held := l :: held s; defers := defers s |}]; xr := []; xb := []; xc := [];
                         xe := map (fun h => (h, l)) (held s) |}
      | Rel l => match remove1 l (held s) with
                 | Some h' => Some (just {| held := h'; defers := defers s |})
                 | None => None end
      | DeferRel l => Some (just {| held := held s; defers := l :: defers s |})
      | Acc f => if existsb (N.eqb (guard f)) (held s) then Some (just s) else None
      | Need l => if existsb (N.eqb l) (held s) then Some (just s) else None
      | Ret => Some {| xn := []; xr := [s]; xb := []; xc := []; xe := [] |}
      | Seq a b =>
          match check a s with
          | None => None
          | Some ea => seq_go (check b) (xn ea) {| xn := []; xr := xr ea; xb := xb ea; xc := xc ea; xe := xe ea |}
          end
      | Alt a b => match check a s, check b s with Some e1, Some e2 => Some (join e1 e2) | _, _ => None end
      | Loop body =>
          (* the body, started in s, must come back to s on every normal/continue ending *)
          match check body s with
          | None => None
          | Some e => if forallb (st_eqb s) (xn e) && forallb (st_eqb s) (xc e)
                      then Some {| xn := s :: xb e; xr := xr e; xb := []; xc := []; xe := xe e |}
                      else None
          end
      | Sw body => match check body s with
                   | Some e => Some {| xn := xn e ++ xb e; xr := xr e; xb := []; xc := xc e; xe := xe e |}
                   | None => None end
      | Brk => Some {| xn := []; xr := []; xb := [s]; xc := []; xe := [] |}
      | Cont => Some {| xn := []; xr := []; xb := []; xc := [s]; xe := [] |}
      | Call n => callee n s
      end.
  End Check.

  (* answering a call with a checker for bodies: the body, started with the caller's locks, must not get
     stuck, let no break/continue escape, and leave exactly the caller's locks on every way out *)
  Definition call_of (chk : cmd -> st -> option exits) (n : N) (s : st) : option exits :=
    match prog n with
    | None => None
    | Some body =>
        match chk body {| held := held s; defers := [] |} with
        | None => None
        | Some e =>
            if forallb (exit_leaves (held s)) (xn e) && forallb (exit_leaves (held s)) (xr e) &&
               match xb e, xc e with [], [] => true | _, _ => false end
            then Some {| xn := [s]; xr := []; xb := []; xc := []; xe := xe e |}
            else None
        end
    end.

  (* call depth bounded by fuel; running out of fuel REJECTS (None), it never accepts *)
  Fixpoint oracle (fuel : nat) (n : N) (s : st) : option exits :=
    match fuel with
    | O => None
    | S f => call_of (check (oracle f)) n s
    end.

  Definition checkf (fuel : nat) : cmd -> st -> option exits := check (oracle fuel).

  (* a function body is balanced when, started with exactly [pre] held (nothing, or the lock the source
     documents as held by the caller), no path gets stuck, no break/continue escapes, and every way out
     leaves exactly [pre] held after the deferred releases.  Returns the acquisition-order edges seen. *)
  Definition balanced (fuel : nat) (pre : list N) (c : cmd) : option (list (N * N)) :=
    match checkf fuel c {| held := pre; defers := [] |} with
    | Some e => if forallb (exit_leaves pre) (xn e) && forallb (exit_leaves pre) (xr e) &&
                   match xb e, xc e with [], [] => true | _, _ => false end
                then Some (xe e) else None
    | None => None
    end.

  (* ---------- the whole program ---------- *)
  Fixpoint all_edges (fuel : nat) (fs : list (N * list N)) : option (list (N * N)) :=
    match fs with
    | [] => Some []
    | (n, pre) :: r =>
        match prog n with
        | None => None
        | Some body =>
            match balanced fuel pre body, all_edges fuel r with
            | Some e1, Some e2 => Some (dedup edge_eqb (e1 ++ e2))
            | _, _ => None
            end
        end
    end.
End Sem.

(* ---------- acquisition order: a rank function computed from the edges (longest-path layering, iterated
   a fixed number of rounds) and the check that every edge goes strictly upwards ---------- *)
Definition rank_of (r : list (N * N)) (l : N) : N :=
  match find (fun p => fst p =? l) r with Some p => snd p | None => 0 end.

Definition rank_step (edges : list (N * N)) (r : list (N * N)) (locks : list N) : list (N * N) :=
  map (fun l => (l, fold_left (fun acc e => if snd e =? l then N.max acc (rank_of r (fst e) + 1) else acc) edges 0)) locks.

Fixpoint rank_iter (k : nat) (edges : list (N * N)) (locks : list N) (r : list (N * N)) : list (N * N) :=
  match k with O => r | S k' => rank_iter k' edges locks (rank_step edges r locks) end.

Definition edge_locks (edges : list (N * N)) : list N :=
  dedup N.eqb (map fst edges ++ map snd edges).

Definition ranks (edges : list (N * N)) : list (N * N) :=
  let ls := edge_locks edges in rank_iter (S (length ls)) edges ls [].

Definition edges_ranked (r : list (N * N)) (edges : list (N * N)) : bool :=
  forallb (fun e => rank_of r (fst e) <? rank_of r (snd e)) edges.

Definition program_ok (guard : N -> N) (prog : N -> option cmd) (fuel : nat) (fs : list (N * list N)) : bool :=
  match all_edges guard prog fuel fs with
  | Some edges => edges_ranked (ranks edges) edges
  | None => false
  end.
