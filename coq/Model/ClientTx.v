(* Model of the client's transaction layer: client.go PerformTransaction / handleSTUNMessage (responses) /
   onRtxTimeout / Close, and internal/client/transaction.go (retransmission timer).
   Time is ns. Socket writes are the environment: [wr id k] says whether the k-th transmission
   (k = 0 is the initial one) of transaction [id] succeeds. *)
From Turn Require Export Bytes.
Open Scope Z_scope.

Definition max_rtx_interval : Z := 1600000000.   (* 1.6 s *)
Definition max_rtx_count : nat := 7.

Inductive result := ROk | RErrAllFailed | RErrWrite | RErrClosed.

Record tr := { t_id : N; t_nrtx : nat; t_int : Z; t_dl : Z; t_ignore : bool }.
Record state := { now : Z; trs : list tr }.

Inductive event :=
| EStart (id : N) (ignore : bool)
| EResp (id : N)
| ETick (dt : Z)
| EClose.

Inductive action :=
| Sent (id : N) (k : nat) (at_ : Z)          (* a transmission reached the socket *)
| Result (id : N) (r : result) (at_ : Z).    (* PerformTransaction returned / the waiter was released *)

Definition next_interval (i : Z) : Z := Z.min (2 * i) max_rtx_interval.

(* what one transaction does up to instant [t]: fire its timer as often as it is due *)
Fixpoint advance (fuel : nat) (wr : N -> nat -> bool) (t : Z) (x : tr) : option tr * list action :=
  match fuel with
  | O => (Some x, [])
  | S f =>
      if t <? t_dl x then (Some x, [])
      else
        let n := S (t_nrtx x) in
        let i := next_interval (t_int x) in
        if Nat.eqb n max_rtx_count then
          (None, if t_ignore x then [] else [Result (t_id x) RErrAllFailed (t_dl x)])
        else if wr (t_id x) n then
          let x' := {| t_id := t_id x; t_nrtx := n; t_int := i; t_dl := t_dl x + i; t_ignore := t_ignore x |} in
          let '(o, a) := advance f wr t x' in (o, Sent (t_id x) n (t_dl x) :: a)
        else
          (None, if t_ignore x then [] else [Result (t_id x) RErrWrite (t_dl x)])
  end.

Fixpoint advance_all (wr : N -> nat -> bool) (t : Z) (l : list tr) : list tr * list action :=
  match l with
  | [] => ([], [])
  | x :: r =>
      let '(o, a) := advance (S max_rtx_count) wr t x in
      let '(r', a') := advance_all wr t r in
      (match o with Some x' => x' :: r' | None => r' end, a ++ a')
  end.

Fixpoint find_tr (id : N) (l : list tr) : option tr :=
  match l with [] => None | x :: r => if (t_id x =? id)%N then Some x else find_tr id r end.
Fixpoint del_tr (id : N) (l : list tr) : list tr :=
  match l with [] => [] | x :: r => if (t_id x =? id)%N then del_tr id r else x :: del_tr id r end.

Definition step (rto : Z) (wr : N -> nat -> bool) (s : state) (e : event) : state * list action :=
  match e with
  | EStart id ignore =>
      if wr id 0%nat then
        ({| now := now s; trs := trs s ++ [{| t_id := id; t_nrtx := 0; t_int := rto; t_dl := now s + rto; t_ignore := ignore |}] |},
         [Sent id 0 (now s)])
      else (s, [Result id RErrWrite (now s)])          (* the initial write failed: error, nothing left behind *)
  | EResp id =>
      match find_tr id (trs s) with
      | Some x => ({| now := now s; trs := del_tr id (trs s) |}, if t_ignore x then [] else [Result id ROk (now s)])
      | None => (s, [])
      end
  | ETick dt =>
      let t := now s + Z.max 0 dt in
      let '(l, a) := advance_all wr t (trs s) in ({| now := t; trs := l |}, a)
  | EClose =>
      ({| now := now s; trs := [] |},
       flat_map (fun x => if t_ignore x then [] else [Result (t_id x) RErrClosed (now s)]) (trs s))
  end.

Fixpoint run (rto : Z) (wr : N -> nat -> bool) (s : state) (h : list event) : state * list (list action) :=
  match h with
  | [] => (s, [])
  | e :: r => let '(s1, a) := step rto wr s e in let '(s2, as_) := run rto wr s1 r in (s2, a :: as_)
  end.

Definition init : state := {| now := 0; trs := [] |}.

(* closed form of the schedule: interval before the (k+1)-th transmission, and its instant *)
Fixpoint interval_k (rto : Z) (k : nat) : Z := match k with O => rto | S j => next_interval (interval_k rto j) end.
Fixpoint send_time (t0 rto : Z) (k : nat) : Z := match k with O => t0 | S j => send_time t0 rto j + interval_k rto j end.
