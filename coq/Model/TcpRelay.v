(* Model of the RFC 6062 TCP relay part of the server: internal/server/turn.go handleConnectRequest /
   handleConnectionBindRequest, internal/allocation Manager.CreateTCPConnection / addTCPConnection /
   GetTCPConnection / RemoveTCPConnection, Allocation.connHandler, the 30 s bind timer.
   Allocations and permissions are created by abstract events here (their own rules are Model/Relay.v).
   The environment supplies dial outcomes and the random connection ids. *)
From Turn Require Export Bytes Relay.
Open Scope Z_scope.

Definition bind_timeout : Z := 30 * sec.

Record tconn := { tc_id : N; tc_peer : addr; tc_bound : bool; tc_dl : Z; tc_data : option N (* data connection bound to it *) }.
Record talloc := { ta_client : addr; ta_user : N; ta_relay : addr; ta_perms : list N; ta_conns : list tconn }.
Record tstate := { tnow : Z; tallocs : list talloc; tlocked : bool (* Manager.lock left held: every later manager call blocks *) }.

Inductive tevent :=
| TAlloc (client : addr) (user : N) (relay : addr)          (* a TCP allocation now exists (Allocate succeeded) *)
| TPerm (client : addr) (ip : N)                            (* a permission now exists *)
| TEnd (client : addr)                                      (* the allocation ends (Refresh 0 / control connection closed / expiry) *)
| TConnect (client : addr) (tid : N) (auth : option N) (peer : option addr) (vetoed : bool) (dial_ok : bool) (cid : N)
| TPeerConn (relay : addr) (peer : addr) (cid : N)          (* a peer connects to the relayed address *)
| TConnBind (data_conn : N) (tid : N) (auth : option N) (cid : option N)   (* ConnectionBind on a new client connection *)
| TData (cid : N) (from_client : bool) (d : bytes)          (* bytes written on one side of a bound pair *)
| TCloseSide (cid : N) (client_side : bool)                 (* one side of a bound pair closes *)
| TTick (dt : Z).

Inductive taction :=
| TSuccess (dst : addr) (m : method) (tid : N) (cid : option N)
| TError (dst : addr) (m : method) (tid : N) (code : N)
| TBindSuccess (data_conn : N) (tid : N) (cid : N)
| TBindError (data_conn : N) (tid : N) (code : N)
| TAttempt (dst : addr) (peer : addr) (cid : N)             (* ConnectionAttempt indication *)
| TPeerClosed (relay : addr) (peer : addr)                   (* the server closed that peer connection *)
| TDataClosed (data_conn : N)                                (* the server closed that client data connection *)
| TDeliver (cid : N) (to_client : bool) (d : bytes)          (* bytes come out on the other side *)
| TBlocked.                                                  (* the manager is wedged: no answer *)

Fixpoint tfind (c : addr) (l : list talloc) : option talloc :=
  match l with [] => None | a :: r => if addr_eqb (ta_client a) c then Some a else tfind c r end.
Fixpoint tfind_relay (r : addr) (l : list talloc) : option talloc :=
  match l with [] => None | a :: t => if addr_eqb (ta_relay a) r then Some a else tfind_relay r t end.
Fixpoint treplace (a' : talloc) (l : list talloc) : list talloc :=
  match l with [] => [] | a :: r => if addr_eqb (ta_client a) (ta_client a') then a' :: r else a :: treplace a' r end.
Fixpoint tremove (c : addr) (l : list talloc) : list talloc :=
  match l with [] => [] | a :: r => if addr_eqb (ta_client a) c then r else a :: tremove c r end.

Definition has_conn_id (cid : N) (l : list talloc) : bool :=
  existsb (fun a => existsb (fun c => (tc_id c =? cid)%N) (ta_conns a)) l.
Definition has_conn_peer (p : addr) (a : talloc) : bool := existsb (fun c => addr_eqb (tc_peer c) p) (ta_conns a).
Definition set_conns (a : talloc) (cs : list tconn) : talloc :=
  {| ta_client := ta_client a; ta_user := ta_user a; ta_relay := ta_relay a; ta_perms := ta_perms a; ta_conns := cs |}.

(* which allocation owns a connection id *)
Fixpoint owner_of (cid : N) (l : list talloc) : option (talloc * tconn) :=
  match l with
  | [] => None
  | a :: r => match find (fun c => (tc_id c =? cid)%N) (ta_conns a) with
              | Some c => Some (a, c)
              | None => owner_of cid r end
  end.

Definition drop_conn (cid : N) (a : talloc) : talloc := set_conns a (filter (fun c => negb (tc_id c =? cid)%N) (ta_conns a)).

Definition tstep (s : tstate) (e : tevent) : tstate * list taction :=
  let upd l := {| tnow := tnow s; tallocs := l; tlocked := tlocked s |} in
  match e with
  | TAlloc c u r =>
      match tfind c (tallocs s) with
      | Some _ => (s, [])
      | None => (upd (tallocs s ++ [{| ta_client := c; ta_user := u; ta_relay := r; ta_perms := []; ta_conns := [] |}]), [])
      end
  | TPerm c i =>
      match tfind c (tallocs s) with
      | Some a => (upd (treplace {| ta_client := c; ta_user := ta_user a; ta_relay := ta_relay a;
                                    ta_perms := i :: ta_perms a; ta_conns := ta_conns a |} (tallocs s)), [])
      | None => (s, [])
      end
  | TEnd c =>
      match tfind c (tallocs s) with
      | Some a => (upd (tremove c (tallocs s)),
                   flat_map (fun x => TPeerClosed (ta_relay a) (tc_peer x) ::
                                      match tc_data x with Some d => [TDataClosed d] | None => [] end) (ta_conns a))
      | None => (s, [])
      end
  | TConnect c tid au peer vetoed dial_ok cid =>
      match au with
      | None => (s, [TError c MConnect tid 401])          (* unauthenticated: challenged (C03) *)
      | Some u =>
          match tfind c (tallocs s) with
          | None => (s, [])
          | Some a =>
              if negb (ta_user a =? u)%N then (s, []) else
              match peer with
              | None => (s, [TError c MConnect tid 400])
              | Some p =>
                  if vetoed then (s, [TError c MConnect tid 403])
                  else if (port p =? 0)%N then (s, [])
                  else if tlocked s then (s, [TBlocked])
                  else if has_conn_peer p a then (s, [TError c MConnect tid 446])      (* and the manager keeps serving *)
                  else if negb dial_ok then (s, [TError c MConnect tid 447])
                  else if has_conn_id cid (tallocs s) then (s, [TPeerClosed (ta_relay a) p])   (* id collision: no reply, connection dropped *)
                  else
                    let x := {| tc_id := cid; tc_peer := p; tc_bound := false; tc_dl := tnow s + bind_timeout; tc_data := None |} in
                    (upd (treplace (set_conns a (ta_conns a ++ [x])) (tallocs s)), [TSuccess c MConnect tid (Some cid)])
              end
          end
      end
  | TPeerConn relay p cid =>
      match tfind_relay relay (tallocs s) with
      | None => (s, [])
      | Some a =>
          if negb (existsb (N.eqb (ip p)) (ta_perms a)) then (s, [TPeerClosed relay p])
          else if tlocked s then (s, [TBlocked])
          else if has_conn_id cid (tallocs s) || has_conn_peer p a then (s, [TPeerClosed relay p])
          else
            let x := {| tc_id := cid; tc_peer := p; tc_bound := false; tc_dl := tnow s + bind_timeout; tc_data := None |} in
            (upd (treplace (set_conns a (ta_conns a ++ [x])) (tallocs s)), [TAttempt (ta_client a) p cid])
      end
  | TConnBind dc tid au cid =>
      match au with
      | None => (s, [TBindError dc tid 401])
      | Some u =>
          match cid with
          | None => (s, [TBindError dc tid 400])
          | Some k =>
              if tlocked s then (s, [TBlocked]) else
              match owner_of k (tallocs s) with
              | None => (s, [TBindError dc tid 400])
              | Some (a, x) =>
                  if negb (ta_user a =? u)%N || tc_bound x then (s, [TBindError dc tid 400])
                  else
                    let x' := {| tc_id := k; tc_peer := tc_peer x; tc_bound := true; tc_dl := tc_dl x; tc_data := Some dc |} in
                    (upd (treplace (set_conns a (map (fun y => if (tc_id y =? k)%N then x' else y) (ta_conns a))) (tallocs s)),
                     [TBindSuccess dc tid k])
              end
          end
      end
  | TData cid from_client d =>
      match owner_of cid (tallocs s) with
      | Some (_, x) => if tc_bound x then (s, [TDeliver cid (negb from_client) d]) else (s, [])
      | None => (s, [])
      end
  | TCloseSide cid client_side =>
      match owner_of cid (tallocs s) with
      | Some (a, x) =>
          if tc_bound x then
            (upd (treplace (drop_conn cid a) (tallocs s)),
             (if client_side then [TPeerClosed (ta_relay a) (tc_peer x)]
              else match tc_data x with Some d => [TDataClosed d] | None => [] end))
          else (s, [])
      | None => (s, [])
      end
  | TTick dt =>
      let t := tnow s + Z.max 0 dt in
      let expired (x : tconn) := negb (tc_bound x) && (tc_dl x <=? t) in
      ({| tnow := t;
          tallocs := map (fun a => set_conns a (filter (fun x => negb (expired x)) (ta_conns a))) (tallocs s);
          tlocked := tlocked s |},
       flat_map (fun a => map (fun x => TPeerClosed (ta_relay a) (tc_peer x)) (filter expired (ta_conns a))) (tallocs s))
  end.

Definition tinit : tstate := {| tnow := 0; tallocs := []; tlocked := false |}.

Fixpoint trun (s : tstate) (h : list tevent) : tstate * list (list taction) :=
  match h with
  | [] => (s, [])
  | e :: r => let '(s1, a) := tstep s e in let '(s2, as_) := trun s1 r in (s2, a :: as_)
  end.
