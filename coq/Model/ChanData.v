(* Model of internal/proto/chandata.go and chann.go (ChannelData framing). *)
From Turn Require Export Bytes.
Open Scope N_scope.

Definition min_chan : N := 16384.  (* 0x4000 *)
Definition max_chan : N := 32767.  (* 0x7FFF *)
Definition valid_chan (n : N) : bool := (min_chan <=? n) && (n <=? max_chan).

(* ChannelData.Encode: Raw = number(2) | uint16(len Data)(2) | Data | zero padding to 4 *)
Definition cd_header (n : N) (d : bytes) : bytes := enc16 (u16 n) ++ enc16 (u16 (lenN d)).
Definition cd_padlen (d : bytes) : nat := N.to_nat (pad4 (4 + lenN d) - (4 + lenN d)).
Definition cd_encode (n : N) (d : bytes) : bytes := cd_header n d ++ d ++ zeros (cd_padlen d).

Inductive cd_err := CdEOF | CdBadNumber | CdBadLength.
Inductive cd_res := CdOk (n : N) (d : bytes) | CdErr (e : cd_err).

(* ChannelData.Decode *)
Definition cd_decode (b : bytes) : cd_res :=
  match b with
  | b0 :: b1 :: b2 :: b3 :: rest =>
      let num := be16 b0 b1 in
      let l := be16 b2 b3 in
      if negb (valid_chan num) then CdErr CdBadNumber
      else if lenN rest <? l then CdErr CdBadLength
      else CdOk num (firstn (N.to_nat l) rest)
  | _ => CdErr CdEOF
  end.

(* IsChannelData *)
Definition is_channel_data (b : bytes) : bool :=
  match b with
  | b0 :: b1 :: b2 :: b3 :: rest =>
      if lenN rest <? be16 b2 b3 then false else valid_chan (be16 b0 b1)
  | _ => false
  end.
