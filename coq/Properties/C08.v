(* C08 — channel bindings form a one-to-one map within the valid number range. *)
From Turn Require Import Bytes ChanData Relay RelayBase RelayInv RelayGates RelayLocal RelayMore.
Open Scope Z_scope.

(* at every moment, within every allocation: numbers pairwise distinct, peers pairwise distinct,
   every number in 0x4000..0x7FFF *)
Theorem C08_bijection_and_range : forall cfg ep h a,
  In a (allocs (final cfg (init ep) h)) ->
  NoDup (map c_num (a_chans a)) /\ NoDup (map c_peer (a_chans a)) /\
  (forall c, In c (a_chans a) -> valid_chan (c_num c) = true).
Proof. exact bijection_and_range. Qed.
Print Assumptions C08_bijection_and_range.

(* numbers emitted in ChannelData toward the client are bound numbers, hence in range *)
Theorem C08_emitted_numbers_in_range : forall cfg ep h relay from d s' acts dst n x,
  step cfg (final cfg (init ep) h) (EPeer relay from d) = (s', acts) -> In (ChanDataOut dst n x) acts ->
  valid_chan n = true.
Proof. exact emitted_numbers_in_range. Qed.
Print Assumptions C08_emitted_numbers_in_range.

(* a ChannelBind that would bind a bound number to another peer, or a bound peer to another number,
   is answered with an error (400 when nothing else is wrong with it) and changes nothing *)
Theorem C08_conflict_rejected : forall cfg s src tid uid n p a,
  owned_alloc s src uid = Some a ->
  ((exists c, find_chan_num n (a_chans a) = Some c /\ c_peer c <> p) \/
   (exists c, find_chan_peer p (a_chans a) = Some c /\ c_num c <> n)) ->
  exists code, h_channel_bind cfg s src tid uid (APresent n) (Some (PeerOk p)) = (s, [Error src MChannelBind tid code false])
     /\ (valid_chan n = true -> ip_matches_family (ip p) (a_fam a) = true -> cfg_policy cfg src (ip p) = true -> code = 400%N).
Proof. exact channel_bind_conflict. Qed.
Print Assumptions C08_conflict_rejected.

(* repeating an existing binding succeeds, keeps the map as it is and restarts both timers *)
Theorem C08_same_binding_refreshes : forall cfg s src tid uid n p a c,
  owned_alloc s src uid = Some a -> alloc_ok cfg a ->
  find_chan_num n (a_chans a) = Some c -> c_peer c = p ->
  exists s' evs a', h_channel_bind cfg s src tid uid (APresent n) (Some (PeerOk p)) = (s', evs ++ [Success src MChannelBind tid []]) /\
    Forall is_life evs /\
    allocs s' = replace_alloc a' (allocs s) /\ a_client a' = a_client a /\
    find_perm (ip p) (a_perms a') = Some {| p_ip := ip p; p_dl := now s + cfg_perm_timeout cfg |} /\
    map (fun c => (c_num c, c_peer c)) (a_chans a') = map (fun c => (c_num c, c_peer c)) (a_chans a) /\
    (forall c', In c' (a_chans a') -> c_num c' = n -> c_dl c' = now s + cfg_chan_timeout cfg).
Proof. exact channel_bind_same. Qed.
Print Assumptions C08_same_binding_refreshes.

(* a number outside the range is rejected for all 65536 values (and beyond) *)
Theorem C08_out_of_range_rejected : forall cfg s src tid uid n p a,
  owned_alloc s src uid = Some a -> valid_chan n = false ->
  h_channel_bind cfg s src tid uid (APresent n) (Some (PeerOk p)) = (s, [Error src MChannelBind tid 400%N false]).
Proof. exact out_of_range_rejected. Qed.
Print Assumptions C08_out_of_range_rejected.

(* ---------- history level ---------- *)
From Turn Require Import Common RelayCheck RelayProps RelayTrace RelayTime RelayTime7 RelayTrace2.
(* the predicate evaluated on the implementation's observed traces (chk_C08: bindings one-to-one and in range after every
   step, ChannelData numbers in range, a conflicting or out-of-range ChannelBind that is answered is answered by an error
   and changes nothing; and "repeating an existing binding refreshes it": a binding exists exactly until one channel
   timeout after the last successful ChannelBind for it, chk_C07; and emission: every ChannelData toward the client
   carries a number bound, when the datagram arrived, to exactly the peer it came from, chk_C08_emit) holds on every trace of the model with positive
   timeouts and a default lifetime in whole seconds *)
Theorem C08_predicate_holds_on_every_model_trace : forall cfg ep h,
  cfg_seconds cfg -> cfg_positive cfg -> chk_C08 (model_case cfg ep h) = true.
Proof. exact chk_C08_full_model. Qed.
Print Assumptions C08_predicate_holds_on_every_model_trace.
