From Turn Require Import Bytes ChanData Framer ConstsGen.
Open Scope Z_scope.
(* the framer's sizes: 20-byte STUN header, 4-byte ChannelData header, padding to 4 *)
Theorem C10_const_stun_header : src_proto_stunHeaderSize = 20 /\ src_client_stunHeaderSize = 20.
Proof. split; reflexivity. Qed.
Theorem C10_const_chandata_header : src_proto_channelDataHeaderSize = 4.
Proof. reflexivity. Qed.
Theorem C10_const_padding : src_proto_padding = 4.
Proof. reflexivity. Qed.
