From Turn Require Import Bytes Relay ConstsGen.
Open Scope Z_scope.
Theorem C06_const_max_lifetime : src_server_maximumAllocationLifetime = max_lifetime.
Proof. reflexivity. Qed.
