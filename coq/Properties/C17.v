(* C17 — time-windowed shared-secret credentials validate iff authentic and unexpired.
   HMAC-SHA1, base64 and the MD5 long-term key are symbolic (the theorems hold for every
   interpretation; the forgery theorem assumes they are collision-free). *)
From Turn Require Import Bytes LtCred LtCredP.
Open Scope Z_scope.

Theorem C17_decimal_roundtrip : forall z, - (int_max + 1) <= z <= int_max -> atoi (format_int z) = Some z.
Proof. exact atoi_format. Qed.
Print Assumptions C17_decimal_roundtrip.
Theorem C17_atoi_rejects_empty : atoi [] = None.
Proof. exact atoi_empty. Qed.
Print Assumptions C17_atoi_rejects_empty.
Theorem C17_atoi_rejects_non_digits : forall b, existsb (fun c => negb (is_digit c)) (after_sign b) = true -> atoi b = None.
Proof. exact atoi_nondigit. Qed.
Print Assumptions C17_atoi_rejects_non_digits.

(* NewLongTermAuthHandler accepts what GenerateLongTermCredentials produced at every instant whose
   unix second is <= the expiry second and at no later instant, for every secret, realm and duration
   (zero and negative included); the key is the long-term key of (username, realm, password) *)
Theorem C17_plain_accept_iff : forall tag key hmac b64 md5key now dur secret realm now',
  in_int_range (unix (now + dur)) ->
  let '(u, pw) := gen_plain tag hmac b64 now dur secret in
  handler_plain tag key hmac b64 md5key now' secret u realm =
    if unix now' <=? unix (now + dur) then Some (u, md5key u realm pw) else None.
Proof. exact plain_accept_iff. Qed.
Print Assumptions C17_plain_accept_iff.

(* the TURN REST pair likewise; the user id is the text between the first and the second colon *)
Theorem C17_rest_accept_iff : forall tag key hmac b64 md5key now dur secret user realm now',
  in_int_range (unix (now + dur)) ->
  let '(u, pw) := gen_rest tag hmac b64 now dur secret user in
  handler_rest tag key hmac b64 md5key now' secret u realm =
    if unix now' <=? unix (now + dur) then Some (hd [] (fields user), md5key u realm pw) else None.
Proof. exact rest_accept_iff. Qed.
Print Assumptions C17_rest_accept_iff.

Theorem C17_plain_non_numeric_rejected : forall tag key hmac b64 md5key now secret username realm,
  atoi username = None -> handler_plain tag key hmac b64 md5key now secret username realm = None.
Proof. exact plain_non_numeric_rejected. Qed.
Print Assumptions C17_plain_non_numeric_rejected.
Theorem C17_rest_non_numeric_rejected : forall tag key hmac b64 md5key now secret username realm,
  atoi (hd [] (fields username)) = None -> handler_rest tag key hmac b64 md5key now secret username realm = None.
Proof. exact rest_non_numeric_rejected. Qed.
Print Assumptions C17_rest_non_numeric_rejected.
Theorem C17_expired_rejected : forall tag key hmac b64 md5key now secret username realm t,
  atoi username = Some t -> t < unix now -> handler_plain tag key hmac b64 md5key now secret username realm = None.
Proof. exact plain_expired_rejected. Qed.
Print Assumptions C17_expired_rejected.

(* a password derived from another secret or another username yields another key (so the request's
   MESSAGE-INTEGRITY does not verify, C03), assuming HMAC, base64 and MD5 key derivation are injective *)
Theorem C17_forgery : forall tag key (hmac : bytes -> bytes -> tag) (b64 : tag -> bytes) (md5key : bytes -> bytes -> bytes -> key),
  (forall s m s' m', hmac s m = hmac s' m' -> s = s' /\ m = m') ->
  (forall a b, b64 a = b64 b -> a = b) ->
  (forall u r p u' r' p', md5key u r p = md5key u' r' p' -> u = u' /\ r = r' /\ p = p') ->
  forall now secret username realm uid k secret' username',
  handler_plain tag key hmac b64 md5key now secret username realm = Some (uid, k) ->
  (secret', username') <> (secret, username) ->
  k <> md5key username realm (password_of tag hmac b64 secret' username').
Proof. exact forged_password_gives_other_key. Qed.
Print Assumptions C17_forgery.
