(* C02 — only peers a client authorised can reach it through its relayed address. *)
From Turn Require Import Bytes ChanData Relay RelayBase RelayInv RelayGates RelayLocal RelayMore.
Open Scope Z_scope.

(* A datagram at a relayed address changes no state and is either dropped silently (no action at all,
   so no client receives anything because of it) or forwarded to the OWNER of that relayed address
   only: as ChannelData on the number bound to the sender's exact transport address, else as a Data
   indication when a permission for the sender's IP exists. *)
Theorem C02_inbound_gate : forall cfg s relay from d s' acts,
  step cfg s (EPeer relay from d) = (s', acts) ->
  s' = s /\
  (acts = [] \/
   exists a, find_relay relay (allocs s) = Some a /\ a_proto a = 17%N /\ (lenN d <= rtp_mtu)%N /\
     ((exists c, find_chan_peer from (a_chans a) = Some c /\ acts = [ChanDataOut (a_client a) (c_num c) d]) \/
      (find_chan_peer from (a_chans a) = None /\ exists pm, find_perm (ip from) (a_perms a) = Some pm /\
         acts = [DataInd (a_client a) from d]))).
Proof. intros cfg s relay from d s' acts. exact (h_peer_spec s relay from d s' acts). Qed.
Print Assumptions C02_inbound_gate.

(* Relayed data reaches a client only as the effect of a datagram at a relayed address. *)
Theorem C02_only_peer_traffic_is_delivered : forall cfg s e s' acts,
  step cfg s e = (s', acts) ->
  (exists dst p d, In (DataInd dst p d) acts) \/ (exists dst n d, In (ChanDataOut dst n d) acts) ->
  exists relay from d, e = EPeer relay from d.
Proof. exact to_client_data_only_from_peer. Qed.
Print Assumptions C02_only_peer_traffic_is_delivered.

(* what is present is unexpired: permissions, bindings and allocations leave the state at their deadline *)
Theorem C02_present_is_unexpired : forall cfg ep h, cfg_positive cfg ->
  Forall (alloc_live (now (final cfg (init ep) h))) (allocs (final cfg (init ep) h)).
Proof. exact present_is_unexpired. Qed.
Print Assumptions C02_present_is_unexpired.

(* no allocation at that relayed address: nothing happens *)
Theorem C02_no_allocation_no_delivery : forall cfg s relay from d,
  find_relay relay (allocs s) = None -> step cfg s (EPeer relay from d) = (s, []).
Proof. exact gone_is_gone_relay. Qed.
Print Assumptions C02_no_allocation_no_delivery.

Example C02_nonvacuous :
  let cfg := Build_config 1 (600 * sec) (300 * sec) (600 * sec) 1600 false LV4 10 20 true
               (fun u r => Some (u, 7%N)) (fun _ _ => true) (fun _ _ _ => true) in
  let cr := Build_cred (Some 7%N) true (NonceMinted 100) (Some 1%N) (Some 1%N) in
  let c := {| ip := 281470698520578; port := 5000 |} in
  let r := {| ip := 10; port := 49152 |} in
  let p := {| ip := 281470698652161; port := 7000 |} in
  let p' := {| ip := 281470698652161; port := 7001 |} in   (* same IP, other port *)
  let q := {| ip := 281470698652162; port := 7000 |} in
  snd (run cfg (init 100)
    [EReq c 1 cr (RqAllocate (APresent 17%N) AAbsent AAbsent false (Some 49152%N) false AAbsent 0%N) false;
     EReq c 2 cr (RqChannelBind (APresent 16384%N) (Some (PeerOk p))) false;
     EPeer r p [9]%N; EPeer r p' [9]%N; EPeer r q [9]%N;
     ETick (301 * sec); EPeer r p' [9]%N; EPeer r p [9]%N;
     ETick (300 * sec); EPeer r p [9]%N])
  = [ [Life (LAllocCreated c 1 r); Success c MAllocate 1 [SRelayed r; SLifetime 600; SMapped c]];
      [Life (LPermCreated c 281470698652161); Life (LChanCreated c p 16384); Success c MChannelBind 2 []];
      [ChanDataOut c 16384 [9]%N]; [DataInd c p' [9]%N]; [];
      [Life (LPermDeleted c 281470698652161)]; []; [ChanDataOut c 16384 [9]%N];
      [Life (LChanDeleted c p 16384); Life (LAllocDeleted c 1)]; [] ].
Proof. vm_compute. reflexivity. Qed.

(* ---------- history level ---------- *)
From Turn Require Import Common RelayCheck RelayProps RelayTrace.
(* the predicate evaluated on the implementation's observed traces (chk_C02_gate) holds on every trace of the model *)
Theorem C02_predicate_holds_on_every_model_trace : forall cfg ep h, chk_C02_gate (model_case cfg ep h) = true.
Proof. exact chk_C02_gate_model. Qed.
Print Assumptions C02_predicate_holds_on_every_model_trace.

(* C02 in full on every model trace (chk_C02 = gate && chk_C06 && chk_C07) *)
From Turn Require Import RelayTime RelayTime7 RelayTrace2.
Theorem C02_full_predicate_holds_on_every_model_trace : forall cfg ep h,
  cfg_seconds cfg -> cfg_positive cfg -> chk_C02 (model_case cfg ep h) = true.
Proof. exact chk_C02_full_model. Qed.
Print Assumptions C02_full_predicate_holds_on_every_model_trace.
