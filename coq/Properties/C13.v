(* C13 — the client's relayed socket honours the PacketConn contract over TURN. *)
From Turn Require Import Bytes ChanData Relay ClientConn ClientConnP.
Open Scope Z_scope.

(* everything one WriteTo puts on the wire: data (a Send indication to exactly that peer, or ChannelData)
   carries exactly the payload, goes out only when a permission for the peer's IP exists - either from
   before or because this very call's CreatePermission succeeded - and never after Close; ChannelData
   only on the number of a binding of exactly that peer that is in a usable state *)
Theorem C13_write : forall s p d reacts s' o,
  cstep s (CWrite p d reacts) = (s', o) -> Forall (wire_ok s s' p d reacts) (o_wire o).
Proof. exact write_spec. Qed.
Print Assumptions C13_write.

(* permissions appear only through a CreatePermission that succeeded *)
Theorem C13_permissions_only_by_success : forall s e s' o i,
  cstep s e = (s', o) -> has_perm i s' = true -> has_perm i s = true \/
    exists p d reacts, e = CWrite p d reacts /\ i = ip p /\ fst (perm_attempts 3 reacts) = true.
Proof. exact perms_grow_only_by_success. Qed.
Print Assumptions C13_permissions_only_by_success.

(* over every history of calls, server reactions, inbound traffic and timer firings: ChannelData toward p
   on n is sent only after the server answered a ChannelBind for p with success, n being p's number *)
Theorem C13_channeldata_only_after_confirmation : forall h p d reacts o n x,
  let s := fst (crun cinit h) in
  cstep s (CWrite p d reacts) = (fst (cstep s (CWrite p d reacts)), o) -> In (WChanData n x) (o_wire o) ->
  In (CBindReact p BOk) h /\ exists b, find_bind p (k_binds s) = Some b /\ b_num b = n /\ x = d.
Proof. exact chandata_only_after_confirmation. Qed.
Print Assumptions C13_channeldata_only_after_confirmation.

(* every peer gets its own channel number in 0x4000-0x7FFF (distinct for up to 16384 peers) *)
Theorem C13_numbers : forall h,
  let s := fst (crun cinit h) in
  (forall b, In b (k_binds s) -> valid_chan (b_num b) = true) /\
  ((N.of_nat (length (k_binds s)) <= 16384)%N -> NoDup (map b_num (k_binds s))) /\
  NoDup (map b_peer (k_binds s)).
Proof. exact numbers_in_range_and_distinct. Qed.
Print Assumptions C13_numbers.

(* ReadFrom returns what was relayed, in order, with the peer named in the Data indication or bound to
   the channel; an unknown channel is an error and queues nothing *)
Theorem C13_read_fifo : forall s from d r, k_q s = (from, d) :: r ->
  cstep s CRead = (upd s (k_perms s) (k_binds s) (k_next s) r, {| o_wire := []; o_ret := RRead from d |}).
Proof. exact read_is_fifo. Qed.
Print Assumptions C13_read_fifo.
Theorem C13_channel_attribution : forall s n d b,
  find_bind_num n (k_binds s) = Some b -> (length (k_q s) < queue_cap)%nat ->
  k_q (fst (cstep s (CInChan n d))) = k_q s ++ [(b_peer b, d)].
Proof. exact known_channel_attributed_to_bound_peer. Qed.
Print Assumptions C13_channel_attribution.
Theorem C13_unknown_channel : forall s n d,
  find_bind_num n (k_binds s) = None -> cstep s (CInChan n d) = (s, {| o_wire := []; o_ret := RInErr |}).
Proof. exact unknown_channel_is_error. Qed.
Print Assumptions C13_unknown_channel.

(* deadlines and Close *)
Theorem C13_read_deadline_and_close : forall s, k_q s = [] ->
  o_ret (snd (cstep s CRead)) =
    if k_closed s then RErrClosed
    else match k_rd s with Some t => if t <=? k_now s then RTimeout else RNone | None => RNone end.
Proof. exact read_empty. Qed.
Print Assumptions C13_read_deadline_and_close.
Theorem C13_write_after_close : forall s p d reacts, k_closed s = true ->
  cstep s (CWrite p d reacts) = (s, {| o_wire := []; o_ret := RErrClosed |}).
Proof. exact write_after_close. Qed.
Print Assumptions C13_write_after_close.

(* a slow or absent reader never blocks the inbound path: the step always completes, emits nothing,
   and the queue stays within its bound (excess is dropped) *)
Theorem C13_inbound_never_blocks : forall s e s' o,
  match e with CInData _ _ | CInChan _ _ => True | _ => False end ->
  cstep s e = (s', o) ->
  (length (k_q s) <= queue_cap)%nat -> (length (k_q s') <= queue_cap)%nat /\ o_wire o = [] /\
  (k_q s' = k_q s \/ exists x, k_q s' = k_q s ++ [x]).
Proof. exact inbound_never_blocks_and_is_bounded. Qed.
Print Assumptions C13_inbound_never_blocks.
