(* C13 — the client's relayed socket honours the PacketConn contract over TURN. *)
From Turn Require Import Bytes ChanData Relay ClientConn ClientConnP.
Open Scope Z_scope.

(* everything one WriteTo puts on the wire: data (a Send indication to exactly that peer, or ChannelData)
   carries exactly the payload, goes out only when a permission for the peer's IP exists - either from
   before or because this very call's CreatePermission succeeded - and never after Close; ChannelData
   only on the number of a binding of exactly that peer that is in a usable state *)
Theorem C13_write : forall s p d reacts s' o,
  cstep s (CWrite p d reacts) = (s', o) -> Forall (wire_ok s s' p d reacts) (o_wire o).
Proof. exact write_spec. Qed.
Print Assumptions C13_write.

(* permissions appear only through a CreatePermission that succeeded *)
Theorem C13_permissions_only_by_success : forall s e s' o i,
  cstep s e = (s', o) -> has_perm i s' = true -> has_perm i s = true \/
    exists p d reacts, e = CWrite p d reacts /\ i = ip p /\ fst (perm_attempts 3 reacts) = true.
Proof. exact perms_grow_only_by_success. Qed.
Print Assumptions C13_permissions_only_by_success.

(* over every history of calls, server reactions, inbound traffic and timer firings: ChannelData toward p
   on n is sent only after the server answered a ChannelBind for p with success, n being p's number *)
Theorem C13_channeldata_only_after_confirmation : forall h p d reacts o n x,
  let s := fst (crun cinit h) in
  cstep s (CWrite p d reacts) = (fst (cstep s (CWrite p d reacts)), o) -> In (WChanData n x) (o_wire o) ->
  In (CBindReact p BOk) h /\ exists b, find_bind p (k_binds s) = Some b /\ b_num b = n /\ x = d.
Proof. exact chandata_only_after_confirmation. Qed.
Print Assumptions C13_channeldata_only_after_confirmation.

(* every peer gets its own channel number in 0x4000-0x7FFF (distinct for up to 16384 peers) *)
Theorem C13_numbers : forall h,
  let s := fst (crun cinit h) in
  (forall b, In b (k_binds s) -> valid_chan (b_num b) = true) /\
  ((N.of_nat (length (k_binds s)) <= 16384)%N -> NoDup (map b_num (k_binds s))) /\
  NoDup (map b_peer (k_binds s)).
Proof. exact numbers_in_range_and_distinct. Qed.
Print Assumptions C13_numbers.

(* ReadFrom returns what was relayed, in order, with the peer named in the Data indication or bound to
   the channel; an unknown channel is an error and queues nothing *)
Theorem C13_read_fifo : forall s from d r, k_q s = (from, d) :: r ->
  cstep s CRead = (upd s (k_perms s) (k_binds s) (k_next s) r, {| o_wire := []; o_ret := RRead from d |}).
Proof. exact read_is_fifo. Qed.
Print Assumptions C13_read_fifo.
Theorem C13_channel_attribution : forall s n d b,
  find_bind_num n (k_binds s) = Some b -> (length (k_q s) < queue_cap)%nat ->
  k_q (fst (cstep s (CInChan n d))) = k_q s ++ [(b_peer b, d)].
Proof. exact known_channel_attributed_to_bound_peer. Qed.
Print Assumptions C13_channel_attribution.
Theorem C13_unknown_channel : forall s n d,
  find_bind_num n (k_binds s) = None -> cstep s (CInChan n d) = (s, {| o_wire := []; o_ret := RInErr |}).
Proof. exact unknown_channel_is_error. Qed.
Print Assumptions C13_unknown_channel.

(* deadlines and Close *)
Theorem C13_read_deadline_and_close : forall s, k_q s = [] ->
  o_ret (snd (cstep s CRead)) =
    if k_closed s then RErrClosed
    else match k_rd s with Some t => if t <=? k_now s then RTimeout else RNone | None => RNone end.
Proof. exact read_empty. Qed.
Print Assumptions C13_read_deadline_and_close.
Theorem C13_write_after_close : forall s p d reacts, k_closed s = true ->
  cstep s (CWrite p d reacts) = (s, {| o_wire := []; o_ret := RErrClosed |}).
Proof. exact write_after_close. Qed.
Print Assumptions C13_write_after_close.

(* a slow or absent reader never blocks the inbound path: the step always completes, emits nothing,
   and the queue stays within its bound (excess is dropped) *)
Theorem C13_inbound_never_blocks : forall s e s' o,
  match e with CInData _ _ | CInChan _ _ => True | _ => False end ->
  cstep s e = (s', o) ->
  (length (k_q s) <= queue_cap)%nat -> (length (k_q s') <= queue_cap)%nat /\ o_wire o = [] /\
  (k_q s' = k_q s \/ exists x, k_q s' = k_q s ++ [x]).
Proof. exact inbound_never_blocks_and_is_bounded. Qed.
Print Assumptions C13_inbound_never_blocks.

(* ---------- history level ---------- *)
From Turn Require Import Common RelayCheck C13Check ClientConnTrace.
(* The whole predicate that the correspondence check evaluates on every observed trace of the real relayed socket
   (C13Check: a Send indication or ChannelData leaves only for the peer of the WriteTo that caused it, and only when a
   CreatePermission for that peer's IP has been answered with success; ChannelData only on a number the server
   confirmed for that very peer; every ChannelBind carries a number in 0x4000-0x7FFF that is this peer's own and
   nobody else's; payloads are unmodified; ReadFrom returns the relayed payloads in arrival order, attributed to the
   source of the Data indication or to the peer of the channel; ChannelData on an unknown number is an error) holds on
   EVERY trace of Model/ClientConn.v in which at most 16384 peers are written to - the size of the channel number space;
   with more peers the implementation recycles numbers exactly as the model does - and the runner accepts that trace. *)
Theorem C13_holds_on_every_model_trace : forall h,
  (N.of_nat (length (k_binds (fst (crun cinit h)))) <= 16384)%N -> C13Check.run (cmodel_case h) = (true, true).
Proof. exact c13_run_on_model. Qed.
Print Assumptions C13_holds_on_every_model_trace.

(* the hypothesis is satisfiable by a history exercising permission retry, binding, confirmation, ChannelData, inbound
   data on both paths, an unknown channel, reads and Close *)
Example C13_trace_example :
  let p := A 7 80 in let q := A 8 81 in
  let h := [CWrite p [1; 2]%N [PStale; POk]; CBindReact p BOk; CWrite p [3]%N []; CInData q [9]%N; CInChan 16384 [8]%N;
            CInChan 20000 [7]%N; CRead; CRead; CRead; CWrite q [4]%N [PErr 403]; CClose; CWrite p [5]%N []] in
  (N.of_nat (length (k_binds (fst (crun cinit h)))) <= 16384)%N /\
  map (fun o => (co_wire o, co_ret o)) (match cmodel_case h with CC l => l | _ => [] end) =
  [([WCreatePerm [7%N]; WCreatePerm [7%N]; WChannelBind 16384 p; WSend p [1; 2]%N], RWrote 2);
   ([], RNone); ([WChanData 16384 [3]%N], RWrote 1); ([], RNone); ([], RNone); ([], RInErr);
   ([], RRead q [9]%N); ([], RRead p [8]%N); ([], RNone); ([WCreatePerm [8%N]], RErrPerm); ([WRefresh0], RNone); ([], RErrClosed)].
Proof. cbv zeta. split; [vm_compute; discriminate|vm_compute; reflexivity]. Qed.
