(* C16 — TCP relay: peer connections bind once, to their owner, and pipe bytes intact. *)
From Turn Require Import Bytes Relay TcpRelay TcpRelayP.
Open Scope Z_scope.

(* a Connect success names an id no existing connection of any allocation has, for a connection really
   dialled from this allocation (dial succeeded, peer not vetoed, requester is the allocation's user) *)
Theorem C16_connect_id_is_new_and_real : forall s c tid au peer v dial cid s' acts dst tid' k,
  tstep s (TConnect c tid au peer v dial cid) = (s', acts) -> In (TSuccess dst MConnect tid' (Some k)) acts ->
  k = cid /\ has_conn_id cid (tallocs s) = false /\ dial = true /\ v = false /\
  exists a p, tfind c (tallocs s) = Some a /\ au = Some (ta_user a) /\ peer = Some p /\ has_conn_peer p a = false /\
    tallocs s' = treplace (set_conns a (ta_conns a ++ [{| tc_id := cid; tc_peer := p; tc_bound := false; tc_dl := tnow s + bind_timeout; tc_data := None |}])) (tallocs s).
Proof. exact announced_id_is_new_connect. Qed.
Print Assumptions C16_connect_id_is_new_and_real.

(* inbound connections are announced only from peers with a live permission, with a new id *)
Theorem C16_attempt_requires_permission : forall s relay p cid s' acts dst q k,
  tstep s (TPeerConn relay p cid) = (s', acts) -> In (TAttempt dst q k) acts ->
  exists a, tfind_relay relay (tallocs s) = Some a /\ existsb (N.eqb (ip p)) (ta_perms a) = true /\
            dst = ta_client a /\ q = p /\ k = cid /\ has_conn_id cid (tallocs s) = false.
Proof. exact attempt_requires_permission. Qed.
Print Assumptions C16_attempt_requires_permission.

(* bound exactly once, only by the allocation's user *)
Theorem C16_bind_conditions : forall s dc tid au cid s' acts dc' tid' k,
  tstep s (TConnBind dc tid au cid) = (s', acts) -> In (TBindSuccess dc' tid' k) acts ->
  exists u a x, au = Some u /\ cid = Some k /\ dc' = dc /\ tid' = tid /\
    owner_of k (tallocs s) = Some (a, x) /\ ta_user a = u /\ tc_bound x = false.
Proof. exact bind_success_conditions. Qed.
Print Assumptions C16_bind_conditions.
Theorem C16_second_bind_fails : forall s dc tid u k a x,
  tlocked s = false -> owner_of k (tallocs s) = Some (a, x) -> tc_bound x = true ->
  tstep s (TConnBind dc tid (Some u) (Some k)) = (s, [TBindError dc tid 400]).
Proof. exact bound_cannot_bind_again. Qed.
Print Assumptions C16_second_bind_fails.
Theorem C16_wrong_user_cannot_bind : forall s dc tid u k a x,
  tlocked s = false -> owner_of k (tallocs s) = Some (a, x) -> ta_user a <> u ->
  tstep s (TConnBind dc tid (Some u) (Some k)) = (s, [TBindError dc tid 400]).
Proof. exact wrong_user_cannot_bind. Qed.
Print Assumptions C16_wrong_user_cannot_bind.

(* only within 30 s: when its deadline passes an unbound connection is dropped and the peer side closed;
   bound ones and those before their deadline stay *)
Theorem C16_bind_deadline : forall s dt a x, In a (tallocs s) -> In x (ta_conns a) ->
  let t := tnow s + Z.max 0 dt in
  (tc_bound x = false /\ tc_dl x <= t -> In (TPeerClosed (ta_relay a) (tc_peer x)) (snd (tstep s (TTick dt)))) /\
  (tc_bound x = true \/ t < tc_dl x ->
     exists a', In a' (tallocs (fst (tstep s (TTick dt)))) /\ ta_client a' = ta_client a /\ In x (ta_conns a')).
Proof. exact tick_expires_unbound. Qed.
Print Assumptions C16_bind_deadline.

(* once bound, bytes cross unmodified to the other side; nothing crosses an unbound connection *)
Theorem C16_pipe : forall s k fc d s' acts k' toc d',
  tstep s (TData k fc d) = (s', acts) -> In (TDeliver k' toc d') acts ->
  s' = s /\ k' = k /\ toc = negb fc /\ d' = d /\ exists a x, owner_of k (tallocs s) = Some (a, x) /\ tc_bound x = true.
Proof. exact data_only_through_bound_pair. Qed.
Print Assumptions C16_pipe.

(* a second Connect to the same peer is answered 446, changes nothing, and the server keeps serving:
   over every history the manager is never left locked *)
Theorem C16_duplicate_connect_446 : forall s c tid u p a dial cid,
  tlocked s = false -> tfind c (tallocs s) = Some a -> ta_user a = u -> port p <> 0%N -> has_conn_peer p a = true ->
  tstep s (TConnect c tid (Some u) (Some p) false dial cid) = (s, [TError c MConnect tid 446]).
Proof. exact duplicate_connect_446. Qed.
Print Assumptions C16_duplicate_connect_446.
Theorem C16_manager_keeps_serving : forall h s, tlocked s = false -> tlocked (fst (trun s h)) = false.
Proof. exact never_left_locked_run. Qed.
Print Assumptions C16_manager_keeps_serving.
