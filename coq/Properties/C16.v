(* C16 — TCP relay: peer connections bind once, to their owner, and pipe bytes intact. *)
From Turn Require Import Bytes Relay TcpRelay TcpRelayP.
Open Scope Z_scope.

(* a Connect success names an id no existing connection of any allocation has, for a connection really
   dialled from this allocation (dial succeeded, peer not vetoed, requester is the allocation's user) *)
Theorem C16_connect_id_is_new_and_real : forall s c tid au peer v dial cid s' acts dst tid' k,
  tstep s (TConnect c tid au peer v dial cid) = (s', acts) -> In (TSuccess dst MConnect tid' (Some k)) acts ->
  k = cid /\ has_conn_id cid (tallocs s) = false /\ dial = true /\ v = false /\
  exists a p, tfind c (tallocs s) = Some a /\ au = Some (ta_user a) /\ peer = Some p /\ has_conn_peer p a = false /\
    tallocs s' = treplace (set_conns a (ta_conns a ++ [{| tc_id := cid; tc_peer := p; tc_bound := false; tc_dl := tnow s + bind_timeout; tc_data := None |}])) (tallocs s).
Proof. exact announced_id_is_new_connect. Qed.
Print Assumptions C16_connect_id_is_new_and_real.

(* inbound connections are announced only from peers with a live permission, with a new id *)
Theorem C16_attempt_requires_permission : forall s relay p cid s' acts dst q k,
  tstep s (TPeerConn relay p cid) = (s', acts) -> In (TAttempt dst q k) acts ->
  exists a, tfind_relay relay (tallocs s) = Some a /\ existsb (N.eqb (ip p)) (ta_perms a) = true /\
            dst = ta_client a /\ q = p /\ k = cid /\ has_conn_id cid (tallocs s) = false.
Proof. exact attempt_requires_permission. Qed.
Print Assumptions C16_attempt_requires_permission.

(* bound exactly once, only by the allocation's user *)
Theorem C16_bind_conditions : forall s dc tid au cid s' acts dc' tid' k,
  tstep s (TConnBind dc tid au cid) = (s', acts) -> In (TBindSuccess dc' tid' k) acts ->
  exists u a x, au = Some u /\ cid = Some k /\ dc' = dc /\ tid' = tid /\
    owner_of k (tallocs s) = Some (a, x) /\ ta_user a = u /\ tc_bound x = false.
Proof. exact bind_success_conditions. Qed.
Print Assumptions C16_bind_conditions.
Theorem C16_second_bind_fails : forall s dc tid u k a x,
  tlocked s = false -> owner_of k (tallocs s) = Some (a, x) -> tc_bound x = true ->
  tstep s (TConnBind dc tid (Some u) (Some k)) = (s, [TBindError dc tid 400]).
Proof. exact bound_cannot_bind_again. Qed.
Print Assumptions C16_second_bind_fails.
Theorem C16_wrong_user_cannot_bind : forall s dc tid u k a x,
  tlocked s = false -> owner_of k (tallocs s) = Some (a, x) -> ta_user a <> u ->
  tstep s (TConnBind dc tid (Some u) (Some k)) = (s, [TBindError dc tid 400]).
Proof. exact wrong_user_cannot_bind. Qed.
Print Assumptions C16_wrong_user_cannot_bind.

(* only within 30 s: when its deadline passes an unbound connection is dropped and the peer side closed;
   bound ones and those before their deadline stay *)
Theorem C16_bind_deadline : forall s dt a x, In a (tallocs s) -> In x (ta_conns a) ->
  let t := tnow s + Z.max 0 dt in
  (tc_bound x = false /\ tc_dl x <= t -> In (TPeerClosed (ta_relay a) (tc_peer x)) (snd (tstep s (TTick dt)))) /\
  (tc_bound x = true \/ t < tc_dl x ->
     exists a', In a' (tallocs (fst (tstep s (TTick dt)))) /\ ta_client a' = ta_client a /\ In x (ta_conns a')).
Proof. exact tick_expires_unbound. Qed.
Print Assumptions C16_bind_deadline.

(* once bound, bytes cross unmodified to the other side; nothing crosses an unbound connection *)
Theorem C16_pipe : forall s k fc d s' acts k' toc d',
  tstep s (TData k fc d) = (s', acts) -> In (TDeliver k' toc d') acts ->
  s' = s /\ k' = k /\ toc = negb fc /\ d' = d /\ exists a x, owner_of k (tallocs s) = Some (a, x) /\ tc_bound x = true.
Proof. exact data_only_through_bound_pair. Qed.
Print Assumptions C16_pipe.

(* a second Connect to the same peer is answered 446, changes nothing, and the server keeps serving:
   over every history the manager is never left locked *)
Theorem C16_duplicate_connect_446 : forall s c tid u p a dial cid,
  tlocked s = false -> tfind c (tallocs s) = Some a -> ta_user a = u -> port p <> 0%N -> has_conn_peer p a = true ->
  tstep s (TConnect c tid (Some u) (Some p) false dial cid) = (s, [TError c MConnect tid 446]).
Proof. exact duplicate_connect_446. Qed.
Print Assumptions C16_duplicate_connect_446.
Theorem C16_manager_keeps_serving : forall h s, tlocked s = false -> tlocked (fst (trun s h)) = false.
Proof. exact never_left_locked_run. Qed.
Print Assumptions C16_manager_keeps_serving.

(* ---------- history level ---------- *)
From Turn Require Import Common RelayCheck RelayProps C16Check C04TcpCheck TcpIso TcpTrace.
(* The whole predicate that the correspondence check evaluates on every observed trace of the real server
   (C16Check: connection ids are announced once and are new; ConnectionAttempt only for peers with a permission;
   a ConnectionBind succeeds only for an announced id, once, within 30 s of the announcement, by the user of the
   allocation it was announced to; bytes are delivered only through bound pairs, unmodified, to the other side; the
   owner's bind of an open connection within its 30 s succeeds; an unbound connection is gone after 30 s; the manager is
   never wedged; 446 only for a peer this allocation already has; when one side of a bound pair closes the server closes
   the other side - "until either side closes") holds on EVERY trace of Model/TcpRelay.v whose
   connection ids are fresh - cids_fresh: the ids the environment supplies to Connect / inbound-connection events are
   pairwise different (the server draws 32 random bits and retries while the id belongs to a live connection; an id of a
   connection that is gone coming back is the event excluded here) - and the runner accepts that trace. *)
Theorem C16_holds_on_every_model_trace : forall h, cids_fresh [] h -> C16Check.run (tmodel_case h) = (true, true).
Proof. exact c16_run_on_model. Qed.
Print Assumptions C16_holds_on_every_model_trace.

(* the hypothesis is satisfiable by a history that exercises announcement, refusal, bind, data, the deadline and teardown *)
Example C16_trace_example :
  let c1 := A 1 5000 in let c2 := A 2 5000 in let r1 := A 9 49152 in let r2 := A 9 49153 in let p := A 7 80 in
  let h := [TAlloc c1 1 r1; TAlloc c2 2 r2; TPerm c2 7; TConnect c1 11 (Some 1%N) (Some p) false true 100;
            TConnect c1 12 (Some 1%N) (Some p) false true 101; TPeerConn r2 (A 7 81) 102; TPeerConn r2 (A 8 81) 103;
            TConnBind 900 13 (Some 2%N) (Some 100%N); TConnBind 900 14 (Some 1%N) (Some 100%N); TData 100 true [1; 2; 3]%N;
            TTick (31 * sec); TConnBind 901 15 (Some 2%N) (Some 102%N); TCloseSide 100 true; TEnd c2] in
  cids_fresh [] h /\
  map ts_acts (tc_steps (tmodel_case h)) =
  [[]; []; []; [TSuccess c1 MConnect 11 (Some 100%N)]; [TError c1 MConnect 12 446]; [TAttempt c2 (A 7 81) 102];
   [TPeerClosed r2 (A 8 81)]; [TBindError 900 13 400]; [TBindSuccess 900 14 100]; [TDeliver 100 false [1; 2; 3]%N];
   [TPeerClosed r2 (A 7 81)]; [TBindError 901 15 400]; [TPeerClosed r1 p]; []].
Proof. cbv zeta. split; [cbn; intuition discriminate|vm_compute; reflexivity]. Qed.
