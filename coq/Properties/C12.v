(* C12 — client transactions match by ID, retransmit on schedule and always terminate. *)
From Turn Require Import Bytes ClientTx ClientTxP C12Check ClientTxTrace.
Open Scope Z_scope.

(* with no response and every write succeeding, the request is sent 7 times in all: transmission k
   leaves at t0 + (rto + min(2 rto,1.6s) + ...) [k terms] and the error is reported when the seventh
   interval has elapsed; nothing else happens *)
Theorem C12_schedule : forall t0 rto id t, 0 < rto -> send_time t0 rto max_rtx_count <= t ->
  advance (S max_rtx_count) wr_ok t {| t_id := id; t_nrtx := 0; t_int := rto; t_dl := t0 + rto; t_ignore := false |} =
    (None, map (fun j => Sent id j (send_time t0 rto j)) [1;2;3;4;5;6]%nat ++ [Result id RErrAllFailed (send_time t0 rto 7)]).
Proof. exact retransmission_schedule. Qed.
Print Assumptions C12_schedule.

(* whatever the socket and the clock do: never an eighth transmission, every Sent/Result carries the
   transaction's own id, at most one result, and a result ends the transaction *)
Theorem C12_one_transaction : forall fuel wr t x o a, wf_tr x -> advance fuel wr t x = (o, a) ->
  (forall id k at_, In (Sent id k at_) a -> id = t_id x /\ (t_nrtx x < k < max_rtx_count)%nat) /\
  (forall id r at_, In (Result id r at_) a -> id = t_id x /\ o = None /\ t_ignore x = false) /\
  (count_results a <= 1)%nat /\
  (match o with Some x' => t_id x' = t_id x /\ t_ignore x' = t_ignore x /\ count_results a = 0%nat /\ wf_tr x' | None => True end).
Proof. exact advance_shape. Qed.
Print Assumptions C12_one_transaction.

(* it never hangs: for every RTO and every pattern of write outcomes the transaction is over once
   rto + 7 x 1.6 s have passed *)
Theorem C12_always_terminates : forall wr t0 rto ign id t, 0 < rto -> t0 + rto + 7 * max_rtx_interval <= t ->
  fst (advance (S max_rtx_count) wr t {| t_id := id; t_nrtx := 0; t_int := rto; t_dl := t0 + rto; t_ignore := ign |}) = None.
Proof. exact transaction_always_terminates. Qed.
Print Assumptions C12_always_terminates.

(* responses match by transaction id only; the matched transaction leaves the table at once, so
   duplicates and late arrivals change nothing; other transactions are untouched *)
Theorem C12_matching : forall rto wr s id,
  let '(s', a) := step rto wr s (EResp id) in
  find_tr id (trs s') = None /\
  (forall id', id' <> id -> find_tr id' (trs s') = find_tr id' (trs s)) /\
  (find_tr id (trs s) = None -> s' = s /\ a = []) /\
  (forall x, find_tr id (trs s) = Some x -> a = if t_ignore x then [] else [Result id ROk (now s)]).
Proof. exact response_matches_by_id. Qed.
Print Assumptions C12_matching.
Theorem C12_duplicate_ignored : forall rto wr s id,
  let '(s1, _) := step rto wr s (EResp id) in step rto wr s1 (EResp id) = (s1, []).
Proof. exact duplicate_response_ignored. Qed.
Print Assumptions C12_duplicate_ignored.

(* nothing is left behind: Close empties the table, a failed first write leaves nothing, and whoever
   gets a result during a tick is out of the table afterwards *)
Theorem C12_close_empties : forall rto wr s, trs (fst (step rto wr s EClose)) = [].
Proof. exact close_empties. Qed.
Print Assumptions C12_close_empties.
Theorem C12_initial_write_failure : forall rto wr s id ign,
  wr id 0%nat = false -> step rto wr s (EStart id ign) = (s, [Result id RErrWrite (now s)]).
Proof. exact initial_write_failure_leaves_nothing. Qed.
Print Assumptions C12_initial_write_failure.
Theorem C12_finished_not_in_table : forall wr t l l' a, Forall wf_tr l -> advance_all wr t l = (l', a) ->
  forall id r at_, In (Result id r at_) a -> NoDup (map t_id l) -> ~ In id (map t_id l').
Proof. exact advance_all_results. Qed.
Print Assumptions C12_finished_not_in_table.

(* HISTORY LEVEL: the whole predicate that the correspondence check evaluates on every observed trace of
   the real client (C12Check.holds: at most one result per transaction, every transmission on the
   closed-form schedule and never an eighth, a success only for the response with that id, Close empties
   the table, the table never holds more than the started and unfinished transactions) holds on every
   trace of the model - for every RTO, every pattern of socket write outcomes and every event history
   whose transaction ids are fresh (the property's own assumption; starts h lists the ids of EStart) -
   and the runner accepts that trace as agreeing with the model. *)
Theorem C12_holds_on_every_model_trace : forall rto fail h, NoDup (starts h) ->
  C12Check.run (model_case rto fail h) = (true, true).
Proof. exact run_model_case. Qed.
Print Assumptions C12_holds_on_every_model_trace.
