(* C04 — allocations are isolated by 5-tuple. *)
From Turn Require Import Bytes ChanData Relay RelayBase RelayInv RelayGates RelayLocal RelayMore.
Open Scope Z_scope.

(* never more than one allocation per 5-tuple, in every reachable state *)
Theorem C04_unique : forall cfg ep h, NoDup (map a_client (allocs (final cfg (init ep) h))).
Proof. exact unique_per_five_tuple. Qed.
Print Assumptions C04_unique.

(* a request from 5-tuple [src] leaves every other 5-tuple's allocation the very same record
   (lifetime, permissions, channels, cache) and does not move time *)
Theorem C04_request_locality : forall cfg s src tid c r unk s' acts,
  step cfg s (EReq src tid c r unk) = (s', acts) ->
  (forall a, a_client a <> src -> (In a (allocs s) <-> In a (allocs s'))) /\ now s' = now s.
Proof. exact req_locality. Qed.
Print Assumptions C04_request_locality.

(* and everything it causes to be sent goes to [src], carrying its transaction id and method *)
Theorem C04_request_outputs : forall cfg s src tid c r unk s' acts,
  step cfg s (EReq src tid c r unk) = (s', acts) -> Forall (reply_to src (req_method r) tid) acts.
Proof. exact req_reply. Qed.
Print Assumptions C04_request_outputs.

(* Send / ChannelData / peer datagrams change no state at all *)
Theorem C04_data_changes_nothing : forall cfg s e s' acts,
  match e with ESend _ _ _ | EChanData _ _ _ | EPeer _ _ _ => True | _ => False end ->
  step cfg s e = (s', acts) -> s' = s.
Proof. exact data_events_change_nothing. Qed.
Print Assumptions C04_data_changes_nothing.

(* data from [src] can only leave through [src]'s own allocation, from its own relayed address *)
Theorem C04_send_uses_own_allocation : forall cfg s src peer data s' acts r d x,
  step cfg s (ESend src peer data) = (s', acts) -> In (ToPeer r d x) acts ->
  exists a, find_alloc src (allocs s) = Some a /\ r = a_relay a.
Proof. exact send_uses_own_allocation. Qed.
Print Assumptions C04_send_uses_own_allocation.

Theorem C04_chandata_uses_own_allocation : forall cfg s src n dat s' acts r d x,
  step cfg s (EChanData src n dat) = (s', acts) -> In (ToPeer r d x) acts ->
  exists a c, find_alloc src (allocs s) = Some a /\ r = a_relay a /\ find_chan_num n (a_chans a) = Some c /\ d = c_peer c.
Proof. exact chandata_uses_own_allocation. Qed.
Print Assumptions C04_chandata_uses_own_allocation.

(* traffic at a relayed address is delivered only to the client that owns that allocation *)
Theorem C04_peer_traffic_to_owner_only : forall cfg s relay from d s' acts x,
  step cfg s (EPeer relay from d) = (s', acts) -> In x acts ->
  exists a, find_relay relay (allocs s) = Some a /\
    ((exists n, x = ChanDataOut (a_client a) n d) \/ x = DataInd (a_client a) from d).
Proof. exact peer_traffic_to_owner_only. Qed.
Print Assumptions C04_peer_traffic_to_owner_only.

(* ---------- history level ---------- *)
From Turn Require Import Common RelayCheck RelayProps RelayTrace RelayTime RelayTime7 RelayTrace2.
(* the predicate evaluated on the implementation's observed traces (chk_C04) holds on every trace of the model *)
Theorem C04_predicate_holds_on_every_model_trace : forall cfg ep h, chk_C04 (model_case cfg ep h) = true.
Proof. exact chk_C04_model. Qed.
Print Assumptions C04_predicate_holds_on_every_model_trace.

(* ---------- the RFC 6062 (TCP relay) part ---------- *)
From Turn Require Import TcpRelay C16Check C04TcpCheck TcpIso TcpTrace.
(* for every history of Connect / inbound peer connection / ConnectionBind / data / close / tick events over any number of
   TCP allocations: on the trace of Model/TcpRelay.v every Connect answer goes to the 5-tuple that sent the request and
   nothing else produces one, a ConnectionAttempt indication goes to the owner of the relayed address the peer connected
   to, an ending allocation closes peer connections of its own relayed address only, and 446 is justified only by a
   connection this very allocation has had with that peer - another 5-tuple's connections never matter - and a
   ConnectionBind succeeds only for the user of the allocation the connection was announced to (connection ids fresh,
   as for C16). The same predicate is evaluated on the real server's traces by TestVerif_C04TCP. *)
Theorem C04_tcp_isolation_on_every_model_trace : forall h, cids_fresh [] h -> C04TcpCheck.run (tmodel_case h) = (true, true).
Proof. exact tcp_isolation_on_model. Qed.
Print Assumptions C04_tcp_isolation_on_every_model_trace.
