(* C20 — relay address generators honour their configuration. *)
From Turn Require Import Bytes PortRange PortRangeP.
Open Scope N_scope.

(* for all 1 <= MinPort <= MaxPort <= 65535 (incl. MaxPort = 65535 and single-port ranges): the uint16
   arithmetic gives exactly MaxPort-MinPort+1 >= 1 (Intn is never called with 0) ... *)
Theorem C20_count : forall minp maxp, 1 <= minp -> minp <= maxp -> maxp <= 65535 ->
  count16 minp maxp = maxp - minp + 1 /\ 1 <= count16 minp maxp.
Proof. exact count16_exact. Qed.
Print Assumptions C20_count.
(* ... and every port drawn lies inside [MinPort, MaxPort], for every random-source output *)
Theorem C20_in_range : forall minp maxp x, 1 <= minp -> minp <= maxp -> maxp <= 65535 -> x < count16 minp maxp ->
  minp <= pick minp x <= maxp.
Proof. exact pick_in_range. Qed.
Print Assumptions C20_in_range.
(* whatever the retry loop returns was really bound and is in range *)
Theorem C20_loop_sound : forall tries minp maxp, 1 <= minp -> minp <= maxp -> maxp <= 65535 ->
  forall rands bind p, Forall (fun x => x < count16 minp maxp) rands ->
  range_loop tries minp rands bind = Some p -> bind p = true /\ minp <= p <= maxp.
Proof. exact range_loop_sound. Qed.
Print Assumptions C20_loop_sound.
(* it fails cleanly when no drawn port can be bound, after at most MaxRetries attempts *)
Theorem C20_fail_clean : forall tries minp rands bind,
  (forall x, In x rands -> bind (pick minp x) = false) -> range_loop tries minp rands bind = None.
Proof. exact range_loop_fails_clean. Qed.
Print Assumptions C20_fail_clean.
Theorem C20_at_most_max_retries : forall tries minp rands extra bind,
  length rands = tries -> range_loop tries minp (rands ++ extra) bind = range_loop tries minp rands bind.
Proof. exact range_loop_bounded. Qed.
Print Assumptions C20_at_most_max_retries.
(* all three generators: the advertised port is one the OS really bound; a requested port is passed through *)
Theorem C20_advertised_is_bound : forall g rq rands eph bind p, gen_alloc g rq rands eph bind = Some p -> bind p = true.
Proof. exact gen_alloc_bound. Qed.
Print Assumptions C20_advertised_is_bound.
Theorem C20_requested_port_passed_through : forall g rq rands eph bind, rq <> 0 ->
  gen_alloc g rq rands eph bind = if bind rq then Some rq else None.
Proof. exact gen_alloc_requested. Qed.
Print Assumptions C20_requested_port_passed_through.
(* over all allocate/close histories: no two live allocations share a (protocol, family, port),
   PROVIDED the OS refuses to bind a bound port.  (For TCP the listeners are opened with
   SO_REUSEPORT and Linux does not refuse: known finding F12, shown on real sockets by the harness.) *)
Theorem C20_no_sharing : forall g h l, NoDup l -> NoDup (grun g l h).
Proof. intros g h l. exact (no_sharing g h l). Qed.
Print Assumptions C20_no_sharing.
