(* C01 — client data leaves the relay only toward peers that client authorised. *)
From Turn Require Import Bytes ChanData Relay RelayBase RelayInv RelayGates RelayLocal RelayMore.
Open Scope Z_scope.

(* Send indication: the step changes nothing and emits either nothing at all or exactly one datagram,
   from the sender's own relayed address, to the named peer, with the very payload, and only if the
   sender's allocation holds a permission for the peer's IP (which by C01_present_is_unexpired has
   not reached its deadline). *)
Theorem C01_send_gate : forall cfg s src peer data s' acts,
  step cfg s (ESend src peer data) = (s', acts) ->
  s' = s /\
  (acts = [] \/
   exists a p d pm, acts = [ToPeer (a_relay a) p d] /\ peer = Some (PeerOk p) /\ data = Some d /\
     find_alloc src (allocs s) = Some a /\ find_perm (ip p) (a_perms a) = Some pm /\
     a_proto a = 17%N /\ (send_wire_len p d < cfg_mtu cfg)%N).
Proof. exact h_send_spec. Qed.
Print Assumptions C01_send_gate.

(* ChannelData: same, through the binding named in the message. *)
Theorem C01_chandata_gate : forall cfg s src n d s' acts,
  step cfg s (EChanData src n d) = (s', acts) ->
  s' = s /\
  (acts = [] \/
   exists a c, acts = [ToPeer (a_relay a) (c_peer c) d] /\
     find_alloc src (allocs s) = Some a /\ find_chan_num n (a_chans a) = Some c /\
     a_proto a = 17%N /\ (chandata_wire_len d < cfg_mtu cfg)%N).
Proof. exact h_chandata_spec. Qed.
Print Assumptions C01_chandata_gate.

(* No other kind of event ever emits anything toward a peer. *)
Theorem C01_only_send_and_chandata_emit : forall cfg s e s' acts r d x,
  step cfg s e = (s', acts) -> In (ToPeer r d x) acts ->
  (exists src p dat, e = ESend src p dat) \/ (exists src n dat, e = EChanData src n dat).
Proof. exact topeer_only_from_send_or_chandata. Qed.
Print Assumptions C01_only_send_and_chandata_emit.

(* Every permission / binding present in a reachable state is unexpired (expiry is eager). *)
Theorem C01_present_is_unexpired : forall cfg ep h, cfg_positive cfg ->
  Forall (alloc_live (now (final cfg (init ep) h))) (allocs (final cfg (init ep) h)).
Proof. exact present_is_unexpired. Qed.
Print Assumptions C01_present_is_unexpired.

(* In every reachable state, for every operator policy: no permission or channel binding names a
   peer the policy refuses, or a peer of another address family than the allocation. *)
Theorem C01_veto_and_family_invariant : forall cfg ep h a,
  In a (allocs (final cfg (init ep) h)) ->
  (forall i, In i (map p_ip (a_perms a)) ->
     cfg_policy cfg (a_client a) i = true /\ ip_matches_family i (a_fam a) = true) /\
  (forall p, In p (map c_peer (a_chans a)) ->
     cfg_policy cfg (a_client a) (ip p) = true /\ ip_matches_family (ip p) (a_fam a) = true).
Proof. exact veto_and_family_invariant. Qed.
Print Assumptions C01_veto_and_family_invariant.

(* hence a refused peer never receives relayed data *)
Corollary C01_vetoed_never_receives : forall cfg ep h e s' acts r d x,
  cfg_policy_refuses_everywhere cfg (ip d) ->
  step cfg (final cfg (init ep) h) e = (s', acts) -> ~ In (ToPeer r d x) acts.
Proof. exact vetoed_never_receives. Qed.
Print Assumptions C01_vetoed_never_receives.

Example C01_nonvacuous :
  let cfg := Build_config 1 (600 * sec) (300 * sec) (600 * sec) 1600 false LV4 10 20 true
               (fun u r => Some (u, 7%N)) (fun _ i => negb (i =? 281470698652163)%N) (fun _ _ _ => true) in
  let cr := Build_cred (Some 7%N) true (NonceMinted 100) (Some 1%N) (Some 1%N) in
  let c := {| ip := 281470698520578; port := 5000 |} in
  let p := {| ip := 281470698652161; port := 7000 |} in
  let bad := {| ip := 281470698652163; port := 7000 |} in
  snd (run cfg (init 100)
    [EReq c 1 cr (RqAllocate (APresent 17%N) AAbsent AAbsent false (Some 49152%N) false AAbsent 0%N) false;
     EReq c 2 cr (RqCreatePerm [PeerOk p]) false;
     EReq c 3 cr (RqCreatePerm [PeerOk bad]) false;
     ESend c (Some (PeerOk p)) (Some [1;2;3]%N);
     ESend c (Some (PeerOk bad)) (Some [1;2;3]%N);
     ETick (301 * sec);
     ESend c (Some (PeerOk p)) (Some [1;2;3]%N)])
  = [ [Life (LAllocCreated c 1 {| ip := 10; port := 49152 |});
       Success c MAllocate 1 [SRelayed {| ip := 10; port := 49152 |}; SLifetime 600; SMapped c]];
      [Life (LPermCreated c 281470698652161); Success c MCreatePerm 2 []];
      [Error c MCreatePerm 3 403 false];
      [ToPeer {| ip := 10; port := 49152 |} p [1;2;3]%N];
      [];
      [Life (LPermDeleted c 281470698652161)];
      [] ].
Proof. vm_compute. reflexivity. Qed.

(* ---------- history level ---------- *)
From Turn Require Import Common RelayCheck RelayProps RelayTrace.
(* The predicate the correspondence evaluates on the IMPLEMENTATION's observed traces (Check/RelayProps.chk_C01_gate:
   nothing vetoed or of the wrong family is installed; a datagram leaves toward a peer only for the owner's Send
   indication / ChannelData, from its own relayed address, unmodified, through a permission / binding present before the
   event) holds on EVERY trace of the model: every configuration whose relay IPs are of their own family, every history. *)
Theorem C01_predicate_holds_on_every_model_trace : forall cfg ep h, cfg_relay_wf cfg -> chk_C01_gate (model_case cfg ep h) = true.
Proof. exact chk_C01_gate_model. Qed.
Print Assumptions C01_predicate_holds_on_every_model_trace.

(* C01 in full on every model trace: the gate, and "a permission / binding that is present" means "one whose timeout,
   as computed from the server's own success responses, has not elapsed" (chk_C01 = gate && chk_C06 && chk_C07) *)
From Turn Require Import RelayTime RelayTime7 RelayTrace2.
Theorem C01_full_predicate_holds_on_every_model_trace : forall cfg ep h,
  cfg_relay_wf cfg -> cfg_seconds cfg -> cfg_positive cfg -> chk_C01 (model_case cfg ep h) = true.
Proof. exact chk_C01_full_model. Qed.
Print Assumptions C01_full_predicate_holds_on_every_model_trace.
