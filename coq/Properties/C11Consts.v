From Turn Require Import Bytes ChanData Attrs ConstsGen.
Open Scope Z_scope.
Theorem C11_const_min_channel : src_proto_MinChannelNumber = Z.of_N min_chan.
Proof. reflexivity. Qed.
Theorem C11_const_max_channel : src_proto_MaxChannelNumber = Z.of_N max_chan.
Proof. reflexivity. Qed.
Theorem C11_const_chandata_header : src_proto_channelDataHeaderSize = 4 /\ src_proto_channelDataLengthSize = 2 /\ src_proto_channelDataNumberSize = 2.
Proof. repeat split; reflexivity. Qed.
Theorem C11_const_padding : src_proto_padding = 4.
Proof. reflexivity. Qed.
(* attribute value sizes the codec model uses: LIFETIME 4, REQUESTED-TRANSPORT 4, REQUESTED-ADDRESS-FAMILY 4, EVEN-PORT 1,
   RESERVATION-TOKEN 8, CONNECTION-ID 4, CHANNEL-NUMBER 4, DONT-FRAGMENT 0 *)
Theorem C11_const_attr_sizes :
  src_proto_lifetimeSize = 4 /\ src_proto_requestedTransportSize = 4 /\ src_proto_requestedFamilySize = 4 /\
  src_proto_evenPortSize = 1 /\ src_proto_reservationTokenSize = 8 /\ src_proto_connectionIDSize = 4 /\
  src_proto_channelNumberSize = 4 /\ src_proto_dontFragmentSize = 0.
Proof. repeat split; reflexivity. Qed.
