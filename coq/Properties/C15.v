(* C15 — server resources and lifecycle events stay balanced through every teardown
   (the soft-state part; sockets/goroutines are observed by the harness, see DESIGN.md). *)
From Turn Require Import Bytes ChanData Relay RelayBase RelayInv RelayGates RelayLocal RelayMore RelayBalance.
Open Scope Z_scope.

(* every single step - request, expiry tick, Refresh 0, relay socket failure - changes the number of
   allocations / permissions / channels by exactly the net number of Created minus Deleted callbacks *)
Theorem C15_step_balance : forall cfg s e s' acts, inv cfg s -> step cfg s e = (s', acts) ->
  nA (allocs s') = nA (allocs s) + sumw wA acts /\
  nP (allocs s') = nP (allocs s) + sumw wP acts /\
  nC (allocs s') = nC (allocs s) + sumw wC acts.
Proof. exact balance_step. Qed.
Print Assumptions C15_step_balance.

(* over every history: callbacks so far balance exactly against what exists (the reported count) *)
Theorem C15_history_balance : forall cfg ep h,
  let '(s', outs) := run cfg (init ep) h in
  sumw wA (concat outs) = nA (allocs s') /\ sumw wP (concat outs) = nP (allocs s') /\ sumw wC (concat outs) = nC (allocs s').
Proof. exact balance_from_start. Qed.
Print Assumptions C15_history_balance.

(* when everything has ended, for whatever mix of reasons, every Created has had exactly one Deleted *)
Theorem C15_all_ended_all_paired : forall cfg ep h,
  let '(s', outs) := run cfg (init ep) h in
  allocs s' = [] -> sumw wA (concat outs) = 0 /\ sumw wP (concat outs) = 0 /\ sumw wC (concat outs) = 0.
Proof. exact all_ended_all_paired. Qed.
Print Assumptions C15_all_ended_all_paired.

(* each way of ending releases everything the allocation owned, once *)
Theorem C15_teardown_releases_everything : forall a,
  sumw wA (close_events a) = -1 /\ sumw wP (close_events a) = - Z.of_nat (length (a_perms a)) /\
  sumw wC (close_events a) = - Z.of_nat (length (a_chans a)).
Proof. exact close_events_w. Qed.
Print Assumptions C15_teardown_releases_everything.

(* the teardown causes that come from outside the protocol. A control connection that ends (stream listeners) takes
   exactly its own 5-tuple's allocation with it, announcing what that allocation owned; closing the server ends every
   allocation, announces each one's teardown and leaves nothing *)
From Turn Require Import RelayTime7.
Theorem C15_control_connection_close : forall cfg s src s' acts, inv cfg s -> step cfg s (ECtlClose src) = (s', acts) ->
  find_alloc src (allocs s') = None /\ (forall c, c <> src -> find_alloc c (allocs s') = find_alloc c (allocs s)) /\
  acts = match find_alloc src (allocs s) with Some a => close_events a | None => [] end.
Proof. exact ctl_close_spec. Qed.
Print Assumptions C15_control_connection_close.
Theorem C15_server_close_leaves_nothing : forall cfg s s' acts, step cfg s ESrvClose = (s', acts) ->
  allocs s' = [] /\ acts = flat_map close_events (allocs s).
Proof. exact srv_close_spec. Qed.
Print Assumptions C15_server_close_leaves_nothing.

(* ---------- history level ---------- *)
From Turn Require Import Common RelayCheck RelayProps RelayTrace.
(* the predicate evaluated on the implementation's observed traces (chk_C15: after every step Created minus Deleted
   callbacks so far = what the listing shows; a closed control connection's client has no allocation; after
   Server.Close the listing is empty) holds on every trace of the model *)
Theorem C15_predicate_holds_on_every_model_trace : forall cfg ep h, chk_C15 (model_case cfg ep h) = true.
Proof. exact chk_C15_on_model. Qed.
Print Assumptions C15_predicate_holds_on_every_model_trace.

(* and a closed server is inert: in the model, messages that reach the transport of a server that has been closed are the
   event EDeadMsg (the harness records every event it issues after Server.Close as EDeadMsg); nothing happens, and the
   checked predicate additionally demands of the implementation that such a step shows no action of any kind *)
Theorem C15_nothing_after_close : forall cfg s n,
  run cfg (fst (step cfg s ESrvClose)) (repeat EDeadMsg n) = (fst (step cfg s ESrvClose), repeat [] n) /\
  allocs (fst (step cfg s ESrvClose)) = [].
Proof.
  intros cfg s n. split; [|reflexivity]. induction n as [|n IH]; [reflexivity|]. cbn [repeat run]. cbn [step] in *.
  rewrite IH. reflexivity.
Qed.
Print Assumptions C15_nothing_after_close.

(* ---------- teardown during a slow lifecycle callback (Model/Teardown.v) ---------- *)
From Turn Require Import C15TdCheck.
From Turn Require Import Teardown TeardownP TeardownQuiet C18Check TeardownMacro.
Open Scope N_scope.

(* for EVERY interleaving of the remaining steps of the calls, of any number of Close calls and of timer expiries: if, when
   the allocation is still open, every AddPermission / AddChannelBind call has done all its publishing (it is inside a
   lifecycle callback or further, or has returned; closers have not started), then once every call has returned and the
   allocation is closed no published permission and no published channel remains - whatever the step orders *)
Theorem C15_quiet_close_leaves_nothing : forall ordp ordc s th sched, Teardown.closed s = false -> Forall quiet th ->
  let (s', th') := wrun ordp ordc sched (s, th) in
  Forall (fun t => t = TDone) th' -> Teardown.closed s' = true -> pmap s' = [] /\ cmap s' = [].
Proof. exact quiet_close_leaves_nothing. Qed.
Print Assumptions C15_quiet_close_leaves_nothing.

(* "inside a callback" means "nothing left to publish" for the step orders that pass callbacks_last - a condition
   evaluated on the orders the translator extracts from the source on every run (Check/C15TdCheck.run) *)
Theorem C15_parked_calls_are_quiet : forall ordp ordc, callbacks_last ordp ordc = true -> forall a pid cid l,
  quiet (TRun a (from_first is_cb ordp) [] pid cid l) /\
  quiet (TRun a (from_first is_cb ordp) (after_first is_cadd ordc) pid cid l) /\
  quiet (TRun a [] (from_first is_cb ordc) pid cid l).
Proof. exact callbacks_last_quiet. Qed.
Print Assumptions C15_parked_calls_are_quiet.

(* history level: on every forced schedule (macro operations of C18Check: run a thread until it is inside a callback,
   blocked or done; let the timers fire) of any initial threads, the model's own observations (a) are accepted by the
   correspondence runner and (b) satisfy the checked predicate's clause about what remains published: if every adder had
   reached a callback or returned when the first closer ran, then once all have returned and the allocation is closed,
   the permission and channel tables are empty (and the lock is free) *)
Theorem C15_slow_callback_maps_on_every_model_trace : forall ordp ordc,
  orders_ok ordp ordc = true -> callbacks_last ordp ordc = true -> forall threads mops, forallb initial threads = true ->
  maps_holds threads (mtrace ordp ordc ((Teardown.init, threads), map (fun _ => SNew) threads) mops) = true /\
  agree_from ordp ordc ((Teardown.init, threads), map (fun _ => SNew) threads)
             (mtrace ordp ordc ((Teardown.init, threads), map (fun _ => SNew) threads) mops) = true.
Proof.
  intros ordp ordc Ho Hc threads mops Hi. split.
  - exact (maps_holds_model ordp ordc Ho Hc threads mops Hi).
  - apply (agree_mtrace ordp ordc Ho). cbn [fst]. apply init_inv. exact Hi.
Qed.
Print Assumptions C15_slow_callback_maps_on_every_model_trace.

(* non-vacuity: the orders of the repaired code pass both conditions; "callback first" does not; and a concrete schedule
   (AddPermission parks in its callback, Close runs to the end, the callback returns) meets the premise *)
Example C15_orders_of_the_code : orders_ok ordp_fixed ordc_code = true /\ callbacks_last ordp_fixed ordc_code = true /\
  callbacks_last [PCallback; PArm; PPublish] ordc_code = false.
Proof. repeat split; reflexivity. Qed.
Example C15_slow_callback_example :
  let tr := mtrace ordp_fixed ordc_code ((Teardown.init, [TAddPerm 1; TClose0]), [SNew; SNew]) [MRun 0; MRun 1; MRun 0] in
  premise [TAddPerm 1; TClose0] tr = true /\ maps_left tr = true /\ pairs_left tr = true /\
  map (fun p => o_status (snd p)) tr = [[SParked; SNew]; [SParked; SDone]; [SDone; SDone]].
Proof. vm_compute. repeat split; reflexivity. Qed.
