(* C15 — server resources and lifecycle events stay balanced through every teardown
   (the soft-state part; sockets/goroutines are observed by the harness, see DESIGN.md). *)
From Turn Require Import Bytes ChanData Relay RelayBase RelayInv RelayGates RelayLocal RelayMore RelayBalance.
Open Scope Z_scope.

(* every single step - request, expiry tick, Refresh 0, relay socket failure - changes the number of
   allocations / permissions / channels by exactly the net number of Created minus Deleted callbacks *)
Theorem C15_step_balance : forall cfg s e s' acts, inv cfg s -> step cfg s e = (s', acts) ->
  nA (allocs s') = nA (allocs s) + sumw wA acts /\
  nP (allocs s') = nP (allocs s) + sumw wP acts /\
  nC (allocs s') = nC (allocs s) + sumw wC acts.
Proof. exact balance_step. Qed.
Print Assumptions C15_step_balance.

(* over every history: callbacks so far balance exactly against what exists (the reported count) *)
Theorem C15_history_balance : forall cfg ep h,
  let '(s', outs) := run cfg (init ep) h in
  sumw wA (concat outs) = nA (allocs s') /\ sumw wP (concat outs) = nP (allocs s') /\ sumw wC (concat outs) = nC (allocs s').
Proof. exact balance_from_start. Qed.
Print Assumptions C15_history_balance.

(* when everything has ended, for whatever mix of reasons, every Created has had exactly one Deleted *)
Theorem C15_all_ended_all_paired : forall cfg ep h,
  let '(s', outs) := run cfg (init ep) h in
  allocs s' = [] -> sumw wA (concat outs) = 0 /\ sumw wP (concat outs) = 0 /\ sumw wC (concat outs) = 0.
Proof. exact all_ended_all_paired. Qed.
Print Assumptions C15_all_ended_all_paired.

(* each way of ending releases everything the allocation owned, once *)
Theorem C15_teardown_releases_everything : forall a,
  sumw wA (close_events a) = -1 /\ sumw wP (close_events a) = - Z.of_nat (length (a_perms a)) /\
  sumw wC (close_events a) = - Z.of_nat (length (a_chans a)).
Proof. exact close_events_w. Qed.
Print Assumptions C15_teardown_releases_everything.

(* the teardown causes that come from outside the protocol. A control connection that ends (stream listeners) takes
   exactly its own 5-tuple's allocation with it, announcing what that allocation owned; closing the server ends every
   allocation, announces each one's teardown and leaves nothing *)
From Turn Require Import RelayTime7.
Theorem C15_control_connection_close : forall cfg s src s' acts, inv cfg s -> step cfg s (ECtlClose src) = (s', acts) ->
  find_alloc src (allocs s') = None /\ (forall c, c <> src -> find_alloc c (allocs s') = find_alloc c (allocs s)) /\
  acts = match find_alloc src (allocs s) with Some a => close_events a | None => [] end.
Proof. exact ctl_close_spec. Qed.
Print Assumptions C15_control_connection_close.
Theorem C15_server_close_leaves_nothing : forall cfg s s' acts, step cfg s ESrvClose = (s', acts) ->
  allocs s' = [] /\ acts = flat_map close_events (allocs s).
Proof. exact srv_close_spec. Qed.
Print Assumptions C15_server_close_leaves_nothing.

(* ---------- history level ---------- *)
From Turn Require Import Common RelayCheck RelayProps RelayTrace.
(* the predicate evaluated on the implementation's observed traces (chk_C15: after every step Created minus Deleted
   callbacks so far = what the listing shows; a closed control connection's client has no allocation; after
   Server.Close the listing is empty) holds on every trace of the model *)
Theorem C15_predicate_holds_on_every_model_trace : forall cfg ep h, chk_C15 (model_case cfg ep h) = true.
Proof. exact chk_C15_on_model. Qed.
Print Assumptions C15_predicate_holds_on_every_model_trace.

(* and a closed server is inert: in the model, messages that reach the transport of a server that has been closed are the
   event EDeadMsg (the harness records every event it issues after Server.Close as EDeadMsg); nothing happens, and the
   checked predicate additionally demands of the implementation that such a step shows no action of any kind *)
Theorem C15_nothing_after_close : forall cfg s n,
  run cfg (fst (step cfg s ESrvClose)) (repeat EDeadMsg n) = (fst (step cfg s ESrvClose), repeat [] n) /\
  allocs (fst (step cfg s ESrvClose)) = [].
Proof.
  intros cfg s n. split; [|reflexivity]. induction n as [|n IH]; [reflexivity|]. cbn [repeat run]. cbn [step] in *.
  rewrite IH. reflexivity.
Qed.
Print Assumptions C15_nothing_after_close.
