(* C10 — stream framing is independent of TCP segmentation and always makes progress.
   Statements only; proofs are in Proofs/FramerP.v. *)
From Turn Require Import Bytes ChanData Attrs Framer FramerP.
Open Scope N_scope.

(* Every sequence of well-formed frames (ChannelData: any number in range, payload 0..65535 bytes;
   STUN: any type with top bits 00, any body length), every way of splitting the byte stream into
   reads (including empty reads): successive ReadFrom calls return exactly those frames, whole, in
   order, one per call, and then the connection's EOF with nothing left over. *)
Theorem C10_frames : forall fs ss,
  Forall wf_frame fs -> concat ss = concat fs ->
  read_all (S (length fs)) ss [] = (fs, EndEOF []).
Proof. exact frames_any_segmentation. Qed.
Print Assumptions C10_frames.

(* Stronger: for arbitrary bytes (not only well-formed streams) what the read loop returns is a
   function of the byte stream alone, never of how it was cut. *)
Theorem C10_segmentation_independent : forall fuel reads buf,
  read_all fuel reads buf = parse fuel (buf ++ concat reads).
Proof. exact read_all_parse. Qed.
Print Assumptions C10_segmentation_independent.

(* as soon as the last byte of a frame has arrived: no Read is issued while a whole frame is
   buffered, every Read that is issued was preceded by an incomplete buffer, and a well-formed
   frame is complete exactly when all of its bytes are there *)
Theorem C10_no_read_when_complete : forall reads buf n,
  consume buf = FrOk n -> read_from reads buf = (RfFrame (firstn n buf), skipn n buf, reads).
Proof. exact read_from_no_read_when_complete. Qed.
Print Assumptions C10_no_read_when_complete.

Theorem C10_reads_only_when_incomplete : forall reads buf f buf' reads',
  read_from reads buf = (RfFrame f, buf', reads') ->
  exists used, reads = used ++ reads' /\
    forall u1 u u2, used = u1 ++ u :: u2 -> consume (buf ++ concat u1) = FrIncomplete.
Proof. exact read_from_reads_only_when_incomplete. Qed.
Print Assumptions C10_reads_only_when_incomplete.

Theorem C10_frame_complete_iff : forall f x k, wf_frame f ->
  (consume (firstn k (f ++ x)) = FrOk (length f) <-> (length f <= k)%nat) /\
  ((k < length f)%nat -> consume (firstn k (f ++ x)) = FrIncomplete).
Proof. exact frame_complete_iff. Qed.
Print Assumptions C10_frame_complete_iff.

(* A successful read consumes the bytes it returns and at least one byte (in fact four). *)
Theorem C10_progress : forall b n, consume b = FrOk n -> (4 <= n <= length b)%nat.
Proof. exact consume_ok_bounds. Qed.
Print Assumptions C10_progress.

Theorem C10_read_loop_terminates : forall reads buf,
  snd (read_all (S (length (buf ++ concat reads))) reads buf) <> EndFuel.
Proof. exact read_loop_terminates. Qed.
Print Assumptions C10_read_loop_terminates.

(* Bytes that cannot begin a frame yield an error rather than data. *)
Theorem C10_only_frames_yield_data : forall b n, consume b = FrOk n ->
  match b with
  | b0 :: b1 :: _ => valid_chan (be16 b0 b1) = true \/ is_stun_msg b = true
  | _ => False
  end.
Proof. exact consume_ok_kind. Qed.
Print Assumptions C10_only_frames_yield_data.

Theorem C10_garbage_is_invalid : forall b0 b1 r,
  valid_chan (be16 b0 b1) = false -> (20 <= length (b0 :: b1 :: r))%nat ->
  is_stun_msg (b0 :: b1 :: r) = false -> consume (b0 :: b1 :: r) = FrInvalid.
Proof. exact consume_garbage_invalid. Qed.
Print Assumptions C10_garbage_is_invalid.

(* The client's parsing of the ConnectionBind reply depends on the reply's bytes only. *)
Theorem C10_bind_reply : forall reads,
  match bind_read reads, bind_spec (concat reads) with
  | BindMsg raw rest, Some (Some raw', rest') => raw = raw' /\ concat rest = rest'
  | BindShort, None => True
  | BindNotStun, Some (None, _) => True
  | _, _ => False
  end.
Proof. exact bind_read_segmentation_independent. Qed.
Print Assumptions C10_bind_reply.

(* What the pinned tree's framer did instead (findings F3, F4, F5; repaired by a fix: commit). *)
Theorem C10_pinned_zero_size_refuted :
  consume_pinned [64;0;255;252; 1;2;3;4;5] = FrOk 0 /\
  consume_pinned ([0;1;255;236] ++ magic ++ [0;0;0;0;0;0;0;0;0;0;0;0]) = FrOk 0.
Proof. exact consume_pinned_zero_size_refuted. Qed.
Print Assumptions C10_pinned_zero_size_refuted.
Theorem C10_pinned_short_frame_withheld_refuted :
  wf_frame (cd_encode 16384 [7]) /\ consume_pinned (cd_encode 16384 [7]) = FrIncomplete.
Proof. exact consume_pinned_short_frame_withheld_refuted. Qed.
Print Assumptions C10_pinned_short_frame_withheld_refuted.
Theorem C10_pinned_cookie_payload_refuted :
  let f := cd_encode 16384 (magic ++ [0;0;0;0;0;0;0;0;0;0;0;0;0;0;0;0]) in
  wf_frame f /\ length f = 24%nat /\ consume_pinned f = FrIncomplete.
Proof. exact consume_pinned_cookie_payload_refuted. Qed.
Print Assumptions C10_pinned_cookie_payload_refuted.

(* non-vacuity: a concrete two-frame stream cut in the middle of both frames *)
Example C10_example :
  let f1 := cd_encode 16385 [1;2;3] in
  let f2 := stun_frame 0 1 0 4 [1;2;3;4;5;6;7;8;9;10;11;12] [9;9;9;9] in
  read_all 3 [firstn 3 f1; skipn 3 f1 ++ firstn 21 f2; skipn 21 f2] [] = ([f1; f2], EndEOF []).
Proof. vm_compute. reflexivity. Qed.
