(* C11 — TURN wire codecs round-trip and reject malformed input safely.
   Statements only; every proof is `exact <lemma>` into Proofs/. *)
From Turn Require Import Bytes ChanData Attrs BytesP ChanDataP AttrsP.
Open Scope N_scope.

(* ChannelData: for every number and every payload up to 65535 bytes, the encoding has the
   payload length in its length field, is the 4-byte header, the payload, and fewer than 4 zero
   bytes bringing the total to a multiple of 4; decoding it returns the same number and payload,
   with an error exactly when the number is outside 0x4000..0x7FFF. *)
Theorem C11_chandata_roundtrip : forall n d, n < 65536 -> lenN d < 65536 ->
  (exists b0 b1 b2 b3 rest, cd_encode n d = b0 :: b1 :: b2 :: b3 :: rest
      /\ be16 b2 b3 = lenN d /\ be16 b0 b1 = u16 n /\ rest = d ++ zeros (cd_padlen d))
  /\ (cd_padlen d < 4)%nat
  /\ lenN (cd_encode n d) = 4 + pad4 (lenN d)
  /\ cd_decode (cd_encode n d) = (if valid_chan n then CdOk n d else CdErr CdBadNumber).
Proof.
  intros n d Hn Hd. repeat split.
  - exact (cd_encode_lenfield n d Hd).
  - exact (cd_padlen_lt d).
  - exact (cd_encode_length n d).
  - exact (cd_decode_encode n d Hn Hd).
Qed.
Print Assumptions C11_chandata_roundtrip.

Theorem C11_padding_is_zero : forall k x, In x (zeros k) -> x = 0.
Proof. exact zeros_all_zero. Qed.
Print Assumptions C11_padding_is_zero.

(* Decoding succeeds exactly for buffers holding a valid channel number and at least the
   declared number of bytes, and yields exactly the declared bytes. *)
Theorem C11_chandata_decode_iff : forall b n d,
  cd_decode b = CdOk n d <->
  exists b0 b1 b2 b3 rest, b = b0 :: b1 :: b2 :: b3 :: rest
    /\ n = be16 b0 b1 /\ valid_chan n = true
    /\ be16 b2 b3 <= lenN rest /\ d = firstn (N.to_nat (be16 b2 b3)) rest.
Proof. exact cd_decode_iff. Qed.
Print Assumptions C11_chandata_decode_iff.

Theorem C11_chandata_decoded_length : forall b n d, cd_decode b = CdOk n d ->
  exists b0 b1 b2 b3 rest, b = b0 :: b1 :: b2 :: b3 :: rest /\ lenN d = be16 b2 b3.
Proof. exact cd_decode_length. Qed.
Print Assumptions C11_chandata_decoded_length.

Theorem C11_is_channel_data_iff : forall b,
  is_channel_data b = true <-> exists n d, cd_decode b = CdOk n d.
Proof. exact is_channel_data_iff. Qed.
Print Assumptions C11_is_channel_data_iff.

(* Attribute codecs: decode (encode v) = v over the whole domain. *)
Theorem C11_attr_roundtrip_channel_number : forall n, n < 65536 -> dec_channum (enc_channum n) = AOk n.
Proof. exact channum_roundtrip. Qed.
Print Assumptions C11_attr_roundtrip_channel_number.
Theorem C11_attr_roundtrip_lifetime : forall s, s < 4294967296 -> dec_lifetime (enc_lifetime s) = AOk s.
Proof. exact lifetime_roundtrip. Qed.
Print Assumptions C11_attr_roundtrip_lifetime.
Theorem C11_attr_roundtrip_connection_id : forall s, s < 4294967296 -> dec_connid (enc_connid s) = AOk s.
Proof. exact connid_roundtrip. Qed.
Print Assumptions C11_attr_roundtrip_connection_id.
Theorem C11_attr_roundtrip_requested_transport : forall p, p < 256 -> dec_reqtrans (enc_reqtrans p) = AOk p.
Proof. exact reqtrans_roundtrip. Qed.
Print Assumptions C11_attr_roundtrip_requested_transport.
Theorem C11_attr_roundtrip_requested_family : forall f, f = 1 \/ f = 2 -> dec_reqfamily (enc_reqfamily f) = AOk f.
Proof. exact reqfamily_roundtrip. Qed.
Print Assumptions C11_attr_roundtrip_requested_family.
Theorem C11_attr_requested_family_other_values_rejected : forall f, f < 256 -> f <> 1 -> f <> 2 ->
  dec_reqfamily (enc_reqfamily f) = AErr EBadValue.
Proof. exact reqfamily_bad_value. Qed.
Print Assumptions C11_attr_requested_family_other_values_rejected.
Theorem C11_attr_roundtrip_even_port : forall r, dec_evenport (enc_evenport r) = AOk r.
Proof. exact evenport_roundtrip. Qed.
Print Assumptions C11_attr_roundtrip_even_port.
Theorem C11_attr_roundtrip_reservation_token : forall t, lenN t = 8 ->
  exists v, enc_token t = AOk v /\ dec_token v = AOk t.
Proof. exact token_roundtrip. Qed.
Print Assumptions C11_attr_roundtrip_reservation_token.
Theorem C11_attr_reservation_token_encode_rejects_wrong_size : forall t, lenN t <> 8 -> enc_token t = AErr ESizeInvalid.
Proof. exact token_enc_wrong_size. Qed.
Print Assumptions C11_attr_reservation_token_encode_rejects_wrong_size.
Theorem C11_attr_roundtrip_dont_fragment : dec_dontfrag enc_dontfrag = AOk tt.
Proof. exact dontfrag_roundtrip. Qed.
Print Assumptions C11_attr_roundtrip_dont_fragment.
Theorem C11_attr_roundtrip_data : forall d, dec_data (enc_data d) = AOk d.
Proof. exact data_roundtrip. Qed.
Print Assumptions C11_attr_roundtrip_data.
(* XOR-PEER-ADDRESS / XOR-RELAYED-ADDRESS: all IPs (4- or 16-byte), ports and transaction ids *)
Theorem C11_attr_roundtrip_xor_address : forall tid ip port,
  length tid = 12%nat -> port < 65536 -> (length ip = 4%nat \/ length ip = 16%nat) ->
  exists v, enc_xoraddr tid ip port = AOk v /\ dec_xoraddr tid v = AOk (canon_ip ip, port).
Proof. exact xoraddr_roundtrip. Qed.
Print Assumptions C11_attr_roundtrip_xor_address.

(* Wrong-sized raw values (every length, not only 0..64) are errors, never values. *)
Theorem C11_attr_wrong_size_channel_number : forall v, length v <> 4%nat -> dec_channum v = AErr ESizeInvalid.
Proof. exact channum_wrong_size. Qed.
Print Assumptions C11_attr_wrong_size_channel_number.
Theorem C11_attr_wrong_size_lifetime : forall v, length v <> 4%nat -> dec_lifetime v = AErr ESizeInvalid.
Proof. exact lifetime_wrong_size. Qed.
Print Assumptions C11_attr_wrong_size_lifetime.
Theorem C11_attr_wrong_size_connection_id : forall v, length v <> 4%nat -> dec_connid v = AErr ESizeInvalid.
Proof. exact connid_wrong_size. Qed.
Print Assumptions C11_attr_wrong_size_connection_id.
Theorem C11_attr_wrong_size_requested_transport : forall v, length v <> 4%nat -> dec_reqtrans v = AErr ESizeInvalid.
Proof. exact reqtrans_wrong_size. Qed.
Print Assumptions C11_attr_wrong_size_requested_transport.
Theorem C11_attr_wrong_size_requested_family : forall v, length v <> 4%nat -> dec_reqfamily v = AErr ESizeInvalid.
Proof. exact reqfamily_wrong_size. Qed.
Print Assumptions C11_attr_wrong_size_requested_family.
Theorem C11_attr_wrong_size_even_port : forall v, length v <> 1%nat -> dec_evenport v = AErr ESizeInvalid.
Proof. exact evenport_wrong_size. Qed.
Print Assumptions C11_attr_wrong_size_even_port.
Theorem C11_attr_wrong_size_reservation_token : forall v, length v <> 8%nat -> dec_token v = AErr ESizeInvalid.
Proof. exact token_wrong_size. Qed.
Print Assumptions C11_attr_wrong_size_reservation_token.
Theorem C11_attr_wrong_size_dont_fragment : forall v, length v <> 0%nat -> dec_dontfrag v = AErr ESizeInvalid.
Proof. exact dontfrag_wrong_size. Qed.
Print Assumptions C11_attr_wrong_size_dont_fragment.
Theorem C11_attr_wrong_size_xor_address : forall tid v,
  (forall f0 f1 p0 p1 rest, v = f0 :: f1 :: p0 :: p1 :: rest ->
      (be16 f0 f1 = 1 -> length rest <> 4%nat) /\ (be16 f0 f1 = 2 -> length rest <> 16%nat)) ->
  exists e, dec_xoraddr tid v = AErr e.
Proof. exact xoraddr_wrong_size. Qed.
Print Assumptions C11_attr_wrong_size_xor_address.
(* a successfully decoded address is exactly the bytes present (no zero-filling, no truncation) *)
Theorem C11_attr_xor_address_exact : forall tid f0 f1 p0 p1 rest ip port,
  dec_xoraddr tid (f0 :: f1 :: p0 :: p1 :: rest) = AOk (ip, port) -> length tid = 12%nat ->
  ip = xor_bytes rest (xor_pad tid) /\ port = N.lxor (be16 p0 p1) 8466 /\
  ((be16 f0 f1 = 1 /\ length rest = 4%nat) \/ (be16 f0 f1 = 2 /\ length rest = 16%nat)).
Proof. exact xoraddr_right_size. Qed.
Print Assumptions C11_attr_xor_address_exact.
(* pion/stun's GetFromAs alone accepts and zero-fills a short address: what the pinned tree did (F14). *)
Theorem C11_xor_address_lenient_refuted :
  exists tid v ip port, length tid = 12%nat /\ length v = 5%nat /\
     dec_xoraddr_gen false tid v = AOk (ip, port) /\ length ip = 4%nat.
Proof. exact xoraddr_lenient_refuted. Qed.
Print Assumptions C11_xor_address_lenient_refuted.
