From Turn Require Import Bytes KeepAlive ConstsGen.
Open Scope Z_scope.
(* "configurations compatible with the client's refresh intervals", with the values the source declares: the allocation is
   refreshed every half default lifetime, permissions every defaultPermRefreshInterval against DefaultPermissionTimeout,
   bindings at defaultBindingRefreshInterval checked every defaultBindingCheckInterval against the default lifetime of a
   channel (equal to the allocation's default); a transaction takes at most 7.8 s at the default RTO (C12) *)
Theorem C14_const_defaults_compatible :
  src_proto_DefaultLifetime / 2 + 2 * handler_max < src_proto_DefaultLifetime /\
  src_client_defaultPermRefreshInterval + 2 * handler_max < src_allocation_DefaultPermissionTimeout /\
  (src_client_defaultBindingRefreshInterval + src_client_defaultBindingCheckInterval) + 2 * handler_max < src_proto_DefaultLifetime.
Proof. repeat split; reflexivity. Qed.
Theorem C14_const_rto : src_turn_defaultRTO = rto /\ src_client_maxRetryAttempts * tx_max = handler_max.
Proof. split; reflexivity. Qed.
