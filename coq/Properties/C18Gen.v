(* C18 - obligations on the program generated from /repo's working tree (Gen/LockSkelGen.v).
   Compiled on every run by lib/c18.py; NOT part of _CoqProject, so that a failing obligation here never
   breaks the build the other properties depend on. *)
From Turn Require Import Bytes LockSkel LockSkelP Teardown TeardownP LockSkelGen.
Open Scope N_scope.

(* diagnosis first: which obligation fails, and for which functions (0 = fine, 1 = stuck / loop not
   neutral / callee leaves a lock, 2 = a way out with a lock held, 3 = escaping break/continue) *)
Definition verdict (p : N * list N) : N * N :=
  match prog (fst p) with
  | None => (fst p, 9)
  | Some b => match checkf guard prog fuel b {| held := snd p; defers := [] |} with
              | None => (fst p, 1)
              | Some e => if forallb (exit_leaves (snd p)) (xn e) && forallb (exit_leaves (snd p)) (xr e) then
                            match xb e, xc e with [], [] => (fst p, 0) | _, _ => (fst p, 3) end
                          else (fst p, 2)
              end
  end.
Definition V := Eval vm_compute in
  (program_ok guard prog fuel funcs, orders_ok addperm_ord addchan_ord, close_shape_ok close_ord,
   filter (fun v => negb (snd v =? 0)) (map verdict funcs)).
Print V.

(* a crashing schedule of the model for the extracted orders, if there is one within the bound *)
Fixpoint search (d : nat) (n : nat) (w : world) : option (list op) :=
  if crashed (fst w) then Some [] else
  match d with
  | O => None
  | S d' =>
      (fix try (i : nat) : option (list op) :=
         match i with
         | O => None
         | S i' => match search d' n (wstep addperm_ord addchan_ord w (Run i')) with
                   | Some r => Some (Run i' :: r)
                   | None => try i'
                   end
         end) n
  end.
Definition W := Eval vm_compute in
  (if orders_ok addperm_ord addchan_ord then None
   else match search 7 3 (init, [TAddPerm 1; TAddPerm 1; TClose0]) with
        | Some r => Some (1, r)
        | None => match search 9 2 (init, [TAddChan 1; TClose0]) with Some r => Some (2, r) | None => None end
        end).
Print W.

Theorem C18_locks_checked : program_ok guard prog fuel funcs = true.
Proof. vm_compute. reflexivity. Qed.
Print Assumptions C18_locks_checked.

Theorem C18_lock_discipline : exists (rk : N -> N) (E : list (N * N)),
  (forall n pre, In (n, pre) funcs -> fn_ok guard prog E n pre) /\ (forall h l, In (h, l) E -> rk h < rk l).
Proof. exact (program_ok_sound guard prog fuel funcs C18_locks_checked). Qed.
Print Assumptions C18_lock_discipline.

Theorem C18_close_shape : close_shape_ok close_ord = true.
Proof. vm_compute. reflexivity. Qed.

Theorem C18_orders_checked : orders_ok addperm_ord addchan_ord = true.
Proof. vm_compute. reflexivity. Qed.
Print Assumptions C18_orders_checked.

Theorem C18_teardown : forall th sched, forallb initial th = true ->
  let (s, th') := wrun addperm_ord addchan_ord sched (init, th) in
  crashed s = false /\
  (forall a p, In (a, p) (pmap s) -> has_id p (parmed s) = true) /\
  (chlock s = false -> forall a c, In (a, c) (cmap s) -> has_id c (carmed s) = true).
Proof. exact (teardown_safe addperm_ord addchan_ord C18_orders_checked). Qed.
Print Assumptions C18_teardown.
