From Turn Require Import Bytes Relay ClientConn ConstsGen.
Open Scope Z_scope.
Theorem C13_const_queue : src_client_maxReadQueueSize = Z.of_nat queue_cap.
Proof. reflexivity. Qed.
Theorem C13_const_binding_refresh : src_client_defaultBindingRefreshInterval = refresh_interval.
Proof. reflexivity. Qed.
Theorem C13_const_channel_numbers : src_client_minChannelNumber = Z.of_N min_ch /\ src_client_maxChannelNumber = Z.of_N max_ch.
Proof. split; reflexivity. Qed.
(* createPermission tries three times on 438 (perm_attempts 3) *)
Theorem C13_const_retry_attempts : src_client_maxRetryAttempts = 3.
Proof. reflexivity. Qed.
(* the binding states of the model are the client's, in the same order *)
Theorem C13_const_binding_states :
  src_client_bindingStateIdle = 0 /\ src_client_bindingStateRequest = 1 /\ src_client_bindingStateUnknown = 2 /\
  src_client_bindingStateReadyUnknown = 3 /\ src_client_bindingStateReady = 4 /\ src_client_bindingStateRefresh = 5 /\
  src_client_bindingStateFailed = 6.
Proof. repeat split; reflexivity. Qed.
