(* C14 — a live client keeps its relay alive indefinitely and Close releases it.
   The theorem is about the abstract timed system of Model/KeepAlive.v (one driver, one server-side
   timeout); its adequacy for the goroutine-based drivers of the client is what the timeline
   correspondence checks (partial, see DESIGN.md). *)
From Turn Require Import Bytes KeepAlive KeepAliveP Relay ClientConn ClientConnP RelayLocal RelayMore.
Open Scope Z_scope.

(* for ANY duration (number of cycles), any latency schedule in which no transaction loses all its
   retransmissions (handler <= H) and any instant at which the server processes each refresh: the
   state is always re-armed before its deadline *)
Theorem C14_never_expires : forall P H T a0 s0 cs,
  0 <= P -> 0 <= H -> P + 2 * H < T -> a0 <= s0 <= a0 + H ->
  Forall (cycle_ok H) cs -> gaps_below T (arm_times P a0 (s0 + P) cs).
Proof. exact keepalive_never_expires. Qed.
Print Assumptions C14_never_expires.

(* "configurations compatible with the client's refresh intervals" = interval + 2 x 23.4 s < timeout;
   the defaults satisfy it for the allocation, the permissions and the channel bindings *)
Theorem C14_defaults_compatible :
  300 * s + 2 * handler_max < 600 * s /\ 120 * s + 2 * handler_max < 300 * s /\ (300 * s + 30 * s) + 2 * handler_max < 600 * s.
Proof. exact defaults_compatible. Qed.
Print Assumptions C14_defaults_compatible.

Theorem C14_incompatible_configuration_expires : forall P T a0, T <= P -> 0 < T ->
  ~ gaps_below T (arm_times P a0 (a0 + P) [{| c_h := 0; c_off := 0 |}]).
Proof. exact too_slow_expires. Qed.
Print Assumptions C14_incompatible_configuration_expires.

(* stale nonce: the nonce delivered with a 438 is accepted at once, so the retry authenticates (C03) *)
Theorem C14_stale_nonce_recovery : forall st st',
  epoch_min st' = epoch_min st -> now st <= now st' -> now st' - now st <= 3600 * sec ->
  nonce_valid st' (NonceMinted (cur_minute st)) = true.
Proof. exact fresh_nonce_accepted. Qed.
Print Assumptions C14_stale_nonce_recovery.

(* Close: the relayed socket sends Refresh with lifetime 0 ... *)
Theorem C14_close_sends_refresh_zero : forall st, k_closed st = false ->
  o_wire (snd (cstep st CClose)) = [WRefresh0] /\ k_closed (fst (cstep st CClose)) = true.
Proof. exact close_releases. Qed.
Print Assumptions C14_close_sends_refresh_zero.
(* ... which removes the allocation at the server in the very step it is processed *)
Theorem C14_refresh_zero_removes_allocation : forall cfg st src tid c lt fam st' acts secs,
  NoDup (map a_client (allocs st)) ->
  step cfg st (EReq src tid c (RqRefresh lt fam) false) = (st', acts) ->
  In (Success src MRefresh tid [SLifetime secs]) acts ->
  secs = granted_lifetime cfg lt / sec /\
  ((granted_lifetime cfg lt = 0 /\ find_alloc src (allocs st') = None) \/
   (granted_lifetime cfg lt <> 0 /\ exists a a', find_alloc src (allocs st) = Some a /\
      find_alloc src (allocs st') = Some a' /\ a_dl a' = now st + granted_lifetime cfg lt /\
      a_perms a' = a_perms a /\ a_chans a' = a_chans a /\ a_relay a' = a_relay a)).
Proof. exact refresh_success. Qed.
Print Assumptions C14_refresh_zero_removes_allocation.
