(* C09 — no input can crash, wedge or spin an endpoint.
   Index/slice operations of the modelled decoders are checked operations whose failure is the outcome
   Panic; the theorems say that outcome is unreachable for EVERY byte string. Stream framing progress
   is C10's (re-stated here). Code that is not modelled line by line (attribute getters inside the
   handlers, logging, the Go runtime) is covered by the correspondence runs only. *)
From Turn Require Import Bytes ChanData Attrs Framer StunMsg FramerP StunMsgP ChanDataP.
Open Scope N_scope.

Theorem C09_stun_decode_never_panics : forall buf, stun_decode buf <> Panic.
Proof. exact stun_decode_no_panic. Qed.
Print Assumptions C09_stun_decode_never_panics.

Theorem C09_server_dispatch_never_panics : forall b, srv_dispatch b <> SPanic.
Proof. exact srv_dispatch_no_panic. Qed.
Print Assumptions C09_server_dispatch_never_panics.

Theorem C09_client_dispatch_never_panics : forall f b, cli_dispatch f b <> CPanic.
Proof. exact cli_dispatch_no_panic. Qed.
Print Assumptions C09_client_dispatch_never_panics.

(* the client's documented (handled, error) table: "not handled" exactly for data that is neither
   ChannelData nor STUN and does not come from the STUN server - never together with an error *)
Theorem C09_client_classification : forall f b,
  cli_handled (cli_dispatch f b) = false <-> is_channel_data b = false /\ is_stun_msg b = false /\ f = false.
Proof. exact cli_not_handled_iff. Qed.
Print Assumptions C09_client_classification.

(* the server: a handler runs only for the seven request methods and the Send indication; everything
   IsChannelData accepts decodes *)
Theorem C09_server_handlers_only_for_known : forall b c m tid, srv_dispatch b = SHandler c m tid -> has_handler c m = true.
Proof. exact srv_handler_only_for_known. Qed.
Print Assumptions C09_server_handlers_only_for_known.
Theorem C09_server_chandata_path_decodes : forall b, is_channel_data b = true ->
  exists n d, srv_dispatch b = SChanData n d /\ cd_decode b = CdOk n d.
Proof. exact srv_chandata_path_decodes. Qed.
Print Assumptions C09_server_chandata_path_decodes.

(* stream listeners: every successful read consumes at least four and at most the buffered bytes, so the
   read loop terminates on every finite stream - no busy loop on any prefix of any byte stream *)
Theorem C09_stream_progress : forall b n, consume b = FrOk n -> (4 <= n <= length b)%nat.
Proof. exact consume_ok_bounds. Qed.
Print Assumptions C09_stream_progress.
Theorem C09_stream_read_loop_terminates : forall reads buf,
  snd (read_all (S (length (buf ++ concat reads))) reads buf) <> EndFuel.
Proof. exact read_loop_terminates. Qed.
Print Assumptions C09_stream_read_loop_terminates.

(* ---------- well-formed requests that put the server into unusual states (RFC 6062 path) ---------- *)
From Turn Require Import TcpRelay C16Check C09TcpCheck TcpIso TcpTrace.
(* on every history of TCP-relay events (duplicate Connect, binds of unknown or foreign ids, id collisions, dial failures,
   expiries, any number of allocations; connection ids fresh as for C16) the allocation manager never wedges: no step of the
   model's trace shows "no answer because the manager is blocked", and the correspondence runner accepts the trace. The
   same predicate is evaluated on the real server's traces by TestVerif_C09TCP. *)
Theorem C09_tcp_requests_never_wedge_on_every_model_trace : forall h, cids_fresh [] h -> C09TcpCheck.run (tmodel_case h) = (true, true).
Proof. exact c09_tcp_on_model. Qed.
Print Assumptions C09_tcp_requests_never_wedge_on_every_model_trace.
