From Turn Require Import Bytes Relay TcpRelay ConstsGen.
Open Scope Z_scope.
Theorem C16_const_bind_timeout : src_allocation_defaultTCPConnectionBindTimeout = bind_timeout.
Proof. reflexivity. Qed.
