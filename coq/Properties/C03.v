(* C03 — state-changing requests take effect only with valid long-term credentials. *)
From Turn Require Import Bytes ChanData Relay RelayBase RelayInv RelayGates RelayLocal RelayMore.
Open Scope Z_scope.

(* Every request (other than Binding) whose credentials do not authenticate leaves the whole state
   unchanged - allocations, permissions, channels - relays nothing, and is answered by exactly one
   error response: the decision list of authenticateRequest. *)
Theorem C03_unauthenticated_is_noop : forall cfg s src tid c r s' acts,
  r <> RqBinding -> (forall u, authenticate cfg s c <> AuthOK u) ->
  step cfg s (EReq src tid c r false) = (s', acts) ->
  s' = s /\ exists code ch, acts = [Error src (req_method r) tid code ch] /\ authenticate cfg s c = AuthReply code ch.
Proof. exact unauthenticated_is_noop. Qed.
Print Assumptions C03_unauthenticated_is_noop.

(* What acceptance implies: a handler is configured, MESSAGE-INTEGRITY is present and intact and was
   computed with exactly the key the operator's handler returns for the presented username and
   realm, and the nonce was minted by this instance at most 60 minute-ticks ago and not in the future. *)
Theorem C03_accepted_credentials : forall cfg s c uid,
  authenticate cfg s c = AuthOK uid ->
  cfg_has_auth cfg = true /\
  exists key u r m, c_mi c = Some key /\ c_intact c = true /\ c_user c = Some u /\ c_realm c = Some r /\
    cfg_auth cfg u r = Some (uid, key) /\
    c_nonce c = NonceMinted m /\ m <= cur_minute s /\ cur_minute s - m <= 60.
Proof. exact auth_ok_sound. Qed.
Print Assumptions C03_accepted_credentials.

(* for all but Allocate: valid credentials of a user who did not create the allocation do nothing *)
Theorem C03_not_owner_is_noop : forall cfg s src tid c r uid s' acts,
  authenticate cfg s c = AuthOK uid ->
  (forall a, find_alloc src (allocs s) = Some a -> a_user a <> uid) ->
  match r with RqAllocate _ _ _ _ _ _ _ _ | RqBinding => False | _ => True end ->
  step cfg s (EReq src tid c r false) = (s', acts) -> s' = s /\ acts = [].
Proof. exact not_owner_is_noop. Qed.
Print Assumptions C03_not_owner_is_noop.

(* no credentials => 401 with a fresh nonce and the realm; stale nonce => 438 with a fresh nonce *)
Theorem C03_no_integrity_is_challenged : forall cfg s c, c_mi c = None -> authenticate cfg s c = AuthReply 401 true.
Proof. intros cfg s c H. unfold authenticate. rewrite H. reflexivity. Qed.
Print Assumptions C03_no_integrity_is_challenged.

(* the nonce of a challenge issued now is accepted by the server for the following hour,
   and no longer than 60 minute-ticks; a future-dated one never is *)
Theorem C03_challenge_nonce_accepted : forall s s',
  epoch_min s' = epoch_min s -> now s <= now s' -> now s' - now s <= 3600 * sec ->
  nonce_valid s' (NonceMinted (cur_minute s)) = true.
Proof. exact fresh_nonce_accepted. Qed.
Print Assumptions C03_challenge_nonce_accepted.
Theorem C03_stale_nonce_rejected : forall s m, 60 < cur_minute s - m -> nonce_valid s (NonceMinted m) = false.
Proof. exact stale_nonce_rejected. Qed.
Print Assumptions C03_stale_nonce_rejected.
Theorem C03_future_nonce_rejected : forall s m, cur_minute s < m -> nonce_valid s (NonceMinted m) = false.
Proof. exact future_nonce_rejected. Qed.
Print Assumptions C03_future_nonce_rejected.
Theorem C03_foreign_nonce_rejected : forall s, nonce_valid s NonceForeign = false.
Proof. reflexivity. Qed.
Print Assumptions C03_foreign_nonce_rejected.

(* ---------- history level ---------- *)
From Turn Require Import Common RelayCheck RelayProps RelayTrace RelayTime RelayTime7 RelayTrace2.
(* The predicate evaluated on the implementation's observed traces (chk_C03: ownership and time taken from the lifecycle
   callbacks and ticks only; a request that does not authenticate changes nothing and gets exactly one error, 401/438 as
   challenges; valid credentials of a non-owner change nothing and get no answer) holds on every trace of the model. *)
Theorem C03_predicate_holds_on_every_model_trace : forall cfg ep h, chk_C03 (model_case cfg ep h) = true.
Proof. exact chk_C03_on_model. Qed.
Print Assumptions C03_predicate_holds_on_every_model_trace.

(* every error answer means the request changed nothing *)
Theorem C03_error_changes_nothing : forall cfg s src tid c r unk s' acts d m t code ch,
  step cfg s (EReq src tid c r unk) = (s', acts) -> In (Error d m t code ch) acts -> s' = s /\ acts = [Error d m t code ch].
Proof. exact error_means_unchanged. Qed.
Print Assumptions C03_error_changes_nothing.

(* ---------- the RFC 6062 path ---------- *)
From Turn Require Import TcpRelay C16Check C04TcpCheck C03TcpCheck TcpIso TcpTrace.
(* on every history of TCP-relay events (any number of allocations and users; connection ids fresh, as for C16): a
   ConnectionBind succeeds only for the user that owns the allocation the connection was announced to, only for an
   announced id, once and within 30 s; and a refused ConnectionBind - another user's valid credentials, an unknown id -
   changes nothing: the owner's own timely ConnectionBind still succeeds. The same predicate is evaluated on the real
   server's traces by TestVerif_C03TCP. *)
Theorem C03_tcp_bind_authorisation_on_every_model_trace : forall h, cids_fresh [] h -> C03TcpCheck.run (tmodel_case h) = (true, true).
Proof. exact c03_tcp_on_model. Qed.
Print Assumptions C03_tcp_bind_authorisation_on_every_model_trace.
