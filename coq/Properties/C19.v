(* C19 — responses are correlated, truthful and idempotent under retransmission. *)
From Turn Require Import Bytes ChanData Relay RelayBase RelayInv RelayGates RelayLocal RelayMore.
Open Scope Z_scope.

(* everything a request causes to be sent is a response to the request's source address carrying the
   request's transaction id and method (or a lifecycle callback); no other event produces a response *)
Theorem C19_correlation : forall cfg s src tid c r unk s' acts,
  step cfg s (EReq src tid c r unk) = (s', acts) -> Forall (reply_to src (req_method r) tid) acts.
Proof. exact req_reply. Qed.
Print Assumptions C19_correlation.

Theorem C19_binding_truthful : forall cfg s src tid c,
  step cfg s (EReq src tid c RqBinding false) = (s, [Success src MBinding tid [SMapped src]]).
Proof. exact binding_truthful. Qed.
Print Assumptions C19_binding_truthful.

(* Allocate success reports the source as mapped address, the relayed address of the allocation just
   created (at which peers' datagrams reach exactly this allocation, C02) and the lifetime armed *)
Theorem C19_allocate_truthful : forall cfg s src tid c tr lt fam df rp ep rt mt s' acts attrs,
  step cfg s (EReq src tid c (RqAllocate tr lt fam df rp ep rt mt) false) = (s', acts) ->
  In (Success src MAllocate tid attrs) acts -> find_alloc src (allocs s) = None ->
  exists a relay, allocs s' = allocs s ++ [a] /\ a_client a = src /\ a_relay a = relay /\
    a_perms a = [] /\ a_chans a = [] /\ a_dl a = now s + granted_lifetime cfg lt /\
    attrs = [SRelayed relay; SLifetime (granted_lifetime cfg lt / sec); SMapped src] ++ (if ep then [SToken mt] else []) /\
    (exists uid, authenticate cfg s c = AuthOK uid /\ a_user a = uid).
Proof. exact allocate_success. Qed.
Print Assumptions C19_allocate_truthful.

(* a retransmitted Allocate (same transaction id) gets the same success again and a different one
   gets 437; neither creates or changes anything *)
Theorem C19_retransmit_idempotent_and_437 : forall cfg s src tid c tr lt fam df rp ep rt mt a uid,
  authenticate cfg s c = AuthOK uid -> find_alloc src (allocs s) = Some a ->
  step cfg s (EReq src tid c (RqAllocate tr lt fam df rp ep rt mt) false) =
    (s, if (a_tid a =? tid)%N then [Success src MAllocate tid (a_cache a)] else [Error src MAllocate tid 437%N false]).
Proof. exact allocate_existing. Qed.
Print Assumptions C19_retransmit_idempotent_and_437.

(* unknown comprehension-required attributes: 420 with the request's method and id, handler not run *)
Theorem C19_unknown_attributes : forall cfg s src tid c r,
  step cfg s (EReq src tid c r true) = (s, [Error src (req_method r) tid 420%N false]).
Proof. exact unknown_attributes_420. Qed.
Print Assumptions C19_unknown_attributes.

(* EVEN-PORT: a success means an even relayed port, the minted RESERVATION-TOKEN in the response (and hence in
   the cached success a retransmission gets), and a 30 s reservation of the next-higher port *)
Theorem C19_even_port : forall cfg s src tid c tr lt fam df rp rt mt s' acts attrs,
  step cfg s (EReq src tid c (RqAllocate tr lt fam df rp true rt mt) false) = (s', acts) ->
  In (Success src MAllocate tid attrs) acts -> find_alloc src (allocs s) = None ->
  exists p, rp = Some p /\ N.even p = true /\ In (SToken mt) attrs /\
            rsvs s' = rsvs s ++ [{| r_tok := mt; r_port := p; r_dl := now s + rsv_lifetime |}].
Proof. exact allocate_evenport. Qed.
Print Assumptions C19_even_port.

(* RESERVATION-TOKEN: accepted only without EVEN-PORT, for a live reservation, on exactly the reserved port *)
Theorem C19_reservation_token : forall cfg s src tid c tr lt fam df rp ep t mt s' acts attrs,
  step cfg s (EReq src tid c (RqAllocate tr lt fam df rp ep (APresent t) mt) false) = (s', acts) ->
  In (Success src MAllocate tid attrs) acts -> find_alloc src (allocs s) = None ->
  ep = false /\ exists r, find_rsv t (rsvs s) = Some r /\ rp = Some (r_port r + 1)%N.
Proof. exact allocate_with_token. Qed.
Print Assumptions C19_reservation_token.

Theorem C19_reservation_expiry : forall s dt s' acts r,
  h_tick s dt = (s', acts) -> (In r (rsvs s') <-> In r (rsvs s) /\ now s + Z.max 0 dt < r_dl r).
Proof. exact reservation_expiry. Qed.
Print Assumptions C19_reservation_expiry.

(* ---------- history level ---------- *)
From Turn Require Import Common RelayCheck RelayProps RelayTrace.
(* the predicate evaluated on the implementation's observed traces (chk_C19, including "no other live allocation has the
   relayed address" and "a retransmission gets exactly the attributes of the original success") holds on every trace of
   the model in which the relay address generator never hands out a port that a live allocation holds (env_ok: the
   environment's part of the bargain, C20 for the bundled generators) *)
Theorem C19_predicate_holds_on_every_model_trace : forall cfg ep h, env_ok cfg (init ep) h -> chk_C19 (model_case cfg ep h) = true.
Proof. exact chk_C19_model. Qed.
Print Assumptions C19_predicate_holds_on_every_model_trace.

(* every error answer - 437 included - means the request changed nothing and the error is all that happened *)
Theorem C19_error_changes_nothing : forall cfg s src tid c r unk s' acts d m t code ch,
  step cfg s (EReq src tid c r unk) = (s', acts) -> In (Error d m t code ch) acts -> s' = s /\ acts = [Error d m t code ch].
Proof. exact error_means_unchanged. Qed.
Print Assumptions C19_error_changes_nothing.
