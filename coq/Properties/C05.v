(* C05 — relayed payloads arrive intact, exactly once, with truthful peer attribution. *)
From Turn Require Import Bytes ChanData Attrs Relay RelayBase RelayInv RelayGates RelayLocal RelayMore BytesP ChanDataP AttrsP.
Open Scope Z_scope.

(* client -> peer: at most ONE datagram per Send / ChannelData, with exactly the submitted bytes,
   from the allocation's relayed address (see C01 for the authorisation side) *)
Theorem C05_send_intact_once : forall cfg s src peer data s' acts,
  step cfg s (ESend src peer data) = (s', acts) ->
  s' = s /\
  (acts = [] \/
   exists a p d pm, acts = [ToPeer (a_relay a) p d] /\ peer = Some (PeerOk p) /\ data = Some d /\
     find_alloc src (allocs s) = Some a /\ find_perm (ip p) (a_perms a) = Some pm /\
     a_proto a = 17%N /\ (send_wire_len p d < cfg_mtu cfg)%N).
Proof. exact h_send_spec. Qed.
Print Assumptions C05_send_intact_once.

Theorem C05_chandata_intact_once : forall cfg s src n d s' acts,
  step cfg s (EChanData src n d) = (s', acts) ->
  s' = s /\
  (acts = [] \/
   exists a c, acts = [ToPeer (a_relay a) (c_peer c) d] /\
     find_alloc src (allocs s) = Some a /\ find_chan_num n (a_chans a) = Some c /\
     a_proto a = 17%N /\ (chandata_wire_len d < cfg_mtu cfg)%N).
Proof. exact h_chandata_spec. Qed.
Print Assumptions C05_chandata_intact_once.

(* peer -> client: at most ONE frame, to the owner, with exactly the received bytes; the peer is
   named truthfully (the datagram's real source, or the number bound to that exact source);
   a datagram longer than the relay buffer (1600) yields nothing at all - never a cut payload *)
Theorem C05_peer_to_client_intact_once : forall s relay from d s' acts,
  h_peer s relay from d = (s', acts) ->
  s' = s /\
  (acts = [] \/
   exists a, find_relay relay (allocs s) = Some a /\ a_proto a = 17%N /\ (lenN d <= rtp_mtu)%N /\
     ((exists c, find_chan_peer from (a_chans a) = Some c /\ acts = [ChanDataOut (a_client a) (c_num c) d]) \/
      (find_chan_peer from (a_chans a) = None /\ exists pm, find_perm (ip from) (a_perms a) = Some pm /\
         acts = [DataInd (a_client a) from d]))).
Proof. exact h_peer_spec. Qed.
Print Assumptions C05_peer_to_client_intact_once.

(* the two encapsulations are lossless at byte level (C11): what the relay writes for
   ChanDataOut n d is cd_encode n d, which decodes to exactly (n, d) for every payload up to 65535
   bytes; XOR-PEER-ADDRESS decodes to the address that was encoded *)
Theorem C05_chandata_encapsulation_lossless : forall n d, (n < 65536)%N -> (lenN d < 65536)%N -> valid_chan n = true ->
  cd_decode (cd_encode n d) = CdOk n d.
Proof. intros n d Hn Hd Hv. rewrite cd_decode_encode by assumption. rewrite Hv. reflexivity. Qed.
Print Assumptions C05_chandata_encapsulation_lossless.

Theorem C05_peer_address_encapsulation_lossless : forall tid ip port,
  length tid = 12%nat -> (port < 65536)%N -> (length ip = 4%nat \/ length ip = 16%nat) ->
  exists v, enc_xoraddr tid ip port = AOk v /\ dec_xoraddr tid v = AOk (canon_ip ip, port).
Proof. exact xoraddr_roundtrip. Qed.
Print Assumptions C05_peer_address_encapsulation_lossless.

(* ---------- history level ---------- *)
From Turn Require Import Common RelayCheck RelayProps RelayTrace RelayTime RelayTime7 RelayTrace2.
(* the predicate evaluated on the implementation's observed traces (chk_C05: the two gates, oversize peer datagrams
   dropped, ChannelData numbers in range, AND "relaying authorised by what exists before the event => the datagram is
   forwarded, exactly once") holds on every trace of the model *)
Theorem C05_predicate_holds_on_every_model_trace : forall cfg ep h, cfg_relay_wf cfg -> chk_C05 (model_case cfg ep h) = true.
Proof. exact chk_C05_model. Qed.
Print Assumptions C05_predicate_holds_on_every_model_trace.
