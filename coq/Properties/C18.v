(* C18 - Concurrent use is free of data races, lock-ups and teardown crashes.
   The part of C18 that does not depend on the generated program: the checker's soundness, why a ranked
   acquisition order excludes lock deadlock, and the safety of the teardown interleavings for ANY step order
   that passes orders_ok.  The obligations on the code itself (the generated lock skeletons and the
   extracted step orders) are in Properties/C18Gen.v, compiled on every run against Gen/LockSkelGen.v. *)
From Turn Require Import Bytes LockSkel LockSkelP Teardown TeardownP.
Open Scope N_scope.

(* (1) a program accepted by the checker: every listed function, started with the locks its documentation
   says the caller holds, never releases a lock it does not hold, never touches a guarded field and never
   reaches a "caller must hold" point without the lock - in itself or in anything it calls -, and on EVERY
   control-flow path (any branch, any number of loop iterations, early returns) leaves exactly those locks
   held after its deferred unlocks; and all acquisitions respect one strict ranking of the locks *)
Theorem C18_checker_sound : forall guard prog fuel fs, program_ok guard prog fuel fs = true ->
  exists (rk : N -> N) (E : list (N * N)),
    (forall n pre, In (n, pre) fs -> fn_ok guard prog E n pre) /\
    (forall h l, In (h, l) E -> rk h < rk l).
Proof. exact program_ok_sound. Qed.
Print Assumptions C18_checker_sound.

(* (2) threads that only ever block on a lock ranked strictly above everything they hold cannot form a
   wait-for cycle: no lock deadlock *)
Theorem C18_no_waitfor_cycle : forall rk a l, respects rk a -> Forall (respects rk) l -> ~ wpath a l a.
Proof. exact ranked_no_waitfor_cycle. Qed.
Print Assumptions C18_no_waitfor_cycle.

(* (3) teardown: for every step order accepted by orders_ok, every number of concurrent AddPermission /
   AddChannelBind / Close calls and every interleaving with each other and with timer expiries: no nil timer
   is stopped or reset, no mutex is unlocked twice, every published permission has its timer, every published
   channel has its timer whenever channelBindingsLock is free *)
Theorem C18_teardown_safe : forall ordp ordc, orders_ok ordp ordc = true ->
  forall th sched, forallb initial th = true ->
    let (s, th') := wrun ordp ordc sched (init, th) in
    crashed s = false /\
    (forall a p, In (a, p) (pmap s) -> has_id p (parmed s) = true) /\
    (chlock s = false -> forall a c, In (a, c) (cmap s) -> has_id c (carmed s) = true).
Proof. exact teardown_safe. Qed.
Print Assumptions C18_teardown_safe.

(* the order of the repaired code is accepted (the hypothesis of (3) is satisfiable) ... *)
Example C18_fixed_order_ok : orders_ok ordp_fixed ordc_code = true.
Proof. vm_compute. reflexivity. Qed.

(* ... and the order of the pinned tree (publish, callback, then arm: finding F8) is refuted: an expiry that
   lands between publication and arming stops a nil timer *)
Theorem C18_pinned_order_refuted : exists th sched,
  forallb initial th = true /\ crashed (fst (wrun ordp_pinned ordc_code sched (init, th))) = true.
Proof.
  exists [TAddPerm 7; TClose0], [Run 0; Run 0; Run 1; Run 1; Run 1; Run 1]%nat.
  vm_compute. split; reflexivity.
Qed.
Print Assumptions C18_pinned_order_refuted.

(* (4) lock-ups in the teardown interleavings. In every reachable state (any step orders accepted by orders_ok, any
   threads, any interleaving with each other and with timer expiries) in which some call has not returned, some such call
   is not blocked: nobody waits for channelBindingsLock while its holder is itself waiting ... *)
From Turn Require Import C18Check TeardownLive.
Theorem C18_no_lockup : forall ordp ordc, orders_ok ordp ordc = true -> forall th sched, forallb initial th = true ->
  let w := wrun ordp ordc sched (init, th) in
  (exists i t, nth_error (snd w) i = Some t /\ t <> TDone) ->
  exists i t, nth_error (snd w) i = Some t /\ t <> TDone /\ blockedb (fst w) t = false.
Proof. exact no_lockup_reachable. Qed.
Print Assumptions C18_no_lockup.

(* ... and every step of a call that is neither finished nor blocked strictly decreases the measure M (the steps the
   adders still have to take, weighted, plus what the closers still have to walk through given the present size of the
   two tables): every scheduler that keeps running such calls makes all of them return within M steps *)
Theorem C18_every_step_makes_progress : forall ordp ordc, orders_ok ordp ordc = true -> forall w i t,
  Inv ordp w -> nth_error (snd w) i = Some t -> t <> TDone -> blockedb (fst w) t = false ->
  (M ordp ordc (wstep ordp ordc w (Run i)) < M ordp ordc w)%nat.
Proof. intros ordp ordc H. exact (step_decreases ordp ordc H). Qed.
Print Assumptions C18_every_step_makes_progress.

Theorem C18_all_calls_return : forall ordp ordc, orders_ok ordp ordc = true -> forall th sched, forallb initial th = true ->
  let w := wrun ordp ordc sched (init, th) in
  exists more, (length more <= M ordp ordc w)%nat /\ forallb is_done (snd (wrun ordp ordc more w)) = true.
Proof.
  intros ordp ordc H th sched Hi w. apply (all_calls_return ordp ordc H (M ordp ordc w)); [|apply le_n].
  apply (wrun_inv ordp ordc H). apply init_inv. exact Hi.
Qed.
Print Assumptions C18_all_calls_return.
