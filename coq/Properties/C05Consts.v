From Turn Require Import Bytes Relay ConstsGen.
Open Scope Z_scope.
Theorem C05_const_rtp_mtu : src_allocation_rtpMTU = Z.of_N rtp_mtu.
Proof. reflexivity. Qed.
Theorem C05_const_proto_udp : src_proto_ProtoUDP = 17.
Proof. reflexivity. Qed.
Theorem C05_const_proto_tcp : src_proto_ProtoTCP = 6.
Proof. reflexivity. Qed.
