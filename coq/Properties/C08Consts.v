From Turn Require Import Bytes ChanData ConstsGen.
Open Scope Z_scope.
Theorem C08_const_min_channel : src_proto_MinChannelNumber = Z.of_N min_chan.
Proof. reflexivity. Qed.
Theorem C08_const_max_channel : src_proto_MaxChannelNumber = Z.of_N max_chan.
Proof. reflexivity. Qed.
