(* C07 — permissions and channel bindings live one full timeout past their last refresh. *)
From Turn Require Import Bytes ChanData Relay RelayBase RelayInv RelayGates RelayLocal RelayMore.
Open Scope Z_scope.

(* a successful CreatePermission sets the deadline of every named IP to now + the permission
   timeout - the full timeout, whatever was left - and moves no other permission, no channel and
   not the allocation's own lifetime *)
Theorem C07_create_permission_restarts_full_timeout : forall cfg s src tid uid peers s' acts,
  NoDup (map a_client (allocs s)) ->
  h_create_perm cfg s src tid uid peers = (s', acts) -> In (Success src MCreatePerm tid []) acts ->
  exists a a', owned_alloc s src uid = Some a /\ find_alloc src (allocs s') = Some a' /\
    peers <> [] /\ perm_check cfg a peers = None /\
    (forall p, In (PeerOk p) peers ->
        find_perm (ip p) (a_perms a') = Some {| p_ip := ip p; p_dl := now s + cfg_perm_timeout cfg |}) /\
    (forall j, ~ In j (flat_map (fun q => match q with PeerOk x => [ip x] | PeerBad => [] end) peers) ->
        find_perm j (a_perms a') = find_perm j (a_perms a)) /\
    a_chans a' = a_chans a /\ a_dl a' = a_dl a.
Proof. exact create_perm_success. Qed.
Print Assumptions C07_create_permission_restarts_full_timeout.

(* a successful ChannelBind of an existing (number, peer) restarts the channel for the channel
   timeout AND the permission of the peer's IP for the PERMISSION timeout *)
Theorem C07_channel_bind_restarts_both : forall cfg s src tid uid n p a c,
  owned_alloc s src uid = Some a -> alloc_ok cfg a ->
  find_chan_num n (a_chans a) = Some c -> c_peer c = p ->
  exists s' evs a', h_channel_bind cfg s src tid uid (APresent n) (Some (PeerOk p)) = (s', evs ++ [Success src MChannelBind tid []]) /\
    Forall is_life evs /\
    allocs s' = replace_alloc a' (allocs s) /\ a_client a' = a_client a /\
    find_perm (ip p) (a_perms a') = Some {| p_ip := ip p; p_dl := now s + cfg_perm_timeout cfg |} /\
    map (fun c => (c_num c, c_peer c)) (a_chans a') = map (fun c => (c_num c, c_peer c)) (a_chans a) /\
    (forall c', In c' (a_chans a') -> c_num c' = n -> c_dl c' = now s + cfg_chan_timeout cfg).
Proof. exact channel_bind_same. Qed.
Print Assumptions C07_channel_bind_restarts_both.

(* until the deadline the entry is there (and authorises, C01/C02); from the deadline on it is not *)
Theorem C07_expiry_is_exact : forall t a,
  (a_dl a <= t -> fst (tick_alloc t a) = None) /\
  (t < a_dl a -> exists a', fst (tick_alloc t a) = Some a' /\ a_dl a' = a_dl a /\ a_client a' = a_client a /\
      a_relay a' = a_relay a /\
      (forall p, In p (a_perms a') <-> In p (a_perms a) /\ t < p_dl p) /\
      (forall c, In c (a_chans a') <-> In c (a_chans a) /\ t < c_dl c)).
Proof. exact tick_alloc_exact. Qed.
Print Assumptions C07_expiry_is_exact.

Theorem C07_present_is_unexpired : forall cfg ep h, cfg_positive cfg ->
  Forall (alloc_live (now (final cfg (init ep) h))) (allocs (final cfg (init ep) h)).
Proof. exact present_is_unexpired. Qed.
Print Assumptions C07_present_is_unexpired.

(* a request that is answered with an error installs or refreshes nothing (all-or-nothing) *)
Theorem C07_failed_create_permission_changes_nothing : forall cfg s src tid uid peers a code,
  owned_alloc s src uid = Some a -> perm_check cfg a peers = Some code ->
  h_create_perm cfg s src tid uid peers = (s, [Error src MCreatePerm tid code false]).
Proof. intros cfg s src tid uid peers a code Ho Hc. unfold h_create_perm. rewrite Ho, Hc. reflexivity. Qed.
Print Assumptions C07_failed_create_permission_changes_nothing.

(* after expiry the number and the peer are free again: the conflict checks only see what is in the state *)
Example C07_rebind_after_expiry :
  let cfg := Build_config 1 (600 * sec) (300 * sec) (2 * sec) 1600 false LV4 10 20 true
               (fun u r => Some (u, 7%N)) (fun _ _ => true) (fun _ _ _ => true) in
  let cr := Build_cred (Some 7%N) true (NonceMinted 100) (Some 1%N) (Some 1%N) in
  let c := {| ip := 281470698520578; port := 5000 |} in
  let p := {| ip := 281470698652161; port := 7000 |} in
  let q := {| ip := 281470698652162; port := 7000 |} in
  map (filter (fun a => match a with Life _ => false | _ => true end)) (snd (run cfg (init 100)
    [EReq c 1 cr (RqAllocate (APresent 17%N) AAbsent AAbsent false (Some 49152%N) false AAbsent 0%N) false;
     EReq c 2 cr (RqChannelBind (APresent 16384%N) (Some (PeerOk p))) false;
     EReq c 3 cr (RqChannelBind (APresent 16384%N) (Some (PeerOk q))) false;
     EReq c 4 cr (RqChannelBind (APresent 16385%N) (Some (PeerOk p))) false;
     ETick (2 * sec - 1);
     EReq c 5 cr (RqChannelBind (APresent 16384%N) (Some (PeerOk q))) false;
     ETick 1;
     EReq c 6 cr (RqChannelBind (APresent 16384%N) (Some (PeerOk q))) false;
     EReq c 7 cr (RqChannelBind (APresent 16385%N) (Some (PeerOk p))) false]))
  = [ [Success c MAllocate 1 [SRelayed {| ip := 10; port := 49152 |}; SLifetime 600; SMapped c]];
      [Success c MChannelBind 2 []]; [Error c MChannelBind 3 400 false]; [Error c MChannelBind 4 400 false];
      []; [Error c MChannelBind 5 400 false]; []; [Success c MChannelBind 6 []]; [Success c MChannelBind 7 []] ].
Proof. vm_compute. reflexivity. Qed.

(* ---------- history level: refinement of the timeout specification ---------- *)
From Turn Require Import Common RelayCheck RelayProps RelayTrace RelayTime RelayTime7 RelayTrace2.
(* The specification evaluated on the implementation's observed traces (chk_C07) holds on EVERY trace of the model:
   reconstructed from the success responses alone - a successful CreatePermission restarts the full permission timeout of
   every peer it names, a successful ChannelBind restarts the full channel timeout of that binding and the permission
   timeout of its peer, the end of an allocation ends everything it owned - the permissions and channel bindings whose
   timeout has not elapsed are, after every step and at every instant, exactly the ones that exist. *)
Theorem C07_timeout_specification_refined : forall cfg, cfg_positive cfg -> cfg_seconds cfg ->
  forall ep h, chk_C07 (model_case cfg ep h) = true.
Proof. exact chk_C07_on_model. Qed.
Print Assumptions C07_timeout_specification_refined.

(* "until then the entry always authorises relaying": on every trace of the model, whenever a permission or a channel
   binding is present before a Send / ChannelData / peer datagram (UDP allocation, datagram within the size limits) the
   datagram is forwarded, exactly once; together with the refinement above this is the predicate Check/C07Check.chk
   evaluated on the implementation's traces *)
Theorem C07_present_entries_authorise_relaying : forall cfg ep h,
  chk_C05_live cfg [] [] (rc_steps (model_case cfg ep h)) = true.
Proof.
  intros cfg ep h. unfold model_case. cbn [rc_steps]. change (@nil obs_alloc) with (listing_of (init ep)).
  apply chk_C05_live_model; [apply inv_init|intros a []].
Qed.
Print Assumptions C07_present_entries_authorise_relaying.
From Turn Require Import C07Check.
Theorem C07_checked_predicate_holds_on_every_model_trace : forall cfg, cfg_positive cfg -> cfg_seconds cfg ->
  forall ep h, C07Check.chk (model_case cfg ep h) = true.
Proof.
  intros cfg Hp Hs ep h. unfold C07Check.chk. rewrite (chk_C07_on_model cfg Hp Hs ep h). cbn [andb rc_cfg model_case].
  exact (C07_present_entries_authorise_relaying cfg ep h).
Qed.
Print Assumptions C07_checked_predicate_holds_on_every_model_trace.

(* the reconstructed permission table agrees key by key with the model's, across any step *)
Theorem C07_reconstructed_permission_table : forall cfg, cfg_positive cfg -> cfg_seconds cfg ->
  forall s e s' acts pe ce, inv cfg s -> dl_inv s -> pagree pe s -> step cfg s e = (s', acts) ->
  pagree (filter (fun x => existsb (fun a => addr_eqb (oa_client a) (fst (fst x))) (listing_of s'))
            (fst (c07_update cfg (now s') {| os_ev := e; os_acts := acts; os_allocs := listing_of s' |} pe ce))) s'.
Proof. exact perm_step. Qed.
Print Assumptions C07_reconstructed_permission_table.
