From Turn Require Import Bytes ClientTx ConstsGen.
Open Scope Z_scope.
Theorem C12_const_max_rtx_count : src_turn_maxRtxCount = Z.of_nat max_rtx_count.
Proof. reflexivity. Qed.
Theorem C12_const_max_rtx_interval : src_client_maxRtxInterval = max_rtx_interval.
Proof. reflexivity. Qed.
(* the default RTO, for which Properties/C12.v works the schedule out (7.8 s in total) *)
Theorem C12_const_default_rto : src_turn_defaultRTO = 200000000.
Proof. reflexivity. Qed.
