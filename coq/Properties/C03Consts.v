(* C03: the numeric parameters of the source (Gen/ConstsGen.v, regenerated from /repo on every run) are the ones the model uses *)
From Turn Require Import Bytes Relay ConstsGen.
Open Scope Z_scope.
(* a nonce is accepted for 60 minutes (nonce_valid: cur_minute - m <= 60) *)
Theorem C03_const_nonce_lifetime : src_server_shortNonceLifetime = 60 * (60 * sec).
Proof. reflexivity. Qed.
