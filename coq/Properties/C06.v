(* C06 — allocation lifetime, refresh and deletion are exact. *)
From Turn Require Import Bytes ChanData Relay RelayBase RelayInv RelayGates RelayLocal RelayMore.
Open Scope Z_scope.

(* the granted lifetime, for every requested value 0 .. 2^32-1 (and absent / malformed) *)
Theorem C06_grant_rule : forall cfg l,
  granted_lifetime cfg l =
  match l with
  | APresent secs => if (secs <? 3600)%N then Z.of_N secs * sec else cfg_alloc_lifetime cfg
  | _ => cfg_alloc_lifetime cfg
  end.
Proof. exact grant_rule. Qed.
Print Assumptions C06_grant_rule.

(* Allocate success: the allocation is created by this very step, its timer is armed for exactly
   the granted lifetime, and the LIFETIME attribute reports that value (in whole seconds) *)
Theorem C06_allocate_arms_what_it_reports : forall cfg s src tid c tr lt fam df rp ep rt mt s' acts attrs,
  step cfg s (EReq src tid c (RqAllocate tr lt fam df rp ep rt mt) false) = (s', acts) ->
  In (Success src MAllocate tid attrs) acts -> find_alloc src (allocs s) = None ->
  exists a relay, allocs s' = allocs s ++ [a] /\ a_client a = src /\ a_relay a = relay /\
    a_perms a = [] /\ a_chans a = [] /\ a_dl a = now s + granted_lifetime cfg lt /\
    attrs = [SRelayed relay; SLifetime (granted_lifetime cfg lt / sec); SMapped src] ++ (if ep then [SToken mt] else []) /\
    (exists uid, authenticate cfg s c = AuthOK uid /\ a_user a = uid).
Proof. exact allocate_success. Qed.
Print Assumptions C06_allocate_arms_what_it_reports.

(* Refresh success: re-armed to exactly the reported lifetime from now; 0 removes it immediately *)
Theorem C06_refresh_rearms_or_deletes : forall cfg s src tid c lt fam s' acts secs,
  NoDup (map a_client (allocs s)) ->
  step cfg s (EReq src tid c (RqRefresh lt fam) false) = (s', acts) ->
  In (Success src MRefresh tid [SLifetime secs]) acts ->
  secs = granted_lifetime cfg lt / sec /\
  ((granted_lifetime cfg lt = 0 /\ find_alloc src (allocs s') = None) \/
   (granted_lifetime cfg lt <> 0 /\ exists a a', find_alloc src (allocs s) = Some a /\
      find_alloc src (allocs s') = Some a' /\ a_dl a' = now s + granted_lifetime cfg lt /\
      a_perms a' = a_perms a /\ a_chans a' = a_chans a /\ a_relay a' = a_relay a)).
Proof. exact refresh_success. Qed.
Print Assumptions C06_refresh_rearms_or_deletes.

(* time passing: an allocation survives to instant t iff t is before its deadline - "until exactly
   the reported lifetime has elapsed, and no longer"; its permissions and channels go with it *)
Theorem C06_expiry_is_exact : forall t a,
  (a_dl a <= t -> fst (tick_alloc t a) = None) /\
  (t < a_dl a -> exists a', fst (tick_alloc t a) = Some a' /\ a_dl a' = a_dl a /\ a_client a' = a_client a /\
      a_relay a' = a_relay a /\
      (forall p, In p (a_perms a') <-> In p (a_perms a) /\ t < p_dl p) /\
      (forall c, In c (a_chans a') <-> In c (a_chans a) /\ t < c_dl c)).
Proof. exact tick_alloc_exact. Qed.
Print Assumptions C06_expiry_is_exact.

(* nothing else moves an allocation's deadline: requests of other 5-tuples, data and peer traffic *)
Theorem C06_others_do_not_touch_it : forall cfg s src tid c r unk s' acts,
  step cfg s (EReq src tid c r unk) = (s', acts) ->
  (forall a, a_client a <> src -> (In a (allocs s) <-> In a (allocs s'))) /\ now s' = now s.
Proof. exact req_locality. Qed.
Print Assumptions C06_others_do_not_touch_it.

(* in every reachable state whatever exists has not reached its deadline *)
Theorem C06_present_is_unexpired : forall cfg ep h, cfg_positive cfg ->
  Forall (alloc_live (now (final cfg (init ep) h))) (allocs (final cfg (init ep) h)).
Proof. exact present_is_unexpired. Qed.
Print Assumptions C06_present_is_unexpired.

(* once gone: its 5-tuple relays nothing, its relayed address relays nothing, and a later allocation
   (by anyone, on any relay port) starts with empty permission and channel tables *)
Theorem C06_gone_client_relays_nothing : forall cfg s src,
  find_alloc src (allocs s) = None ->
  (forall p d, step cfg s (ESend src p d) = (s, [])) /\ (forall n d, step cfg s (EChanData src n d) = (s, [])).
Proof. exact gone_is_gone_client. Qed.
Print Assumptions C06_gone_client_relays_nothing.
Theorem C06_gone_relay_relays_nothing : forall cfg s relay from d,
  find_relay relay (allocs s) = None -> step cfg s (EPeer relay from d) = (s, []).
Proof. exact gone_is_gone_relay. Qed.
Print Assumptions C06_gone_relay_relays_nothing.
Theorem C06_new_allocation_starts_empty : forall cfg s src tid c tr lt fam df rp ep rt mt s' acts attrs,
  step cfg s (EReq src tid c (RqAllocate tr lt fam df rp ep rt mt) false) = (s', acts) ->
  In (Success src MAllocate tid attrs) acts -> find_alloc src (allocs s) = None ->
  exists a, allocs s' = allocs s ++ [a] /\ a_perms a = [] /\ a_chans a = [].
Proof. exact new_allocation_is_empty. Qed.
Print Assumptions C06_new_allocation_starts_empty.

(* ---------- history level: refinement of the lifetime specification ---------- *)
From Turn Require Import Common RelayCheck RelayProps RelayTrace RelayTime.
(* The specification the correspondence evaluates on the IMPLEMENTATION's observed traces (Check/RelayProps.chk_C06)
   holds on EVERY trace of the model, for every configuration with positive timeouts whose default lifetime is a whole
   number of seconds and every history: reconstructed from the success responses alone (an Allocate or Refresh success
   sets the expiry to "now + reported LIFETIME", a Refresh answered with LIFETIME 0 and a relay failure end it), the set
   of clients whose lifetime has not elapsed equals, after every step and at every instant, the set of allocations that
   exist; and every reported LIFETIME is the one the grant rule gives. *)
Theorem C06_lifetime_specification_refined : forall cfg, cfg_seconds cfg -> cfg_positive cfg ->
  forall ep h, chk_C06 (model_case cfg ep h) = true.
Proof. exact chk_C06_on_model. Qed.
Print Assumptions C06_lifetime_specification_refined.

(* the table of expiry instants reconstructed from the responses is, after every step, a permutation of the deadlines
   the allocations carry *)
Theorem C06_reconstructed_expiries_are_the_deadlines : forall cfg, cfg_seconds cfg -> cfg_positive cfg ->
  forall s e s' acts exp, inv cfg s -> dl_inv s -> Permutation.Permutation exp (dlmap (allocs s)) -> step cfg s e = (s', acts) ->
  Permutation.Permutation (c06_update (now s') {| os_ev := e; os_acts := acts; os_allocs := listing_of s' |} exp) (dlmap (allocs s')).
Proof. exact c06_update_perm. Qed.
Print Assumptions C06_reconstructed_expiries_are_the_deadlines.
