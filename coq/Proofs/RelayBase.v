(* Basic lemmas about the list operations of Model/Relay.v. *)
From Turn Require Import Bytes ChanData Relay.
From Coq Require Import ZifyN ZifyNat ZifyBool.
Open Scope Z_scope.

Lemma addr_eqb_refl a : addr_eqb a a = true.
Proof. unfold addr_eqb. rewrite !N.eqb_refl. reflexivity. Qed.

Lemma addr_eqb_eq a b : addr_eqb a b = true <-> a = b.
Proof.
  unfold addr_eqb. destruct a as [i p], b as [j q]; cbn. split.
  - intros H. apply andb_true_iff in H as [H1 H2]. apply N.eqb_eq in H1, H2. congruence.
  - intros H. inversion H; subst. rewrite !N.eqb_refl. reflexivity.
Qed.

Lemma addr_eqb_neq a b : addr_eqb a b = false <-> a <> b.
Proof. split; intros H.
  - intros E. apply addr_eqb_eq in E. congruence.
  - destruct (addr_eqb a b) eqn:E; [apply addr_eqb_eq in E; contradiction|reflexivity].
Qed.

Lemma addr_eqb_sym a b : addr_eqb a b = addr_eqb b a.
Proof. unfold addr_eqb. rewrite (N.eqb_sym (ip a)), (N.eqb_sym (port a)). reflexivity. Qed.

(* ---------- find_alloc ---------- *)
Lemma find_alloc_some c l a : find_alloc c l = Some a -> In a l /\ a_client a = c.
Proof.
  induction l as [|x l IH]; cbn; [discriminate|].
  destruct (addr_eqb (a_client x) c) eqn:E.
  - intros H; inversion H; subst. apply addr_eqb_eq in E. auto.
  - intros H. apply IH in H as [H1 H2]. auto.
Qed.

Lemma find_alloc_none c l : find_alloc c l = None <-> ~ In c (map a_client l).
Proof.
  induction l as [|x l IH]; cbn; [tauto|].
  destruct (addr_eqb (a_client x) c) eqn:E.
  - apply addr_eqb_eq in E. split; [discriminate|]. intros H. exfalso. apply H. auto.
  - apply addr_eqb_neq in E. rewrite IH. tauto.
Qed.

Lemma find_relay_some r l a : find_relay r l = Some a -> In a l /\ a_relay a = r.
Proof.
  induction l as [|x l IH]; cbn; [discriminate|].
  destruct (addr_eqb (a_relay x) r) eqn:E.
  - intros H; inversion H; subst. apply addr_eqb_eq in E. auto.
  - intros H. apply IH in H as [H1 H2]. auto.
Qed.

(* ---------- replace / remove keep the client list ---------- *)
Lemma replace_alloc_clients a' l : map a_client (replace_alloc a' l) = map a_client l.
Proof.
  induction l as [|x l IH]; cbn; [reflexivity|].
  destruct (addr_eqb (a_client x) (a_client a')) eqn:E; cbn.
  - apply addr_eqb_eq in E. congruence.
  - congruence.
Qed.

Lemma replace_alloc_in a' l x : In x (replace_alloc a' l) -> x = a' \/ In x l.
Proof.
  induction l as [|y l IH]; cbn; [tauto|].
  destruct (addr_eqb (a_client y) (a_client a')); cbn; intros [H|H]; auto.
  apply IH in H. tauto.
Qed.

Lemma replace_alloc_other a' l x : In x (replace_alloc a' l) -> a_client x <> a_client a' -> In x l.
Proof.
  induction l as [|y l IH]; cbn; [tauto|].
  destruct (addr_eqb (a_client y) (a_client a')) eqn:E; cbn; intros [H|H] Hn; auto.
  subst. congruence.
Qed.

Lemma in_replace_alloc_other a' l x : In x l -> a_client x <> a_client a' -> In x (replace_alloc a' l).
Proof.
  induction l as [|y l IH]; cbn; [tauto|].
  destruct (addr_eqb (a_client y) (a_client a')) eqn:E; cbn; intros [H|H] Hn; auto.
  subst. apply addr_eqb_eq in E. contradiction.
Qed.

Lemma remove_alloc_in c l x : In x (remove_alloc c l) -> In x l.
Proof.
  induction l as [|y l IH]; cbn; [tauto|].
  destruct (addr_eqb (a_client y) c); cbn; [auto|]. intros [H|H]; auto.
Qed.

Lemma remove_alloc_clients_incl c l x : In x (map a_client (remove_alloc c l)) -> In x (map a_client l).
Proof.
  induction l as [|y l IH]; cbn; [tauto|].
  destruct (addr_eqb (a_client y) c); cbn; [auto|]. intros [H|H]; auto.
Qed.

Lemma remove_alloc_nodup c l : NoDup (map a_client l) -> NoDup (map a_client (remove_alloc c l)).
Proof.
  induction l as [|y l IH]; cbn; [auto|]. intros H. inversion H as [|? ? Hn Hd]; subst.
  destruct (addr_eqb (a_client y) c); cbn; [assumption|].
  constructor; [|auto]. intros Hin. apply Hn. eapply remove_alloc_clients_incl; eauto.
Qed.

Lemma remove_alloc_gone c l : NoDup (map a_client l) -> ~ In c (map a_client (remove_alloc c l)).
Proof.
  induction l as [|y l IH]; cbn; [tauto|]. intros H. inversion H as [|? ? Hn Hd]; subst.
  destruct (addr_eqb (a_client y) c) eqn:E; cbn.
  - apply addr_eqb_eq in E. subst. assumption.
  - apply addr_eqb_neq in E. intros [H1|H1]; [contradiction|]. apply IH in H1; auto.
Qed.

Lemma remove_alloc_other c l x : In x l -> a_client x <> c -> In x (remove_alloc c l).
Proof.
  induction l as [|y l IH]; cbn; [tauto|].
  destruct (addr_eqb (a_client y) c) eqn:E; cbn; intros [H|H] Hn; auto.
  subst. apply addr_eqb_eq in E. contradiction.
Qed.

Lemma Forall_replace_alloc {P : alloc -> Prop} a' l : Forall P l -> P a' -> Forall P (replace_alloc a' l).
Proof. intros Hl Ha. apply Forall_forall. intros x Hx. apply replace_alloc_in in Hx as [->|Hx]; auto.
  rewrite Forall_forall in Hl. auto. Qed.

Lemma Forall_remove_alloc {P : alloc -> Prop} c l : Forall P l -> Forall P (remove_alloc c l).
Proof. intros Hl. apply Forall_forall. intros x Hx. apply remove_alloc_in in Hx. rewrite Forall_forall in Hl. auto. Qed.

(* ---------- perms and chans ---------- *)
Lemma find_perm_some i l p : find_perm i l = Some p -> In p l /\ p_ip p = i.
Proof.
  induction l as [|x l IH]; cbn; [discriminate|].
  destruct (N.eqb_spec (p_ip x) i).
  - intros H; inversion H; subst. auto.
  - intros H. apply IH in H as [? ?]. auto.
Qed.

Lemma find_perm_none i l : find_perm i l = None <-> ~ In i (map p_ip l).
Proof.
  induction l as [|x l IH]; cbn; [tauto|].
  destruct (N.eqb_spec (p_ip x) i); [split; [discriminate|intros H; exfalso; auto]|]. rewrite IH. tauto.
Qed.

Lemma upsert_perm_ips i dl l x : In x (map p_ip (upsert_perm i dl l)) <-> x = i \/ In x (map p_ip l).
Proof.
  induction l as [|y l IH]; cbn; [intuition|].
  destruct (N.eqb_spec (p_ip y) i); cbn; [subst; intuition|]. rewrite IH. intuition.
Qed.

Lemma upsert_perm_in i dl l p : In p (upsert_perm i dl l) -> p = {| p_ip := i; p_dl := dl |} \/ In p l.
Proof.
  induction l as [|y l IH]; cbn; [intuition|].
  destruct (N.eqb_spec (p_ip y) i); cbn; intros [H|H]; auto. apply IH in H. tauto.
Qed.

Lemma upsert_perm_nodup i dl l : NoDup (map p_ip l) -> NoDup (map p_ip (upsert_perm i dl l)).
Proof.
  induction l as [|y l IH]; cbn; intros H.
  - constructor; [tauto|constructor].
  - inversion H as [|? ? Hn Hd]; subst. destruct (N.eqb_spec (p_ip y) i); cbn.
    + subst. constructor; assumption.
    + constructor; [|auto]. rewrite upsert_perm_ips. intros [E|E]; [congruence|contradiction].
Qed.

Lemma upsert_perm_found i dl l : find_perm i (upsert_perm i dl l) = Some {| p_ip := i; p_dl := dl |}.
Proof.
  induction l as [|y l IH]; cbn; [rewrite N.eqb_refl; reflexivity|].
  destruct (N.eqb_spec (p_ip y) i); cbn; [rewrite N.eqb_refl; reflexivity|].
  destruct (N.eqb_spec (p_ip y) i); [contradiction|assumption].
Qed.

Lemma upsert_perm_other i dl l j : j <> i -> find_perm j (upsert_perm i dl l) = find_perm j l.
Proof.
  intros Hn. induction l as [|y l IH]; cbn.
  - destruct (N.eqb_spec i j); [congruence|reflexivity].
  - destruct (N.eqb_spec (p_ip y) i); cbn.
    + subst. destruct (N.eqb_spec (p_ip y) j); [congruence|reflexivity].
    + destruct (N.eqb_spec (p_ip y) j); [reflexivity|assumption].
Qed.

Lemma find_chan_num_some n l c : find_chan_num n l = Some c -> In c l /\ c_num c = n.
Proof.
  induction l as [|x l IH]; cbn; [discriminate|].
  destruct (N.eqb_spec (c_num x) n).
  - intros H; inversion H; subst. auto.
  - intros H. apply IH in H as [? ?]. auto.
Qed.

Lemma find_chan_num_none n l : find_chan_num n l = None <-> ~ In n (map c_num l).
Proof.
  induction l as [|x l IH]; cbn; [tauto|].
  destruct (N.eqb_spec (c_num x) n); [split; [discriminate|intros H; exfalso; auto]|]. rewrite IH. tauto.
Qed.

Lemma find_chan_peer_some p l c : find_chan_peer p l = Some c -> In c l /\ c_peer c = p.
Proof.
  induction l as [|x l IH]; cbn; [discriminate|].
  destruct (addr_eqb (c_peer x) p) eqn:E.
  - intros H; inversion H; subst. apply addr_eqb_eq in E. auto.
  - intros H. apply IH in H as [? ?]. auto.
Qed.

Lemma find_chan_peer_none p l : find_chan_peer p l = None <-> ~ In p (map c_peer l).
Proof.
  induction l as [|x l IH]; cbn; [tauto|].
  destruct (addr_eqb (c_peer x) p) eqn:E.
  - apply addr_eqb_eq in E. split; [discriminate|intros H; exfalso; auto].
  - apply addr_eqb_neq in E. rewrite IH. tauto.
Qed.

Lemma refresh_chan_nums n dl l : map c_num (refresh_chan n dl l) = map c_num l.
Proof. induction l as [|x l IH]; cbn; [reflexivity|]. destruct (N.eqb_spec (c_num x) n); cbn; congruence. Qed.
Lemma refresh_chan_peers n dl l : map c_peer (refresh_chan n dl l) = map c_peer l.
Proof. induction l as [|x l IH]; cbn; [reflexivity|]. destruct (N.eqb_spec (c_num x) n); cbn; congruence. Qed.
Lemma refresh_chan_pairs n dl l :
  map (fun c => (c_num c, c_peer c)) (refresh_chan n dl l) = map (fun c => (c_num c, c_peer c)) l.
Proof. induction l as [|x l IH]; cbn; [reflexivity|]. destruct (N.eqb_spec (c_num x) n); cbn; congruence. Qed.

Lemma filter_map_incl {A B} (f : A -> bool) (g : A -> B) l x : In x (map g (filter f l)) -> In x (map g l).
Proof. induction l as [|y l IH]; cbn; [tauto|]. destruct (f y); cbn; intuition. Qed.

Lemma filter_map_nodup {A B} (f : A -> bool) (g : A -> B) l : NoDup (map g l) -> NoDup (map g (filter f l)).
Proof.
  induction l as [|y l IH]; cbn; [auto|]. intros H. inversion H as [|? ? Hn Hd]; subst.
  destruct (f y); cbn; [|auto]. constructor; [|auto]. intros Hin. apply Hn. eapply filter_map_incl; eauto.
Qed.

Lemma NoDup_app_single {A} (l : list A) x : NoDup l -> ~ In x l -> NoDup (l ++ [x]).
Proof.
  induction l as [|y l IH]; cbn; intros Hd Hn.
  - constructor; [tauto|constructor].
  - inversion Hd as [|? ? Hy Hl]; subst. constructor.
    + rewrite in_app_iff. cbn. intros [H|[H|[]]]; [contradiction|subst; tauto].
    + apply IH; tauto.
Qed.
