From Turn Require Import Bytes PortRange BytesP.
From Coq Require Import ZifyN ZifyNat ZifyBool.
Ltac Zify.zify_post_hook ::= Z.div_mod_to_equations.
Open Scope N_scope.

Theorem count16_exact minp maxp : 1 <= minp -> minp <= maxp -> maxp <= 65535 ->
  count16 minp maxp = maxp - minp + 1 /\ 1 <= count16 minp maxp.
Proof. intros H1 H2 H3. unfold count16, u16. split; lia. Qed.

Theorem pick_in_range minp maxp x : 1 <= minp -> minp <= maxp -> maxp <= 65535 -> x < count16 minp maxp ->
  minp <= pick minp x <= maxp.
Proof. intros H1 H2 H3 Hx. destruct (count16_exact minp maxp H1 H2 H3) as [Hc _]. unfold pick, u16 in *. lia. Qed.

Theorem range_loop_sound tries minp maxp : 1 <= minp -> minp <= maxp -> maxp <= 65535 ->
  forall rands bind p, Forall (fun x => x < count16 minp maxp) rands ->
  range_loop tries minp rands bind = Some p -> bind p = true /\ minp <= p <= maxp.
Proof.
  intros H1 H2 H3. induction tries as [|k IH]; intros rands bind p Hr H; [discriminate|].
  destruct rands as [|x r]; [discriminate|]. cbn [range_loop] in H. inversion Hr as [|? ? Hx Hrr]; subst.
  destruct (bind (pick minp x)) eqn:Hb.
  - inversion H; subst. split; [assumption|]. apply pick_in_range; assumption.
  - eapply IH; eassumption.
Qed.

Theorem range_loop_fails_clean tries minp rands bind :
  (forall x, In x rands -> bind (pick minp x) = false) -> range_loop tries minp rands bind = None.
Proof.
  revert rands. induction tries as [|k IH]; intros rands H; [reflexivity|]. destruct rands as [|x r]; [reflexivity|].
  cbn [range_loop]. rewrite (H x) by (left; reflexivity). apply IH. intros y Hy. apply H. right; assumption.
Qed.

(* never more than MaxRetries attempts: with no random numbers left after [tries] draws the loop has ended *)
Theorem range_loop_bounded tries minp rands extra bind :
  length rands = tries -> range_loop tries minp (rands ++ extra) bind = range_loop tries minp rands bind.
Proof.
  revert rands. induction tries as [|k IH]; intros rands Hl; [destruct rands; [reflexivity|discriminate]|].
  destruct rands as [|x r]; [discriminate|]. cbn [app range_loop]. destruct (bind (pick minp x)); [reflexivity|].
  apply IH. cbn in Hl. lia.
Qed.

Theorem gen_alloc_bound g rq rands eph bind p : gen_alloc g rq rands eph bind = Some p -> bind p = true.
Proof.
  unfold gen_alloc. destruct (N.eqb_spec rq 0); cbn [negb].
  - destruct g as [minp maxp retries| |].
    + revert rands. induction retries as [|k IH]; intros rands H; [discriminate|]. destruct rands as [|x r]; [discriminate|].
      cbn [range_loop] in H. destruct (bind (pick minp x)) eqn:Hb; [inversion H; subst; assumption|eauto].
    + destruct (bind eph) eqn:Hb; intros H; inversion H; subst; assumption.
    + destruct (bind eph) eqn:Hb; intros H; inversion H; subst; assumption.
  - destruct (bind rq) eqn:Hb; intros H; inversion H; subst; assumption.
Qed.

Theorem gen_alloc_requested g rq rands eph bind : rq <> 0 ->
  gen_alloc g rq rands eph bind = if bind rq then Some rq else None.
Proof. intros H. unfold gen_alloc. destruct (N.eqb_spec rq 0); [contradiction|reflexivity]. Qed.

Theorem gen_alloc_range_in_range minp maxp retries rands eph bind p :
  1 <= minp -> minp <= maxp -> maxp <= 65535 -> Forall (fun x => x < count16 minp maxp) rands ->
  gen_alloc (GRange minp maxp retries) 0 rands eph bind = Some p -> minp <= p <= maxp.
Proof. intros H1 H2 H3 Hr H. cbn in H. eapply range_loop_sound; eassumption. Qed.

(* no two live allocations share a relay port, provided the OS refuses a port that is bound *)
Lemma key_eqb_eq a b : key_eqb a b = true <-> a = b.
Proof.
  destruct a as [[t v] p], b as [[t' v'] p']. cbn. rewrite !andb_true_iff, !eqb_true_iff, N.eqb_eq.
  split; [intros [[-> ->] ->]; reflexivity|intros H; inversion H; auto].
Qed.

Lemma in_use_iff k l : in_use k l = true <-> In k l.
Proof.
  unfold in_use. rewrite existsb_exists. split.
  - intros (x & Hx & E). apply key_eqb_eq in E. subst. assumption.
  - intros H. exists k. split; [assumption|]. apply key_eqb_eq. reflexivity.
Qed.

Theorem gstep_nodup g l e : NoDup l -> NoDup (fst (gstep g l e)).
Proof.
  intros Hnd. destruct e as [t v rq rands eph|k]; cbn [gstep].
  - destruct (gen_alloc g rq rands eph _) as [p|] eqn:H; cbn; [|assumption].
    apply gen_alloc_bound in H. constructor; [|assumption]. intros Hin. apply in_use_iff in Hin.
    rewrite Hin in H. discriminate.
  - cbn. apply NoDup_filter. assumption.
Qed.

Theorem no_sharing g h : forall l, NoDup l -> NoDup (grun g l h).
Proof. induction h as [|e h IH]; intros l Hnd; [assumption|]. cbn [grun]. apply IH. apply gstep_nodup. assumption. Qed.
