(* Locality (C04), deadlines (C06/C07), ChannelBind conflicts (C08) for Model/Relay.v. *)
From Turn Require Import Bytes ChanData Relay RelayBase RelayInv RelayGates.
From Coq Require Import ZifyN ZifyNat ZifyBool.
Open Scope Z_scope.

(* ---------- C04: an event from 5-tuple [src] leaves every other allocation the same record ---------- *)
Definition others_same (src : addr) (s s' : state) : Prop :=
  forall a, a_client a <> src -> (In a (allocs s) <-> In a (allocs s')).

Lemma others_same_refl src s : others_same src s s.
Proof. intros a _. tauto. Qed.

Lemma others_same_replace src s a' :
  a_client a' = src -> others_same src s (set_allocs s (replace_alloc a' (allocs s))).
Proof.
  intros Hc a Hn. cbn. split; intros H.
  - apply in_replace_alloc_other; [assumption|congruence].
  - eapply replace_alloc_other; [eassumption|congruence].
Qed.

Lemma others_same_remove src s :
  others_same src s (set_allocs s (remove_alloc src (allocs s))).
Proof.
  intros a Hn. cbn. split; intros H; [apply remove_alloc_other; assumption|eapply remove_alloc_in; eassumption].
Qed.

Lemma others_same_add src s a0 :
  a_client a0 = src -> others_same src s (set_allocs s (allocs s ++ [a0])).
Proof.
  intros Hc a Hn. cbn. rewrite in_app_iff. cbn. split; [tauto|]. intros [H|[H|[]]]; [assumption|]. subst. contradiction.
Qed.

Theorem req_locality cfg s src tid c r unk s' acts :
  step cfg s (EReq src tid c r unk) = (s', acts) -> others_same src s s' /\ now s' = now s.
Proof.
  cbn [step]. intros H. destruct unk; [inversion H; subst; split; [apply others_same_refl|reflexivity]|].
  destruct r as [tr lt fam df rp|lt fam|peers|n p|];
    try (inversion H; subst; split; [apply others_same_refl|reflexivity]);
    destruct (authenticate cfg s c) as [uid|code ch];
    try (inversion H; subst; split; [apply others_same_refl|reflexivity]).
  - unfold h_allocate in H.
    repeat (dmatch H; try (inversion H; subst; split; [apply others_same_refl|reflexivity])).
    all: inversion H; subst; split; [apply others_same_add; reflexivity|reflexivity].
  - unfold h_refresh in H. cbv zeta in H.
    destruct (owned_alloc s src uid) as [a|] eqn:Ho; [|inversion H; subst; split; [apply others_same_refl|reflexivity]].
    apply owned_alloc_some in Ho as (Hin & Hc & Hu).
    repeat (dmatch H; try (inversion H; subst; split; [apply others_same_refl|reflexivity])).
    all: inversion H; subst; split; try reflexivity;
      first [apply others_same_remove | apply others_same_replace; cbn; reflexivity].
  - unfold h_create_perm in H.
    destruct (owned_alloc s src uid) as [a|] eqn:Ho; [|inversion H; subst; split; [apply others_same_refl|reflexivity]].
    apply owned_alloc_some in Ho as (Hin & Hc & Hu).
    destruct (perm_check cfg a peers) eqn:Hpc; [inversion H; subst; split; [apply others_same_refl|reflexivity]|].
    destruct peers as [|q peers]; [inversion H; subst; split; [apply others_same_refl|reflexivity]|].
    destruct (install_perms a _ (q :: peers)) as [a' evs] eqn:Hi. inversion H; subst.
    assert (Hok : alloc_ok cfg a \/ True) by tauto.
    split; [|reflexivity]. apply others_same_replace.
    clear H Hok. revert a a' evs Hin Hpc Hi. generalize (q :: peers) as ps. intros ps.
    induction ps as [|x ps IH]; cbn [install_perms]; intros a a' evs Hin Hpc Hi; [inversion Hi; reflexivity|].
    destruct x as [x|]; [|cbn in Hpc; discriminate].
    destruct (add_perm a (ip x) _) as [a1 e1] eqn:H1. destruct (install_perms a1 _ ps) as [a2 e2] eqn:H2.
    inversion Hi; subst. unfold add_perm in H1. inversion H1; subst.
    assert (E : forall ps a a' evs dl, install_perms a dl ps = (a', evs) -> a_client a' = a_client a).
    { clear. induction ps as [|y ps IH]; cbn [install_perms]; intros a a' evs dl Hh; [inversion Hh; reflexivity|].
      destruct y as [y|]; [|eauto]. destruct (add_perm a (ip y) dl) as [b1 f1] eqn:G1.
      destruct (install_perms b1 dl ps) as [b2 f2] eqn:G2. inversion Hh; subst.
      apply IH in G2. unfold add_perm in G1. inversion G1; subst. exact G2. }
    apply E in H2. exact H2.
  - unfold h_channel_bind in H.
    destruct (owned_alloc s src uid) as [a|] eqn:Ho; [|inversion H; subst; split; [apply others_same_refl|reflexivity]].
    apply owned_alloc_some in Ho as (Hin & Hc & Hu).
    repeat (dmatch H; try (inversion H; subst; split; [apply others_same_refl|reflexivity])).
    all: inversion H; subst; split; try reflexivity; apply others_same_replace;
      match goal with Ha : add_perm _ _ _ = (_, _) |- _ => unfold add_perm in Ha; inversion Ha; subst; cbn; reflexivity end.
Qed.

Theorem data_events_change_nothing cfg s e s' acts :
  match e with ESend _ _ _ | EChanData _ _ _ | EPeer _ _ _ => True | _ => False end ->
  step cfg s e = (s', acts) -> s' = s.
Proof.
  destruct e; try contradiction; intros _ H; cbn [step] in H.
  - apply h_send_spec in H. tauto.
  - apply h_chandata_spec in H. tauto.
  - apply h_peer_spec in H. tauto.
Qed.

(* ---------- deadlines: whatever is in the state has not expired ---------- *)
Definition alloc_live (t : Z) (a : alloc) : Prop :=
  t < a_dl a /\ (forall p, In p (a_perms a) -> t < p_dl p) /\ (forall c, In c (a_chans a) -> t < c_dl c).
Definition dl_inv (s : state) : Prop := Forall (alloc_live (now s)) (allocs s).

Definition cfg_positive (cfg : config) : Prop :=
  0 < cfg_alloc_lifetime cfg /\ 0 < cfg_perm_timeout cfg /\ 0 < cfg_chan_timeout cfg.

Lemma granted_lifetime_pos cfg l : cfg_positive cfg -> granted_lifetime cfg l <> 0 -> 0 < granted_lifetime cfg l.
Proof.
  intros (Ha & _ & _). unfold granted_lifetime, max_lifetime, sec. destruct l as [| |secs]; try lia.
  destruct (Z.ltb_spec (Z.of_N secs * 1000000000) (3600 * 1000000000)); lia.
Qed.

Lemma add_perm_live t a i dl a' ev : alloc_live t a -> t < dl -> add_perm a i dl = (a', ev) -> alloc_live t a'.
Proof.
  intros (Hd & Hp & Hc) Hdl H. unfold add_perm in H. inversion H; subst. unfold alloc_live. cbn.
  split; [assumption|]. split; [|assumption].
  intros p Hin. apply upsert_perm_in in Hin as [->|Hin]; [cbn; assumption|auto].
Qed.

Lemma install_perms_live t dl peers : t < dl -> forall a a' ev,
  alloc_live t a -> install_perms a dl peers = (a', ev) -> alloc_live t a'.
Proof.
  intros Hdl. induction peers as [|q peers IH]; cbn [install_perms]; intros a a' ev Hl H; [inversion H; subst; assumption|].
  destruct q as [q|]; [|eauto].
  destruct (add_perm a (ip q) dl) as [a1 e1] eqn:H1. destruct (install_perms a1 dl peers) as [a2 e2] eqn:H2.
  inversion H; subst. eapply IH; [|eassumption]. eapply add_perm_live; eauto.
Qed.

Lemma refresh_chan_in n dl l c : In c (refresh_chan n dl l) -> c_dl c = dl \/ In c l.
Proof.
  induction l as [|x l IH]; cbn; [tauto|]. destruct (N.eqb_spec (c_num x) n); cbn; intros [H|H]; auto.
  - subst. auto.
  - apply IH in H. tauto.
Qed.

Lemma dl_replace s a' t : Forall (alloc_live t) (allocs s) -> alloc_live t a' ->
  Forall (alloc_live t) (replace_alloc a' (allocs s)).
Proof. intros. apply Forall_replace_alloc; assumption. Qed.

Lemma tick_allocs_live t l0 : forall l evs, tick_allocs t l0 = (l, evs) -> Forall (alloc_live t) l.
Proof.
  induction l0 as [|a l0 IH]; cbn [tick_allocs]; intros l evs Ht; [inversion Ht; constructor|].
  destruct (tick_alloc t a) as [oa e1] eqn:H1. destruct (tick_allocs t l0) as [r e2] eqn:H2.
  inversion Ht; subst. specialize (IH _ _ eq_refl). destruct oa as [a'|]; [|assumption].
  constructor; [|assumption]. unfold tick_alloc in H1. destruct (Z.leb_spec (a_dl a) t); [discriminate|].
  inversion H1; subst. unfold alloc_live. cbn. split; [lia|]. split.
  + intros p Hp. apply filter_In in Hp as [_ Hp]. unfold live_perm in Hp. lia.
  + intros c Hc. apply filter_In in Hc as [_ Hc]. unfold live_chan in Hc. lia.
Qed.

Theorem dl_inv_step cfg s e s' acts : cfg_positive cfg -> dl_inv s -> step cfg s e = (s', acts) -> dl_inv s'.
Proof.
  intros Hpos Hinv H. pose proof Hpos as (Hpa & Hpp & Hpc). unfold dl_inv in *.
  destruct e as [src tid c r unk|src p d|src n d|relay from d|dt|relay|csrc| |].
  - pose proof (req_locality _ _ _ _ _ _ _ _ _ H) as [_ Hnow]. rewrite Hnow. cbn [step] in H.
    destruct unk; [inversion H; subst; assumption|].
    destruct r as [tr lt fam df rp|lt fam|peers|n p|]; try (inversion H; subst; assumption);
      destruct (authenticate cfg s c) as [uid|code ch]; try (inversion H; subst; assumption).
    + unfold h_allocate in H. repeat (dmatch H; try (inversion H; subst; assumption)).
      all: inversion H; subst; cbn; apply Forall_app; split; [assumption|]; constructor; [|constructor].
      all: unfold alloc_live; cbn; split; [|split; intros ? []].
      all: match goal with Hz : (granted_lifetime ?cf ?l =? 0) = false |- _ =>
             apply Z.eqb_neq in Hz; pose proof (granted_lifetime_pos cf l Hpos Hz); lia end.
    + unfold h_refresh in H. cbv zeta in H.
      destruct (owned_alloc s src uid) as [a|] eqn:Ho; [|inversion H; subst; assumption].
      apply owned_alloc_some in Ho as (Hin & Hc & Hu).
      assert (Hl : alloc_live (now s) a) by (rewrite Forall_forall in Hinv; auto).
      repeat (dmatch H; try (inversion H; subst; assumption)).
      all: inversion H; subst; cbn; first [apply Forall_remove_alloc; assumption | apply Forall_replace_alloc; [assumption|]].
      all: destruct Hl as (Hd & Hp & Hcc); unfold alloc_live; cbn; split; [|split; assumption].
      all: match goal with Hz : (granted_lifetime ?cf ?l =? 0) = false |- _ =>
             apply Z.eqb_neq in Hz; pose proof (granted_lifetime_pos cf l Hpos Hz); lia end.
    + unfold h_create_perm in H.
      destruct (owned_alloc s src uid) as [a|] eqn:Ho; [|inversion H; subst; assumption].
      apply owned_alloc_some in Ho as (Hin & Hc & Hu).
      assert (Hl : alloc_live (now s) a) by (rewrite Forall_forall in Hinv; auto).
      destruct (perm_check cfg a peers); [inversion H; subst; assumption|].
      destruct peers as [|q peers]; [inversion H; subst; assumption|].
      destruct (install_perms a _ (q :: peers)) as [a' evs] eqn:Hi. inversion H; subst. cbn.
      apply Forall_replace_alloc; [assumption|]. eapply install_perms_live; [|eassumption|eassumption]. lia.
    + unfold h_channel_bind in H.
      destruct (owned_alloc s src uid) as [a|] eqn:Ho; [|inversion H; subst; assumption].
      apply owned_alloc_some in Ho as (Hin & Hc & Hu).
      assert (Hl : alloc_live (now s) a) by (rewrite Forall_forall in Hinv; auto).
      repeat (dmatch H; try (inversion H; subst; assumption)).
      all: inversion H; subst; cbn; apply Forall_replace_alloc; [assumption|].
      all: match goal with Ha : add_perm _ _ _ = (_, _) |- _ => eapply add_perm_live; [| |exact Ha]; [|lia] end.
      all: destruct Hl as (Hd & Hp & Hcc); unfold alloc_live; cbn; split; [assumption|split; [assumption|]].
      * intros cx Hcx. apply refresh_chan_in in Hcx as [->|Hcx]; [lia|auto].
      * intros cx Hcx. apply in_app_iff in Hcx as [Hcx|[<-|[]]]; [auto|cbn; lia].
  - apply data_events_change_nothing in H; [subst; assumption|exact I].
  - apply data_events_change_nothing in H; [subst; assumption|exact I].
  - apply data_events_change_nothing in H; [subst; assumption|exact I].
  - cbn [step] in H. unfold h_tick in H. destruct (tick_allocs _ _) as [l evs] eqn:Ht. inversion H; subst; clear H. cbn.
    eapply tick_allocs_live; eassumption.
  - cbn [step] in H. unfold h_relay_err in H. destruct (find_relay relay (allocs s)); inversion H; subst; cbn;
      [apply Forall_remove_alloc|]; assumption.
  - cbn [step] in H. unfold h_ctl_close in H. destruct (find_alloc csrc (allocs s)); inversion H; subst; cbn;
      [apply Forall_remove_alloc|]; assumption.
  - cbn [step] in H. inversion H; subst; cbn. constructor.
  - cbn [step] in H. inversion H; subst. assumption.
Qed.

Theorem dl_inv_run cfg h : cfg_positive cfg -> forall s, dl_inv s -> dl_inv (final cfg s h).
Proof.
  intros Hpos. induction h as [|e h IH]; intros s Hinv; [exact Hinv|]. unfold final. cbn [run].
  destruct (step cfg s e) as [s1 a] eqn:Hs. destruct (run cfg s1 h) as [s2 as_] eqn:Hr. cbn.
  specialize (IH s1 (dl_inv_step _ _ _ _ _ Hpos Hinv Hs)). unfold final in IH. rewrite Hr in IH. exact IH.
Qed.

(* ---------- C06/C07: what arms, restarts and ends a lifetime ---------- *)
(* a tick keeps exactly what has not reached its deadline *)
Theorem tick_alloc_exact t a :
  (a_dl a <= t -> fst (tick_alloc t a) = None) /\
  (t < a_dl a -> exists a', fst (tick_alloc t a) = Some a' /\ a_dl a' = a_dl a /\ a_client a' = a_client a /\
      a_relay a' = a_relay a /\
      (forall p, In p (a_perms a') <-> In p (a_perms a) /\ t < p_dl p) /\
      (forall c, In c (a_chans a') <-> In c (a_chans a) /\ t < c_dl c)).
Proof.
  unfold tick_alloc. split; intros H.
  - destruct (Z.leb_spec (a_dl a) t); [reflexivity|lia].
  - destruct (Z.leb_spec (a_dl a) t); [lia|]. eexists. split; [reflexivity|]. cbn. splits; auto.
    + intros p. rewrite filter_In. unfold live_perm. rewrite Z.ltb_lt. tauto.
    + intros c. rewrite filter_In. unfold live_chan. rewrite Z.ltb_lt. tauto.
Qed.

(* the granted lifetime as a function of the requested one, for all 32-bit values *)
Theorem grant_rule cfg l :
  granted_lifetime cfg l =
  match l with
  | APresent secs => if (secs <? 3600)%N then Z.of_N secs * sec else cfg_alloc_lifetime cfg
  | _ => cfg_alloc_lifetime cfg
  end.
Proof.
  unfold granted_lifetime, max_lifetime, sec. destruct l as [| |secs]; try reflexivity.
  destruct (Z.ltb_spec (Z.of_N secs * 1000000000) (3600 * 1000000000)); destruct (N.ltb_spec secs 3600); try reflexivity; lia.
Qed.

(* Allocate success: LIFETIME reported = timer armed (in whole seconds), nothing installed yet *)
Theorem allocate_success cfg s src tid c tr lt fam df rp ep rt mt s' acts attrs :
  step cfg s (EReq src tid c (RqAllocate tr lt fam df rp ep rt mt) false) = (s', acts) ->
  In (Success src MAllocate tid attrs) acts -> find_alloc src (allocs s) = None ->
  exists a relay, allocs s' = allocs s ++ [a] /\ a_client a = src /\ a_relay a = relay /\
    a_perms a = [] /\ a_chans a = [] /\ a_dl a = now s + granted_lifetime cfg lt /\
    attrs = [SRelayed relay; SLifetime (granted_lifetime cfg lt / sec); SMapped src] ++ (if ep then [SToken mt] else []) /\
    (exists uid, authenticate cfg s c = AuthOK uid /\ a_user a = uid).
Proof.
  cbn [step]. intros H Hin Hnone.
  destruct (authenticate cfg s c) as [uid|code ch] eqn:Ha; [|inversion H; subst; cbn in Hin; intuition discriminate].
  unfold h_allocate in H. rewrite Hnone in H.
  repeat (dmatch H; try (inversion H; subst; cbn in Hin; intuition discriminate)).
  all: inversion H; subst; cbn in Hin; destruct Hin as [Hin|[Hin|[]]]; try discriminate; inversion Hin; subst.
  all: do 2 eexists; cbn; repeat split; eauto.
Qed.

(* Refresh success: the timer is re-armed to exactly the reported lifetime; zero removes the allocation *)
Theorem refresh_success cfg s src tid c lt fam s' acts secs :
  NoDup (map a_client (allocs s)) ->
  step cfg s (EReq src tid c (RqRefresh lt fam) false) = (s', acts) ->
  In (Success src MRefresh tid [SLifetime secs]) acts ->
  secs = granted_lifetime cfg lt / sec /\
  ((granted_lifetime cfg lt = 0 /\ find_alloc src (allocs s') = None) \/
   (granted_lifetime cfg lt <> 0 /\ exists a a', find_alloc src (allocs s) = Some a /\
      find_alloc src (allocs s') = Some a' /\ a_dl a' = now s + granted_lifetime cfg lt /\
      a_perms a' = a_perms a /\ a_chans a' = a_chans a /\ a_relay a' = a_relay a)).
Proof.
  intros Hnd. cbn [step]. intros H Hin.
  destruct (authenticate cfg s c) as [uid|code ch] eqn:Ha; [|inversion H; subst; cbn in Hin; intuition discriminate].
  unfold h_refresh in H. cbv zeta in H.
  destruct (owned_alloc s src uid) as [a|] eqn:Ho; [|inversion H; subst; destruct Hin].
  unfold owned_alloc in Ho. destruct (find_alloc src (allocs s)) as [a0|] eqn:Hf; [|discriminate].
  destruct (N.eqb_spec (a_user a0) uid); [|discriminate]. inversion Ho; subst a0; clear Ho.
  pose proof (find_alloc_some _ _ _ Hf) as [Hina Hca].
  assert (Hgone : find_alloc src (remove_alloc src (allocs s)) = None).
  { apply find_alloc_none. apply remove_alloc_gone. assumption. }
  assert (Hrepl : forall a', a_client a' = src -> find_alloc src (replace_alloc a' (allocs s)) = Some a').
  { intros a' Hc'. clear -Hf Hc'. induction (allocs s) as [|x l IH]; cbn in *; [discriminate|].
    rewrite Hc'. destruct (addr_eqb (a_client x) src) eqn:E; cbn.
    - rewrite Hc', addr_eqb_refl. reflexivity.
    - rewrite E. apply IH. assumption. }
  repeat (dmatch H; try (inversion H; subst; cbn in Hin; intuition discriminate)).
  all: inversion H; subst; clear H.
  all: try (apply in_app_iff in Hin as [Hin|[Hin|[]]];
            [pose proof (close_events_life a) as Hl; rewrite Forall_forall in Hl; apply Hl in Hin; destruct Hin|];
            inversion Hin; subst;
            match goal with Hz : (granted_lifetime _ ?l =? 0) = true |- _ => apply Z.eqb_eq in Hz; rewrite Hz end;
            split; [reflexivity|]; left; split; [reflexivity|]; cbn; assumption).
  all: cbn in Hin; destruct Hin as [Hin|[]]; inversion Hin; subst; split; [reflexivity|]; right;
       match goal with Hz : (granted_lifetime _ ?l =? 0) = false |- _ => apply Z.eqb_neq in Hz end;
       split; [assumption|]; exists a; eexists; split; [reflexivity|]; cbn; split; [apply Hrepl; reflexivity|];
       cbn; auto.
Qed.

(* ---------- C08: conflicting ChannelBind is a 400 and changes nothing ---------- *)
Theorem channel_bind_conflict cfg s src tid uid n p a :
  owned_alloc s src uid = Some a ->
  ((exists c, find_chan_num n (a_chans a) = Some c /\ c_peer c <> p) \/
   (exists c, find_chan_peer p (a_chans a) = Some c /\ c_num c <> n)) ->
  exists code, h_channel_bind cfg s src tid uid (APresent n) (Some (PeerOk p)) = (s, [Error src MChannelBind tid code false])
               /\ (valid_chan n = true -> ip_matches_family (ip p) (a_fam a) = true -> cfg_policy cfg src (ip p) = true -> code = 400%N).
Proof.
  intros Ho Hconf. unfold h_channel_bind. rewrite Ho.
  destruct (valid_chan n); cbn [negb]; [|eexists; split; [reflexivity|discriminate]].
  destruct (ip_matches_family (ip p) (a_fam a)); cbn [negb]; [|eexists; split; [reflexivity|discriminate]].
  destruct (cfg_policy cfg src (ip p)); cbn [negb]; [|eexists; split; [reflexivity|discriminate]].
  destruct Hconf as [(c & Hc & Hne)|(c & Hc & Hne)].
  - destruct (find_chan_peer p (a_chans a)) as [c1|] eqn:Hp.
    + destruct (N.eqb_spec (c_num c1) n); cbn [negb].
      * rewrite Hc. destruct (addr_eqb (c_peer c) p) eqn:E; [apply addr_eqb_eq in E; contradiction|].
        cbn [negb]. eexists; split; [reflexivity|auto].
      * eexists; split; [reflexivity|auto].
    + rewrite Hc. destruct (addr_eqb (c_peer c) p) eqn:E; [apply addr_eqb_eq in E; contradiction|].
      cbn [negb]. eexists; split; [reflexivity|auto].
  - rewrite Hc. destruct (N.eqb_spec (c_num c) n); [contradiction|]. cbn [negb]. eexists; split; [reflexivity|auto].
Qed.

(* repeating an existing binding succeeds and restarts both timers *)
Theorem channel_bind_same cfg s src tid uid n p a c :
  owned_alloc s src uid = Some a -> alloc_ok cfg a ->
  find_chan_num n (a_chans a) = Some c -> c_peer c = p ->
  exists s' evs a', h_channel_bind cfg s src tid uid (APresent n) (Some (PeerOk p)) = (s', evs ++ [Success src MChannelBind tid []]) /\
    Forall is_life evs /\
    allocs s' = replace_alloc a' (allocs s) /\ a_client a' = a_client a /\
    find_perm (ip p) (a_perms a') = Some {| p_ip := ip p; p_dl := now s + cfg_perm_timeout cfg |} /\
    map (fun c => (c_num c, c_peer c)) (a_chans a') = map (fun c => (c_num c, c_peer c)) (a_chans a) /\
    (forall c', In c' (a_chans a') -> c_num c' = n -> c_dl c' = now s + cfg_chan_timeout cfg).
Proof.
  intros Ho Hok Hc Hp. pose proof Hok as (_ & Hnn & Hnp & Hv & _ & Hcp).
  pose proof (owned_alloc_some _ _ _ _ Ho) as (Hin & Hcl & _).
  pose proof (find_chan_num_some _ _ _ Hc) as [Hcin Hcn].
  unfold h_channel_bind. rewrite Ho.
  assert (Hvn : valid_chan n = true) by (rewrite <- Hcn; apply Hv; assumption). rewrite Hvn. cbn [negb].
  assert (Hinp : In p (map c_peer (a_chans a))) by (rewrite <- Hp; apply in_map; assumption).
  destruct (Hcp p Hinp) as [Hpol Hfam]. rewrite Hfam. rewrite <- Hcl, Hpol. cbn [negb].
  assert (Hfp : find_chan_peer p (a_chans a) = Some c).
  { clear -Hnp Hcin Hp. induction (a_chans a) as [|x l IH]; cbn in *; [contradiction|].
    inversion Hnp as [|? ? Hx Hl]; subst. destruct Hcin as [->|Hcin].
    - rewrite addr_eqb_refl. reflexivity.
    - destruct (addr_eqb (c_peer x) (c_peer c)) eqn:E; [|apply IH; assumption].
      apply addr_eqb_eq in E. exfalso. apply Hx. rewrite E. apply in_map. assumption. }
  rewrite Hfp. rewrite Hcn, N.eqb_refl. cbn [negb]. rewrite Hc, Hp, addr_eqb_refl. cbn [negb].
  unfold add_perm. do 3 eexists. split; [reflexivity|]. cbn.
  split; [destruct (find_perm (ip p) (a_perms a)); repeat constructor|].
  split; [reflexivity|]. split; [reflexivity|]. split; [apply upsert_perm_found|].
  split; [apply refresh_chan_pairs|].
  intros c' Hc' Hn'. clear -Hc' Hn' Hnn. induction (a_chans a) as [|x l IH]; cbn in *; [contradiction|].
  inversion Hnn as [|? ? Hx Hl]; subst.
  destruct (N.eqb_spec (c_num x) (c_num c')) as [E|E]; cbn in Hc'; destruct Hc' as [<-|Hc']; auto; try congruence.
  exfalso. apply Hx. rewrite E. apply in_map. assumption.
Qed.

(* a peer the operator's policy refuses for every client never receives relayed data *)
Definition cfg_policy_refuses_everywhere (cfg : config) (i : N) : Prop := forall c, cfg_policy cfg c i = false.

Theorem vetoed_never_receives cfg ep h e s' acts r d x :
  cfg_policy_refuses_everywhere cfg (ip d) ->
  step cfg (final cfg (init ep) h) e = (s', acts) -> ~ In (ToPeer r d x) acts.
Proof.
  intros Hrefuse H Hin. set (s := final cfg (init ep) h) in *.
  destruct (inv_reachable cfg ep h) as [_ Hall]. fold s in Hall. rewrite Forall_forall in Hall.
  destruct (topeer_only_from_send_or_chandata _ _ _ _ _ _ _ _ H Hin) as [(src & p & dat & ->)|(src & n & dat & ->)];
    cbn [step] in H.
  - apply h_send_spec in H as [_ [->|(a & q & dd & pm & -> & _ & _ & Hf & Hp & _)]]; [destruct Hin|].
    destruct Hin as [Hin|[]]. inversion Hin; subst.
    apply find_alloc_some in Hf as [Ha _]. destruct (Hall a Ha) as (_ & _ & _ & _ & H5 & _).
    apply find_perm_some in Hp as [Hpin Hpip].
    destruct (H5 (ip d)) as [Hpol _]; [rewrite <- Hpip; apply in_map; assumption|].
    rewrite Hrefuse in Hpol. discriminate.
  - apply h_chandata_spec in H as [_ [->|(a & c & -> & Hf & Hc & _)]]; [destruct Hin|].
    destruct Hin as [Hin|[]]. inversion Hin; subst.
    apply find_alloc_some in Hf as [Ha _]. destruct (Hall a Ha) as (_ & _ & _ & _ & _ & H6).
    apply find_chan_num_some in Hc as [Hcin _].
    destruct (H6 (c_peer c)) as [Hpol _]; [apply in_map; assumption|].
    rewrite Hrefuse in Hpol. discriminate.
Qed.
