(* Generic facts about the allocation lists of Model/TcpRelay.v *)
From Turn Require Import Bytes Relay RelayBase TcpRelay.
From Coq Require Import ZifyN ZifyNat ZifyBool.
Open Scope Z_scope.

Lemma NoDup_app_intro {A} (a b : list A) : NoDup a -> NoDup b -> (forall x, In x a -> In x b -> False) -> NoDup (a ++ b).
Proof. induction a as [|y a IH]; intros Ha Hb Hd; [exact Hb|]. inversion Ha; subst. cbn. constructor.
  - rewrite in_app_iff. intros [Hi|Hi]; [contradiction|]. apply (Hd y); [left; reflexivity|assumption].
  - apply IH; auto. intros x Hx1 Hx2. apply (Hd x); [right; assumption|assumption]. Qed.

Lemma tfind_some c l a : tfind c l = Some a -> In a l /\ ta_client a = c.
Proof. induction l as [|x l IH]; cbn; [discriminate|]. destruct (addr_eqb (ta_client x) c) eqn:E.
  - intros H; inversion H; subst. apply addr_eqb_eq in E. auto.
  - intros H. apply IH in H as [H1 H2]. auto. Qed.
Lemma tfind_none c l : tfind c l = None -> ~ In c (map ta_client l).
Proof. induction l as [|x l IH]; cbn; [tauto|]. destruct (addr_eqb (ta_client x) c) eqn:E; [discriminate|].
  intros H [H1|H1]; [rewrite H1, addr_eqb_refl in E; discriminate|apply IH in H; contradiction]. Qed.
Lemma tfind_in_nodup l a : NoDup (map ta_client l) -> In a l -> tfind (ta_client a) l = Some a.
Proof.
  induction l as [|x l IH]; intros Hnd Hin; [destruct Hin|]. inversion Hnd as [|? ? Hx Hl]; subst. cbn.
  destruct (addr_eqb (ta_client x) (ta_client a)) eqn:E.
  - apply addr_eqb_eq in E. destruct Hin as [->|Hin]; [reflexivity|]. exfalso. apply Hx. rewrite E. apply in_map. exact Hin.
  - destruct Hin as [->|Hin]; [rewrite addr_eqb_refl in E; discriminate|]. apply IH; assumption.
Qed.
Lemma tfind_relay_some r l a : tfind_relay r l = Some a -> In a l /\ ta_relay a = r.
Proof. induction l as [|x l IH]; cbn; [discriminate|]. destruct (addr_eqb (ta_relay x) r) eqn:E.
  - intros H; inversion H; subst. apply addr_eqb_eq in E. auto.
  - intros H. apply IH in H as [H1 H2]. auto. Qed.
Lemma owner_of_in k l a x : owner_of k l = Some (a, x) -> In a l /\ In x (ta_conns a) /\ tc_id x = k.
Proof. induction l as [|y l IH]; cbn; [discriminate|]. destruct (find _ (ta_conns y)) as [c|] eqn:Hf.
  - intros H; inversion H; subst. apply find_some in Hf as [Hf E]. apply N.eqb_eq in E. auto.
  - intros H. apply IH in H as (H1 & H2 & H3). auto. Qed.
Lemma owner_of_exists k l a x : In a l -> In x (ta_conns a) -> tc_id x = k -> owner_of k l <> None.
Proof.
  induction l as [|y l IH]; intros Ha Hx Hk; [destruct Ha|]. cbn. destruct (find _ (ta_conns y)) as [c|] eqn:Hf; [discriminate|].
  destruct Ha as [->|Ha]; [|eapply IH; eauto].
  exfalso. eapply find_none in Hf; [|exact Hx]. cbn in Hf. rewrite Hk, N.eqb_refl in Hf. discriminate.
Qed.

Lemma treplace_clients a' l : map ta_client (treplace a' l) = map ta_client l.
Proof. induction l as [|x l IH]; cbn; [reflexivity|]. destruct (addr_eqb (ta_client x) (ta_client a')) eqn:E; cbn.
  - apply addr_eqb_eq in E. rewrite E. reflexivity.
  - rewrite IH. reflexivity. Qed.
Lemma treplace_in a' l b : In b (treplace a' l) -> b = a' \/ In b l.
Proof. induction l as [|x l IH]; cbn; [tauto|]. destruct (addr_eqb (ta_client x) (ta_client a')); cbn; intros [H|H]; auto.
  apply IH in H. tauto. Qed.
(* precise membership after a replacement, under unique clients *)
Lemma treplace_in_iff a a' l b : NoDup (map ta_client l) -> In a l -> ta_client a' = ta_client a ->
  (In b (treplace a' l) <-> b = a' \/ (In b l /\ ta_client b <> ta_client a)).
Proof.
  intros Hnd Ha Hc. induction l as [|x l IH]; [destruct Ha|]. inversion Hnd as [|? ? Hx Hl]; subst. cbn [treplace]. rewrite Hc.
  destruct (addr_eqb (ta_client x) (ta_client a)) eqn:E.
  - apply addr_eqb_eq in E. assert (x = a).
    { destruct Ha as [->|Ha]; [reflexivity|]. exfalso. apply Hx. rewrite E. apply in_map. exact Ha. }
    subst x. cbn. split.
    + intros [<-|H]; [left; reflexivity|]. right. split; [right; exact H|]. intros Ec. apply Hx. rewrite <- Ec. apply in_map. exact H.
    + intros [->|[[<-|H] Hne]]; [left; reflexivity|congruence|right; exact H].
  - assert (Ha' : In a l) by (destruct Ha as [->|Ha]; [rewrite addr_eqb_refl in E; discriminate|exact Ha]).
    specialize (IH Hl Ha'). cbn. rewrite IH. split.
    + intros [<-|[->|[H Hne]]]; [right; split; [left; reflexivity|]|left; reflexivity|right; split; [right; exact H|exact Hne]].
      intros Ec. rewrite Ec, addr_eqb_refl in E. discriminate.
    + intros [->|[[<-|H] Hne]]; [right; left; reflexivity|left; reflexivity|right; right; auto].
Qed.
Lemma tfind_treplace a a' l c : NoDup (map ta_client l) -> In a l -> ta_client a' = ta_client a ->
  tfind c (treplace a' l) = if addr_eqb (ta_client a) c then Some a' else tfind c l.
Proof.
  intros Hnd Ha Hc. induction l as [|x l IH]; [destruct Ha|]. inversion Hnd as [|? ? Hx Hl]; subst. cbn [treplace tfind]. rewrite Hc.
  destruct (addr_eqb (ta_client x) (ta_client a)) eqn:E.
  - apply addr_eqb_eq in E. cbn [tfind]. rewrite Hc. destruct (addr_eqb (ta_client a) c) eqn:E2; [reflexivity|].
    rewrite E, E2. reflexivity.
  - assert (Ha' : In a l) by (destruct Ha as [->|Ha]; [rewrite addr_eqb_refl in E; discriminate|exact Ha]).
    cbn [tfind]. destruct (addr_eqb (ta_client x) c) eqn:E3.
    + apply addr_eqb_eq in E3. subst c. rewrite addr_eqb_sym, E. reflexivity.
    + apply IH; assumption.
Qed.
Lemma tremove_in c l b : In b (tremove c l) -> In b l.
Proof. induction l as [|x l IH]; cbn; [tauto|]. destruct (addr_eqb (ta_client x) c); cbn; [auto|]. intros [H|H]; auto. Qed.
Lemma tremove_nodup c l : NoDup (map ta_client l) -> NoDup (map ta_client (tremove c l)) /\ ~ In c (map ta_client (tremove c l)).
Proof.
  induction l as [|x l IH]; cbn; intros H; [split; [constructor|tauto]|]. inversion H as [|? ? Hx Hl]; subst.
  destruct (addr_eqb (ta_client x) c) eqn:E.
  - apply addr_eqb_eq in E. subst c. auto.
  - destruct (IH Hl) as [I1 I2]. cbn. split.
    + constructor; [|exact I1]. intros Hc. apply Hx. apply in_map_iff in Hc as (b & Hb1 & Hb2). rewrite <- Hb1. apply in_map.
      eapply tremove_in; eauto.
    + intros [Hc|Hc]; [rewrite Hc, addr_eqb_refl in E; discriminate|contradiction].
Qed.
Lemma tfind_tremove c0 l c : NoDup (map ta_client l) -> tfind c (tremove c0 l) = if addr_eqb c0 c then None else tfind c l.
Proof.
  induction l as [|x l IH]; cbn; [destruct (addr_eqb c0 c); reflexivity|]. intros Hnd. inversion Hnd as [|? ? Hx Hl]; subst.
  destruct (addr_eqb (ta_client x) c0) eqn:E.
  - apply addr_eqb_eq in E. subst c0. destruct (addr_eqb (ta_client x) c) eqn:E2; [|reflexivity].
    apply addr_eqb_eq in E2. subst c. destruct (tfind (ta_client x) l) eqn:Hf; [|reflexivity].
    apply tfind_some in Hf as [Hi Hc]. exfalso. apply Hx. rewrite <- Hc. apply in_map. exact Hi.
  - cbn [tfind]. destruct (addr_eqb (ta_client x) c) eqn:E2.
    + apply addr_eqb_eq in E2. subst c. rewrite addr_eqb_sym, E. reflexivity.
    + apply IH. exact Hl.
Qed.
Lemma tremove_other c l b : In b l -> ta_client b <> c -> In b (tremove c l).
Proof. induction l as [|x l IH]; cbn; [tauto|]. intros [->|H] Hne.
  - destruct (addr_eqb (ta_client b) c) eqn:E; [apply addr_eqb_eq in E; contradiction|left; reflexivity].
  - destruct (addr_eqb (ta_client x) c); [exact H|right; auto]. Qed.
Lemma tfind_app c l a : tfind c (l ++ [a]) = match tfind c l with Some x => Some x | None => if addr_eqb (ta_client a) c then Some a else None end.
Proof. induction l as [|x l IH]; cbn; [reflexivity|]. destruct (addr_eqb (ta_client x) c); [reflexivity|exact IH]. Qed.
