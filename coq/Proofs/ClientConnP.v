From Turn Require Import Bytes ChanData Relay RelayBase ClientConn.
From Coq Require Import ZifyN ZifyNat ZifyBool.
Ltac Zify.zify_post_hook ::= Z.div_mod_to_equations.
Open Scope Z_scope.

Definition has_perm (i : N) (s : cst) : bool := existsb (N.eqb i) (k_perms s).

Lemma find_bind_some p l b : find_bind p l = Some b -> In b l /\ b_peer b = p.
Proof.
  induction l as [|x l IH]; cbn; [discriminate|]. destruct (addr_eqb (b_peer x) p) eqn:E.
  - intros H; inversion H; subst. apply addr_eqb_eq in E. auto.
  - intros H. apply IH in H as [? ?]. auto.
Qed.

Lemma set_bind_in b' l x : In x (set_bind b' l) -> x = b' \/ In x l.
Proof. induction l as [|y l IH]; cbn; [tauto|]. destruct (addr_eqb (b_peer y) (b_peer b')); cbn; intros [H|H]; auto. apply IH in H. tauto. Qed.

Lemma set_bind_nums b' l : (forall y, In y l -> b_peer y = b_peer b' -> b_num y = b_num b') ->
  map b_num (set_bind b' l) = map b_num l.
Proof.
  induction l as [|y l IH]; cbn; intros H; [reflexivity|]. destruct (addr_eqb (b_peer y) (b_peer b')) eqn:E; cbn.
  - apply addr_eqb_eq in E. rewrite (H y (or_introl eq_refl) E). reflexivity.
  - rewrite IH; auto.
Qed.

Lemma set_bind_peers b' l : map b_peer (set_bind b' l) = map b_peer l.
Proof.
  induction l as [|y l IH]; cbn; [reflexivity|]. destruct (addr_eqb (b_peer y) (b_peer b')) eqn:E; cbn.
  - apply addr_eqb_eq in E. congruence.
  - congruence.
Qed.

(* ---------- WriteTo: permission first, ChannelData only on a usable binding ---------- *)
Definition wire_ok (s s' : cst) (p : addr) (d : bytes) (reacts : list preact) (m : wire) : Prop :=
  match m with
  | WSend q x => q = p /\ x = d /\ has_perm (ip p) s' = true /\ k_closed s = false /\
                 (has_perm (ip p) s = true \/ fst (perm_attempts 3 reacts) = true)
  | WChanData n x => x = d /\ has_perm (ip p) s' = true /\ k_closed s = false /\
                 (has_perm (ip p) s = true \/ fst (perm_attempts 3 reacts) = true) /\
                 exists b, find_bind p (k_binds s) = Some b /\ b_num b = n /\ bstate_ok (b_st b) = true
  | WCreatePerm ips => ips = [ip p] /\ has_perm (ip p) s = false
  | WChannelBind n q => q = p
  | WRefresh0 => False
  end.

Lemma Forall_repeat {A} (P : A -> Prop) x n : P x -> Forall P (repeat x n).
Proof. intros H. induction n; cbn; constructor; auto. Qed.

Theorem write_spec s p d reacts s' o :
  cstep s (CWrite p d reacts) = (s', o) -> Forall (wire_ok s s' p d reacts) (o_wire o).
Proof.
  cbn [cstep]. destruct (k_closed s) eqn:Hc; [intros H; inversion H; subst; constructor|].
  destruct (existsb (N.eqb (ip p)) (k_perms s)) eqn:Hp.
  - cbn [repeat app negb].
    assert (Hps : has_perm (ip p) s = true) by exact Hp.
    destruct (find_bind p (k_binds s)) as [b|] eqn:Hb.
    + destruct (bstate_ok (b_st b)) eqn:Hok.
      * intros H; inversion H; subst. cbn [o_wire].
        repeat (apply Forall_cons; [cbn; unfold has_perm; cbn [k_perms upd]; repeat split; auto; eauto|]); apply Forall_nil.
      * destruct (start_binding (k_now s) b); intros H; inversion H; subst; cbn [o_wire];
          repeat (apply Forall_cons; [cbn; unfold has_perm; cbn [k_perms upd]; repeat split; auto|]); apply Forall_nil.
    + cbn [bstate_ok b_st start_binding]. intros H; inversion H; subst; cbn [o_wire].
      repeat (apply Forall_cons; [cbn; unfold has_perm; cbn [k_perms upd]; repeat split; auto|]); apply Forall_nil.
  - destruct (perm_attempts 3 reacts) as [ok nreq] eqn:Hpa.
    assert (Hw1 : forall st, Forall (wire_ok s st p d reacts) (repeat (WCreatePerm [ip p]) nreq)).
    { intros st. apply Forall_repeat. cbn. unfold has_perm. auto. }
    destruct ok; cbn [negb fst].
    + assert (Hnew : existsb (N.eqb (ip p)) (ip p :: k_perms s) = true) by (cbn; rewrite N.eqb_refl; reflexivity).
      assert (Hr : has_perm (ip p) s = true \/ fst (perm_attempts 3 reacts) = true) by (right; rewrite Hpa; reflexivity).
      destruct (find_bind p (k_binds s)) as [b|] eqn:Hb.
      * destruct (bstate_ok (b_st b)) eqn:Hok.
        -- intros H; inversion H; subst; cbn [o_wire]. apply Forall_app. split; [apply Hw1|].
           repeat (apply Forall_cons; [cbn; unfold has_perm; cbn [k_perms upd]; repeat split; auto; eauto|]); apply Forall_nil.
        -- destruct (start_binding (k_now s) b); intros H; inversion H; subst; cbn [o_wire]; apply Forall_app; (split; [apply Hw1|]);
             repeat (apply Forall_cons; [cbn; unfold has_perm; cbn [k_perms upd]; repeat split; auto|]); apply Forall_nil.
      * cbn [bstate_ok b_st start_binding]. intros H; inversion H; subst; cbn [o_wire]. apply Forall_app. split; [apply Hw1|].
        repeat (apply Forall_cons; [cbn; unfold has_perm; cbn [k_perms upd]; repeat split; auto|]); apply Forall_nil.
    + intros H; inversion H; subst; cbn [o_wire]. apply Hw1.
Qed.

(* permissions are added only by a CreatePermission that succeeded, and only for the written peer's IP *)
Theorem perms_grow_only_by_success s e s' o i :
  cstep s e = (s', o) -> has_perm i s' = true -> has_perm i s = true \/
    exists p d reacts, e = CWrite p d reacts /\ i = ip p /\ fst (perm_attempts 3 reacts) = true.
Proof.
  unfold has_perm. destruct e; cbn [cstep]; intros H Hi.
  - destruct (k_closed s); [inversion H; subst; auto|].
    destruct (existsb (N.eqb (ip p)) (k_perms s)) eqn:Hp.
    + cbn [negb] in H. repeat (match type of H with context [match ?x with _ => _ end] => destruct x end); inversion H; subst; cbn in Hi; auto.
    + destruct (perm_attempts 3 reacts) as [ok nreq] eqn:Hpa. destruct ok; cbn [negb] in H; [|inversion H; subst; auto].
      assert (Hsub : existsb (N.eqb i) (ip p :: k_perms s) = true -> existsb (N.eqb i) (k_perms s) = true \/ i = ip p).
      { cbn. intros Hx. apply orb_true_iff in Hx as [Hx|Hx]; [right; apply N.eqb_eq in Hx; auto|left; assumption]. }
      repeat (match type of H with context [match ?x with _ => _ end] => destruct x end); inversion H; subst; cbn [k_perms upd] in Hi;
        apply Hsub in Hi as [Hi|Hi]; auto; right; exists p, d, reacts; rewrite Hpa; auto.
  - repeat (match type of H with context [match ?x with _ => _ end] => destruct x end); inversion H; subst; cbn in Hi; auto.
  - destruct (_ <? _)%nat; inversion H; subst; cbn in Hi; auto.
  - repeat (match type of H with context [match ?x with _ => _ end] => destruct x end); inversion H; subst; cbn in Hi; auto.
  - repeat (match type of H with context [match ?x with _ => _ end] => destruct x end); inversion H; subst; cbn in Hi; auto.
  - inversion H; subst; cbn in Hi; auto.
  - inversion H; subst; cbn in Hi; auto.
  - destruct (fold_left _ _ _) as [binds w]. inversion H; subst; cbn in Hi; auto.
  - destruct (k_closed s); inversion H; subst; cbn in Hi; auto.
Qed.

(* ---------- inbound: a slow or absent reader never blocks; unknown channel is an error and queues nothing ---------- *)
Theorem inbound_never_blocks_and_is_bounded s e s' o :
  match e with CInData _ _ | CInChan _ _ => True | _ => False end ->
  cstep s e = (s', o) ->
  (length (k_q s) <= queue_cap)%nat -> (length (k_q s') <= queue_cap)%nat /\ o_wire o = [] /\
  (k_q s' = k_q s \/ exists x, k_q s' = k_q s ++ [x]).
Proof.
  destruct e; try contradiction; intros _; cbn [cstep].
  - destruct (Nat.ltb_spec (length (k_q s)) queue_cap) as [Hlt|Hge]; intros H Hl; inversion H; subst; cbn.
    + rewrite app_length. cbn. split; [lia|]. eauto.
    + auto.
  - destruct (find_bind_num n (k_binds s)); [|intros H Hl; inversion H; subst; cbn; auto].
    destruct (Nat.ltb_spec (length (k_q s)) queue_cap) as [Hlt|Hge]; intros H Hl; inversion H; subst; cbn.
    + rewrite app_length. cbn. split; [lia|]. eauto.
    + auto.
Qed.

Theorem unknown_channel_is_error s n d :
  find_bind_num n (k_binds s) = None -> cstep s (CInChan n d) = (s, {| o_wire := []; o_ret := RInErr |}).
Proof. intros H. cbn [cstep]. rewrite H. reflexivity. Qed.

Theorem known_channel_attributed_to_bound_peer s n d b :
  find_bind_num n (k_binds s) = Some b -> (length (k_q s) < queue_cap)%nat ->
  k_q (fst (cstep s (CInChan n d))) = k_q s ++ [(b_peer b, d)].
Proof. intros H Hl. cbn [cstep]. rewrite H. destruct (Nat.ltb_spec (length (k_q s)) queue_cap) as [Hlt|Hge]; [reflexivity|lia]. Qed.

(* ReadFrom returns the payloads in the order they were relayed, each with its peer *)
Theorem read_is_fifo s from d r :
  k_q s = (from, d) :: r ->
  cstep s CRead = (upd s (k_perms s) (k_binds s) (k_next s) r, {| o_wire := []; o_ret := RRead from d |}).
Proof. intros H. cbn [cstep]. rewrite H. reflexivity. Qed.

Theorem read_empty s : k_q s = [] ->
  o_ret (snd (cstep s CRead)) =
    if k_closed s then RErrClosed
    else match k_rd s with Some t => if t <=? k_now s then RTimeout else RNone | None => RNone end.
Proof. intros H. cbn [cstep]. rewrite H. destruct (k_closed s); [reflexivity|]. destruct (k_rd s) as [t|]; [destruct (t <=? k_now s)|]; reflexivity. Qed.

(* after Close nothing is written any more; Close releases the allocation at the server (Refresh 0) *)
Theorem write_after_close s p d reacts : k_closed s = true ->
  cstep s (CWrite p d reacts) = (s, {| o_wire := []; o_ret := RErrClosed |}).
Proof. intros H. cbn [cstep]. rewrite H. reflexivity. Qed.
Theorem close_releases s : k_closed s = false -> o_wire (snd (cstep s CClose)) = [WRefresh0] /\ k_closed (fst (cstep s CClose)) = true.
Proof. intros H. cbn [cstep]. rewrite H. auto. Qed.

(* ---------- ChannelData only after the server confirmed that binding (history level) ---------- *)
(* Inv: whoever is in a "usable" state (Ready / Refresh / ReadyUnknown), or started its outstanding
   ChannelBind from such a state, has had a ChannelBind success for its peer earlier in the history *)
Definition confirmed_inv (past : list cevent) (s : cst) : Prop :=
  forall b, In b (k_binds s) -> bstate_ok (b_st b) = true \/ was_ready (b_start b) = true ->
            In (CBindReact (b_peer b) BOk) past.

Lemma was_ready_ok st : was_ready st = true -> bstate_ok st = true.
Proof. destruct st; cbn; congruence. Qed.

Lemma start_binding_from_ok now b st' : start_binding now b = Some st' ->
  (bstate_ok st' = true \/ was_ready (b_st b) = true) -> bstate_ok (b_st b) = true.
Proof.
  unfold start_binding. destruct (b_st b) eqn:E; try discriminate; cbn.
  - intros H; inversion H; subst. cbn. intuition discriminate.
  - intros H; inversion H; subst. cbn. intuition discriminate.
  - auto.
  - auto.
Qed.

Lemma check_fold_inv now past : forall l acc_b acc_w binds w,
  (forall b, In b acc_b -> bstate_ok (b_st b) = true \/ was_ready (b_start b) = true -> In (CBindReact (b_peer b) BOk) past) ->
  (forall b, In b l -> bstate_ok (b_st b) = true \/ was_ready (b_start b) = true -> In (CBindReact (b_peer b) BOk) past) ->
  fold_left (fun (acc : list bind * list wire) (b : bind) =>
     match start_binding now b with
     | Some st' => (fst acc ++ [{| b_peer := b_peer b; b_num := b_num b; b_st := st'; b_start := b_st b; b_at := b_at b |}],
                    snd acc ++ [WChannelBind (b_num b) (b_peer b)])
     | None => (fst acc ++ [b], snd acc)
     end) l (acc_b, acc_w) = (binds, w) ->
  forall b, In b binds -> bstate_ok (b_st b) = true \/ was_ready (b_start b) = true -> In (CBindReact (b_peer b) BOk) past.
Proof.
  induction l as [|x l IH]; intros acc_b acc_w binds w Hacc Hl H; cbn [fold_left] in H.
  - inversion H; subst. exact Hacc.
  - destruct (start_binding now x) as [st'|] eqn:Hs; cbn [fst snd] in H.
    + eapply IH; [| |exact H].
      * intros b Hb Hok. apply in_app_iff in Hb as [Hb|[<-|[]]]; [auto|]. cbn in *.
        apply (Hl x (or_introl eq_refl)). left. eapply start_binding_from_ok; eauto.
      * intros b Hb. apply Hl. right; assumption.
    + eapply IH; [| |exact H].
      * intros b Hb Hok. apply in_app_iff in Hb as [Hb|[<-|[]]]; auto. apply (Hl x (or_introl eq_refl)). assumption.
      * intros b Hb. apply Hl. right; assumption.
Qed.

Lemma bindreact_binds s p r s' o : cstep s (CBindReact p r) = (s', o) ->
  k_binds s' = k_binds s \/
  exists b st at_, find_bind p (k_binds s) = Some b /\
    k_binds s' = set_bind {| b_peer := p; b_num := b_num b; b_st := st; b_start := b_start b; b_at := at_ |} (k_binds s) /\
    (bstate_ok st = true -> r = BOk \/ was_ready (b_start b) = true).
Proof.
  cbn [cstep]. destruct (find_bind p (k_binds s)) as [b|] eqn:Hb; [|intros H; inversion H; auto].
  destruct (b_st b); try (intros H; inversion H; auto; fail).
  all: destruct r; try (intros H; inversion H; subst; auto; fail).
  all: try (intros H; inversion H; subst; cbn [k_binds upd]; right; do 3 eexists; split; [reflexivity|]; split; [reflexivity|]; cbn; auto; fail).
  all: try (destruct (was_ready (b_start b)) eqn:Hw; intros H; inversion H; subst; cbn [k_binds upd]; right; do 3 eexists;
            (split; [reflexivity|]); (split; [reflexivity|]); cbn; auto; intros; discriminate).
Qed.

Theorem confirmed_step past s e s' o : confirmed_inv past s -> cstep s e = (s', o) -> confirmed_inv (past ++ [e]) s'.
Proof.
  intros Hinv H. unfold confirmed_inv in *.
  assert (Hpast : forall b, In b (k_binds s) -> bstate_ok (b_st b) = true \/ was_ready (b_start b) = true ->
                            In (CBindReact (b_peer b) BOk) (past ++ [e])).
  { intros b Hb Hok. apply in_or_app. left. auto. }
  destruct e; cbn [cstep] in H.
  - (* CWrite *)
    destruct (k_closed s); [inversion H; subst; exact Hpast|].
    destruct (if existsb (N.eqb (ip p)) (k_perms s) then (true, 0%nat) else perm_attempts 3 reacts) as [permitted nreq].
    destruct permitted; cbn [negb] in H; [|inversion H; subst; exact Hpast].
    destruct (find_bind p (k_binds s)) as [b|] eqn:Hb.
    + destruct (bstate_ok (b_st b)) eqn:Hok; [inversion H; subst; exact Hpast|].
      destruct (start_binding (k_now s) b) as [st'|] eqn:Hs; inversion H; subst; cbn [k_binds upd]; [|exact Hpast].
      intros x Hx Hxo. apply set_bind_in in Hx as [->|Hx]; [|auto]. cbn in Hxo.
      apply find_bind_some in Hb as [Hbin Hbp]. exfalso.
      assert (bstate_ok (b_st b) = true) by (eapply start_binding_from_ok; eauto). congruence.
    + cbn [bstate_ok b_st start_binding] in H. inversion H; subst; cbn [k_binds upd].
      intros x Hx Hxo. apply set_bind_in in Hx as [->|Hx]; [cbn in Hxo; intuition discriminate|].
      apply in_app_iff in Hx as [Hx|[<-|[]]]; [auto|cbn in Hxo; intuition discriminate].
  - (* CBindReact *)
    assert (H' : cstep s (CBindReact p r) = (s', o)) by exact H.
    apply bindreact_binds in H' as [E|(b & st & at_ & Hb & E & Hst)]; rewrite E; [exact Hpast|].
    apply find_bind_some in Hb as [Hbin Hbp].
    intros x Hx Hxo. apply set_bind_in in Hx as [->|Hx]; [|auto]. cbn in *.
    assert (Hold : was_ready (b_start b) = true -> In (CBindReact p BOk) (past ++ [CBindReact p r])).
    { intros Hw. pose proof (Hpast b Hbin (or_intror Hw)) as Hq. rewrite Hbp in Hq. exact Hq. }
    destruct Hxo as [Hk|Hk]; [|auto]. destruct (Hst Hk) as [->|Hw]; [apply in_or_app; right; left; reflexivity|auto].
  - destruct (_ <? _)%nat; inversion H; subst; exact Hpast.
  - destruct (find_bind_num n (k_binds s)); [destruct (_ <? _)%nat|]; inversion H; subst; exact Hpast.
  - destruct (k_q s) as [|[f d] r]; [|inversion H; subst; exact Hpast].
    destruct (k_closed s); [inversion H; subst; exact Hpast|]. destruct (k_rd s) as [t|]; [destruct (t <=? k_now s)|]; inversion H; subst; exact Hpast.
  - inversion H; subst; exact Hpast.
  - inversion H; subst; exact Hpast.
  - destruct (fold_left _ _ _) as [binds w] eqn:Hf. inversion H; subst; cbn [k_binds upd].
    eapply check_fold_inv; [| |exact Hf]; [intros ? []|]. exact Hpast.
  - destruct (k_closed s); inversion H; subst; exact Hpast.
Qed.

Theorem confirmed_run h : forall past s, confirmed_inv past s -> confirmed_inv (past ++ h) (fst (crun s h)).
Proof.
  induction h as [|e h IH]; intros past s Hinv; [rewrite app_nil_r; exact Hinv|]. cbn [crun].
  destruct (cstep s e) as [s1 o] eqn:Hs. destruct (crun s1 h) as [s2 os] eqn:Hr. cbn [fst].
  specialize (IH (past ++ [e]) s1 (confirmed_step _ _ _ _ _ Hinv Hs)). rewrite Hr in IH. rewrite <- app_assoc in IH. exact IH.
Qed.

(* the headline: in any history, a ChannelData frame toward peer p on number n is sent only after the
   server answered a ChannelBind for p with success, and n is the number assigned to p *)
Theorem chandata_only_after_confirmation h p d reacts o n x :
  let s := fst (crun cinit h) in
  cstep s (CWrite p d reacts) = (fst (cstep s (CWrite p d reacts)), o) -> In (WChanData n x) (o_wire o) ->
  In (CBindReact p BOk) h /\ exists b, find_bind p (k_binds s) = Some b /\ b_num b = n /\ x = d.
Proof.
  cbn zeta. intros H Hin. pose proof (write_spec _ _ _ _ _ _ H) as Hw. rewrite Forall_forall in Hw.
  specialize (Hw _ Hin). cbn in Hw. destruct Hw as (-> & _ & _ & _ & b & Hb & Hn & Hok).
  split; [|eauto].
  pose proof (confirmed_run h [] cinit) as Hc. cbn [app] in Hc.
  assert (Hinit : confirmed_inv [] cinit) by (intros ? []).
  specialize (Hc Hinit). apply find_bind_some in Hb as [Hbin Hbp]. rewrite <- Hbp. apply Hc; auto.
Qed.

(* ---------- every peer its own channel number in 0x4000-0x7FFF ---------- *)
Definition nth_num (i : nat) : N := (min_ch + N.of_nat i mod 16384)%N.
Definition num_inv (s : cst) : Prop :=
  k_next s = nth_num (length (k_binds s)) /\
  map b_num (k_binds s) = map nth_num (seq 0 (length (k_binds s))) /\
  NoDup (map b_peer (k_binds s)).

Lemma find_bind_none p l : find_bind p l = None -> ~ In p (map b_peer l).
Proof.
  induction l as [|x l IH]; cbn; [tauto|]. destruct (addr_eqb (b_peer x) p) eqn:E; [discriminate|].
  apply addr_eqb_neq in E. intros H [H1|H1]; [contradiction|]. apply IH in H. contradiction.
Qed.

Lemma set_bind_nums_nodup b b' l : NoDup (map b_peer l) -> In b l -> b_peer b' = b_peer b -> b_num b' = b_num b ->
  map b_num (set_bind b' l) = map b_num l.
Proof.
  intros Hnd Hin Hp Hn. apply set_bind_nums. intros y Hy Hyp.
  assert (y = b).
  { clear -Hnd Hin Hy Hyp Hp. induction l as [|z l IH]; [destruct Hin|]. cbn in Hnd. inversion Hnd as [|? ? Hz Hl]; subst.
    destruct Hin as [->|Hin]; destruct Hy as [->|Hy]; auto.
    - exfalso. apply Hz. rewrite <- Hp, <- Hyp. apply in_map. assumption.
    - exfalso. apply Hz. rewrite Hyp, Hp. apply in_map. assumption. }
  subst. congruence.
Qed.

Lemma check_fold_maps now : forall l acc_b acc_w binds w,
  fold_left (fun (acc : list bind * list wire) (b : bind) =>
     match start_binding now b with
     | Some st' => (fst acc ++ [{| b_peer := b_peer b; b_num := b_num b; b_st := st'; b_start := b_st b; b_at := b_at b |}],
                    snd acc ++ [WChannelBind (b_num b) (b_peer b)])
     | None => (fst acc ++ [b], snd acc)
     end) l (acc_b, acc_w) = (binds, w) ->
  map b_num binds = map b_num acc_b ++ map b_num l /\ map b_peer binds = map b_peer acc_b ++ map b_peer l.
Proof.
  induction l as [|x l IH]; intros acc_b acc_w binds w H; cbn [fold_left] in H.
  - inversion H; subst. rewrite !app_nil_r. auto.
  - destruct (start_binding now x); cbn [fst snd] in H; apply IH in H as [H1 H2]; rewrite H1, H2, !map_app; cbn; rewrite <- !app_assoc; auto.
Qed.

Lemma nth_num_succ n : (if (nth_num n =? max_ch)%N then min_ch else (nth_num n + 1)%N) = nth_num (S n).
Proof.
  unfold nth_num, min_ch, max_ch. rewrite Nat2N.inj_succ.
  destruct (N.eqb_spec (16384 + N.of_nat n mod 16384) 32767)%N; lia.
Qed.

Theorem num_inv_step s e s' o : num_inv s -> cstep s e = (s', o) -> num_inv s'.
Proof.
  intros (Hn & Hm & Hnd) H. destruct e; cbn [cstep] in H.
  - destruct (k_closed s); [inversion H; subst; repeat split; assumption|].
    destruct (if existsb (N.eqb (ip p)) (k_perms s) then (true, 0%nat) else perm_attempts 3 reacts) as [permitted nreq].
    destruct permitted; cbn [negb] in H; [|inversion H; subst; repeat split; assumption].
    destruct (find_bind p (k_binds s)) as [b|] eqn:Hb.
    + pose proof (find_bind_some _ _ _ Hb) as [Hbin Hbp].
      destruct (bstate_ok (b_st b)); [inversion H; subst; repeat split; assumption|].
      destruct (start_binding (k_now s) b) as [st0|]; inversion H; subst s' o; unfold num_inv; cbn [k_next k_binds upd]; [|repeat split; assumption].
      assert (El : length (set_bind {| b_peer := p; b_num := b_num b; b_st := st0; b_start := b_st b; b_at := b_at b |} (k_binds s)) = length (k_binds s)).
      { rewrite <- (map_length b_peer), set_bind_peers, map_length. reflexivity. }
      rewrite El. rewrite (set_bind_nums_nodup b) by (cbn; auto). rewrite set_bind_peers. repeat split; assumption.
    + cbn [bstate_ok b_st start_binding] in H. inversion H; subst s' o; unfold num_inv; cbn [k_next k_binds upd].
      set (nb := {| b_peer := p; b_num := k_next s; b_st := BIdle; b_start := BIdle; b_at := k_now s |}).
      assert (El : length (set_bind {| b_peer := p; b_num := k_next s; b_st := BRequest; b_start := BIdle; b_at := k_now s |} (k_binds s ++ [nb]))
                   = S (length (k_binds s))).
      { rewrite <- (map_length b_peer), set_bind_peers, map_length, app_length. cbn. lia. }
      rewrite El. apply find_bind_none in Hb.
      assert (Hnd' : NoDup (map b_peer (k_binds s ++ [nb]))) by (rewrite map_app; cbn; apply NoDup_app_single; assumption).
      rewrite (set_bind_nums_nodup nb) by (cbn; auto; apply in_or_app; right; left; reflexivity).
      rewrite set_bind_peers. repeat split.
      * rewrite Hn. apply nth_num_succ.
      * rewrite map_app, Hm. cbn [map]. rewrite seq_S, map_app. cbn. rewrite Hn. reflexivity.
      * exact Hnd'.
  - assert (H' : cstep s (CBindReact p r) = (s', o)) by exact H.
    apply bindreact_binds in H' as [E|(b & st & at_ & Hb & E & _)].
    + assert (Enext : k_next s' = k_next s).
      { clear -H. cbn [cstep] in H. repeat (match type of H with context [match ?x with _ => _ end] => destruct x end); inversion H; reflexivity. }
      unfold num_inv. rewrite E, Enext. repeat split; assumption.
    + assert (Enext : k_next s' = k_next s).
      { clear -H. cbn [cstep] in H. repeat (match type of H with context [match ?x with _ => _ end] => destruct x end); inversion H; reflexivity. }
      pose proof (find_bind_some _ _ _ Hb) as [Hbin Hbp].
      unfold num_inv. rewrite E, Enext.
      assert (El : length (set_bind {| b_peer := p; b_num := b_num b; b_st := st; b_start := b_start b; b_at := at_ |} (k_binds s)) = length (k_binds s)).
      { rewrite <- (map_length b_peer), set_bind_peers, map_length. reflexivity. }
      rewrite El, (set_bind_nums_nodup b), set_bind_peers by (cbn; auto). repeat split; assumption.
  - destruct (_ <? _)%nat; inversion H; subst; repeat split; assumption.
  - destruct (find_bind_num n (k_binds s)); [destruct (_ <? _)%nat|]; inversion H; subst; repeat split; assumption.
  - destruct (k_q s) as [|[f d] r]; [|inversion H; subst; repeat split; assumption].
    destruct (k_closed s); [inversion H; subst; repeat split; assumption|].
    destruct (k_rd s) as [t|]; [destruct (t <=? k_now s)|]; inversion H; subst; repeat split; assumption.
  - inversion H; subst; repeat split; assumption.
  - inversion H; subst; repeat split; assumption.
  - destruct (fold_left _ _ _) as [binds w] eqn:Hf. inversion H; subst; unfold num_inv; cbn [k_next k_binds upd].
    apply check_fold_maps in Hf as [F1 F2]. cbn [map app] in F1, F2.
    assert (El : length binds = length (k_binds s)) by (rewrite <- (map_length b_num), F1, map_length; reflexivity).
    rewrite El, F1, F2. repeat split; assumption.
  - destruct (k_closed s); inversion H; subst; repeat split; assumption.
Qed.

Theorem num_inv_run h : forall s, num_inv s -> num_inv (fst (crun s h)).
Proof.
  induction h as [|e h IH]; intros s Hinv; [exact Hinv|]. cbn [crun].
  destruct (cstep s e) as [s1 o] eqn:Hs. destruct (crun s1 h) as [s2 os] eqn:Hr. cbn [fst].
  specialize (IH s1 (num_inv_step _ _ _ _ Hinv Hs)). rewrite Hr in IH. exact IH.
Qed.

Lemma num_inv_init : num_inv cinit.
Proof. repeat split; cbn; constructor. Qed.

(* in every reachable state: all assigned numbers are in 0x4000..0x7FFF, and pairwise distinct as long as
   no more than 16384 peers have been written to *)
Theorem numbers_in_range_and_distinct h :
  let s := fst (crun cinit h) in
  (forall b, In b (k_binds s) -> valid_chan (b_num b) = true) /\
  ((N.of_nat (length (k_binds s)) <= 16384)%N -> NoDup (map b_num (k_binds s))) /\
  NoDup (map b_peer (k_binds s)).
Proof.
  cbn zeta. destruct (num_inv_run h cinit num_inv_init) as (Hn & Hm & Hnd). split; [|split; [|exact Hnd]].
  - intros b Hb. assert (Hin : In (b_num b) (map b_num (k_binds (fst (crun cinit h))))) by (apply in_map; assumption).
    rewrite Hm in Hin. apply in_map_iff in Hin as (i & <- & _). unfold nth_num, valid_chan, ChanData.min_chan, ChanData.max_chan, min_ch.
    apply andb_true_iff. split; apply N.leb_le; lia.
  - intros Hlen. rewrite Hm. remember (length (k_binds (fst (crun cinit h)))) as n eqn:En. clear -Hlen.
    assert (Hinj : forall i j, (i < n)%nat -> (j < n)%nat -> nth_num i = nth_num j -> i = j).
    { intros i j Hi Hj E. unfold nth_num in E. rewrite !N.mod_small in E by lia. lia. }
    assert (G : forall k m, (k + m <= n)%nat -> NoDup (map nth_num (seq k m))).
    { intros k m. revert k. induction m as [|m IH]; intros k Hk; cbn; [constructor|]. constructor; [|apply IH; lia].
      intros Hin. apply in_map_iff in Hin as (j & Ej & Hj). apply in_seq in Hj. apply Hinj in Ej; lia. }
    apply G. lia.
Qed.
