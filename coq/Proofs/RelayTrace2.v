(* More property predicates of Check/RelayProps.v proved on every trace of the model: C04 (isolation by 5-tuple),
   C03 (credentials), C05 (integrity, exactly once). *)
From Turn Require Import Bytes BytesP ChanData Relay RelayBase RelayInv RelayGates RelayLocal RelayMore RelayBalance.
From Turn Require Import Common RelayCheck RelayProps RelayTrace RelayTime RelayTime7.
From Coq Require Import ZifyN ZifyNat ZifyBool Permutation.
Open Scope Z_scope.

(* ---------- C04 ---------- *)
Lemma others_obs src l : others src (map obs_of l) = map obs_of (filter (fun a => negb (addr_eqb (a_client a) src)) l).
Proof.
  unfold others. induction l as [|x l IH]; cbn; [reflexivity|]. destruct (addr_eqb (a_client x) src); cbn; rewrite IH; reflexivity.
Qed.

Lemma NoDup_of_map {A B} (f : A -> B) l : NoDup (map f l) -> NoDup l.
Proof.
  induction l as [|x l IH]; cbn; [constructor|]. intros H. inversion H as [|? ? Hx Hl]; subst.
  constructor; [|auto]. intros Hin. apply Hx. apply in_map. exact Hin.
Qed.

Lemma others_perm src s s' : NoDup (map a_client (allocs s)) -> NoDup (map a_client (allocs s')) -> others_same src s s' ->
  mset_eqb obs_alloc_eqb (others src (listing_of s)) (others src (listing_of s')) = true.
Proof.
  intros H1 H2 Ho. rewrite !listing_of_map, !others_obs. apply mset_eqb_perm. apply Permutation_map.
  apply NoDup_Permutation.
  - apply NoDup_filter. eapply NoDup_of_map; eauto.
  - apply NoDup_filter. eapply NoDup_of_map; eauto.
  - intros a. rewrite !filter_In. split; intros [Hin Hc]; (split; [|exact Hc]);
      apply Bool.negb_true_iff, addr_eqb_neq in Hc; apply (Ho a Hc); exact Hin.
Qed.

Definition life_client (e : lifecycle) : addr :=
  match e with
  | LAllocCreated c _ _ | LAllocDeleted c _ | LPermCreated c _ | LPermDeleted c _ | LChanCreated c _ _ | LChanDeleted c _ _ => c
  end.

Lemma add_perm_life_client a i dl a' ev : add_perm a i dl = (a', ev) -> forall e, In (Life e) ev -> life_client e = a_client a.
Proof.
  unfold add_perm. intros H. inversion H; subst. destruct (find_perm i (a_perms a)); intros e Hin; [destruct Hin|].
  destruct Hin as [E|[]]. inversion E; reflexivity.
Qed.

Lemma install_perms_life_client dl peers : forall a a' ev, install_perms a dl peers = (a', ev) ->
  forall e, In (Life e) ev -> life_client e = a_client a.
Proof.
  induction peers as [|[p|] r IH]; cbn [install_perms]; intros a a' ev H e Hin.
  - inversion H; subst. destruct Hin.
  - destruct (add_perm a (ip p) dl) as [a1 e1] eqn:H1. destruct (install_perms a1 dl r) as [a2 e2] eqn:H2.
    inversion H; subst. apply in_app_iff in Hin as [Hin|Hin].
    + eapply add_perm_life_client; eauto.
    + rewrite (IH _ _ _ H2 _ Hin). apply (add_perm_dl _ _ _ _ _ H1).
  - eapply IH; eauto.
Qed.

Lemma close_events_client a e : In (Life e) (close_events a) -> life_client e = a_client a.
Proof.
  unfold close_events. rewrite !in_app_iff. intros [H|[H|[H|[]]]].
  - apply in_map_iff in H as (p & E & _). inversion E; reflexivity.
  - apply in_map_iff in H as (c & E & _). inversion E; reflexivity.
  - inversion H; reflexivity.
Qed.

(* the lifecycle events a request causes concern the requester's allocation *)
Lemma req_life_client cfg s src tid c r unk s' acts e :
  step cfg s (EReq src tid c r unk) = (s', acts) -> In (Life e) acts -> life_client e = src.
Proof.
  cbn [step]. intros H Hin.
  destruct unk; [inversion H; subst; cbn in Hin; intuition discriminate|].
  destruct r as [tr lt fam df rp ep rt mt|lt fam|peers|n p|]; try (inversion H; subst; cbn in Hin; intuition discriminate);
    destruct (authenticate cfg s c) as [uid|code ch]; try (inversion H; subst; cbn in Hin; intuition discriminate).
  - unfold h_allocate in H. repeat (dmatch H; try (inversion H; subst; cbn in Hin; intuition discriminate)).
    all: inversion H; subst; cbn in Hin; destruct Hin as [E|[E|[]]]; try discriminate; inversion E; reflexivity.
  - unfold h_refresh in H. cbv zeta in H.
    destruct (owned_alloc s src uid) as [a|] eqn:Ho; [|inversion H; subst; destruct Hin].
    apply owned_alloc_some in Ho as (_ & Hcl & _).
    repeat (dmatch H; try (inversion H; subst; cbn in Hin; intuition discriminate)).
    all: inversion H; subst; clear H; try (cbn in Hin; intuition discriminate).
    all: apply in_app_iff in Hin as [Hin|Hin]; [apply close_events_client in Hin; first [exact Hin|congruence]|cbn in Hin; intuition discriminate].
  - unfold h_create_perm in H.
    destruct (owned_alloc s src uid) as [a|] eqn:Ho; [|inversion H; subst; destruct Hin].
    apply owned_alloc_some in Ho as (_ & Hcl & _).
    destruct (perm_check cfg a peers); [inversion H; subst; cbn in Hin; intuition discriminate|].
    destruct peers as [|q peers]; [inversion H; subst; cbn in Hin; intuition discriminate|].
    destruct (install_perms a _ (q :: peers)) as [a' evs] eqn:Hi. inversion H; subst.
    apply in_app_iff in Hin as [Hin|Hin]; [rewrite (install_perms_life_client _ _ _ _ _ Hi _ Hin); first [exact Hcl|reflexivity]|cbn in Hin; intuition discriminate].
  - unfold h_channel_bind in H.
    destruct (owned_alloc s src uid) as [a|] eqn:Ho; [|inversion H; subst; destruct Hin].
    apply owned_alloc_some in Ho as (_ & Hcl & _).
    repeat (dmatch H; try (inversion H; subst; cbn in Hin; intuition discriminate)).
    all: inversion H; subst; clear H.
    all: apply in_app_iff in Hin as [Hin|Hin];
         [match goal with Ha : add_perm _ _ _ = (_, _) |- _ => rewrite (add_perm_life_client _ _ _ _ _ Ha _ Hin); cbn; first [exact Hcl|reflexivity] end|].
    all: cbn in Hin; destruct Hin as [E|Hin]; try discriminate; try (inversion E; reflexivity).
    all: try (destruct Hin as [E|[]]; discriminate).
    all: try destruct Hin.
Qed.

Lemma is_life_bool l : Forall RelayGates.is_life l -> forallb RelayCheck.is_life l = true.
Proof.
  intros H. apply forallb_forall. intros a Ha. rewrite Forall_forall in H. specialize (H _ Ha). destruct a; cbn in *; auto; contradiction.
Qed.

Lemma chk_C04_step_model cfg s e s' acts : inv cfg s -> step cfg s e = (s', acts) ->
  chk_C04_step (listing_of s) {| os_ev := e; os_acts := acts; os_allocs := listing_of s' |} = true.
Proof.
  intros Hinv Hs. pose proof Hinv as [Hnd _]. pose proof (inv_step _ _ _ _ _ Hinv Hs) as [Hnd' _].
  unfold chk_C04_step. cbn [os_ev os_acts os_allocs].
  assert (Hc : nodupb addr_eqb (map oa_client (listing_of s')) = true).
  { rewrite listing_of_map, map_map. cbn [obs_of oa_client]. apply (nodupb_NoDup addr_eqb addr_eqb_eq). exact Hnd'. }
  rewrite Hc. cbn [andb].
  destruct e as [src tid c r unk|src p d|src n d|relay from d|dt|relay|csrc| |].
  - (* a request *)
    destruct (req_locality _ _ _ _ _ _ _ _ _ Hs) as [Ho _]. rewrite (others_perm _ _ _ Hnd Hnd' Ho). cbn [andb].
    destruct (req_shape _ _ _ _ _ _ _ _ _ Hs) as (evs & tail & Eacts & Hlife & Htail).
    apply andb_true_iff. split; apply forallb_forall; intros a Ha.
    + rewrite Eacts in Ha. apply in_app_iff in Ha as [Ha|Ha].
      * rewrite Forall_forall in Hlife. specialize (Hlife _ Ha). destruct a; cbn in Hlife; try contradiction. reflexivity.
      * destruct Htail as [->|[(at_ & ->)|(code & ch & ->)]]; [destruct Ha| |]; destruct Ha as [<-|[]]; cbn; apply addr_eqb_refl.
    + destruct a as [| | | |r0 q x|ev]; try reflexivity.
      * exfalso. destruct (topeer_only_from_send_or_chandata _ _ _ _ _ _ _ _ Hs Ha) as [(? & ? & ? & E)|(? & ? & ? & E)]; discriminate.
      * pose proof (req_life_client _ _ _ _ _ _ _ _ _ ev Hs Ha) as E. destruct ev; cbn in E; subst; apply addr_eqb_refl.
  - (* Send indication *)
    pose proof Hs as Hs0. cbn [step] in Hs. apply h_send_spec in Hs as [-> Hacts]. rewrite mset_eqb_refl. cbn [andb].
    destruct Hacts as [->|(a & q & dd & pm & -> & _ & _ & Hf & _)]; [reflexivity|].
    cbn [forallb to_client_dst andb]. rewrite listing_of_map, find_oalloc_listing, Hf. cbn [option_map obs_of oa_relay].
    rewrite addr_eqb_refl. reflexivity.
  - cbn [step] in Hs. apply h_chandata_spec in Hs as [-> Hacts]. rewrite mset_eqb_refl. cbn [andb].
    destruct Hacts as [->|(a & c0 & -> & Hf & _)]; [reflexivity|].
    cbn [forallb to_client_dst andb]. rewrite listing_of_map, find_oalloc_listing, Hf. cbn [option_map obs_of oa_relay].
    rewrite addr_eqb_refl. reflexivity.
  - (* a datagram at a relayed address *)
    cbn [step] in Hs. apply h_peer_spec in Hs as [-> Hacts]. rewrite mset_eqb_refl. cbn [andb].
    destruct Hacts as [->|(a & Hf & _ & _ & [(c0 & _ & ->)|(_ & pm & _ & ->)])]; [reflexivity| |].
    all: cbn [forallb to_client_dst andb]; rewrite listing_of_map, find_orelay_listing, Hf; cbn [option_map obs_of oa_client];
         rewrite addr_eqb_refl; reflexivity.
  - cbn [step] in Hs. unfold h_tick in Hs. destruct (tick_allocs _ _) as [l evs] eqn:Ht. inversion Hs; subst.
    apply is_life_bool. eapply tick_allocs_life; eauto.
  - pose proof Hs as Hs0. cbn [step] in Hs. unfold h_relay_err in Hs. rewrite listing_of_map, find_orelay_listing.
    destruct (find_relay relay (allocs s)) as [a|] eqn:Hf; inversion Hs; subst; clear Hs; cbn [option_map].
    + apply andb_true_iff. split; [exact (is_life_bool _ (close_events_life a))|]. cbn [obs_of oa_client].
      change (map obs_of (allocs s)) with (listing_of s).
      apply (others_perm (a_client a) s (set_allocs s (remove_alloc (a_client a) (allocs s))) Hnd Hnd'). apply others_same_remove.
    + cbn [forallb andb]. rewrite <- listing_of_map. apply mset_eqb_refl.
  - pose proof Hs as Hs0. cbn [step] in Hs. unfold h_ctl_close in Hs.
    destruct (find_alloc csrc (allocs s)) as [a|] eqn:Hf; inversion Hs; subst; clear Hs.
    + apply andb_true_iff. split; [exact (is_life_bool _ (close_events_life a))|].
      apply find_alloc_some in Hf as [_ Hca]. rewrite <- Hca.
      apply (others_perm (a_client a) s (set_allocs s (remove_alloc (a_client a) (allocs s))) Hnd Hnd'). apply others_same_remove.
    + cbn [forallb andb]. apply mset_eqb_refl.
  - cbn [step] in Hs. apply is_life_bool. eapply h_srv_close_life; eauto.
  - cbn [step] in Hs. inversion Hs; subst. apply mset_eqb_refl.
Qed.

(* for every configuration and every history: at most one allocation per 5-tuple after every step; a request, Send
   indication or ChannelData from one 5-tuple leaves every other 5-tuple's allocation exactly as it was, answers only its
   own source, emits only from its own relayed address and causes lifecycle events only about itself; a datagram at a
   relayed address changes nothing and reaches only the owner of that address; timers and relay failures touch only
   what they end *)
Theorem chk_C04_model cfg ep h : chk_C04 (model_case cfg ep h) = true.
Proof.
  unfold chk_C04, model_case. cbn [rc_steps]. change (@nil obs_alloc) with (listing_of (init ep)).
  apply (all_steps_model cfg chk_C04_step (chk_C04_step_model cfg) h (init ep)). apply inv_init.
Qed.

(* ---------- C05 ---------- *)
(* per step: the gates of C01 and C02, oversize peer datagrams dropped, ChannelData numbers in range *)
Lemma chk_C05_step_model cfg s e s' acts : cfg_relay_wf cfg -> inv cfg s -> relfam s -> step cfg s e = (s', acts) ->
  chk_C05_step cfg (listing_of s) {| os_ev := e; os_acts := acts; os_allocs := listing_of s' |} = true.
Proof.
  intros Hw Hinv Hr Hs. unfold chk_C05_step.
  rewrite (chk_C01_step_model _ _ _ _ _ Hw Hinv Hr Hs), (chk_C02_step_model _ _ _ _ _ Hinv Hs). cbn [andb os_ev os_acts].
  rewrite (chandata_out_valid _ _ _ _ _ Hinv Hs), andb_true_r.
  destruct e as [? ? ? ? ?|? ? ?|? ? ?|relay from d|?|?|?| |]; try reflexivity.
  destruct (N.ltb_spec rtp_mtu (lenN d)); [|reflexivity].
  cbn [step] in Hs. apply h_peer_spec in Hs as [_ [->|(a & _ & _ & Hle & _)]]; [reflexivity|lia].
Qed.

(* who may relay datagrams: the allocations not requested with transport TCP *)
Definition udp_inv (tcp : list addr) (s : state) : Prop :=
  forall a, In a (allocs s) -> existsb (addr_eqb (a_client a)) tcp = false -> a_proto a = 17%N.

Lemma new_alloc_facts cfg s e s' acts a' : inv cfg s -> step cfg s e = (s', acts) -> In a' (allocs s') ->
  find_alloc (a_client a') (allocs s) = None ->
  exists tid c lt fam df rp ep rt mt at_,
    e = EReq (a_client a') tid c (RqAllocate (APresent (a_proto a')) lt fam df rp ep rt mt) false /\
    (a_proto a' = 17 \/ a_proto a' = 6)%N /\ success_of MAllocate acts = Some at_.
Proof.
  intros Hinv Hs Hin Hnone. pose proof Hinv as [Hnd _].
  assert (Old : In (a_client a') (map a_client (allocs s)) -> False) by (apply find_alloc_none; exact Hnone).
  assert (Sub : (forall x, In x (map a_client (allocs s')) -> In x (map a_client (allocs s))) -> False).
  { intros H. apply Old. apply H. apply in_map. exact Hin. }
  destruct e as [src tid c r unk|src p d|src n d|relay from d|dt|relay|csrc| |]; cbn [step] in Hs.
  - destruct unk; [inversion Hs; subst; exfalso; apply Sub; auto|].
    destruct r as [tr lt fam df rp ep rt mt|lt fam|peers|n p|]; try (inversion Hs; subst; exfalso; apply Sub; auto; fail);
      destruct (authenticate cfg s c) as [uid|code ch]; try (inversion Hs; subst; exfalso; apply Sub; auto; fail).
    + unfold h_allocate in Hs. repeat (dmatch Hs; try (inversion Hs; subst; exfalso; apply Sub; auto; fail)).
      all: inversion Hs; subst; clear Hs; cbn [allocs set_allocs add_rsv] in Hin; apply in_app_iff in Hin as [Hin|[<-|[]]];
           [exfalso; apply Old; apply in_map; exact Hin|].
      all: cbn [a_client a_proto]; do 10 eexists; split; [reflexivity|split; [|cbn; reflexivity]].
      all: match goal with Hp : negb ((?v =? 17)%N || (?v =? 6)%N) = false |- _ =>
             apply Bool.negb_false_iff, orb_true_iff in Hp as [Hp|Hp]; apply N.eqb_eq in Hp; auto end.
    + exfalso. apply Sub. unfold h_refresh in Hs. cbv zeta in Hs.
      destruct (owned_alloc s src uid) as [a|]; [|inversion Hs; subst; auto].
      repeat (dmatch Hs; try (inversion Hs; subst; auto; fail)).
      all: inversion Hs; subst; clear Hs; cbn [allocs set_allocs]; intros x Hx.
      all: first [apply remove_alloc_clients_incl in Hx; exact Hx | rewrite replace_alloc_clients in Hx; exact Hx].
    + exfalso. apply Sub. intros x Hx. rewrite <- dlmap_keys in Hx |- *. rewrite (dlmap_create_perm cfg _ _ _ _ _ _ _ Hinv Hs) in Hx. exact Hx.
    + exfalso. apply Sub. intros x Hx. rewrite <- dlmap_keys in Hx |- *. rewrite (dlmap_channel_bind cfg _ _ _ _ _ _ _ _ Hinv Hs) in Hx. exact Hx.
  - apply h_send_spec in Hs as [-> _]. exfalso; apply Sub; auto.
  - apply h_chandata_spec in Hs as [-> _]. exfalso; apply Sub; auto.
  - apply h_peer_spec in Hs as [-> _]. exfalso; apply Sub; auto.
  - exfalso. apply Sub. unfold h_tick in Hs. destruct (tick_allocs _ _) as [l evs] eqn:Ht. inversion Hs; subst. cbn [allocs].
    destruct Hinv as [Hn Ha]. apply (tick_allocs_inv _ _ _ _ _ Hn Ha Ht).
  - exfalso. apply Sub. unfold h_relay_err in Hs. destruct (find_relay relay (allocs s)); inversion Hs; subst; auto.
    cbn [allocs set_allocs]. intros x Hx. apply remove_alloc_clients_incl in Hx. exact Hx.
  - exfalso. apply Sub. unfold h_ctl_close in Hs. destruct (find_alloc csrc (allocs s)); inversion Hs; subst; auto.
    cbn [allocs set_allocs]. intros x Hx. apply remove_alloc_clients_incl in Hx. exact Hx.
  - inversion Hs; subst. destruct Hin.
  - inversion Hs; subst. exfalso; apply Sub; auto.
Qed.

Lemma existsb_filter_addr c (P : addr -> bool) l : P c = true -> existsb (addr_eqb c) (filter P l) = false -> existsb (addr_eqb c) l = false.
Proof.
  intros Pc. induction l as [|x l IH]; cbn; [auto|]. destruct (P x) eqn:Px; cbn.
  - intros H. apply orb_false_iff in H as [A B]. rewrite A. cbn. apply IH. exact B.
  - intros H. destruct (addr_eqb c x) eqn:E; [apply addr_eqb_eq in E; subst; congruence|]. cbn. apply IH. exact H.
Qed.

Lemma find_perm_of_has i l : existsb (N.eqb i) (map p_ip l) = true -> exists p, find_perm i l = Some p.
Proof.
  induction l as [|x l IH]; cbn; [discriminate|]. rewrite (N.eqb_sym i). destruct (p_ip x =? i)%N; [eauto|]. cbn. exact IH.
Qed.

Lemma find_chan_num_of_has n l : existsb (fun c => (fst c =? n)%N) (map (fun c => (c_num c, c_peer c)) l) = true ->
  exists c, find_chan_num n l = Some c.
Proof. induction l as [|x l IH]; cbn; [discriminate|]. destruct (c_num x =? n)%N; [eauto|]. cbn. exact IH. Qed.

Lemma find_chan_peer_of_has p l : existsb (fun c => addr_eqb (snd c) p) (map (fun c => (c_num c, c_peer c)) l) = true ->
  exists c, find_chan_peer p l = Some c.
Proof. induction l as [|x l IH]; cbn; [discriminate|]. destruct (addr_eqb (c_peer x) p); [eauto|]. cbn. exact IH. Qed.

Section C05.
  Variable cfg : config.

  Lemma chk_C05_live_model h : forall s tcp, inv cfg s -> udp_inv tcp s ->
    chk_C05_live cfg tcp (listing_of s) (model_trace cfg s h) = true.
  Proof.
    induction h as [|e r IH]; intros s tcp Hinv Hu; cbn [model_trace chk_C05_live]; [reflexivity|].
    destruct (step cfg s e) as [s' acts] eqn:Hs. cbn [chk_C05_live os_ev os_acts os_allocs].
    pose proof Hinv as [Hnd _]. pose proof (inv_step _ _ _ _ _ Hinv Hs) as Hinv'.
    apply andb_true_iff. split.
    - (* this step forwards what it must *)
      destruct e as [? ? ? ? ?|src peer data|src n d|relay from d|?|?|?| |]; try reflexivity.
      + destruct peer as [[p|]|]; try reflexivity. destruct data as [d|]; try reflexivity.
        rewrite listing_of_map, find_oalloc_listing. destruct (find_alloc src (allocs s)) as [a|] eqn:Hf; [|reflexivity].
        cbn [option_map]. destruct (has_perm (ip p) (obs_of a) && negb (existsb (addr_eqb src) tcp) && (send_wire_len p d <? cfg_mtu cfg)%N) eqn:C; [|reflexivity].
        apply andb_true_iff in C as [C C3]. apply andb_true_iff in C as [C1 C2]. apply Bool.negb_true_iff in C2.
        pose proof (find_alloc_some _ _ _ Hf) as [Ha Hcl]. rewrite <- Hcl in C2. pose proof (Hu _ Ha C2) as Hp17.
        unfold has_perm, obs_of in C1. cbn [oa_perms] in C1. destruct (find_perm_of_has _ _ C1) as (pm & Hpm).
        cbn [step] in Hs. unfold h_send in Hs. rewrite Hf, Hpm, Hp17 in Hs.
        destruct (N.leb_spec (cfg_mtu cfg) (send_wire_len p d)); [apply N.ltb_lt in C3; lia|]. inversion Hs; subst. reflexivity.
      + rewrite listing_of_map, find_oalloc_listing. destruct (find_alloc src (allocs s)) as [a|] eqn:Hf; [|reflexivity].
        cbn [option_map]. destruct (existsb (fun c => (fst c =? n)%N) (oa_chans (obs_of a)) && negb (existsb (addr_eqb src) tcp) && (chandata_wire_len d <? cfg_mtu cfg)%N) eqn:C; [|reflexivity].
        apply andb_true_iff in C as [C C3]. apply andb_true_iff in C as [C1 C2]. apply Bool.negb_true_iff in C2.
        pose proof (find_alloc_some _ _ _ Hf) as [Ha Hcl]. rewrite <- Hcl in C2. pose proof (Hu _ Ha C2) as Hp17.
        unfold obs_of in C1. cbn [oa_chans] in C1. destruct (find_chan_num_of_has _ _ C1) as (c0 & Hc0).
        cbn [step] in Hs. unfold h_chandata in Hs. rewrite Hf, Hc0, Hp17 in Hs.
        destruct (N.leb_spec (cfg_mtu cfg) (chandata_wire_len d)); [apply N.ltb_lt in C3; lia|]. inversion Hs; subst. reflexivity.
      + rewrite listing_of_map, find_orelay_listing. destruct (find_relay relay (allocs s)) as [a|] eqn:Hf; [|reflexivity].
        cbn [option_map]. destruct ((has_perm (ip from) (obs_of a) || existsb (fun c => addr_eqb (snd c) from) (oa_chans (obs_of a))) &&
                                   negb (existsb (addr_eqb (oa_client (obs_of a))) tcp) && (lenN d <=? rtp_mtu)%N) eqn:C; [|reflexivity].
        apply andb_true_iff in C as [C C3]. apply andb_true_iff in C as [C1 C2]. apply Bool.negb_true_iff in C2. cbn [obs_of oa_client] in C2.
        pose proof (find_relay_some _ _ _ Hf) as [Ha _]. pose proof (Hu _ Ha C2) as Hp17.
        cbn [step] in Hs. unfold h_peer in Hs. rewrite Hf, Hp17 in Hs. cbn [N.eqb negb] in Hs.
        replace (17 =? 17)%N with true in Hs by reflexivity. cbn [negb] in Hs.
        destruct (N.ltb_spec rtp_mtu (lenN d)); [apply N.leb_le in C3; lia|].
        destruct (find_chan_peer from (a_chans a)) as [c0|] eqn:Hc0; [inversion Hs; subst; reflexivity|].
        apply orb_true_iff in C1 as [C1|C1].
        * unfold has_perm, obs_of in C1. cbn [oa_perms] in C1. destruct (find_perm_of_has _ _ C1) as (pm & Hpm). rewrite Hpm in Hs.
          inversion Hs; subst. reflexivity.
        * unfold obs_of in C1. cbn [oa_chans] in C1. destruct (find_chan_peer_of_has _ _ C1) as (c1 & Hc1). congruence.
    - (* and the bookkeeping of TCP allocations stays right *)
      apply IH; [exact Hinv'|]. intros a' Hin' Hex.
      set (tcp1 := match e with
                   | EReq src _ _ (RqAllocate (APresent 6%N) _ _ _ _ _ _ _) _ =>
                       match success_of MAllocate acts, find_oalloc src (listing_of s) with Some _, None => src :: tcp | _, _ => tcp end
                   | _ => tcp end) in *.
      assert (Hp' : match find_oalloc (a_client a') (listing_of s') with Some _ => true | None => false end = true).
      { rewrite listing_of_map, find_oalloc_listing. destruct Hinv' as [Hnd' _]. rewrite (find_alloc_in_nodup _ _ Hnd' Hin'). reflexivity. }
      assert (Hex1 : existsb (addr_eqb (a_client a')) tcp1 = false).
      { apply (existsb_filter_addr (a_client a') (fun c => match find_oalloc c (listing_of s') with Some _ => true | None => false end) tcp1 Hp' Hex). }
      assert (Hex0 : existsb (addr_eqb (a_client a')) tcp = false).
      { unfold tcp1 in Hex1. destruct e as [src tid c rq unk|? ? ?|? ? ?|? ? ?|?|?|?| |]; try exact Hex1.
        destruct rq as [tr ? ? ? ? ? ? ?|? ?|?|? ?|]; try exact Hex1. destruct tr as [| |v]; try exact Hex1.
        destruct v as [|v]; try exact Hex1. repeat (destruct v as [v|v|]; try exact Hex1).
        destruct (success_of MAllocate acts); [|exact Hex1]. destruct (find_oalloc src (listing_of s)); [exact Hex1|].
        cbn [existsb] in Hex1. apply orb_false_iff in Hex1 as [_ H]. exact H. }
      destruct (step_frame _ _ _ _ _ Hs _ Hin') as [(a & Ha & (Ecl & _ & _ & Epr & _))|(_ & Hnone & _)].
      + rewrite Epr. apply Hu; [exact Ha|]. rewrite <- Ecl. exact Hex0.
      + destruct (new_alloc_facts _ _ _ _ _ _ Hinv Hs Hin' Hnone) as (tid & c & lt & fam & df & rp & ep & rt & mt & at_ & Ee & [Hp|Hp] & Hso); [exact Hp|].
        exfalso. subst e. unfold tcp1 in Hex1. rewrite Hp, Hso in Hex1. rewrite listing_of_map, find_oalloc_listing, Hnone in Hex1.
        cbn [option_map existsb] in Hex1. rewrite addr_eqb_refl in Hex1. discriminate.
  Qed.
End C05.

(* for every configuration whose relay IPs are of their own family and every history: the gates of C01 and C02 hold,
   an oversize peer datagram yields nothing, ChannelData numbers are in range - and whenever relaying is authorised by
   what exists before the event (a permission / binding, a UDP allocation, a datagram that fits), the datagram IS
   forwarded, exactly once *)
Theorem chk_C05_model cfg ep h : cfg_relay_wf cfg -> chk_C05 (model_case cfg ep h) = true.
Proof.
  intros Hw. unfold chk_C05, model_case. cbn [rc_cfg rc_steps]. apply andb_true_iff. split.
  - change (@nil obs_alloc) with (listing_of (init ep)).
    apply (all_steps_model2 cfg relfam (chk_C05_step cfg)).
    + intros s e s' acts _ Hr Hs. eapply relfam_step; eauto.
    + intros s e s' acts Hinv Hr Hs. apply chk_C05_step_model; assumption.
    + apply inv_init.
    + constructor.
  - change (@nil obs_alloc) with (listing_of (init ep)). apply chk_C05_live_model; [apply inv_init|]. intros a [].
Qed.

(* ---------- C03 ---------- *)
Lemma authenticate_indep cfg s st c : now st = now s -> epoch_min st = epoch_min s -> authenticate cfg st c = authenticate cfg s c.
Proof. intros Hn He. unfold authenticate, nonce_valid, cur_minute. rewrite Hn, He. reflexivity. Qed.

Lemma epoch_step cfg s e s' acts : step cfg s e = (s', acts) -> epoch_min s' = epoch_min s.
Proof.
  intros H. destruct e as [src tid c r unk|src p d|src n d|relay from d|dt|relay|csrc| |].
  - cbn [step] in H. destruct unk; [inversion H; reflexivity|].
    destruct r as [tr lt fam df rp ep rt mt|lt fam|peers|n p|]; try (inversion H; reflexivity);
      destruct (authenticate cfg s c); try (inversion H; reflexivity).
    + unfold h_allocate in H. repeat (dmatch H; try (inversion H; reflexivity)). all: inversion H; reflexivity.
    + unfold h_refresh in H. cbv zeta in H. repeat (dmatch H; try (inversion H; reflexivity)). all: inversion H; reflexivity.
    + unfold h_create_perm in H. repeat (dmatch H; try (inversion H; reflexivity)). all: inversion H; reflexivity.
    + unfold h_channel_bind in H. repeat (dmatch H; try (inversion H; reflexivity)). all: inversion H; reflexivity.
  - cbn [step] in H. apply h_send_spec in H as [-> _]. reflexivity.
  - cbn [step] in H. apply h_chandata_spec in H as [-> _]. reflexivity.
  - cbn [step] in H. apply h_peer_spec in H as [-> _]. reflexivity.
  - cbn [step] in H. unfold h_tick in H. destruct (tick_allocs _ _). inversion H; reflexivity.
  - cbn [step] in H. unfold h_relay_err in H. destruct (find_relay relay (allocs s)); inversion H; reflexivity.
  - cbn [step] in H. unfold h_ctl_close in H. destruct (find_alloc csrc (allocs s)); inversion H; reflexivity.
  - cbn [step] in H. inversion H; reflexivity.
  - cbn [step] in H. inversion H; reflexivity.
Qed.

Lemma authenticate_challenge cfg s c code ch : authenticate cfg s c = AuthReply code ch -> ch = ((code =? 401)%N || (code =? 438)%N).
Proof. unfold authenticate. intros H. repeat (dmatch H; try discriminate). all: inversion H; subst; reflexivity. Qed.

(* who owns which 5-tuple, as the lifecycle callbacks tell it *)
Definition umap (s : state) (c : addr) : option N := option_map a_user (find_alloc c (allocs s)).
Definition own_inv (ow : list (addr * N)) (s : state) : Prop := forall c, aget addr_eqb c ow = umap s c.

Definition ostep1 (f : addr -> option N) (a : action) : addr -> option N :=
  match a with
  | Life (LAllocCreated c u _) => fun x => if addr_eqb x c then Some u else f x
  | Life (LAllocDeleted c _) => fun x => if addr_eqb x c then None else f x
  | _ => f
  end.
Definition osem (acts : list action) (f : addr -> option N) : addr -> option N := fold_left ostep1 acts f.

Lemma owners_update_sem acts : forall ow f, (forall x, aget addr_eqb x ow = f x) ->
  forall c, aget addr_eqb c (owners_update acts ow) = osem acts f c.
Proof.
  unfold owners_update, osem. induction acts as [|a r IH]; intros ow f E c; cbn [fold_left]; [apply E|].
  apply IH. intros x. destruct a as [| | | | |ev]; cbn [ostep1]; try apply E. destruct ev; cbn [ostep1]; try apply E.
  - rewrite aget_aset, E. reflexivity.
  - rewrite (aget_adel_g addr_eqb addr_eqb_eq), E. reflexivity.
Qed.

Lemma osem_app a b f x : osem (a ++ b) f x = osem b (osem a f) x.
Proof. unfold osem. rewrite fold_left_app. reflexivity. Qed.

Definition noalloc (a : action) : Prop :=
  match a with Life (LAllocCreated _ _ _) | Life (LAllocDeleted _ _) => False | _ => True end.

Lemma osem_noalloc acts : Forall noalloc acts -> forall f x, osem acts f x = f x.
Proof.
  unfold osem. induction acts as [|a r IH]; intros H f x; [reflexivity|]. inversion H as [|? ? Ha Hr]; subst. cbn [fold_left].
  rewrite (IH Hr). destruct a as [| | | | |ev]; try reflexivity. destruct ev; cbn in Ha; try contradiction; reflexivity.
Qed.

Lemma add_perm_noalloc a i dl a' ev : add_perm a i dl = (a', ev) -> Forall noalloc ev.
Proof. unfold add_perm. intros H. inversion H; subst. destruct (find_perm i (a_perms a)); repeat constructor. Qed.

Lemma install_perms_noalloc dl peers : forall a a' ev, install_perms a dl peers = (a', ev) -> Forall noalloc ev.
Proof.
  induction peers as [|[p|] r IH]; cbn [install_perms]; intros a a' ev H.
  - inversion H; constructor.
  - destruct (add_perm a (ip p) dl) as [a1 e1] eqn:H1. destruct (install_perms a1 dl r) as [a2 e2] eqn:H2.
    inversion H; subst. apply Forall_app. split; [eapply add_perm_noalloc; eauto|eapply IH; eauto].
  - eapply IH; eauto.
Qed.

Lemma osem_close a f x : osem (close_events a) f x = if addr_eqb x (a_client a) then None else f x.
Proof.
  unfold close_events. rewrite !osem_app. cbn [osem fold_left ostep1].
  destruct (addr_eqb x (a_client a)); [reflexivity|].
  rewrite osem_noalloc; [rewrite osem_noalloc; [reflexivity|]|]; apply Forall_forall; intros y Hy; apply in_map_iff in Hy as (z & <- & _); exact I.
Qed.

Lemma tick_alloc_user t a a' ev : tick_alloc t a = (Some a', ev) -> a_user a' = a_user a /\ Forall noalloc ev.
Proof.
  unfold tick_alloc. destruct (a_dl a <=? t); intros H; inversion H; subst. split; [reflexivity|].
  apply Forall_app. split; apply Forall_forall; intros y Hy; apply in_map_iff in Hy as (z & <- & _); exact I.
Qed.

Lemma osem_tick t l : NoDup (map a_client l) -> forall l' evs, tick_allocs t l = (l', evs) -> forall f x,
  (forall y, In y (map a_client l) -> f y = option_map a_user (find_alloc y l)) ->
  osem evs f x = if existsb (addr_eqb x) (map a_client l) then option_map a_user (find_alloc x l') else f x.
Proof.
  induction l as [|a l IH]; cbn [tick_allocs]; intros Hnd l' evs H f x Hf; [inversion H; reflexivity|].
  inversion Hnd as [|? ? Hx Hl]; subst.
  destruct (tick_alloc t a) as [oa e1] eqn:H1. destruct (tick_allocs t l) as [r e2] eqn:H2.
  inversion H; subst; clear H. rewrite osem_app. cbn [map existsb].
  assert (Hr : forall y, In y (map a_client r) -> In y (map a_client l)).
  { clear -H2. revert r e2 H2. induction l as [|b l IHl]; cbn [tick_allocs]; intros r e2 H2 y Hy; [inversion H2; subst; exact Hy|].
    destruct (tick_alloc t b) as [ob f1] eqn:G1. destruct (tick_allocs t l) as [r1 f2] eqn:G2. inversion H2; subst.
    destruct ob as [b'|]; [|right; eapply IHl; eauto]. cbn in Hy. destruct Hy as [<-|Hy]; [left; symmetry; eapply tick_alloc_client; eauto|right; eapply IHl; eauto]. }
  specialize (IH Hl _ _ eq_refl).
  destruct oa as [a'|].
  - destruct (tick_alloc_user _ _ _ _ H1) as [Hu Hn]. pose proof (tick_alloc_client _ _ _ _ H1) as Hc.
    rewrite (IH (osem e1 f) x).
    + cbn [find_alloc]. rewrite Hc. rewrite (addr_eqb_sym x). destruct (addr_eqb (a_client a) x) eqn:E.
      * apply addr_eqb_eq in E. subst x. cbn [orb option_map].
        assert (N1 : existsb (addr_eqb (a_client a)) (map a_client l) = false).
        { apply Bool.not_true_is_false. intros Ht. apply existsb_exists in Ht as (y & Hy & Ey). apply addr_eqb_eq in Ey. subst. contradiction. }
        rewrite N1, (osem_noalloc _ Hn), (Hf _ (or_introl eq_refl)). cbn [find_alloc]. rewrite addr_eqb_refl, Hu. reflexivity.
      * cbn [orb]. destruct (existsb (addr_eqb x) (map a_client l)); [reflexivity|]. apply osem_noalloc. exact Hn.
    + intros y Hy. rewrite (osem_noalloc _ Hn), (Hf y (or_intror Hy)). cbn [find_alloc].
      destruct (addr_eqb (a_client a) y) eqn:E; [apply addr_eqb_eq in E; subst; contradiction|reflexivity].
  - unfold tick_alloc in H1. destruct (a_dl a <=? t); inversion H1; subst; clear H1.
    rewrite (IH (osem (close_events a) f) x).
    + rewrite (addr_eqb_sym x). destruct (addr_eqb (a_client a) x) eqn:E.
      * apply addr_eqb_eq in E. subst x. cbn [orb].
        assert (N1 : existsb (addr_eqb (a_client a)) (map a_client l) = false).
        { apply Bool.not_true_is_false. intros Ht. apply existsb_exists in Ht as (y & Hy & Ey). apply addr_eqb_eq in Ey. subst. contradiction. }
        rewrite N1, osem_close, addr_eqb_refl.
        assert (N2 : find_alloc (a_client a) r = None) by (apply find_alloc_none; intros Hin; apply Hx; apply Hr; exact Hin).
        rewrite N2. reflexivity.
      * cbn [orb]. destruct (existsb (addr_eqb x) (map a_client l)); [reflexivity|]. rewrite osem_close, (addr_eqb_sym x), E. reflexivity.
    + intros y Hy. rewrite osem_close. destruct (addr_eqb y (a_client a)) eqn:E; [apply addr_eqb_eq in E; subst; contradiction|].
      rewrite (Hf y (or_intror Hy)). cbn [find_alloc]. rewrite (addr_eqb_sym (a_client a)), E. reflexivity.
Qed.

Lemma osem_close_all l : forall f x,
  osem (flat_map close_events l) f x = if existsb (addr_eqb x) (map a_client l) then None else f x.
Proof.
  induction l as [|a l IH]; intros f x; cbn [flat_map map existsb]; [reflexivity|].
  rewrite osem_app, IH, osem_close. destruct (addr_eqb x (a_client a)); cbn [orb]; [|reflexivity].
  destruct (existsb (addr_eqb x) (map a_client l)); reflexivity.
Qed.

Lemma umap_step cfg s e s' acts x : inv cfg s -> step cfg s e = (s', acts) -> osem acts (umap s) x = umap s' x.
Proof.
  intros Hinv Hs. pose proof Hinv as [Hnd _].
  assert (Same : forall l, s' = s -> Forall noalloc l -> osem l (umap s) x = umap s' x) by (intros l -> Hl; apply osem_noalloc; exact Hl).
  assert (Repl : forall a a' l, In a (allocs s) -> a_client a' = a_client a -> a_user a' = a_user a -> Forall noalloc l ->
             osem l (umap s) x = umap (set_allocs s (replace_alloc a' (allocs s))) x).
  { intros a a' l Ha Hc Hu Hl. rewrite (osem_noalloc _ Hl). unfold umap. cbn [allocs set_allocs].
    rewrite (find_alloc_replace a a' _ _ Ha Hnd Hc). destruct (addr_eqb (a_client a) x) eqn:E; [|reflexivity].
    apply addr_eqb_eq in E. rewrite <- E, (find_alloc_in_nodup _ _ Hnd Ha). cbn. congruence. }
  assert (Rem : forall a l1, In a (allocs s) -> Forall noalloc l1 ->
             osem (close_events a ++ l1) (umap s) x = umap (set_allocs s (remove_alloc (a_client a) (allocs s))) x).
  { intros a l1 Ha Hl. rewrite osem_app, (osem_noalloc _ Hl), osem_close. unfold umap. cbn [allocs set_allocs].
    rewrite (find_alloc_remove _ _ x Hnd), (addr_eqb_sym x). destruct (addr_eqb (a_client a) x); reflexivity. }
  destruct e as [src tid c r unk|src p d|src n d|relay from d|dt|relay|csrc| |]; cbn [step] in Hs.
  - destruct unk; [inversion Hs; subst; apply Same; [reflexivity|repeat constructor]|].
    destruct r as [tr lt fam df rp ep rt mt|lt fam|peers|n p|]; try (inversion Hs; subst; apply Same; [reflexivity|repeat constructor]; fail);
      destruct (authenticate cfg s c) as [uid|code ch]; try (inversion Hs; subst; apply Same; [reflexivity|repeat constructor]; fail).
    + unfold h_allocate in Hs. repeat (dmatch Hs; try (inversion Hs; subst; apply Same; [reflexivity|repeat constructor]; fail)).
      all: inversion Hs; subst; clear Hs; cbn [osem fold_left ostep1]; unfold umap; cbn [allocs set_allocs add_rsv]; rewrite find_alloc_app.
      all: match goal with Hn : find_alloc ?src0 ?l0 = None |- _ =>
             cbn [a_client a_user]; rewrite (addr_eqb_sym x src0); destruct (addr_eqb src0 x) eqn:E;
             [apply addr_eqb_eq in E; subst x; rewrite Hn; reflexivity|destruct (find_alloc x l0); reflexivity] end.
    + unfold h_refresh in Hs. cbv zeta in Hs.
      destruct (owned_alloc s src uid) as [a|] eqn:Ho; [|inversion Hs; subst; apply Same; [reflexivity|constructor]].
      apply owned_alloc_some in Ho as (Ha & Hcl & _).
      repeat (dmatch Hs; try (inversion Hs; subst; apply Same; [reflexivity|repeat constructor]; fail)).
      all: inversion Hs; subst; clear Hs.
      all: first [apply Rem; [exact Ha|repeat constructor] | eapply Repl; [exact Ha|reflexivity|reflexivity|repeat constructor]].
    + unfold h_create_perm in Hs.
      destruct (owned_alloc s src uid) as [a|] eqn:Ho; [|inversion Hs; subst; apply Same; [reflexivity|constructor]].
      apply owned_alloc_some in Ho as (Ha & Hcl & _).
      destruct (perm_check cfg a peers); [inversion Hs; subst; apply Same; [reflexivity|repeat constructor]|].
      destruct peers as [|q peers]; [inversion Hs; subst; apply Same; [reflexivity|repeat constructor]|].
      destruct (install_perms a _ (q :: peers)) as [a' evs] eqn:Hi. inversion Hs; subst; clear Hs.
      destruct (install_perms_id _ _ _ _ _ Hi) as (Ec & _ & _ & _ & Eu & _).
      eapply Repl; [exact Ha|exact Ec|exact Eu|]. apply Forall_app. split; [eapply install_perms_noalloc; eauto|repeat constructor].
    + unfold h_channel_bind in Hs.
      destruct (owned_alloc s src uid) as [a|] eqn:Ho; [|inversion Hs; subst; apply Same; [reflexivity|constructor]].
      apply owned_alloc_some in Ho as (Ha & Hcl & _).
      repeat (dmatch Hs; try (inversion Hs; subst; apply Same; [reflexivity|repeat constructor]; fail)).
      all: inversion Hs; subst; clear Hs.
      all: match goal with E : add_perm _ _ _ = (?a2, ?e2) |- _ =>
             pose proof (add_perm_noalloc _ _ _ _ _ E) as Hna; destruct (add_perm_id _ _ _ _ _ E) as (Ec & _ & _ & _ & Eu & _) end.
      all: cbn [a_client a_user set_chans] in Ec, Eu.
      all: eapply Repl; [exact Ha|exact Ec|exact Eu|]; apply Forall_app; split; [exact Hna|repeat constructor].
  - apply h_send_spec in Hs as [-> [->|(a & q & dd & pm & -> & _)]]; apply Same; try reflexivity; repeat constructor.
  - apply h_chandata_spec in Hs as [-> [->|(a & c0 & -> & _)]]; apply Same; try reflexivity; repeat constructor.
  - apply h_peer_spec in Hs as [-> [->|(a & _ & _ & _ & [(c0 & _ & ->)|(_ & pm & _ & ->)])]]; apply Same; try reflexivity; repeat constructor.
  - unfold h_tick in Hs. destruct (tick_allocs (now s + Z.max 0 dt) (allocs s)) as [l evs] eqn:Ht. inversion Hs; subst; clear Hs.
    rewrite (osem_tick _ _ Hnd _ _ Ht (umap s) x); [|intros y _; reflexivity]. unfold umap. cbn [allocs].
    destruct (existsb (addr_eqb x) (map a_client (allocs s))) eqn:E; [reflexivity|].
    assert (N1 : find_alloc x (allocs s) = None).
    { apply find_alloc_none. intros Hin. apply Bool.not_true_iff_false in E. apply E. apply existsb_exists. exists x. split; [exact Hin|apply addr_eqb_refl]. }
    rewrite (find_alloc_tick _ _ x Hnd _ _ Ht), N1. reflexivity.
  - unfold h_relay_err in Hs. destruct (find_relay relay (allocs s)) as [a|] eqn:Hf; inversion Hs; subst; clear Hs; [|apply Same; [reflexivity|constructor]].
    rewrite <- (app_nil_r (close_events a)). apply Rem; [apply (find_relay_some _ _ _ Hf)|constructor].
  - unfold h_ctl_close in Hs. destruct (find_alloc csrc (allocs s)) as [a|] eqn:Hf; inversion Hs; subst; clear Hs; [|apply Same; [reflexivity|constructor]].
    rewrite <- (app_nil_r (close_events a)). apply Rem; [apply (find_alloc_some _ _ _ Hf)|constructor].
  - inversion Hs; subst; clear Hs. rewrite osem_close_all. unfold umap. cbn [allocs set_allocs find_alloc option_map].
    destruct (existsb (addr_eqb x) (map a_client (allocs s))) eqn:E; [reflexivity|].
    assert (N1 : find_alloc x (allocs s) = None).
    { apply find_alloc_none. intros Hin. apply Bool.not_true_iff_false in E. apply E. apply existsb_exists. exists x. split; [exact Hin|apply addr_eqb_refl]. }
    rewrite N1. reflexivity.
  - inversion Hs; subst. apply Same; [reflexivity|constructor].
Qed.

Lemma chk_C03_model cfg h : forall s ow, inv cfg s -> own_inv ow s ->
  chk_C03_from cfg (epoch_min s) (now s) ow (listing_of s) (model_trace cfg s h) = true.
Proof.
  induction h as [|e r IH]; intros s ow Hinv Ho; cbn [model_trace chk_C03_from]; [reflexivity|].
  destruct (step cfg s e) as [s' acts] eqn:Hs. cbn [chk_C03_from os_ev os_acts os_allocs].
  rewrite <- (now_step _ _ _ _ _ Hs).
  apply andb_true_iff. split.
  2:{ rewrite <- (epoch_step _ _ _ _ _ Hs). apply IH; [eapply inv_step; eauto|]. intros c. rewrite (owners_update_sem acts ow (umap s) Ho). eapply umap_step; eauto. }
  destruct e as [src tid c rq unk|? ? ?|? ? ?|? ? ?|?|?|?| |]; try reflexivity.
  destruct unk; [reflexivity|]. destruct rq as [tr lt fam df rp ep rt mt|lt fam|peers|n p|] eqn:Erq; try reflexivity.
  all: assert (Hn : now s' = now s) by (rewrite (now_step _ _ _ _ _ Hs); cbn [ev_dt]; lia).
  all: rewrite (authenticate_indep cfg s {| now := now s'; epoch_min := epoch_min s; allocs := []; rsvs := [] |} c Hn eq_refl).
  all: destruct (authenticate cfg s c) as [uid|code ch] eqn:Ha.
  (* Allocate with valid credentials *)
  1: reflexivity.
  (* not authenticated (all four request kinds): one error with exactly the code and challenge flag, nothing changed *)
  all: try match goal with |- context [Bool.eqb] =>
         cbn [step] in Hs; rewrite Ha in Hs; inversion Hs; subst s' acts; clear Hs;
         rewrite mset_eqb_refl; cbn [lifes filter RelayCheck.is_life req_method];
         rewrite addr_eqb_refl, !N.eqb_refl; rewrite (authenticate_challenge _ _ _ _ _ Ha);
         destruct ((code =? 401)%N || (code =? 438)%N); reflexivity end.
  (* authenticated, not Allocate: the owner acts, anybody else is ignored *)
  all: rewrite (Ho src); unfold umap; destruct (find_alloc src (allocs s)) as [a|] eqn:Hf; cbn [option_map].
  all: try (destruct (N.eqb_spec (a_user a) uid) as [Eu|Eu]; [reflexivity|]).
  all: match goal with Hs0 : step ?cfg0 ?s0 (EReq ?src0 ?tid0 ?c0 ?rq0 false) = (?s1, ?acts1), Ha0 : authenticate _ _ _ = AuthOK ?uid0 |- _ =>
         edestruct (not_owner_is_noop cfg0 s0 src0 tid0 c0 rq0 uid0 s1 acts1 Ha0) as [-> ->];
         [intros a0 Hf0; first [congruence | (rewrite Hf in Hf0; inversion Hf0; subst; exact Eu)] | exact I | exact Hs0 |] end.
  all: rewrite mset_eqb_refl; reflexivity.
Qed.

(* for every configuration and every history, with ownership and time taken from the lifecycle callbacks and ticks only:
   a request (other than Binding) that does not authenticate changes nothing and gets exactly one error - 401 or 438 as a
   challenge, 400 otherwise; a request with valid credentials of a user who does not own the 5-tuple's allocation (or on a
   5-tuple without one) changes nothing, and the non-owner gets no answer at all *)
Theorem chk_C03_on_model cfg ep h : chk_C03 (model_case cfg ep h) = true.
Proof.
  unfold chk_C03, model_case. cbn [rc_cfg rc_epoch rc_steps].
  change ep with (epoch_min (init ep)) at 1. change 0 with (now (init ep)). change (@nil obs_alloc) with (listing_of (init ep)).
  apply chk_C03_model; [apply inv_init|]. intros c. reflexivity.
Qed.

(* ---------- C01 / C02 in full: the gate, and "present" means "unexpired by the lifetimes the server reported" ---------- *)
Theorem chk_C01_full_model cfg ep h : cfg_relay_wf cfg -> cfg_seconds cfg -> cfg_positive cfg -> chk_C01 (model_case cfg ep h) = true.
Proof.
  intros Hw Hs Hp. unfold chk_C01. rewrite (chk_C01_gate_model cfg ep h Hw), (chk_C06_on_model cfg Hs Hp ep h), (chk_C07_on_model cfg Hp Hs ep h). reflexivity.
Qed.

Lemma no_chandata_of_todata acts : todata acts = [] ->
  forallb (fun a => match a with ChanDataOut _ _ _ => false | _ => true end) acts = true.
Proof.
  unfold todata. induction acts as [|a l IH]; [reflexivity|]. cbn [filter forallb].
  destruct a; cbn; try discriminate; exact IH.
Qed.
Lemma chk_C08_emit_step_model cfg s e s' acts : inv cfg s -> step cfg s e = (s', acts) ->
  chk_C08_emit_step (listing_of s) {| os_ev := e; os_acts := acts; os_allocs := listing_of s' |} = true.
Proof.
  intros _ Hs. unfold chk_C08_emit_step. cbn [os_ev os_acts].
  destruct e as [src tid c rq unk|src p dat|src n dat|relay from dat|dt|relay|csrc| |];
    try (apply no_chandata_of_todata; apply (todata_nil_of _ _ _ _ _ Hs I)).
  cbn [step] in Hs. apply h_peer_spec in Hs as [_ [->|(a & Hf & _ & _ & [(c & Hc & ->)|(_ & pm & Hp & ->)])]]; [reflexivity| |reflexivity].
  cbn [forallb]. rewrite listing_of_map, find_orelay_listing, Hf. cbn [option_map].
  unfold has_chan, obs_of. cbn [oa_chans]. rewrite (find_chan_peer_has _ _ _ Hc). reflexivity.
Qed.
Theorem chk_C08_emit_model cfg ep h : chk_C08_emit (model_case cfg ep h) = true.
Proof.
  unfold chk_C08_emit, model_case. cbn [rc_steps].
  apply (all_steps_model cfg chk_C08_emit_step (chk_C08_emit_step_model cfg) h (init ep)). apply inv_init.
Qed.

Theorem chk_C08_full_model cfg ep h : cfg_seconds cfg -> cfg_positive cfg -> chk_C08 (model_case cfg ep h) = true.
Proof.
  intros Hs Hp. unfold chk_C08. rewrite (chk_C08_bij_model cfg ep h), (chk_C07_on_model cfg Hp Hs ep h), (chk_C08_emit_model cfg ep h). reflexivity.
Qed.

Theorem chk_C02_full_model cfg ep h : cfg_seconds cfg -> cfg_positive cfg -> chk_C02 (model_case cfg ep h) = true.
Proof.
  intros Hs Hp. unfold chk_C02. rewrite (chk_C02_gate_model cfg ep h), (chk_C06_on_model cfg Hs Hp ep h), (chk_C07_on_model cfg Hp Hs ep h). reflexivity.
Qed.
