(* C18, lock-ups in the teardown model: in every reachable state of Model/Teardown.v (any step orders accepted by
   orders_ok, any interleaving) in which some call has not returned, some such call can take a step - nobody waits for
   channelBindingsLock while its holder is itself waiting. *)
From Turn Require Import Bytes Teardown TeardownP C18Check.
From Coq Require Import Lia.
Open Scope N_scope.

Lemma lkb_01 t : lkb t = 0%nat \/ lkb t = 1%nat.
Proof. destruct t; cbn; auto. destruct (lk l); auto. Qed.
Lemma nlk_pos th : (0 < nlk th)%nat -> exists i t, nth_error th i = Some t /\ lkb t = 1%nat.
Proof.
  induction th as [|t r IH]; cbn; [lia|]. intros H. destruct (lkb_01 t) as [E|E].
  - rewrite E in H. destruct (IH H) as (i & t' & Hi & Ht). exists (S i), t'. auto.
  - exists 0%nat, t. auto.
Qed.

Lemma upd_length_live {A} i (x : A) l : length (upd i x l) = length l.
Proof. revert i. induction l as [|y r IH]; intros [|i]; cbn; auto. Qed.

Section L.
  Variable ordp ordc : list step.
  Hypothesis Hord : orders_ok ordp ordc = true.

  Theorem no_lockup w : Inv ordp w -> (exists i t, nth_error (snd w) i = Some t /\ t <> TDone) ->
    exists i t, nth_error (snd w) i = Some t /\ t <> TDone /\ blockedb (fst w) t = false.
  Proof.
    destruct w as [s th]. intros (Hc & I1 & I2 & Ht & Hn) (i & t & Hi & Hd). cbn [fst snd] in *.
    destruct (chlock s) eqn:E.
    - cbn in Hn. destruct (nlk_pos th) as (j & tj & Hj & Hl); [lia|]. exists j, tj. split; [exact Hj|].
      rewrite Forall_forall in Ht. pose proof (Ht tj (nth_error_In _ _ Hj)) as Hti.
      destruct tj as [| | |a p c pp cp l| | | | |]; cbn in Hl; try discriminate.
      destruct (lk l) eqn:El; [|discriminate]. split; [discriminate|]. cbn [blockedb].
      destruct (next p c) as [[[x p'] c']|] eqn:En; [|reflexivity]. destruct Hti as (Hrun & _).
      destruct x; try reflexivity. exfalso.
      destruct (next_inv ordp _ _ _ _ _ _ Hrun En) as (_ & [(_ & Hs & _)|(Hx & _)]); [|discriminate].
      cbn in Hs. rewrite El in Hs. discriminate.
    - exists i, t. split; [exact Hi|]. split; [exact Hd|].
      destruct t as [| | |a p c pp cp l| | |todo stop| |todo stop]; cbn [blockedb]; rewrite ?E; try reflexivity.
      + destruct (next p c) as [[[x p'] c']|]; [|reflexivity]. destruct x; reflexivity.
      + destruct todo; [reflexivity|]. destruct stop; reflexivity.
  Qed.

  (* from the start, under every schedule *)
  Corollary no_lockup_reachable th sched : forallb initial th = true ->
    let w := wrun ordp ordc sched (init, th) in
    (exists i t, nth_error (snd w) i = Some t /\ t <> TDone) ->
    exists i t, nth_error (snd w) i = Some t /\ t <> TDone /\ blockedb (fst w) t = false.
  Proof. intros H. apply no_lockup. apply (wrun_inv ordp ordc Hord). apply init_inv. exact H. Qed.
End L.


(* ---------- and every call returns: a measure that every step of an unblocked, unfinished thread decreases ---------- *)
Definition adderish (t : thread) : bool :=
  match t with TDone | TAddPerm _ | TAddChan _ | TRun _ _ _ _ _ _ => true | _ => false end.
Definition is_done (t : thread) : bool := match t with TDone => true | _ => false end.

Section T.
  Variable ordp ordc : list step.
  Hypothesis Hord : orders_ok ordp ordc = true.

  Fixpoint cm (cp : list step) : nat :=
    match cp with [] => 0%nat | x :: r => (1 + (match x with CAddPerm => length ordp | _ => 0 end) + cm r)%nat end.
  (* steps an adder still has to take *)
  Definition am (t : thread) : nat :=
    match t with
    | TAddPerm _ => (2 + length ordp)%nat
    | TAddChan _ => (3 + length ordp + cm ordc)%nat
    | TRun _ pp cp _ _ _ => (1 + length pp + cm cp)%nat
    | _ => 0%nat
    end.
  (* steps a closer still has to take, given the sizes of the two tables *)
  Definition cmeasL (lp lc : nat) (t : thread) : nat :=
    match t with
    | TClose0 => (5 + 2 * lp + 2 * lc)%nat
    | TClosePS => (4 + 2 * lp + 2 * lc)%nat
    | TCloseP todo stop => (2 * length todo + (match stop with Some _ => 1 | None => 0 end) + 3 + 2 * lc)%nat
    | TCloseCS => (2 + 2 * lc)%nat
    | TCloseC todo stop => (2 * length todo + (match stop with Some _ => 1 | None => 0 end) + 1)%nat
    | _ => 0%nat
    end.
  Definition cmeas (s : state) (t : thread) : nat := cmeasL (length (pmap s)) (length (cmap s)) t.

  Fixpoint sumf (g : thread -> nat) (th : list thread) : nat := match th with [] => 0%nat | t :: r => (g t + sumf g r)%nat end.
  Definition M (w : world) : nat :=
    sumf (fun t => ((2 * length (snd w) + 1) * am t + cmeas (fst w) t)%nat) (snd w).

  Lemma sumf_upd g g' c th : (forall x, (g' x <= g x + c)%nat) -> forall i t t', nth_error th i = Some t ->
    (sumf g' (upd i t' th) + g t <= sumf g th + g' t' + c * length th)%nat.
  Proof.
    intros Hg. induction th as [|y r IH]; intros [|i] t t' H; cbn in *; try discriminate.
    - inversion H; subst. clear IH. assert (sumf g' r <= sumf g r + c * length r)%nat.
      { clear -Hg. induction r as [|z r IH]; cbn; [lia|]. specialize (Hg z). lia. }
      lia.
    - specialize (IH _ _ t' H). specialize (Hg y). lia.
  Qed.

  Lemma cmeasL_mono lp lc lp' lc' x : (lp' <= lp + 1)%nat -> (lc' <= lc + 1)%nat -> (lp' + lc' <= lp + lc + 1)%nat ->
    (cmeasL lp' lc' x <= cmeasL lp lc x + 2)%nat.
  Proof. intros. destruct x; cbn; lia. Qed.
  Lemma cmeasL_shrink lp lc lp' lc' x : (lp' <= lp)%nat -> (lc' <= lc)%nat -> (cmeasL lp' lc' x <= cmeasL lp lc x)%nat.
  Proof. intros. destruct x; cbn; lia. Qed.
  Lemma cmeasL_adder lp lc t : adderish t = true -> cmeasL lp lc t = 0%nat.
  Proof. destruct t; cbn; auto; discriminate. Qed.

  Lemma del_length a m : (length (del a m) <= length m)%nat.
  Proof. unfold del. induction m as [|x r IH]; cbn; [lia|]. destruct (negb (fst x =? a)); cbn; lia. Qed.
  Lemma remove_perm_len a s : (length (pmap (remove_perm a s)) <= length (pmap s))%nat /\ cmap (remove_perm a s) = cmap s.
  Proof. unfold remove_perm. destruct (lookup a (pmap s)); cbn; split; auto. apply del_length. Qed.
  Lemma remove_chan_len a s : (length (cmap (remove_chan a s)) <= length (cmap s))%nat /\ pmap (remove_chan a s) = pmap s.
  Proof. unfold remove_chan. destruct (lookup a (cmap s)); cbn; split; auto. apply del_length. Qed.

  Lemma am_finish a p c pp cp l : (am (finish a p c pp cp l) <= 1 + length p + cm c)%nat.
  Proof. unfold finish. destruct p, c; cbn; lia. Qed.
  Lemma adderish_finish a p c pp cp l : adderish (finish a p c pp cp l) = true.
  Proof. unfold finish. destruct p, c; reflexivity. Qed.

  Lemma next_split pp cp x pp' cp' : next pp cp = Some (x, pp', cp') ->
    (pp = x :: pp' /\ cp' = cp) \/ (pp = [] /\ cp = x :: cp' /\ pp' = []).
  Proof.
    unfold next. destruct pp as [|y r]; [destruct cp as [|y r]; [discriminate|]|]; intros H; inversion H; subst; auto.
  Qed.

  Ltac fin := repeat match goal with |- context [am (finish ?a ?p ?c ?x ?y ?l)] =>
                       lazymatch goal with
                       | H : (am (finish a p c x y l) <= _)%nat |- _ => fail
                       | _ => pose proof (am_finish a p c x y l)
                       end end.

  (* one step of an adder *)
  Lemma adder_step s t s' t' : adderish t = true -> t <> TDone -> tinv ordp s t -> blockedb s t = false ->
    tstep ordp ordc s t = (s', t') ->
    (am t' + 1 <= am t)%nat /\ adderish t' = true /\
    (length (pmap s') <= length (pmap s) + 1)%nat /\ (length (cmap s') <= length (cmap s) + 1)%nat /\
    (length (pmap s') + length (cmap s') <= length (pmap s) + length (cmap s) + 1)%nat.
  Proof.
    intros Ha Hd Hi Hb Ht. destruct t as [|a|a|a pp cp pid cid l| | | | | ]; try discriminate; [contradiction| | |]; unfold tstep in Ht.
    - destruct (lookup a (pmap s)) as [p|].
      + injection Ht as <- <-. destruct (has_id p (parmed s)); cbn; repeat split; lia.
      + injection Ht as <- <-. rewrite adderish_finish. fin. cbn in *. repeat split; lia.
    - cbn in Hb. rewrite Hb in Ht. destruct (lookup a (cmap s)) as [c|].
      + destruct (has_id c (carmed s)); injection Ht as <- <-; cbn; repeat split; lia.
      + injection Ht as <- <-.
        change (match ordc with [] => TDone | _ :: _ => TRun a [] ordc 0 (nextid s) ls0 end) with (finish a [] ordc 0 (nextid s) ls0).
        rewrite adderish_finish. fin. cbn in *. repeat split; lia.
    - destruct Hi as (Hrun & _). unfold run_step in Ht. destruct (next pp cp) as [[[x pp'] cp']|] eqn:En.
      2:{ injection Ht as <- <-. cbn. repeat split; lia. }
      assert (Hm : (1 + length pp' + cm cp' + 1 <= am (TRun a pp cp pid cid l))%nat /\
                   (x = CAddPerm -> (1 + length ordp + cm cp' + 1 <= am (TRun a pp cp pid cid l))%nat)).
      { destruct (next_split _ _ _ _ _ En) as [[-> ->]|(-> & -> & ->)].
        - split; [cbn; lia|]. intros ->. exfalso. unfold inv_run in Hrun. cbn [scanp] in Hrun.
          apply andb_true_iff in Hrun as [_ Hf]. discriminate.
        - split; [destruct x; cbn; lia|]. intros ->. cbn. lia. }
      destruct Hm as [Hm1 Hm2].
      assert (Hb' : x = CLock -> chlock s = false).
      { intros ->. cbn [blockedb] in Hb. rewrite En in Hb. exact Hb. }
      unfold do_step in Ht.
      destruct x; try (injection Ht as <- <-; rewrite adderish_finish; fin; cbn [pmap cmap set_pmap set_cmap set_parmed set_carmed add_ev length] in *;
                       repeat split; try lia; pose proof (del_length a (pmap s)); lia).
      + rewrite (Hb' eq_refl) in Ht. injection Ht as <- <-. rewrite adderish_finish. fin. cbn in *. repeat split; lia.
      + destruct (lk l); injection Ht as <- <-; [rewrite adderish_finish; fin|]; cbn in *; repeat split; lia.
      + specialize (Hm2 eq_refl). destruct (lookup a (pmap s)) as [p|].
        * destruct (has_id p (parmed s)); injection Ht as <- <-; [rewrite adderish_finish; fin|]; cbn in *; repeat split; lia.
        * injection Ht as <- <-. rewrite adderish_finish. fin. cbn in *. repeat split; lia.
  Qed.

  (* one step of a closer *)
  Lemma closer_step s t s' t' : adderish t = false -> blockedb s t = false -> tstep ordp ordc s t = (s', t') ->
    (length (pmap s') <= length (pmap s))%nat /\ (length (cmap s') <= length (cmap s))%nat /\
    am t' = 0%nat /\ (cmeas s' t' + 1 <= cmeas s t)%nat.
  Proof.
    intros Ha Hb Ht. unfold cmeas.
    destruct t as [| | | | | |todo stop| |todo stop]; try discriminate.
    - cbn [tstep] in Ht. destruct (closed s); injection Ht as <- <-; cbn; repeat split; lia.
    - cbn [tstep] in Ht. injection Ht as <- <-. cbn. repeat split; lia.
    - destruct stop as [p|]; destruct todo as [|[a p'] r]; cbn [tstep] in Ht; injection Ht as <- <-.
      + unfold touch_timer. destruct (has_id p (parmed s)); cbn; repeat split; lia.
      + unfold touch_timer. destruct (has_id p (parmed s)); cbn; repeat split; lia.
      + cbn. repeat split; lia.
      + destruct (remove_perm_len a s) as [L1 L2]. rewrite L2. cbn. repeat split; lia.
    - cbn [tstep] in Ht. cbn in Hb. rewrite Hb in Ht. injection Ht as <- <-. cbn. repeat split; lia.
    - destruct stop as [c|]; destruct todo as [|[a c'] r]; cbn [tstep] in Ht.
      + injection Ht as <- <-. unfold touch_timer. destruct (has_id c (carmed s)); cbn; repeat split; lia.
      + injection Ht as <- <-. unfold touch_timer. destruct (has_id c (carmed s)); cbn; repeat split; lia.
      + injection Ht as <- <-. cbn. repeat split; lia.
      + cbn in Hb. rewrite Hb in Ht. injection Ht as <- <-. destruct (remove_chan_len a s) as [L1 L2]. rewrite L2. cbn. repeat split; lia.
  Qed.

  Theorem step_decreases w i t : Inv ordp w -> nth_error (snd w) i = Some t -> t <> TDone -> blockedb (fst w) t = false ->
    (M (wstep ordp ordc w (Run i)) < M w)%nat.
  Proof.
    destruct w as [s th]. intros (Hc & _ & _ & Hti & _) Hi Hd Hb. cbn [fst snd] in *.
    unfold wstep. rewrite Hc, Hi. destruct (tstep ordp ordc s t) as [s' t'] eqn:Est.
    unfold M. cbn [fst snd]. rewrite upd_length_live.
    set (K := (2 * length th + 1)%nat).
    rewrite Forall_forall in Hti. pose proof (Hti t (nth_error_In _ _ Hi)) as Hinv.
    destruct (adderish t) eqn:Ea.
    - destruct (adder_step s t s' t' Ea Hd Hinv Hb Est) as (A1 & A2 & A3 & A4 & A5).
      pose proof (sumf_upd (fun x => (K * am x + cmeas s x)%nat) (fun x => (K * am x + cmeas s' x)%nat) 2 th) as HS.
      specialize (HS ltac:(intros x; unfold cmeas; pose proof (cmeasL_mono _ _ _ _ x A3 A4 A5); lia) i t t' Hi).
      cbn beta in HS. unfold cmeas in HS. rewrite (cmeasL_adder _ _ t Ea), (cmeasL_adder _ _ t' A2) in HS.
      assert (K * am t' + K <= K * am t)%nat.
      { replace (K * am t' + K)%nat with (K * (am t' + 1))%nat by lia. apply Nat.mul_le_mono_l. exact A1. }
      unfold cmeas. subst K. lia.
    - destruct (closer_step s t s' t' Ea Hb Est) as (C1 & C2 & C3 & C4).
      pose proof (sumf_upd (fun x => (K * am x + cmeas s x)%nat) (fun x => (K * am x + cmeas s' x)%nat) 0 th) as HS.
      specialize (HS ltac:(intros x; unfold cmeas; pose proof (cmeasL_shrink _ _ _ _ x C1 C2); lia) i t t' Hi).
      cbn beta in HS. rewrite C3 in HS. assert (am t = 0%nat) by (destruct t; try discriminate; reflexivity).
      rewrite H in HS. lia.
  Qed.

  Lemma not_all_done th : forallb is_done th = false -> exists i t, nth_error th i = Some t /\ t <> TDone.
  Proof.
    induction th as [|t r IH]; cbn; [discriminate|]. destruct (is_done t) eqn:E.
    - cbn. intros H. destruct (IH H) as (i & t' & Hi & Ht). exists (S i), t'. auto.
    - intros _. exists 0%nat, t. split; [reflexivity|]. intros ->. discriminate.
  Qed.

  (* no reachable state is a trap: from it all calls can return, within M steps; and by step_decreases EVERY scheduler
     that keeps running threads which are neither finished nor blocked gets there within M steps *)
  Theorem all_calls_return : forall n w, Inv ordp w -> (M w <= n)%nat ->
    exists sched, (length sched <= n)%nat /\ forallb is_done (snd (wrun ordp ordc sched w)) = true.
  Proof.
    induction n as [|n IH]; intros w HI Hn.
    - destruct (forallb is_done (snd w)) eqn:E; [exists []; split; [cbn; lia|exact E]|]. exfalso.
      destruct (no_lockup ordp ordc Hord w HI (not_all_done _ E)) as (i & t & Hi & Hd & Hb).
      pose proof (step_decreases w i t HI Hi Hd Hb). lia.
    - destruct (forallb is_done (snd w)) eqn:E; [exists []; split; [cbn; lia|exact E]|].
      destruct (no_lockup ordp ordc Hord w HI (not_all_done _ E)) as (i & t & Hi & Hd & Hb).
      pose proof (step_decreases w i t HI Hi Hd Hb) as Hlt.
      destruct (IH (wstep ordp ordc w (Run i)) (wstep_inv ordp ordc Hord w (Run i) HI) ltac:(lia)) as (sched & Hl & Hdone).
      exists (Run i :: sched). split; [cbn; lia|exact Hdone].
  Qed.
End T.

