From Turn Require Import Bytes ClientTx.
From Coq Require Import ZifyN ZifyNat ZifyBool.
Open Scope Z_scope.

Definition is_result (a : action) : bool := match a with Result _ _ _ => true | _ => false end.
Definition count_results (l : list action) : nat := length (filter is_result l).
Definition wf_tr (x : tr) : Prop := (t_nrtx x < max_rtx_count)%nat /\ 0 < t_int x.

Lemma next_interval_pos i : 0 < i -> 0 < next_interval i <= max_rtx_interval.
Proof. unfold next_interval, max_rtx_interval. lia. Qed.

(* ---------- one transaction: what firing its timer up to instant t can do ---------- *)
Lemma advance_shape fuel wr t : forall x o a, wf_tr x -> advance fuel wr t x = (o, a) ->
  (forall id k at_, In (Sent id k at_) a -> id = t_id x /\ (t_nrtx x < k < max_rtx_count)%nat) /\
  (forall id r at_, In (Result id r at_) a -> id = t_id x /\ o = None /\ t_ignore x = false) /\
  (count_results a <= 1)%nat /\
  (match o with Some x' => t_id x' = t_id x /\ t_ignore x' = t_ignore x /\ count_results a = 0%nat /\ wf_tr x' | None => True end).
Proof.
  assert (Base : forall x, wf_tr x ->
     (forall id k at_, In (Sent id k at_) (@nil action) -> id = t_id x /\ (t_nrtx x < k < max_rtx_count)%nat) /\
     (forall id r at_, In (Result id r at_) (@nil action) -> id = t_id x /\ Some x = None /\ t_ignore x = false) /\
     (count_results [] <= 1)%nat /\
     (t_id x = t_id x /\ t_ignore x = t_ignore x /\ count_results [] = 0%nat /\ wf_tr x)).
  { intros x Hwf. split; [intros ? ? ? []|]. split; [intros ? ? ? []|]. split; [cbn; lia|]. repeat split; auto; apply Hwf. }
  assert (End : forall x r at_,
     (forall id k at0, In (Sent id k at0) (if t_ignore x then [] else [Result (t_id x) r at_]) -> id = t_id x /\ (t_nrtx x < k < max_rtx_count)%nat) /\
     (forall id r0 at0, In (Result id r0 at0) (if t_ignore x then [] else [Result (t_id x) r at_]) -> id = t_id x /\ @None tr = None /\ t_ignore x = false) /\
     (count_results (if t_ignore x then [] else [Result (t_id x) r at_]) <= 1)%nat /\ True).
  { intros x r at_. destruct (t_ignore x) eqn:Hig.
    - split; [intros ? ? ? []|]. split; [intros ? ? ? []|]. split; [cbn; lia|exact I].
    - split; [intros ? ? ? [E|[]]; discriminate|]. split; [intros ? ? ? [E|[]]; inversion E; auto|]. split; [cbn; lia|exact I]. }
  induction fuel as [|f IH]; intros x o a Hwf H; cbn [advance] in H.
  - inversion H; subst. apply Base; assumption.
  - destruct (t <? t_dl x); [inversion H; subst; apply Base; assumption|].
    destruct Hwf as [Hn Hi].
    destruct (Nat.eqb_spec (S (t_nrtx x)) max_rtx_count) as [E|E]; [inversion H; subst; apply End|].
    destruct (wr (t_id x) (S (t_nrtx x))); [|inversion H; subst; apply End].
    destruct (advance f wr t _) as [o' a'] eqn:Ha. inversion H; subst; clear H.
    apply IH in Ha as (I1 & I2 & I3 & I4); [|split; cbn; [lia|apply next_interval_pos; assumption]]. cbn in *.
    split; [|split; [|split]].
    + intros id k at_ [H0|H0]; [inversion H0; subst; split; [reflexivity|lia]|apply I1 in H0; split; [tauto|lia]].
    + intros id r at_ [H0|H0]; [discriminate|apply I2 in H0; tauto].
    + unfold count_results in *. cbn. exact I3.
    + destruct o as [x'|]; [|exact I]. destruct I4 as (J1 & J2 & J3 & J4). repeat split; auto; apply J4.
Qed.

(* there is no eighth transmission *)
Theorem no_eighth_transmission fuel wr t x o a id k at_ :
  wf_tr x -> advance fuel wr t x = (o, a) -> In (Sent id k at_) a -> (k < max_rtx_count)%nat.
Proof. intros Hwf H Hin. destruct (advance_shape _ _ _ _ _ _ Hwf H) as (I1 & _). apply I1 in Hin. lia. Qed.

(* bounded duration: 7 intervals of at most 1.6 s after its current deadline the transaction is over *)
Lemma advance_terminates fuel wr t : forall x, wf_tr x -> (max_rtx_count - t_nrtx x <= fuel)%nat ->
  t_dl x + Z.of_nat (max_rtx_count - t_nrtx x) * max_rtx_interval <= t ->
  fst (advance fuel wr t x) = None.
Proof.
  induction fuel as [|f IH]; intros x [Hn Hi] Hf Ht; [unfold max_rtx_count in *; lia|]. cbn [advance].
  destruct (Z.ltb_spec t (t_dl x)); [unfold max_rtx_interval, max_rtx_count in *; lia|].
  destruct (Nat.eqb_spec (S (t_nrtx x)) max_rtx_count); [reflexivity|].
  destruct (wr (t_id x) (S (t_nrtx x))); [|reflexivity].
  destruct (advance f wr t _) as [o a] eqn:Ha. cbn [fst].
  assert (E : fst (advance f wr t {| t_id := t_id x; t_nrtx := S (t_nrtx x); t_int := next_interval (t_int x);
               t_dl := t_dl x + next_interval (t_int x); t_ignore := t_ignore x |}) = None).
  { apply IH; cbn [t_nrtx t_dl t_int t_id t_ignore].
    - split; cbn [t_nrtx t_dl t_int t_id t_ignore]; [unfold max_rtx_count in *; lia|apply next_interval_pos; assumption].
    - unfold max_rtx_count in *. lia.
    - pose proof (next_interval_pos (t_int x) Hi). unfold max_rtx_count, max_rtx_interval in *. lia. }
  rewrite Ha in E. exact E.
Qed.

Theorem transaction_always_terminates wr t0 rto ign id t :
  0 < rto -> t0 + rto + 7 * max_rtx_interval <= t ->
  fst (advance (S max_rtx_count) wr t {| t_id := id; t_nrtx := 0; t_int := rto; t_dl := t0 + rto; t_ignore := ign |}) = None.
Proof.
  intros Hr Ht. apply advance_terminates; cbn [t_nrtx t_dl t_int t_id t_ignore].
  - split; cbn [t_nrtx t_dl t_int t_id t_ignore]; [unfold max_rtx_count; lia|assumption].
  - unfold max_rtx_count. lia.
  - unfold max_rtx_count, max_rtx_interval in *. lia.
Qed.

(* the schedule: with every write succeeding and no response, transmission k leaves exactly at
   t0 + sum of the first k intervals (rto, doubled each time, capped at 1.6 s), and failure is reported
   when the seventh interval has elapsed *)
Definition wr_ok : N -> nat -> bool := fun _ _ => true.

Lemma advance_S f wr t x : advance (S f) wr t x =
      if t <? t_dl x then (Some x, [])
      else
        let n := S (t_nrtx x) in
        let i := next_interval (t_int x) in
        if Nat.eqb n max_rtx_count then
          (None, if t_ignore x then [] else [Result (t_id x) RErrAllFailed (t_dl x)])
        else if wr (t_id x) n then
          let x' := {| t_id := t_id x; t_nrtx := n; t_int := i; t_dl := t_dl x + i; t_ignore := t_ignore x |} in
          let '(o, a) := advance f wr t x' in (o, Sent (t_id x) n (t_dl x) :: a)
        else
          (None, if t_ignore x then [] else [Result (t_id x) RErrWrite (t_dl x)]).
Proof. reflexivity. Qed.

Lemma advance_schedule : forall (n : nat) t0 rto id k x t,
  0 < rto -> (k + n = max_rtx_count)%nat -> (1 <= n)%nat ->
  x = {| t_id := id; t_nrtx := k; t_int := interval_k rto k; t_dl := send_time t0 rto (S k); t_ignore := false |} ->
  send_time t0 rto max_rtx_count <= t ->
  advance (S n) wr_ok t x =
    (None, map (fun j => Sent id j (send_time t0 rto j)) (seq (S k) (n - 1)) ++ [Result id RErrAllFailed (send_time t0 rto max_rtx_count)]).
Proof.
  assert (Hpos : forall rto j, 0 < rto -> 0 < interval_k rto j).
  { intros rto j Hr. induction j; cbn [interval_k]; [assumption|apply next_interval_pos; assumption]. }
  assert (Hmono : forall t0 rto a b, 0 < rto -> (a <= b)%nat -> send_time t0 rto a <= send_time t0 rto b).
  { intros t0 rto a b Hr Hab. induction Hab; [lia|]. cbn [send_time]. pose proof (Hpos rto m Hr). lia. }
  induction n as [|n IH]; intros t0 rto id k x t Hr Hk Hn -> Ht; [lia|].
  rewrite advance_S. cbn [t_dl t_nrtx t_int t_id t_ignore]. cbv zeta.
  assert (Hle : send_time t0 rto (S k) <= t).
  { eapply Z.le_trans; [|exact Ht]. apply Hmono; [assumption|lia]. }
  destruct (Z.ltb_spec t (send_time t0 rto (S k))); [lia|].
  destruct (Nat.eqb_spec (S k) max_rtx_count) as [E|E].
  - assert (n = 0%nat) by lia. subst n. cbn [Nat.sub seq map app]. rewrite E. reflexivity.
  - change (wr_ok id (S k)) with true.
    assert (Hn1 : (1 <= n)%nat) by (unfold max_rtx_count in *; lia).
    specialize (IH t0 rto id (S k) _ t Hr ltac:(lia) Hn1 eq_refl Ht).
    change (next_interval (interval_k rto k)) with (interval_k rto (S k)).
    change (send_time t0 rto (S k) + interval_k rto (S k)) with (send_time t0 rto (S (S k))).
    rewrite IH. f_equal. replace (S n - 1)%nat with (S (n - 1)) by lia.
    cbn [seq map app]. reflexivity.
Qed.

Theorem retransmission_schedule t0 rto id t :
  0 < rto -> send_time t0 rto max_rtx_count <= t ->
  advance (S max_rtx_count) wr_ok t {| t_id := id; t_nrtx := 0; t_int := rto; t_dl := t0 + rto; t_ignore := false |} =
    (None, map (fun j => Sent id j (send_time t0 rto j)) [1;2;3;4;5;6]%nat ++ [Result id RErrAllFailed (send_time t0 rto 7)]).
Proof. intros Hr Ht. apply (advance_schedule 7 t0 rto id 0); [assumption|reflexivity|lia|reflexivity|exact Ht]. Qed.

(* for the property's RTO range the intervals are rto*2^k capped at 1.6 s; e.g. 200 ms gives 7.8 s in total *)
Example schedule_200ms : map (interval_k 200000000) [0;1;2;3;4;5;6]%nat =
  [200000000; 400000000; 800000000; 1600000000; 1600000000; 1600000000; 1600000000] /\ send_time 0 200000000 7 = 7800000000.
Proof. split; reflexivity. Qed.

(* ---------- the table ---------- *)
Lemma find_del id l : find_tr id (del_tr id l) = None.
Proof. induction l as [|x l IH]; cbn; [reflexivity|]. destruct (N.eqb_spec (t_id x) id); cbn; [assumption|].
  destruct (N.eqb_spec (t_id x) id); [contradiction|assumption]. Qed.

Lemma find_del_other id id' l : id' <> id -> find_tr id' (del_tr id l) = find_tr id' l.
Proof. intros Hn. induction l as [|x l IH]; cbn; [reflexivity|]. destruct (N.eqb_spec (t_id x) id); cbn.
  - destruct (N.eqb_spec (t_id x) id'); [congruence|assumption].
  - destruct (N.eqb_spec (t_id x) id'); [reflexivity|assumption]. Qed.

(* a response completes the transaction with that id - once: afterwards it is not in the table, so
   duplicates and late arrivals find nothing and change nothing; other ids are untouched *)
Theorem response_matches_by_id rto wr s id :
  let '(s', a) := step rto wr s (EResp id) in
  find_tr id (trs s') = None /\
  (forall id', id' <> id -> find_tr id' (trs s') = find_tr id' (trs s)) /\
  (find_tr id (trs s) = None -> s' = s /\ a = []) /\
  (forall x, find_tr id (trs s) = Some x -> a = if t_ignore x then [] else [Result id ROk (now s)]).
Proof.
  cbn [step]. destruct (find_tr id (trs s)) as [x|] eqn:Hf; cbn.
  - split; [apply find_del|]. split; [intros id' Hn; apply find_del_other; assumption|].
    split; [discriminate|]. intros y E. inversion E. reflexivity.
  - split; [assumption|]. split; [reflexivity|]. split; [auto|discriminate].
Qed.

Theorem duplicate_response_ignored rto wr s id :
  let '(s1, _) := step rto wr s (EResp id) in step rto wr s1 (EResp id) = (s1, []).
Proof.
  pose proof (response_matches_by_id rto wr s id) as H. destruct (step rto wr s (EResp id)) as [s1 a].
  destruct H as (H1 & _). cbn [step]. rewrite H1. reflexivity.
Qed.

(* Close completes every pending transaction once and leaves the table empty *)
Theorem close_empties rto wr s : trs (fst (step rto wr s EClose)) = [].
Proof. reflexivity. Qed.

(* a failed initial write reports the error and leaves nothing behind *)
Theorem initial_write_failure_leaves_nothing rto wr s id ign :
  wr id 0%nat = false -> step rto wr s (EStart id ign) = (s, [Result id RErrWrite (now s)]).
Proof. intros H. cbn [step]. rewrite H. reflexivity. Qed.

(* whoever gets a Result is out of the table afterwards (ticks) *)
Lemma advance_all_results wr t l : forall l' a, Forall wf_tr l -> advance_all wr t l = (l', a) ->
  forall id r at_, In (Result id r at_) a -> NoDup (map t_id l) -> ~ In id (map t_id l').
Proof.
  induction l as [|x l IH]; cbn [advance_all]; intros l' a Hwf H id r at_ Hin Hnd.
  - inversion H; subst. destruct Hin.
  - inversion Hwf as [|? ? Hx Hl]; subst. inversion Hnd as [|? ? Hnx Hndl]; subst.
    destruct (advance (S max_rtx_count) wr t x) as [o a1] eqn:Ha. destruct (advance_all wr t l) as [r' a2] eqn:Hr.
    inversion H; subst; clear H. destruct (advance_shape _ _ _ _ _ _ Hx Ha) as (I1 & I2 & I3 & I4).
    assert (Hsub : forall y, In y (map t_id r') -> In y (map t_id l)).
    { clear -Hr Hl. revert r' a2 Hr. induction l as [|z l IHl]; cbn [advance_all]; intros r' a2 Hr y Hy.
      - inversion Hr; subst. destruct Hy.
      - inversion Hl as [|? ? Hz Hl']; subst.
        destruct (advance (S max_rtx_count) wr t z) as [oz az] eqn:Hz'. destruct (advance_all wr t l) as [r2 a3] eqn:Hr2.
        inversion Hr; subst. destruct (advance_shape _ _ _ _ _ _ Hz Hz') as (_ & _ & _ & J4).
        destruct oz as [z'|]; cbn in Hy.
        + destruct Hy as [<-|Hy]; [left; symmetry; apply J4|right; eapply IHl; eauto].
        + right. eapply IHl; eauto. }
    apply in_app_iff in Hin as [Hin|Hin].
    + apply I2 in Hin as (-> & -> & _). intros Hc. apply Hnx. apply Hsub. exact Hc.
    + specialize (IH _ _ Hl eq_refl _ _ _ Hin Hndl). destruct o as [x'|]; cbn; [|exact IH].
      intros [E|Hc]; [|contradiction]. destruct I4 as (J1 & _). rewrite J1 in E. subst id.
      (* id = t_id x has a Result among the others' actions: impossible, results carry their own id *)
      clear -Hin Hr Hl Hnx. revert r' a2 Hr Hin. induction l as [|z l IHl]; cbn [advance_all]; intros r' a2 Hr Hin.
      * inversion Hr; subst. destruct Hin.
      * inversion Hl as [|? ? Hz Hl']; subst.
        destruct (advance (S max_rtx_count) wr t z) as [oz az] eqn:Hz'. destruct (advance_all wr t l) as [r2 a3] eqn:Hr2.
        inversion Hr; subst. destruct (advance_shape _ _ _ _ _ _ Hz Hz') as (_ & J2 & _).
        apply in_app_iff in Hin as [Hin|Hin].
        -- apply J2 in Hin as (E & _). apply Hnx. left. symmetry. exact E.
        -- eapply IHl; eauto. intros Hc. apply Hnx. right. exact Hc.
Qed.
