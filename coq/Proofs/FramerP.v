From Turn Require Import Bytes ChanData Attrs Framer BytesP ChanDataP.
From Coq Require Import ZifyN ZifyNat ZifyBool.
Ltac Zify.zify_post_hook ::= Z.div_mod_to_equations.
Open Scope N_scope.

Lemma is_stun_msg_app p x : (20 <= length p)%nat -> is_stun_msg (p ++ x) = is_stun_msg p.
Proof.
  intros H. unfold is_stun_msg. rewrite app_length.
  destruct (Nat.leb_spec 20 (length p + length x)); [|lia].
  destruct (Nat.leb_spec 20 (length p)); [|lia]. cbn [andb].
  rewrite skipn_app, firstn_app, skipn_length.
  replace (4 - (length p - 4))%nat with 0%nat by lia. cbn [firstn]. rewrite app_nil_r. reflexivity.
Qed.

(* ---- progress: a successful consume takes at least 4 bytes and no more than it has ---- *)
Theorem consume_ok_bounds b n : consume b = FrOk n -> (4 <= n <= length b)%nat.
Proof.
  destruct b as [|b0 [|b1 [|b2 [|b3 r]]]]; cbn [consume]; try discriminate.
  set (b := b0 :: b1 :: b2 :: b3 :: r).
  destruct (valid_chan (be16 b0 b1)).
  - destruct (Nat.ltb_spec (length b) (4 + N.to_nat (pad4 (be16 b2 b3)))); [discriminate|].
    intros H'; inversion H'; subst. lia.
  - destruct (Nat.ltb_spec (length b) 20); [discriminate|].
    destruct (is_stun_msg b); [|discriminate].
    destruct (Nat.ltb_spec (length b) (N.to_nat (be16 b2 b3) + 20)); [discriminate|].
    intros H'; inversion H'; subst. lia.
Qed.

(* ---- monotonicity: more bytes never change a decision already taken ---- *)
Theorem consume_mono_ok p x n : consume p = FrOk n -> consume (p ++ x) = FrOk n.
Proof.
  destruct p as [|b0 [|b1 [|b2 [|b3 r]]]]; cbn [consume]; try discriminate.
  cbn [app consume].
  change (b0 :: b1 :: b2 :: b3 :: r ++ x) with ((b0 :: b1 :: b2 :: b3 :: r) ++ x).
  set (b := b0 :: b1 :: b2 :: b3 :: r).
  destruct (valid_chan (be16 b0 b1)).
  - destruct (Nat.ltb_spec (length b) (4 + N.to_nat (pad4 (be16 b2 b3)))); [discriminate|].
    intros H'; inversion H'; subst. rewrite app_length.
    destruct (Nat.ltb_spec (length b + length x) (4 + N.to_nat (pad4 (be16 b2 b3)))); [lia|reflexivity].
  - destruct (Nat.ltb_spec (length b) 20) as [|H20]; [discriminate|].
    destruct (is_stun_msg b) eqn:Hs; [|discriminate].
    destruct (Nat.ltb_spec (length b) (N.to_nat (be16 b2 b3) + 20)); [discriminate|].
    intros H'; inversion H'; subst. rewrite is_stun_msg_app, Hs by exact H20. rewrite app_length.
    destruct (Nat.ltb_spec (length b + length x) 20); [lia|].
    destruct (Nat.ltb_spec (length b + length x) (N.to_nat (be16 b2 b3) + 20)); [lia|reflexivity].
Qed.

Theorem consume_mono_invalid p x : consume p = FrInvalid -> consume (p ++ x) = FrInvalid.
Proof.
  destruct p as [|b0 [|b1 [|b2 [|b3 r]]]]; cbn [consume]; try discriminate.
  cbn [app consume].
  change (b0 :: b1 :: b2 :: b3 :: r ++ x) with ((b0 :: b1 :: b2 :: b3 :: r) ++ x).
  set (b := b0 :: b1 :: b2 :: b3 :: r).
  destruct (valid_chan (be16 b0 b1)).
  - destruct (Nat.ltb_spec (length b) (4 + N.to_nat (pad4 (be16 b2 b3)))); discriminate.
  - destruct (Nat.ltb_spec (length b) 20) as [|H20]; [discriminate|].
    destruct (is_stun_msg b) eqn:Hs.
    + destruct (Nat.ltb_spec (length b) (N.to_nat (be16 b2 b3) + 20)); discriminate.
    + intros _. rewrite is_stun_msg_app, Hs by exact H20. rewrite app_length.
      destruct (Nat.ltb_spec (length b + length x) 20); [lia|reflexivity].
Qed.

(* ---- garbage: only a valid channel number or a STUN header can yield data ---- *)
Theorem consume_ok_kind b n : consume b = FrOk n ->
  match b with
  | b0 :: b1 :: _ => valid_chan (be16 b0 b1) = true \/ is_stun_msg b = true
  | _ => False
  end.
Proof.
  destruct b as [|b0 [|b1 [|b2 [|b3 r]]]]; cbn [consume]; try discriminate.
  set (b := b0 :: b1 :: b2 :: b3 :: r).
  destruct (valid_chan (be16 b0 b1)); [auto|].
  destruct (Nat.ltb_spec (length b) 20); [discriminate|].
  destruct (is_stun_msg b); [auto|discriminate].
Qed.

Theorem consume_garbage_invalid b0 b1 r :
  valid_chan (be16 b0 b1) = false -> (20 <= length (b0 :: b1 :: r))%nat ->
  is_stun_msg (b0 :: b1 :: r) = false -> consume (b0 :: b1 :: r) = FrInvalid.
Proof.
  intros Hv Hl Hs. destruct r as [|b2 [|b3 r]]; try (cbn in Hl; lia).
  cbn [consume]. rewrite Hv.
  destruct (Nat.ltb_spec (length (b0 :: b1 :: b2 :: b3 :: r)) 20); [lia|]. rewrite Hs. reflexivity.
Qed.

(* ---- well-formed frames ---- *)
Lemma wf_frame_length f : wf_frame f -> (4 <= length f)%nat.
Proof.
  intros [n d Hv Hd|t0 t1 l0 l1 tid body Hv Ht Hb].
  - pose proof (cd_encode_length n d) as H. unfold lenN in H. lia.
  - unfold stun_frame. rewrite !app_length. cbn. lia.
Qed.

Lemma cd_encode_nat_length n d : length (cd_encode n d) = (4 + N.to_nat (pad4 (lenN d)))%nat.
Proof. pose proof (cd_encode_length n d) as H. unfold lenN in *. lia. Qed.

Theorem consume_frame_app f x : wf_frame f -> consume (f ++ x) = FrOk (length f).
Proof.
  intros [n d Hv Hd|t0 t1 l0 l1 tid body Hv Ht Hb].
  - assert (Hn : n < 65536) by (unfold valid_chan, max_chan in Hv; lia).
    pose proof (cd_encode_nat_length n d) as Hlen.
    remember (cd_encode n d) as g eqn:Ef. rewrite cd_encode_shape in Ef.
    cbn [app] in Ef. subst g. cbn [app consume].
    rewrite !be16_enc16 by apply u16_lt. rewrite !u16_id by assumption. rewrite Hv.
    match goal with |- context [Nat.ltb ?a ?b] => destruct (Nat.ltb_spec a b) as [Hlt|Hge] end.
    + cbn [length] in *. rewrite !app_length in *. cbn [length] in *. lia.
    + f_equal. cbn [length] in *. rewrite !app_length in *. lia.
  - unfold stun_frame. cbn [app consume]. rewrite Hv.
    set (b := t0 :: t1 :: l0 :: l1 :: (magic ++ tid ++ body) ++ x).
    assert (Hl : length b = (20 + length body + length x)%nat).
    { unfold b. cbn [length]. rewrite !app_length. cbn [length magic]. lia. }
    destruct (Nat.ltb_spec (length b) 20); [lia|].
    assert (Hs : is_stun_msg b = true).
    { unfold is_stun_msg. destruct (Nat.leb_spec 20 (length b)); [|lia]. cbn [andb].
      unfold b. unfold magic at 1. cbn [skipn app firstn]. apply beqb_refl. }
    rewrite Hs. unfold lenN in Hb.
    destruct (Nat.ltb_spec (length b) (N.to_nat (be16 l0 l1) + 20)); [lia|].
    f_equal. cbn [length]. rewrite !app_length. cbn [length magic]. lia.
Qed.

Theorem consume_frame_prefix f k : wf_frame f -> (k < length f)%nat -> consume (firstn k f) = FrIncomplete.
Proof.
  intros Hwf Hk.
  destruct (Nat.ltb_spec k 4) as [H4|H4].
  { pose proof (wf_frame_length f Hwf).
    destruct f as [|a0 [|a1 [|a2 [|a3 r]]]]; cbn [length] in *; try lia.
    destruct k as [|[|[|[|k]]]]; try lia; reflexivity. }
  destruct Hwf as [n d Hv Hd|t0 t1 l0 l1 tid body Hv Ht Hb].
  - assert (Hn : n < 65536) by (unfold valid_chan, max_chan in Hv; lia).
    pose proof (cd_encode_nat_length n d) as Hlen.
    remember (cd_encode n d) as g eqn:Ef. rewrite cd_encode_shape in Ef. cbn [app] in Ef.
    destruct k as [|[|[|[|k]]]]; try lia. subst g. cbn [firstn consume].
    rewrite !be16_enc16 by apply u16_lt. rewrite !u16_id by assumption. rewrite Hv.
    match goal with |- context [Nat.ltb ?a ?b] => destruct (Nat.ltb_spec a b) as [Hlt|Hge] end; [reflexivity|].
    cbn [length] in *. rewrite firstn_length in Hge. lia.
  - unfold stun_frame in *. cbn [app] in *.
    destruct k as [|[|[|[|k]]]]; try lia. cbn [firstn consume]. rewrite Hv.
    set (rest := magic ++ tid ++ body) in *.
    set (b := t0 :: t1 :: l0 :: l1 :: firstn k rest).
    assert (Hrl : length rest = (16 + length body)%nat).
    { unfold rest. rewrite !app_length. cbn [length magic]. lia. }
    assert (Hbl : length b = (4 + k)%nat).
    { unfold b. cbn [length]. rewrite firstn_length. cbn [length] in Hk. lia. }
    destruct (Nat.ltb_spec (length b) 20) as [|H20]; [reflexivity|].
    assert (Hs : is_stun_msg b = true).
    { unfold is_stun_msg. destruct (Nat.leb_spec 20 (length b)); [|lia]. cbn [andb].
      unfold b. cbn [skipn]. rewrite firstn_firstn. replace (Nat.min 4 k) with 4%nat by lia.
      unfold rest. cbn [magic app firstn]. apply beqb_refl. }
    rewrite Hs. unfold lenN in Hb. cbn [length] in Hk.
    destruct (Nat.ltb_spec (length b) (N.to_nat (be16 l0 l1) + 20)); [reflexivity|lia].
Qed.

(* ---- ReadFrom against the segmentation-free specification ---- *)
Lemma firstn_app_le {A} n (a b : list A) : (n <= length a)%nat -> firstn n (a ++ b) = firstn n a.
Proof. intros H. rewrite firstn_app. replace (n - length a)%nat with 0%nat by lia. cbn. apply app_nil_r. Qed.
Lemma skipn_app_le {A} n (a b : list A) : (n <= length a)%nat -> skipn n (a ++ b) = skipn n a ++ b.
Proof. intros H. rewrite skipn_app. replace (n - length a)%nat with 0%nat by lia. reflexivity. Qed.

Lemma read_from_spec reads : forall buf,
  let s := buf ++ concat reads in
  match consume s with
  | FrOk n => exists buf' reads', read_from reads buf = (RfFrame (firstn n s), buf', reads')
                                 /\ buf' ++ concat reads' = skipn n s
  | FrInvalid => exists b r, read_from reads buf = (RfInvalid, b, r)
  | FrIncomplete => read_from reads buf = (RfEOF, s, [])
  end.
Proof.
  induction reads as [|r rs IH]; intros buf; cbn [concat read_from].
  - rewrite app_nil_r. destruct (consume buf) as [n| |]; eauto.
    do 2 eexists. split; [reflexivity|]. apply app_nil_r.
  - destruct (consume buf) as [n| |] eqn:Hc.
    + rewrite (consume_mono_ok _ _ _ Hc). apply consume_ok_bounds in Hc as [_ Hn].
      do 2 eexists. split; [rewrite firstn_app_le by exact Hn; reflexivity|].
      rewrite skipn_app_le by exact Hn. reflexivity.
    + specialize (IH (buf ++ r)). cbn zeta in IH. rewrite <- app_assoc in IH. exact IH.
    + rewrite (consume_mono_invalid _ _ Hc). eauto.
Qed.

(* for every segmentation, the read loop sees exactly what the byte stream contains *)
Theorem read_all_parse fuel : forall reads buf,
  read_all fuel reads buf = parse fuel (buf ++ concat reads).
Proof.
  induction fuel as [|k IH]; intros reads buf; [reflexivity|]. cbn [read_all parse].
  pose proof (read_from_spec reads buf) as H. cbn zeta in H.
  destruct (consume (buf ++ concat reads)) as [n| |].
  - destruct H as (buf' & reads' & -> & Heq). rewrite IH, Heq. reflexivity.
  - rewrite H. reflexivity.
  - destruct H as (b & r & ->). reflexivity.
Qed.

Theorem parse_frames fs : Forall wf_frame fs -> parse (S (length fs)) (concat fs) = (fs, EndEOF []).
Proof.
  induction 1 as [|f fs Hf Hfs IH].
  - reflexivity.
  - cbn [length concat]. change (parse (S (S (length fs))) (f ++ concat fs)) with
      (match consume (f ++ concat fs) with
       | FrOk n => let '(fs0, e) := parse (S (length fs)) (skipn n (f ++ concat fs)) in (firstn n (f ++ concat fs) :: fs0, e)
       | FrInvalid => ([], EndInvalid)
       | FrIncomplete => ([], EndEOF (f ++ concat fs))
       end).
    rewrite consume_frame_app by exact Hf.
    rewrite firstn_app_exact, skipn_app_le by lia. rewrite skipn_all. cbn [app]. rewrite IH. reflexivity.
Qed.

(* C10 main theorem: every sequence of well-formed frames, every segmentation *)
Theorem frames_any_segmentation fs ss :
  Forall wf_frame fs -> concat ss = concat fs ->
  read_all (S (length fs)) ss [] = (fs, EndEOF []).
Proof. intros Hf Hs. rewrite read_all_parse. cbn [app]. rewrite Hs. apply parse_frames; assumption. Qed.

(* a frame is handed out without waiting for more bytes: no Read happens while a whole frame is buffered,
   and each Read that does happen was preceded by an incomplete buffer *)
Theorem read_from_no_read_when_complete reads buf n :
  consume buf = FrOk n -> read_from reads buf = (RfFrame (firstn n buf), skipn n buf, reads).
Proof. intros H. destruct reads; cbn [read_from]; rewrite H; reflexivity. Qed.

Theorem read_from_reads_only_when_incomplete reads : forall buf f buf' reads',
  read_from reads buf = (RfFrame f, buf', reads') ->
  exists used, reads = used ++ reads' /\
    forall u1 u u2, used = u1 ++ u :: u2 -> consume (buf ++ concat u1) = FrIncomplete.
Proof.
  induction reads as [|r rs IH]; intros buf f buf' reads'; cbn [read_from].
  - destruct (consume buf) eqn:Hc; intros H; inversion H; subst.
    exists []. split; [reflexivity|]. intros u1 u u2 E. destruct u1; discriminate.
  - destruct (consume buf) eqn:Hc; intros H.
    + inversion H; subst. exists []. split; [reflexivity|]. intros u1 u u2 E. destruct u1; discriminate.
    + apply IH in H as (used & -> & Hu). exists (r :: used). split; [reflexivity|].
      intros u1 u u2 E. destruct u1 as [|u0 u1]; cbn in E; inversion E; subst.
      * cbn. rewrite app_nil_r. exact Hc.
      * cbn [concat]. rewrite app_assoc. eapply Hu. reflexivity.
    + discriminate.
Qed.

(* the k-th frame of a well-formed stream is complete exactly when its last byte has arrived *)
Theorem frame_complete_iff f x k : wf_frame f ->
  (consume (firstn k (f ++ x)) = FrOk (length f) <-> (length f <= k)%nat) /\
  ((k < length f)%nat -> consume (firstn k (f ++ x)) = FrIncomplete).
Proof.
  intros Hf. assert (Hlt : (k < length f)%nat -> consume (firstn k (f ++ x)) = FrIncomplete).
  { intros Hk. rewrite firstn_app_le by lia. apply consume_frame_prefix; assumption. }
  split; [|exact Hlt]. split.
  - intros H. destruct (Nat.ltb_spec k (length f)) as [Hk|Hk]; [|exact Hk]. rewrite Hlt in H by exact Hk. discriminate.
  - intros Hk. rewrite firstn_app. rewrite firstn_all2 by exact Hk. apply consume_frame_app. exact Hf.
Qed.

(* ---- termination of the read loop on arbitrary streams ---- *)
Theorem parse_never_out_of_fuel fuel : forall s, (length s < fuel)%nat -> snd (parse fuel s) <> EndFuel.
Proof.
  induction fuel as [|k IH]; intros s Hl; [lia|]. cbn [parse].
  destruct (consume s) as [n| |] eqn:Hc; cbn; try discriminate.
  apply consume_ok_bounds in Hc.
  specialize (IH (skipn n s)). rewrite skipn_length in IH.
  destruct (parse k (skipn n s)) as [fs e]. cbn in *. apply IH. lia.
Qed.

Theorem read_loop_terminates reads buf :
  snd (read_all (S (length (buf ++ concat reads))) reads buf) <> EndFuel.
Proof. rewrite read_all_parse. apply parse_never_out_of_fuel. lia. Qed.

(* ---- what the pinned framer did (F3, F4, F5) ---- *)
Theorem consume_pinned_zero_size_refuted :
  consume_pinned [64;0;255;252; 1;2;3;4;5] = FrOk 0 /\
  consume_pinned ([0;1;255;236] ++ magic ++ [0;0;0;0;0;0;0;0;0;0;0;0]) = FrOk 0.
Proof. split; vm_compute; reflexivity. Qed.

Theorem consume_pinned_short_frame_withheld_refuted :
  wf_frame (cd_encode 16384 [7]) /\ consume_pinned (cd_encode 16384 [7]) = FrIncomplete.
Proof. split; [apply WfChan; vm_compute; reflexivity|vm_compute; reflexivity]. Qed.

Theorem consume_pinned_cookie_payload_refuted :
  let f := cd_encode 16384 (magic ++ [0;0;0;0;0;0;0;0;0;0;0;0;0;0;0;0]) in
  wf_frame f /\ length f = 24%nat /\ consume_pinned f = FrIncomplete.
Proof. cbn zeta. split; [apply WfChan; vm_compute; reflexivity|]. split; vm_compute; reflexivity. Qed.

(* ---- io.ReadFull and the ConnectionBind reply ---- *)
Lemma read_full_spec reads : forall k,
  match read_full k reads with
  | Some (x, rest) => (k <= length (concat reads))%nat /\ x = firstn k (concat reads) /\ concat rest = skipn k (concat reads)
  | None => (length (concat reads) < k)%nat
  end.
Proof.
  induction reads as [|r rs IH]; intros k.
  - destruct k; cbn; auto; lia.
  - destruct k as [|k']; [cbn; auto with arith|].
    cbn [read_full concat]. rewrite app_length.
    destruct (Nat.leb_spec (S k') (length r)) as [Hle|Hgt].
    + split; [lia|]. split.
      * rewrite firstn_app_le by lia. reflexivity.
      * cbn [concat]. rewrite skipn_app_le by lia. reflexivity.
    + specialize (IH (S k' - length r)%nat).
      destruct (read_full (S k' - length r) rs) as [[x rest]|].
      * destruct IH as (H1 & -> & H3). split; [lia|]. split.
        -- rewrite firstn_app. rewrite (@firstn_all2 _ (S k') r) by lia. reflexivity.
        -- rewrite H3. rewrite skipn_app. rewrite (@skipn_all2 _ (S k') r) by lia. reflexivity.
      * lia.
Qed.

Lemma firstn_add {A} a b (l : list A) : firstn a l ++ firstn b (skipn a l) = firstn (a + b) l.
Proof. revert l; induction a as [|a IH]; intros l; [reflexivity|]. destruct l; cbn; [destruct b; reflexivity|]. f_equal. apply IH. Qed.

Lemma skipn_add {A} a b (l : list A) : skipn b (skipn a l) = skipn (a + b) l.
Proof. revert l; induction a as [|a IH]; intros l; [reflexivity|]. destruct l; cbn; [destruct b; reflexivity|]. apply IH. Qed.

(* the result of parsing the ConnectionBind reply depends on the byte stream only *)
Definition bind_spec (s : bytes) : option (option bytes * bytes) :=   (* None = short; Some (None,_) = not STUN *)
  if (length s <? 20)%nat then None
  else if negb (is_stun_msg (firstn 20 s)) then Some (None, [])
  else match s with
       | _ :: _ :: l0 :: l1 :: _ =>
           let size := (20 + N.to_nat (be16 l0 l1))%nat in
           if (length s <? size)%nat then None else Some (Some (firstn size s), skipn size s)
       | _ => None
       end.

Theorem bind_read_segmentation_independent reads :
  match bind_read reads, bind_spec (concat reads) with
  | BindMsg raw rest, Some (Some raw', rest') => raw = raw' /\ concat rest = rest'
  | BindShort, None => True
  | BindNotStun, Some (None, _) => True
  | _, _ => False
  end.
Proof.
  unfold bind_read, bind_spec. set (s := concat reads).
  pose proof (read_full_spec reads 20) as H20. fold s in H20.
  destruct (read_full 20 reads) as [[hdr rest]|].
  - destruct H20 as (Hl & -> & Hrest).
    destruct (Nat.ltb_spec (length s) 20); [lia|].
    destruct (is_stun_msg (firstn 20 s)) eqn:Hs; cbn [negb]; [|exact I].
    destruct s as [|a0 [|a1 [|l0 [|l1 s']]]] eqn:Es; cbn [length] in Hl; try lia.
    cbn [firstn].
    pose proof (read_full_spec rest (N.to_nat (be16 l0 l1))) as Hb. rewrite Hrest in Hb.
    destruct (read_full (N.to_nat (be16 l0 l1)) rest) as [[body rest']|].
    + destruct Hb as (Hbl & -> & Hr'). rewrite skipn_length in Hbl.
      destruct (Nat.ltb_spec (length (a0 :: a1 :: l0 :: l1 :: s')) (20 + N.to_nat (be16 l0 l1))); [lia|].
      split.
      * change (a0 :: a1 :: l0 :: l1 :: firstn 16 s') with (firstn 20 (a0 :: a1 :: l0 :: l1 :: s')).
        rewrite <- firstn_add. reflexivity.
      * rewrite Hr', skipn_add. reflexivity.
    + rewrite skipn_length in Hb.
      destruct (Nat.ltb_spec (length (a0 :: a1 :: l0 :: l1 :: s')) (20 + N.to_nat (be16 l0 l1))); [exact I|lia].
  - destruct (Nat.ltb_spec (length s) 20); [exact I|lia].
Qed.
