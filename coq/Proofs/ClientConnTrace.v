(* History-level theorem for C13: the whole trace predicate of Check/C13Check.v (data leaves only toward peers whose
   CreatePermission was granted, ChannelData only on a binding the server confirmed, every peer its own valid channel
   number, payloads unmodified, ReadFrom returns the relayed payloads in order attributed to the right peer, an unknown
   channel is an error) holds on every trace of Model/ClientConn.v in which at most 16384 peers are written to (the
   number space 0x4000-0x7FFF; the 16385th peer gets a recycled number in the implementation as in the model). *)
From Turn Require Import Bytes BytesP ChanData Relay RelayBase ClientConn ClientConnP Common RelayCheck C13Check.
From Coq Require Import ZifyN ZifyNat ZifyBool.
Open Scope Z_scope.

Fixpoint cmodel_steps (s : cst) (h : list cevent) : list cobs :=
  match h with
  | [] => []
  | e :: r => let '(s', o) := cstep s e in
              {| co_ev := e; co_wire := o_wire o; co_ret := o_ret o; co_perms := k_perms s';
                 co_binds := map (fun b => (b_peer b, b_num b, b_st b)) (k_binds s') |} :: cmodel_steps s' r
  end.
Definition cmodel_case (h : list cevent) : case := CC (cmodel_steps cinit h).

Definition pairs (s : cst) : list (addr * N) := map (fun b => (b_peer b, b_num b)) (k_binds s).

(* ---------- what a step does to the bindings ---------- *)
Definition bind_same_id (b b' : bind) : Prop := b_peer b' = b_peer b /\ b_num b' = b_num b.

Lemma set_bind_spec b' l x : In x (set_bind b' l) -> x = b' \/ In x l.
Proof. apply set_bind_in. Qed.

Lemma set_bind_pairs b b' l : NoDup (map b_peer l) -> In b l -> bind_same_id b b' ->
  map (fun x => (b_peer x, b_num x)) (set_bind b' l) = map (fun x => (b_peer x, b_num x)) l.
Proof.
  intros Hnd Hin [Hp Hn]. induction l as [|y l IH]; [destruct Hin|]. cbn [set_bind map]. inversion Hnd as [|? ? Hy Hl]; subst.
  rewrite Hp. destruct (addr_eqb (b_peer y) (b_peer b)) eqn:E.
  - apply addr_eqb_eq in E. destruct Hin as [->|Hin]; [cbn; rewrite Hp, Hn; reflexivity|].
    exfalso. apply Hy. rewrite E. apply in_map. exact Hin.
  - destruct Hin as [->|Hin]; [rewrite addr_eqb_refl in E; discriminate|]. cbn. rewrite (IH Hl Hin). reflexivity.
Qed.

Lemma find_bind_set b b' l p : NoDup (map b_peer l) -> In b l -> b_peer b' = b_peer b ->
  find_bind p (set_bind b' l) = if addr_eqb (b_peer b) p then Some b' else find_bind p l.
Proof.
  intros Hnd Hin Hp. induction l as [|y l IH]; [destruct Hin|]. cbn [set_bind find_bind]. inversion Hnd as [|? ? Hy Hl]; subst. rewrite Hp.
  destruct (addr_eqb (b_peer y) (b_peer b)) eqn:E.
  - apply addr_eqb_eq in E. cbn [find_bind]. rewrite Hp. destruct (addr_eqb (b_peer b) p) eqn:E2; [reflexivity|]. rewrite E, E2. reflexivity.
  - assert (Hin' : In b l) by (destruct Hin as [->|Hin]; [rewrite addr_eqb_refl in E; discriminate|exact Hin]).
    cbn [find_bind]. destruct (addr_eqb (b_peer y) p) eqn:E3.
    + apply addr_eqb_eq in E3. subst p. rewrite addr_eqb_sym, E. reflexivity.
    + apply IH; assumption.
Qed.

Lemma find_bind_in_nodup l b : NoDup (map b_peer l) -> In b l -> find_bind (b_peer b) l = Some b.
Proof.
  induction l as [|y l IH]; intros Hnd Hin; [destruct Hin|]. inversion Hnd as [|? ? Hy Hl]; subst. cbn.
  destruct (addr_eqb (b_peer y) (b_peer b)) eqn:E.
  - apply addr_eqb_eq in E. destruct Hin as [->|Hin]; [reflexivity|]. exfalso. apply Hy. rewrite E. apply in_map. exact Hin.
  - destruct Hin as [->|Hin]; [rewrite addr_eqb_refl in E; discriminate|]. apply IH; assumption.
Qed.

Lemma find_bind_num_some n l b : find_bind_num n l = Some b -> In b l /\ b_num b = n.
Proof. induction l as [|x l IH]; cbn; [discriminate|]. destruct (N.eqb_spec (b_num x) n).
  - intros H; inversion H; subst. auto.
  - intros H. apply IH in H as [? ?]. auto. Qed.
Lemma find_bind_num_none n l : find_bind_num n l = None -> forall b, In b l -> b_num b <> n.
Proof. induction l as [|x l IH]; cbn; [intros _ ? []|]. destruct (N.eqb_spec (b_num x) n); [discriminate|].
  intros H b [<-|Hb]; [assumption|apply IH; assumption]. Qed.

Definition react_state (b : bind) (r : breact) : bstate :=
  match r with
  | BOk => BReady
  | BFail => if was_ready (b_start b) then BReadyUnknown else BUnknown
  | B400 => if was_ready (b_start b) then BReady else BFailed
  | BErrCode _ => BFailed
  | BStale => b_st b
  end.

(* how a binding of the new state came about *)
Definition trans (s : cst) (e : cevent) (w : list wire) (b' : bind) : Prop :=
  In b' (k_binds s) \/
  (exists b, In b (k_binds s) /\ bind_same_id b b' /\ start_binding (k_now s) b = Some (b_st b') /\ b_start b' = b_st b /\
             In (WChannelBind (b_num b) (b_peer b)) w) \/
  (find_bind (b_peer b') (k_binds s) = None /\ b_st b' = BRequest /\ b_start b' = BIdle /\ b_num b' = k_next s /\
   In (WChannelBind (b_num b') (b_peer b')) w) \/
  (exists b r, In b (k_binds s) /\ bind_same_id b b' /\ e = CBindReact (b_peer b) r /\ (b_st b = BRequest \/ b_st b = BRefresh) /\
               b_start b' = b_start b /\ b_st b' = react_state b r).

Definition step_facts (s : cst) (e : cevent) (s' : cst) (w : list wire) : Prop :=
  (forall b', In b' (k_binds s') -> trans s e w b') /\
  (forall n q, In (WChannelBind n q) w -> exists b', In b' (k_binds s') /\ b_peer b' = q /\ b_num b' = n) /\
  (forall b, In b (k_binds s) -> exists b', In b' (k_binds s') /\ bind_same_id b b').

Lemma facts_same s e w : (forall n q, ~ In (WChannelBind n q) w) -> step_facts s e s w.
Proof.
  intros Hw. split; [intros b' Hb; left; exact Hb|]. split; [intros n q Hin; exfalso; eapply Hw; eauto|].
  intros b Hb. exists b. split; [exact Hb|split; reflexivity].
Qed.

Lemma facts_same_binds s e s' w : k_binds s' = k_binds s -> (forall n q, ~ In (WChannelBind n q) w) -> step_facts s e s' w.
Proof.
  intros E Hw. unfold step_facts. rewrite E. split; [intros b' Hb; left; exact Hb|]. split; [intros n q Hin; exfalso; eapply Hw; eauto|].
  intros b Hb. exists b. split; [exact Hb|split; reflexivity].
Qed.

(* the CCheck fold *)
Lemma check_fold_facts now : forall l acc_b acc_w binds w,
  fold_left (fun (acc : list bind * list wire) (b : bind) =>
     match start_binding now b with
     | Some st' => (fst acc ++ [{| b_peer := b_peer b; b_num := b_num b; b_st := st'; b_start := b_st b; b_at := b_at b |}],
                    snd acc ++ [WChannelBind (b_num b) (b_peer b)])
     | None => (fst acc ++ [b], snd acc)
     end) l (acc_b, acc_w) = (binds, w) ->
  (forall b', In b' binds -> In b' acc_b \/ In b' l \/
      exists b, In b l /\ bind_same_id b b' /\ start_binding now b = Some (b_st b') /\ b_start b' = b_st b /\ In (WChannelBind (b_num b) (b_peer b)) w) /\
  (forall m, In m w -> In m acc_w \/ exists b, In b l /\ m = WChannelBind (b_num b) (b_peer b) /\ start_binding now b <> None) /\
  (forall m, In m acc_w -> In m w) /\
  (forall b, In b acc_b -> In b binds) /\
  (forall b, In b l -> exists b', In b' binds /\ bind_same_id b b').
Proof.
  induction l as [|x l IH]; intros acc_b acc_w binds w H; cbn [fold_left] in H.
  - inversion H; subst. repeat split; auto; intros ? [].
  - destruct (start_binding now x) as [st'|] eqn:Hs; cbn [fst snd] in H; apply IH in H as (I1 & I2 & I3 & I4 & I5).
    + repeat split.
      * intros b' Hb. destruct (I1 b' Hb) as [Ha|[Hl|(b & Hb0 & Hx)]].
        -- apply in_app_iff in Ha as [Ha|[<-|[]]]; [left; exact Ha|]. right. right. exists x. split; [left; reflexivity|].
           split; [split; reflexivity|]. cbn. split; [exact Hs|]. split; [reflexivity|]. apply I3. apply in_app_iff. right. left. reflexivity.
        -- right. left. right. exact Hl.
        -- right. right. exists b. split; [right; exact Hb0|exact Hx].
      * intros m Hm. destruct (I2 m Hm) as [Ha|(b & Hb0 & E & Hn)].
        -- apply in_app_iff in Ha as [Ha|[<-|[]]]; [left; exact Ha|]. right. exists x. split; [left; reflexivity|]. split; [reflexivity|congruence].
        -- right. exists b. split; [right; exact Hb0|auto].
      * intros m Hm. apply I3. apply in_app_iff. left. exact Hm.
      * intros b Hb. apply I4. apply in_app_iff. left. exact Hb.
      * intros b [<-|Hb]; [|apply I5; exact Hb]. eexists. split; [apply I4; apply in_app_iff; right; left; reflexivity|split; reflexivity].
    + repeat split.
      * intros b' Hb. destruct (I1 b' Hb) as [Ha|[Hl|(b & Hb0 & Hx)]].
        -- apply in_app_iff in Ha as [Ha|[<-|[]]]; [left; exact Ha|right; left; left; reflexivity].
        -- right. left. right. exact Hl.
        -- right. right. exists b. split; [right; exact Hb0|exact Hx].
      * intros m Hm. destruct (I2 m Hm) as [Ha|(b & Hb0 & E & Hn)]; [left; exact Ha|]. right. exists b. split; [right; exact Hb0|auto].
      * exact I3.
      * intros b Hb. apply I4. apply in_app_iff. left. exact Hb.
      * intros b [<-|Hb]; [|apply I5; exact Hb]. exists x. split; [apply I4; apply in_app_iff; right; left; reflexivity|split; reflexivity].
Qed.

Lemma set_bind_in_iff b b' l x : NoDup (map b_peer l) -> In b l -> b_peer b' = b_peer b ->
  (In x (set_bind b' l) <-> x = b' \/ (In x l /\ b_peer x <> b_peer b)).
Proof.
  intros Hnd Hin Hp. induction l as [|y l IH]; [destruct Hin|]. inversion Hnd as [|? ? Hy Hl]; subst. cbn [set_bind]. rewrite Hp.
  destruct (addr_eqb (b_peer y) (b_peer b)) eqn:E.
  - apply addr_eqb_eq in E. assert (y = b).
    { destruct Hin as [->|Hin]; [reflexivity|]. exfalso. apply Hy. rewrite E. apply in_map. exact Hin. }
    subst y. cbn. split.
    + intros [<-|H]; [left; reflexivity|]. right. split; [right; exact H|]. intros Ec. apply Hy. rewrite <- Ec. apply in_map. exact H.
    + intros [->|[[<-|H] Hne]]; [left; reflexivity|congruence|right; exact H].
  - assert (Hin' : In b l) by (destruct Hin as [->|Hin]; [rewrite addr_eqb_refl in E; discriminate|exact Hin]).
    specialize (IH Hl Hin'). cbn. rewrite IH. split.
    + intros [<-|[->|[H Hne]]]; [right; split; [left; reflexivity|]|left; reflexivity|right; split; [right; exact H|exact Hne]].
      intros Ec. rewrite Ec, addr_eqb_refl in E. discriminate.
    + intros [->|[[<-|H] Hne]]; [right; left; reflexivity|left; reflexivity|right; right; auto].
Qed.

Lemma in_repeat_perm ips n m k q : In (WChannelBind k q) (repeat (WCreatePerm ips) n ++ m) -> In (WChannelBind k q) m.
Proof. intros H. apply in_app_iff in H as [H|H]; [apply repeat_spec in H; discriminate|exact H]. Qed.

(* replacing binding b by b' (same peer and number): the facts about the other bindings *)
Lemma facts_replace s e s' w b b' :
  NoDup (map b_peer (k_binds s)) -> In b (k_binds s) -> bind_same_id b b' -> k_binds s' = set_bind b' (k_binds s) ->
  trans s e w b' ->
  (forall n q, In (WChannelBind n q) w -> q = b_peer b /\ n = b_num b) ->
  step_facts s e s' w.
Proof.
  intros Hnd Hbin Hid E Ht Hw. unfold step_facts. rewrite E.
  assert (Hiff := fun x => set_bind_in_iff b b' (k_binds s) x Hnd Hbin (proj1 Hid)).
  split; [|split].
  - intros x Hx. apply Hiff in Hx as [->|[Hx _]]; [exact Ht|left; exact Hx].
  - intros n q Hin. apply Hw in Hin as [-> ->]. exists b'. split; [apply Hiff; left; reflexivity|]. destruct Hid. auto.
  - intros x Hx. destruct (addr_eqb (b_peer x) (b_peer b)) eqn:Ex.
    + apply addr_eqb_eq in Ex. assert (x = b).
      { pose proof (find_bind_in_nodup _ _ Hnd Hx) as F1. pose proof (find_bind_in_nodup _ _ Hnd Hbin) as F2. rewrite Ex in F1. congruence. }
      subst x. exists b'. split; [apply Hiff; left; reflexivity|exact Hid].
    + apply addr_eqb_neq in Ex. exists x. split; [apply Hiff; right; auto|split; reflexivity].
Qed.

Lemma step_facts_ok s e s' o : num_inv s -> cstep s e = (s', o) -> step_facts s e s' (o_wire o).
Proof.
  intros (Hn & Hm & Hnd) H. destruct e; cbn [cstep] in H.
  - (* CWrite *)
    destruct (k_closed s); [inversion H; subst; apply facts_same; intros ? ? []|].
    destruct (if existsb (N.eqb (ip p)) (k_perms s) then (true, 0%nat) else perm_attempts 3 reacts) as [permitted nreq].
    destruct permitted; cbn [negb] in H.
    2:{ inversion H; subst. apply facts_same. cbn [o_wire]. intros n q Hin. apply repeat_spec in Hin. discriminate. }
    destruct (find_bind p (k_binds s)) as [b|] eqn:Hb.
    + pose proof (find_bind_some _ _ _ Hb) as [Hbin Hbp].
      destruct (bstate_ok (b_st b)).
      { inversion H; subst. apply facts_same_binds; [reflexivity|]. cbn [o_wire]. intros n q Hin. apply in_repeat_perm in Hin. destruct Hin as [E|[]]. discriminate. }
      destruct (start_binding (k_now s) b) as [st0|] eqn:Hs; inversion H; subst s' o; clear H; cbn [k_binds upd o_wire].
      2:{ apply facts_same_binds; [reflexivity|]. intros n q Hin. apply in_repeat_perm in Hin. destruct Hin as [E|[]]. discriminate. }
      set (b' := {| b_peer := p; b_num := b_num b; b_st := st0; b_start := b_st b; b_at := b_at b |}).
      apply (facts_replace s _ _ _ b b'); auto.
      * split; cbn; auto.
      * right. left. exists b. split; [exact Hbin|]. split; [split; cbn; auto|]. cbn. split; [exact Hs|]. split; [reflexivity|].
        apply in_app_iff. right. left. rewrite Hbp. reflexivity.
      * intros n q Hin. apply in_repeat_perm in Hin. destruct Hin as [E|[E|[]]]; [|discriminate]. inversion E; subst n q. auto.
    + cbn [bstate_ok b_st start_binding] in H. inversion H; subst s' o; clear H; cbn [k_binds upd o_wire].
      set (nb := {| b_peer := p; b_num := k_next s; b_st := BIdle; b_start := BIdle; b_at := k_now s |}).
      set (b' := {| b_peer := p; b_num := k_next s; b_st := BRequest; b_start := BIdle; b_at := k_now s |}).
      pose proof (find_bind_none _ _ Hb) as Hnone.
      assert (Hnd' : NoDup (map b_peer (k_binds s ++ [nb]))).
      { rewrite map_app. cbn. apply NoDup_app_single; assumption. }
      assert (Hnbin : In nb (k_binds s ++ [nb])) by (apply in_app_iff; right; left; reflexivity).
      assert (Hiff := fun x => set_bind_in_iff nb b' (k_binds s ++ [nb]) x Hnd' Hnbin eq_refl).
      split; [|split].
      * intros x Hx. apply Hiff in Hx as [->|[Hx Hne]].
        -- right. right. left. cbn [b' b_peer b_st b_start b_num]. split; [exact Hb|]. repeat split. apply in_app_iff. right. left. reflexivity.
        -- apply in_app_iff in Hx as [Hx|[<-|[]]]; [left; exact Hx|]. exfalso. apply Hne. reflexivity.
      * intros n q Hin. apply in_repeat_perm in Hin. destruct Hin as [E|[E|[]]]; [|discriminate]. inversion E; subst n q.
        exists b'. split; [apply Hiff; left; reflexivity|split; reflexivity].
      * intros x Hx. exists x. split; [|split; reflexivity]. apply Hiff. right. split; [apply in_app_iff; left; exact Hx|].
        cbn [nb b_peer]. intros E. apply Hnone. rewrite <- E. apply in_map. exact Hx.
  - (* CBindReact *)
    destruct (find_bind p (k_binds s)) as [b|] eqn:Hb; [|inversion H; subst; apply facts_same; intros ? ? []].
    pose proof (find_bind_some _ _ _ Hb) as [Hbin Hbp].
    assert (Hst : (b_st b = BRequest \/ b_st b = BRefresh) \/ (s' = s /\ o_wire o = [])).
    { destruct (b_st b); try (right; inversion H; subst; split; reflexivity); left; auto. }
    destruct Hst as [Hst|[-> Hw]]; [|rewrite Hw; apply facts_same; intros ? ? []].
    assert (Hrep : forall st at_ (s1 : cst) w, st = react_state b r ->
               k_binds s1 = set_bind {| b_peer := p; b_num := b_num b; b_st := st; b_start := b_start b; b_at := at_ |} (k_binds s) ->
               (forall n q, ~ In (WChannelBind n q) w) -> step_facts s (CBindReact p r) s1 w).
    { intros st at_ s1 w Est E1 Hw. apply (facts_replace s _ s1 w b {| b_peer := p; b_num := b_num b; b_st := st; b_start := b_start b; b_at := at_ |} Hnd Hbin); [split; cbn; auto|exact E1| |intros n q Hin; exfalso; eapply Hw; eauto].
      right. right. right. exists b, r. split; [exact Hbin|]. split; [split; cbn; auto|]. rewrite Hbp. split; [reflexivity|]. split; [exact Hst|].
      cbn. split; [reflexivity|exact Est]. }
    destruct Hst as [Est|Est]; rewrite Est in H; destruct r.
    all: try (inversion H; subst s' o; clear H; eapply Hrep; [reflexivity|reflexivity|cbn; intros ? ? []]).
    all: try (inversion H; subst s' o; clear H; cbn [o_wire]; split; [intros b' Hb'; left; exact Hb'|split;
              [intros n q [E|[]]; inversion E; subst n q; exists b; auto|intros x Hx; exists x; split; [exact Hx|split; reflexivity]]]).
    all: destruct (was_ready (b_start b)) eqn:Hw; inversion H; subst s' o; clear H.
    all: eapply Hrep; [cbn [react_state]; rewrite Hw; reflexivity|reflexivity|].
    all: cbn [o_wire]; try (destruct (k_closed s)); intros n q Hc; repeat (destruct Hc as [Hc|Hc]); try discriminate; try contradiction.
  - destruct (_ <? _)%nat; inversion H; subst; [apply facts_same_binds; [reflexivity|intros ? ? []]|apply facts_same; intros ? ? []].
  - destruct (find_bind_num n (k_binds s)); [destruct (_ <? _)%nat|]; inversion H; subst;
      first [apply facts_same; intros ? ? [] | apply facts_same_binds; [reflexivity|intros ? ? []]].
  - destruct (k_q s) as [|[f d] r]; [|inversion H; subst; apply facts_same_binds; [reflexivity|intros ? ? []]].
    destruct (k_closed s); [inversion H; subst; apply facts_same; intros ? ? []|].
    destruct (k_rd s) as [t|]; [destruct (t <=? k_now s)|]; inversion H; subst; apply facts_same; intros ? ? [].
  - inversion H; subst. apply facts_same_binds; [reflexivity|intros ? ? []].
  - inversion H; subst. apply facts_same_binds; [reflexivity|intros ? ? []].
  - (* CCheck *)
    destruct (fold_left _ _ _) as [binds w] eqn:Hf. inversion H; subst s' o; clear H. cbn [k_binds upd o_wire].
    apply check_fold_facts in Hf as (I1 & I2 & I3 & I4 & I5). split; [|split].
    + intros b' Hb'. destruct (I1 b' Hb') as [[]|[Hl|(b & Hb & Hx)]]; [left; exact Hl|]. right. left. exists b. split; [exact Hb|exact Hx].
    + intros n q Hin. destruct (I2 _ Hin) as [[]|(b & Hb & E & _)]. inversion E; subst n q.
      destruct (I5 b Hb) as (b' & Hb' & Hp & Hnn). exists b'. auto.
    + exact I5.
  - destruct (k_closed s); inversion H; subst; [apply facts_same; intros ? ? []|apply facts_same_binds; [reflexivity|]].
    intros n q [E|[]]. discriminate.
Qed.

(* ---------- numbers ---------- *)
Lemma num_inv_valid s b : num_inv s -> In b (k_binds s) -> valid_chan (b_num b) = true.
Proof.
  intros (_ & Hm & _) Hb. assert (Hin : In (b_num b) (map b_num (k_binds s))) by (apply in_map; assumption).
  rewrite Hm in Hin. apply in_map_iff in Hin as (i & <- & _). unfold nth_num, valid_chan, ChanData.min_chan, ChanData.max_chan, min_ch.
  apply andb_true_iff. split; apply N.leb_le; lia.
Qed.
Lemma num_inv_nodup s : num_inv s -> (N.of_nat (length (k_binds s)) <= 16384)%N -> NoDup (map b_num (k_binds s)).
Proof.
  intros (_ & Hm & _) Hlen. rewrite Hm. remember (length (k_binds s)) as n eqn:En. clear -Hlen.
  assert (Hinj : forall i j, (i < n)%nat -> (j < n)%nat -> nth_num i = nth_num j -> i = j).
  { intros i j Hi Hj E. unfold nth_num in E. rewrite !N.mod_small in E by lia. lia. }
  assert (G : forall k m, (k + m <= n)%nat -> NoDup (map nth_num (seq k m))).
  { intros k m. revert k. induction m as [|m IH]; intros k Hk; cbn; [constructor|]. constructor; [|apply IH; lia].
    intros Hin. apply in_map_iff in Hin as (j & Ej & Hj). apply in_seq in Hj. apply Hinj in Ej; lia. }
  apply G. lia.
Qed.
Lemma nodup_map_inj {A B} (f : A -> B) l x y : NoDup (map f l) -> In x l -> In y l -> f x = f y -> x = y.
Proof.
  induction l as [|z l IH]; intros Hnd Hx Hy E; [destruct Hx|]. cbn in Hnd. inversion Hnd as [|? ? Hz Hl]; subst.
  destruct Hx as [->|Hx], Hy as [->|Hy]; auto.
  - exfalso. apply Hz. rewrite E. apply in_map. exact Hy.
  - exfalso. apply Hz. rewrite <- E. apply in_map. exact Hx.
Qed.

(* the number of bindings never shrinks *)
Lemma binds_grow s e s' o : num_inv s -> cstep s e = (s', o) -> (length (k_binds s) <= length (k_binds s'))%nat.
Proof.
  intros Hinv H. destruct (step_facts_ok _ _ _ _ Hinv H) as (_ & _ & F3). destruct Hinv as (_ & _ & Hnd).
  assert (Hincl : incl (map b_peer (k_binds s)) (map b_peer (k_binds s'))).
  { intros q Hq. apply in_map_iff in Hq as (b & <- & Hb). destruct (F3 b Hb) as (b' & Hb' & Hp & _). rewrite <- Hp. apply in_map. exact Hb'. }
  rewrite <- (map_length b_peer (k_binds s)), <- (map_length b_peer (k_binds s')). apply NoDup_incl_length; assumption.
Qed.

(* ---------- how the predicate's bookkeeping relates to the model's state ---------- *)
Record R (s : cst) (st : kst) : Prop := {
  r_perm : forall i, In i (k_perms s) -> existsb (N.eqb i) (kp st) = true;
  r_kc : forall b, In b (k_binds s) -> bstate_ok (b_st b) = true ->
           existsb (fun x => (fst x =? b_num b)%N && addr_eqb (snd x) (b_peer b)) (kc st) = true;
  r_req : forall b, In b (k_binds s) -> b_st b = BRequest -> was_ready (b_start b) = false;
  r_q : kq st = k_q s;
  r_kn1 : forall b, In b (k_binds s) -> In (b_peer b, b_num b) (knums st);
  r_kn2 : forall x, In x (knums st) -> exists b, In b (k_binds s) /\ b_peer b = fst x /\ b_num b = snd x }.

Definition kst0 : kst := {| kp := []; kc := []; kq := []; knums := [] |}.
Lemma R_init : R cinit kst0.
Proof. constructor; cbn; try reflexivity; try (intros ? []); intros ? ? []. Qed.

(* looking a peer / a number up in the numbers seen on the wire *)
Lemma knums_by_peer s st b : R s st -> NoDup (map b_peer (k_binds s)) -> In b (k_binds s) ->
  exists x, find (fun x => addr_eqb (fst x) (b_peer b)) (knums st) = Some x /\ snd x = b_num b.
Proof.
  intros K Hnd Hb. destruct (find (fun x => addr_eqb (fst x) (b_peer b)) (knums st)) as [x|] eqn:Hf.
  - exists x. split; [reflexivity|]. apply find_some in Hf as [Hx E]. apply addr_eqb_eq in E.
    destruct (r_kn2 _ _ K x Hx) as (b0 & Hb0 & Hp & Hn). rewrite <- Hn. f_equal.
    apply (nodup_map_inj b_peer (k_binds s)); auto. congruence.
  - exfalso. eapply find_none in Hf; [|apply (r_kn1 _ _ K b Hb)]. cbn in Hf. rewrite addr_eqb_refl in Hf. discriminate.
Qed.
Lemma knums_num_some s st n b : R s st -> NoDup (map b_num (k_binds s)) -> find_bind_num n (k_binds s) = Some b ->
  exists x, find (fun x : addr * N => (snd x =? n)%N) (knums st) = Some x /\ fst x = b_peer b.
Proof.
  intros K Hnd Hb. apply find_bind_num_some in Hb as [Hbin Hbn].
  destruct (find (fun x : addr * N => (snd x =? n)%N) (knums st)) as [x|] eqn:Hf.
  - exists x. split; [reflexivity|]. apply find_some in Hf as [Hx E]. apply N.eqb_eq in E.
    destruct (r_kn2 _ _ K x Hx) as (b0 & Hb0 & Hp & Hn). rewrite <- Hp. f_equal.
    apply (nodup_map_inj b_num (k_binds s)); auto. congruence.
  - exfalso. eapply find_none in Hf; [|apply (r_kn1 _ _ K b Hbin)]. cbn in Hf. rewrite Hbn, N.eqb_refl in Hf. discriminate.
Qed.
Lemma knums_num_none s st n : R s st -> find_bind_num n (k_binds s) = None ->
  find (fun x : addr * N => (snd x =? n)%N) (knums st) = None.
Proof.
  intros K Hb. destruct (find (fun x : addr * N => (snd x =? n)%N) (knums st)) as [x|] eqn:Hf; [|reflexivity].
  exfalso. apply find_some in Hf as [Hx E]. apply N.eqb_eq in E. destruct (r_kn2 _ _ K x Hx) as (b0 & Hb0 & _ & Hn).
  apply (find_bind_num_none _ _ Hb b0 Hb0). congruence.
Qed.

(* ---------- shape of what a WriteTo puts on the wire ---------- *)
Lemma perm_attempts_ok fuel : forall reacts n, perm_attempts fuel reacts = (true, n) ->
  existsb (fun r => match r with POk => true | _ => false end) (firstn n reacts) = true.
Proof.
  induction fuel as [|f IH]; intros reacts n H; cbn in H; [discriminate|].
  destruct reacts as [|r rs]; [discriminate|]. destruct r; try discriminate.
  - inversion H; subst. reflexivity.
  - destruct (perm_attempts f rs) as [ok m] eqn:E. inversion H; subst. cbn. apply (IH rs m E).
Qed.

Definition is_cp (m : wire) : bool := match m with WCreatePerm _ => true | _ => false end.
Lemma nreq_repeat ips n tail : (forall m, In m tail -> is_cp m = false) -> k_nreq (repeat (WCreatePerm ips) n ++ tail) = n.
Proof.
  intros Ht. unfold k_nreq. rewrite filter_app, app_length.
  assert (E1 : filter (fun m => match m with WCreatePerm _ => true | _ => false end) (repeat (WCreatePerm ips) n) = repeat (WCreatePerm ips) n).
  { induction n; cbn; [reflexivity|]. rewrite IHn. reflexivity. }
  assert (E2 : filter (fun m => match m with WCreatePerm _ => true | _ => false end) tail = []).
  { induction tail as [|m t IH]; [reflexivity|]. cbn. pose proof (Ht m (or_introl eq_refl)) as Hm. unfold is_cp in Hm. rewrite Hm. apply IH.
    intros x Hx. apply Ht. right. exact Hx. }
  rewrite E1, E2, repeat_length. cbn. lia.
Qed.

Inductive wtail (s : cst) (p : addr) (d : bytes) : list wire -> Prop :=
| WtSend : wtail s p d [WSend p d]
| WtBind n : wtail s p d [WChannelBind n p; WSend p d]
| WtChan b : find_bind p (k_binds s) = Some b -> bstate_ok (b_st b) = true -> wtail s p d [WChanData (b_num b) d].

Lemma write_shape s p d reacts s' o : cstep s (CWrite p d reacts) = (s', o) ->
  (s' = s /\ o_wire o = [] /\ k_closed s = true) \/
  (exists nreq, (if existsb (N.eqb (ip p)) (k_perms s) then (true, 0%nat) else perm_attempts 3 reacts) = (false, nreq) /\
                s' = s /\ o_wire o = repeat (WCreatePerm [ip p]) nreq) \/
  (exists nreq tail, (if existsb (N.eqb (ip p)) (k_perms s) then (true, 0%nat) else perm_attempts 3 reacts) = (true, nreq) /\
                k_perms s' = (if existsb (N.eqb (ip p)) (k_perms s) then k_perms s else ip p :: k_perms s) /\ k_q s' = k_q s /\
                o_wire o = repeat (WCreatePerm [ip p]) nreq ++ tail /\ wtail s p d tail).
Proof.
  cbn [cstep]. intros H. destruct (k_closed s); [left; inversion H; subst; auto|]. right.
  destruct (if existsb (N.eqb (ip p)) (k_perms s) then (true, 0%nat) else perm_attempts 3 reacts) as [permitted nreq] eqn:Hpa.
  destruct permitted; cbn [negb] in H; [right|left; exists nreq; inversion H; subst; auto].
  exists nreq.
  destruct (find_bind p (k_binds s)) as [b|] eqn:Hb.
  - destruct (bstate_ok (b_st b)) eqn:Hok.
    + inversion H; subst. eexists. repeat split. eapply WtChan; eauto.
    + destruct (start_binding (k_now s) b); inversion H; subst; eexists; repeat split; constructor.
  - cbn [bstate_ok b_st start_binding] in H. inversion H; subst. eexists. repeat split. constructor.
Qed.

Lemma wtail_nocp s p d tail : wtail s p d tail -> forall m, In m tail -> is_cp m = false.
Proof. intros H m Hm. destruct H; cbn in Hm; repeat (destruct Hm as [<-|Hm]; [reflexivity|]); destruct Hm. Qed.

(* only WriteTo sends data *)
Lemma nodata_nonwrite s e s' o m : cstep s e = (s', o) -> match e with CWrite _ _ _ => False | _ => True end ->
  In m (o_wire o) -> match m with WSend _ _ | WChanData _ _ => False | _ => True end.
Proof.
  intros H He Hm. destruct e; try contradiction; cbn [cstep] in H.
  - destruct (find_bind p (k_binds s)) as [b|]; [|inversion H; subst; destruct Hm].
    destruct (b_st b); try (inversion H; subst; destruct Hm; fail); destruct r; try (inversion H; subst; cbn in Hm; intuition (subst; exact I); fail).
    all: destruct (was_ready (b_start b)); inversion H; subst; cbn in Hm; try (destruct (k_closed s)); cbn in Hm; intuition (subst; exact I).
  - destruct (_ <? _)%nat; inversion H; subst; destruct Hm.
  - destruct (find_bind_num n (k_binds s)); [destruct (_ <? _)%nat|]; inversion H; subst; destruct Hm.
  - destruct (k_q s) as [|[f d] r]; [|inversion H; subst; destruct Hm].
    destruct (k_closed s); [inversion H; subst; destruct Hm|]. destruct (k_rd s) as [t|]; [destruct (t <=? k_now s)|]; inversion H; subst; destruct Hm.
  - inversion H; subst; destruct Hm.
  - inversion H; subst; destruct Hm.
  - destruct (fold_left _ _ _) as [binds w] eqn:Hf. inversion H; subst. cbn [o_wire] in Hm.
    apply check_fold_facts in Hf as (_ & I2 & _). destruct (I2 m Hm) as [[]|(b & _ & -> & _)]. exact I.
  - destruct (k_closed s); inversion H; subst; cbn in Hm; intuition (subst; exact I).
Qed.

(* ---------- one step ---------- *)
Lemma existsb_Neqb k l : existsb (N.eqb k) l = true <-> In k l.
Proof. rewrite existsb_exists. split; [intros (x & Hx & E); apply N.eqb_eq in E; subst; exact Hx|intros H; exists k; split; [exact H|apply N.eqb_refl]]. Qed.
Lemma existsb_app_r {A} (f : A -> bool) a b : existsb f b = true -> existsb f (a ++ b) = true.
Proof. intros H. rewrite existsb_app, H. apply orb_true_r. Qed.

(* a ChannelBind on the wire names a binding of the new state: its number is valid and it is that peer's own number *)
Lemma chanbind_ok s st e s' w n q : R s st -> num_inv s' -> NoDup (map b_num (k_binds s')) -> step_facts s e s' w ->
  In (WChannelBind n q) w ->
  valid_chan n && forallb (fun x => Bool.eqb (addr_eqb (fst x) q) (snd x =? n)%N) (knums st) = true.
Proof.
  intros K Hinv' Hnn (F1 & F2 & F3) Hin. destruct (F2 n q Hin) as (b' & Hb' & Hp & Hn). pose proof Hinv' as (_ & _ & Hnd').
  apply andb_true_iff. split; [rewrite <- Hn; eapply num_inv_valid; eauto|].
  apply forallb_forall. intros x Hx. destruct (r_kn2 _ _ K x Hx) as (b & Hb & Ep & En). destruct (F3 b Hb) as (b2 & Hb2 & Ep2 & En2).
  destruct (addr_eqb (fst x) q) eqn:E1, (N.eqb_spec (snd x) n) as [E2|E2]; try reflexivity; exfalso.
  - apply addr_eqb_eq in E1. apply E2. assert (b2 = b') by (apply (nodup_map_inj b_peer (k_binds s')); auto; congruence). subst b2. congruence.
  - apply addr_eqb_neq in E1. apply E1. assert (b2 = b') by (apply (nodup_map_inj b_num (k_binds s')); auto; congruence). subst b2. congruence.
Qed.

Lemma perms_nonwrite s e s' o : cstep s e = (s', o) -> match e with CWrite _ _ _ => False | _ => True end -> k_perms s' = k_perms s.
Proof.
  intros H He. destruct e; try contradiction; cbn [cstep] in H.
  all: repeat (match type of H with context [match ?x with _ => _ end] => destruct x end); inversion H; reflexivity.
Qed.
Lemma newperms_nonwrite e w : match e with CWrite _ _ _ => False | _ => True end -> k_newperms e w = [].
Proof. destruct e; intros H; try contradiction; reflexivity. Qed.

Lemma queue_other s e s' o : cstep s e = (s', o) ->
  match e with CInData _ _ | CInChan _ _ | CRead => False | _ => True end -> k_q s' = k_q s.
Proof.
  intros H He. destruct e; try contradiction; cbn [cstep] in H.
  all: repeat (match type of H with context [match ?x with _ => _ end] => destruct x end); inversion H; reflexivity.
Qed.

Lemma step_ok s st e s' o :
  num_inv s -> (N.of_nat (length (k_binds s')) <= 16384)%N -> R s st -> cstep s e = (s', o) ->
  let ob := {| co_ev := e; co_wire := o_wire o; co_ret := o_ret o; co_perms := k_perms s';
               co_binds := map (fun b => (b_peer b, b_num b, b_st b)) (k_binds s') |} in
  fst (k_step st ob) = true /\ R s' (snd (k_step st ob)).
Proof.
  intros Hinv Hlen K H ob. pose proof (num_inv_step _ _ _ _ Hinv H) as Hinv'.
  pose proof (num_inv_nodup _ Hinv' Hlen) as Hnn'. pose proof Hinv as (_ & _ & Hnd). pose proof Hinv' as (_ & _ & Hnd').
  assert (Hlen0 : (N.of_nat (length (k_binds s)) <= 16384)%N) by (pose proof (binds_grow _ _ _ _ Hinv H); lia).
  pose proof (num_inv_nodup _ Hinv Hlen0) as Hnn.
  pose proof (step_facts_ok _ _ _ _ Hinv H) as Hfacts. pose proof Hfacts as (F1 & F2 & F3).
  pose proof K as [Kperm Kkc Kreq Kq Kn1 Kn2].
  unfold k_step. cbn [fst snd co_ev co_wire co_ret ob].
  set (w := o_wire o). set (kp' := k_newperms e w ++ kp st).
  (* ---- the permission table ---- *)
  assert (Pperm : (forall i, In i (k_perms s') -> existsb (N.eqb i) kp' = true)).
  { intros i Hi. destruct e;
      try (unfold kp'; rewrite newperms_nonwrite by exact I; cbn [app]; apply Kperm; rewrite <- (perms_nonwrite _ _ _ _ H I); exact Hi).
    (* CWrite *)
    destruct (write_shape _ _ _ _ _ _ H) as [(-> & _ & _)|[(nreq & _ & -> & _)|(nreq & tail & Hpa & Ep & _ & Ew & Ht)]];
      try (apply existsb_app_r; apply Kperm; exact Hi).
    rewrite Ep in Hi. destruct (existsb (N.eqb (ip p)) (k_perms s)) eqn:Hex; [apply existsb_app_r; apply Kperm; exact Hi|].
    destruct Hi as [<-|Hi]; [|apply existsb_app_r; apply Kperm; exact Hi].
    unfold kp', k_newperms, w. rewrite Ew, (nreq_repeat _ _ _ (wtail_nocp _ _ _ _ Ht)), (perm_attempts_ok _ _ _ Hpa).
    cbn. rewrite N.eqb_refl. reflexivity. }
  (* ---- confirmed bindings ---- *)
  assert (Pkc : forall b', In b' (k_binds s') -> bstate_ok (b_st b') = true ->
            existsb (fun x => (fst x =? b_num b')%N && addr_eqb (snd x) (b_peer b')) (k_kc' st e) = true).
  { assert (Hgrow : forall n q, existsb (fun x : N * addr => (fst x =? n)%N && addr_eqb (snd x) q) (kc st) = true ->
                               existsb (fun x : N * addr => (fst x =? n)%N && addr_eqb (snd x) q) (k_kc' st e) = true).
    { intros n q Hx. unfold k_kc'. destruct e; try exact Hx. destruct r; try exact Hx.
      destruct (find _ (knums st)); [|exact Hx]. cbn [existsb]. rewrite Hx. apply orb_true_r. }
    intros b' Hb' Hok. destruct (F1 b' Hb') as [Hold|[(b & Hb & [Ep En] & Hs & Hst & _)|[(_ & Est & _)|(b & r & Hb & [Ep En] & Ee & Hbs & Hst & Er)]]].
    - apply Hgrow. apply Kkc; assumption.
    - rewrite Ep, En. apply Hgrow. apply Kkc; [exact Hb|]. eapply start_binding_from_ok; eauto.
    - rewrite Est in Hok. discriminate.
    - rewrite Ep, En. subst e. destruct r; cbn [react_state] in Er.
      + (* BOk: this is the confirmation *)
        unfold k_kc'. destruct (knums_by_peer s st b K Hnd Hb) as (x & Hf & Hx). rewrite Hf. cbn [existsb fst snd].
        rewrite Hx, N.eqb_refl, addr_eqb_refl. reflexivity.
      + apply Hgrow. apply Kkc; [exact Hb|]. rewrite <- Er. exact Hok.
      + destruct (was_ready (b_start b)) eqn:Hw; [|rewrite Er in Hok; discriminate].
        apply Hgrow. apply Kkc; [exact Hb|]. destruct Hbs as [Hbs|Hbs]; [rewrite (Kreq b Hb Hbs) in Hw; discriminate|rewrite Hbs; reflexivity].
      + rewrite Er in Hok. discriminate.
      + destruct (was_ready (b_start b)) eqn:Hw; [|rewrite Er in Hok; discriminate].
        apply Hgrow. apply Kkc; [exact Hb|]. destruct Hbs as [Hbs|Hbs]; [rewrite (Kreq b Hb Hbs) in Hw; discriminate|rewrite Hbs; reflexivity]. }
  assert (Preq : forall b', In b' (k_binds s') -> b_st b' = BRequest -> was_ready (b_start b') = false).
  { intros b' Hb' Hst'. destruct (F1 b' Hb') as [Hold|[(b & Hb & _ & Hs & Hst & _)|[(_ & _ & Est & _)|(b & r & Hb & _ & Ee & Hbs & Hst & Er)]]].
    - apply Kreq; assumption.
    - rewrite Hst. rewrite Hst' in Hs. unfold start_binding in Hs. destruct (b_st b); try discriminate; try reflexivity.
      destruct (refresh_interval <? k_now s - b_at b); discriminate.
    - rewrite Est. reflexivity.
    - rewrite Hst. destruct r; cbn [react_state] in Er; rewrite Er in Hst'; try discriminate.
      + apply Kreq; assumption.
      + destruct (was_ready (b_start b)); discriminate.
      + destruct (was_ready (b_start b)); discriminate. }
  (* ---- the numbers seen on the wire ---- *)
  assert (Pkn1 : forall b', In b' (k_binds s') -> In (b_peer b', b_num b') (k_knums' st w)).
  { intros b' Hb'. unfold k_knums'. apply in_app_iff.
    destruct (F1 b' Hb') as [Hold|[(b & Hb & [Ep En] & _)|[(_ & _ & _ & _ & Hw)|(b & r & Hb & [Ep En] & _)]]].
    - right. apply Kn1. exact Hold.
    - right. rewrite Ep, En. apply Kn1. exact Hb.
    - left. apply in_flat_map. exists (WChannelBind (b_num b') (b_peer b')). split; [exact Hw|left; reflexivity].
    - right. rewrite Ep, En. apply Kn1. exact Hb. }
  assert (Pkn2 : forall x, In x (k_knums' st w) -> exists b', In b' (k_binds s') /\ b_peer b' = fst x /\ b_num b' = snd x).
  { intros x Hx. unfold k_knums' in Hx. apply in_app_iff in Hx as [Hx|Hx].
    - apply in_flat_map in Hx as (m & Hm & Hx). destruct m; try (destruct Hx; fail). destruct Hx as [<-|[]]. cbn [fst snd]. apply F2. exact Hm.
    - destruct (Kn2 x Hx) as (b & Hb & Ep & En). destruct (F3 b Hb) as (b' & Hb' & Ep' & En'). exists b'. split; [exact Hb'|split; congruence]. }
  (* ---- the receive queue and what ReadFrom returns ---- *)
  assert (Pq : k_read st e (o_ret o) = true /\
               match e, o_ret o with CRead, RRead _ _ => tl (k_kq1 st e (o_ret o)) | _, _ => k_kq1 st e (o_ret o) end = k_q s').
  { destruct e; try (split; [reflexivity|]; cbn [k_kq1]; rewrite Kq; symmetry; apply (queue_other _ _ _ _ H I)); cbn [cstep] in H.
    - (* CInData *)
      split; [reflexivity|]. cbn [k_kq1]. rewrite Kq. destruct (length (k_q s) <? queue_cap)%nat; inversion H; subst; reflexivity.
    - (* CInChan *)
      destruct (find_bind_num n (k_binds s)) as [b|] eqn:Hb.
      + destruct (knums_num_some s st n b K Hnn Hb) as (x & Hf & Hx).
        destruct (length (k_q s) <? queue_cap)%nat eqn:Hc; inversion H; subst; cbn [o_ret k_read k_kq1 upd k_q]; rewrite Hf, Kq, Hc, ?Hx; split; reflexivity.
      + inversion H; subst. cbn [o_ret k_read k_kq1]. rewrite (knums_num_none s' st n K Hb). split; [reflexivity|exact Kq].
    - (* CRead *)
      destruct (k_q s) as [|[f d] r] eqn:Hq.
      + assert (Hs : s' = s /\ match o_ret o with RRead _ _ => False | _ => True end).
        { destruct (k_closed s); [inversion H; subst; split; [reflexivity|exact I]|].
          destruct (k_rd s) as [t|]; [destruct (t <=? k_now s)|]; inversion H; subst; split; try reflexivity; exact I. }
        destruct Hs as [-> Hr]. cbn [k_read k_kq1]. rewrite Kq, ?Hq. destruct (o_ret o); try contradiction; split; try reflexivity; symmetry; exact Hq.
      + inversion H; subst. cbn [o_ret k_read k_kq1 upd k_q]. rewrite Kq, ?Hq. rewrite addr_eqb_refl, beqb_refl. split; reflexivity. }
  (* ---- what leaves toward peers ---- *)
  assert (Hcb : forall n q, In (WChannelBind n q) w ->
            valid_chan n && forallb (fun x => Bool.eqb (addr_eqb (fst x) q) (snd x =? n)%N) (knums st) = true).
  { intros n q Hin. eapply chanbind_ok; eauto. }
  assert (Pdata : k_data st kp' e w = true /\ k_payload e w = true).
  { destruct e; try (split; apply forallb_forall; intros m Hm; pose proof (nodata_nonwrite _ _ _ _ m H I Hm) as Hnd0;
                      destruct m; try contradiction; try reflexivity; apply Hcb; exact Hm).
    destruct (write_shape _ _ _ _ _ _ H) as [(_ & Ew & _)|[(nreq & _ & _ & Ew)|(nreq & tail & Hpa & Ep & _ & Ew & Ht)]].
    - unfold w. rewrite Ew. split; reflexivity.
    - unfold w. rewrite Ew. split; apply forallb_forall; intros m Hm; apply repeat_spec in Hm; subst m; reflexivity.
    - assert (Hip : existsb (N.eqb (ip p)) kp' = true).
      { apply Pperm. rewrite Ep. destruct (existsb (N.eqb (ip p)) (k_perms s)) eqn:Hex; [apply existsb_Neqb; exact Hex|left; reflexivity]. }
      split; apply forallb_forall; intros m Hm; pose proof Hm as Hm0; unfold w in Hm; rewrite Ew in Hm; apply in_app_iff in Hm as [Hm|Hm];
        try (apply repeat_spec in Hm; subst m; reflexivity).
      + destruct Ht as [|n|b Hb Hok]; cbn in Hm.
        * destruct Hm as [<-|[]]. rewrite addr_eqb_refl, Hip. reflexivity.
        * destruct Hm as [<-|[<-|[]]]; [apply Hcb; exact Hm0|rewrite addr_eqb_refl, Hip; reflexivity].
        * destruct Hm as [<-|[]]. rewrite Hip, Bool.andb_true_r. apply find_bind_some in Hb as [Hbin Hbp]. rewrite <- Hbp. apply Kkc; assumption.
      + destruct Ht as [|n|b Hb Hok]; cbn in Hm.
        * destruct Hm as [<-|[]]. apply beqb_refl.
        * destruct Hm as [<-|[<-|[]]]; [reflexivity|apply beqb_refl].
        * destruct Hm as [<-|[]]. apply beqb_refl. }
  destruct Pdata as [Pd Pp]. destruct Pq as [Pr Pq]. rewrite Pd, Pp, Pr. split; [reflexivity|].
  constructor; cbn [kp kc kq knums]; auto.
Qed.

(* ---------- every history ---------- *)
Lemma binds_grow_run : forall h s, num_inv s -> (length (k_binds s) <= length (k_binds (fst (crun s h))))%nat.
Proof.
  induction h as [|e h IH]; intros s Hinv; [cbn; lia|]. cbn [crun]. destruct (cstep s e) as [s1 o] eqn:Hs.
  destruct (crun s1 h) as [s2 os] eqn:Hr. cbn [fst]. pose proof (binds_grow _ _ _ _ Hinv Hs).
  specialize (IH s1 (num_inv_step _ _ _ _ Hinv Hs)). rewrite Hr in IH. cbn [fst] in IH. lia.
Qed.

Lemma holds_model : forall h s st, num_inv s -> R s st -> (N.of_nat (length (k_binds (fst (crun s h)))) <= 16384)%N ->
  holds_from st (cmodel_steps s h) = true.
Proof.
  induction h as [|e h IH]; intros s st Hinv K Hb; [reflexivity|]. cbn [cmodel_steps]. cbn [crun] in Hb.
  destruct (cstep s e) as [s' o] eqn:Hs. destruct (crun s' h) as [s2 os] eqn:Hr. cbn [fst] in Hb. cbn [holds_from].
  pose proof (num_inv_step _ _ _ _ Hinv Hs) as Hinv'.
  assert (Hb' : (N.of_nat (length (k_binds s')) <= 16384)%N).
  { pose proof (binds_grow_run h s' Hinv') as G. rewrite Hr in G. cbn [fst] in G. lia. }
  destruct (step_ok s st e s' o Hinv Hb' K Hs) as [C K'].
  destruct (k_step st _) as [ok st'] eqn:Hk. cbn [fst snd] in C, K'. subst ok. cbn [andb].
  apply IH; auto. rewrite Hr. exact Hb.
Qed.

Lemma mset_refl {A} (eqb : A -> A -> bool) l : mset_eqb eqb l l = true.
Proof. unfold mset_eqb. rewrite Nat.eqb_refl. cbn. apply forallb_forall. intros x _. apply Nat.eqb_refl. Qed.
Lemma cret_eqb_refl r : cret_eqb r r = true.
Proof. destruct r; cbn; rewrite ?N.eqb_refl, ?addr_eqb_refl, ?beqb_refl; reflexivity. Qed.
Lemma cagree_model : forall h s, agree_from s (cmodel_steps s h) = true.
Proof.
  induction h as [|e h IH]; intros s; [reflexivity|]. cbn [cmodel_steps]. destruct (cstep s e) as [s' o] eqn:Hs.
  cbn [agree_from co_ev co_wire co_ret co_perms co_binds]. rewrite Hs, !mset_refl, cret_eqb_refl, IH. reflexivity.
Qed.

(* THE THEOREM: for every history in which at most 16384 peers are written to, the whole C13 trace predicate holds on the
   model's trace and the runner accepts that trace *)
Theorem c13_run_on_model h : (N.of_nat (length (k_binds (fst (crun cinit h)))) <= 16384)%N ->
  C13Check.run (cmodel_case h) = (true, true).
Proof.
  intros Hb. unfold C13Check.run, cmodel_case. rewrite cagree_model. fold kst0.
  rewrite (holds_model h cinit kst0 num_inv_init R_init Hb). reflexivity.
Qed.
