From Turn Require Import Bytes ChanData Attrs Framer StunMsg BytesP ChanDataP.
From Coq Require Import ZifyN ZifyNat ZifyBool.
Ltac Zify.zify_post_hook ::= Z.div_mod_to_equations.
Open Scope N_scope.

Lemma gslice_ok l lo hi : (lo <= hi)%nat -> (hi <= length l)%nat -> gslice l lo hi = Ok (slice l lo hi).
Proof.
  intros H1 H2. unfold gslice, slice_ok. destruct (Nat.leb_spec lo hi); [|lia]. destruct (Nat.leb_spec hi (length l)); [|lia]. reflexivity.
Qed.

Lemma slice_length {A} (l : list A) lo hi : (lo <= hi)%nat -> (hi <= length l)%nat -> length (slice l lo hi) = (hi - lo)%nat.
Proof. intros H1 H2. unfold slice. rewrite firstn_length, skipn_length. lia. Qed.

Lemma be16l_two l : length l = 2%nat -> exists v, be16l l = Ok v.
Proof. destruct l as [|a [|b [|c r]]]; cbn; try discriminate. eauto. Qed.

Lemma read16 l lo : (lo + 2 <= length l)%nat -> exists v, (h <- gslice l lo (lo + 2) ;; be16l h) = Ok v.
Proof.
  intros H. rewrite gslice_ok by lia. cbn [bind]. apply be16l_two. rewrite slice_length by lia. lia.
Qed.

(* the attribute walk never indexes out of range and never runs out of fuel *)
Lemma dec_attrs_no_panic fuel : forall b acc, (length b <= fuel)%nat -> dec_attrs fuel b acc <> Panic.
Proof.
  induction fuel as [|f IH]; intros b acc Hf.
  - destruct b; [cbn; discriminate|cbn in Hf; lia].
  - destruct b as [|x b']; [cbn; discriminate|]. set (b := x :: b') in *. cbn [dec_attrs].
    change (match b with [] => Ok (rev acc) | _ :: _ => _ end) with
      (if (length b <? 4)%nat then Err 4 else
       t <- (h <- gslice b 0 2 ;; be16l h) ;; al <- (h <- gslice b 2 4 ;; be16l h) ;;
       rest <- gslice b 4 (length b) ;;
       (let padded := N.to_nat (pad4 al) in
        if (length rest <? padded)%nat then Err 5 else
        v <- gslice rest 0 (N.to_nat al) ;; rest' <- gslice rest padded (length rest) ;;
        dec_attrs f rest' ((if t =? 32800 then 32 else t, v) :: acc))).
    destruct (Nat.ltb_spec (length b) 4) as [|H4]; [discriminate|].
    destruct (read16 b 0) as [t Ht]; [lia|]. change (0 + 2)%nat with 2%nat in Ht. rewrite Ht. cbn [bind].
    destruct (read16 b 2) as [al Hal]; [lia|]. change (2 + 2)%nat with 4%nat in Hal. rewrite Hal. cbn [bind].
    rewrite gslice_ok by lia. cbn [bind]. cbv zeta.
    set (rest := slice b 4 (length b)). assert (Hrl : length rest = (length b - 4)%nat) by (unfold rest; rewrite slice_length; lia).
    destruct (Nat.ltb_spec (length rest) (N.to_nat (pad4 al))) as [|Hp]; [discriminate|].
    pose proof (pad4_ge al). rewrite gslice_ok by lia. cbn [bind]. rewrite gslice_ok by lia. cbn [bind].
    apply IH. rewrite slice_length by lia. lia.
Qed.

Theorem stun_decode_no_panic buf : stun_decode buf <> Panic.
Proof.
  unfold stun_decode. destruct (Nat.ltb_spec (length buf) 20) as [|H20]; [discriminate|].
  destruct (read16 buf 0) as [ty Hty]; [lia|]. change (0 + 2)%nat with 2%nat in Hty. rewrite Hty. cbn [bind].
  destruct (read16 buf 2) as [sz Hsz]; [lia|]. change (2 + 2)%nat with 4%nat in Hsz. rewrite Hsz. cbn [bind].
  rewrite gslice_ok by lia. cbn [bind]. destruct (negb _); [discriminate|]. cbv zeta.
  destruct (Nat.ltb_spec (length buf) (20 + N.to_nat sz)) as [|Hf]; [discriminate|].
  rewrite gslice_ok by lia. cbn [bind]. rewrite gslice_ok by lia. cbn [bind].
  destruct (dec_attrs _ _ _) eqn:Hd; cbn [bind]; try discriminate.
  exfalso. eapply dec_attrs_no_panic; [|exact Hd]. lia.
Qed.

(* the server's dispatch and the client's dispatch are total: they never panic on any byte string *)
Theorem srv_dispatch_no_panic b : srv_dispatch b <> SPanic.
Proof.
  unfold srv_dispatch. destruct (is_channel_data b).
  - destruct (cd_decode b); discriminate.
  - destruct (stun_decode b) eqn:H; try discriminate; [|exfalso; eapply stun_decode_no_panic; eauto].
    destruct (negb _); [discriminate|]. destruct (existsb _ _); discriminate.
Qed.

Theorem cli_dispatch_no_panic f b : cli_dispatch f b <> CPanic.
Proof.
  unfold cli_dispatch. destruct (is_channel_data b); [destruct (cd_decode b); discriminate|].
  destruct (is_stun_msg b); [|destruct f; discriminate].
  destruct (stun_decode b) eqn:H; try discriminate; [|exfalso; eapply stun_decode_no_panic; eauto].
  destruct (_ =? 0); [discriminate|]. destruct (_ =? 1); discriminate.
Qed.

(* whatever IsChannelData accepts, Decode accepts (no "failed to create channel data" path) *)
Theorem srv_chandata_path_decodes b : is_channel_data b = true -> exists n d, srv_dispatch b = SChanData n d /\ cd_decode b = CdOk n d.
Proof.
  intros H. unfold srv_dispatch. rewrite H. apply is_channel_data_iff in H as (n & d & Hd). rewrite Hd. eauto.
Qed.

(* the documented (handled, error) table of Client.HandleInbound: "not handled" only for data that is
   neither ChannelData nor STUN and does not come from the STUN server; never (false, error) *)
Theorem cli_not_handled_iff f b :
  cli_handled (cli_dispatch f b) = false <-> is_channel_data b = false /\ is_stun_msg b = false /\ f = false.
Proof.
  unfold cli_dispatch. destruct (is_channel_data b).
  - destruct (cd_decode b); cbn; split; [discriminate|intros (E & _); discriminate| discriminate|intros (E & _); discriminate].
  - destruct (is_stun_msg b).
    + destruct (stun_decode b); cbn; try (split; [discriminate|intros (_ & E & _); discriminate]).
      destruct (_ =? 0); [cbn; split; [discriminate|intros (_ & E & _); discriminate]|].
      destruct (_ =? 1); cbn; split; try discriminate; intros (_ & E & _); discriminate.
    + destruct f; cbn; split; auto; try discriminate. intros (_ & _ & E). discriminate.
Qed.

(* a request whose class/method has no handler, an undecodable datagram and unknown required attributes
   never reach a handler *)
Theorem srv_handler_only_for_known b c m tid : srv_dispatch b = SHandler c m tid -> has_handler c m = true.
Proof.
  unfold srv_dispatch. destruct (is_channel_data b); [destruct (cd_decode b); discriminate|].
  destruct (stun_decode b) as [msg| |]; try discriminate.
  destruct (has_handler _ _) eqn:Hh; cbn [negb]; [|discriminate]. destruct (existsb _ _); [discriminate|].
  intros H; inversion H; subst. exact Hh.
Qed.
