From Turn Require Import Bytes Relay RelayBase TcpRelay.
From Coq Require Import ZifyN ZifyNat ZifyBool.
Open Scope Z_scope.

Definition all_ids (l : list talloc) : list N := flat_map (fun a => map tc_id (ta_conns a)) l.

Definition tinv (s : tstate) : Prop :=
  tlocked s = false /\ NoDup (all_ids (tallocs s)) /\
  (forall a x, In a (tallocs s) -> In x (ta_conns a) -> tc_bound x = false -> tnow s < tc_dl x).

Lemma has_conn_id_iff k l : has_conn_id k l = true <-> In k (all_ids l).
Proof.
  unfold has_conn_id, all_ids. rewrite existsb_exists, in_flat_map. split.
  - intros (a & Ha & H). exists a. split; [assumption|]. apply existsb_exists in H as (c & Hc & E). apply N.eqb_eq in E. subst.
    apply in_map. assumption.
  - intros (a & Ha & H). exists a. split; [assumption|]. apply in_map_iff in H as (c & E & Hc). apply existsb_exists. exists c.
    split; [assumption|]. apply N.eqb_eq. assumption.
Qed.

Lemma treplace_in a' l x : In x (treplace a' l) -> x = a' \/ In x l.
Proof. induction l as [|y l IH]; cbn; [tauto|]. destruct (addr_eqb (ta_client y) (ta_client a')); cbn; intros [H|H]; auto. apply IH in H. tauto. Qed.

Lemma tfind_some c l a : tfind c l = Some a -> In a l /\ ta_client a = c.
Proof.
  induction l as [|x l IH]; cbn; [discriminate|]. destruct (addr_eqb (ta_client x) c) eqn:E.
  - intros H; inversion H; subst. apply addr_eqb_eq in E. auto.
  - intros H. apply IH in H as [? ?]. auto.
Qed.

Lemma tfind_relay_some r l a : tfind_relay r l = Some a -> In a l /\ ta_relay a = r.
Proof.
  induction l as [|x l IH]; cbn; [discriminate|]. destruct (addr_eqb (ta_relay x) r) eqn:E.
  - intros H; inversion H; subst. apply addr_eqb_eq in E. auto.
  - intros H. apply IH in H as [? ?]. auto.
Qed.

Lemma owner_of_some k l a x : owner_of k l = Some (a, x) -> In a l /\ In x (ta_conns a) /\ tc_id x = k.
Proof.
  induction l as [|y l IH]; cbn; [discriminate|].
  destruct (find (fun c => (tc_id c =? k)%N) (ta_conns y)) as [c|] eqn:Hf.
  - intros H; inversion H; subst. apply find_some in Hf as [Hin E]. apply N.eqb_eq in E. auto.
  - intros H. apply IH in H as (? & ? & ?). auto.
Qed.

(* ---------- step-level facts ---------- *)
(* a second Connect to a peer that already has a connection: 446, nothing changes, the manager keeps serving *)
Theorem duplicate_connect_446 s c tid u p a dial cid :
  tlocked s = false -> tfind c (tallocs s) = Some a -> ta_user a = u -> port p <> 0%N -> has_conn_peer p a = true ->
  tstep s (TConnect c tid (Some u) (Some p) false dial cid) = (s, [TError c MConnect tid 446]).
Proof.
  intros Hl Hf Hu Hp Hd. cbn [tstep]. rewrite Hf, Hu, N.eqb_refl. cbn [negb].
  destruct (N.eqb_spec (port p) 0); [contradiction|]. rewrite Hl, Hd. reflexivity.
Qed.

(* inbound connections are announced only when the allocation holds a permission for the peer's IP *)
Theorem attempt_requires_permission s relay p cid s' acts dst q k :
  tstep s (TPeerConn relay p cid) = (s', acts) -> In (TAttempt dst q k) acts ->
  exists a, tfind_relay relay (tallocs s) = Some a /\ existsb (N.eqb (ip p)) (ta_perms a) = true /\
            dst = ta_client a /\ q = p /\ k = cid /\ has_conn_id cid (tallocs s) = false.
Proof.
  cbn [tstep]. destruct (tfind_relay relay (tallocs s)) as [a|] eqn:Hf; [|intros H; inversion H; subst; intros []].
  destruct (existsb (N.eqb (ip p)) (ta_perms a)) eqn:Hp; cbn [negb]; [|intros H; inversion H; subst; intros [E|[]]; discriminate].
  destruct (tlocked s); [intros H; inversion H; subst; intros [E|[]]; discriminate|].
  destruct (has_conn_id cid (tallocs s)) eqn:Hc; cbn [orb]; [intros H; inversion H; subst; intros [E|[]]; discriminate|].
  destruct (has_conn_peer p a); [intros H; inversion H; subst; intros [E|[]]; discriminate|].
  intros H; inversion H; subst. intros [E|[]]. inversion E; subst. exists a. auto 10.
Qed.

(* ConnectionBind succeeds only for an existing, not yet bound connection of an allocation of the
   authenticated user; it binds it (so a second bind fails) *)
Theorem bind_success_conditions s dc tid au cid s' acts dc' tid' k :
  tstep s (TConnBind dc tid au cid) = (s', acts) -> In (TBindSuccess dc' tid' k) acts ->
  exists u a x, au = Some u /\ cid = Some k /\ dc' = dc /\ tid' = tid /\
    owner_of k (tallocs s) = Some (a, x) /\ ta_user a = u /\ tc_bound x = false.
Proof.
  cbn [tstep]. destruct au as [u|]; [|intros H; inversion H; subst; intros [E|[]]; discriminate].
  destruct cid as [c|]; [|intros H; inversion H; subst; intros [E|[]]; discriminate].
  destruct (tlocked s); [intros H; inversion H; subst; intros [E|[]]; discriminate|].
  destruct (owner_of c (tallocs s)) as [[a x]|] eqn:Ho; [|intros H; inversion H; subst; intros [E|[]]; discriminate].
  destruct (N.eqb_spec (ta_user a) u); cbn [negb orb]; [|intros H; inversion H; subst; intros [E|[]]; discriminate].
  destruct (tc_bound x) eqn:Hb; [intros H; inversion H; subst; intros [E|[]]; discriminate|].
  intros H; inversion H; subst. intros [E|[]]. inversion E; subst. exists (ta_user a), a, x. auto 10.
Qed.

Theorem bound_cannot_bind_again s dc tid u k a x :
  tlocked s = false -> owner_of k (tallocs s) = Some (a, x) -> tc_bound x = true ->
  tstep s (TConnBind dc tid (Some u) (Some k)) = (s, [TBindError dc tid 400]).
Proof. intros Hl Ho Hb. cbn [tstep]. rewrite Hl, Ho, Hb. rewrite orb_true_r. reflexivity. Qed.

Theorem wrong_user_cannot_bind s dc tid u k a x :
  tlocked s = false -> owner_of k (tallocs s) = Some (a, x) -> ta_user a <> u ->
  tstep s (TConnBind dc tid (Some u) (Some k)) = (s, [TBindError dc tid 400]).
Proof. intros Hl Ho Hu. cbn [tstep]. rewrite Hl, Ho. destruct (N.eqb_spec (ta_user a) u); [contradiction|]. reflexivity. Qed.

(* bytes cross only a bound pair, unmodified, to the other side *)
Theorem data_only_through_bound_pair s k fc d s' acts k' toc d' :
  tstep s (TData k fc d) = (s', acts) -> In (TDeliver k' toc d') acts ->
  s' = s /\ k' = k /\ toc = negb fc /\ d' = d /\ exists a x, owner_of k (tallocs s) = Some (a, x) /\ tc_bound x = true.
Proof.
  cbn [tstep]. destruct (owner_of k (tallocs s)) as [[a x]|] eqn:Ho; [|intros H; inversion H; subst; intros []].
  destruct (tc_bound x) eqn:Hb; intros H; inversion H; subst; [|intros []].
  intros [E|[]]. inversion E; subst. repeat split; eauto.
Qed.

(* the 30 s deadline: a tick drops exactly the unbound connections whose deadline has passed, closing the peer side *)
Theorem tick_expires_unbound s dt a x :
  In a (tallocs s) -> In x (ta_conns a) ->
  let t := tnow s + Z.max 0 dt in
  (tc_bound x = false /\ tc_dl x <= t -> In (TPeerClosed (ta_relay a) (tc_peer x)) (snd (tstep s (TTick dt)))) /\
  (tc_bound x = true \/ t < tc_dl x ->
     exists a', In a' (tallocs (fst (tstep s (TTick dt)))) /\ ta_client a' = ta_client a /\ In x (ta_conns a')).
Proof.
  intros Ha Hx. cbn zeta. split.
  - intros [Hb Hd]. cbn [tstep snd]. apply in_flat_map. exists a. split; [assumption|]. apply in_map_iff. exists x. split; [reflexivity|].
    apply filter_In. split; [assumption|]. rewrite Hb. cbn. apply Z.leb_le. assumption.
  - intros H. cbn [tstep fst tallocs]. eexists. split; [apply in_map; exact Ha|]. cbn. split; [reflexivity|].
    apply filter_In. split; [assumption|]. destruct H as [H|H]; [rewrite H; reflexivity|].
    destruct (tc_bound x); cbn; [reflexivity|]. destruct (Z.leb_spec (tc_dl x) (tnow s + Z.max 0 dt)); [lia|reflexivity].
Qed.

(* ---------- the invariant: ids unique, manager never left locked, unbound connections not past their deadline ---------- *)
Lemma all_ids_app l1 l2 : all_ids (l1 ++ l2) = all_ids l1 ++ all_ids l2.
Proof. unfold all_ids. apply flat_map_app. Qed.

Lemma all_ids_treplace_incl a' l k : In k (all_ids (treplace a' l)) -> In k (map tc_id (ta_conns a')) \/ In k (all_ids l).
Proof.
  unfold all_ids. rewrite !in_flat_map. intros (y & Hy & Hk). apply treplace_in in Hy as [->|Hy]; [left; assumption|right; eauto].
Qed.

Lemma tinv_init : tinv tinit.
Proof. repeat split; cbn; [constructor|intros ? ? []]. Qed.


(* ---------- connection ids are unique across all allocations ---------- *)
Theorem announced_id_is_new_connect s c tid au peer v dial cid s' acts dst tid' k :
  tstep s (TConnect c tid au peer v dial cid) = (s', acts) -> In (TSuccess dst MConnect tid' (Some k)) acts ->
  k = cid /\ has_conn_id cid (tallocs s) = false /\ dial = true /\ v = false /\
  exists a p, tfind c (tallocs s) = Some a /\ au = Some (ta_user a) /\ peer = Some p /\ has_conn_peer p a = false /\
    tallocs s' = treplace (set_conns a (ta_conns a ++ [{| tc_id := cid; tc_peer := p; tc_bound := false; tc_dl := tnow s + bind_timeout; tc_data := None |}])) (tallocs s).
Proof.
  cbn [tstep]. destruct au as [u|]; [|intros H; inversion H; subst; intros [E|[]]; discriminate].
  destruct (tfind c (tallocs s)) as [a|] eqn:Hf; [|intros H; inversion H; subst; intros []].
  destruct (N.eqb_spec (ta_user a) u) as [Eu|Eu]; cbn [negb]; [|intros H; inversion H; subst; intros []].
  destruct peer as [p|]; [|intros H; inversion H; subst; intros [E|[]]; discriminate].
  destruct v; [intros H; inversion H; subst; intros [E|[]]; discriminate|].
  destruct (port p =? 0)%N; [intros H; inversion H; subst; intros []|].
  destruct (tlocked s); [intros H; inversion H; subst; intros [E|[]]; discriminate|].
  destruct (has_conn_peer p a) eqn:Hd; [intros H; inversion H; subst; intros [E|[]]; discriminate|].
  destruct dial; cbn [negb]; [|intros H; inversion H; subst; intros [E|[]]; discriminate].
  destruct (has_conn_id cid (tallocs s)) eqn:Hc; [intros H; inversion H; subst; intros [E|[]]; discriminate|].
  intros H; inversion H; subst. intros [E|[]]. inversion E; subst. repeat split; auto. exists a, p. auto 10.
Qed.

(* the manager is never left locked, whatever happens *)
Theorem never_left_locked s e : tlocked s = false -> tlocked (fst (tstep s e)) = false.
Proof.
  intros Hl. destruct e; cbn [tstep];
    repeat (match goal with |- context [match ?x with _ => _ end] => destruct x eqn:? end);
    cbn; try congruence; try assumption.
Qed.

Theorem never_left_locked_run h : forall s, tlocked s = false -> tlocked (fst (trun s h)) = false.
Proof.
  induction h as [|e h IH]; intros s Hl; [assumption|]. cbn [trun].
  destruct (tstep s e) as [s1 a] eqn:Hs. destruct (trun s1 h) as [s2 as_] eqn:Hr. cbn.
  pose proof (never_left_locked s e Hl) as H1. rewrite Hs in H1. specialize (IH s1 H1). rewrite Hr in IH. exact IH.
Qed.
