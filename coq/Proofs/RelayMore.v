(* Further step-level facts about Model/Relay.v used by C03, C06, C07, C19. *)
From Turn Require Import Bytes ChanData Relay RelayBase RelayInv RelayGates RelayLocal.
From Coq Require Import ZifyN ZifyNat ZifyBool.
Open Scope Z_scope.

(* ---------- CreatePermission success: every named IP gets the full timeout, nothing else moves ---------- *)
Lemma install_perms_deadlines dl peers : forall a a' ev,
  install_perms a dl peers = (a', ev) ->
  (forall p, In (PeerOk p) peers -> find_perm (ip p) (a_perms a') = Some {| p_ip := ip p; p_dl := dl |}) /\
  (forall j, ~ In j (flat_map (fun q => match q with PeerOk x => [ip x] | PeerBad => [] end) peers) ->
             find_perm j (a_perms a') = find_perm j (a_perms a)) /\
  a_chans a' = a_chans a /\ a_dl a' = a_dl a /\ a_client a' = a_client a /\ a_relay a' = a_relay a.
Proof.
  induction peers as [|q peers IH]; cbn [install_perms]; intros a a' ev H.
  - inversion H; subst. repeat split; auto. intros p [].
  - destruct q as [q|].
    + destruct (add_perm a (ip q) dl) as [a1 e1] eqn:H1. destruct (install_perms a1 dl peers) as [a2 e2] eqn:H2.
      inversion H; subst; clear H. unfold add_perm in H1. inversion H1; subst a1 e1; clear H1.
      destruct (IH _ _ _ H2) as (I1 & I2 & I3 & I4 & I5 & I6). cbn in *. repeat split; auto.
      * intros p [E|Hin]; [inversion E; subst|auto].
        destruct (in_dec N.eq_dec (ip p) (flat_map (fun q => match q with PeerOk x => [ip x] | PeerBad => [] end) peers)) as [Hi|Hi].
        -- apply in_flat_map in Hi as (y & Hy & Hy'). destruct y as [y|]; [|destruct Hy']. destruct Hy' as [E2|[]].
           rewrite <- E2. apply I1. assumption.
        -- rewrite I2 by assumption. apply upsert_perm_found.
      * intros j Hj. rewrite I2 by (intros Hx; apply Hj; right; assumption).
        apply upsert_perm_other. intros E. apply Hj. left. auto.
    + destruct (IH _ _ _ H) as (I1 & I2 & I3 & I4 & I5 & I6). repeat split; auto.
      intros p [E|Hin]; [discriminate|auto].
Qed.

Theorem create_perm_success cfg s src tid uid peers s' acts :
  NoDup (map a_client (allocs s)) ->
  h_create_perm cfg s src tid uid peers = (s', acts) -> In (Success src MCreatePerm tid []) acts ->
  exists a a', owned_alloc s src uid = Some a /\ find_alloc src (allocs s') = Some a' /\
    peers <> [] /\ perm_check cfg a peers = None /\
    (forall p, In (PeerOk p) peers ->
        find_perm (ip p) (a_perms a') = Some {| p_ip := ip p; p_dl := now s + cfg_perm_timeout cfg |}) /\
    (forall j, ~ In j (flat_map (fun q => match q with PeerOk x => [ip x] | PeerBad => [] end) peers) ->
        find_perm j (a_perms a') = find_perm j (a_perms a)) /\
    a_chans a' = a_chans a /\ a_dl a' = a_dl a.
Proof.
  intros Hnd H Hin. unfold h_create_perm in H.
  destruct (owned_alloc s src uid) as [a|] eqn:Ho; [|inversion H; subst; destruct Hin].
  destruct (perm_check cfg a peers) eqn:Hpc; [inversion H; subst; cbn in Hin; intuition discriminate|].
  destruct peers as [|q peers]; [inversion H; subst; cbn in Hin; intuition discriminate|].
  destruct (install_perms a _ (q :: peers)) as [a' evs] eqn:Hi. inversion H; subst; clear H.
  destruct (install_perms_deadlines _ _ _ _ _ Hi) as (I1 & I2 & I3 & I4 & I5 & I6).
  exists a, a'. split; [reflexivity|]. split.
  - cbn. unfold owned_alloc in Ho. destruct (find_alloc src (allocs s)) as [a0|] eqn:Hf; [|discriminate].
    destruct (N.eqb_spec (a_user a0) uid); [|discriminate]. inversion Ho; subst a0.
    pose proof (find_alloc_some _ _ _ Hf) as [_ Hc].
    clear -Hf I5 Hc. induction (allocs s) as [|x l IH]; cbn in *; [discriminate|].
    rewrite I5, Hc. destruct (addr_eqb (a_client x) src) eqn:E; cbn.
    + rewrite I5, Hc, addr_eqb_refl. reflexivity.
    + rewrite E. apply IH. assumption.
  - repeat split; auto. discriminate.
Qed.

(* ---------- Allocate on a 5-tuple that already has an allocation ---------- *)
Theorem allocate_existing cfg s src tid c tr lt fam df rp ep rt mt a uid :
  authenticate cfg s c = AuthOK uid -> find_alloc src (allocs s) = Some a ->
  step cfg s (EReq src tid c (RqAllocate tr lt fam df rp ep rt mt) false) =
    (s, if (a_tid a =? tid)%N then [Success src MAllocate tid (a_cache a)] else [Error src MAllocate tid 437%N false]).
Proof.
  intros Ha Hf. cbn [step]. rewrite Ha. unfold h_allocate. rewrite Hf. destruct (a_tid a =? tid)%N; reflexivity.
Qed.

(* an Allocate on a 5-tuple that holds an allocation: the only error answers are 420 (unknown comprehension-required
   attribute), what authentication decides (400 / 401 / 438) and 437 *)
Theorem allocate_held_error_codes cfg s src tid c tr lt fam df rp ep rt mt unk s' acts a code ch :
  step cfg s (EReq src tid c (RqAllocate tr lt fam df rp ep rt mt) unk) = (s', acts) -> find_alloc src (allocs s) = Some a ->
  In (Error src MAllocate tid code ch) acts ->
  (unk = true /\ code = 420%N) \/ code = 437%N \/ code = 400%N \/ code = 401%N \/ code = 438%N.
Proof.
  intros H Hf Hin. destruct unk.
  - cbn [step] in H. inversion H; subst. destruct Hin as [E|[]]. inversion E. auto.
  - destruct (authenticate cfg s c) as [uid|code' ch'] eqn:Ha.
    + rewrite (allocate_existing _ _ _ _ _ _ _ _ _ _ _ _ _ _ _ Ha Hf) in H. inversion H; subst.
      destruct (a_tid a =? tid)%N; destruct Hin as [E|[]]; inversion E. auto.
    + cbn [step] in H. rewrite Ha in H. inversion H; subst. destruct Hin as [E|[]]. inversion E; subst.
      unfold authenticate in Ha. repeat (match type of Ha with context [match ?x with _ => _ end] => destruct x end); inversion Ha; auto.
Qed.

Theorem binding_truthful cfg s src tid c :
  step cfg s (EReq src tid c RqBinding false) = (s, [Success src MBinding tid [SMapped src]]).
Proof. reflexivity. Qed.

Theorem unknown_attributes_420 cfg s src tid c r :
  step cfg s (EReq src tid c r true) = (s, [Error src (req_method r) tid 420%N false]).
Proof. reflexivity. Qed.

(* ---------- challenges: the nonce handed out now is accepted for the next hour ---------- *)
Theorem fresh_nonce_accepted s s' :
  epoch_min s' = epoch_min s -> now s <= now s' -> now s' - now s <= 3600 * sec ->
  nonce_valid s' (NonceMinted (cur_minute s)) = true.
Proof.
  intros He Hle Hd. unfold nonce_valid, cur_minute, sec in *. rewrite He.
  apply andb_true_iff. split; [apply Z.leb_le|apply Z.leb_le].
  - apply Zplus_le_compat_l. apply Z.div_le_mono; lia.
  - assert (now s' / (60 * 1000000000) - now s / (60 * 1000000000) <= 60); [|lia].
    pose proof (Z.div_mod (now s') (60 * 1000000000)). pose proof (Z.div_mod (now s) (60 * 1000000000)).
    pose proof (Z.mod_pos_bound (now s') (60 * 1000000000)). pose proof (Z.mod_pos_bound (now s) (60 * 1000000000)). lia.
Qed.

Theorem stale_nonce_rejected s m : 60 < cur_minute s - m -> nonce_valid s (NonceMinted m) = false.
Proof. intros H. unfold nonce_valid. apply andb_false_iff. right. apply Z.leb_gt. lia. Qed.

Theorem future_nonce_rejected s m : cur_minute s < m -> nonce_valid s (NonceMinted m) = false.
Proof. intros H. unfold nonce_valid. apply andb_false_iff. left. apply Z.leb_gt. lia. Qed.

(* ---------- once an allocation is gone, nothing relays through it ---------- *)
Theorem gone_is_gone_client cfg s src :
  find_alloc src (allocs s) = None ->
  (forall p d, step cfg s (ESend src p d) = (s, [])) /\ (forall n d, step cfg s (EChanData src n d) = (s, [])).
Proof.
  intros Hf. split; intros; cbn [step].
  - unfold h_send. rewrite Hf. reflexivity.
  - unfold h_chandata. rewrite Hf. destruct (_ <=? _)%N; reflexivity.
Qed.

Theorem gone_is_gone_relay cfg s relay from d :
  find_relay relay (allocs s) = None -> step cfg s (EPeer relay from d) = (s, []).
Proof. intros Hf. cbn [step]. unfold h_peer. rewrite Hf. reflexivity. Qed.

(* a new allocation starts with empty tables whatever the relay port served before *)
Theorem new_allocation_is_empty cfg s src tid c tr lt fam df rp ep rt mt s' acts attrs :
  step cfg s (EReq src tid c (RqAllocate tr lt fam df rp ep rt mt) false) = (s', acts) ->
  In (Success src MAllocate tid attrs) acts -> find_alloc src (allocs s) = None ->
  exists a, allocs s' = allocs s ++ [a] /\ a_perms a = [] /\ a_chans a = [].
Proof.
  intros H Hin Hn. destruct (allocate_success _ _ _ _ _ _ _ _ _ _ _ _ _ _ _ _ H Hin Hn) as (a & relay & H1 & _ & _ & H4 & H5 & _).
  exists a. auto.
Qed.

(* ---------- corollaries packaged for the Properties files ---------- *)
Theorem present_is_unexpired cfg ep h : cfg_positive cfg ->
  Forall (alloc_live (now (final cfg (init ep) h))) (allocs (final cfg (init ep) h)).
Proof. intros Hpos. apply (dl_inv_run cfg h Hpos (init ep)). constructor. Qed.

Theorem veto_and_family_invariant cfg ep h a :
  In a (allocs (final cfg (init ep) h)) ->
  (forall i, In i (map p_ip (a_perms a)) ->
     cfg_policy cfg (a_client a) i = true /\ ip_matches_family i (a_fam a) = true) /\
  (forall p, In p (map c_peer (a_chans a)) ->
     cfg_policy cfg (a_client a) (ip p) = true /\ ip_matches_family (ip p) (a_fam a) = true).
Proof.
  intros Hin. destruct (inv_reachable cfg ep h) as [_ Hall].
  rewrite Forall_forall in Hall. destruct (Hall a Hin) as (_ & _ & _ & _ & H5 & H6). split; assumption.
Qed.

Theorem unique_per_five_tuple cfg ep h : NoDup (map a_client (allocs (final cfg (init ep) h))).
Proof. exact (proj1 (inv_reachable cfg ep h)). Qed.

Theorem send_uses_own_allocation cfg s src peer data s' acts r d x :
  step cfg s (ESend src peer data) = (s', acts) -> In (ToPeer r d x) acts ->
  exists a, find_alloc src (allocs s) = Some a /\ r = a_relay a.
Proof.
  intros H Hin. cbn [step] in H.
  apply h_send_spec in H as [_ [->|(a & p & dd & pm & -> & _ & _ & Hf & _)]]; [destruct Hin|].
  destruct Hin as [Hin|[]]. inversion Hin; subst. eauto.
Qed.

Theorem chandata_uses_own_allocation cfg s src n dat s' acts r d x :
  step cfg s (EChanData src n dat) = (s', acts) -> In (ToPeer r d x) acts ->
  exists a c, find_alloc src (allocs s) = Some a /\ r = a_relay a /\ find_chan_num n (a_chans a) = Some c /\ d = c_peer c.
Proof.
  intros H Hin. cbn [step] in H.
  apply h_chandata_spec in H as [_ [->|(a & c & -> & Hf & Hc & _)]]; [destruct Hin|].
  destruct Hin as [Hin|[]]. inversion Hin; subst. exists a, c. auto.
Qed.

Theorem peer_traffic_to_owner_only cfg s relay from d s' acts x :
  step cfg s (EPeer relay from d) = (s', acts) -> In x acts ->
  exists a, find_relay relay (allocs s) = Some a /\
    ((exists n, x = ChanDataOut (a_client a) n d) \/ x = DataInd (a_client a) from d).
Proof.
  intros H Hin. cbn [step] in H.
  apply h_peer_spec in H as [_ [->|(a & Hf & _ & _ & [(c & _ & ->)|(_ & pm & _ & ->)])]]; [destruct Hin| |];
    destruct Hin as [<-|[]]; eauto.
Qed.

Theorem bijection_and_range cfg ep h a :
  In a (allocs (final cfg (init ep) h)) ->
  NoDup (map c_num (a_chans a)) /\ NoDup (map c_peer (a_chans a)) /\
  (forall c, In c (a_chans a) -> valid_chan (c_num c) = true).
Proof.
  intros Hin. destruct (inv_reachable cfg ep h) as [_ Hall]. rewrite Forall_forall in Hall.
  destruct (Hall a Hin) as (_ & H2 & H3 & H4 & _). auto.
Qed.

Theorem emitted_numbers_in_range cfg ep h relay from d s' acts dst n x :
  step cfg (final cfg (init ep) h) (EPeer relay from d) = (s', acts) -> In (ChanDataOut dst n x) acts ->
  valid_chan n = true.
Proof.
  intros H Hin. cbn [step] in H.
  apply h_peer_spec in H as [_ [->|(a & Hf & _ & _ & [(c & Hc & ->)|(_ & pm & _ & ->)])]]; [destruct Hin| |];
    destruct Hin as [Hin|[]]; inversion Hin; subst.
  apply find_relay_some in Hf as [Ha _]. apply find_chan_peer_some in Hc as [Hcin _].
  destruct (inv_reachable cfg ep h) as [_ Hall]. rewrite Forall_forall in Hall.
  destruct (Hall a Ha) as (_ & _ & _ & H4 & _). auto.
Qed.

Theorem out_of_range_rejected cfg s src tid uid n p a :
  owned_alloc s src uid = Some a -> valid_chan n = false ->
  h_channel_bind cfg s src tid uid (APresent n) (Some (PeerOk p)) = (s, [Error src MChannelBind tid 400%N false]).
Proof. intros Ho Hv. unfold h_channel_bind. rewrite Ho, Hv. reflexivity. Qed.

(* ---------- EVEN-PORT and RESERVATION-TOKEN ---------- *)
(* an Allocate with EVEN-PORT that succeeds got an even relayed port, reports the minted token, and records the
   reservation of the next-higher port for 30 s *)
Theorem allocate_evenport cfg s src tid c tr lt fam df rp rt mt s' acts attrs :
  step cfg s (EReq src tid c (RqAllocate tr lt fam df rp true rt mt) false) = (s', acts) ->
  In (Success src MAllocate tid attrs) acts -> find_alloc src (allocs s) = None ->
  exists p, rp = Some p /\ N.even p = true /\ In (SToken mt) attrs /\
            rsvs s' = rsvs s ++ [{| r_tok := mt; r_port := p; r_dl := now s + rsv_lifetime |}].
Proof.
  cbn [step]. intros H Hin Hnone.
  destruct (authenticate cfg s c) as [uid|code ch] eqn:Ha; [|inversion H; subst; cbn in Hin; intuition discriminate].
  unfold h_allocate in H. rewrite Hnone in H.
  repeat (dmatch H; try (inversion H; subst; cbn in Hin; intuition discriminate)).
  all: inversion H; subst; cbn in Hin; destruct Hin as [Hin|[Hin|[]]]; try discriminate; inversion Hin; subst.
  all: eexists; cbn; repeat split; eauto.
  all: match goal with E : (true && negb _) = false |- _ => cbn in E; destruct (N.even _) eqn:Ev; [reflexivity|discriminate] end.
Qed.

(* an Allocate carrying a well-sized RESERVATION-TOKEN succeeds only without EVEN-PORT, for a token with a live
   reservation, and on exactly the reserved port (the one above the even port) *)
Theorem allocate_with_token cfg s src tid c tr lt fam df rp ep t mt s' acts attrs :
  step cfg s (EReq src tid c (RqAllocate tr lt fam df rp ep (APresent t) mt) false) = (s', acts) ->
  In (Success src MAllocate tid attrs) acts -> find_alloc src (allocs s) = None ->
  ep = false /\ exists r, find_rsv t (rsvs s) = Some r /\ rp = Some (r_port r + 1)%N.
Proof.
  cbn [step]. intros H Hin Hnone.
  destruct (authenticate cfg s c) as [uid|code ch] eqn:Ha; [|inversion H; subst; cbn in Hin; intuition discriminate].
  unfold h_allocate in H. rewrite Hnone in H.
  repeat (dmatch H; try (inversion H; subst; cbn in Hin; intuition discriminate)).
  all: match goal with E : match find_rsv ?t ?l with _ => _ end = inl _ |- _ =>
         destruct (find_rsv t l) as [r|] eqn:Fr; [|discriminate]; inversion E; subst; clear E end.
  all: split; [reflexivity|]; exists r; split; [reflexivity|].
  all: match goal with E : negb (_ =? _)%N = false |- _ => apply Bool.negb_false_iff, N.eqb_eq in E; subst; reflexivity end.
Qed.

(* reservations expire exactly 30 s after they were made: a tick keeps one iff the new time is before its deadline *)
Theorem reservation_expiry s dt s' acts r :
  h_tick s dt = (s', acts) -> (In r (rsvs s') <-> In r (rsvs s) /\ now s + Z.max 0 dt < r_dl r).
Proof.
  unfold h_tick. destruct (tick_allocs (now s + Z.max 0 dt) (allocs s)) as [l evs]. intros H. inversion H; subst; clear H. cbn.
  rewrite filter_In. split; intros [A B]; split; auto; lia.
Qed.
