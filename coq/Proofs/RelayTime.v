(* C06 at the level of whole histories: the specification the correspondence evaluates on the implementation's observed
   traces - "an allocation exists exactly until the last LIFETIME the server reported for it has elapsed", computed from
   the success responses alone (Check/RelayProps.chk_C06) - holds on EVERY trace of the model. This is a refinement
   proof: the table of expiry instants that chk_C06 reconstructs from the responses is, after every step, a permutation
   of the deadlines the model's allocations carry. *)
From Turn Require Import Bytes BytesP ChanData Relay RelayBase RelayInv RelayGates RelayLocal RelayMore RelayBalance.
From Turn Require Import Common RelayCheck RelayProps RelayTrace.
From Coq Require Import ZifyN ZifyNat ZifyBool Permutation.
Open Scope Z_scope.

(* ---------- permutations and counting ---------- *)
Lemma Permutation_filter' {A} (f : A -> bool) l l' : Permutation l l' -> Permutation (filter f l) (filter f l').
Proof.
  induction 1 as [|x l l' H IH|x y l|l l' l'' H1 IH1 H2 IH2]; cbn.
  - constructor.
  - destruct (f x); [constructor|]; exact IH.
  - destruct (f x), (f y); try apply perm_swap; apply Permutation_refl.
  - eapply perm_trans; eauto.
Qed.

Section Count.
  Context {A : Type} (eqb : A -> A -> bool).
  Lemma count_perm x l l' : Permutation l l' -> count eqb x l = count eqb x l'.
  Proof. intros H. unfold count. apply Permutation_length. apply Permutation_filter'. exact H. Qed.

  Lemma mset_eqb_perm l l' : Permutation l l' -> mset_eqb eqb l l' = true.
  Proof.
    intros H. unfold mset_eqb. rewrite (Permutation_length H), Nat.eqb_refl. cbn.
    apply forallb_forall. intros x _. rewrite (count_perm x _ _ H). apply Nat.eqb_refl.
  Qed.
End Count.

(* ---------- association lists ---------- *)
Lemma adel_filter {V} c (l : list (addr * V)) : adel addr_eqb c l = filter (fun kv => negb (addr_eqb c (fst kv))) l.
Proof. induction l as [|[k v] l IH]; cbn; [reflexivity|]. destruct (addr_eqb c k); cbn; rewrite IH; reflexivity. Qed.

Lemma aget_none_keys {V} c (l : list (addr * V)) : aget addr_eqb c l = None <-> ~ In c (map fst l).
Proof.
  induction l as [|[k v] l IH]; cbn; [tauto|]. destruct (addr_eqb c k) eqn:E.
  - apply addr_eqb_eq in E. subst. split; [discriminate|]. intros H. exfalso. apply H. auto.
  - apply addr_eqb_neq in E. rewrite IH. split; intros H; [intros [H1|H1]; [congruence|auto]|auto].
Qed.

Lemma adel_absent {V} c (l : list (addr * V)) : ~ In c (map fst l) -> adel addr_eqb c l = l.
Proof.
  induction l as [|[k v] l IH]; cbn; [reflexivity|]. intros H. destruct (addr_eqb c k) eqn:E.
  - apply addr_eqb_eq in E. subst. exfalso. apply H. auto.
  - rewrite IH; [reflexivity|]. intros Hin. apply H. auto.
Qed.

(* ---------- the model's deadline table ---------- *)
Definition dlmap (l : list alloc) : list (addr * Z) := map (fun a => (a_client a, a_dl a)) l.

Lemma dlmap_keys l : map fst (dlmap l) = map a_client l.
Proof. unfold dlmap. rewrite map_map. reflexivity. Qed.

Lemma dlmap_remove c l : NoDup (map a_client l) ->
  dlmap (remove_alloc c l) = filter (fun kv => negb (addr_eqb c (fst kv))) (dlmap l).
Proof.
  induction l as [|x l IH]; cbn; [reflexivity|]. intros Hnd. inversion Hnd as [|? ? Hx Hl]; subst.
  rewrite (addr_eqb_sym c). destruct (addr_eqb (a_client x) c) eqn:E; cbn.
  - apply addr_eqb_eq in E. subst c. symmetry. clear IH Hl Hnd.
    induction l as [|y l IH]; cbn; [reflexivity|]. destruct (addr_eqb (a_client x) (a_client y)) eqn:E2.
    + apply addr_eqb_eq in E2. exfalso. apply Hx. rewrite E2. left. reflexivity.
    + cbn. f_equal. apply IH. intros Hin. apply Hx. right. exact Hin.
  - f_equal. apply IH. exact Hl.
Qed.

Lemma dlmap_replace a a' l : In a l -> NoDup (map a_client l) -> a_client a' = a_client a ->
  Permutation (dlmap (replace_alloc a' l)) ((a_client a', a_dl a') :: dlmap (remove_alloc (a_client a) l)).
Proof.
  induction l as [|x l IH]; cbn; [contradiction|]. intros Hin Hnd Hc. inversion Hnd as [|? ? Hx Hl]; subst.
  rewrite Hc. destruct (addr_eqb (a_client x) (a_client a)) eqn:E; cbn.
  - rewrite Hc. apply Permutation_refl.
  - destruct Hin as [->|Hin]; [rewrite addr_eqb_refl in E; discriminate|].
    eapply perm_trans; [apply perm_skip; apply IH; assumption|]. rewrite Hc. apply perm_swap.
Qed.

Lemma dlmap_replace_same a a' l : In a l -> NoDup (map a_client l) -> a_client a' = a_client a -> a_dl a' = a_dl a ->
  dlmap (replace_alloc a' l) = dlmap l.
Proof.
  induction l as [|x l IH]; cbn; [contradiction|]. intros Hin Hnd Hc Hd. inversion Hnd as [|? ? Hx Hl]; subst.
  destruct (addr_eqb (a_client x) (a_client a')) eqn:E; cbn.
  - apply addr_eqb_eq in E. destruct Hin as [->|Hin]; [congruence|].
    exfalso. apply Hx. rewrite E, Hc. apply in_map. exact Hin.
  - f_equal. destruct Hin as [->|Hin]; [apply addr_eqb_neq in E; congruence|]. apply IH; assumption.
Qed.

Lemma tick_allocs_dlmap t l : forall l' ev, tick_allocs t l = (l', ev) -> dlmap l' = filter (fun cd => t <? snd cd) (dlmap l).
Proof.
  induction l as [|a l IH]; cbn [tick_allocs]; intros l' ev H; [inversion H; reflexivity|].
  destruct (tick_alloc t a) as [oa e1] eqn:H1. destruct (tick_allocs t l) as [r e2] eqn:H2.
  inversion H; subst; clear H. cbn [dlmap map filter snd]. unfold tick_alloc in H1.
  destruct (Z.leb_spec (a_dl a) t); inversion H1; subst; clear H1.
  - destruct (Z.ltb_spec t (a_dl a)); [lia|]. eapply IH. reflexivity.
  - destruct (Z.ltb_spec t (a_dl a)); [|lia]. cbn. f_equal. eapply IH. reflexivity.
Qed.

(* all deadlines of a live state lie in the future: the final filter of c06_update keeps everything *)
Lemma filter_live exp s : Permutation exp (dlmap (allocs s)) -> dl_inv s -> filter (fun ce => now s <? snd ce) exp = exp.
Proof.
  intros Hp Hd. assert (F : forall x, In x exp -> (now s <? snd x) = true).
  { intros [c d] Hin. apply (Permutation_in _ Hp) in Hin. apply in_map_iff in Hin as (a & E & Ha). inversion E; subst.
    unfold dl_inv in Hd. rewrite Forall_forall in Hd. destruct (Hd _ Ha) as [H _]. cbn. apply Z.ltb_lt. exact H. }
  clear Hp. induction exp as [|x l IH]; cbn; [reflexivity|]. rewrite (F x (or_introl eq_refl)). f_equal.
  apply IH. intros y Hy. apply F. right. exact Hy.
Qed.

(* ---------- what chk_C06 reads off the responses ---------- *)
Lemma success_of_life m evs l : Forall RelayGates.is_life evs -> success_of m (evs ++ l) = success_of m l.
Proof.
  unfold success_of. induction evs as [|a r IH]; intros H; [reflexivity|]. inversion H as [|? ? Ha Hl]; subst.
  destruct a; cbn in Ha; try contradiction. cbn [app find]. apply IH. exact Hl.
Qed.

Lemma success_of_life_only m evs : Forall RelayGates.is_life evs -> success_of m evs = None.
Proof. intros H. rewrite <- (app_nil_r evs), (success_of_life m evs [] H). reflexivity. Qed.

Lemma deleted_clients_close a : deleted_clients (close_events a) = [a_client a].
Proof.
  unfold close_events, deleted_clients. rewrite !flat_map_app.
  assert (Z1 : forall l, flat_map (fun x => match x with Life (LAllocDeleted c _) => [c] | _ => [] end)
                 (map (fun p => Life (LPermDeleted (a_client a) (p_ip p))) l) = []) by (induction l; cbn; auto).
  assert (Z2 : forall l, flat_map (fun x => match x with Life (LAllocDeleted c _) => [c] | _ => [] end)
                 (map (fun c => Life (LChanDeleted (a_client a) (c_peer c) (c_num c))) l) = []) by (induction l; cbn; auto).
  rewrite Z1, Z2. reflexivity.
Qed.

Lemma deleted_clients_close_all l : deleted_clients (flat_map close_events l) = map a_client l.
Proof.
  induction l as [|a l IH]; [reflexivity|]. cbn [flat_map map]. unfold deleted_clients in *. rewrite flat_map_app.
  fold (deleted_clients (close_events a)). rewrite deleted_clients_close, IH. reflexivity.
Qed.

Lemma adel_keys {V} c (l : list (addr * V)) x : In x (map fst (adel addr_eqb c l)) -> In x (map fst l) /\ x <> c.
Proof.
  rewrite adel_filter. intros H. apply in_map_iff in H as (kv & <- & Hin). apply filter_In in Hin as [Hin Hne].
  split; [apply in_map; exact Hin|]. intros E. rewrite E, addr_eqb_refl in Hne. discriminate.
Qed.

Lemma fold_adel_keys {V} (exp : list (addr * V)) ks x :
  In x (map fst (fold_right (fun c e => adel addr_eqb c e) exp ks)) -> In x (map fst exp) /\ ~ In x ks.
Proof.
  induction ks as [|k ks IH]; cbn [fold_right]; intros H; [split; [exact H|intros []]|].
  apply adel_keys in H as [H Hne]. apply IH in H as [H1 H2]. split; [exact H1|]. intros [E|Hc]; [congruence|contradiction].
Qed.

Lemma fold_adel_all {V} (exp : list (addr * V)) ks :
  (forall k, In k (map fst exp) -> In k ks) -> fold_right (fun c e => adel addr_eqb c e) exp ks = [].
Proof.
  intros H. destruct (fold_right (fun c e => adel addr_eqb c e) exp ks) as [|[k v] r] eqn:E; [reflexivity|exfalso].
  assert (Hin : In k (map fst (fold_right (fun c e => adel addr_eqb c e) exp ks))) by (rewrite E; left; reflexivity).
  apply fold_adel_keys in Hin as [H1 H2]. apply H2. apply H. exact H1.
Qed.

Definition cfg_seconds (cfg : config) : Prop := exists k, cfg_alloc_lifetime cfg = k * sec.

Lemma granted_whole cfg l : cfg_seconds cfg -> granted_lifetime cfg l / sec * sec = granted_lifetime cfg l.
Proof.
  intros [k Hk]. unfold granted_lifetime.
  assert (D : cfg_alloc_lifetime cfg / sec * sec = cfg_alloc_lifetime cfg) by (rewrite Hk, Z.div_mul; [reflexivity|unfold sec; lia]).
  destruct l as [| |secs]; auto. destruct (Z.of_N secs * sec <? max_lifetime); auto.
  rewrite Z.div_mul; [reflexivity|unfold sec; lia].
Qed.

Lemma now_step cfg s e s' acts : step cfg s e = (s', acts) -> now s' = now s + ev_dt e.
Proof.
  intros H. destruct e as [src tid c r unk|src p d|src n d|relay from d|dt|relay|csrc| |]; cbn [ev_dt]; rewrite ?Z.add_0_r.
  - pose proof (req_locality cfg s src tid c r unk s' acts H) as L. 
    cbn [step] in H. destruct unk; [inversion H; reflexivity|].
    destruct r as [tr lt fam df rp ep rt mt|lt fam|peers|n p|]; try (inversion H; reflexivity);
      destruct (authenticate cfg s c); try (inversion H; reflexivity).
    + unfold h_allocate in H. repeat (dmatch H; try (inversion H; reflexivity)). all: inversion H; reflexivity.
    + unfold h_refresh in H. cbv zeta in H. repeat (dmatch H; try (inversion H; reflexivity)). all: inversion H; reflexivity.
    + unfold h_create_perm in H. repeat (dmatch H; try (inversion H; reflexivity)). all: inversion H; reflexivity.
    + unfold h_channel_bind in H. repeat (dmatch H; try (inversion H; reflexivity)). all: inversion H; reflexivity.
  - cbn [step] in H. apply h_send_spec in H as [-> _]. reflexivity.
  - cbn [step] in H. apply h_chandata_spec in H as [-> _]. reflexivity.
  - cbn [step] in H. apply h_peer_spec in H as [-> _]. reflexivity.
  - cbn [step] in H. unfold h_tick in H. destruct (tick_allocs _ _). inversion H; reflexivity.
  - cbn [step] in H. unfold h_relay_err in H. destruct (find_relay relay (allocs s)); inversion H; reflexivity.
  - cbn [step] in H. unfold h_ctl_close in H. destruct (find_alloc csrc (allocs s)); inversion H; reflexivity.
  - cbn [step] in H. inversion H; reflexivity.
  - cbn [step] in H. inversion H; reflexivity.
Qed.

Lemma add_perm_dl a i dl a' ev : add_perm a i dl = (a', ev) -> a_dl a' = a_dl a /\ a_client a' = a_client a.
Proof. unfold add_perm. intros H. inversion H; subst. cbn. auto. Qed.

Lemma install_perms_dl dl peers : forall a a' ev, install_perms a dl peers = (a', ev) -> a_dl a' = a_dl a /\ a_client a' = a_client a.
Proof.
  induction peers as [|[p|] r IH]; cbn [install_perms]; intros a a' ev H.
  - inversion H; subst. auto.
  - destruct (add_perm a (ip p) dl) as [a1 e1] eqn:H1. destruct (install_perms a1 dl r) as [a2 e2] eqn:H2.
    inversion H; subst. apply add_perm_dl in H1 as [A B]. apply IH in H2 as [C D]. split; congruence.
  - eapply IH; eauto.
Qed.

Section C06.
  Variable cfg : config.
  Hypothesis Hsec : cfg_seconds cfg.
  Hypothesis Hpos : cfg_positive cfg.

  Lemma keys_perm exp l c : Permutation exp (dlmap l) -> (aget addr_eqb c exp = None <-> find_alloc c l = None).
  Proof.
    intros Hp. rewrite aget_none_keys, find_alloc_none, <- dlmap_keys.
    split; intros H Hin; apply H.
    - eapply Permutation_in; [apply Permutation_map; apply Permutation_sym; exact Hp|exact Hin].
    - eapply Permutation_in; [apply Permutation_map; exact Hp|exact Hin].
  Qed.

  Lemma adel_perm exp l c : NoDup (map a_client l) -> Permutation exp (dlmap l) ->
    Permutation (adel addr_eqb c exp) (dlmap (remove_alloc c l)).
  Proof. intros Hnd Hp. rewrite adel_filter, dlmap_remove by exact Hnd. apply Permutation_filter'. exact Hp. Qed.

  (* requests that are neither Allocate nor Refresh leave every allocation's deadline alone *)
  Lemma dlmap_create_perm s src tid uid peers s' acts : inv cfg s ->
    h_create_perm cfg s src tid uid peers = (s', acts) -> dlmap (allocs s') = dlmap (allocs s).
  Proof.
    intros [Hnd _] H. unfold h_create_perm in H.
    destruct (owned_alloc s src uid) as [a|] eqn:Ho; [|inversion H; reflexivity].
    apply owned_alloc_some in Ho as (Ha & _ & _).
    destruct (perm_check cfg a peers); [inversion H; reflexivity|].
    destruct peers as [|q peers]; [inversion H; reflexivity|].
    destruct (install_perms a (now s + cfg_perm_timeout cfg) (q :: peers)) as [a1 evs] eqn:Hi.
    inversion H; subst; clear H. cbn [allocs set_allocs]. apply install_perms_dl in Hi as [A B].
    eapply dlmap_replace_same; eauto.
  Qed.

  Lemma dlmap_channel_bind s src tid uid num peer s' acts : inv cfg s ->
    h_channel_bind cfg s src tid uid num peer = (s', acts) -> dlmap (allocs s') = dlmap (allocs s).
  Proof.
    intros [Hnd _] H. unfold h_channel_bind in H.
    destruct (owned_alloc s src uid) as [a|] eqn:Ho; [|inversion H; reflexivity].
    apply owned_alloc_some in Ho as (Ha & _ & _).
    repeat (dmatch H; try (inversion H; reflexivity)).
    all: inversion H; subst; clear H; cbn [allocs set_allocs].
    all: match goal with E : add_perm _ _ _ = (?x, _) |- _ => apply add_perm_dl in E as [A B]; cbn in A, B end.
    all: eapply dlmap_replace_same; eauto.
  Qed.

  Lemma c06_update_perm s e s' acts exp :
    inv cfg s -> dl_inv s -> Permutation exp (dlmap (allocs s)) -> step cfg s e = (s', acts) ->
    Permutation (c06_update (now s') {| os_ev := e; os_acts := acts; os_allocs := listing_of s' |} exp) (dlmap (allocs s')).
  Proof.
    intros Hinv Hdl Hp Hs. pose proof Hinv as [Hnd _].
    pose proof (dl_inv_step _ _ _ _ _ Hpos Hdl Hs) as Hdl'. pose proof (now_step _ _ _ _ _ Hs) as Hnow.
    assert (Fin : forall exp1, Permutation exp1 (dlmap (allocs s')) ->
              Permutation (filter (fun ce => now s' <? snd ce) exp1) (dlmap (allocs s'))).
    { intros exp1 H1. rewrite (filter_live _ _ H1 Hdl'). exact H1. }
    assert (Same : s' = s -> Permutation exp (dlmap (allocs s'))) by (intros ->; exact Hp).
    unfold c06_update. cbn [os_ev os_acts].
    destruct e as [src tid c r unk|src p d|src n d|relay from d|dt|relay|csrc| |].
    - destruct r as [tr lt fam df rp ep rt mt|lt fam|peers|n p|].
      + (* Allocate *)
        apply Fin. cbn [step] in Hs. cbn [ev_dt] in Hnow. rewrite Z.add_0_r in Hnow.
        destruct unk; [inversion Hs; subst; cbn; apply Same; reflexivity|].
        destruct (authenticate cfg s c) as [uid|code ch] eqn:Ha; [|inversion Hs; subst; cbn; apply Same; reflexivity].
        destruct (find_alloc src (allocs s)) as [a|] eqn:Hf.
        * assert (Hs2 := allocate_existing cfg s src tid c tr lt fam df rp ep rt mt a uid Ha Hf). cbn [step] in Hs2. rewrite Ha in Hs2.
          rewrite Hs2 in Hs. assert (Hg : aget addr_eqb src exp <> None) by (rewrite (keys_perm _ _ _ Hp); congruence).
          destruct (a_tid a =? tid)%N; inversion Hs; subst; cbn; [|apply Same; reflexivity].
          destruct (aget addr_eqb src exp); [apply Same; reflexivity|contradiction].
        * assert (Hg : aget addr_eqb src exp = None) by (rewrite (keys_perm _ _ _ Hp); exact Hf).
          unfold h_allocate in Hs. rewrite Hf in Hs.
          repeat (dmatch Hs; try (inversion Hs; subst; cbn; apply Same; reflexivity)).
          all: inversion Hs; subst; clear Hs; cbn [success_of find method_eqb app lifetime_attr]; rewrite Hg.
          all: cbn [allocs set_allocs add_rsv now]; unfold dlmap; rewrite map_app; cbn [map a_client a_dl].
          all: rewrite granted_whole by exact Hsec; unfold aset; rewrite adel_absent by (apply aget_none_keys; exact Hg).
          all: eapply perm_trans; [apply perm_skip; exact Hp|]; apply Permutation_cons_append.
      + (* Refresh *)
        apply Fin. cbn [step] in Hs. cbn [ev_dt] in Hnow. rewrite Z.add_0_r in Hnow.
        destruct unk; [inversion Hs; subst; cbn; apply Same; reflexivity|].
        destruct (authenticate cfg s c) as [uid|code ch] eqn:Ha; [|inversion Hs; subst; cbn; apply Same; reflexivity].
        unfold h_refresh in Hs. cbv zeta in Hs.
        destruct (owned_alloc s src uid) as [a|] eqn:Ho; [|inversion Hs; subst; cbn; apply Same; reflexivity].
        apply owned_alloc_some in Ho as (Hain & Hcl & _).
        repeat (dmatch Hs; try (inversion Hs; subst; cbn; apply Same; reflexivity)).
        all: inversion Hs; subst; clear Hs; cbn [allocs set_allocs now].
        all: try (rewrite (success_of_life MRefresh _ _ (close_events_life a)); cbn [success_of find method_eqb lifetime_attr];
                  cbn [Z.eqb]; apply adel_perm; assumption).
        all: cbn [success_of find method_eqb lifetime_attr].
        all: match goal with Hz : (granted_lifetime cfg ?l =? 0) = false |- _ =>
               apply Z.eqb_neq in Hz; pose proof (granted_lifetime_pos cfg l Hpos Hz) as Hgt;
               pose proof (granted_whole cfg l Hsec) as Hw end.
        all: match goal with |- context [if (?q =? 0) then _ else _] =>
               destruct (Z.eqb_spec q 0) as [Eq|Eq]; [exfalso; rewrite Eq in Hw; cbn in Hw; lia|] end.
        all: rewrite Hw; unfold aset.
        all: eapply perm_trans; [|apply Permutation_sym; apply (dlmap_replace a); [exact Hain|exact Hnd|reflexivity]].
        all: cbn [a_client a_dl set_dl]; apply perm_skip; apply adel_perm; assumption.
      + apply Fin. cbn [step] in Hs. destruct unk; [inversion Hs; subst; apply Same; reflexivity|].
        destruct (authenticate cfg s c); [|inversion Hs; subst; apply Same; reflexivity].
        rewrite (dlmap_create_perm _ _ _ _ _ _ _ Hinv Hs). exact Hp.
      + apply Fin. cbn [step] in Hs. destruct unk; [inversion Hs; subst; apply Same; reflexivity|].
        destruct (authenticate cfg s c); [|inversion Hs; subst; apply Same; reflexivity].
        rewrite (dlmap_channel_bind _ _ _ _ _ _ _ _ Hinv Hs). exact Hp.
      + apply Fin. cbn [step] in Hs. destruct unk; inversion Hs; subst; apply Same; reflexivity.
    - apply Fin. cbn [step] in Hs. apply h_send_spec in Hs as [-> _]. exact Hp.
    - apply Fin. cbn [step] in Hs. apply h_chandata_spec in Hs as [-> _]. exact Hp.
    - apply Fin. cbn [step] in Hs. apply h_peer_spec in Hs as [-> _]. exact Hp.
    - (* a tick: exactly the allocations whose deadline has passed go *)
      cbn [step] in Hs. unfold h_tick in Hs. destruct (tick_allocs (now s + Z.max 0 dt) (allocs s)) as [l evs] eqn:Ht.
      inversion Hs; subst; clear Hs. cbn [now allocs]. rewrite (tick_allocs_dlmap _ _ _ _ Ht). apply Permutation_filter'. exact Hp.
    - apply Fin. cbn [step] in Hs. unfold h_relay_err in Hs.
      destruct (find_relay relay (allocs s)) as [a|] eqn:Hf; inversion Hs; subst; clear Hs; [|cbn; exact Hp].
      rewrite deleted_clients_close. cbn [fold_right allocs set_allocs]. apply adel_perm; assumption.
    - apply Fin. cbn [step] in Hs. unfold h_ctl_close in Hs.
      destruct (find_alloc csrc (allocs s)) as [a|] eqn:Hf; inversion Hs; subst; clear Hs; [|cbn; exact Hp].
      rewrite deleted_clients_close. cbn [fold_right allocs set_allocs]. apply adel_perm; assumption.
    - apply Fin. cbn [step] in Hs. inversion Hs; subst; clear Hs. cbn [allocs set_allocs dlmap map].
      rewrite deleted_clients_close_all, fold_adel_all; [constructor|].
      intros k Hk. rewrite <- dlmap_keys. eapply Permutation_in; [apply Permutation_map; exact Hp|exact Hk].
    - apply Fin. cbn [step] in Hs. inversion Hs; subst. exact Hp.
  Qed.
End C06.

Section C06b.
  Variable cfg : config.
  Hypothesis Hsec : cfg_seconds cfg.
  Hypothesis Hpos : cfg_positive cfg.

  (* the value a success reports follows the grant rule *)
  Lemma c06_granted_rule s e s' acts exp :
    inv cfg s -> Permutation exp (dlmap (allocs s)) -> step cfg s e = (s', acts) ->
    match e with
    | EReq src _ _ (RqAllocate _ lt _ _ _ _ _ _) _ =>
        match success_of MAllocate acts, aget addr_eqb src exp with
        | Some at_, None => opt_eqb Z.eqb (lifetime_attr at_) (Some (granted_lifetime cfg lt / sec))
        | _, _ => true end
    | EReq src _ _ (RqRefresh lt _) _ =>
        match success_of MRefresh acts with
        | Some at_ => opt_eqb Z.eqb (lifetime_attr at_) (Some (granted_lifetime cfg lt / sec))
        | None => true end
    | _ => true
    end = true.
  Proof.
    intros Hinv Hp Hs. destruct e as [src tid c r unk|? ? ?|? ? ?|? ? ?|?|?|?| |]; try reflexivity.
    destruct r as [tr lt fam df rp ep rt mt|lt fam|?|? ?|]; try reflexivity; cbn [step] in Hs.
    - destruct unk; [inversion Hs; subst; reflexivity|].
      destruct (authenticate cfg s c) as [uid|code ch] eqn:Ha; [|inversion Hs; subst; reflexivity].
      destruct (find_alloc src (allocs s)) as [a|] eqn:Hf.
      + assert (Hg : aget addr_eqb src exp <> None) by (rewrite (keys_perm _ _ _ Hp); congruence).
        destruct (success_of MAllocate acts); [|reflexivity]. destruct (aget addr_eqb src exp); [reflexivity|contradiction].
      + unfold h_allocate in Hs. rewrite Hf in Hs.
        repeat (dmatch Hs; try (inversion Hs; subst; reflexivity)).
        all: inversion Hs; subst; clear Hs; cbn [success_of find method_eqb app lifetime_attr].
        all: destruct (aget addr_eqb src exp); [reflexivity|]; cbn [opt_eqb]; apply Z.eqb_refl.
    - destruct unk; [inversion Hs; subst; reflexivity|].
      destruct (authenticate cfg s c) as [uid|code ch] eqn:Ha; [|inversion Hs; subst; reflexivity].
      unfold h_refresh in Hs. cbv zeta in Hs.
      destruct (owned_alloc s src uid) as [a|] eqn:Ho; [|inversion Hs; subst; reflexivity].
      repeat (dmatch Hs; try (inversion Hs; subst; reflexivity)).
      all: inversion Hs; subst; clear Hs.
      all: try (rewrite (success_of_life MRefresh _ _ (close_events_life a)); cbn [success_of find method_eqb lifetime_attr opt_eqb];
                match goal with Hz : (granted_lifetime cfg ?l =? 0) = true |- _ => apply Z.eqb_eq in Hz; rewrite Hz end; reflexivity).
      all: cbn [success_of find method_eqb lifetime_attr opt_eqb]; apply Z.eqb_refl.
  Qed.

  Lemma listing_clients l : map oa_client (map obs_of l) = map fst (dlmap l).
  Proof. unfold dlmap. rewrite !map_map. reflexivity. Qed.

  Lemma chk_C06_model h : forall s exp, inv cfg s -> dl_inv s -> Permutation exp (dlmap (allocs s)) ->
    chk_C06_from cfg (now s) exp (model_trace cfg s h) = true.
  Proof.
    induction h as [|e r IH]; intros s exp Hinv Hdl Hp; cbn [model_trace chk_C06_from]; [reflexivity|].
    destruct (step cfg s e) as [s' acts] eqn:Hs. cbn [chk_C06_from os_ev os_acts os_allocs].
    rewrite <- (now_step _ _ _ _ _ Hs).
    pose proof (c06_update_perm cfg Hsec Hpos _ _ _ _ _ Hinv Hdl Hp Hs) as Hp'.
    set (exp' := c06_update (now s') {| os_ev := e; os_acts := acts; os_allocs := listing_of s' |} exp) in *.
    assert (E1 : mset_eqb addr_eqb (map fst exp') (map oa_client (listing_of s')) = true).
    { rewrite listing_of_map, listing_clients. apply mset_eqb_perm. apply Permutation_map. exact Hp'. }
    rewrite E1. cbn [andb].
    pose proof (c06_granted_rule _ _ _ _ _ Hinv Hp Hs) as G.
    assert (E2 : match e with
                 | EReq src _ _ (RqAllocate _ lt _ _ _ _ _ _) _ =>
                     match success_of MAllocate acts, aget addr_eqb src exp with
                     | Some at_, None => opt_eqb Z.eqb (lifetime_attr at_) (Some (granted_lifetime cfg lt / sec))
                     | _, _ => true end
                 | EReq src _ _ (RqRefresh lt _) _ =>
                     match success_of MRefresh acts with
                     | Some at_ => opt_eqb Z.eqb (lifetime_attr at_) (Some (granted_lifetime cfg lt / sec))
                     | None => true end
                 | _ => true
                 end = true) by exact G.
    rewrite E2. cbn [andb].
    apply IH; [eapply inv_step; eauto|eapply dl_inv_step; eauto|exact Hp'].
  Qed.

  (* for every configuration with positive timeouts and a default lifetime of whole seconds, and every history: computed
     from the success responses alone - Allocate and Refresh successes set "now + LIFETIME", a Refresh with LIFETIME 0 and
     a relay failure end it - the set of clients whose lifetime has not elapsed equals, after EVERY step and at every
     instant, the set of allocations that exist; and every LIFETIME reported follows the grant rule *)
  Theorem chk_C06_on_model ep h : chk_C06 (model_case cfg ep h) = true.
  Proof.
    unfold chk_C06, model_case. cbn [rc_cfg rc_steps].
    change 0 with (now (init ep)). apply chk_C06_model; [apply inv_init|constructor|constructor].
  Qed.
End C06b.
