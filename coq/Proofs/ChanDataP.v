From Turn Require Import Bytes ChanData BytesP.
From Coq Require Import ZifyN ZifyNat ZifyBool.
Ltac Zify.zify_post_hook ::= Z.div_mod_to_equations.
Open Scope N_scope.

Lemma cd_encode_shape n d :
  cd_encode n d = [hi8 (u16 n); lo8 (u16 n); hi8 (u16 (lenN d)); lo8 (u16 (lenN d))]
                    ++ d ++ zeros (cd_padlen d).
Proof. reflexivity. Qed.

Lemma cd_padlen_lt d : (cd_padlen d < 4)%nat.
Proof. unfold cd_padlen. pose proof (pad4_lt (4 + lenN d)). pose proof (pad4_ge (4 + lenN d)). lia. Qed.

Lemma cd_encode_length n d : lenN (cd_encode n d) = 4 + pad4 (lenN d).
Proof.
  rewrite cd_encode_shape. unfold lenN. rewrite !app_length, zeros_length. cbn [length].
  unfold cd_padlen. rewrite pad4_add4. fold (lenN d).
  pose proof (pad4_ge (lenN d)). unfold lenN in *. lia.
Qed.

(* the length field carries the payload length *)
Lemma cd_encode_lenfield n d : lenN d < 65536 ->
  exists b0 b1 b2 b3 rest, cd_encode n d = b0 :: b1 :: b2 :: b3 :: rest
     /\ be16 b2 b3 = lenN d /\ be16 b0 b1 = u16 n
     /\ rest = d ++ zeros (cd_padlen d).
Proof.
  intros H. rewrite cd_encode_shape. cbn [app].
  do 5 eexists. split; [reflexivity|]. rewrite !be16_enc16 by apply u16_lt.
  rewrite u16_id by assumption. auto.
Qed.

Theorem cd_decode_encode n d :
  n < 65536 -> lenN d < 65536 ->
  cd_decode (cd_encode n d) = if valid_chan n then CdOk n d else CdErr CdBadNumber.
Proof.
  intros Hn Hd. rewrite cd_encode_shape. cbn [app cd_decode].
  rewrite !be16_enc16 by apply u16_lt. rewrite !u16_id by assumption.
  destruct (valid_chan n); cbn [negb]; [|reflexivity].
  rewrite lenN_app.
  destruct (N.ltb_spec (lenN d + lenN (zeros (cd_padlen d))) (lenN d)); [lia|].
  unfold lenN at 1. rewrite Nat2N.id. rewrite firstn_app_exact. reflexivity.
Qed.

(* decoding succeeds exactly for a valid number and at least the declared bytes,
   and yields exactly the declared bytes *)
Theorem cd_decode_iff b n d :
  cd_decode b = CdOk n d <->
  exists b0 b1 b2 b3 rest, b = b0 :: b1 :: b2 :: b3 :: rest
    /\ n = be16 b0 b1 /\ valid_chan n = true
    /\ be16 b2 b3 <= lenN rest /\ d = firstn (N.to_nat (be16 b2 b3)) rest.
Proof.
  split.
  - destruct b as [|b0 [|b1 [|b2 [|b3 rest]]]]; cbn [cd_decode]; try discriminate.
    destruct (valid_chan (be16 b0 b1)) eqn:Hv; cbn [negb]; try discriminate.
    destruct (N.ltb_spec (lenN rest) (be16 b2 b3)) as [Hl|Hl]; try discriminate.
    intros H; inversion H; subst. do 5 eexists. repeat split; eauto.
  - intros (b0 & b1 & b2 & b3 & rest & -> & -> & Hv & Hl & ->). cbn [cd_decode].
    rewrite Hv. cbn [negb]. destruct (N.ltb_spec (lenN rest) (be16 b2 b3)); [lia|reflexivity].
Qed.

Theorem cd_decode_length b n d : cd_decode b = CdOk n d ->
  exists b0 b1 b2 b3 rest, b = b0 :: b1 :: b2 :: b3 :: rest /\ lenN d = be16 b2 b3.
Proof.
  intros H. apply cd_decode_iff in H as (b0 & b1 & b2 & b3 & rest & -> & -> & Hv & Hl & ->).
  do 5 eexists. split; [reflexivity|]. unfold lenN in *. rewrite firstn_length. lia.
Qed.

Theorem is_channel_data_iff b :
  is_channel_data b = true <-> exists n d, cd_decode b = CdOk n d.
Proof.
  split.
  - destruct b as [|b0 [|b1 [|b2 [|b3 rest]]]]; cbn [is_channel_data]; try discriminate.
    destruct (N.ltb_spec (lenN rest) (be16 b2 b3)) as [Hl|Hl]; try discriminate. intros Hv.
    cbn [cd_decode]. rewrite Hv. cbn [negb].
    destruct (N.ltb_spec (lenN rest) (be16 b2 b3)); [lia|]. eauto.
  - intros (n & d & H). apply cd_decode_iff in H as (b0 & b1 & b2 & b3 & rest & -> & -> & Hv & Hl & ->).
    cbn [is_channel_data]. destruct (N.ltb_spec (lenN rest) (be16 b2 b3)); [lia|assumption].
Qed.

Theorem cd_decode_errors b :
  (lenN b < 4 <-> cd_decode b = CdErr CdEOF).
Proof.
  destruct b as [|b0 [|b1 [|b2 [|b3 rest]]]]; cbn [cd_decode]; rewrite ?lenN_cons; unfold lenN; cbn [length];
    try (split; [reflexivity|lia]).
  split; [lia|]. destruct (valid_chan _); cbn [negb]; [|discriminate]. destruct (_ <? _); discriminate.
Qed.

Lemma zeros_all_zero k x : In x (zeros k) -> x = 0.
Proof. induction k; cbn; [tauto|]. intros [H|H]; auto. Qed.
