(* C07 at the level of whole histories: the specification the correspondence evaluates on the implementation's observed
   traces - "a permission / channel binding exists exactly until one full timeout after its last successful
   CreatePermission / ChannelBind (or until its allocation goes)", computed from the success responses alone
   (Check/RelayProps.chk_C07) - holds on EVERY trace of the model. The tables chk_C07 reconstructs agree, key by key,
   with the deadlines the model's permissions and channels carry. *)
From Turn Require Import Bytes BytesP ChanData Relay RelayBase RelayInv RelayGates RelayLocal RelayMore RelayBalance.
From Turn Require Import Common RelayCheck RelayProps RelayTrace RelayTime.
From Coq Require Import ZifyN ZifyNat ZifyBool Permutation.
Open Scope Z_scope.

(* ---------- association lists over any key with a decidable equality ---------- *)
Section Assoc.
  Context {K V : Type} (keqb : K -> K -> bool).
  Hypothesis keqb_spec : forall a b, keqb a b = true <-> a = b.

  Lemma keqb_refl a : keqb a a = true.
  Proof. apply keqb_spec. reflexivity. Qed.

  Lemma aget_adel_g (l : list (K * V)) k k' : aget keqb k (adel keqb k' l) = if keqb k k' then None else aget keqb k l.
  Proof.
    induction l as [|[x v] l IH]; cbn [adel aget]; [destruct (keqb k k'); reflexivity|].
    destruct (keqb k' x) eqn:E.
    - apply keqb_spec in E. subst x. rewrite IH. destruct (keqb k k'); reflexivity.
    - cbn [aget]. rewrite IH. destruct (keqb k x) eqn:E2; [|reflexivity].
      apply keqb_spec in E2. subst x. destruct (keqb k k') eqn:E3; [|reflexivity].
      apply keqb_spec in E3. subst k'. rewrite keqb_refl in E. discriminate.
  Qed.

  Lemma aget_aset_g (l : list (K * V)) k k' v : aget keqb k (aset keqb k' v l) = if keqb k k' then Some v else aget keqb k l.
  Proof. unfold aset. cbn [aget]. rewrite aget_adel_g. destruct (keqb k k'); reflexivity. Qed.

  Lemma keys_adel (l : list (K * V)) k' x : In x (map fst (adel keqb k' l)) -> In x (map fst l) /\ x <> k'.
  Proof.
    induction l as [|[y v] l IH]; cbn [adel map]; [intros []|]. destruct (keqb k' y) eqn:E.
    - intros H. apply IH in H as [A B]. split; [right; exact A|exact B].
    - cbn [map fst]. intros [<-|H]; [split; [left; reflexivity|]|apply IH in H as [A B]; split; [right; exact A|exact B]].
      intros ->. rewrite keqb_refl in E. discriminate.
  Qed.

  Lemma nodup_adel (l : list (K * V)) k' : NoDup (map fst l) -> NoDup (map fst (adel keqb k' l)).
  Proof.
    induction l as [|[y v] l IH]; cbn [adel map]; [auto|]. intros H. inversion H as [|? ? Hy Hl]; subst.
    destruct (keqb k' y); [auto|]. cbn [map fst]. constructor; [|auto]. intros Hin. apply keys_adel in Hin as [A _]. contradiction.
  Qed.

  Lemma nodup_aset (l : list (K * V)) k' v : NoDup (map fst l) -> NoDup (map fst (aset keqb k' v l)).
  Proof.
    intros H. unfold aset. cbn [map fst]. constructor; [|apply nodup_adel; exact H].
    intros Hin. apply keys_adel in Hin as [_ B]. congruence.
  Qed.

  Lemma nodup_filter_keys (f : K * V -> bool) (l : list (K * V)) : NoDup (map fst l) -> NoDup (map fst (filter f l)).
  Proof.
    induction l as [|x l IH]; cbn; [auto|]. intros H. inversion H as [|? ? Hx Hl]; subst.
    destruct (f x); cbn; [constructor; [|auto]|auto]. intros Hin. apply Hx.
    apply in_map_iff in Hin as (y & E & Hy). apply filter_In in Hy as [Hy _]. rewrite <- E. apply in_map. exact Hy.
  Qed.

  Lemma aget_filter_keyP (P : K -> bool) (l : list (K * V)) k :
    aget keqb k (filter (fun p => P (fst p)) l) = if P k then aget keqb k l else None.
  Proof.
    induction l as [|[x v] l IH]; cbn [filter aget fst]; [destruct (P k); reflexivity|].
    destruct (P x) eqn:Px; cbn [aget].
    - destruct (keqb k x) eqn:E; [apply keqb_spec in E; subst; rewrite Px; reflexivity|exact IH].
    - destruct (keqb k x) eqn:E; [apply keqb_spec in E; subst; rewrite Px in IH |- *; exact IH|exact IH].
  Qed.

  Lemma aget_none_in (l : list (K * V)) k : aget keqb k l = None <-> ~ In k (map fst l).
  Proof.
    induction l as [|[x v] l IH]; cbn [aget map fst]; [cbn; tauto|]. destruct (keqb k x) eqn:E.
    - apply keqb_spec in E. subst. split; [discriminate|]. intros H. exfalso. apply H. left. reflexivity.
    - rewrite IH. split; intros H; [intros [H1|H1]; [subst; rewrite keqb_refl in E; discriminate|auto]|intros Hin; apply H; right; exact Hin].
  Qed.

  Lemma aget_filter_val (Q : K * V -> bool) (l : list (K * V)) k : NoDup (map fst l) ->
    aget keqb k (filter Q l) = match aget keqb k l with Some v => if Q (k, v) then Some v else None | None => None end.
  Proof.
    induction l as [|[x v] l IH]; cbn [filter aget map fst]; [reflexivity|]. intros H. inversion H as [|? ? Hx Hl]; subst.
    destruct (keqb k x) eqn:E.
    - apply keqb_spec in E. subst x. destruct (Q (k, v)) eqn:Qv; cbn [aget]; [rewrite keqb_refl; reflexivity|].
      rewrite (IH Hl). assert (N : aget keqb k l = None) by (apply aget_none_in; exact Hx). rewrite N. reflexivity.
    - destruct (Q (x, v)); cbn [aget]; [rewrite E|]; apply IH; exact Hl.
  Qed.

  Lemma aget_fold_aset {I} (f : I -> K) (v : V) (ips : list I) (l : list (K * V)) k :
    aget keqb k (fold_right (fun i e => aset keqb (f i) v e) l ips) =
    if existsb (fun i => keqb k (f i)) ips then Some v else aget keqb k l.
  Proof.
    induction ips as [|i r IH]; cbn [fold_right existsb]; [reflexivity|]. rewrite aget_aset_g, IH.
    destruct (keqb k (f i)); reflexivity.
  Qed.

  Lemma nodup_fold_aset {I} (f : I -> K) (v : V) (ips : list I) (l : list (K * V)) :
    NoDup (map fst l) -> NoDup (map fst (fold_right (fun i e => aset keqb (f i) v e) l ips)).
  Proof. intros H. induction ips as [|i r IH]; cbn [fold_right]; [exact H|]. apply nodup_aset. exact IH. Qed.

  (* two duplicate-free tables with the same lookups list the same keys, up to order *)
  Lemma keys_perm_of_aget (l1 : list (K * V)) (ks : list K) :
    NoDup (map fst l1) -> NoDup ks -> (forall k, aget keqb k l1 <> None <-> In k ks) -> Permutation (map fst l1) ks.
  Proof.
    intros H1 H2 H. apply NoDup_Permutation; [exact H1|exact H2|]. intros k. rewrite <- H.
    split; intros A; [intros B; apply aget_none_in in B; contradiction|].
    destruct (in_dec (fun a b => match keqb a b as x return (keqb a b = x -> {a = b} + {a <> b}) with
                                 | true => fun E => left (proj1 (keqb_spec a b) E)
                                 | false => fun E => right (fun Eq => eq_ind_r (fun a0 => keqb a0 b = false -> False)
                                                (fun E0 => Bool.diff_true_false (eq_trans (eq_sym (keqb_refl b)) E0)) Eq E)
                                 end eq_refl) k (map fst l1)) as [I|N]; [exact I|].
    exfalso. apply A. apply aget_none_in. exact N.
  Qed.
End Assoc.

(* ---------- lookups in the model's tables after each kind of change ---------- *)
Lemma find_alloc_replace a a' l c : In a l -> NoDup (map a_client l) -> a_client a' = a_client a ->
  find_alloc c (replace_alloc a' l) = if addr_eqb (a_client a) c then Some a' else find_alloc c l.
Proof.
  induction l as [|x l IH]; cbn; [contradiction|]. intros Hin Hnd Hc. inversion Hnd as [|? ? Hx Hl]; subst.
  rewrite Hc. destruct (addr_eqb (a_client x) (a_client a)) eqn:E.
  - apply addr_eqb_eq in E. cbn [find_alloc]. rewrite Hc, E. destruct (addr_eqb (a_client a) c); reflexivity.
  - cbn [find_alloc]. destruct Hin as [->|Hin]; [rewrite addr_eqb_refl in E; discriminate|].
    destruct (addr_eqb (a_client x) c) eqn:E2.
    + apply addr_eqb_eq in E2. destruct (addr_eqb (a_client a) c) eqn:E3; [|reflexivity].
      apply addr_eqb_eq in E3. apply addr_eqb_neq in E. congruence.
    + apply IH; assumption.
Qed.

Lemma find_alloc_remove c0 l c : NoDup (map a_client l) ->
  find_alloc c (remove_alloc c0 l) = if addr_eqb c0 c then None else find_alloc c l.
Proof.
  induction l as [|x l IH]; cbn; [destruct (addr_eqb c0 c); reflexivity|]. intros Hnd. inversion Hnd as [|? ? Hx Hl]; subst.
  destruct (addr_eqb (a_client x) c0) eqn:E.
  - apply addr_eqb_eq in E. subst c0. destruct (addr_eqb (a_client x) c) eqn:E2; [|reflexivity].
    apply addr_eqb_eq in E2. subst c. apply find_alloc_none. exact Hx.
  - cbn [find_alloc]. destruct (addr_eqb (a_client x) c) eqn:E2.
    + apply addr_eqb_eq in E2. subst c. rewrite addr_eqb_sym, E. reflexivity.
    + apply IH. exact Hl.
Qed.

(* the two teardown causes that come from outside the protocol: the control connection of a stream client ending,
   and Server.Close *)
Lemma ctl_close_spec cfg s src s' acts : inv cfg s -> step cfg s (ECtlClose src) = (s', acts) ->
  find_alloc src (allocs s') = None /\ (forall c, c <> src -> find_alloc c (allocs s') = find_alloc c (allocs s)) /\
  acts = match find_alloc src (allocs s) with Some a => close_events a | None => [] end.
Proof.
  intros [Hnd _] Hs. cbn [step] in Hs. unfold h_ctl_close in Hs.
  destruct (find_alloc src (allocs s)) as [a|] eqn:Hf; inversion Hs; subst; clear Hs.
  - apply find_alloc_some in Hf as [_ Hc]. rewrite Hc. cbn [allocs set_allocs]. split; [|split; [|reflexivity]].
    + rewrite (find_alloc_remove _ _ _ Hnd), addr_eqb_refl. reflexivity.
    + intros c Hne. rewrite (find_alloc_remove _ _ _ Hnd). destruct (addr_eqb src c) eqn:E; [apply addr_eqb_eq in E; congruence|reflexivity].
  - split; [exact Hf|]. split; [reflexivity|reflexivity].
Qed.
Lemma srv_close_spec cfg s s' acts : step cfg s ESrvClose = (s', acts) ->
  allocs s' = [] /\ acts = flat_map close_events (allocs s).
Proof. intros Hs. cbn [step] in Hs. inversion Hs; subst. split; reflexivity. Qed.

Lemma find_alloc_app l a c : find_alloc c (l ++ [a]) =
  match find_alloc c l with Some x => Some x | None => if addr_eqb (a_client a) c then Some a else None end.
Proof. induction l as [|x l IH]; cbn; [reflexivity|]. destruct (addr_eqb (a_client x) c); [reflexivity|exact IH]. Qed.

Lemma tick_alloc_client t a a' ev : tick_alloc t a = (Some a', ev) -> a_client a' = a_client a.
Proof. unfold tick_alloc. destruct (a_dl a <=? t); intros H; inversion H; reflexivity. Qed.

Lemma find_alloc_tick t l c : NoDup (map a_client l) -> forall l' ev, tick_allocs t l = (l', ev) ->
  find_alloc c l' = match find_alloc c l with Some a => fst (tick_alloc t a) | None => None end.
Proof.
  induction l as [|x l IH]; cbn [tick_allocs find_alloc]; intros Hnd l' ev H; [inversion H; reflexivity|].
  inversion Hnd as [|? ? Hx Hl]; subst.
  destruct (tick_alloc t x) as [oa e1] eqn:H1. destruct (tick_allocs t l) as [r e2] eqn:H2.
  inversion H; subst; clear H. specialize (IH Hl _ _ eq_refl).
  destruct (addr_eqb (a_client x) c) eqn:E.
  - apply addr_eqb_eq in E. subst c. rewrite H1. destruct oa as [a'|]; cbn [fst].
    + cbn [find_alloc]. rewrite (tick_alloc_client _ _ _ _ H1), addr_eqb_refl. reflexivity.
    + rewrite IH. assert (N : find_alloc (a_client x) l = None) by (apply find_alloc_none; exact Hx). rewrite N. reflexivity.
  - destruct oa as [a'|]; [|exact IH]. cbn [find_alloc]. rewrite (tick_alloc_client _ _ _ _ H1), E. exact IH.
Qed.

(* permissions *)
Lemma find_perm_upsert i j dl l :
  option_map p_dl (find_perm i (upsert_perm j dl l)) = if (j =? i)%N then Some dl else option_map p_dl (find_perm i l).
Proof.
  induction l as [|y l IH]; cbn [upsert_perm find_perm].
  - cbn. destruct (j =? i)%N; reflexivity.
  - destruct (N.eqb_spec (p_ip y) j) as [E|E]; cbn [find_perm p_ip].
    + subst j. destruct (p_ip y =? i)%N; reflexivity.
    + destruct (N.eqb_spec (p_ip y) i) as [E2|E2]; [|exact IH]. subst i. destruct (N.eqb_spec j (p_ip y)); [congruence|reflexivity].
Qed.

Lemma add_perm_find a i dl a' ev j : add_perm a i dl = (a', ev) ->
  option_map p_dl (find_perm j (a_perms a')) = if (i =? j)%N then Some dl else option_map p_dl (find_perm j (a_perms a)).
Proof. unfold add_perm. intros H. inversion H; subst. cbn [a_perms]. apply find_perm_upsert. Qed.

Lemma install_perms_find dl peers j : forall a a' ev, install_perms a dl peers = (a', ev) ->
  option_map p_dl (find_perm j (a_perms a')) =
  if existsb (fun i => (j =? i)%N) (peer_ips peers) then Some dl else option_map p_dl (find_perm j (a_perms a)).
Proof.
  induction peers as [|[p|] r IH]; cbn [install_perms peer_ips flat_map app existsb]; intros a a' ev H.
  - inversion H; reflexivity.
  - destruct (add_perm a (ip p) dl) as [a1 e1] eqn:H1. destruct (install_perms a1 dl r) as [a2 e2] eqn:H2.
    inversion H; subst. rewrite (IH _ _ _ H2), (add_perm_find _ _ _ _ _ j H1). rewrite (N.eqb_sym j (ip p)).
    destruct (ip p =? j)%N; cbn; destruct (existsb _ _); reflexivity.
  - eapply IH; eauto.
Qed.

Lemma find_perm_filter t i l : NoDup (map p_ip l) ->
  find_perm i (filter (live_perm t) l) = match find_perm i l with Some p => if t <? p_dl p then Some p else None | None => None end.
Proof.
  induction l as [|y l IH]; cbn [filter find_perm map]; [reflexivity|]. intros H. inversion H as [|? ? Hy Hl]; subst.
  unfold live_perm at 1. destruct (N.eqb_spec (p_ip y) i) as [E|E].
  - subst i. destruct (t <? p_dl y); cbn [find_perm]; [rewrite N.eqb_refl; reflexivity|].
    rewrite (IH Hl). assert (N0 : find_perm (p_ip y) l = None) by (apply find_perm_none; exact Hy). rewrite N0. reflexivity.
  - destruct (t <? p_dl y); cbn [find_perm]; [destruct (N.eqb_spec (p_ip y) i); [contradiction|]|]; apply IH; exact Hl.
Qed.

(* ---------- the model's permission table as a function ---------- *)
Definition pget (s : state) (k : pkey) : option Z :=
  match find_alloc (fst k) (allocs s) with
  | Some a => option_map p_dl (find_perm (snd k) (a_perms a))
  | None => None
  end.

(* what the step's success response adds, as chk_C07 reads it *)
Definition pupd (cfg : config) (t : Z) (e : event) (acts : list action) (F : pkey -> option Z) (k : pkey) : option Z :=
  match e with
  | EReq src _ _ (RqCreatePerm peers) _ =>
      match success_of MCreatePerm acts with
      | Some _ => if addr_eqb (fst k) src && existsb (fun i => (snd k =? i)%N) (peer_ips peers) then Some (t + cfg_perm_timeout cfg) else F k
      | None => F k end
  | EReq src _ _ (RqChannelBind (APresent n) (Some (PeerOk p))) _ =>
      match success_of MChannelBind acts with
      | Some _ => if addr_eqb (fst k) src && (snd k =? ip p)%N then Some (t + cfg_perm_timeout cfg) else F k
      | None => F k end
  | _ => F k
  end.

Definition keep (s' : state) (k : pkey) (o : option Z) : option Z :=
  match o with Some v => if present s' (fst k) && (now s' <? v) then Some v else None | None => None end.

Lemma present_find s c : present s c = match find_alloc c (allocs s) with Some _ => true | None => false end.
Proof. unfold present. rewrite listing_of_map, find_oalloc_listing. destruct (find_alloc c (allocs s)); reflexivity. Qed.

(* a stored permission is alive: its allocation exists and its deadline lies ahead *)
Lemma keep_pget s k : dl_inv s -> keep s k (pget s k) = pget s k.
Proof.
  intros Hd. unfold keep, pget. rewrite present_find. destruct (find_alloc (fst k) (allocs s)) as [a|] eqn:Hf; [|reflexivity].
  destruct (find_perm (snd k) (a_perms a)) as [p|] eqn:Hp; [|reflexivity]. cbn [option_map andb].
  apply find_alloc_some in Hf as [Ha _]. apply find_perm_some in Hp as [Hp _].
  unfold dl_inv in Hd. rewrite Forall_forall in Hd. destruct (Hd _ Ha) as (_ & Hpl & _). specialize (Hpl _ Hp).
  destruct (Z.ltb_spec (now s) (p_dl p)); [reflexivity|lia].
Qed.

Section C07p.
  Variable cfg : config.
  Hypothesis Hpos : cfg_positive cfg.

  Lemma pget_create_perm s src tid uid peers s' acts k c0 unk0 : inv cfg s -> dl_inv s ->
    h_create_perm cfg s src tid uid peers = (s', acts) ->
    pget s' k = keep s' k (pupd cfg (now s') (EReq src tid c0 (RqCreatePerm peers) unk0) acts (pget s) k).
  Proof.
    intros Hinv Hd H. pose proof Hinv as [Hnd _]. unfold pupd. unfold h_create_perm in H.
    assert (Same : (s', acts) = (s, []) \/ (exists x, (s', acts) = (s, [Error src MCreatePerm tid x false])) ->
              pget s' k = keep s' k (match success_of MCreatePerm acts with Some _ => if addr_eqb (fst k) src && existsb (fun i => (snd k =? i)%N) (peer_ips peers) then Some (now s' + cfg_perm_timeout cfg) else pget s k | None => pget s k end)).
    { intros [E|(x & E)]; inversion E; subst; cbn [success_of find]; rewrite keep_pget; auto. }
    destruct (owned_alloc s src uid) as [a|] eqn:Ho; [|apply Same; left; exact (eq_sym H)].
    apply owned_alloc_some in Ho as (Ha & Hcl & _).
    destruct (perm_check cfg a peers); [apply Same; right; eexists; exact (eq_sym H)|].
    destruct peers as [|q peers]; [apply Same; right; eexists; exact (eq_sym H)|].
    destruct (install_perms a (now s + cfg_perm_timeout cfg) (q :: peers)) as [a1 evs] eqn:Hi.
    inversion H; subst s' acts; clear H.
    rewrite (success_of_life MCreatePerm evs _ (install_perms_life _ _ _ _ _ Hi)). cbn [success_of find method_eqb].
    pose proof (install_perms_dl _ _ _ _ _ Hi) as [_ Hc1].
    unfold pget at 1. cbn [allocs set_allocs now]. rewrite (find_alloc_replace a a1 _ _ Ha Hnd Hc1), Hcl.
    rewrite (addr_eqb_sym (fst k) src). destruct (addr_eqb src (fst k)) eqn:E; cbn [andb].
    - rewrite (install_perms_find _ _ (snd k) _ _ _ Hi). unfold keep. rewrite present_find. cbn [allocs set_allocs now].
      rewrite (find_alloc_replace a a1 _ _ Ha Hnd Hc1), Hcl, E.
      destruct (existsb _ _).
      + destruct Hpos as (_ & Hp & _). destruct (Z.ltb_spec (now s) (now s + cfg_perm_timeout cfg)); [reflexivity|lia].
      + apply addr_eqb_eq in E. assert (Hf : find_alloc (fst k) (allocs s) = Some a) by (rewrite <- E, <- Hcl; apply find_alloc_in_nodup; assumption).
        pose proof (keep_pget s k Hd) as Kp. unfold keep, pget in Kp. rewrite present_find, Hf in Kp. unfold pget. rewrite Hf.
        destruct (option_map p_dl (find_perm (snd k) (a_perms a))); [|reflexivity]. cbn [andb] in Kp |- *. exact (eq_sym Kp).
    - pose proof (keep_pget s k Hd) as Kp. unfold keep in *. rewrite present_find in *. cbn [allocs set_allocs now].
      rewrite (find_alloc_replace a a1 _ _ Ha Hnd Hc1), Hcl, E. unfold pget in *.
      destruct (find_alloc (fst k) (allocs s)); [|reflexivity]. exact (eq_sym Kp).
  Qed.
  Lemma pget_channel_bind s src tid uid n p s' acts k c0 unk0 : inv cfg s -> dl_inv s ->
    h_channel_bind cfg s src tid uid (APresent n) (Some (PeerOk p)) = (s', acts) ->
    pget s' k = keep s' k (pupd cfg (now s') (EReq src tid c0 (RqChannelBind (APresent n) (Some (PeerOk p))) unk0) acts (pget s) k).
  Proof.
    intros Hinv Hd H. pose proof Hinv as [Hnd _]. unfold pupd. unfold h_channel_bind in H.
    assert (Same : (s', acts) = (s, []) \/ (exists x, (s', acts) = (s, [Error src MChannelBind tid x false])) ->
              pget s' k = keep s' k (match success_of MChannelBind acts with Some _ => if addr_eqb (fst k) src && (snd k =? ip p)%N then Some (now s' + cfg_perm_timeout cfg) else pget s k | None => pget s k end)).
    { intros [E|(x & E)]; inversion E; subst; cbn [success_of find]; rewrite keep_pget; auto. }
    destruct (owned_alloc s src uid) as [a|] eqn:Ho; [|apply Same; left; exact (eq_sym H)].
    apply owned_alloc_some in Ho as (Ha & Hcl & _).
    repeat (dmatch H; try (apply Same; right; eexists; exact (eq_sym H))).
    all: inversion H; subst s' acts; clear H.
    all: match goal with E : add_perm ?a1 ?i ?dl = (?a2, ?e2) |- _ =>
           pose proof (add_perm_life _ _ _ _ _ E) as Hl; pose proof (add_perm_dl _ _ _ _ _ E) as [_ Hc2];
           pose proof (add_perm_find _ _ _ _ _ (snd k) E) as Hfp end.
    all: cbn [a_client set_chans a_perms] in Hc2, Hfp.
    all: match goal with
         | |- context [success_of MChannelBind (?e ++ [Life ?l; Success ?d ?m ?t ?at_])] =>
             replace (e ++ [Life l; Success d m t at_]) with ((e ++ [Life l]) ++ [Success d m t at_]) by (rewrite <- app_assoc; reflexivity);
             let HH := fresh in
             assert (HH : Forall RelayGates.is_life (e ++ [Life l])) by (apply Forall_app; split; [exact Hl|repeat constructor]);
             rewrite (success_of_life MChannelBind _ _ HH)
         | |- context [success_of MChannelBind (?e ++ [Success _ _ _ _])] => rewrite (success_of_life MChannelBind e _ Hl)
         end.
    all: cbn [success_of find method_eqb].
    all: unfold pget at 1; cbn [allocs set_allocs now]; rewrite (find_alloc_replace a _ _ _ Ha Hnd Hc2), Hcl.
    all: rewrite (addr_eqb_sym (fst k) src); destruct (addr_eqb src (fst k)) eqn:E; cbn [andb].
    all: unfold keep; rewrite present_find; cbn [allocs set_allocs now]; rewrite (find_alloc_replace a _ _ _ Ha Hnd Hc2), Hcl, E.
    all: try (pose proof (keep_pget s k Hd) as Kp; unfold keep, pget in Kp |- *; rewrite present_find in Kp;
              destruct (find_alloc (fst k) (allocs s)); [exact (eq_sym Kp)|reflexivity]).
    all: rewrite Hfp.
    all: repeat match goal with Hn : negb _ = false |- _ => apply Bool.negb_false_iff in Hn end.
    all: match goal with Ec : addr_eqb (c_peer ?c) ?q = true |- _ => apply addr_eqb_eq in Ec; rewrite ?Ec | _ => idtac end.
    all: rewrite (N.eqb_sym (snd k) (ip p)); destruct (ip p =? snd k)%N;
         [destruct Hpos as (_ & Hp & _); destruct (Z.ltb_spec (now s) (now s + cfg_perm_timeout cfg)); [reflexivity|lia]|].
    all: apply addr_eqb_eq in E; assert (Hf : find_alloc (fst k) (allocs s) = Some a) by (rewrite <- E, <- Hcl; apply find_alloc_in_nodup; assumption).
    all: pose proof (keep_pget s k Hd) as Kp; unfold keep, pget in Kp; rewrite present_find, Hf in Kp; unfold pget; rewrite Hf.
    all: destruct (option_map p_dl (find_perm (snd k) (a_perms a))); [|reflexivity]; cbn [andb] in Kp |- *; exact (eq_sym Kp).
  Qed.
  (* states that differ only in things the permission table does not see *)
  Lemma keep_same s s' k : dl_inv s -> now s' = now s ->
    (forall a, find_alloc (fst k) (allocs s) = Some a -> exists a', find_alloc (fst k) (allocs s') = Some a') ->
    keep s' k (pget s k) = pget s k.
  Proof.
    intros Hd Hn Hpr. pose proof (keep_pget s k Hd) as Kp. unfold keep in *. rewrite present_find in *. rewrite Hn.
    unfold pget in *. destruct (find_alloc (fst k) (allocs s)) as [a|] eqn:Hf; [|reflexivity].
    destruct (Hpr a eq_refl) as (a' & ->). exact Kp.
  Qed.

  Lemma pget_removed s c0 k : inv cfg s -> dl_inv s ->
    pget (set_allocs s (remove_alloc c0 (allocs s))) k = keep (set_allocs s (remove_alloc c0 (allocs s))) k (pget s k).
  Proof.
    intros [Hnd _] Hd. pose proof (keep_pget s k Hd) as Kp. unfold keep, pget in *. rewrite present_find in *. cbn [allocs set_allocs now].
    rewrite (find_alloc_remove c0 _ (fst k) Hnd). destruct (addr_eqb c0 (fst k)).
    - destruct (find_alloc (fst k) (allocs s)) as [a|]; [|reflexivity]. destruct (option_map p_dl (find_perm (snd k) (a_perms a))); reflexivity.
    - destruct (find_alloc (fst k) (allocs s)); [exact (eq_sym Kp)|reflexivity].
  Qed.

  Lemma pget_step s e s' acts k : inv cfg s -> dl_inv s -> step cfg s e = (s', acts) ->
    pget s' k = keep s' k (pupd cfg (now s') e acts (pget s) k).
  Proof.
    intros Hinv Hd Hs. pose proof Hinv as [Hnd Hall].
    assert (Same : forall x, s' = s -> x = pget s k -> pget s' k = keep s' k x) by (intros x -> ->; rewrite keep_pget; auto).
    destruct e as [src tid c r unk|src p d|src n d|relay from d|dt|relay|csrc| |].
    - cbn [step] in Hs. destruct r as [tr lt fam df rp ep rt mt|lt fam|peers|num peer|].
      + (* Allocate *)
        cbn [pupd]. destruct unk; [inversion Hs; subst; apply Same; reflexivity|].
        destruct (authenticate cfg s c) as [uid|code ch]; [|inversion Hs; subst; apply Same; reflexivity].
        unfold h_allocate in Hs. repeat (dmatch Hs; try (inversion Hs; subst; apply Same; reflexivity)).
        all: inversion Hs; subst; clear Hs.
        all: rewrite keep_same; [| exact Hd | reflexivity |
               intros a0 Hf0; cbn [allocs set_allocs add_rsv]; rewrite find_alloc_app, Hf0; eauto].
        all: unfold pget; cbn [allocs set_allocs add_rsv]; rewrite find_alloc_app.
        all: destruct (find_alloc (fst k) (allocs s)); [reflexivity|]; cbn [a_client a_perms]; destruct (addr_eqb _ (fst k)); reflexivity.
      + (* Refresh *)
        cbn [pupd]. destruct unk; [inversion Hs; subst; apply Same; reflexivity|].
        destruct (authenticate cfg s c) as [uid|code ch]; [|inversion Hs; subst; apply Same; reflexivity].
        unfold h_refresh in Hs. cbv zeta in Hs.
        destruct (owned_alloc s src uid) as [a|] eqn:Ho; [|inversion Hs; subst; apply Same; reflexivity].
        apply owned_alloc_some in Ho as (Ha & Hcl & _).
        repeat (dmatch Hs; try (inversion Hs; subst; apply Same; reflexivity)).
        all: inversion Hs; subst; clear Hs.
        all: try (apply pget_removed; assumption).
        all: rewrite keep_same; [| exact Hd | reflexivity |
               intros a0 Hf0; cbn [allocs set_allocs];
               match goal with |- context [replace_alloc ?x ?ll] => rewrite (find_alloc_replace a x ll _ Ha Hnd eq_refl) end;
               destruct (addr_eqb (a_client a) (fst k)); eauto].
        all: unfold pget; cbn [allocs set_allocs];
             match goal with |- context [replace_alloc ?x ?ll] => rewrite (find_alloc_replace a x ll _ Ha Hnd eq_refl) end.
        all: destruct (addr_eqb (a_client a) (fst k)) eqn:E; [|reflexivity].
        all: apply addr_eqb_eq in E; rewrite <- E, (find_alloc_in_nodup _ _ Hnd Ha); reflexivity.
      + destruct unk; [inversion Hs; subst; apply Same; reflexivity|].
        destruct (authenticate cfg s c) as [uid|code ch]; [|inversion Hs; subst; apply Same; reflexivity].
        eapply pget_create_perm; eauto.
      + destruct unk; [inversion Hs; subst; apply Same; [reflexivity|cbn [pupd]; destruct num as [| |?]; try reflexivity; destruct peer as [[?|]|]; reflexivity]|].
        destruct (authenticate cfg s c) as [uid|code ch];
          [|inversion Hs; subst; apply Same; [reflexivity|cbn [pupd]; destruct num as [| |?]; try reflexivity; destruct peer as [[?|]|]; reflexivity]].
        destruct num as [| |n]; [| |destruct peer as [[p|]|]; [eapply pget_channel_bind; eauto| |]].
        all: cbn [pupd]; unfold h_channel_bind in Hs; destruct (owned_alloc s src uid); inversion Hs; subst; apply Same; reflexivity.
      + destruct unk; inversion Hs; subst; apply Same; reflexivity.
    - cbn [step] in Hs. apply h_send_spec in Hs as [-> _]. apply Same; reflexivity.
    - cbn [step] in Hs. apply h_chandata_spec in Hs as [-> _]. apply Same; reflexivity.
    - cbn [step] in Hs. apply h_peer_spec in Hs as [-> _]. apply Same; reflexivity.
    - (* a tick *)
      cbn [step pupd] in *. unfold h_tick in Hs. destruct (tick_allocs (now s + Z.max 0 dt) (allocs s)) as [l evs] eqn:Ht.
      inversion Hs; subst; clear Hs. unfold keep, pget. rewrite present_find. cbn [allocs now].
      rewrite (find_alloc_tick _ _ (fst k) Hnd _ _ Ht).
      destruct (find_alloc (fst k) (allocs s)) as [a|] eqn:Hf; [|reflexivity].
      apply find_alloc_some in Hf as [Ha _]. rewrite Forall_forall in Hall. destruct (Hall _ Ha) as (Hnp & _).
      unfold tick_alloc. destruct (a_dl a <=? now s + Z.max 0 dt); cbn [fst].
      * destruct (option_map p_dl (find_perm (snd k) (a_perms a))); reflexivity.
      * cbn [a_perms set_chans set_perms]. rewrite (find_perm_filter _ _ _ Hnp).
        destruct (find_perm (snd k) (a_perms a)) as [p|]; [|reflexivity]. cbn [option_map andb].
        destruct (now s + Z.max 0 dt <? p_dl p); reflexivity.
    - cbn [step pupd] in *. unfold h_relay_err in Hs.
      destruct (find_relay relay (allocs s)) as [a|]; inversion Hs; subst; clear Hs; [apply pget_removed; assumption|apply Same; reflexivity].
    - cbn [step pupd] in *. unfold h_ctl_close in Hs.
      destruct (find_alloc csrc (allocs s)) as [a|]; inversion Hs; subst; clear Hs; [apply pget_removed; assumption|apply Same; reflexivity].
    - cbn [step pupd] in *. inversion Hs; subst; clear Hs. unfold keep, pget. rewrite present_find. cbn [allocs set_allocs find_alloc].
      destruct (match find_alloc (fst k) (allocs s) with Some a => option_map p_dl (find_perm (snd k) (a_perms a)) | None => None end); reflexivity.
    - cbn [step pupd] in *. inversion Hs; subst. apply Same; reflexivity.
  Qed.
  (* ---------- a client whose allocation was reported deleted in a step has none afterwards ---------- *)
  Lemma deleted_clients_app a b : deleted_clients (a ++ b) = deleted_clients a ++ deleted_clients b.
  Proof. unfold deleted_clients. apply flat_map_app. Qed.

  Lemma add_perm_no_delete a i dl a' ev : add_perm a i dl = (a', ev) -> deleted_clients ev = [].
  Proof. unfold add_perm. intros H. inversion H; subst. destruct (find_perm i (a_perms a)); reflexivity. Qed.

  Lemma install_perms_no_delete dl peers : forall a a' ev, install_perms a dl peers = (a', ev) -> deleted_clients ev = [].
  Proof.
    induction peers as [|[p|] r IH]; cbn [install_perms]; intros a a' ev H.
    - inversion H; reflexivity.
    - destruct (add_perm a (ip p) dl) as [a1 e1] eqn:H1. destruct (install_perms a1 dl r) as [a2 e2] eqn:H2.
      inversion H; subst. rewrite deleted_clients_app, (add_perm_no_delete _ _ _ _ _ H1), (IH _ _ _ H2). reflexivity.
    - eapply IH; eauto.
  Qed.

  Lemma deleted_clients_softstate (c : addr) (ps : list perm) (cs : list chan) :
    deleted_clients (map (fun p => Life (LPermDeleted c (p_ip p))) ps ++ map (fun x => Life (LChanDeleted c (c_peer x) (c_num x))) cs) = [].
  Proof. rewrite deleted_clients_app. unfold deleted_clients. induction ps; cbn; [induction cs; cbn; auto|auto]. Qed.

  Lemma tick_deleted_dl t l : forall l' evs, tick_allocs t l = (l', evs) ->
    forall c, In c (deleted_clients evs) -> exists a, In a l /\ a_client a = c /\ a_dl a <= t.
  Proof.
    induction l as [|x l IH]; cbn [tick_allocs]; intros l' evs H c Hin; [inversion H; subst; destruct Hin|].
    destruct (tick_alloc t x) as [oa e1] eqn:H1. destruct (tick_allocs t l) as [r e2] eqn:H2.
    inversion H; subst; clear H. rewrite deleted_clients_app in Hin. apply in_app_iff in Hin as [Hin|Hin].
    - unfold tick_alloc in H1. destruct (Z.leb_spec (a_dl x) t); inversion H1; subst; clear H1.
      + rewrite deleted_clients_close in Hin. destruct Hin as [<-|[]]. exists x. split; [left; reflexivity|auto].
      + rewrite deleted_clients_softstate in Hin. destruct Hin.
    - destruct (IH _ _ eq_refl _ Hin) as (a & Ha & Hc & Hd). exists a. split; [right; exact Ha|auto].
  Qed.

  Lemma deleted_absent s e s' acts c : inv cfg s -> step cfg s e = (s', acts) -> In c (deleted_clients acts) ->
    find_alloc c (allocs s') = None.
  Proof.
    intros [Hnd _] Hs Hin.
    destruct e as [src tid c0 r unk|src p d|src n d|relay from d|dt|relay|csrc| |]; cbn [step] in Hs.
    - destruct unk; [inversion Hs; subst; destruct Hin|].
      destruct r as [tr lt fam df rp ep rt mt|lt fam|peers|num peer|]; try (inversion Hs; subst; destruct Hin; fail);
        destruct (authenticate cfg s c0) as [uid|code ch]; try (inversion Hs; subst; destruct Hin; fail).
      + unfold h_allocate in Hs. repeat (dmatch Hs; try (inversion Hs; subst; destruct Hin; fail)). all: inversion Hs; subst; destruct Hin.
      + unfold h_refresh in Hs. cbv zeta in Hs.
        destruct (owned_alloc s src uid) as [a|] eqn:Ho; [|inversion Hs; subst; destruct Hin].
        repeat (dmatch Hs; try (inversion Hs; subst; destruct Hin; fail)).
        all: inversion Hs; subst; clear Hs; try (destruct Hin; fail).
        all: rewrite deleted_clients_app, deleted_clients_close in Hin; cbn in Hin; destruct Hin as [<-|[]].
        all: apply owned_alloc_some in Ho as (_ & Hcl & _); rewrite Hcl; cbn [allocs set_allocs];
             apply find_alloc_none; apply remove_alloc_gone; exact Hnd.
      + unfold h_create_perm in Hs.
        destruct (owned_alloc s src uid) as [a|]; [|inversion Hs; subst; destruct Hin].
        destruct (perm_check cfg a peers); [inversion Hs; subst; destruct Hin|].
        destruct peers as [|q peers]; [inversion Hs; subst; destruct Hin|].
        destruct (install_perms a _ (q :: peers)) as [a' evs] eqn:Hi. inversion Hs; subst.
        rewrite deleted_clients_app, (install_perms_no_delete _ _ _ _ _ Hi) in Hin. destruct Hin.
      + unfold h_channel_bind in Hs.
        destruct (owned_alloc s src uid) as [a|]; [|inversion Hs; subst; destruct Hin].
        repeat (dmatch Hs; try (inversion Hs; subst; destruct Hin; fail)).
        all: inversion Hs; subst; match goal with Ha : add_perm _ _ _ = (_, _) |- _ => apply add_perm_no_delete in Ha as Hnd2 end.
        all: rewrite deleted_clients_app, Hnd2 in Hin; destruct Hin.
    - apply h_send_spec in Hs as [_ [->|(a & q & dd & pm & -> & _)]]; destruct Hin.
    - apply h_chandata_spec in Hs as [_ [->|(a & c1 & -> & _)]]; destruct Hin.
    - apply h_peer_spec in Hs as [_ [->|(a & _ & _ & _ & [(c1 & _ & ->)|(_ & pm & _ & ->)])]]; destruct Hin.
    - unfold h_tick in Hs. destruct (tick_allocs (now s + Z.max 0 dt) (allocs s)) as [l evs] eqn:Ht.
      inversion Hs; subst; clear Hs. cbn [allocs]. rewrite (find_alloc_tick _ _ c Hnd _ _ Ht).
      destruct (tick_deleted_dl _ _ _ _ Ht _ Hin) as (a & Ha & Hc & Hd). rewrite <- Hc, (find_alloc_in_nodup _ _ Hnd Ha).
      unfold tick_alloc. destruct (Z.leb_spec (a_dl a) (now s + Z.max 0 dt)); [reflexivity|lia].
    - unfold h_relay_err in Hs. destruct (find_relay relay (allocs s)) as [a|]; inversion Hs; subst; [|destruct Hin].
      rewrite deleted_clients_close in Hin. destruct Hin as [<-|[]]. cbn [allocs set_allocs].
      apply find_alloc_none. apply remove_alloc_gone. exact Hnd.
    - unfold h_ctl_close in Hs. destruct (find_alloc csrc (allocs s)) as [a|]; inversion Hs; subst; [|destruct Hin].
      rewrite deleted_clients_close in Hin. destruct Hin as [<-|[]]. cbn [allocs set_allocs].
      apply find_alloc_none. apply remove_alloc_gone. exact Hnd.
    - inversion Hs; subst. reflexivity.
    - inversion Hs; subst. destruct Hin.
  Qed.
  Hypothesis Hsec : cfg_seconds cfg.

  Lemma refresh0_absent s src tid c lt fam unk s' acts at_ : inv cfg s ->
    step cfg s (EReq src tid c (RqRefresh lt fam) unk) = (s', acts) ->
    success_of MRefresh acts = Some at_ -> lifetime_attr at_ = Some 0 -> find_alloc src (allocs s') = None.
  Proof.
    intros [Hnd _] Hs Hso Hl. cbn [step] in Hs. destruct unk; [inversion Hs; subst; discriminate|].
    destruct (authenticate cfg s c) as [uid|code ch]; [|inversion Hs; subst; discriminate].
    unfold h_refresh in Hs. cbv zeta in Hs.
    destruct (owned_alloc s src uid) as [a|] eqn:Ho; [|inversion Hs; subst; discriminate].
    apply owned_alloc_some in Ho as (_ & Hcl & _).
    repeat (dmatch Hs; try (inversion Hs; subst; discriminate)).
    all: inversion Hs; subst; clear Hs.
    all: try (cbn [allocs set_allocs]; apply find_alloc_none; apply remove_alloc_gone; exact Hnd).
    all: exfalso; cbn [success_of find method_eqb] in Hso; inversion Hso; subst at_; cbn [lifetime_attr find] in Hl; inversion Hl as [Hq].
    all: match goal with Hz : (granted_lifetime cfg ?l =? 0) = false |- _ =>
           apply Z.eqb_neq in Hz; pose proof (granted_lifetime_pos cfg l Hpos Hz) as Hgt;
           pose proof (granted_whole cfg l Hsec) as Hw; rewrite Hq in Hw; cbn in Hw; lia end.
  Qed.

  (* ---------- the permission table chk_C07 keeps, as lookups ---------- *)
  Definition gone_of (o : ostep) : list addr :=
    deleted_clients (os_acts o) ++
    match os_ev o with
    | EReq src _ _ (RqRefresh _ _) _ =>
        match success_of MRefresh (os_acts o) with
        | Some at_ => match lifetime_attr at_ with Some 0 => [src] | _ => [] end
        | None => [] end
    | _ => [] end.

  Lemma existsb_pkey k src ips :
    existsb (fun i => pkey_eqb k (src, i)) ips = addr_eqb (fst k) src && existsb (fun i => (snd k =? i)%N) ips.
  Proof.
    induction ips as [|i r IH]; cbn [existsb]; [rewrite andb_false_r; reflexivity|]. rewrite IH. unfold pkey_eqb. cbn [fst snd].
    destruct (addr_eqb (fst k) src); reflexivity.
  Qed.

  Lemma pkey_eqb_spec a b : pkey_eqb a b = true <-> a = b.
  Proof.
    unfold pkey_eqb. destruct a as [c i], b as [c' i']. cbn [fst snd]. rewrite andb_true_iff, addr_eqb_eq, N.eqb_eq.
    split; [intros [-> ->]; reflexivity|intros E; inversion E; auto].
  Qed.

  Lemma c07_perm_lookup t o pe ce k : NoDup (map fst pe) ->
    NoDup (map fst (fst (c07_update cfg t o pe ce))) /\
    aget pkey_eqb k (fst (c07_update cfg t o pe ce)) =
    match pupd cfg t (os_ev o) (os_acts o) (fun k => if existsb (addr_eqb (fst k)) (gone_of o) then None else aget pkey_eqb k pe) k with
    | Some v => if t <? v then Some v else None
    | None => None
    end.
  Proof.
    intros Hnd. unfold c07_update. fold (gone_of o).
    set (pe0 := filter (fun e => negb (existsb (addr_eqb (fst (fst e))) (gone_of o))) pe).
    set (ce0 := filter (fun e => negb (existsb (addr_eqb (fst (fst e))) (gone_of o))) ce).
    assert (N0 : NoDup (map fst pe0)) by (apply nodup_filter_keys; exact Hnd).
    assert (G0 : forall k0, aget pkey_eqb k0 pe0 = if existsb (addr_eqb (fst k0)) (gone_of o) then None else aget pkey_eqb k0 pe).
    { intros k0. unfold pe0. rewrite (aget_filter_keyP pkey_eqb pkey_eqb_spec (fun k1 => negb (existsb (addr_eqb (fst k1)) (gone_of o)))).
      destruct (existsb _ _); reflexivity. }
    assert (Fin : forall pe1 ce1 G, NoDup (map fst pe1) -> aget pkey_eqb k pe1 = G ->
              NoDup (map fst (fst (filter (fun e => t <? snd e) pe1, filter (fun e : ckey * Z => t <? snd e) ce1))) /\
              aget pkey_eqb k (fst (filter (fun e => t <? snd e) pe1, filter (fun e : ckey * Z => t <? snd e) ce1)) =
              match G with Some v => if t <? v then Some v else None | None => None end).
    { intros pe1 ce1 G N1 E1. cbn [fst]. split; [apply nodup_filter_keys; exact N1|].
      rewrite (aget_filter_val pkey_eqb pkey_eqb_spec _ _ _ N1), E1. reflexivity. }
    unfold pupd.
    destruct (os_ev o) as [src tid c r unk|? ? ?|? ? ?|? ? ?|?|?|?| |]; try (apply Fin; [exact N0|apply G0]).
    destruct r as [? ? ? ? ? ? ? ?|? ?|peers|num peer|]; try (apply Fin; [exact N0|apply G0]).
    - destruct (success_of MCreatePerm (os_acts o)); [|apply Fin; [exact N0|apply G0]].
      apply Fin; [apply (nodup_fold_aset pkey_eqb pkey_eqb_spec); exact N0|].
      rewrite (aget_fold_aset pkey_eqb pkey_eqb_spec (fun i => (src, i))), existsb_pkey, G0. reflexivity.
    - destruct num as [| |n]; try (apply Fin; [exact N0|apply G0]).
      destruct peer as [[p|]|]; try (apply Fin; [exact N0|apply G0]).
      destruct (success_of MChannelBind (os_acts o)); [|apply Fin; [exact N0|apply G0]].
      apply Fin; [apply (nodup_aset pkey_eqb pkey_eqb_spec); exact N0|].
      rewrite (aget_aset_g pkey_eqb pkey_eqb_spec), G0. unfold pkey_eqb. cbn [fst snd]. reflexivity.
  Qed.
  Lemma gone_absent s e s' acts c : inv cfg s -> step cfg s e = (s', acts) ->
    existsb (addr_eqb c) (gone_of {| os_ev := e; os_acts := acts; os_allocs := listing_of s' |}) = true -> present s' c = false.
  Proof.
    intros Hinv Hs Hex. rewrite present_find. apply existsb_exists in Hex as (x & Hin & E). apply addr_eqb_eq in E. subst x.
    unfold gone_of in Hin. cbn [os_ev os_acts] in Hin. apply in_app_iff in Hin as [Hin|Hin].
    - rewrite (deleted_absent _ _ _ _ _ Hinv Hs Hin). reflexivity.
    - destruct e as [src tid c0 r unk|? ? ?|? ? ?|? ? ?|?|?|?| |]; try (destruct Hin; fail).
      destruct r as [? ? ? ? ? ? ? ?|lt fam|?|? ?|]; try (destruct Hin; fail).
      destruct (success_of MRefresh acts) as [at_|] eqn:Hso; [|destruct Hin].
      destruct (lifetime_attr at_) as [z|] eqn:Hl; [|destruct Hin].
      destruct z; try (destruct Hin; fail). destruct Hin as [<-|[]].
      rewrite (refresh0_absent _ _ _ _ _ _ _ _ _ _ Hinv Hs Hso Hl). reflexivity.
  Qed.

  Lemma livec_present s' c : existsb (fun a => addr_eqb (oa_client a) c) (listing_of s') = present s' c.
  Proof.
    rewrite present_find, listing_of_map. induction (allocs s') as [|x l IH]; cbn; [reflexivity|].
    destruct (addr_eqb (a_client x) c); [reflexivity|exact IH].
  Qed.

  Definition pagree (pe : list (pkey * Z)) (s : state) : Prop :=
    NoDup (map fst pe) /\ forall k, aget pkey_eqb k pe = pget s k.

  Lemma pupd_gone t e acts (F1 F2 : pkey -> option Z) k s' :
    (F1 k = F2 k \/ present s' (fst k) = false) ->
    match pupd cfg t e acts F1 k with Some v => if present s' (fst k) && (now s' <? v) then Some v else None | None => None end =
    match pupd cfg t e acts F2 k with Some v => if present s' (fst k) && (now s' <? v) then Some v else None | None => None end.
  Proof.
    intros [E|E].
    - unfold pupd. destruct e as [src tid c r unk|? ? ?|? ? ?|? ? ?|?|?|?| |]; rewrite ?E; try reflexivity.
      all: destruct r as [? ? ? ? ? ? ? ?|? ?|peers|num peer|]; rewrite ?E; try reflexivity.
      all: try (destruct (success_of MCreatePerm acts); rewrite ?E; reflexivity).
      all: destruct num as [| |n]; rewrite ?E; try reflexivity.
      all: destruct peer as [[p|]|]; rewrite ?E; try reflexivity.
      all: destruct (success_of MChannelBind acts); rewrite ?E; reflexivity.
    - rewrite E. cbn [andb]. destruct (pupd cfg t e acts F1 k), (pupd cfg t e acts F2 k); reflexivity.
  Qed.

  Lemma perm_step s e s' acts pe ce : inv cfg s -> dl_inv s -> pagree pe s -> step cfg s e = (s', acts) ->
    pagree (filter (fun x => existsb (fun a => addr_eqb (oa_client a) (fst (fst x))) (listing_of s'))
              (fst (c07_update cfg (now s') {| os_ev := e; os_acts := acts; os_allocs := listing_of s' |} pe ce))) s'.
  Proof.
    intros Hinv Hd [Hnd Hag] Hs. set (o := {| os_ev := e; os_acts := acts; os_allocs := listing_of s' |}).
    pose proof (fun k => c07_perm_lookup (now s') o pe ce k Hnd) as L.
    split; [apply nodup_filter_keys; apply (proj1 (L ({| ip := 0; port := 0 |}, 0%N)))|].
    intros k. rewrite (aget_filter_keyP pkey_eqb pkey_eqb_spec (fun k0 => existsb (fun a => addr_eqb (oa_client a) (fst k0)) (listing_of s'))).
    rewrite livec_present, (proj2 (L k)), (pget_step _ _ _ _ k Hinv Hd Hs). unfold keep. cbn [os_ev os_acts o].
    transitivity (match pupd cfg (now s') e acts (fun k0 => if existsb (addr_eqb (fst k0)) (gone_of o) then None else aget pkey_eqb k0 pe) k with
                  | Some v => if present s' (fst k) && (now s' <? v) then Some v else None | None => None end).
    - destruct (present s' (fst k)); [reflexivity|]. destruct (pupd _ _ _ _ _ _) as [v|]; [destruct (now s' <? v)|]; reflexivity.
    - apply pupd_gone. destruct (existsb (addr_eqb (fst k)) (gone_of o)) eqn:Eg; [right; eapply gone_absent; eauto|left; apply Hag].
  Qed.
  (* ---------- the listing shows exactly the keys of the table ---------- *)
  Lemma NoDup_app_disjoint {A} (l1 l2 : list A) : NoDup l1 -> NoDup l2 -> (forall x, In x l1 -> In x l2 -> False) -> NoDup (l1 ++ l2).
  Proof.
    induction l1 as [|x l1 IH]; cbn; [auto|]. intros H1 H2 Hd. inversion H1 as [|? ? Hx Hl]; subst. constructor.
    - intros Hin. apply in_app_iff in Hin as [Hin|Hin]; [contradiction|]. apply (Hd x); auto.
    - apply IH; auto. intros y Hy1 Hy2. apply (Hd y); auto.
  Qed.

  Definition pkeys (l : list alloc) : list pkey := flat_map (fun a => map (fun i => (a_client a, i)) (map p_ip (a_perms a))) l.

  Lemma pkeys_listing l : flat_map (fun a => map (fun i => (oa_client a, i)) (oa_perms a)) (map obs_of l) = pkeys l.
  Proof. unfold pkeys. induction l as [|x l IH]; cbn; [reflexivity|]. rewrite IH. reflexivity. Qed.

  Lemma pkeys_in l c i : In (c, i) (pkeys l) <-> exists a, In a l /\ a_client a = c /\ In i (map p_ip (a_perms a)).
  Proof.
    unfold pkeys. rewrite in_flat_map. split.
    - intros (a & Ha & Hin). apply in_map_iff in Hin as (j & E & Hj). inversion E; subst. eauto.
    - intros (a & Ha & Hc & Hi). exists a. split; [exact Ha|]. apply in_map_iff. exists i. rewrite Hc. auto.
  Qed.

  Lemma pkeys_nodup l : NoDup (map a_client l) -> Forall (alloc_ok cfg) l -> NoDup (pkeys l).
  Proof.
    induction l as [|x l IH]; cbn; [constructor|]. intros Hnd Hall. inversion Hnd as [|? ? Hx Hl]; subst. inversion Hall as [|? ? Hok Hr]; subst.
    unfold pkeys. cbn [flat_map]. fold (pkeys l). apply NoDup_app_disjoint.
    - destruct Hok as (Hp & _). clear -Hp. induction (map p_ip (a_perms x)) as [|i r IH]; cbn; [constructor|].
      inversion Hp as [|? ? Hi Hr]; subst. constructor; [|auto]. intros Hin. apply in_map_iff in Hin as (j & E & Hj). inversion E; subst. contradiction.
    - apply IH; assumption.
    - intros [c i] H1 H2. apply in_map_iff in H1 as (j & E & _). inversion E; subst.
      apply pkeys_in in H2 as (a & Ha & Hc & _). apply Hx. rewrite <- Hc. apply in_map. exact Ha.
  Qed.

  Lemma pget_in s k : inv cfg s -> (pget s k <> None <-> In k (pkeys (allocs s))).
  Proof.
    intros [Hnd _]. destruct k as [c i]. unfold pget. cbn [fst snd]. rewrite pkeys_in. split.
    - destruct (find_alloc c (allocs s)) as [a|] eqn:Hf; [|congruence]. intros H. apply find_alloc_some in Hf as [Ha Hc].
      exists a. split; [exact Ha|split; [exact Hc|]]. destruct (find_perm i (a_perms a)) eqn:Hp; [|cbn in H; congruence].
      apply find_perm_some in Hp as [Hp <-]. apply in_map. exact Hp.
    - intros (a & Ha & Hc & Hi). rewrite <- Hc, (find_alloc_in_nodup _ _ Hnd Ha).
      destruct (find_perm i (a_perms a)) eqn:Hp; [cbn; congruence|]. apply find_perm_none in Hp. contradiction.
  Qed.

  Lemma perm_keys_check pe s : inv cfg s -> pagree pe s ->
    mset_eqb pkey_eqb (map fst pe) (flat_map (fun a => map (fun i => (oa_client a, i)) (oa_perms a)) (listing_of s)) = true.
  Proof.
    intros Hinv [Hnd Hag]. rewrite listing_of_map, pkeys_listing. apply mset_eqb_perm.
    apply (keys_perm_of_aget pkey_eqb pkey_eqb_spec); [exact Hnd|destruct Hinv; apply pkeys_nodup; assumption|].
    intros k. rewrite Hag. apply pget_in. exact Hinv.
  Qed.
End C07p.

(* ====================== channels ====================== *)
Definition cfind (k : N * addr) (l : list chan) : option chan := find (fun c => chanpair_eqb (c_num c, c_peer c) k) l.

Lemma chanpair_eqb_spec a b : chanpair_eqb a b = true <-> a = b.
Proof.
  unfold chanpair_eqb. destruct a as [n p], b as [n' p']. cbn [fst snd]. rewrite andb_true_iff, N.eqb_eq, addr_eqb_eq.
  split; [intros [-> ->]; reflexivity|intros E; inversion E; auto].
Qed.

Lemma ckey_eqb_spec a b : ckey_eqb a b = true <-> a = b.
Proof.
  unfold ckey_eqb. destruct a as [c k], b as [c' k']. cbn [fst snd]. rewrite andb_true_iff, addr_eqb_eq, chanpair_eqb_spec.
  split; [intros [-> ->]; reflexivity|intros E; inversion E; auto].
Qed.

Lemma cfind_none_num n p l : ~ In n (map c_num l) -> cfind (n, p) l = None.
Proof.
  unfold cfind. induction l as [|x l IH]; cbn; [reflexivity|]. intros H. unfold chanpair_eqb at 1. cbn [fst snd].
  destruct (N.eqb_spec (c_num x) n) as [E|E]; [exfalso; apply H; left; exact E|]. cbn [andb]. apply IH. intros Hin. apply H. right. exact Hin.
Qed.

Lemma cfind_refresh n dl l c : NoDup (map c_num l) -> find_chan_num n l = Some c -> forall k,
  option_map c_dl (cfind k (refresh_chan n dl l)) = if chanpair_eqb (n, c_peer c) k then Some dl else option_map c_dl (cfind k l).
Proof.
  unfold cfind. induction l as [|x l IH]; cbn [find_chan_num refresh_chan]; [discriminate|]. intros Hnd Hf k.
  inversion Hnd as [|? ? Hx Hl]; subst. destruct (N.eqb_spec (c_num x) n) as [E|E].
  - inversion Hf; subst c. cbn [find c_num c_peer]. subst n.
    destruct (chanpair_eqb (c_num x, c_peer x) k); reflexivity.
  - cbn [find]. destruct (chanpair_eqb (c_num x, c_peer x) k) eqn:E2.
    + apply chanpair_eqb_spec in E2. subst k. destruct (chanpair_eqb (n, c_peer c) (c_num x, c_peer x)) eqn:E3; [|reflexivity].
      apply chanpair_eqb_spec in E3. inversion E3. congruence.
    + apply IH; assumption.
Qed.

Lemma cfind_app l c k : cfind k (l ++ [c]) = match cfind k l with Some x => Some x | None => if chanpair_eqb (c_num c, c_peer c) k then Some c else None end.
Proof. unfold cfind. induction l as [|x l IH]; cbn; [reflexivity|]. destruct (chanpair_eqb (c_num x, c_peer x) k); [reflexivity|exact IH]. Qed.

Lemma cfind_filter t k l : NoDup (map c_num l) ->
  cfind k (filter (live_chan t) l) = match cfind k l with Some c => if t <? c_dl c then Some c else None | None => None end.
Proof.
  unfold cfind. induction l as [|y l IH]; cbn [filter find map]; [reflexivity|]. intros H. inversion H as [|? ? Hy Hl]; subst.
  unfold live_chan at 1. destruct (chanpair_eqb (c_num y, c_peer y) k) eqn:E.
  - destruct (t <? c_dl y); cbn [find]; [rewrite E; reflexivity|]. rewrite (IH Hl).
    apply chanpair_eqb_spec in E. subst k. fold (cfind (c_num y, c_peer y) l). rewrite (cfind_none_num _ _ _ Hy). reflexivity.
  - destruct (t <? c_dl y); cbn [find]; [rewrite E|]; apply IH; exact Hl.
Qed.

Definition cget (s : state) (k : ckey) : option Z :=
  match find_alloc (fst k) (allocs s) with
  | Some a => option_map c_dl (cfind (snd k) (a_chans a))
  | None => None
  end.

Definition cupd (cfg : config) (t : Z) (e : event) (acts : list action) (F : ckey -> option Z) (k : ckey) : option Z :=
  match e with
  | EReq src _ _ (RqChannelBind (APresent n) (Some (PeerOk p))) _ =>
      match success_of MChannelBind acts with
      | Some _ => if ckey_eqb k (src, (n, p)) then Some (t + cfg_chan_timeout cfg) else F k
      | None => F k end
  | _ => F k
  end.

Definition keepc (s' : state) (k : ckey) (o : option Z) : option Z :=
  match o with Some v => if present s' (fst k) && (now s' <? v) then Some v else None | None => None end.

Lemma keepc_cget s k : dl_inv s -> keepc s k (cget s k) = cget s k.
Proof.
  intros Hd. unfold keepc, cget. rewrite present_find. destruct (find_alloc (fst k) (allocs s)) as [a|] eqn:Hf; [|reflexivity].
  destruct (cfind (snd k) (a_chans a)) as [c|] eqn:Hc; [|reflexivity]. cbn [option_map andb].
  apply find_alloc_some in Hf as [Ha _]. unfold cfind in Hc. apply find_some in Hc as [Hc _].
  unfold dl_inv in Hd. rewrite Forall_forall in Hd. destruct (Hd _ Ha) as (_ & _ & Hcl). specialize (Hcl _ Hc).
  destruct (Z.ltb_spec (now s) (c_dl c)); [reflexivity|lia].
Qed.

Section C07c.
  Variable cfg : config.
  Hypothesis Hpos : cfg_positive cfg.
  Hypothesis Hsec : cfg_seconds cfg.

  Lemma add_perm_chans a i dl a' ev : add_perm a i dl = (a', ev) -> a_chans a' = a_chans a.
  Proof. unfold add_perm. intros H. inversion H; reflexivity. Qed.

  Lemma install_perms_chans dl peers : forall a a' ev, install_perms a dl peers = (a', ev) -> a_chans a' = a_chans a.
  Proof.
    induction peers as [|[p|] r IH]; cbn [install_perms]; intros a a' ev H.
    - inversion H; reflexivity.
    - destruct (add_perm a (ip p) dl) as [a1 e1] eqn:H1. destruct (install_perms a1 dl r) as [a2 e2] eqn:H2.
      inversion H; subst. rewrite (IH _ _ _ H2). eapply add_perm_chans; eauto.
    - eapply IH; eauto.
  Qed.

  Lemma keepc_same s s' k : dl_inv s -> now s' = now s ->
    (forall a, find_alloc (fst k) (allocs s) = Some a -> exists a', find_alloc (fst k) (allocs s') = Some a') ->
    keepc s' k (cget s k) = cget s k.
  Proof.
    intros Hd Hn Hpr. pose proof (keepc_cget s k Hd) as Kp. unfold keepc in *. rewrite present_find in *. rewrite Hn.
    unfold cget in *. destruct (find_alloc (fst k) (allocs s)) as [a|] eqn:Hf; [|reflexivity].
    destruct (Hpr a eq_refl) as (a' & ->). exact Kp.
  Qed.

  Lemma cget_removed s c0 k : inv cfg s -> dl_inv s ->
    cget (set_allocs s (remove_alloc c0 (allocs s))) k = keepc (set_allocs s (remove_alloc c0 (allocs s))) k (cget s k).
  Proof.
    intros [Hnd _] Hd. pose proof (keepc_cget s k Hd) as Kp. unfold keepc, cget in *. rewrite present_find in *. cbn [allocs set_allocs now].
    rewrite (find_alloc_remove c0 _ (fst k) Hnd). destruct (addr_eqb c0 (fst k)).
    - destruct (find_alloc (fst k) (allocs s)) as [a|]; [|reflexivity]. destruct (option_map c_dl (cfind (snd k) (a_chans a))); reflexivity.
    - destruct (find_alloc (fst k) (allocs s)); [exact (eq_sym Kp)|reflexivity].
  Qed.

  (* a replacement that leaves the channels alone *)
  Lemma cget_replace_same s a a' k : inv cfg s -> dl_inv s -> In a (allocs s) -> a_client a' = a_client a -> a_chans a' = a_chans a ->
    cget (set_allocs s (replace_alloc a' (allocs s))) k = keepc (set_allocs s (replace_alloc a' (allocs s))) k (cget s k).
  Proof.
    intros [Hnd _] Hd Ha Hc Hch.
    rewrite keepc_same; [| exact Hd | reflexivity |
      intros a0 Hf0; cbn [allocs set_allocs]; rewrite (find_alloc_replace a a' _ _ Ha Hnd Hc); destruct (addr_eqb (a_client a) (fst k)); eauto].
    unfold cget. cbn [allocs set_allocs]. rewrite (find_alloc_replace a a' _ _ Ha Hnd Hc).
    destruct (addr_eqb (a_client a) (fst k)) eqn:E; [|reflexivity].
    apply addr_eqb_eq in E. rewrite <- E, (find_alloc_in_nodup _ _ Hnd Ha), Hch. reflexivity.
  Qed.

  Lemma cget_channel_bind s src tid uid n p s' acts k c0 unk0 : inv cfg s -> dl_inv s ->
    h_channel_bind cfg s src tid uid (APresent n) (Some (PeerOk p)) = (s', acts) ->
    cget s' k = keepc s' k (cupd cfg (now s') (EReq src tid c0 (RqChannelBind (APresent n) (Some (PeerOk p))) unk0) acts (cget s) k).
  Proof.
    intros Hinv Hd H. pose proof Hinv as [Hnd Hall]. unfold cupd. unfold h_channel_bind in H.
    assert (Same : (s', acts) = (s, []) \/ (exists x, (s', acts) = (s, [Error src MChannelBind tid x false])) ->
              cget s' k = keepc s' k (match success_of MChannelBind acts with Some _ => if ckey_eqb k (src, (n, p)) then Some (now s' + cfg_chan_timeout cfg) else cget s k | None => cget s k end)).
    { intros [E|(x & E)]; inversion E; subst; cbn [success_of find]; rewrite keepc_cget; auto. }
    destruct (owned_alloc s src uid) as [a|] eqn:Ho; [|apply Same; left; exact (eq_sym H)].
    apply owned_alloc_some in Ho as (Ha & Hcl & _).
    assert (Hok : alloc_ok cfg a) by (rewrite Forall_forall in Hall; auto). destruct Hok as (_ & Hnn & _).
    repeat (dmatch H; try (apply Same; right; eexists; exact (eq_sym H))).
    all: inversion H; subst s' acts; clear H.
    all: match goal with E : add_perm ?a1 ?i ?dl = (?a2, ?e2) |- _ =>
           pose proof (add_perm_life _ _ _ _ _ E) as Hl; pose proof (add_perm_dl _ _ _ _ _ E) as [_ Hc2];
           pose proof (add_perm_chans _ _ _ _ _ E) as Hch end.
    all: cbn [a_client set_chans a_chans] in Hc2, Hch.
    all: match goal with
         | |- context [success_of MChannelBind (?e ++ [Life ?l; Success ?d ?m ?t ?at_])] =>
             replace (e ++ [Life l; Success d m t at_]) with ((e ++ [Life l]) ++ [Success d m t at_]) by (rewrite <- app_assoc; reflexivity);
             let HH := fresh in
             assert (HH : Forall RelayGates.is_life (e ++ [Life l])) by (apply Forall_app; split; [exact Hl|repeat constructor]);
             rewrite (success_of_life MChannelBind _ _ HH)
         | |- context [success_of MChannelBind (?e ++ [Success _ _ _ _])] => rewrite (success_of_life MChannelBind e _ Hl)
         end.
    all: cbn [success_of find method_eqb].
    all: repeat match goal with Hn : negb _ = false |- _ => apply Bool.negb_false_iff in Hn end.
    all: unfold cget at 1; cbn [allocs set_allocs now]; rewrite (find_alloc_replace a _ _ _ Ha Hnd Hc2), Hcl.
    all: unfold keepc; rewrite present_find; cbn [allocs set_allocs now]; rewrite (find_alloc_replace a _ _ _ Ha Hnd Hc2), Hcl.
    all: unfold ckey_eqb; cbn [fst snd]; rewrite (addr_eqb_sym (fst k) src); destruct (addr_eqb src (fst k)) eqn:E; cbn [andb].
    all: try (pose proof (keepc_cget s k Hd) as Kp; unfold keepc, cget in Kp |- *; rewrite present_find in Kp;
              destruct (find_alloc (fst k) (allocs s)); [exact (eq_sym Kp)|reflexivity]).
    all: rewrite Hch.
    all: apply addr_eqb_eq in E; assert (Hf : find_alloc (fst k) (allocs s) = Some a) by (rewrite <- E, <- Hcl; apply find_alloc_in_nodup; assumption).
    all: pose proof (keepc_cget s k Hd) as Kp; unfold keepc, cget in Kp; rewrite present_find, Hf in Kp; unfold cget; rewrite Hf.
    - (* the binding existed: refreshed *)
      match goal with Hc : find_chan_num n (a_chans a) = Some ?c, Ep : addr_eqb (c_peer ?c) p = true |- _ =>
        apply addr_eqb_eq in Ep; rewrite (cfind_refresh _ _ _ _ Hnn Hc), Ep end.
      rewrite (proj2 (chanpair_eqb_spec (snd k) (n, p)) eq_refl) || idtac.
      destruct (chanpair_eqb (n, p) (snd k)) eqn:E2.
      + apply chanpair_eqb_spec in E2. rewrite <- E2. rewrite (proj2 (chanpair_eqb_spec (n, p) (n, p)) eq_refl).
        destruct Hpos as (_ & _ & Hc3). destruct (Z.ltb_spec (now s) (now s + cfg_chan_timeout cfg)); [reflexivity|lia].
      + assert (E3 : chanpair_eqb (snd k) (n, p) = false).
        { destruct (chanpair_eqb (snd k) (n, p)) eqn:E4; [|reflexivity]. apply chanpair_eqb_spec in E4. rewrite E4 in E2.
          rewrite (proj2 (chanpair_eqb_spec (n, p) (n, p)) eq_refl) in E2. discriminate. }
        rewrite E3. destruct (option_map c_dl (cfind (snd k) (a_chans a))); [|reflexivity]. cbn [andb] in Kp |- *. exact (eq_sym Kp).
    - (* a new binding *)
      rewrite cfind_app. cbn [c_num c_peer c_dl].
      destruct (chanpair_eqb (snd k) (n, p)) eqn:E2.
      + apply chanpair_eqb_spec in E2. rewrite E2.
        match goal with Hc : find_chan_num n (a_chans a) = None |- _ => apply find_chan_num_none in Hc; rewrite (cfind_none_num _ _ _ Hc) end.
        rewrite (proj2 (chanpair_eqb_spec (n, p) (n, p)) eq_refl). cbn [option_map].
        destruct Hpos as (_ & _ & Hc3). destruct (Z.ltb_spec (now s) (now s + cfg_chan_timeout cfg)); [reflexivity|lia].
      + destruct (cfind (snd k) (a_chans a)) as [x|] eqn:Ec; cbn [option_map] in Kp |- *; [cbn [andb] in Kp |- *; exact (eq_sym Kp)|].
        assert (E3 : chanpair_eqb (n, p) (snd k) = false).
        { destruct (chanpair_eqb (n, p) (snd k)) eqn:E4; [|reflexivity]. apply chanpair_eqb_spec in E4. rewrite <- E4 in E2.
          rewrite (proj2 (chanpair_eqb_spec (n, p) (n, p)) eq_refl) in E2. discriminate. }
        rewrite E3. reflexivity.
  Qed.
End C07c.

Section C07c2.
  Variable cfg : config.
  Hypothesis Hpos : cfg_positive cfg.
  Hypothesis Hsec : cfg_seconds cfg.

  Lemma cget_step s e s' acts k : inv cfg s -> dl_inv s -> step cfg s e = (s', acts) ->
    cget s' k = keepc s' k (cupd cfg (now s') e acts (cget s) k).
  Proof.
    intros Hinv Hd Hs. pose proof Hinv as [Hnd Hall].
    assert (Same : forall x, s' = s -> x = cget s k -> cget s' k = keepc s' k x) by (intros x -> ->; rewrite keepc_cget; auto).
    destruct e as [src tid c r unk|src p d|src n d|relay from d|dt|relay|csrc| |].
    - cbn [step] in Hs. destruct r as [tr lt fam df rp ep rt mt|lt fam|peers|num peer|].
      + (* Allocate *)
        cbn [cupd]. destruct unk; [inversion Hs; subst; apply Same; reflexivity|].
        destruct (authenticate cfg s c) as [uid|code ch]; [|inversion Hs; subst; apply Same; reflexivity].
        unfold h_allocate in Hs. repeat (dmatch Hs; try (inversion Hs; subst; apply Same; reflexivity)).
        all: inversion Hs; subst; clear Hs.
        all: rewrite keepc_same; [| exact Hd | reflexivity |
               intros a0 Hf0; cbn [allocs set_allocs add_rsv]; rewrite find_alloc_app, Hf0; eauto].
        all: unfold cget; cbn [allocs set_allocs add_rsv]; rewrite find_alloc_app.
        all: destruct (find_alloc (fst k) (allocs s)); [reflexivity|]; cbn [a_client a_chans]; destruct (addr_eqb _ (fst k)); reflexivity.
      + (* Refresh *)
        cbn [cupd]. destruct unk; [inversion Hs; subst; apply Same; reflexivity|].
        destruct (authenticate cfg s c) as [uid|code ch]; [|inversion Hs; subst; apply Same; reflexivity].
        unfold h_refresh in Hs. cbv zeta in Hs.
        destruct (owned_alloc s src uid) as [a|] eqn:Ho; [|inversion Hs; subst; apply Same; reflexivity].
        apply owned_alloc_some in Ho as (Ha & Hcl & _).
        repeat (dmatch Hs; try (inversion Hs; subst; apply Same; reflexivity)).
        all: inversion Hs; subst; clear Hs.
        all: try (apply (cget_removed cfg); assumption).
        all: apply (cget_replace_same cfg s a); auto.
      + (* CreatePermission: channels untouched *)
        cbn [cupd]. destruct unk; [inversion Hs; subst; apply Same; reflexivity|].
        destruct (authenticate cfg s c) as [uid|code ch]; [|inversion Hs; subst; apply Same; reflexivity].
        unfold h_create_perm in Hs.
        destruct (owned_alloc s src uid) as [a|] eqn:Ho; [|inversion Hs; subst; apply Same; reflexivity].
        apply owned_alloc_some in Ho as (Ha & Hcl & _).
        destruct (perm_check cfg a peers); [inversion Hs; subst; apply Same; reflexivity|].
        destruct peers as [|q peers]; [inversion Hs; subst; apply Same; reflexivity|].
        destruct (install_perms a (now s + cfg_perm_timeout cfg) (q :: peers)) as [a1 evs] eqn:Hi.
        inversion Hs; subst; clear Hs. apply (cget_replace_same cfg s a); auto.
        * apply (install_perms_dl _ _ _ _ _ Hi).
        * apply (install_perms_chans _ _ _ _ _ Hi).
      + destruct unk; [inversion Hs; subst; apply Same; [reflexivity|cbn [cupd]; destruct num as [| |?]; try reflexivity; destruct peer as [[?|]|]; reflexivity]|].
        destruct (authenticate cfg s c) as [uid|code ch];
          [|inversion Hs; subst; apply Same; [reflexivity|cbn [cupd]; destruct num as [| |?]; try reflexivity; destruct peer as [[?|]|]; reflexivity]].
        destruct num as [| |n]; [| |destruct peer as [[p|]|]; [eapply cget_channel_bind; eauto| |]].
        all: cbn [cupd]; unfold h_channel_bind in Hs; destruct (owned_alloc s src uid); inversion Hs; subst; apply Same; reflexivity.
      + destruct unk; inversion Hs; subst; apply Same; reflexivity.
    - cbn [step] in Hs. apply h_send_spec in Hs as [-> _]. apply Same; reflexivity.
    - cbn [step] in Hs. apply h_chandata_spec in Hs as [-> _]. apply Same; reflexivity.
    - cbn [step] in Hs. apply h_peer_spec in Hs as [-> _]. apply Same; reflexivity.
    - (* a tick *)
      cbn [step cupd] in *. unfold h_tick in Hs. destruct (tick_allocs (now s + Z.max 0 dt) (allocs s)) as [l evs] eqn:Ht.
      inversion Hs; subst; clear Hs. unfold keepc, cget. rewrite present_find. cbn [allocs now].
      rewrite (find_alloc_tick _ _ (fst k) Hnd _ _ Ht).
      destruct (find_alloc (fst k) (allocs s)) as [a|] eqn:Hf; [|reflexivity].
      apply find_alloc_some in Hf as [Ha _]. rewrite Forall_forall in Hall. destruct (Hall _ Ha) as (_ & Hnn & _).
      unfold tick_alloc. destruct (a_dl a <=? now s + Z.max 0 dt); cbn [fst].
      * destruct (option_map c_dl (cfind (snd k) (a_chans a))); reflexivity.
      * cbn [a_chans set_chans set_perms]. rewrite (cfind_filter _ _ _ Hnn).
        destruct (cfind (snd k) (a_chans a)) as [x|]; [|reflexivity]. cbn [option_map andb].
        destruct (now s + Z.max 0 dt <? c_dl x); reflexivity.
    - cbn [step cupd] in *. unfold h_relay_err in Hs.
      destruct (find_relay relay (allocs s)) as [a|]; inversion Hs; subst; clear Hs; [apply (cget_removed cfg); assumption|apply Same; reflexivity].
    - cbn [step cupd] in *. unfold h_ctl_close in Hs.
      destruct (find_alloc csrc (allocs s)) as [a|]; inversion Hs; subst; clear Hs; [apply (cget_removed cfg); assumption|apply Same; reflexivity].
    - cbn [step cupd] in *. inversion Hs; subst; clear Hs. unfold keepc, cget. rewrite present_find. cbn [allocs set_allocs find_alloc].
      destruct (match find_alloc (fst k) (allocs s) with Some a => option_map c_dl (cfind (snd k) (a_chans a)) | None => None end); reflexivity.
    - cbn [step cupd] in *. inversion Hs; subst. apply Same; reflexivity.
  Qed.

  (* the channel table chk_C07 keeps, as lookups *)
  Lemma c07_chan_lookup t o pe ce k : NoDup (map fst ce) ->
    NoDup (map fst (snd (c07_update cfg t o pe ce))) /\
    aget ckey_eqb k (snd (c07_update cfg t o pe ce)) =
    match cupd cfg t (os_ev o) (os_acts o) (fun k => if existsb (addr_eqb (fst k)) (gone_of o) then None else aget ckey_eqb k ce) k with
    | Some v => if t <? v then Some v else None
    | None => None
    end.
  Proof.
    intros Hnd. unfold c07_update. fold (gone_of o).
    set (pe0 := filter (fun e => negb (existsb (addr_eqb (fst (fst e))) (gone_of o))) pe).
    set (ce0 := filter (fun e => negb (existsb (addr_eqb (fst (fst e))) (gone_of o))) ce).
    assert (N0 : NoDup (map fst ce0)) by (apply nodup_filter_keys; exact Hnd).
    assert (G0 : forall k0, aget ckey_eqb k0 ce0 = if existsb (addr_eqb (fst k0)) (gone_of o) then None else aget ckey_eqb k0 ce).
    { intros k0. unfold ce0. rewrite (aget_filter_keyP ckey_eqb ckey_eqb_spec (fun k1 => negb (existsb (addr_eqb (fst k1)) (gone_of o)))).
      destruct (existsb _ _); reflexivity. }
    assert (Fin : forall (pe1 : list (pkey * Z)) ce1 G, NoDup (map fst ce1) -> aget ckey_eqb k ce1 = G ->
              NoDup (map fst (snd (filter (fun e => t <? snd e) pe1, filter (fun e : ckey * Z => t <? snd e) ce1))) /\
              aget ckey_eqb k (snd (filter (fun e => t <? snd e) pe1, filter (fun e : ckey * Z => t <? snd e) ce1)) =
              match G with Some v => if t <? v then Some v else None | None => None end).
    { intros pe1 ce1 G N1 E1. cbn [snd]. split; [apply nodup_filter_keys; exact N1|].
      rewrite (aget_filter_val ckey_eqb ckey_eqb_spec _ _ _ N1), E1. reflexivity. }
    unfold cupd.
    destruct (os_ev o) as [src tid c r unk|? ? ?|? ? ?|? ? ?|?|?|?| |]; try (apply Fin; [exact N0|apply G0]).
    destruct r as [? ? ? ? ? ? ? ?|? ?|peers|num peer|]; try (apply Fin; [exact N0|apply G0]).
    - destruct (success_of MCreatePerm (os_acts o)); apply Fin; first [exact N0|apply G0].
    - destruct num as [| |n]; try (apply Fin; [exact N0|apply G0]).
      destruct peer as [[p|]|]; try (apply Fin; [exact N0|apply G0]).
      destruct (success_of MChannelBind (os_acts o)); [|apply Fin; [exact N0|apply G0]].
      apply Fin; [apply (nodup_aset ckey_eqb ckey_eqb_spec); exact N0|].
      rewrite (aget_aset_g ckey_eqb ckey_eqb_spec), G0. reflexivity.
  Qed.

  Definition cagree (ce : list (ckey * Z)) (s : state) : Prop :=
    NoDup (map fst ce) /\ forall k, aget ckey_eqb k ce = cget s k.

  Lemma cupd_gone t e acts (F1 F2 : ckey -> option Z) k s' :
    (F1 k = F2 k \/ present s' (fst k) = false) ->
    match cupd cfg t e acts F1 k with Some v => if present s' (fst k) && (now s' <? v) then Some v else None | None => None end =
    match cupd cfg t e acts F2 k with Some v => if present s' (fst k) && (now s' <? v) then Some v else None | None => None end.
  Proof.
    intros [E|E].
    - unfold cupd. destruct e as [src tid c r unk|? ? ?|? ? ?|? ? ?|?|?|?| |]; rewrite ?E; try reflexivity.
      all: destruct r as [? ? ? ? ? ? ? ?|? ?|peers|num peer|]; rewrite ?E; try reflexivity.
      all: destruct num as [| |n]; rewrite ?E; try reflexivity.
      all: destruct peer as [[p|]|]; rewrite ?E; try reflexivity.
      all: destruct (success_of MChannelBind acts); rewrite ?E; reflexivity.
    - rewrite E. cbn [andb]. destruct (cupd cfg t e acts F1 k), (cupd cfg t e acts F2 k); reflexivity.
  Qed.

  Lemma chan_step s e s' acts pe ce : inv cfg s -> dl_inv s -> cagree ce s -> step cfg s e = (s', acts) ->
    cagree (filter (fun x => existsb (fun a => addr_eqb (oa_client a) (fst (fst x))) (listing_of s'))
              (snd (c07_update cfg (now s') {| os_ev := e; os_acts := acts; os_allocs := listing_of s' |} pe ce))) s'.
  Proof.
    intros Hinv Hd [Hnd Hag] Hs. set (o := {| os_ev := e; os_acts := acts; os_allocs := listing_of s' |}).
    pose proof (fun k => c07_chan_lookup (now s') o pe ce k Hnd) as L.
    split; [apply nodup_filter_keys; apply (proj1 (L ({| ip := 0; port := 0 |}, (0%N, {| ip := 0; port := 0 |}))))|].
    intros k. rewrite (aget_filter_keyP ckey_eqb ckey_eqb_spec (fun k0 => existsb (fun a => addr_eqb (oa_client a) (fst k0)) (listing_of s'))).
    rewrite livec_present, (proj2 (L k)), (cget_step _ _ _ _ k Hinv Hd Hs). unfold keepc. cbn [os_ev os_acts o].
    transitivity (match cupd cfg (now s') e acts (fun k0 => if existsb (addr_eqb (fst k0)) (gone_of o) then None else aget ckey_eqb k0 ce) k with
                  | Some v => if present s' (fst k) && (now s' <? v) then Some v else None | None => None end).
    - destruct (present s' (fst k)); [reflexivity|]. destruct (cupd _ _ _ _ _ _) as [v|]; [destruct (now s' <? v)|]; reflexivity.
    - apply cupd_gone. destruct (existsb (addr_eqb (fst k)) (gone_of o)) eqn:Eg; [right; eapply (gone_absent cfg Hpos Hsec); eauto|left; apply Hag].
  Qed.

  (* the listing shows exactly the keys of the channel table *)
  Definition ckeys (l : list alloc) : list ckey := flat_map (fun a => map (fun c => (a_client a, (c_num c, c_peer c))) (a_chans a)) l.

  Lemma ckeys_listing l : flat_map (fun a => map (fun c => (oa_client a, c)) (oa_chans a)) (map obs_of l) = ckeys l.
  Proof. unfold ckeys. induction l as [|x l IH]; cbn; [reflexivity|]. rewrite IH, map_map. reflexivity. Qed.

  Lemma ckeys_in l c np : In (c, np) (ckeys l) <-> exists a x, In a l /\ a_client a = c /\ In x (a_chans a) /\ (c_num x, c_peer x) = np.
  Proof.
    unfold ckeys. rewrite in_flat_map. split.
    - intros (a & Ha & Hin). apply in_map_iff in Hin as (x & E & Hx). inversion E; subst. eauto 6.
    - intros (a & x & Ha & Hc & Hx & E). exists a. split; [exact Ha|]. apply in_map_iff. exists x. rewrite Hc, E. auto.
  Qed.

  Lemma ckeys_nodup l : NoDup (map a_client l) -> Forall (alloc_ok cfg) l -> NoDup (ckeys l).
  Proof.
    induction l as [|x l IH]; cbn; [constructor|]. intros Hnd Hall. inversion Hnd as [|? ? Hx Hl]; subst. inversion Hall as [|? ? Hok Hr]; subst.
    unfold ckeys. cbn [flat_map]. fold (ckeys l). apply NoDup_app_disjoint.
    - destruct Hok as (_ & Hn & _). clear -Hn. induction (a_chans x) as [|c r IH]; cbn; [constructor|].
      inversion Hn as [|? ? Hi Hr]; subst. constructor; [|auto]. intros Hin. apply in_map_iff in Hin as (y & E & Hy).
      inversion E as [[En Ep]]. apply Hi. rewrite <- En. apply in_map. exact Hy.
    - apply IH; assumption.
    - intros [c np] H1 H2. apply in_map_iff in H1 as (y & E & _). inversion E; subst.
      apply ckeys_in in H2 as (a & z & Ha & Hc & _). apply Hx. rewrite <- Hc. apply in_map. exact Ha.
  Qed.

  Lemma cget_in s k : inv cfg s -> (cget s k <> None <-> In k (ckeys (allocs s))).
  Proof.
    intros [Hnd _]. destruct k as [c np]. unfold cget. cbn [fst snd]. rewrite ckeys_in. split.
    - destruct (find_alloc c (allocs s)) as [a|] eqn:Hf; [|congruence]. intros H. apply find_alloc_some in Hf as [Ha Hc].
      destruct (cfind np (a_chans a)) as [x|] eqn:Hx; [|cbn in H; congruence]. unfold cfind in Hx. apply find_some in Hx as [Hx E].
      apply chanpair_eqb_spec in E. exists a, x. auto.
    - intros (a & x & Ha & Hc & Hx & E). rewrite <- Hc, (find_alloc_in_nodup _ _ Hnd Ha).
      destruct (cfind np (a_chans a)) eqn:Hf; [cbn; congruence|]. unfold cfind in Hf.
      apply (find_none _ _ Hf) in Hx. rewrite E, (proj2 (chanpair_eqb_spec np np) eq_refl) in Hx. discriminate.
  Qed.

  Lemma chan_keys_check ce s : inv cfg s -> cagree ce s ->
    mset_eqb ckey_eqb (map fst ce) (flat_map (fun a => map (fun c => (oa_client a, c)) (oa_chans a)) (listing_of s)) = true.
  Proof.
    intros Hinv [Hnd Hag]. rewrite listing_of_map, ckeys_listing. apply mset_eqb_perm.
    apply (keys_perm_of_aget ckey_eqb ckey_eqb_spec); [exact Hnd|destruct Hinv; apply ckeys_nodup; assumption|].
    intros k. rewrite Hag. apply cget_in. exact Hinv.
  Qed.

  (* ---------- the whole specification along every model trace ---------- *)
  Lemma chk_C07_model h : forall s pe ce, inv cfg s -> dl_inv s -> pagree pe s -> cagree ce s ->
    chk_C07_from cfg (now s) pe ce (model_trace cfg s h) = true.
  Proof.
    induction h as [|e r IH]; intros s pe ce Hinv Hd Hp Hc; cbn [model_trace chk_C07_from]; [reflexivity|].
    destruct (step cfg s e) as [s' acts] eqn:Hs. cbn [chk_C07_from os_ev os_acts os_allocs].
    rewrite <- (now_step _ _ _ _ _ Hs).
    pose proof (perm_step cfg Hpos Hsec _ _ _ _ _ ce Hinv Hd Hp Hs) as Hp'.
    pose proof (chan_step _ _ _ _ pe _ Hinv Hd Hc Hs) as Hc'.
    destruct (c07_update cfg (now s') {| os_ev := e; os_acts := acts; os_allocs := listing_of s' |} pe ce) as [pe1 ce1] eqn:Hu.
    cbn [fst snd] in Hp', Hc'.
    pose proof (inv_step _ _ _ _ _ Hinv Hs) as Hinv'.
    cbv beta zeta. apply andb_true_iff. split; [apply andb_true_iff; split|].
    - exact (perm_keys_check cfg _ _ Hinv' Hp').
    - exact (chan_keys_check _ _ Hinv' Hc').
    - apply IH; [exact Hinv'|eapply dl_inv_step; eauto|exact Hp'|exact Hc'].
  Qed.

  (* for every configuration with positive timeouts and a default lifetime of whole seconds, and every history:
     reconstructed from the success responses alone - a successful CreatePermission restarts the full permission
     timeout of every peer it names, a successful ChannelBind restarts the full channel timeout of that binding and the
     permission timeout of its peer, the end of an allocation ends everything it owned - the permissions and channel
     bindings whose timeout has not elapsed are, after EVERY step and at every instant, exactly the ones that exist *)
  Theorem chk_C07_on_model ep h : chk_C07 (model_case cfg ep h) = true.
  Proof.
    unfold chk_C07, model_case. cbn [rc_cfg rc_steps]. change 0 with (now (init ep)).
    apply chk_C07_model; [apply inv_init|constructor|split; [constructor|reflexivity]|split; [constructor|reflexivity]].
  Qed.
End C07c2.
