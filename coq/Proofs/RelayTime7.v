(* C07 at the level of whole histories: the specification the correspondence evaluates on the implementation's observed
   traces - "a permission / channel binding exists exactly until one full timeout after its last successful
   CreatePermission / ChannelBind (or until its allocation goes)", computed from the success responses alone
   (Check/RelayProps.chk_C07) - holds on EVERY trace of the model. The tables chk_C07 reconstructs agree, key by key,
   with the deadlines the model's permissions and channels carry. *)
From Turn Require Import Bytes BytesP ChanData Relay RelayBase RelayInv RelayGates RelayLocal RelayMore RelayBalance.
From Turn Require Import Common RelayCheck RelayProps RelayTrace RelayTime.
From Coq Require Import ZifyN ZifyNat ZifyBool Permutation.
Open Scope Z_scope.

(* ---------- association lists over any key with a decidable equality ---------- *)
Section Assoc.
  Context {K V : Type} (keqb : K -> K -> bool).
  Hypothesis keqb_spec : forall a b, keqb a b = true <-> a = b.

  Lemma keqb_refl a : keqb a a = true.
  Proof. apply keqb_spec. reflexivity. Qed.

  Lemma aget_adel_g (l : list (K * V)) k k' : aget keqb k (adel keqb k' l) = if keqb k k' then None else aget keqb k l.
  Proof.
    induction l as [|[x v] l IH]; cbn [adel aget]; [destruct (keqb k k'); reflexivity|].
    destruct (keqb k' x) eqn:E.
    - apply keqb_spec in E. subst x. rewrite IH. destruct (keqb k k'); reflexivity.
    - cbn [aget]. rewrite IH. destruct (keqb k x) eqn:E2; [|reflexivity].
      apply keqb_spec in E2. subst x. destruct (keqb k k') eqn:E3; [|reflexivity].
      apply keqb_spec in E3. subst k'. rewrite keqb_refl in E. discriminate.
  Qed.

  Lemma aget_aset_g (l : list (K * V)) k k' v : aget keqb k (aset keqb k' v l) = if keqb k k' then Some v else aget keqb k l.
  Proof. unfold aset. cbn [aget]. rewrite aget_adel_g. destruct (keqb k k'); reflexivity. Qed.

  Lemma keys_adel (l : list (K * V)) k' x : In x (map fst (adel keqb k' l)) -> In x (map fst l) /\ x <> k'.
  Proof.
    induction l as [|[y v] l IH]; cbn [adel map]; [intros []|]. destruct (keqb k' y) eqn:E.
    - intros H. apply IH in H as [A B]. split; [right; exact A|exact B].
    - cbn [map fst]. intros [<-|H]; [split; [left; reflexivity|]|apply IH in H as [A B]; split; [right; exact A|exact B]].
      intros ->. rewrite keqb_refl in E. discriminate.
  Qed.

  Lemma nodup_adel (l : list (K * V)) k' : NoDup (map fst l) -> NoDup (map fst (adel keqb k' l)).
  Proof.
    induction l as [|[y v] l IH]; cbn [adel map]; [auto|]. intros H. inversion H as [|? ? Hy Hl]; subst.
    destruct (keqb k' y); [auto|]. cbn [map fst]. constructor; [|auto]. intros Hin. apply keys_adel in Hin as [A _]. contradiction.
  Qed.

  Lemma nodup_aset (l : list (K * V)) k' v : NoDup (map fst l) -> NoDup (map fst (aset keqb k' v l)).
  Proof.
    intros H. unfold aset. cbn [map fst]. constructor; [|apply nodup_adel; exact H].
    intros Hin. apply keys_adel in Hin as [_ B]. congruence.
  Qed.

  Lemma nodup_filter_keys (f : K * V -> bool) (l : list (K * V)) : NoDup (map fst l) -> NoDup (map fst (filter f l)).
  Proof.
    induction l as [|x l IH]; cbn; [auto|]. intros H. inversion H as [|? ? Hx Hl]; subst.
    destruct (f x); cbn; [constructor; [|auto]|auto]. intros Hin. apply Hx.
    apply in_map_iff in Hin as (y & E & Hy). apply filter_In in Hy as [Hy _]. rewrite <- E. apply in_map. exact Hy.
  Qed.

  Lemma aget_filter_keyP (P : K -> bool) (l : list (K * V)) k :
    aget keqb k (filter (fun p => P (fst p)) l) = if P k then aget keqb k l else None.
  Proof.
    induction l as [|[x v] l IH]; cbn [filter aget fst]; [destruct (P k); reflexivity|].
    destruct (P x) eqn:Px; cbn [aget].
    - destruct (keqb k x) eqn:E; [apply keqb_spec in E; subst; rewrite Px; reflexivity|exact IH].
    - destruct (keqb k x) eqn:E; [apply keqb_spec in E; subst; rewrite Px in IH |- *; exact IH|exact IH].
  Qed.

  Lemma aget_none_in (l : list (K * V)) k : aget keqb k l = None <-> ~ In k (map fst l).
  Proof.
    induction l as [|[x v] l IH]; cbn [aget map fst]; [cbn; tauto|]. destruct (keqb k x) eqn:E.
    - apply keqb_spec in E. subst. split; [discriminate|]. intros H. exfalso. apply H. left. reflexivity.
    - rewrite IH. split; intros H; [intros [H1|H1]; [subst; rewrite keqb_refl in E; discriminate|auto]|intros Hin; apply H; right; exact Hin].
  Qed.

  Lemma aget_filter_val (Q : K * V -> bool) (l : list (K * V)) k : NoDup (map fst l) ->
    aget keqb k (filter Q l) = match aget keqb k l with Some v => if Q (k, v) then Some v else None | None => None end.
  Proof.
    induction l as [|[x v] l IH]; cbn [filter aget map fst]; [reflexivity|]. intros H. inversion H as [|? ? Hx Hl]; subst.
    destruct (keqb k x) eqn:E.
    - apply keqb_spec in E. subst x. destruct (Q (k, v)) eqn:Qv; cbn [aget]; [rewrite keqb_refl; reflexivity|].
      rewrite (IH Hl). assert (N : aget keqb k l = None) by (apply aget_none_in; exact Hx). rewrite N. reflexivity.
    - destruct (Q (x, v)); cbn [aget]; [rewrite E|]; apply IH; exact Hl.
  Qed.

  Lemma aget_fold_aset {I} (f : I -> K) (v : V) (ips : list I) (l : list (K * V)) k :
    aget keqb k (fold_right (fun i e => aset keqb (f i) v e) l ips) =
    if existsb (fun i => keqb k (f i)) ips then Some v else aget keqb k l.
  Proof.
    induction ips as [|i r IH]; cbn [fold_right existsb]; [reflexivity|]. rewrite aget_aset_g, IH.
    destruct (keqb k (f i)); reflexivity.
  Qed.

  Lemma nodup_fold_aset {I} (f : I -> K) (v : V) (ips : list I) (l : list (K * V)) :
    NoDup (map fst l) -> NoDup (map fst (fold_right (fun i e => aset keqb (f i) v e) l ips)).
  Proof. intros H. induction ips as [|i r IH]; cbn [fold_right]; [exact H|]. apply nodup_aset. exact IH. Qed.

  (* two duplicate-free tables with the same lookups list the same keys, up to order *)
  Lemma keys_perm_of_aget (l1 : list (K * V)) (ks : list K) :
    NoDup (map fst l1) -> NoDup ks -> (forall k, aget keqb k l1 <> None <-> In k ks) -> Permutation (map fst l1) ks.
  Proof.
    intros H1 H2 H. apply NoDup_Permutation; [exact H1|exact H2|]. intros k. rewrite <- H.
    split; intros A; [intros B; apply aget_none_in in B; contradiction|].
    destruct (in_dec (fun a b => match keqb a b as x return (keqb a b = x -> {a = b} + {a <> b}) with
                                 | true => fun E => left (proj1 (keqb_spec a b) E)
                                 | false => fun E => right (fun Eq => eq_ind_r (fun a0 => keqb a0 b = false -> False)
                                                (fun E0 => Bool.diff_true_false (eq_trans (eq_sym (keqb_refl b)) E0)) Eq E)
                                 end eq_refl) k (map fst l1)) as [I|N]; [exact I|].
    exfalso. apply A. apply aget_none_in. exact N.
  Qed.
End Assoc.

(* ---------- lookups in the model's tables after each kind of change ---------- *)
Lemma find_alloc_replace a a' l c : In a l -> NoDup (map a_client l) -> a_client a' = a_client a ->
  find_alloc c (replace_alloc a' l) = if addr_eqb (a_client a) c then Some a' else find_alloc c l.
Proof.
  induction l as [|x l IH]; cbn; [contradiction|]. intros Hin Hnd Hc. inversion Hnd as [|? ? Hx Hl]; subst.
  rewrite Hc. destruct (addr_eqb (a_client x) (a_client a)) eqn:E.
  - apply addr_eqb_eq in E. cbn [find_alloc]. rewrite Hc, E. destruct (addr_eqb (a_client a) c); reflexivity.
  - cbn [find_alloc]. destruct Hin as [->|Hin]; [rewrite addr_eqb_refl in E; discriminate|].
    destruct (addr_eqb (a_client x) c) eqn:E2.
    + apply addr_eqb_eq in E2. destruct (addr_eqb (a_client a) c) eqn:E3; [|reflexivity].
      apply addr_eqb_eq in E3. apply addr_eqb_neq in E. congruence.
    + apply IH; assumption.
Qed.

Lemma find_alloc_remove c0 l c : NoDup (map a_client l) ->
  find_alloc c (remove_alloc c0 l) = if addr_eqb c0 c then None else find_alloc c l.
Proof.
  induction l as [|x l IH]; cbn; [destruct (addr_eqb c0 c); reflexivity|]. intros Hnd. inversion Hnd as [|? ? Hx Hl]; subst.
  destruct (addr_eqb (a_client x) c0) eqn:E.
  - apply addr_eqb_eq in E. subst c0. destruct (addr_eqb (a_client x) c) eqn:E2; [|reflexivity].
    apply addr_eqb_eq in E2. subst c. apply find_alloc_none. exact Hx.
  - cbn [find_alloc]. destruct (addr_eqb (a_client x) c) eqn:E2.
    + apply addr_eqb_eq in E2. subst c. rewrite addr_eqb_sym, E. reflexivity.
    + apply IH. exact Hl.
Qed.

Lemma find_alloc_app l a c : find_alloc c (l ++ [a]) =
  match find_alloc c l with Some x => Some x | None => if addr_eqb (a_client a) c then Some a else None end.
Proof. induction l as [|x l IH]; cbn; [reflexivity|]. destruct (addr_eqb (a_client x) c); [reflexivity|exact IH]. Qed.

Lemma tick_alloc_client t a a' ev : tick_alloc t a = (Some a', ev) -> a_client a' = a_client a.
Proof. unfold tick_alloc. destruct (a_dl a <=? t); intros H; inversion H; reflexivity. Qed.

Lemma find_alloc_tick t l c : NoDup (map a_client l) -> forall l' ev, tick_allocs t l = (l', ev) ->
  find_alloc c l' = match find_alloc c l with Some a => fst (tick_alloc t a) | None => None end.
Proof.
  induction l as [|x l IH]; cbn [tick_allocs find_alloc]; intros Hnd l' ev H; [inversion H; reflexivity|].
  inversion Hnd as [|? ? Hx Hl]; subst.
  destruct (tick_alloc t x) as [oa e1] eqn:H1. destruct (tick_allocs t l) as [r e2] eqn:H2.
  inversion H; subst; clear H. specialize (IH Hl _ _ eq_refl).
  destruct (addr_eqb (a_client x) c) eqn:E.
  - apply addr_eqb_eq in E. subst c. rewrite H1. destruct oa as [a'|]; cbn [fst].
    + cbn [find_alloc]. rewrite (tick_alloc_client _ _ _ _ H1), addr_eqb_refl. reflexivity.
    + rewrite IH. assert (N : find_alloc (a_client x) l = None) by (apply find_alloc_none; exact Hx). rewrite N. reflexivity.
  - destruct oa as [a'|]; [|exact IH]. cbn [find_alloc]. rewrite (tick_alloc_client _ _ _ _ H1), E. exact IH.
Qed.

(* permissions *)
Lemma find_perm_upsert i j dl l :
  option_map p_dl (find_perm i (upsert_perm j dl l)) = if (j =? i)%N then Some dl else option_map p_dl (find_perm i l).
Proof.
  induction l as [|y l IH]; cbn [upsert_perm find_perm].
  - cbn. destruct (j =? i)%N; reflexivity.
  - destruct (N.eqb_spec (p_ip y) j) as [E|E]; cbn [find_perm p_ip].
    + subst j. destruct (p_ip y =? i)%N; reflexivity.
    + destruct (N.eqb_spec (p_ip y) i) as [E2|E2]; [|exact IH]. subst i. destruct (N.eqb_spec j (p_ip y)); [congruence|reflexivity].
Qed.

Lemma add_perm_find a i dl a' ev j : add_perm a i dl = (a', ev) ->
  option_map p_dl (find_perm j (a_perms a')) = if (i =? j)%N then Some dl else option_map p_dl (find_perm j (a_perms a)).
Proof. unfold add_perm. intros H. inversion H; subst. cbn [a_perms]. apply find_perm_upsert. Qed.

Lemma install_perms_find dl peers j : forall a a' ev, install_perms a dl peers = (a', ev) ->
  option_map p_dl (find_perm j (a_perms a')) =
  if existsb (fun i => (j =? i)%N) (peer_ips peers) then Some dl else option_map p_dl (find_perm j (a_perms a)).
Proof.
  induction peers as [|[p|] r IH]; cbn [install_perms peer_ips flat_map app existsb]; intros a a' ev H.
  - inversion H; reflexivity.
  - destruct (add_perm a (ip p) dl) as [a1 e1] eqn:H1. destruct (install_perms a1 dl r) as [a2 e2] eqn:H2.
    inversion H; subst. rewrite (IH _ _ _ H2), (add_perm_find _ _ _ _ _ j H1). rewrite (N.eqb_sym j (ip p)).
    destruct (ip p =? j)%N; cbn; destruct (existsb _ _); reflexivity.
  - eapply IH; eauto.
Qed.

Lemma find_perm_filter t i l : NoDup (map p_ip l) ->
  find_perm i (filter (live_perm t) l) = match find_perm i l with Some p => if t <? p_dl p then Some p else None | None => None end.
Proof.
  induction l as [|y l IH]; cbn [filter find_perm map]; [reflexivity|]. intros H. inversion H as [|? ? Hy Hl]; subst.
  unfold live_perm at 1. destruct (N.eqb_spec (p_ip y) i) as [E|E].
  - subst i. destruct (t <? p_dl y); cbn [find_perm]; [rewrite N.eqb_refl; reflexivity|].
    rewrite (IH Hl). assert (N0 : find_perm (p_ip y) l = None) by (apply find_perm_none; exact Hy). rewrite N0. reflexivity.
  - destruct (t <? p_dl y); cbn [find_perm]; [destruct (N.eqb_spec (p_ip y) i); [contradiction|]|]; apply IH; exact Hl.
Qed.

(* ---------- the model's permission table as a function ---------- *)
Definition pget (s : state) (k : pkey) : option Z :=
  match find_alloc (fst k) (allocs s) with
  | Some a => option_map p_dl (find_perm (snd k) (a_perms a))
  | None => None
  end.

(* what the step's success response adds, as chk_C07 reads it *)
Definition pupd (cfg : config) (t : Z) (e : event) (acts : list action) (F : pkey -> option Z) (k : pkey) : option Z :=
  match e with
  | EReq src _ _ (RqCreatePerm peers) _ =>
      match success_of MCreatePerm acts with
      | Some _ => if addr_eqb (fst k) src && existsb (fun i => (snd k =? i)%N) (peer_ips peers) then Some (t + cfg_perm_timeout cfg) else F k
      | None => F k end
  | EReq src _ _ (RqChannelBind (APresent n) (Some (PeerOk p))) _ =>
      match success_of MChannelBind acts with
      | Some _ => if addr_eqb (fst k) src && (snd k =? ip p)%N then Some (t + cfg_perm_timeout cfg) else F k
      | None => F k end
  | _ => F k
  end.

Definition keep (s' : state) (k : pkey) (o : option Z) : option Z :=
  match o with Some v => if present s' (fst k) && (now s' <? v) then Some v else None | None => None end.

Lemma present_find s c : present s c = match find_alloc c (allocs s) with Some _ => true | None => false end.
Proof. unfold present. rewrite listing_of_map, find_oalloc_listing. destruct (find_alloc c (allocs s)); reflexivity. Qed.

(* a stored permission is alive: its allocation exists and its deadline lies ahead *)
Lemma keep_pget s k : dl_inv s -> keep s k (pget s k) = pget s k.
Proof.
  intros Hd. unfold keep, pget. rewrite present_find. destruct (find_alloc (fst k) (allocs s)) as [a|] eqn:Hf; [|reflexivity].
  destruct (find_perm (snd k) (a_perms a)) as [p|] eqn:Hp; [|reflexivity]. cbn [option_map andb].
  apply find_alloc_some in Hf as [Ha _]. apply find_perm_some in Hp as [Hp _].
  unfold dl_inv in Hd. rewrite Forall_forall in Hd. destruct (Hd _ Ha) as (_ & Hpl & _). specialize (Hpl _ Hp).
  destruct (Z.ltb_spec (now s) (p_dl p)); [reflexivity|lia].
Qed.

Section C07p.
  Variable cfg : config.
  Hypothesis Hpos : cfg_positive cfg.

  Lemma pget_create_perm s src tid uid peers s' acts k : inv cfg s -> dl_inv s ->
    h_create_perm cfg s src tid uid peers = (s', acts) ->
    pget s' k = keep s' k (pupd cfg (now s') (EReq src tid (Build_cred None false NonceAbsent None None) (RqCreatePerm peers) false) acts (pget s) k).
  Proof.
    intros Hinv Hd H. pose proof Hinv as [Hnd _]. unfold pupd. unfold h_create_perm in H.
    assert (Same : (s', acts) = (s, []) \/ (exists x, (s', acts) = (s, [Error src MCreatePerm tid x false])) ->
              pget s' k = keep s' k (match success_of MCreatePerm acts with Some _ => if addr_eqb (fst k) src && existsb (fun i => (snd k =? i)%N) (peer_ips peers) then Some (now s' + cfg_perm_timeout cfg) else pget s k | None => pget s k end)).
    { intros [E|(x & E)]; inversion E; subst; cbn [success_of find]; rewrite keep_pget; auto. }
    destruct (owned_alloc s src uid) as [a|] eqn:Ho; [|apply Same; left; exact (eq_sym H)].
    apply owned_alloc_some in Ho as (Ha & Hcl & _).
    destruct (perm_check cfg a peers); [apply Same; right; eexists; exact (eq_sym H)|].
    destruct peers as [|q peers]; [apply Same; right; eexists; exact (eq_sym H)|].
    destruct (install_perms a (now s + cfg_perm_timeout cfg) (q :: peers)) as [a1 evs] eqn:Hi.
    inversion H; subst s' acts; clear H.
    rewrite (success_of_life MCreatePerm evs _ (install_perms_life _ _ _ _ _ Hi)). cbn [success_of find method_eqb].
    pose proof (install_perms_dl _ _ _ _ _ Hi) as [_ Hc1].
    unfold pget at 1. cbn [allocs set_allocs now]. rewrite (find_alloc_replace a a1 _ _ Ha Hnd Hc1), Hcl.
    rewrite (addr_eqb_sym (fst k) src). destruct (addr_eqb src (fst k)) eqn:E; cbn [andb].
    - rewrite (install_perms_find _ _ (snd k) _ _ _ Hi). unfold keep. rewrite present_find. cbn [allocs set_allocs now].
      rewrite (find_alloc_replace a a1 _ _ Ha Hnd Hc1), Hcl, E.
      destruct (existsb _ _).
      + destruct Hpos as (_ & Hp & _). destruct (Z.ltb_spec (now s) (now s + cfg_perm_timeout cfg)); [reflexivity|lia].
      + apply addr_eqb_eq in E. assert (Hf : find_alloc (fst k) (allocs s) = Some a) by (rewrite <- E, <- Hcl; apply find_alloc_in_nodup; assumption).
        pose proof (keep_pget s k Hd) as Kp. unfold keep, pget in Kp. rewrite present_find, Hf in Kp. unfold pget. rewrite Hf.
        destruct (option_map p_dl (find_perm (snd k) (a_perms a))); [|reflexivity]. cbn [andb] in Kp |- *. exact (eq_sym Kp).
    - pose proof (keep_pget s k Hd) as Kp. unfold keep in *. rewrite present_find in *. cbn [allocs set_allocs now].
      rewrite (find_alloc_replace a a1 _ _ Ha Hnd Hc1), Hcl, E. unfold pget in *.
      destruct (find_alloc (fst k) (allocs s)); [|reflexivity]. exact (eq_sym Kp).
  Qed.
End C07p.
