(* C15 on the Relay model: created/deleted lifecycle callbacks balance against what exists. *)
From Turn Require Import Bytes ChanData Relay RelayBase RelayInv RelayGates RelayLocal.
From Coq Require Import ZifyN ZifyNat ZifyBool.
Open Scope Z_scope.

(* net number of allocations / permissions / channels announced by a list of actions *)
Definition wA (a : action) : Z := match a with Life (LAllocCreated _ _ _) => 1 | Life (LAllocDeleted _ _) => -1 | _ => 0 end.
Definition wP (a : action) : Z := match a with Life (LPermCreated _ _) => 1 | Life (LPermDeleted _ _) => -1 | _ => 0 end.
Definition wC (a : action) : Z := match a with Life (LChanCreated _ _ _) => 1 | Life (LChanDeleted _ _ _) => -1 | _ => 0 end.
Definition sumw (w : action -> Z) (l : list action) : Z := fold_right (fun a z => w a + z) 0 l.

Lemma sumw_app w a b : sumw w (a ++ b) = sumw w a + sumw w b.
Proof. induction a as [|x a IH]; cbn; [reflexivity|]. unfold sumw in *. lia. Qed.

Definition nA (l : list alloc) : Z := Z.of_nat (length l).
Definition nP (l : list alloc) : Z := fold_right (fun a z => Z.of_nat (length (a_perms a)) + z) 0 l.
Definition nC (l : list alloc) : Z := fold_right (fun a z => Z.of_nat (length (a_chans a)) + z) 0 l.

Lemma nP_app a b : nP (a ++ b) = nP a + nP b.
Proof. induction a as [|x a IH]; cbn; [reflexivity|]. unfold nP in *. lia. Qed.
Lemma nC_app a b : nC (a ++ b) = nC a + nC b.
Proof. induction a as [|x a IH]; cbn; [reflexivity|]. unfold nC in *. lia. Qed.

Lemma sumw_map_const {A} (w : action -> Z) (f : A -> action) (l : list A) k :
  (forall x, w (f x) = k) -> sumw w (map f l) = k * Z.of_nat (length l).
Proof. intros H. induction l as [|x l IH]; cbn [map length sumw fold_right]; [lia|]. fold (sumw w (map f l)). rewrite IH, H. lia. Qed.

Lemma close_events_w a :
  sumw wA (close_events a) = -1 /\ sumw wP (close_events a) = - Z.of_nat (length (a_perms a)) /\
  sumw wC (close_events a) = - Z.of_nat (length (a_chans a)).
Proof.
  unfold close_events. rewrite !sumw_app.
  rewrite (sumw_map_const wA _ (a_perms a) 0), (sumw_map_const wA _ (a_chans a) 0) by reflexivity.
  rewrite (sumw_map_const wP _ (a_perms a) (-1)), (sumw_map_const wP _ (a_chans a) 0) by reflexivity.
  rewrite (sumw_map_const wC _ (a_perms a) 0), (sumw_map_const wC _ (a_chans a) (-1)) by reflexivity.
  cbn [sumw fold_right wA wP wC]. lia.
Qed.

(* replacing / removing the allocation of one client, under uniqueness *)
Lemma replace_counts a a' l : NoDup (map a_client l) -> In a l -> a_client a' = a_client a ->
  nA (replace_alloc a' l) = nA l /\
  nP (replace_alloc a' l) = nP l - Z.of_nat (length (a_perms a)) + Z.of_nat (length (a_perms a')) /\
  nC (replace_alloc a' l) = nC l - Z.of_nat (length (a_chans a)) + Z.of_nat (length (a_chans a')).
Proof.
  intros Hnd Hin Hc. induction l as [|x l IH]; [destruct Hin|]. cbn [replace_alloc].
  inversion Hnd as [|? ? Hx Hl]; subst. rewrite Hc.
  destruct (addr_eqb (a_client x) (a_client a)) eqn:E.
  - apply addr_eqb_eq in E. destruct Hin as [->|Hin].
    + unfold nA, nP, nC. cbn [length fold_right]. lia.
    + exfalso. apply Hx. rewrite E. apply in_map. assumption.
  - apply addr_eqb_neq in E. destruct Hin as [->|Hin]; [congruence|].
    destruct (IH Hl Hin) as (I1 & I2 & I3). unfold nA, nP, nC in *. cbn [length fold_right] in *. lia.
Qed.

Lemma remove_counts a l : NoDup (map a_client l) -> In a l ->
  nA (remove_alloc (a_client a) l) = nA l - 1 /\
  nP (remove_alloc (a_client a) l) = nP l - Z.of_nat (length (a_perms a)) /\
  nC (remove_alloc (a_client a) l) = nC l - Z.of_nat (length (a_chans a)).
Proof.
  intros Hnd Hin. induction l as [|x l IH]; [destruct Hin|]. cbn [remove_alloc].
  inversion Hnd as [|? ? Hx Hl]; subst.
  destruct (addr_eqb (a_client x) (a_client a)) eqn:E.
  - apply addr_eqb_eq in E. destruct Hin as [->|Hin].
    + unfold nA, nP, nC. cbn [length fold_right]. lia.
    + exfalso. apply Hx. rewrite E. apply in_map. assumption.
  - apply addr_eqb_neq in E. destruct Hin as [->|Hin]; [congruence|].
    destruct (IH Hl Hin) as (I1 & I2 & I3). unfold nA, nP, nC in *. cbn [length fold_right] in *. lia.
Qed.

Lemma upsert_perm_length i dl l :
  length (upsert_perm i dl l) = (length l + match find_perm i l with Some _ => 0 | None => 1 end)%nat.
Proof.
  induction l as [|x l IH]; cbn; [reflexivity|]. destruct (N.eqb_spec (p_ip x) i); cbn; [lia|]. rewrite IH. lia.
Qed.

Lemma add_perm_counts a i dl a' ev : add_perm a i dl = (a', ev) ->
  Z.of_nat (length (a_perms a')) = Z.of_nat (length (a_perms a)) + sumw wP ev /\ sumw wA ev = 0 /\ sumw wC ev = 0 /\
  a_chans a' = a_chans a.
Proof.
  unfold add_perm. intros H. inversion H; subst; clear H. cbn. rewrite upsert_perm_length.
  destruct (find_perm i (a_perms a)); cbn; repeat split; lia.
Qed.

Lemma install_perms_counts dl peers : forall a a' ev, install_perms a dl peers = (a', ev) ->
  Z.of_nat (length (a_perms a')) = Z.of_nat (length (a_perms a)) + sumw wP ev /\ sumw wA ev = 0 /\ sumw wC ev = 0 /\
  a_chans a' = a_chans a.
Proof.
  induction peers as [|q peers IH]; cbn [install_perms]; intros a a' ev H.
  - inversion H; subst. cbn. repeat split; lia.
  - destruct q as [q|]; [|eauto].
    destruct (add_perm a (ip q) dl) as [a1 e1] eqn:H1. destruct (install_perms a1 dl peers) as [a2 e2] eqn:H2.
    inversion H; subst. apply add_perm_counts in H1 as (A1 & A2 & A3 & A4). apply IH in H2 as (B1 & B2 & B3 & B4).
    rewrite !sumw_app. repeat split; try lia. congruence.
Qed.

Lemma refresh_chan_length n dl l : length (refresh_chan n dl l) = length l.
Proof. rewrite <- (map_length c_num), refresh_chan_nums, map_length. reflexivity. Qed.

Lemma filter_length_split {A} (f : A -> bool) (l : list A) :
  (length (filter f l) + length (filter (fun x => negb (f x)) l) = length l)%nat.
Proof. induction l as [|x l IH]; cbn; [reflexivity|]. destruct (f x); cbn; lia. Qed.

Lemma tick_alloc_counts t a oa ev : tick_alloc t a = (oa, ev) ->
  match oa with
  | Some a' => sumw wA ev = 0 /\
               Z.of_nat (length (a_perms a')) = Z.of_nat (length (a_perms a)) + sumw wP ev /\
               Z.of_nat (length (a_chans a')) = Z.of_nat (length (a_chans a)) + sumw wC ev
  | None => sumw wA ev = -1 /\ sumw wP ev = - Z.of_nat (length (a_perms a)) /\ sumw wC ev = - Z.of_nat (length (a_chans a))
  end.
Proof.
  unfold tick_alloc. destruct (a_dl a <=? t); intros H; inversion H; subst; clear H; [apply close_events_w|].
  cbn. rewrite !sumw_app.
  rewrite (sumw_map_const wA _ _ 0), (sumw_map_const wA _ _ 0) by reflexivity.
  rewrite (sumw_map_const wP _ _ (-1)), (sumw_map_const wP _ _ 0) by reflexivity.
  rewrite (sumw_map_const wC _ _ 0), (sumw_map_const wC _ _ (-1)) by reflexivity.
  pose proof (filter_length_split (live_perm t) (a_perms a)). pose proof (filter_length_split (live_chan t) (a_chans a)).
  repeat split; lia.
Qed.

Lemma tick_allocs_counts t l : forall l' ev, tick_allocs t l = (l', ev) ->
  nA l' = nA l + sumw wA ev /\ nP l' = nP l + sumw wP ev /\ nC l' = nC l + sumw wC ev.
Proof.
  induction l as [|a l IH]; cbn [tick_allocs]; intros l' ev H; [inversion H; subst; cbn; lia|].
  destruct (tick_alloc t a) as [oa e1] eqn:H1. destruct (tick_allocs t l) as [r e2] eqn:H2.
  inversion H; subst; clear H. specialize (IH _ _ eq_refl) as (I1 & I2 & I3).
  apply tick_alloc_counts in H1. rewrite !sumw_app.
  destruct oa as [a'|]; unfold nA, nP, nC in *; cbn [length fold_right] in *; lia.
Qed.

Ltac inv_pair H := inversion H; subst; clear H.

Lemma close_all_w l :
  sumw wA (flat_map close_events l) = - nA l /\ sumw wP (flat_map close_events l) = - nP l /\
  sumw wC (flat_map close_events l) = - nC l.
Proof.
  induction l as [|a l (I1 & I2 & I3)]; cbn [flat_map]; [cbn; lia|]. rewrite !sumw_app.
  destruct (close_events_w a) as (W1 & W2 & W3). unfold nA, nP, nC in *. cbn [length fold_right]. lia.
Qed.

Theorem balance_step cfg s e s' acts : inv cfg s -> step cfg s e = (s', acts) ->
  nA (allocs s') = nA (allocs s) + sumw wA acts /\
  nP (allocs s') = nP (allocs s) + sumw wP acts /\
  nC (allocs s') = nC (allocs s) + sumw wC acts.
Proof.
  intros Hinv H. pose proof Hinv as [Hnd Hall].
  assert (Same : forall (st : state) (l : list action), st = s -> sumw wA l = 0 -> sumw wP l = 0 -> sumw wC l = 0 ->
            nA (allocs st) = nA (allocs s) + sumw wA l /\ nP (allocs st) = nP (allocs s) + sumw wP l /\
            nC (allocs st) = nC (allocs s) + sumw wC l) by (intros; subst; lia).
  destruct e as [src tid c r unk|src p d|src n d|relay from d|dt|relay|csrc| |]; cbn [step] in H.
  - destruct unk; [inv_pair H; apply Same; reflexivity|].
    destruct r as [tr lt fam df rp ep rt mt|lt fam|peers|n p|]; try (inv_pair H; apply Same; reflexivity);
      destruct (authenticate cfg s c) as [uid|code ch]; try (inv_pair H; apply Same; reflexivity).
    + unfold h_allocate in H. repeat (dmatch H; try (inv_pair H; apply Same; reflexivity)).
      all: inv_pair H; cbn [allocs set_allocs add_rsv]; rewrite nP_app, nC_app; unfold nA; rewrite app_length; cbn; lia.
    + unfold h_refresh in H. cbv zeta in H.
      destruct (owned_alloc s src uid) as [a|] eqn:Ho; [|inv_pair H; apply Same; reflexivity].
      apply owned_alloc_some in Ho as (Hin & Hc & Hu).
      repeat (dmatch H; try (inv_pair H; apply Same; reflexivity)).
      all: inv_pair H; cbn [allocs set_allocs].
      all: try (rewrite !sumw_app; destruct (close_events_w a) as (W1 & W2 & W3);
                destruct (remove_counts a (allocs s) Hnd Hin) as (R1 & R2 & R3); cbn; lia).
      all: destruct (replace_counts a (set_dl a (now s + granted_lifetime cfg lt)) (allocs s) Hnd Hin eq_refl) as (R1 & R2 & R3);
           cbn in *; lia.
    + unfold h_create_perm in H.
      destruct (owned_alloc s src uid) as [a|] eqn:Ho; [|inv_pair H; apply Same; reflexivity].
      apply owned_alloc_some in Ho as (Hin & Hc & Hu).
      destruct (perm_check cfg a peers); [inv_pair H; apply Same; reflexivity|].
      destruct peers as [|q peers]; [inv_pair H; apply Same; reflexivity|].
      destruct (install_perms a _ (q :: peers)) as [a' evs] eqn:Hi. inv_pair H. cbn [allocs set_allocs].
      assert (Hca : a_client a' = a_client a).
      { assert (Hok : alloc_ok cfg a) by (rewrite Forall_forall in Hall; auto).
        (* client is preserved by install_perms *)
        clear -Hi. revert a a' evs Hi. generalize (q :: peers) as ps. generalize (now s + cfg_perm_timeout cfg) as dl.
        intros dl ps. induction ps as [|y ps IH]; cbn [install_perms]; intros a a' evs Hi; [inversion Hi; reflexivity|].
        destruct y as [y|]; [|eauto]. destruct (add_perm a (ip y) dl) as [b1 f1] eqn:G1.
        destruct (install_perms b1 dl ps) as [b2 f2] eqn:G2. inversion Hi; subst.
        apply IH in G2. unfold add_perm in G1. inversion G1; subst. exact G2. }
      apply install_perms_counts in Hi as (B1 & B2 & B3 & B4).
      destruct (replace_counts a a' (allocs s) Hnd Hin Hca) as (R1 & R2 & R3).
      rewrite !sumw_app. cbn. rewrite B4 in R3. lia.
    + unfold h_channel_bind in H.
      destruct (owned_alloc s src uid) as [a|] eqn:Ho; [|inv_pair H; apply Same; reflexivity].
      apply owned_alloc_some in Ho as (Hin & Hc & Hu).
      repeat (dmatch H; try (inv_pair H; apply Same; reflexivity)).
      all: inv_pair H; cbn [allocs set_allocs].
      all: match goal with Ha : add_perm ?a1 _ _ = (?a2, ?e2) |- _ =>
             pose proof (add_perm_counts _ _ _ _ _ Ha) as (B1 & B2 & B3 & B4);
             assert (Hca : a_client a2 = a_client a) by (unfold add_perm in Ha; inversion Ha; reflexivity);
             destruct (replace_counts a a2 (allocs s) Hnd Hin Hca) as (R1 & R2 & R3)
           end.
      all: rewrite !sumw_app; cbn [sumw fold_right wA wP wC a_perms a_chans set_chans] in *; rewrite B4 in R3;
           cbn [a_chans set_chans] in R3.
      all: try rewrite refresh_chan_length in R3.
      all: try (rewrite app_length in R3; cbn [length] in R3).
      all: lia.
  - apply h_send_spec in H as [-> [->|(a & q & dd & pm & -> & _)]]; cbn; lia.
  - apply h_chandata_spec in H as [-> [->|(a & c & -> & _)]]; cbn; lia.
  - apply h_peer_spec in H as [-> [->|(a & _ & _ & _ & [(c & _ & ->)|(_ & pm & _ & ->)])]]; cbn; lia.
  - unfold h_tick in H. destruct (tick_allocs _ _) as [l evs] eqn:Ht. inv_pair H. cbn [allocs].
    eapply tick_allocs_counts; eassumption.
  - unfold h_relay_err in H. destruct (find_relay relay (allocs s)) as [a|] eqn:Hf; [|inv_pair H; apply Same; reflexivity].
    inv_pair H. cbn [allocs set_allocs]. apply find_relay_some in Hf as [Hin _].
    destruct (close_events_w a) as (W1 & W2 & W3). destruct (remove_counts a (allocs s) Hnd Hin) as (R1 & R2 & R3). lia.
  - unfold h_ctl_close in H. destruct (find_alloc csrc (allocs s)) as [a|] eqn:Hf; [|inv_pair H; apply Same; reflexivity].
    inv_pair H. cbn [allocs set_allocs]. apply find_alloc_some in Hf as [Hin _].
    destruct (close_events_w a) as (W1 & W2 & W3). destruct (remove_counts a (allocs s) Hnd Hin) as (R1 & R2 & R3). lia.
  - inv_pair H. cbn [allocs set_allocs]. destruct (close_all_w (allocs s)) as (W1 & W2 & W3).
    unfold nA at 1, nP at 1, nC at 1. cbn [length fold_right]. lia.
  - inv_pair H. apply Same; reflexivity.
Qed.

(* over whole histories: callbacks announced so far balance exactly against what exists now *)
Theorem balance_run cfg h : forall s, inv cfg s ->
  let '(s', outs) := run cfg s h in
  nA (allocs s') = nA (allocs s) + sumw wA (concat outs) /\
  nP (allocs s') = nP (allocs s) + sumw wP (concat outs) /\
  nC (allocs s') = nC (allocs s) + sumw wC (concat outs).
Proof.
  induction h as [|e h IH]; intros s Hinv; cbn [run]; [cbn; lia|].
  destruct (step cfg s e) as [s1 a] eqn:Hs. specialize (IH s1 (inv_step _ _ _ _ _ Hinv Hs)).
  destruct (run cfg s1 h) as [s2 as_] eqn:Hr. cbn [concat]. rewrite !sumw_app.
  destruct (balance_step _ _ _ _ _ Hinv Hs) as (B1 & B2 & B3). lia.
Qed.

Corollary balance_from_start cfg ep h :
  let '(s', outs) := run cfg (init ep) h in
  sumw wA (concat outs) = nA (allocs s') /\ sumw wP (concat outs) = nP (allocs s') /\ sumw wC (concat outs) = nC (allocs s').
Proof.
  pose proof (balance_run cfg h (init ep) (inv_init cfg ep)) as H.
  destruct (run cfg (init ep) h) as [s' outs]. cbn in H. lia.
Qed.

(* when every allocation has ended (for whatever mix of reasons) every Created has had its Deleted *)
Corollary all_ended_all_paired cfg ep h :
  let '(s', outs) := run cfg (init ep) h in
  allocs s' = [] -> sumw wA (concat outs) = 0 /\ sumw wP (concat outs) = 0 /\ sumw wC (concat outs) = 0.
Proof.
  pose proof (balance_from_start cfg ep h) as H. destruct (run cfg (init ep) h) as [s' outs].
  intros E. rewrite E in H. cbn in H. exact H.
Qed.
